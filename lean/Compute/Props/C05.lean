import Compute.Model.Matmul
import Compute.Model.DotTrait
import Compute.Lemmas.Mat
import Compute.Lemmas.C05Loops
import Compute.Lemmas.C05Spec
import Mathlib.Algebra.BigOperators.Ring.Finset
/-
C05 — matrix products follow the definition for every shape and transpose flag.

Theorems about the model of `src/linalg/utils.rs` (`transpose`, `matmul`, `matmul_blocked`, `xtx`:
`Compute/Model/Matmul.lean`) and of `src/linalg/array/dot.rs` (`Compute/Model/DotTrait.lean` + the wiring
table `Compute/Generated/C05Wiring.lean` regenerated from the source on every run), for all shapes.
Algebraic statements are over an arbitrary commutative semiring; the statements that compare the two
kernels with each other need no algebraic law at all (hence hold for `Float` as well).
-/
namespace Cv.C05
open Cv Cv.C05W Cv.C05L Cv.DotT

/-! ## transpose -/

section anyScalar
variable {α : Type} [Inhabited α]

/-- **transpose_get.** On an `r × c` matrix `transpose` returns a value of length `c·r` whose entry `(j,i)` is
entry `(i,j)` of the argument. -/
theorem transpose_get (a : List α) (r c : Nat) (h : a.length = r * c) (hr : 0 < r) :
    ∃ t, transpose a r = some t ∧ t.length = c * r ∧
      ∀ i j, i < r → j < c → t[j * r + i]! = a[i * c + j]! :=
  ⟨transposeCore a r c, by simp [transpose, isMatrix_of_len h hr], transposeCore_length a r c,
    fun i j hi hj => transposeCore_get a r c i j hi hj⟩

/-- `transpose` panics when the row count does not divide the length (or is 0). -/
theorem transpose_rejects (a : List α) (r : Nat) (h : ¬ (0 < r ∧ r ∣ a.length)) : transpose a r = none := by
  cases hm : isMatrix a r with
  | none => simp [transpose, hm]
  | some c =>
    obtain ⟨h1, h2⟩ := isMatrix_some hm
    exact absurd ⟨h1, ⟨c, h2⟩⟩ h

example : transpose ([1, 2, 3, 4, 5, 6] : List Nat) 2 = some [1, 4, 2, 5, 3, 6] := by decide +kernel
example : transpose ([1, 2, 3, 4, 5, 6] : List Nat) 4 = none := by decide +kernel

/-! ## rejection of non-conformable operands (`none` = panic) -/

variable [Add α] [Mul α] [Zero α]

/-- **matmul_rejects.** Two well-formed matrices whose inner dimensions differ are rejected. -/
theorem matmul_rejects (a b : List α) (ra ca rb cb : Nat) (ta tb : Bool)
    (ha : a.length = ra * ca) (hb : b.length = rb * cb) (hra : 0 < ra) (hrb : 0 < rb)
    (hin : (if ta then ra else ca) ≠ (if tb then cb else rb)) :
    matmul a b ra rb ta tb = none := by
  simp [matmul, matmulChecks_mismatch a b ra ca rb cb ta tb ha hb hra hrb hin]

theorem matmulBlocked_rejects (a b : List α) (ra ca rb cb : Nat) (ta tb : Bool) (bsize : Nat)
    (ha : a.length = ra * ca) (hb : b.length = rb * cb) (hra : 0 < ra) (hrb : 0 < rb)
    (hin : (if ta then ra else ca) ≠ (if tb then cb else rb)) :
    matmulBlocked a b ra rb ta tb bsize = none := by
  simp [matmulBlocked, matmulChecks_mismatch a b ra ca rb cb ta tb ha hb hra hrb hin]

/-- An operand that is not a matrix with the given number of rows is rejected by both kernels. -/
theorem matmul_rejects_malformed (a b : List α) (ra rb : Nat) (ta tb : Bool) (bsize : Nat)
    (h : ¬ (0 < ra ∧ ra ∣ a.length) ∨ ¬ (0 < rb ∧ rb ∣ b.length)) :
    matmul a b ra rb ta tb = none ∧ matmulBlocked a b ra rb ta tb bsize = none := by
  have hc : matmulChecks a b ra rb ta tb = none := by
    unfold matmulChecks
    cases hA : isMatrix a ra with
    | none => simp
    | some ca =>
      cases hB : isMatrix b rb with
      | none => simp
      | some cb =>
        obtain ⟨a1, a2⟩ := isMatrix_some hA
        obtain ⟨b1, b2⟩ := isMatrix_some hB
        rcases h with h | h
        · exact absurd ⟨a1, ⟨ca, a2⟩⟩ h
        · exact absurd ⟨b1, ⟨cb, b2⟩⟩ h
  simp [matmul, matmulBlocked, hc]

/-- Block size 0 panics (`n / bsize`). -/
theorem matmulBlocked_bsize_zero (a b : List α) (ra rb : Nat) (ta tb : Bool) :
    matmulBlocked a b ra rb ta tb 0 = none := by
  unfold matmulBlocked
  cases matmulChecks a b ra rb ta tb with
  | none => rfl
  | some p =>
    simp only []
    cases maybeTranspose a ra ta <;> cases maybeTranspose b rb tb <;> simp

example : matmul ([1, 2, 3, 4, 5, 6] : List Int) [1, 2, 3, 4, 5, 6, 7, 8] 2 4 false false = none := by
  decide +kernel
example : (6 : Nat) = 2 * 3 ∧ (8 : Nat) = 4 * 2 ∧ (if false then 2 else 3) ≠ (if false then 2 else 4) := by decide

/-! ## blocked = plain, for every scalar type -/

/-- **matmulBlocked_eq (flags not both set).** For every block size ≥ 1, every scalar type (no algebraic
law is used, so this covers `Float` bit for bit) and *all* inputs — malformed ones included — the blocked
kernel returns exactly what `matmul` returns: every cell accumulates the same products in the same
order `k = 0, 1, …`. -/
theorem matmulBlocked_eq_of_not_both (a b : List α) (ra rb : Nat) (ta tb : Bool) (bsize : Nat)
    (hbs : 0 < bsize) (hf : (ta && tb) = false) :
    matmulBlocked a b ra rb ta tb bsize = matmul a b ra rb ta tb :=
  C05L.matmulBlocked_eq_of_not_both a b ra rb ta tb bsize hbs hf

/-- **matmulBlocked_eq.** With both flags set `matmul` evaluates `(B·A)ᵀ`, i.e. multiplies the factors of each
product in the other order; the results coincide as soon as scalar multiplication is commutative
(true of every commutative semiring, and of IEEE multiplication). -/
theorem matmulBlocked_eq (hcomm : ∀ x y : α, x * y = y * x) (a b : List α) (ra rb : Nat) (ta tb : Bool)
    (bsize : Nat) (hbs : 0 < bsize) :
    matmulBlocked a b ra rb ta tb bsize = matmul a b ra rb ta tb := by
  by_cases hf : (ta && tb) = false
  · exact C05L.matmulBlocked_eq_of_not_both a b ra rb ta tb bsize hbs hf
  · have hta : ta = true := by cases ta <;> simp_all
    have htb : tb = true := by cases tb <;> simp_all
    subst hta htb
    cases hC : matmulChecks a b ra rb true true with
    | none => simp [matmul, matmulBlocked, hC]
    | some p =>
      obtain ⟨ca, cb⟩ := p
      -- the checks passed: both operands are matrices with matching inner dimensions
      have hwf : a.length = ra * ca ∧ b.length = rb * cb ∧ 0 < ra ∧ 0 < rb ∧ ra = cb := by
        unfold matmulChecks at hC
        cases hA : isMatrix a ra with
        | none => simp [hA] at hC
        | some ca' =>
          cases hB : isMatrix b rb with
          | none => simp [hA, hB] at hC
          | some cb' =>
            simp only [hA, hB, if_true] at hC
            by_cases hin : ra = cb'
            · simp only [hin, if_true, Option.some.injEq, Prod.mk.injEq] at hC
              obtain ⟨rfl, rfl⟩ := hC
              obtain ⟨a1, a2⟩ := isMatrix_some hA
              obtain ⟨b1, b2⟩ := isMatrix_some hB
              exact ⟨a2, b2, a1, b1, hin⟩
            · simp [hin] at hC
      obtain ⟨ha, hb, hra, hrb, hin⟩ := hwf
      obtain ⟨c1, e1, l1, g1⟩ := matmulBlocked_entry a b ra ca rb cb true true bsize hbs ha hb hra hrb (by simpa using hin)
      obtain ⟨c2, e2, l2, g2⟩ := matmul_entry a b ra ca rb cb true true ha hb hra hrb (by simpa using hin)
      rw [e1, e2]
      congr 1
      simp only [if_true] at l1 l2 g1 g2
      apply List.ext_getElem (by rw [l1, l2])
      intro p hp1 hp2
      rw [l1] at hp1
      have hn : 0 < rb := hrb
      have hi : p / rb < ca := by rw [Nat.div_lt_iff_lt_mul hn]; exact hp1
      have hj : p % rb < rb := Nat.mod_lt p hn
      have hpe : p / rb * rb + p % rb = p := by rw [Nat.mul_comm]; exact Nat.div_add_mod p rb
      have q1 := g1 _ _ hi hj
      have q2 := g2 _ _ hi hj
      rw [hpe] at q1 q2
      rw [← getElem!_pos c1 p (by rw [l1]; exact hp1), ← getElem!_pos c2 p hp2, q1, q2]
      apply cellFold_congr
      intro k _
      simp [hcomm]

example : matmulBlocked ([1, 2, 3, 4, 5, 6] : List Int) [1, 2, 3, 4, 5, 6, 7, 8] 2 4 true true 3 =
    some [9, 19, 29, 39, 12, 26, 40, 54, 15, 33, 51, 69] := by decide +kernel

/-- The same statement at Lean's IEEE `Float` (the type the compiled model driver runs at): a kernel-checked
bit-identity of the two kernels for the three flag pairs without the shortcut.  For the pair (true, true) the
identity additionally needs `x * y = y * x` on `Float`, which Lean cannot prove (`Float.mul` is opaque); there it is
the correspondence check (blocked vs. plain replies compared bit for bit) that confirms it. -/
theorem matmulBlocked_eq_float (a b : List Float) (ra rb : Nat) (ta tb : Bool) (bsize : Nat)
    (hbs : 0 < bsize) (hf : (ta && tb) = false) :
    matmulBlocked a b ra rb ta tb bsize = matmul a b ra rb ta tb :=
  C05L.matmulBlocked_eq_of_not_both a b ra rb ta tb bsize hbs hf

end anyScalar

/-! ## the definition: entries are `Σ_k op(A)[i,k] · op(B)[k,j]` (commutative semiring) -/

section semiring
variable {α : Type} [Inhabited α] [CommSemiring α]

theorem cellFold_eq_sum (f : Nat → α) (l : Nat) : cellFold f l = ∑ k ∈ Finset.range l, f k := by
  unfold cellFold
  induction l with
  | zero => simp
  | succ l ih => rw [List.range_succ, List.foldl_append, ih, Finset.sum_range_succ]; simp

/-- **matmul_spec.** For each of the four flag pairs: on an `ra × ca` and an `rb × cb` matrix whose inner
dimensions (after applying the flags) agree, `matmul` returns a value with `m·n` entries and entry `(i,j)` is
`Σ_k op(A)[i,k] · op(B)[k,j]`, where `op(A)` is `m × l`, `op(B)` is `l × n`. -/
theorem matmul_spec (a b : List α) (ra ca rb cb : Nat) (ta tb : Bool)
    (ha : a.length = ra * ca) (hb : b.length = rb * cb) (hra : 0 < ra) (hrb : 0 < rb)
    (hin : (if ta then ra else ca) = (if tb then cb else rb)) :
    ∃ c, matmul a b ra rb ta tb = some c ∧
      c.length = (if ta then ca else ra) * (if tb then rb else cb) ∧
      ∀ i j, i < (if ta then ca else ra) → j < (if tb then rb else cb) →
        c[i * (if tb then rb else cb) + j]! =
          ∑ k ∈ Finset.range (if ta then ra else ca), opEntry a ca ta i k * opEntry b cb tb k j := by
  obtain ⟨c, h1, h2, h3⟩ := matmul_entry a b ra ca rb cb ta tb ha hb hra hrb hin
  refine ⟨c, h1, h2, fun i j hi hj => ?_⟩
  rw [h3 i j hi hj, cellFold_eq_sum]
  apply Finset.sum_congr rfl
  intro k _
  split
  · exact mul_comm _ _
  · rfl

/-- The four flag pairs spelled out (entries of the stored operands). -/
theorem matmul_spec_NN (a b : List α) (m l n : Nat) (ha : a.length = m * l) (hb : b.length = l * n)
    (hm : 0 < m) (hl : 0 < l) :
    ∃ c, matmul a b m l false false = some c ∧ c.length = m * n ∧
      ∀ i j, i < m → j < n → c[i * n + j]! = ∑ k ∈ Finset.range l, a[i * l + k]! * b[k * n + j]! := by
  simpa [opEntry] using matmul_spec a b m l l n false false ha hb hm hl (by simp)

theorem matmul_spec_TN (a b : List α) (m l n : Nat) (ha : a.length = l * m) (hb : b.length = l * n)
    (hl : 0 < l) :
    ∃ c, matmul a b l l true false = some c ∧ c.length = m * n ∧
      ∀ i j, i < m → j < n → c[i * n + j]! = ∑ k ∈ Finset.range l, a[k * m + i]! * b[k * n + j]! := by
  simpa [opEntry] using matmul_spec a b l m l n true false ha hb hl hl (by simp)

theorem matmul_spec_NT (a b : List α) (m l n : Nat) (ha : a.length = m * l) (hb : b.length = n * l)
    (hm : 0 < m) (hn : 0 < n) :
    ∃ c, matmul a b m n false true = some c ∧ c.length = m * n ∧
      ∀ i j, i < m → j < n → c[i * n + j]! = ∑ k ∈ Finset.range l, a[i * l + k]! * b[j * l + k]! := by
  simpa [opEntry] using matmul_spec a b m l n l false true ha hb hm hn (by simp)

/-- Both flags (the path repaired by F12): `AᵀBᵀ` for `A : l × m`, `B : n × l`. -/
theorem matmul_spec_TT (a b : List α) (m l n : Nat) (ha : a.length = l * m) (hb : b.length = n * l)
    (hl : 0 < l) (hn : 0 < n) :
    ∃ c, matmul a b l n true true = some c ∧ c.length = m * n ∧
      ∀ i j, i < m → j < n → c[i * n + j]! = ∑ k ∈ Finset.range l, a[k * m + i]! * b[j * l + k]! := by
  simpa [opEntry] using matmul_spec a b l m n l true true ha hb hl hn (by simp)

/-- Non-vacuity: the F12 witness shapes (2×3)ᵀ·(4×2)ᵀ. -/
example : matmul ([1, 2, 3, 4, 5, 6] : List Int) [1, 2, 3, 4, 5, 6, 7, 8] 2 4 true true =
    some [9, 19, 29, 39, 12, 26, 40, 54, 15, 33, 51, 69] := by decide +kernel

/-- The both-transposed branch as it was before the repair F12:
`transpose(&matmul(a, b, rows_a, rows_b, false, false), cols_a)`, i.e. `(A·B)ᵀ = BᵀAᵀ` instead of `AᵀBᵀ`. -/
def matmulLegacyTT (a b : List α) (rowsA rowsB : Nat) : Option (List α) :=
  match isMatrix a rowsA with
  | none => none
  | some colsA =>
    match matmul a b rowsA rowsB false false with
    | none => none
    | some r => transpose r colsA

/-- **F12 (legacy negation).** The legacy branch violates the definition already on 2×2 operands: entry (0,1) of
`AᵀBᵀ` for `A = [[1,2],[3,4]]`, `B = [[0,1],[0,0]]` is `Σ_k A[k,0]·B[1,k] = 0`, the legacy code returns 1;
the repaired `matmul` returns the value required by `matmul_spec_TT`. -/
theorem legacyTT_violates_spec :
    matmulLegacyTT ([1, 2, 3, 4] : List Int) [0, 1, 0, 0] 2 2 = some [0, 0, 1, 3] ∧
    matmul ([1, 2, 3, 4] : List Int) [0, 1, 0, 0] 2 2 true true = some [3, 0, 4, 0] ∧
    (∑ k ∈ Finset.range 2, ([1, 2, 3, 4] : List Int)[k * 2 + 0]! * ([0, 1, 0, 0] : List Int)[1 * 2 + k]!) = 0 := by
  refine ⟨by decide +kernel, by decide +kernel, by decide⟩

/-- **matmulBlocked_spec.** The blocked kernel satisfies the same definition for every block size ≥ 1. -/
theorem matmulBlocked_spec (a b : List α) (ra ca rb cb : Nat) (ta tb : Bool) (bsize : Nat) (hbs : 0 < bsize)
    (ha : a.length = ra * ca) (hb : b.length = rb * cb) (hra : 0 < ra) (hrb : 0 < rb)
    (hin : (if ta then ra else ca) = (if tb then cb else rb)) :
    ∃ c, matmulBlocked a b ra rb ta tb bsize = some c ∧
      c.length = (if ta then ca else ra) * (if tb then rb else cb) ∧
      ∀ i j, i < (if ta then ca else ra) → j < (if tb then rb else cb) →
        c[i * (if tb then rb else cb) + j]! =
          ∑ k ∈ Finset.range (if ta then ra else ca), opEntry a ca ta i k * opEntry b cb tb k j := by
  obtain ⟨c, h1, h2, h3⟩ := matmulBlocked_entry a b ra ca rb cb ta tb bsize hbs ha hb hra hrb hin
  exact ⟨c, h1, h2, fun i j hi hj => by rw [h3 i j hi hj, cellFold_eq_sum]⟩

/-- Blocked = plain in a commutative semiring, all flags, all inputs, every block size ≥ 1. -/
theorem matmulBlocked_eq_semiring (a b : List α) (ra rb : Nat) (ta tb : Bool) (bsize : Nat) (hbs : 0 < bsize) :
    matmulBlocked a b ra rb ta tb bsize = matmul a b ra rb ta tb :=
  matmulBlocked_eq (fun x y => mul_comm x y) a b ra rb ta tb bsize hbs

/-! ## `xtx` -/

/-- **xtx_spec / xtx_symm.** For a `k × p` matrix, `xtx x k` is the `p × p` matrix `XᵀX`, and it is symmetric. -/
theorem xtx_spec (x : List α) (k p : Nat) (h : x.length = k * p) (hk : 0 < k) :
    ∃ c, xtx x k = some c ∧ c.length = p * p ∧
      (∀ i j, i < p → j < p → c[i * p + j]! = ∑ r ∈ Finset.range k, x[r * p + i]! * x[r * p + j]!) ∧
      (∀ i j, i < p → j < p → c[i * p + j]! = c[j * p + i]!) := by
  obtain ⟨c, h1, h2, h3⟩ := matmul_spec_TN x x p k p h h hk
  refine ⟨c, h1, h2, h3, fun i j hi hj => ?_⟩
  rw [h3 i j hi hj, h3 j i hj hi]
  exact Finset.sum_congr rfl (fun r _ => mul_comm _ _)

example : xtx ([1, 2, 3, 4, 5, 6] : List Int) 2 = some [17, 22, 27, 22, 29, 36, 27, 36, 45] := by decide +kernel

end semiring

/-! ## the `Dot` trait: wiring table (regenerated from `dot.rs`) and its meaning -/

/-- **Dot wiring (Matrix·Matrix).** `dot, t_dot, dot_t, t_dot_t` carry the flag pairs (F,F), (T,F), (F,T), (T,T);
every row hands `(self.nrows, other.nrows)` to `matmul`, asserts equality of exactly the inner dimensions of
`op(self)·op(other)` and builds the output with the outer ones. -/
theorem wiring_matMat :
    matMat.map (fun r => (r.meth, r.ta, r.tb)) =
      [(.dot, false, false), (.tDot, true, false), (.dotT, false, true), (.tDotT, true, true)] ∧
    ∀ r ∈ matMat, r.rowsArgA = .selfRows ∧ r.rowsArgB = .otherRows ∧
      r.assertL = (if r.ta then .selfRows else .selfCols) ∧
      r.assertR = (if r.tb then .otherCols else .otherRows) ∧
      r.outRows = (if r.ta then .selfCols else .selfRows) ∧
      r.outCols = (if r.tb then .otherRows else .otherCols) := by decide

/-- **Dot wiring (vector promotion).** Matrix·Vector ignores the flag on the vector (`dot_t ↦ dot`, `t_dot_t ↦ t_dot`),
Vector·Matrix ignores the flag on the vector (`t_dot ↦ dot`, `t_dot_t ↦ dot_t`), Vector·Vector is `utils::dot`
for all four names, and all 4 × 4 (operand kinds × ownership forms) impls exist. -/
theorem wiring_promotion :
    (∀ m : Meth, matVec.lookup m = some (match m with | .dot => .dot | .dotT => .dot | .tDot => .tDot | .tDotT => .tDot)) ∧
    (∀ m : Meth, vecMat.lookup m = some (match m with | .dot => .dot | .tDot => .dot | .dotT => .dotT | .tDotT => .dotT)) ∧
    (∀ m : Meth, m ∈ vecVec) ∧
    (∀ k : Kind, ∀ s o : Bool, (k, s, o) ∈ impls) ∧ impls.length = 16 := by
  refine ⟨?_, ?_, ?_, ?_, ?_⟩
  · intro m; cases m <;> decide
  · intro m; cases m <;> decide
  · intro m; cases m <;> decide
  · intro k s o; cases k <;> cases s <;> cases o <;> decide
  · decide

/-- Transpose flags of a method name. -/
def flagA : Meth → Bool | .dot => false | .tDot => true | .dotT => false | .tDotT => true
def flagB : Meth → Bool | .dot => false | .tDot => false | .dotT => true | .tDotT => true

section dotSemantics
variable {α : Type} [Inhabited α]

section
variable [Add α] [Mul α] [Zero α]

/-- What a Matrix·Matrix method does, with the table unfolded: assert on the inner dimensions, `matmul` with
the method's flags, `Matrix::new` with the outer dimensions. -/
theorem dotMM_unfold (meth : Meth) (s o : Mat α) :
    dotMM meth s o =
      (if (if flagA meth then s.nrows else s.ncols) = (if flagB meth then o.ncols else o.nrows) then
         match matmul s.data o.data s.nrows o.nrows (flagA meth) (flagB meth) with
         | none => none
         | some out => matrixNew out (if flagA meth then s.ncols else s.nrows) (if flagB meth then o.nrows else o.ncols)
       else none) := by
  cases meth <;> simp [dotMM, mmRow, matMat, runRow, dimOf, flagA, flagB] <;> split <;> simp_all <;> rfl

/-- **Vector·Vector** is `utils::dot` (with its length assert) for all four method names. -/
theorem dotVV_eq (meth : Meth) (x y : List α) : dotVV meth x y = dot? x y := by
  cases meth <;> simp [dotVV, vecVec]

/-- **Vector·Matrix**: the vector is promoted to the `1 × n` row; the flag on the vector is ignored. -/
theorem dotVM_eq (meth : Meth) (v : List α) (o : Mat α) :
    dotVM meth v o =
      (dotMM (match meth with | .dot => .dot | .tDot => .dot | .dotT => .dotT | .tDotT => .dotT) ⟨v, 1, v.length⟩ o).map (·.data) := by
  unfold dotVM
  rw [wiring_promotion.2.1 meth]
  simp [toMatrix, matrixNew]

theorem transposeCore_row (v : List α) : transposeCore v 1 v.length = v := by
  apply List.ext_getElem
  · rw [transposeCore_length]; simp
  · intro k h1 h2
    have := transposeCore_get v 1 v.length 0 k (by omega) h2
    simp only [Nat.mul_one, Nat.add_zero, Nat.zero_mul, Nat.zero_add] at this
    rw [← getElem!_pos _ k h1, ← getElem!_pos v k h2, this]

/-- **Matrix·Vector**: the vector is promoted to the `n × 1` column (`to_matrix` then `t_mut`, which leaves the
data unchanged); the flag on the vector is ignored. -/
theorem dotMV_eq (meth : Meth) (s : Mat α) (v : List α) :
    dotMV meth s v =
      (dotMM (match meth with | .dot => .dot | .dotT => .dot | .tDot => .tDot | .tDotT => .tDot) s ⟨v, v.length, 1⟩).map (·.data) := by
  have hm : isMatrix v 1 = some v.length := isMatrix_of_len (by simp) (by omega)
  unfold dotMV
  rw [wiring_promotion.1 meth]
  simp [toMatrix, matrixNew, tMut, transpose, hm, transposeCore_row]

end

variable [CommSemiring α]

/-- **Dot semantics (Matrix·Matrix).** For well-formed operands whose inner dimensions (after the method's flags)
agree, the method returns the `m × n` matrix with entries `Σ_k op(self)[i,k]·op(other)[k,j]`. -/
theorem dotMM_spec (meth : Meth) (s o : Mat α) (hs : s.WF) (ho : o.WF) (hsr : 0 < s.nrows) (hor : 0 < o.nrows)
    (hin : (if flagA meth then s.nrows else s.ncols) = (if flagB meth then o.ncols else o.nrows)) :
    ∃ r, dotMM meth s o = some r ∧
      r.nrows = (if flagA meth then s.ncols else s.nrows) ∧
      r.ncols = (if flagB meth then o.nrows else o.ncols) ∧ r.WF ∧
      ∀ i j, i < r.nrows → j < r.ncols →
        r.get i j = ∑ k ∈ Finset.range (if flagA meth then s.nrows else s.ncols),
          opEntry s.data s.ncols (flagA meth) i k * opEntry o.data o.ncols (flagB meth) k j := by
  obtain ⟨c, h1, h2, h3⟩ := matmul_spec s.data o.data s.nrows s.ncols o.nrows o.ncols (flagA meth) (flagB meth)
    hs ho hsr hor hin
  refine ⟨⟨c, if flagA meth then s.ncols else s.nrows, if flagB meth then o.nrows else o.ncols⟩, ?_, rfl, rfl, h2, ?_⟩
  · rw [dotMM_unfold]; simp [hin, h1, matrixNew, h2]
  · intro i j hi hj
    exact h3 i j hi hj

/-- Non-conformable operands make every Matrix·Matrix method panic. -/
theorem dotMM_rejects (meth : Meth) (s o : Mat α)
    (hin : (if flagA meth then s.nrows else s.ncols) ≠ (if flagB meth then o.ncols else o.nrows)) :
    dotMM meth s o = none := by
  rw [dotMM_unfold]; simp [hin]

/-- **Dot semantics (Matrix·Vector).** `dot`/`dot_t` give `M·v` (needs `ncols = len v`), `t_dot`/`t_dot_t` give `Mᵀ·v`
(needs `nrows = len v`): entry `i` is `Σ_k op(M)[i,k]·v[k]`. -/
theorem dotMV_spec (meth : Meth) (s : Mat α) (v : List α) (hs : s.WF) (hsr : 0 < s.nrows) (hv : 0 < v.length)
    (hin : (if flagA meth then s.nrows else s.ncols) = v.length) :
    ∃ r, dotMV meth s v = some r ∧ r.length = (if flagA meth then s.ncols else s.nrows) ∧
      ∀ i, i < r.length → r[i]! = ∑ k ∈ Finset.range v.length, opEntry s.data s.ncols (flagA meth) i k * v[k]! := by
  rw [dotMV_eq]
  have key : ∀ inner : Meth, flagA inner = flagA meth → flagB inner = false →
      ∃ r, (dotMM inner s ⟨v, v.length, 1⟩).map (·.data) = some r ∧
        r.length = (if flagA meth then s.ncols else s.nrows) ∧
        ∀ i, i < r.length → r[i]! = ∑ k ∈ Finset.range v.length, opEntry s.data s.ncols (flagA meth) i k * v[k]! := by
    intro inner hA hB
    obtain ⟨r, h1, h2, h3, h4, h5⟩ := dotMM_spec inner s ⟨v, v.length, 1⟩ hs (by simp [Mat.WF]) hsr hv
      (by rw [hA, hB]; simpa using hin)
    rw [hA] at h2; rw [hB] at h3
    simp only [Bool.false_eq_true, if_false] at h3
    have hl : r.data.length = (if flagA meth then s.ncols else s.nrows) := by
      have := h4; simp only [Mat.WF] at this; rw [this, h2, h3]; simp
    refine ⟨r.data, by simp [h1], hl, ?_⟩
    intro i hi
    have := h5 i 0 (by rw [h2, ← hl]; exact hi) (by rw [h3]; omega)
    simp only [Mat.get, h3, Nat.mul_one, Nat.add_zero] at this
    rw [this, hA, hB, hin]
    apply Finset.sum_congr rfl
    intro k _
    simp [opEntry]
  cases meth
  · exact key .dot rfl rfl
  · exact key .tDot rfl rfl
  · exact key .dot rfl rfl
  · exact key .tDot rfl rfl

/-- **Dot semantics (Vector·Matrix).** `dot`/`t_dot` give `vᵀ·M` (needs `len v = nrows`), `dot_t`/`t_dot_t` give `vᵀ·Mᵀ`
(needs `len v = ncols`): entry `j` is `Σ_k v[k]·op(M)[k,j]`. -/
theorem dotVM_spec (meth : Meth) (v : List α) (o : Mat α) (ho : o.WF) (hor : 0 < o.nrows)
    (hin : v.length = (if flagB meth then o.ncols else o.nrows)) :
    ∃ r, dotVM meth v o = some r ∧ r.length = (if flagB meth then o.nrows else o.ncols) ∧
      ∀ j, j < r.length → r[j]! = ∑ k ∈ Finset.range v.length, v[k]! * opEntry o.data o.ncols (flagB meth) k j := by
  rw [dotVM_eq]
  have key : ∀ inner : Meth, flagA inner = false → flagB inner = flagB meth →
      ∃ r, (dotMM inner ⟨v, 1, v.length⟩ o).map (·.data) = some r ∧
        r.length = (if flagB meth then o.nrows else o.ncols) ∧
        ∀ j, j < r.length → r[j]! = ∑ k ∈ Finset.range v.length, v[k]! * opEntry o.data o.ncols (flagB meth) k j := by
    intro inner hA hB
    obtain ⟨r, h1, h2, h3, h4, h5⟩ := dotMM_spec inner ⟨v, 1, v.length⟩ o (by simp [Mat.WF]) ho (by simp) hor
      (by rw [hA, hB]; simpa using hin)
    rw [hA] at h2; rw [hB] at h3
    simp only [Bool.false_eq_true, if_false] at h2
    have hl : r.data.length = (if flagB meth then o.nrows else o.ncols) := by
      have := h4; simp only [Mat.WF] at this; rw [this, h2, h3]; simp
    refine ⟨r.data, by simp [h1], hl, ?_⟩
    intro j hj
    have := h5 0 j (by rw [h2]; omega) (by rw [h3, ← hl]; exact hj)
    simp only [Mat.get, Nat.zero_mul, Nat.zero_add] at this
    rw [this, hA, hB]
    apply Finset.sum_congr rfl
    intro k _
    simp [opEntry]
  cases meth
  · exact key .dot rfl rfl
  · exact key .dot rfl rfl
  · exact key .dotT rfl rfl
  · exact key .dotT rfl rfl

omit [Inhabited α] in
theorem foldl_add_sum (l : List α) (s : α) : l.foldl (· + ·) s = s + l.sum := by
  induction l generalizing s with
  | nil => simp
  | cons x xs ih => simp [ih, add_assoc]

omit [Inhabited α] in
/-- The 8-way unrolled kernel `utils::dot` is the sum of the products. -/
theorem dot8Go_eq (s : α) (x y : List α) : dot8Go s x y = s + (List.zipWith (· * ·) x y).sum := by
  fun_induction dot8Go s x y with
  | case1 s x0 x1 x2 x3 x4 x5 x6 x7 xs y0 y1 y2 y3 y4 y5 y6 y7 ys ih =>
    rw [ih]; simp only [List.zipWith_cons_cons, List.sum_cons]; simp only [add_assoc]
  | case2 s xs ys _ => exact foldl_add_sum _ _

/-- **Dot semantics (Vector·Vector).** All four method names return the inner product `Σ_k x[k]·y[k]` of two vectors
of equal length, and panic on different lengths. -/
theorem dotVV_spec (meth : Meth) (x y : List α) :
    dotVV meth x y = if x.length = y.length then some (List.zipWith (· * ·) x y).sum else none := by
  rw [dotVV_eq]
  unfold dot? dot8
  split
  · rw [dot8Go_eq]; simp
  · rfl

example : dotMM .tDotT (⟨[1, 2, 3, 4, 5, 6], 2, 3⟩ : Mat Int) ⟨[1, 2, 3, 4, 5, 6, 7, 8], 4, 2⟩ =
    some ⟨[9, 19, 29, 39, 12, 26, 40, 54, 15, 33, 51, 69], 3, 4⟩ := by decide +kernel
example : dotMM .dot (⟨[1, 2, 3, 4, 5, 6], 2, 3⟩ : Mat Int) ⟨[1, 2, 3, 4, 5, 6, 7, 8], 4, 2⟩ = none := by
  decide +kernel
example : dotMV .tDotT (⟨[1, 2, 3, 4, 5, 6], 2, 3⟩ : Mat Int) [1, 10] = some [41, 52, 63] := by decide +kernel
example : dotVM .tDotT ([1, 10, 100] : List Int) ⟨[1, 2, 3, 4, 5, 6], 2, 3⟩ = some [321, 654] := by decide +kernel
example : dotVV .tDotT ([1, 2, 3] : List Int) [4, 5, 6] = some 32 := by decide +kernel

end dotSemantics

end Cv.C05
