//! C13 executor: autocovariance/autocorrelation, differencing and the AR model through the public
//! API of `compute::timeseries` (and `compute::linalg::toeplitz`).
//! Requests (`tag` = free-form regime label, ignored):
//!   `acovf <tag> <k> <vec ts>` / `acf <tag> <k> <vec ts>`      -> `= <float>`
//!   `acs <tag> <kmax> <vec ts>`   acovf and acf at every lag -kmax..kmax -> `= <vec acovf> <vec acf>`
//!   `diff <tag> <vec v>`                                       -> `= <vec>`
//!   `toeplitz <tag> <vec x>`                                   -> `= <vec>`
//!   `ar_fit <tag> <p> <vec data>`                              -> `= <intercept> <vec coeffs>` (coeffs as stored)
//!   `ar_pred1 <tag> <intercept> <vec coeffs> <vec hist>`       -> `= <float>`   (state set through the pub fields)
//!   `ar_pred <tag> <intercept> <vec coeffs> <h> <vec hist>`    -> `= <vec>`
//!   `ar_fp <tag> <p> <h> <vec data>`   fit, predict_one(data), predict(data, h)
//!                                                              -> `= <intercept> <vec coeffs> <pred1> <vec preds>`
//!   `ar_refit <tag> <p> <h> <k> <vec s1> … <vec sk>`   ONE `AR::new(p)` object fitted on s1, re-fitted on s2, …;
//!        after each fit: `<intercept> <vec coeffs> <vec predict(s_i, h)>` (k blocks in one reply)
use compute::linalg::toeplitz;
use compute::timeseries::{acf, acovf, difference, AR};
use cvexec::*;

fn with_state(intercept: f64, coeffs: Vec<f64>) -> AR {
    let mut ar = AR::new(coeffs.len().max(1));
    ar.p = coeffs.len();
    ar.coeffs = coeffs;
    ar.intercept = intercept;
    ar
}

fn step(_: &mut (), t: &mut Toks) -> R<String> {
    let op = t.tok()?;
    let _tag = t.tok()?;
    match op {
        "acovf" | "acf" => {
            let k = t.i32()?;
            let ts = t.vec()?;
            t.end()?;
            let r = if op == "acovf" { acovf(&ts, k) } else { acf(&ts, k) };
            Ok(ok(show_f(r)))
        }
        "acs" => {
            let kmax = t.i32()?;
            let ts = t.vec()?;
            t.end()?;
            let a: Vec<f64> = (-kmax..=kmax).map(|k| acovf(&ts, k)).collect();
            let b: Vec<f64> = (-kmax..=kmax).map(|k| acf(&ts, k)).collect();
            Ok(ok(format!("{} {}", show_vec(&a), show_vec(&b))))
        }
        "diff" => {
            let v = t.vec()?;
            t.end()?;
            Ok(ok(show_vec(&difference(v))))
        }
        "toeplitz" => {
            let x = t.vec()?;
            t.end()?;
            Ok(ok(show_vec(&toeplitz(&x))))
        }
        "ar_fit" => {
            let p = t.usize()?;
            let data = t.vec()?;
            t.end()?;
            let mut ar = AR::new(p);
            ar.fit(&data);
            Ok(ok(format!("{} {}", show_f(ar.intercept), show_vec(&ar.coeffs))))
        }
        "ar_pred1" => {
            let ic = t.f64()?;
            let coeffs = t.vec()?;
            let hist = t.vec()?;
            t.end()?;
            let ar = with_state(ic, coeffs);
            Ok(ok(show_f(ar.predict_one(&hist))))
        }
        "ar_pred" => {
            let ic = t.f64()?;
            let coeffs = t.vec()?;
            let h = t.usize()?;
            let hist = t.vec()?;
            t.end()?;
            let ar = with_state(ic, coeffs);
            Ok(ok(show_vec(&ar.predict(&hist, h))))
        }
        "ar_fp" => {
            let p = t.usize()?;
            let h = t.usize()?;
            let data = t.vec()?;
            t.end()?;
            let mut ar = AR::new(p);
            ar.fit(&data);
            let p1 = ar.predict_one(&data);
            let ps = ar.predict(&data, h);
            Ok(ok(format!(
                "{} {} {} {}",
                show_f(ar.intercept),
                show_vec(&ar.coeffs),
                show_f(p1),
                show_vec(&ps)
            )))
        }
        "ar_refit" => {
            let p = t.usize()?;
            let h = t.usize()?;
            let k = t.usize()?;
            let mut series = Vec::new();
            for _ in 0..k {
                series.push(t.vec()?);
            }
            t.end()?;
            let mut ar = AR::new(p);
            let mut out: Vec<String> = Vec::new();
            for s in series.iter() {
                ar.fit(s);
                out.push(show_f(ar.intercept));
                out.push(show_vec(&ar.coeffs));
                out.push(show_vec(&ar.predict(s, h)));
            }
            Ok(ok(out.join(" ")))
        }
        _ => Err(BadOp),
    }
}

fn main() {
    run((), step);
}
