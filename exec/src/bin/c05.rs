//! C05 executor: `transpose`, `matmul`, `matmul_blocked`, `xtx` and every `Dot` impl of `compute`.
//! Requests: see /verif/lean/Compute/Drv/C05.lean.  The `d**` ops carry the ownership form `own`
//! after the method name: bit 1 = the receiver type is a reference (`impl Dot<..> for &X`),
//! bit 0 = the argument type is a reference (`Dot<&Y, ..>`); the impl is selected explicitly.
use compute::linalg::{matmul, matmul_blocked, transpose, xtx, Dot};
use compute::prelude::{Matrix, Vector};
use cvexec::*;

macro_rules! meth {
    ($S:ty, $O:ty, $R:ty, $m:expr, $s:expr, $o:expr) => {
        match $m {
            "dot" => <$S as Dot<$O, $R>>::dot($s, $o),
            "t_dot" => <$S as Dot<$O, $R>>::t_dot($s, $o),
            "dot_t" => <$S as Dot<$O, $R>>::dot_t($s, $o),
            "t_dot_t" => <$S as Dot<$O, $R>>::t_dot_t($s, $o),
            _ => return Err(BadOp),
        }
    };
}

macro_rules! forms {
    ($S:ty, $O:ty, $R:ty, $m:expr, $own:expr, $a:expr, $b:expr) => {
        match $own {
            0 => meth!($S, $O, $R, $m, &$a, $b),
            1 => meth!($S, &$O, $R, $m, &$a, &$b),
            2 => meth!(&$S, $O, $R, $m, &&$a, $b),
            3 => meth!(&$S, &$O, $R, $m, &&$a, &$b),
            _ => return Err(BadOp),
        }
    };
}

/// Forms for operands that live in a session slot (`$a: &S`, `$b: &O`): the borrowed-argument forms (1, 3) pass the
/// slot itself, so `$a` and `$b` may be the very same object; the owned-argument forms pass a clone.
macro_rules! sforms {
    ($S:ty, $O:ty, $R:ty, $m:expr, $own:expr, $a:expr, $b:expr) => {
        match $own {
            0 => meth!($S, $O, $R, $m, $a, $b.clone()),
            1 => meth!($S, &$O, $R, $m, $a, $b),
            2 => meth!(&$S, $O, $R, $m, &$a, $b.clone()),
            3 => meth!(&$S, &$O, $R, $m, &$a, $b),
            _ => return Err(BadOp),
        }
    };
}

/// State of one `ses` line: raw buffers, `Matrix` objects and `Vector` objects in numbered slots.
#[derive(Default)]
struct Ses {
    bufs: std::collections::HashMap<usize, Vec<f64>>,
    mats: std::collections::HashMap<usize, Matrix>,
    vecs: std::collections::HashMap<usize, Vector>,
}

fn sl<'a>(st: &'a Ses, s: usize, o: usize, l: usize) -> R<&'a [f64]> {
    let b = st.bufs.get(&s).ok_or(BadOp)?;
    if o + l > b.len() {
        return Err(BadOp);
    }
    Ok(&b[o..o + l])
}

/// One command of a session.  Commands: see /verif/lean/Compute/Drv/C05.lean.
fn ses_cmd(st: &mut Ses, t: &mut Toks) -> R<String> {
    let done = ok(String::new());
    let op = t.tok()?;
    match op {
        // a slot is always emptied first, and the new object is allocated right after the old one was dropped
        "v" => {
            let s = t.usize()?;
            let tmp = t.vec()?;
            t.end()?;
            st.bufs.remove(&s);
            let fresh = tmp.clone();
            if std::env::var_os("CV_C05_ADDR").is_some() {
                eprintln!("buf {} {:p} {}", s, fresh.as_ptr(), fresh.len());
            }
            st.bufs.insert(s, fresh);
            Ok(done)
        }
        "p" => {
            let (s, i, x) = (t.usize()?, t.usize()?, t.f64()?);
            t.end()?;
            let b = st.bufs.get_mut(&s).ok_or(BadOp)?;
            if i >= b.len() {
                return Err(BadOp);
            }
            b[i] = x;
            Ok(done)
        }
        "d" => {
            let s = t.usize()?;
            t.end()?;
            st.bufs.remove(&s);
            Ok(done)
        }
        "M" => {
            let (s, r, c) = (t.usize()?, t.usize()?, t.usize()?);
            let tmp = t.f64s(r * c)?;
            t.end()?;
            st.mats.remove(&s);
            let m = Matrix::new(tmp.clone(), r as i32, c as i32);
            if std::env::var_os("CV_C05_ADDR").is_some() {
                eprintln!("mat {} {:p} {}", s, m.data.as_ptr(), m.data.len());
            }
            st.mats.insert(s, m);
            Ok(done)
        }
        "pM" => {
            let (s, i, x) = (t.usize()?, t.usize()?, t.f64()?);
            t.end()?;
            let m = st.mats.get_mut(&s).ok_or(BadOp)?;
            if i >= m.data.len() {
                return Err(BadOp);
            }
            m.data[i] = x;
            Ok(done)
        }
        "dM" => {
            let s = t.usize()?;
            t.end()?;
            st.mats.remove(&s);
            Ok(done)
        }
        "V" => {
            let s = t.usize()?;
            let tmp = t.vec()?;
            t.end()?;
            st.vecs.remove(&s);
            st.vecs.insert(s, Vector::from(tmp.clone()));
            Ok(done)
        }
        "pV" => {
            let (s, i, x) = (t.usize()?, t.usize()?, t.f64()?);
            t.end()?;
            let v = st.vecs.get_mut(&s).ok_or(BadOp)?;
            if i >= v.len() {
                return Err(BadOp);
            }
            v[i] = x;
            Ok(done)
        }
        "dV" => {
            let s = t.usize()?;
            t.end()?;
            st.vecs.remove(&s);
            Ok(done)
        }
        "mm" | "mb" => {
            let blocked = op == "mb";
            let (ta, tb) = (flag(t)?, flag(t)?);
            let (ra, rb) = (t.usize()?, t.usize()?);
            let bs = if blocked { t.usize()? } else { 0 };
            let (sa, oa, la) = (t.usize()?, t.usize()?, t.usize()?);
            let (sb, ob, lb) = (t.usize()?, t.usize()?, t.usize()?);
            t.end()?;
            let a = sl(st, sa, oa, la)?;
            let b = sl(st, sb, ob, lb)?;
            let r = if blocked { matmul_blocked(a, b, ra, rb, ta, tb, bs) } else { matmul(a, b, ra, rb, ta, tb) };
            Ok(ok(show_vec(&r)))
        }
        "xtx" => {
            let (k, s, o, l) = (t.usize()?, t.usize()?, t.usize()?, t.usize()?);
            t.end()?;
            Ok(ok(show_vec(&xtx(sl(st, s, o, l)?, k))))
        }
        "tr" => {
            let (k, s, o, l) = (t.usize()?, t.usize()?, t.usize()?, t.usize()?);
            t.end()?;
            Ok(ok(show_vec(&transpose(sl(st, s, o, l)?, k))))
        }
        "dmm" => {
            let m = t.tok()?;
            let (own, sa, sb) = (t.usize()?, t.usize()?, t.usize()?);
            t.end()?;
            let a = st.mats.get(&sa).ok_or(BadOp)?;
            let b = st.mats.get(&sb).ok_or(BadOp)?;
            let res: Matrix = sforms!(Matrix, Matrix, Matrix, m, own, a, b);
            Ok(ok(format!("{} {} {}", res.nrows, res.ncols, show_fs(&res.data))))
        }
        "dmv" => {
            let m = t.tok()?;
            let (own, sa, sb) = (t.usize()?, t.usize()?, t.usize()?);
            t.end()?;
            let a = st.mats.get(&sa).ok_or(BadOp)?;
            let b = st.vecs.get(&sb).ok_or(BadOp)?;
            let res: Vector = sforms!(Matrix, Vector, Vector, m, own, a, b);
            Ok(ok(show_vec(&res)))
        }
        "dvm" => {
            let m = t.tok()?;
            let (own, sa, sb) = (t.usize()?, t.usize()?, t.usize()?);
            t.end()?;
            let a = st.vecs.get(&sa).ok_or(BadOp)?;
            let b = st.mats.get(&sb).ok_or(BadOp)?;
            let res: Vector = sforms!(Vector, Matrix, Vector, m, own, a, b);
            Ok(ok(show_vec(&res)))
        }
        "dvv" => {
            let m = t.tok()?;
            let (own, sa, sb) = (t.usize()?, t.usize()?, t.usize()?);
            t.end()?;
            let a = st.vecs.get(&sa).ok_or(BadOp)?;
            let b = st.vecs.get(&sb).ok_or(BadOp)?;
            let res: f64 = sforms!(Vector, Vector, f64, m, own, a, b);
            Ok(ok(show_f(res)))
        }
        // a Matrix with its own data vector: m.meth(&m.data) and m.data.meth(&m)
        "dmd" => {
            let m = t.tok()?;
            let (own, sa) = (t.usize()?, t.usize()?);
            t.end()?;
            let a = st.mats.get(&sa).ok_or(BadOp)?;
            let b = &a.data;
            let res: Vector = sforms!(Matrix, Vector, Vector, m, own, a, b);
            Ok(ok(show_vec(&res)))
        }
        "ddm" => {
            let m = t.tok()?;
            let (own, sa) = (t.usize()?, t.usize()?);
            t.end()?;
            let b = st.mats.get(&sa).ok_or(BadOp)?;
            let a = &b.data;
            let res: Vector = sforms!(Vector, Matrix, Vector, m, own, a, b);
            Ok(ok(show_vec(&res)))
        }
        _ => Err(BadOp),
    }
}

fn flag(t: &mut Toks) -> R<bool> {
    match t.usize()? {
        0 => Ok(false),
        1 => Ok(true),
        _ => Err(BadOp),
    }
}

fn step(_: &mut (), t: &mut Toks) -> R<String> {
    match t.tok()? {
        "tr" => {
            let r = t.usize()?;
            let a = t.vec()?;
            t.end()?;
            Ok(ok(show_vec(&transpose(&a, r))))
        }
        "mm" => {
            let (ta, tb) = (flag(t)?, flag(t)?);
            let (ra, rb) = (t.usize()?, t.usize()?);
            let (la, lb) = (t.usize()?, t.usize()?);
            let a = t.f64s(la)?;
            let b = t.f64s(lb)?;
            t.end()?;
            Ok(ok(show_vec(&matmul(&a, &b, ra, rb, ta, tb))))
        }
        "mb" => {
            let (ta, tb) = (flag(t)?, flag(t)?);
            let (ra, rb, bs) = (t.usize()?, t.usize()?, t.usize()?);
            let (la, lb) = (t.usize()?, t.usize()?);
            let a = t.f64s(la)?;
            let b = t.f64s(lb)?;
            t.end()?;
            Ok(ok(show_vec(&matmul_blocked(&a, &b, ra, rb, ta, tb, bs))))
        }
        "xtx" => {
            let k = t.usize()?;
            let x = t.vec()?;
            t.end()?;
            Ok(ok(show_vec(&xtx(&x, k))))
        }
        "dmm" => {
            let m = t.tok()?;
            let own = t.usize()?;
            let (r1, c1, r2, c2) = (t.usize()?, t.usize()?, t.usize()?, t.usize()?);
            let d1 = t.f64s(r1 * c1)?;
            let d2 = t.f64s(r2 * c2)?;
            t.end()?;
            let a = Matrix::new(d1, r1 as i32, c1 as i32);
            let b = Matrix::new(d2, r2 as i32, c2 as i32);
            let res: Matrix = forms!(Matrix, Matrix, Matrix, m, own, a, b);
            Ok(ok(format!("{} {} {}", res.nrows, res.ncols, show_fs(&res.data))))
        }
        "dmv" => {
            let m = t.tok()?;
            let own = t.usize()?;
            let (r1, c1, n) = (t.usize()?, t.usize()?, t.usize()?);
            let d1 = t.f64s(r1 * c1)?;
            let d2 = t.f64s(n)?;
            t.end()?;
            let a = Matrix::new(d1, r1 as i32, c1 as i32);
            let b = Vector::from(d2);
            let res: Vector = forms!(Matrix, Vector, Vector, m, own, a, b);
            Ok(ok(show_vec(&res)))
        }
        "dvm" => {
            let m = t.tok()?;
            let own = t.usize()?;
            let (n, r2, c2) = (t.usize()?, t.usize()?, t.usize()?);
            let d1 = t.f64s(n)?;
            let d2 = t.f64s(r2 * c2)?;
            t.end()?;
            let a = Vector::from(d1);
            let b = Matrix::new(d2, r2 as i32, c2 as i32);
            let res: Vector = forms!(Vector, Matrix, Vector, m, own, a, b);
            Ok(ok(show_vec(&res)))
        }
        "dvv" => {
            let m = t.tok()?;
            let own = t.usize()?;
            let (n1, n2) = (t.usize()?, t.usize()?);
            let d1 = t.f64s(n1)?;
            let d2 = t.f64s(n2)?;
            t.end()?;
            let a = Vector::from(d1);
            let b = Vector::from(d2);
            let res: f64 = forms!(Vector, Vector, f64, m, own, a, b);
            Ok(ok(show_f(res)))
        }
        // `ses cmd | cmd | ...`: commands run in order on one state, each under its own catch_unwind;
        // reply `= r1 | r2 | ...` with ri = `ok ...` or `panic`
        "ses" => {
            let mut st = Ses::default();
            let mut out: Vec<String> = Vec::new();
            let mut cur: Vec<&str> = Vec::new();
            let mut cmds: Vec<Vec<&str>> = Vec::new();
            while let Ok(x) = t.tok() {
                if x == "|" {
                    cmds.push(std::mem::take(&mut cur));
                } else {
                    cur.push(x);
                }
            }
            cmds.push(cur);
            for c in cmds {
                let line = c.join(" ");
                let mut ct = Toks::new(&line);
                let r = std::panic::catch_unwind(std::panic::AssertUnwindSafe(|| ses_cmd(&mut st, &mut ct)));
                match r {
                    Ok(Ok(s)) => out.push(format!("ok{}", &s[1..])),
                    Ok(Err(BadOp)) => return Err(BadOp),
                    Err(_) => out.push("panic".to_string()),
                }
            }
            Ok(ok(out.join(" | ")))
        }
        _ => Err(BadOp),
    }
}

fn main() {
    run((), step);
}
