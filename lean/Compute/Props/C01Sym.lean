import Compute.Props.C01
/-
C01 — the exact-symmetry gate of the Cholesky route (F37) looks at ALL pairs.

`isExactlySymmetric_iff`: on an `n × n` array the model of `is_exactly_symmetric` answers `true` iff
`a[i,j] = a[j,i]` for every `i, j < n` — in particular for pairs in the trailing block — and it never panics
(`isExactlySymmetric_total`).  `route_asymmetric_is_lu`: a matrix with a single unequal pair anywhere is never
routed to Cholesky.
-/
set_option linter.unusedSectionVars false
namespace Cv.C01Sym
open Cv Cv.LA

section
variable {α : Type} [Zero α] [BEq α] [LawfulBEq α]

theorem isExactlySymmetric_total (a : List α) (n : Nat) (ha : a.length = n * n) :
    ∃ b, isExactlySymmetric a = some b := by
  simp only [isExactlySymmetric, ha, isSquare_sq, Option.bind_eq_bind, Option.bind_some, Option.pure_def]
  exact ⟨_, rfl⟩

/-- **Full quantification over all pairs.** -/
theorem isExactlySymmetric_iff (a : List α) (n : Nat) (ha : a.length = n * n) :
    isExactlySymmetric a = some true ↔ ∀ i j, i < n → j < n → rd a (i * n + j) = rd a (j * n + i) := by
  simp only [isExactlySymmetric, ha, isSquare_sq, Option.bind_eq_bind, Option.bind_some, Option.pure_def,
    Option.some.injEq, List.all_eq_true, List.mem_range, List.mem_range'_1, Bool.not_eq_true', bne_eq_false_iff_eq]
  constructor
  · intro h i j hi hj
    rcases Nat.lt_trichotomy i j with hij | hij | hij
    · exact h i hi j ⟨by omega, by omega⟩
    · subst hij; rfl
    · exact (h j hj i ⟨by omega, by omega⟩).symm
  · intro h i hi j hj
    exact h i j hi (by omega)

/-- the panic branch: a non-square array -/
theorem isExactlySymmetric_nonsquare (a : List α) (h : ∀ n, n * n ≠ a.length) : isExactlySymmetric a = none := by
  have : isSquare a.length = none := by
    cases hs : isSquare a.length with
    | none => rfl
    | some n => exact absurd (isSquare_some hs) (h n)
  simp [isExactlySymmetric, this]

end

section route
variable {α : Type} [Add α] [Sub α] [Mul α] [Div α] [Zero α] [One α] [NatCast α]
  [LT α] [DecidableLT α] [LE α] [DecidableLE α] [BEq α] [LawfulBEq α] [Transc α]

/-- one unequal pair — anywhere, the trailing block included — and the slice solvers take the LU route
(whenever the predicate evaluates at all, i.e. on every square array) -/
theorem route_asymmetric_is_lu (a : List α) (n : Nat) (ha : a.length = n * n) (i j : Nat) (hi : i < n) (hj : j < n)
    (hne : rd a (i * n + j) ≠ rd a (j * n + i)) (r : Option (List α)) (h : route a = some r) : r = none := by
  obtain ⟨b, hb⟩ := isExactlySymmetric_total a n ha
  have hbf : b = false := by
    cases b with
    | false => rfl
    | true => exact absurd ((isExactlySymmetric_iff a n ha).mp hb i j hi hj) hne
  subst hbf
  unfold route routePredicate at h
  cases hpd : isPositiveDefinite a with
  | none => simp [hpd] at h
  | some pd =>
    cases pd <;> simp [hpd, hb] at h <;> exact h.symm

end route

/-! non-vacuity: the 3×3 matrix of seed C01t at scale 2⁻⁶⁰ — asymmetric only in the last pair (1,2) -/
section examples
open Cv.C01

def exT : List ℚ := [4, 1, 1, 1, 4, 3/2, 1, 1, 4].map (· / 1152921504606846976)

example : isExactlySymmetric exT = some false ∧ isPositiveDefinite exT = some true ∧ route exT = some none := by
  refine ⟨by decide +kernel, by decide +kernel, by decide +kernel⟩

example (r : Option (List ℚ)) (h : route exT = some r) : r = none :=
  route_asymmetric_is_lu exT 3 rfl 1 2 (by omega) (by omega) (by decide +kernel) r h

/-- a legacy-style gate that skips the trailing rows (`for i in 0..n/2`) would have said `true` here -/
example : ((List.range (3 / 2)).all fun i => (List.range' (i + 1) (3 - (i + 1))).all fun j =>
    !(rd exT (i * 3 + j) != rd exT (j * 3 + i))) = true := by decide +kernel

end examples
end Cv.C01Sym
