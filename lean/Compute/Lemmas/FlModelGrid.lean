import Compute.Lemmas.FlModel
import Mathlib.Data.Int.Log
import Mathlib.Algebra.Order.Round
import Mathlib.Algebra.Order.Archimedean.Real.Basic
import Mathlib.Tactic.NormNum
import Mathlib.Tactic.Positivity
/-
A GENUINE instance of the standard model `FlModel` (Lemmas/FlModel.lean): radix 2, precision `p ≥ 1` digits,
round to nearest (ties resolved by Mathlib's `round`, i.e. upwards), unbounded exponent range, over `ℝ`:

    ulp x = 2^(⌊log₂|x|⌋ − (p−1)),      rnd x = round(x / ulp x) · ulp x.

* `FlModel.grid p hp` : `FlModel` with unit roundoff `u = 2⁻ᵖ`  (`grid_abs_sub_le`: `|rnd x − x| ≤ 2⁻ᵖ·|x|`)
* `GridRep p y`       : `y = m·2ᵏ` with integers `m`, `k`, `|m| ≤ 2ᵖ` — the floating-point numbers of this format
* `grid_rnd_of_rep`   : representable numbers are fixed;  `grid_rep_rnd`: every rounded value is representable
* `grid_idem`, `grid_rnd_one`, `grid_rnd_natCast` (`n ≤ 2ᵖ`), `grid_rnd_two_zpow`
* `gridRnd_mono` / `grid_mono` / `f64grid_mono` : the rounding is monotone (`gridRnd_pos_bounds`, `gridRnd_neg_bounds`:
  a number rounds into its own binade)
so the hypotheses `Idem`, `Monotone rnd`, `rnd 1 = 1`, `Rep`, `rnd n = n` of the rounding theorems have a witness that IS a rounding
onto a floating-point grid (with `p = 53`: `u = 2⁻⁵³`, the binary64 significand; the exponent range is unbounded, so
overflow and underflow remain excluded, as in the trusted link).
-/
namespace Cv
namespace FlModel
open Int

/-- the unit in the last place of the binade of `x` for precision `p` -/
noncomputable def ulp (p : ℕ) (x : ℝ) : ℝ := (2 : ℝ) ^ (Int.log 2 |x| - ((p : ℤ) - 1))

/-- round to nearest onto the `p`-digit binary grid -/
noncomputable def gridRnd (p : ℕ) (x : ℝ) : ℝ := (round (x / ulp p x) : ℝ) * ulp p x

theorem two_zpow_pos (k : ℤ) : (0 : ℝ) < (2 : ℝ) ^ k := zpow_pos (by norm_num) k

theorem ulp_pos (p : ℕ) (x : ℝ) : 0 < ulp p x := by unfold ulp; exact two_zpow_pos _

theorem two_zpow_log_le {x : ℝ} (hx : x ≠ 0) : (2 : ℝ) ^ Int.log 2 |x| ≤ |x| := by
  have := Int.zpow_log_le_self (b := 2) (r := |x|) (by norm_num) (abs_pos.mpr hx)
  simpa using this

theorem lt_two_zpow_log_succ (x : ℝ) : |x| < (2 : ℝ) ^ (Int.log 2 |x| + 1) := by
  have := Int.lt_zpow_succ_log_self (b := 2) (by norm_num) |x|
  simpa using this

theorem ulp_eq (p : ℕ) (x : ℝ) : ulp p x = (2 : ℝ) ^ Int.log 2 |x| / 2 ^ ((p : ℤ) - 1) := by
  unfold ulp
  rw [zpow_sub₀ (by norm_num)]

/-- **the rounding error is at most half an ulp, i.e. `2⁻ᵖ·|x|`** -/
theorem grid_abs_sub_le (p : ℕ) (hp : 1 ≤ p) (x : ℝ) : |gridRnd p x - x| ≤ (2 : ℝ)⁻¹ ^ p * |x| := by
  by_cases hx : x = 0
  · subst hx; simp [gridRnd]
  have hu := ulp_pos p x
  have h1 : |gridRnd p x - x| ≤ ulp p x / 2 := by
    have e : gridRnd p x - x = -((x / ulp p x - round (x / ulp p x)) * ulp p x) := by
      unfold gridRnd; field_simp; ring
    rw [e, abs_neg, abs_mul, abs_of_pos hu]
    have := abs_sub_round (x / ulp p x)
    nlinarith
  have h2 : ulp p x / 2 ≤ (2 : ℝ)⁻¹ ^ p * |x| := by
    rw [ulp_eq]
    have hlog := two_zpow_log_le hx
    have hpow : (2 : ℝ) ^ ((p : ℤ) - 1) * 2 = 2 ^ p := by
      rw [zpow_sub₀ (by norm_num), zpow_natCast, zpow_one]; field_simp
    have : (2 : ℝ) ^ Int.log 2 |x| / 2 ^ ((p : ℤ) - 1) / 2 = (2 : ℝ)⁻¹ ^ p * (2 : ℝ) ^ Int.log 2 |x| := by
      rw [div_div, hpow, inv_pow]; field_simp
    rw [this]
    exact mul_le_mul_of_nonneg_left hlog (by positivity)
  exact le_trans h1 h2

/-- radix-2, `p`-digit, round-to-nearest floating point with unbounded exponent range as a standard model -/
noncomputable def grid (p : ℕ) (hp : 1 ≤ p) : FlModel where
  rnd := gridRnd p
  u := (2 : ℝ)⁻¹ ^ p
  u_nonneg := pow_nonneg (by norm_num) _
  u_lt_one := by
    have : (2 : ℝ)⁻¹ ^ p ≤ (2 : ℝ)⁻¹ ^ 1 := pow_le_pow_of_le_one (by norm_num) (by norm_num) hp
    norm_num at this ⊢
    linarith
  std := fun x => by
    by_cases hx : x = 0
    · subst hx
      exact ⟨0, by rw [abs_zero]; exact pow_nonneg (by norm_num) _, by simp [gridRnd]⟩
    · refine ⟨(gridRnd p x - x) / x, ?_, by field_simp; ring⟩
      rw [abs_div, div_le_iff₀ (abs_pos.mpr hx)]
      exact grid_abs_sub_le p hp x

theorem grid_u (p : ℕ) (hp : 1 ≤ p) : (grid p hp).u = (2 : ℝ)⁻¹ ^ p := rfl
theorem grid_rnd (p : ℕ) (hp : 1 ≤ p) (x : ℝ) : (grid p hp).rnd x = gridRnd p x := rfl

/-- the floating-point numbers of the format: `m·2ᵏ`, `|m| ≤ 2ᵖ` -/
def GridRep (p : ℕ) (y : ℝ) : Prop := ∃ m k : ℤ, |m| ≤ 2 ^ p ∧ y = (m : ℝ) * (2 : ℝ) ^ k

/-- an integer multiple `m·2ʲ`, `j ≥ 0`, is an integer -/
theorem intCast_mul_zpow (m j : ℤ) (hj : 0 ≤ j) : ∃ z : ℤ, (z : ℝ) = (m : ℝ) * (2 : ℝ) ^ j := by
  obtain ⟨n, rfl⟩ := Int.eq_ofNat_of_zero_le hj
  exact ⟨m * 2 ^ n, by push_cast; rfl⟩

/-- **representable numbers are fixed by the rounding** -/
theorem grid_rnd_of_rep (p : ℕ) (hp : 1 ≤ p) {y : ℝ} (h : GridRep p y) : gridRnd p y = y := by
  obtain ⟨m, k, hm, rfl⟩ := h
  by_cases hm0 : m = 0
  · subst hm0; simp [gridRnd]
  set y := (m : ℝ) * (2 : ℝ) ^ k with hy
  have hy0 : y ≠ 0 := by
    rw [hy]; exact mul_ne_zero (by exact_mod_cast hm0) (two_zpow_pos k).ne'
  -- it suffices that `y / ulp y` is an integer
  suffices hz : ∃ z : ℤ, (z : ℝ) = y / ulp p y by
    obtain ⟨z, hz⟩ := hz
    unfold gridRnd
    rw [← hz, round_intCast, hz]
    field_simp [(ulp_pos p y).ne']
  have habs : |y| = (|m| : ℤ) * (2 : ℝ) ^ k := by
    rw [hy, abs_mul, abs_of_pos (two_zpow_pos k)]; push_cast; rfl
  have hmR : ((|m| : ℤ) : ℝ) ≤ (2 : ℝ) ^ p := by exact_mod_cast hm
  have hm1 : (1 : ℝ) ≤ ((|m| : ℤ) : ℝ) := by
    have : (1 : ℤ) ≤ |m| := Int.one_le_abs hm0
    exact_mod_cast this
  set e := Int.log 2 |y| with he
  have hlo := two_zpow_log_le hy0
  have hhi := lt_two_zpow_log_succ y
  rw [← he] at hlo hhi
  have hdiv : y / ulp p y = (m : ℝ) * (2 : ℝ) ^ (k - e + ((p : ℤ) - 1)) := by
    unfold ulp
    rw [← he, hy, mul_div_assoc, ← zpow_sub₀ (by norm_num)]
    congr 2; ring
  rw [hdiv]
  by_cases hlt : ((|m| : ℤ) : ℝ) < (2 : ℝ) ^ p
  · -- `|y| < 2^(k+p)`, hence `e ≤ k + p − 1`
    have hy_lt : |y| < (2 : ℝ) ^ (k + (p : ℤ)) := by
      rw [habs, zpow_add₀ (by norm_num), zpow_natCast, mul_comm]
      exact mul_lt_mul_of_pos_left hlt (two_zpow_pos k)
    have he_le : e ≤ k + (p : ℤ) - 1 := by
      by_contra hcon
      have h1 : k + (p : ℤ) ≤ e := by omega
      have : (2 : ℝ) ^ (k + (p : ℤ)) ≤ (2 : ℝ) ^ e := zpow_le_zpow_right₀ (by norm_num) h1
      linarith
    exact intCast_mul_zpow m _ (by omega)
  · -- `|m| = 2^p`: `y = ±2^(k+p)`, `e = k + p`
    have hmeq : ((|m| : ℤ) : ℝ) = (2 : ℝ) ^ p := le_antisymm hmR (not_lt.mp hlt)
    have hyabs : |y| = (2 : ℝ) ^ (k + (p : ℤ)) := by
      rw [habs, hmeq, zpow_add₀ (by norm_num), zpow_natCast, mul_comm]
    have he_eq : e = k + (p : ℤ) := by
      rw [he, hyabs]
      have := Int.log_zpow (R := ℝ) (b := 2) (by norm_num) (k + (p : ℤ))
      simpa using this
    -- `m·2^(−1)` with `|m| = 2^p`, `p ≥ 1`: `m` is even
    have hexp : k - e + ((p : ℤ) - 1) = -1 := by omega
    rw [hexp]
    have hmabs : |m| = 2 ^ p := by exact_mod_cast hmeq
    obtain ⟨q, rfl⟩ : ∃ q, p = q + 1 := ⟨p - 1, by omega⟩
    rcases abs_eq (by positivity : (0 : ℤ) ≤ 2 ^ (q + 1)) |>.mp hmabs with h | h
    · exact ⟨2 ^ q, by rw [h]; push_cast; rw [pow_succ, zpow_neg_one]; field_simp⟩
    · exact ⟨-2 ^ q, by rw [h]; push_cast; rw [pow_succ, zpow_neg_one]; field_simp⟩

/-- **every rounded value is representable** -/
theorem grid_rep_rnd (p : ℕ) (hp : 1 ≤ p) (x : ℝ) : GridRep p (gridRnd p x) := by
  refine ⟨round (x / ulp p x), Int.log 2 |x| - ((p : ℤ) - 1), ?_, rfl⟩
  -- `|x / ulp| < 2^p`, so `|round| ≤ 2^p`
  have hu := ulp_pos p x
  have hlt : |x / ulp p x| < (2 : ℝ) ^ p := by
    rw [abs_div, abs_of_pos hu, div_lt_iff₀ hu]
    have := lt_two_zpow_log_succ x
    have e : (2 : ℝ) ^ p * ulp p x = (2 : ℝ) ^ (Int.log 2 |x| + 1) := by
      unfold ulp
      rw [← zpow_natCast, ← zpow_add₀ (by norm_num)]
      congr 1; ring
    rw [e]; exact this
  have hr := abs_sub_round (x / ulp p x)
  have h1 : |((round (x / ulp p x) : ℤ) : ℝ)| < (2 : ℝ) ^ p + 1 := by
    have : ((round (x / ulp p x) : ℤ) : ℝ) = x / ulp p x - (x / ulp p x - round (x / ulp p x)) := by ring
    rw [this]
    have := abs_sub (x / ulp p x) (x / ulp p x - round (x / ulp p x))
    linarith
  have h2 : (|round (x / ulp p x)| : ℤ) < 2 ^ p + 1 := by
    have : ((|round (x / ulp p x)| : ℤ) : ℝ) < ((2 ^ p + 1 : ℤ) : ℝ) := by
      push_cast; rw [← Int.cast_abs] at h1 ⊢; exact_mod_cast h1
    exact_mod_cast this
  omega

/-- **the rounding is idempotent** -/
theorem grid_idem (p : ℕ) (hp : 1 ≤ p) : (grid p hp).Idem := fun y =>
  grid_rnd_of_rep p hp (grid_rep_rnd p hp y)

theorem gridRep_natCast (p : ℕ) (n : ℕ) (hn : n ≤ 2 ^ p) : GridRep p (n : ℝ) :=
  ⟨n, 0, by rw [abs_of_nonneg (by positivity)]; exact_mod_cast hn, by simp⟩

/-- integers up to `2ᵖ` are representable: `n as f64` is exact for `n ≤ 2⁵³` -/
theorem grid_rnd_natCast (p : ℕ) (hp : 1 ≤ p) (n : ℕ) (hn : n ≤ 2 ^ p) : (grid p hp).rnd (n : ℝ) = n :=
  grid_rnd_of_rep p hp (gridRep_natCast p n hn)

theorem grid_rnd_one (p : ℕ) (hp : 1 ≤ p) : (grid p hp).rnd 1 = 1 := by
  have := grid_rnd_natCast p hp 1 (Nat.one_le_two_pow)
  simpa using this

/-- powers of two are representable -/
theorem grid_rnd_two_zpow (p : ℕ) (hp : 1 ≤ p) (k : ℤ) : (grid p hp).rnd ((2 : ℝ) ^ k) = (2 : ℝ) ^ k :=
  grid_rnd_of_rep p hp ⟨1, k, by simpa using (one_le_pow₀ (by norm_num : (1 : ℤ) ≤ 2) : (1 : ℤ) ≤ 2 ^ p), by simp⟩

/-- dyadic rationals `m/2ʲ` with `|m| ≤ 2ᵖ` are representable -/
theorem grid_rnd_dyadic (p : ℕ) (hp : 1 ≤ p) (m : ℤ) (j : ℕ) (hm : |m| ≤ 2 ^ p) :
    (grid p hp).rnd ((m : ℝ) / 2 ^ j) = (m : ℝ) / 2 ^ j :=
  grid_rnd_of_rep p hp ⟨m, -(j : ℤ), hm, by rw [zpow_neg, zpow_natCast, div_eq_mul_inv]⟩

/-! ### monotonicity -/

theorem round_ge_of_int_le (N : ℤ) (t : ℝ) (h : (N : ℝ) ≤ t) : N ≤ round t := by
  rw [round_eq]
  exact Int.le_floor.mpr (by linarith)

theorem round_le_of_le_int (N : ℤ) (t : ℝ) (h : t ≤ (N : ℝ)) : round t ≤ N := by
  rw [round_eq]
  have : ⌊t + 1 / 2⌋ < N + 1 := Int.floor_lt.mpr (by push_cast; linarith)
  omega

theorem round_mono' {s t : ℝ} (h : s ≤ t) : round s ≤ round t := by
  rw [round_eq, round_eq]
  exact Int.floor_mono (by linarith)

theorem ulp_mul_lo (p : ℕ) (hp : 1 ≤ p) (x : ℝ) : (2 : ℝ) ^ (p - 1) * ulp p x = (2 : ℝ) ^ Int.log 2 |x| := by
  unfold ulp
  rw [← zpow_natCast, ← zpow_add₀ (by norm_num)]
  congr 1
  have : ((p - 1 : ℕ) : ℤ) = (p : ℤ) - 1 := by omega
  rw [this]; ring

theorem ulp_mul_hi (p : ℕ) (x : ℝ) : (2 : ℝ) ^ p * ulp p x = (2 : ℝ) ^ (Int.log 2 |x| + 1) := by
  unfold ulp
  rw [← zpow_natCast, ← zpow_add₀ (by norm_num)]
  congr 1
  ring

/-- a positive number rounds into its own binade (closed at the top) -/
theorem gridRnd_pos_bounds (p : ℕ) (hp : 1 ≤ p) {x : ℝ} (hx : 0 < x) :
    (2 : ℝ) ^ Int.log 2 |x| ≤ gridRnd p x ∧ gridRnd p x ≤ (2 : ℝ) ^ (Int.log 2 |x| + 1) := by
  have hu := ulp_pos p x
  have h1 := two_zpow_log_le hx.ne'
  have h2 := lt_two_zpow_log_succ x
  rw [abs_of_pos hx] at h1 h2
  rw [abs_of_pos hx] 
  have hlo : (((2 : ℤ) ^ (p - 1) : ℤ) : ℝ) ≤ x / ulp p x := by
    rw [le_div_iff₀ hu]; push_cast
    have := ulp_mul_lo p hp x
    rw [abs_of_pos hx] at this
    linarith
  have hhi : x / ulp p x ≤ (((2 : ℤ) ^ p : ℤ) : ℝ) := by
    rw [div_le_iff₀ hu]; push_cast
    have := ulp_mul_hi p x
    rw [abs_of_pos hx] at this
    linarith
  have r1 := round_ge_of_int_le _ _ hlo
  have r2 := round_le_of_le_int _ _ hhi
  have c1 : (((2 : ℤ) ^ (p - 1) : ℤ) : ℝ) ≤ (round (x / ulp p x) : ℝ) := by exact_mod_cast r1
  have c2 : (round (x / ulp p x) : ℝ) ≤ (((2 : ℤ) ^ p : ℤ) : ℝ) := by exact_mod_cast r2
  have e1 := ulp_mul_lo p hp x
  have e2 := ulp_mul_hi p x
  rw [abs_of_pos hx] at e1 e2
  push_cast at c1 c2
  unfold gridRnd
  constructor
  · calc (2 : ℝ) ^ Int.log 2 x = (2 : ℝ) ^ (p - 1) * ulp p x := e1.symm
      _ ≤ (round (x / ulp p x) : ℝ) * ulp p x := mul_le_mul_of_nonneg_right c1 hu.le
  · calc (round (x / ulp p x) : ℝ) * ulp p x ≤ (2 : ℝ) ^ p * ulp p x := mul_le_mul_of_nonneg_right c2 hu.le
      _ = _ := e2

/-- a negative number rounds into its own binade -/
theorem gridRnd_neg_bounds (p : ℕ) (hp : 1 ≤ p) {x : ℝ} (hx : x < 0) :
    -(2 : ℝ) ^ (Int.log 2 |x| + 1) ≤ gridRnd p x ∧ gridRnd p x ≤ -(2 : ℝ) ^ Int.log 2 |x| := by
  have hu := ulp_pos p x
  have h1 := two_zpow_log_le hx.ne
  have h2 := lt_two_zpow_log_succ x
  rw [abs_of_neg hx] at h1 h2
  have e1 := ulp_mul_lo p hp x
  have e2 := ulp_mul_hi p x
  have hhi : x / ulp p x ≤ ((-(2 : ℤ) ^ (p - 1) : ℤ) : ℝ) := by
    rw [div_le_iff₀ hu]; push_cast
    rw [abs_of_neg hx] at e1
    linarith
  have hlo : ((-(2 : ℤ) ^ p : ℤ) : ℝ) ≤ x / ulp p x := by
    rw [le_div_iff₀ hu]; push_cast
    rw [abs_of_neg hx] at e2
    linarith
  have r1 := round_ge_of_int_le _ _ hlo
  have r2 := round_le_of_le_int _ _ hhi
  have c1 : ((-(2 : ℤ) ^ p : ℤ) : ℝ) ≤ (round (x / ulp p x) : ℝ) := by exact_mod_cast r1
  have c2 : (round (x / ulp p x) : ℝ) ≤ ((-(2 : ℤ) ^ (p - 1) : ℤ) : ℝ) := by exact_mod_cast r2
  push_cast at c1 c2
  unfold gridRnd
  constructor
  · calc -(2 : ℝ) ^ (Int.log 2 |x| + 1) = -(2 : ℝ) ^ p * ulp p x := by rw [← e2]; ring
      _ ≤ (round (x / ulp p x) : ℝ) * ulp p x := mul_le_mul_of_nonneg_right c1 hu.le
  · calc (round (x / ulp p x) : ℝ) * ulp p x ≤ -(2 : ℝ) ^ (p - 1) * ulp p x :=
        mul_le_mul_of_nonneg_right c2 hu.le
      _ = _ := by rw [← e1]; ring

theorem gridRnd_zero (p : ℕ) : gridRnd p 0 = 0 := by simp [gridRnd]

/-- **round to nearest on the binary grid is monotone** -/
theorem gridRnd_mono (p : ℕ) (hp : 1 ≤ p) : Monotone (gridRnd p) := by
  intro x y hxy
  rcases lt_trichotomy x 0 with hx | hx | hx
  · rcases lt_trichotomy y 0 with hy | hy | hy
    · -- both negative
      have hle : Int.log 2 |y| ≤ Int.log 2 |x| :=
        Int.log_mono_right (abs_pos.mpr hy.ne) (by rw [abs_of_neg hx, abs_of_neg hy]; linarith)
      rcases eq_or_lt_of_le hle with he | hlt
      · have hul : ulp p x = ulp p y := by unfold ulp; rw [he]
        unfold gridRnd
        rw [hul]
        apply mul_le_mul_of_nonneg_right _ (ulp_pos p y).le
        exact_mod_cast round_mono' (div_le_div_of_nonneg_right hxy (ulp_pos p y).le)
      · have bx := (gridRnd_neg_bounds p hp hx).2
        have by' := (gridRnd_neg_bounds p hp hy).1
        have : (2 : ℝ) ^ (Int.log 2 |y| + 1) ≤ (2 : ℝ) ^ Int.log 2 |x| :=
          zpow_le_zpow_right₀ (by norm_num) (by omega)
        linarith
    · subst hy
      rw [gridRnd_zero]
      have := (gridRnd_neg_bounds p hp hx).2
      have := two_zpow_pos (Int.log 2 |x|)
      linarith
    · have := (gridRnd_neg_bounds p hp hx).2
      have := (gridRnd_pos_bounds p hp hy).1
      have := two_zpow_pos (Int.log 2 |x|)
      have := two_zpow_pos (Int.log 2 |y|)
      linarith
  · subst hx
    rw [gridRnd_zero]
    rcases eq_or_lt_of_le hxy with hy | hy
    · rw [← hy, gridRnd_zero]
    · have := (gridRnd_pos_bounds p hp hy).1
      have := two_zpow_pos (Int.log 2 |y|)
      linarith
  · have hy : 0 < y := lt_of_lt_of_le hx hxy
    have hle : Int.log 2 |x| ≤ Int.log 2 |y| :=
      Int.log_mono_right (abs_pos.mpr hx.ne') (by rw [abs_of_pos hx, abs_of_pos hy]; exact hxy)
    rcases eq_or_lt_of_le hle with he | hlt
    · have hul : ulp p x = ulp p y := by unfold ulp; rw [he]
      unfold gridRnd
      rw [hul]
      apply mul_le_mul_of_nonneg_right _ (ulp_pos p y).le
      exact_mod_cast round_mono' (div_le_div_of_nonneg_right hxy (ulp_pos p y).le)
    · have bx := (gridRnd_pos_bounds p hp hx).2
      have by' := (gridRnd_pos_bounds p hp hy).1
      have : (2 : ℝ) ^ (Int.log 2 |x| + 1) ≤ (2 : ℝ) ^ Int.log 2 |y| :=
        zpow_le_zpow_right₀ (by norm_num) (by omega)
      linarith

theorem grid_mono (p : ℕ) (hp : 1 ≤ p) : Monotone (grid p hp).rnd := gridRnd_mono p hp

/-- the binary64 significand: `p = 53`, `u = 2⁻⁵³`.  NOT bit-for-bit IEEE binary64: ties are resolved UPWARDS (Mathlib's
`round`, round-half-up, towards `+∞`), not to even, and the exponent range is unbounded (no overflow, underflow or
subnormals).  It is a genuine round-to-nearest onto the 53-digit binary grid, which is all the standard-model
theorems use (`|δ| ≤ u`, idempotence, monotonicity, exactness on representable numbers); it differs from IEEE
only on exact midpoints and outside the normal range. -/
noncomputable abbrev f64grid : FlModel := grid 53 (by norm_num)

theorem f64grid_u : f64grid.u = 1 / 2 ^ 53 := by
  show (2 : ℝ)⁻¹ ^ 53 = 1 / 2 ^ 53
  rw [inv_pow, one_div]

theorem f64grid_mono : Monotone f64grid.rnd := grid_mono 53 (by norm_num)

end FlModel
end Cv
