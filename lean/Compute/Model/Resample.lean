import Compute.Model.Rng
/-
Model of /repo/src/validation/resample.rs (`bootstrap`, `jackknife`, `shuffle`, `shuffle_two`) on top of
the generator model `Model/Rng.lean`.  Data elements are never inspected by the Rust code (they are
only copied), so the model is polymorphic in an arbitrary element type `α` (no class at all).

`none` = the Rust function panics (empty input: `data.len() - 1` underflows / `DiscreteUniform::new(0, -1)`
panics; unequal lengths in `shuffle_two`; an out-of-range index — proved impossible) or Lemire's loop ran
out of fuel (see `Model/Rng.lean`).

Index path: Rust draws `alea::i64_in_range(0, n-1) as f64` and later casts `as usize`.  The round trip
`i64 → f64 → usize` is the identity for `0 ≤ i < 2^53` and saturates negatives to `0`; the model keeps the
index as an `Int` and converts with `Int.toNat` (which also sends negatives to `0`).
-/
namespace Cv.Resample
open Cv

variable {α β : Type}

/-- `idxs.into_iter().map(|i| data[i as usize]).collect()`; `none` if some index is out of bounds. -/
def pick (data : Array α) : List Int → Option (List α)
  | [] => some []
  | i :: is =>
    (data[i.toNat]?).bind fun x => (pick data is).map fun xs => x :: xs

/-- The `for _ in 0..n_bootstrap` loop. -/
def bootLoop (fuel : Nat) (data : Array α) : Nat → Rng → Option (List (List α) × Rng)
  | 0, g => some ([], g)
  | k + 1, g =>
    (DiscreteUniform.sampleIntN fuel 0 ((data.size : Int) - 1) data.size g).bind fun p =>
      (pick data p.1).bind fun r =>
        (bootLoop fuel data k p.2).map fun q => (r :: q.1, q.2)

/-- `bootstrap(data, n_bootstrap)`. -/
def bootstrap (fuel : Nat) (data : List α) (nBootstrap : Nat) (g : Rng) : Option (List (List α) × Rng) :=
  if data.isEmpty then none   -- `data.len() - 1` underflows
  else bootLoop fuel data.toArray nBootstrap g

/-- One leave-one-out vector as the code builds it: `split_at(i)`, `split_first().unwrap()`, concatenate. -/
def leaveOut (data : List α) (i : Nat) : Option (List α) :=
  let front := data.take i
  let back := data.drop i
  match back with
  | [] => none
  | _ :: rest => some (front ++ rest)

/-- All results if none of them is a panic, in order. -/
def seqOpt : List (Option β) → Option (List β)
  | [] => some []
  | o :: os => o.bind fun x => (seqOpt os).map fun xs => x :: xs

/-- `jackknife(data)`: leave-one-out vectors for `i = 0 .. n-1`, in order. -/
def jackknife (data : List α) : Option (List (List α)) :=
  seqOpt ((List.range data.length).map (leaveOut data))

/-- `shuf.swap(a as usize, b as usize)`; `none` = index out of bounds (panic). -/
def swapAt (xs : Array α) (a b : Int) : Option (Array α) :=
  if h : a.toNat < xs.size ∧ b.toNat < xs.size then some (xs.swap a.toNat b.toNat h.1 h.2) else none

/-- The transposition loop of `shuffle`: per round two draws `(a, b)` (in this order) and one swap. -/
def shuffleLoop (fuel : Nat) (hi : Int) : Nat → Array α → Rng → Option (Array α × Rng)
  | 0, xs, g => some (xs, g)
  | k + 1, xs, g =>
    (DiscreteUniform.sampleInt fuel 0 hi g).bind fun pa =>
      (DiscreteUniform.sampleInt fuel 0 hi pa.2).bind fun pb =>
        (swapAt xs pa.1 pb.1).bind fun xs => shuffleLoop fuel hi k xs pb.2

/-- `shuffle(data)`: `2·n` random transpositions. -/
def shuffle (fuel : Nat) (data : List α) (g : Rng) : Option (List α × Rng) :=
  if data.isEmpty then none   -- `DiscreteUniform::new(0, -1)` panics
  else
    (shuffleLoop fuel ((data.length : Int) - 1) (data.length * 2) data.toArray g).map fun p => (p.1.toList, p.2)

/-- The transposition loop of `shuffle_two`: the same `(a, b)` is applied to both arrays. -/
def shuffleTwoLoop (fuel : Nat) (hi : Int) : Nat → Array α → Array β → Rng → Option (Array α × Array β × Rng)
  | 0, xs, ys, g => some (xs, ys, g)
  | k + 1, xs, ys, g =>
    (DiscreteUniform.sampleInt fuel 0 hi g).bind fun pa =>
      (DiscreteUniform.sampleInt fuel 0 hi pa.2).bind fun pb =>
        (swapAt xs pa.1 pb.1).bind fun xs =>
          (swapAt ys pa.1 pb.1).bind fun ys => shuffleTwoLoop fuel hi k xs ys pb.2

/-- `shuffle_two(arr1, arr2)`. -/
def shuffleTwo (fuel : Nat) (a1 : List α) (a2 : List β) (g : Rng) : Option (List α × List β × Rng) :=
  if a1.length ≠ a2.length then none   -- assert_eq!
  else if a1.isEmpty then none          -- `DiscreteUniform::new(0, -1)` panics
  else
    (shuffleTwoLoop fuel ((a1.length : Int) - 1) (a1.length * 2) a1.toArray a2.toArray g).map
      fun p => (p.1.toList, p.2.1.toList, p.2.2)

end Cv.Resample
