import Compute.Props.C10Deep
import Compute.Props.Rounding8
/-
C10 — repairs after the independent review (out/review/review-b.md, findings C10-B1, B3, B4, B5, C4).

* B1/B3: LM descent for ANY evaluator obeying the laws RELATIVE to a well-formedness invariant of its
  state (`EvalLawsOn`, satisfied by the shared-tape evaluator of the source: `tapeEval_laws`), with the
  solver hypothesis required only at states of the SUBLEVEL SET `rss ≤ rss(θ₀)` — which is where the loop
  stays (`lmG_descends_on_sublevel`); for the source evaluator: non-singularity / no vanishing Jacobian
  column is needed only at parameter vectors whose residual sum of squares does not exceed the initial
  one (`lm_descends_on_sublevel_of_nonsingular`, `lm_descends_on_sublevel`).  All require `p < n`
  (C4: at `n = p` the code divides by `(n-p) as f64 = 0`: `lmFinish_at_n_eq_p`).
* B4: `invOf` really is the inverse: `invOf_right_inverse` (`jtj · inv = I` for a non-singular matrix,
  through `Cv.C11Lu.luSolve_spec`), hence `lm_covariance_is_inverse`.
* B5: Adam / SGD follow the published rule with the TRUE gradient when the objective is inside its
  domain of differentiability AT THE POINTS WHERE THE RUN TAKES A GRADIENT (not everywhere):
  `adam_follows_published_rule_on_run`, `sgd_follows_published_rule_on_run`, example `p0 / p1`.
-/
namespace Cv.C10R
open Cv Cv.AD Cv.Opt Cv.C10 Cv.C10D Cv.LA Finset
open Cv.C09

set_option linter.unusedSectionVars false
set_option linter.unusedVariables false

/-! ## Levenberg–Marquardt -/
section lm
variable {α : Type} [Field α] [LinearOrder α] [IsStrictOrderedRing α] [Inhabited α] [BEq α]
  [LawfulBEq α] [Transc α] [FMax α]

/-- **LM descends; hypotheses only on the sublevel set.**  Any evaluator obeying the relativised laws;
the solver must be exact only at invariant states whose `rss` does not exceed the initial one. -/
theorem lm_core_sublevel {σ : Type} (E : LMEval σ α) (WF : σ → Prop) (R Jf : List α → List α)
    (L : EvalLawsOn E WF R Jf) {Pm : α → Prop} (hPm : MuPred Pm) (hF : FMaxLaw α) (hn : 0 < E.n)
    (hshape : ∀ θ, (Jf θ).length = E.n * θ.length ∧ (R θ).length = E.n)
    (h : LMHP α) (θ0 : List α) (k : Nat) (s0 s : LMSt σ α)
    (hex : ∀ s1, InvW E WF R Jf Pm θ0.length s1 → rss s1 ≤ rss s0 → SolveExactAt E s1)
    (hs0 : lmStart E h θ0 = some s0) (hmu0 : Pm s0.mu)
    (hl : lmLoop E h k s0 = some s) :
    rss s ≤ rss s0 ∧ rss s0 = dot8 (R θ0) (R θ0) ∧
      rss s = dot8 (R (E.vals s.tp)) (R (E.vals s.tp)) ∧ Belongs E R Jf s ∧
      (E.vals s.tp).length = θ0.length := by
  obtain ⟨hwf, hB, hv, hnu, _⟩ := invW_start E WF R Jf L h θ0 s0 hs0
  have hI0 : InvW E WF R Jf Pm θ0.length s0 ∧ rss s0 ≤ rss s0 :=
    ⟨⟨hwf, hB, hmu0, by rw [hnu]; exact hPm.two, by rw [hv]⟩, le_refl _⟩
  have hpred : ∀ s1, (InvW E WF R Jf Pm θ0.length s1 ∧ rss s1 ≤ rss s0) → PredNonneg E s1 := by
    intro s1 h1 δ hδ
    obtain ⟨hl1, hsol⟩ := hex s1 h1.1 h1.2 δ hδ
    obtain ⟨⟨_, ⟨_, b2, b3⟩, hmu, _, _⟩, _⟩ := h1
    exact lm_pred_nonneg E.n _ hn _ _ _ _ δ s1.mu (hshape _).1 (hshape _).2 b2 b3
      (hPm.nonneg _ hmu) hl1 hsol
  have hd := lmLoop_descent E h (fun s1 => InvW E WF R Jf Pm θ0.length s1 ∧ rss s1 ≤ rss s0)
    hpred
    (fun s1 s2 h1 hb =>
      ⟨invW_body E WF R Jf L hPm hF θ0.length h s1 s2 h1.1 (hex s1 h1.1 h1.2) hb,
        le_trans (lmBody_rss_le E h s1 s2 hb (hpred s1 h1)) h1.2⟩)
    k s0 s hI0 hl
  refine ⟨hd.1, ?_, ?_, hd.2.1.2.1, hd.2.1.2.2.2.2⟩
  · unfold rss; rw [hB.1, hv]
  · unfold rss; rw [hd.2.1.2.1.1]

/-- C4: what `lmFinish` returns, with the guard the theorems below require made explicit: for `n = p` the
scale factor is `rss / ((0 : ℕ) : α)` — `rss/0.0` = `inf` or `NaN` in `f64` (what the code returns there),
the junk value `0` of a field — so the covariance statements are made for `p < n` only. -/
theorem lmFinish_at_n_eq_p {σ : Type} (E : LMEval σ α) (s : LMSt σ α) (θ cov : List α)
    (hnp : E.n = (E.vals s.tp).length) (hr : lmFinish E s = some (θ, cov)) :
    ∃ inv, invOf θ.length s.jtj = some inv ∧
      cov = inv.map ((dot8 s.res s.res / ((0 : Nat) : α)) * ·) := by
  obtain ⟨f1, _, inv, f3, f4⟩ := lmFinish_out E s θ cov hr
  refine ⟨inv, f3, ?_⟩
  rw [f4, f1, hnp, Nat.sub_self]

/-- **B1 (restated over `EvalLawsOn`) + B3 (sublevel set): the whole of `LM::optimize` for any evaluator
obeying the relativised laws.**  Replaces `lm_descends_idealEval` / `lm_never_worse_idealEval` /
`lm_covariance_idealEval`, whose hypothesis `EvalLaws` the evaluator of the source does not satisfy
(`tapeEval_not_evalLaws`). -/
theorem lmG_descends_on_sublevel {σ : Type} (E : LMEval σ α) (WF : σ → Prop) (R Jf : List α → List α)
    (L : EvalLawsOn E WF R Jf) {Pm : α → Prop} (hPm : MuPred Pm) (hF : FMaxLaw α) (hn : 0 < E.n)
    (hshape : ∀ θ, (Jf θ).length = E.n * θ.length ∧ (R θ).length = E.n)
    (h : LMHP α) (θ0 : List α) (k : Nat) (θ cov : List α) (hpn : θ0.length < E.n)
    (hmu0 : ∀ jtj, jtjOf E.n (Jf θ0) = some jtj →
      Pm (h.tau * (statMax (diagOf θ0.length jtj)).getD (0 / 0)))
    (hex : ∀ s1, InvW E WF R Jf Pm θ0.length s1 →
      dot8 (R (E.vals s1.tp)) (R (E.vals s1.tp)) ≤ dot8 (R θ0) (R θ0) → SolveExactAt E s1)
    (hr : lmG E h θ0 k = some (θ, cov)) :
    dot8 (R θ) (R θ) ≤ dot8 (R θ0) (R θ0) ∧ θ.length = θ0.length ∧ θ.length < E.n ∧
      ∃ jtj inv, jtjOf E.n (Jf θ) = some jtj ∧ invOf θ.length jtj = some inv ∧
        cov = inv.map ((dot8 (R θ) (R θ) / ((E.n - θ.length : Nat) : α)) * ·) := by
  unfold lmG at hr
  split at hr
  · exact absurd hr (by simp)
  next s0 hs0 =>
    split at hr
    · exact absurd hr (by simp)
    next s hl =>
      obtain ⟨_, hB0, hv0, _, hmu⟩ := invW_start E WF R Jf L h θ0 s0 hs0
      have hr0 : rss s0 = dot8 (R θ0) (R θ0) := by unfold rss; rw [hB0.1, hv0]
      have hmu0' : Pm s0.mu := by
        rw [hmu]; exact hmu0 _ (by have := hB0.2.1; rw [hv0] at this; exact this)
      obtain ⟨d1, d2, d3, hB, d5⟩ := lm_core_sublevel E WF R Jf L hPm hF hn hshape h θ0 k s0 s
        (fun s1 h1 hle => hex s1 h1 (by
          have : rss s1 = dot8 (R (E.vals s1.tp)) (R (E.vals s1.tp)) := by
            unfold rss; rw [h1.2.1.1]
          rw [← this, ← hr0]; exact hle))
        hs0 hmu0' hl
      obtain ⟨f1, f2, inv, f3, f4⟩ := lmFinish_out E s θ cov hr
      have hlen : θ.length = θ0.length := by rw [f1]; exact d5
      refine ⟨?_, hlen, by rw [hlen]; exact hpn, s.jtj, inv, by rw [f1]; exact hB.2.1, f3, ?_⟩
      · rw [f1, ← d3, ← d2]; exact d1
      · rw [f4, f1]; unfold rss at d3; rw [d3]

/-- **LM on the evaluator of the source (shared `reverse` tape), non-singularity only on the sublevel
set.**  `tau ≥ 0`, `p < n`; the damped normal matrix has to be non-singular (for `μ ≥ 0`) only at
parameter vectors `θ'` with `rss(θ') ≤ rss(θ₀)`. -/
theorem lm_descends_on_sublevel_of_nonsingular (prog : List (Op α)) (h : LMHP α) (θ0 xs ys : List α)
    (k : Nat) (θ cov : List α) (habs : ∀ x : α, Transc.abs x = |x|) (hF : FMaxLaw α)
    (hpn : θ0.length < xs.length) (htau : 0 ≤ h.tau)
    (hns : ∀ θ' jtj mu, θ'.length = θ0.length → rssAt prog xs ys θ' ≤ rssAt prog xs ys θ0 →
      jtjOf xs.length (jacOf prog xs θ') = some jtj → 0 ≤ mu →
      NonSingular θ0.length (damp θ0.length mu jtj))
    (hr : lm prog h θ0 xs ys k = some (θ, cov)) :
    rssAt prog xs ys θ ≤ rssAt prog xs ys θ0 ∧ θ.length = θ0.length ∧ θ.length < xs.length ∧
      ∃ jtj inv, jtjOf xs.length (jacOf prog xs θ) = some jtj ∧ invOf θ.length jtj = some inv ∧
        cov = inv.map ((rssAt prog xs ys θ / ((xs.length - θ.length : Nat) : α)) * ·) := by
  have hn : 0 < xs.length := by omega
  unfold lm at hr
  split at hr
  · exact absurd hr (by simp)
  next hlen =>
    have hlen : xs.length = ys.length := not_not.mp hlen
    have L := tapeEval_laws prog xs ys hlen
    have hshape : ∀ θ', (jacOf prog xs θ').length = (tapeEval prog xs ys).n * θ'.length ∧
        (resOf prog xs ys θ').length = (tapeEval prog xs ys).n :=
      fun θ' => ⟨jacOf_length prog xs θ', resOf_length prog xs ys θ' hlen⟩
    exact lmG_descends_on_sublevel (tapeEval prog xs ys) WFSt _ _ L muPred_nonneg hF hn hshape h θ0 k
      θ cov hpn
      (fun jtj hj => mul_nonneg htau
        (statMax_diag_nonneg hF xs.length θ0.length hn _ jtj (jacOf_length prog xs θ0) hj))
      (fun s1 h1 hle => by
        obtain ⟨_, hB1, hm1, _, hl1⟩ := h1
        apply solveExactAt_of_nonsingular _ _ _ habs hn hshape s1 hB1
        rw [hl1]
        exact hns _ _ _ hl1 hle hB1.2.1 hm1)
      hr

/-- **lm_descends_on_sublevel.**  `tau > 0`, `1 ≤ p < n`, and no column of the Jacobian vanishes at the
parameter vectors of the sublevel set `rss(θ') ≤ rss(θ₀)`: then `LM::optimize` never returns a larger
residual sum of squares than it started with, for every budget.  (A start such as `[0, 5]` for
`p0·exp(p1·x)`, where the column of `p1` vanishes, is excluded by the hypothesis at `θ' = θ₀`.) -/
theorem lm_descends_on_sublevel (prog : List (Op α)) (h : LMHP α) (θ0 xs ys : List α) (k : Nat)
    (θ cov : List α) (habs : ∀ x : α, Transc.abs x = |x|) (hF : FMaxLaw α)
    (hp : 0 < θ0.length) (hpn : θ0.length < xs.length) (htau : 0 < h.tau)
    (hcol : ∀ θ', θ'.length = θ0.length → rssAt prog xs ys θ' ≤ rssAt prog xs ys θ0 →
      ∀ i, i < θ0.length → ∃ k, k < xs.length ∧ nth (jacOf prog xs θ') (k * θ0.length + i) ≠ 0)
    (hr : lm prog h θ0 xs ys k = some (θ, cov)) :
    rssAt prog xs ys θ ≤ rssAt prog xs ys θ0 ∧ θ.length = θ0.length ∧ θ.length < xs.length ∧
      ∃ jtj inv, jtjOf xs.length (jacOf prog xs θ) = some jtj ∧ invOf θ.length jtj = some inv ∧
        cov = inv.map ((rssAt prog xs ys θ / ((xs.length - θ.length : Nat) : α)) * ·) := by
  have hn : 0 < xs.length := by omega
  unfold lm at hr
  split at hr
  · exact absurd hr (by simp)
  next hlen =>
    have hlen : xs.length = ys.length := not_not.mp hlen
    have L := tapeEval_laws prog xs ys hlen
    have hshape : ∀ θ', (jacOf prog xs θ').length = (tapeEval prog xs ys).n * θ'.length ∧
        (resOf prog xs ys θ').length = (tapeEval prog xs ys).n :=
      fun θ' => ⟨jacOf_length prog xs θ', resOf_length prog xs ys θ' hlen⟩
    exact lmG_descends_on_sublevel (tapeEval prog xs ys) WFSt _ _ L muPred_pos hF hn hshape h θ0 k
      θ cov hpn
      (fun jtj hj => mul_pos htau
        (statMax_diag_pos hF xs.length θ0.length hn hp _ jtj (jacOf_length prog xs θ0) hj
          (hcol θ0 rfl (le_refl _))))
      (fun s1 h1 hle => by
        obtain ⟨_, hB1, hm1, _, hl1⟩ := h1
        apply solveExactAt_of_nonsingular _ _ _ habs hn hshape s1 hB1
        rw [hl1]
        exact damped_nonsingular xs.length θ0.length hn _ s1.jtj s1.mu
          (by rw [jacOf_length, hl1]) hB1.2.1 hm1 (hcol _ hl1 hle))
      hr

/-! ### B4: `invOf` is the inverse -/

theorem nth_map_range (g : Nat → α) (n k : Nat) (hk : k < n) :
    nth ((List.range n).map g) k = g k := by
  unfold nth
  rw [List.getD_eq_getElem?_getD, List.getElem?_map, List.getElem?_range hk]
  rfl

/-- **`invOf p a` is a right inverse of a non-singular `a`**: `Σⱼ a[i,j]·inv[j,c] = δ_ic`
(`Matrix::inv` = one `lu_solve` per column of the identity; bridge to `Cv.C11Lu.luSolve_spec`). -/
theorem invOf_right_inverse (habs : ∀ x : α, Transc.abs x = |x|) (p : Nat) (a inv : List α)
    (ha : a.length = p * p) (hns : NonSingular p a) (h : invOf p a = some inv) :
    inv.length = p * p ∧ ∀ i, i < p → ∀ c, c < p →
      ∑ j ∈ range p, nth a (i * p + j) * nth inv (j * p + c) = if i = c then 1 else 0 := by
  unfold invOf at h
  split at h
  · exact absurd h (by simp)
  next f piv hlu =>
    have hd := C11Lu.lu_pivots_ne_zero_of_nonsingular habs p a f piv ha hlu hns
    simp only at h
    split at h
    next hall =>
      simp only [Option.some.injEq] at h
      subst h
      refine ⟨by simp, ?_⟩
      intro i hi c hc
      -- the `c`-th column solve succeeded
      have hmem : LA.luSolve f piv ((List.range p).map fun i => if i = c then (1 : α) else 0) ∈
          (List.range p).map (fun c => LA.luSolve f piv
            ((List.range p).map fun i => if i = c then (1 : α) else 0)) :=
        List.mem_map.mpr ⟨c, List.mem_range.mpr hc, rfl⟩
      have hsome := (List.all_eq_true.mp hall) _ hmem
      obtain ⟨x, hx⟩ := Option.isSome_iff_exists.mp hsome
      obtain ⟨hxl, hsol⟩ := C11Lu.luSolve_spec p a _ f x piv ha (by simp) hlu hd hx
      have hcol : ∀ j, j < p →
          nth ((List.range (p * p)).map fun k =>
            (((((List.range p).map fun c => LA.luSolve f piv
              ((List.range p).map fun i => if i = c then (1 : α) else 0)).map
                fun o => (o.getD []).toArray).toArray).getD (k % p) #[]).getD (k / p) 0)
            (j * p + c) = nth x j := by
        intro j hj
        have hk : j * p + c < p * p := by
          calc j * p + c < j * p + p := by omega
            _ = (j + 1) * p := by ring
            _ ≤ p * p := Nat.mul_le_mul_right p hj
        rw [nth_map_range _ _ _ hk, idx_mod p j c hc, idx_div p j c hc]
        simp [hc, hx, nth]
      have hrhs := hsol i hi
      simp only [LA.rd] at hrhs
      rw [show (((List.range p).map fun i => if i = c then (1 : α) else 0).getD i 0) =
        (if i = c then 1 else 0) from nth_map_range _ p i hi] at hrhs
      rw [← hrhs]
      apply sum_congr rfl
      intro j hj
      rw [hcol j (mem_range.mp hj)]
    · exact absurd h (by simp)

/-- **The reported covariance is `rss/(n−p)·(JᵀJ)⁻¹` with a genuine inverse**: if `JᵀJ` at the returned
point is non-singular, the matrix `inv` of the descent theorems satisfies `JᵀJ · inv = I`. -/
theorem lm_covariance_is_inverse (habs : ∀ x : α, Transc.abs x = |x|) (n p : Nat) (hn : 0 < n)
    (J jtj inv : List α) (hJ : J.length = n * p) (hjtj : jtjOf n J = some jtj)
    (hns : NonSingular p jtj) (hinv : invOf p jtj = some inv) :
    ∀ i, i < p → ∀ c, c < p →
      ∑ j ∈ range p, nth jtj (i * p + j) * nth inv (j * p + c) = if i = c then 1 else 0 :=
  (invOf_right_inverse habs p jtj inv (jtj_entry n p hn J jtj hJ hjtj).1 hns hinv).2

end lm

/-! ### examples over `ℚ`: all hypotheses instantiated on the fit of `y = p0·x` to `(1,2), (2,5)` -/
section lmex
local instance : Transc ℚ := ⟨id, id, id, fun a _ => a, id, id, id, abs, id, id⟩
local instance : FMax ℚ := ⟨max⟩

/-- `lm_descends_on_sublevel` applies (`p = 1 < n = 2`, `tau = 1/1000 > 0`, the Jacobian column `[1, 2]`
never vanishes) … -/
theorem lmProg_descends_on_sublevel (k : Nat) (θ cov : List ℚ)
    (hr : lm lmProg ⟨1/1000000, 1/1000000, 1/1000⟩ [1] [1, 2] [2, 5] k = some (θ, cov)) :
    rssAt lmProg [1, 2] [2, 5] θ ≤ rssAt lmProg [1, 2] [2, 5] [1] ∧ θ.length = 1 ∧
      ∃ jtj inv, jtjOf 2 (jacOf lmProg [1, 2] θ) = some jtj ∧ invOf θ.length jtj = some inv ∧
        cov = inv.map ((rssAt lmProg [1, 2] [2, 5] θ / ((2 - θ.length : Nat) : ℚ)) * ·) := by
  obtain ⟨h1, h2, _, h4⟩ := lm_descends_on_sublevel lmProg ⟨1/1000000, 1/1000000, 1/1000⟩ [1] [1, 2] [2, 5]
    k θ cov (fun _ => rfl) (fun _ _ => rfl) (by decide) (by decide) (by norm_num)
    (fun θ' hl _ i hi => by
      obtain ⟨a, rfl⟩ : ∃ a, θ' = [a] := by
        match θ', hl with
        | [a], _ => exact ⟨a, rfl⟩
      have : i = 0 := by simpa using hi
      subst this
      exact ⟨0, by decide, by rw [lmProg_jac]; decide⟩)
    hr
  exact ⟨h1, h2, h4⟩

/-- … and `invOf` of its `JᵀJ = [5]` is the inverse `[1/5]`: hypotheses of `invOf_right_inverse` hold. -/
example : invOf 1 ([5] : List ℚ) = some [1 / 5] := by decide +kernel

example : ∀ i, i < 1 → ∀ c, c < 1 →
    ∑ j ∈ range 1, nth ([5] : List ℚ) (i * 1 + j) * nth ([1 / 5] : List ℚ) (j * 1 + c)
      = if i = c then 1 else 0 :=
  (invOf_right_inverse (fun _ => rfl) 1 [5] [1 / 5] rfl
    (fun v hv j hj => by
      have h0 := hv 0 (by decide)
      have : j = 0 := by omega
      subst this
      simpa [nth] using h0)
    (by decide +kernel)).2

end lmex

/-! ## Adam and SGD: domain hypothesis along the run only -/
section opt
variable [BEq ℝ] [FMax ℝ]

/-- loops agree when the step functions agree on the states the first loop reaches -/
theorem runLoop_agree_reach {σ : Type} (step1 step2 : Nat → σ → Option σ) (stopped : σ → σ → Bool)
    (s0 : σ) (T : Nat)
    (hag : ∀ t s s', t < T → iter step1 s0 t = some s → step1 (t + 1) s = some s' →
      step2 (t + 1) s = some s') :
    ∀ (fuel t : Nat) (s r : σ), t + fuel ≤ T → iter step1 s0 t = some s →
      runLoop step1 stopped fuel t s = some r → runLoop step2 stopped fuel t s = some r
  | 0, t, s, r, _, _, h => h
  | fuel + 1, t, s, r, hT, hre, h => by
    simp only [runLoop] at h ⊢
    cases h1 : step1 (t + 1) s with
    | none => simp [h1] at h
    | some s' =>
      rw [hag t s s' (by omega) hre h1]
      simp only [h1] at h ⊢
      split at h
      next hst => simp only [hst, if_true]; exact h
      next hst =>
        simp only [hst]
        exact runLoop_agree_reach step1 step2 stopped s0 T hag fuel (t + 1) s' r (by omega)
          (by simp [iter, hre, h1]) h

/-- **Adam follows the published rule with the true gradient; the objective has to be inside its domain
of differentiability only at the points where the run takes a gradient** (iterates `0 … k−1` of the
model's own run). -/
theorem adam_follows_published_rule_on_run (prog : List (Op ℝ)) (h : AdamHP ℝ) (θ0 : List ℝ) (k : Nat)
    (hk : k < 2 ^ 31) (θ : List ℝ) (hN : NoConstDivVar prog) (hP : PowiRange prog)
    (hD : ∀ j s, j < k → iter (adamStep (gradAt prog) h) (adamInit θ0) j = some s →
      InDomain prog s.θ.length none (vec s.θ))
    (hr : adam prog h θ0 k = some θ) :
    (iter (kbStep (gradTrue prog) h) (adamInit θ0)
      (stopIdx (kbStep (gradTrue prog) h) adamStopped (adamInit θ0) k)).map (·.θ) = some θ := by
  unfold adam at hr
  split at hr
  · rw [← adam_refines (gradTrue prog) h θ0 k hk]
    unfold adamG at hr ⊢
    obtain ⟨r, hr1, hr2⟩ := Option.map_eq_some_iff.mp hr
    have := runLoop_agree_reach (adamStep (gradAt prog) h) (adamStep (gradTrue prog) h)
      (fun s' s => converged s'.θ s.θ) (adamInit θ0) k (fun t s s' ht hre hs => by
        unfold adamStep at hs ⊢
        cases hg : gradAt prog s.θ with
        | none => simp [hg] at hs
        | some gr =>
          rw [gradAt_true prog s.θ gr hg hN hP (hD t s ht hre)]
          simpa [hg] using hs) k 0 _ r (by omega) rfl hr1
    unfold adamInit at this
    rw [this]
    simp [hr2]
  · exact absurd hr (by simp)

/-- **SGD (plain, momentum, Nesterov) follows the published rule with the true gradient**, the domain
condition being required only where the run takes its gradients: at the iterate (plain / momentum) or
at the look-ahead point `θ − μ·u` of the iterate (Nesterov). -/
theorem sgd_follows_published_rule_on_run (prog : List (Op ℝ)) (h : SgdHP ℝ) (θ0 : List ℝ) (k : Nat)
    (θ : List ℝ) (hN : NoConstDivVar prog) (hP : PowiRange prog)
    (hD : ∀ j s, j < k → iter (sgdStep (sgdTapeOracle prog h) h) (sgdInit θ0) j = some s →
      InDomain prog s.θ.length none (vec s.θ) ∧
      InDomain prog (lookPoint h.momentum s.θ s.u).length none (vec (lookPoint h.momentum s.θ s.u)))
    (hr : sgd prog h θ0 k = some θ) :
    (iter (pubSgdStep (gradTrue prog) h) (sgdInit θ0)
      (stopIdx (pubSgdStep (gradTrue prog) h) sgdStopped (sgdInit θ0) k)).map (·.θ) = some θ := by
  rw [← sgd_refines (gradTrue prog) h θ0 k]
  unfold sgd at hr
  unfold sgdG at hr ⊢
  obtain ⟨r, hr1, hr2⟩ := Option.map_eq_some_iff.mp hr
  have := runLoop_agree_reach (sgdStep (sgdTapeOracle prog h) h)
    (sgdStep (sgdOracle (gradTrue prog) h) h)
    (fun s' s => converged s'.θ s.θ) (sgdInit θ0) k (fun t s s' ht hre hs => by
      unfold sgdStep at hs ⊢
      cases hg : sgdTapeOracle prog h s.θ s.u with
      | none => simp [hg] at hs
      | some gr =>
        have e : sgdOracle (gradTrue prog) h s.θ s.u = some gr := by
          unfold sgdTapeOracle at hg
          unfold sgdOracle
          cases hn : h.nesterov
          · simp only [hn, Bool.false_eq_true, if_false] at hg ⊢
            exact gradAt_true prog s.θ gr hg hN hP (hD t s ht hre).1
          · simp only [hn, if_true] at hg ⊢
            exact gradAtLookAhead_true prog h.momentum s.θ s.u gr hg hN hP (hD t s ht hre).2
        rw [e]
        simpa [hg] using hs) k 0 _ r (by omega) rfl hr1
  unfold sgdInit at this
  rw [this]
  simp [hr2]

/-! ### example: `f(p₀, p₁) = p₀ / p₁` — NOT differentiable everywhere, one Adam step from `(1, 2)` -/

/-- `p0 / p1` (a `Var / Var` node) -/
def divProg : List (Op ℝ) := [.param 0, .param 1, .div]

theorem divProg_ncdv : NoConstDivVar divProg := by decide

theorem divProg_powi : PowiRange divProg := by
  intro o ho
  simp only [divProg, List.mem_cons, List.not_mem_nil, or_false] at ho
  rcases ho with rfl | rfl | rfl <;> trivial

theorem divProg_dom : InDomain divProg 2 none (vec [1, 2]) := by
  simp [InDomain, DomRun, domStep, divProg, fStep, vec]

/-- the global hypothesis of `adam_follows_published_rule` fails for `p0 / p1` … -/
example : ¬ ∀ θ' : List ℝ, InDomain divProg θ'.length none (vec θ') := by
  intro hall
  have := hall [1, 0]
  simp [InDomain, DomRun, domStep, divProg, fStep, vec] at this

/-- … the hypothesis along the run holds for one step from `(1, 2)`, so the theorem applies. -/
example (h : AdamHP ℝ) (θ : List ℝ) (hr : adam divProg h [1, 2] 1 = some θ) :
    (iter (kbStep (gradTrue divProg) h) (adamInit [1, 2])
      (stopIdx (kbStep (gradTrue divProg) h) adamStopped (adamInit [1, 2]) 1)).map (·.θ) = some θ :=
  adam_follows_published_rule_on_run divProg h [1, 2] 1 (by norm_num) θ divProg_ncdv divProg_powi
    (fun j s hj hs => by
      have : j = 0 := by omega
      subst this
      simp only [iter, Option.some.injEq] at hs
      subst hs
      exact divProg_dom)
    hr

/-- the SGD theorem with its hypothesis along the run instantiated: one step (plain, momentum or Nesterov —
the velocity is still zero, so the look-ahead point is the start) on `p0 / p1` from `(1, 2)` -/
example (h : SgdHP ℝ) (θ : List ℝ) (hr : sgd divProg h [1, 2] 1 = some θ) :
    (iter (pubSgdStep (gradTrue divProg) h) (sgdInit [1, 2])
      (stopIdx (pubSgdStep (gradTrue divProg) h) sgdStopped (sgdInit [1, 2]) 1)).map (·.θ) = some θ :=
  sgd_follows_published_rule_on_run divProg h [1, 2] 1 θ divProg_ncdv divProg_powi
    (fun j s hj hs => by
      have : j = 0 := by omega
      subst this
      simp only [iter, Option.some.injEq] at hs
      subst hs
      refine ⟨divProg_dom, ?_⟩
      simp [InDomain, DomRun, domStep, divProg, fStep, vec, lookPoint, sgdInit])
    hr

end opt

/-! ## LM on models linear in the parameters: an end-to-end statement about `lm` (review 2, C10-A1 repaired by
`Cv.Rounding8.LMrun.tapeEval_linModel`) -/
section linear
open Cv.Rounding8.LMrun Cv.Rounding7.LM
variable [Inhabited ℝ] [BEq ℝ] [LawfulBEq ℝ] [Transc ℝ] [FMax ℝ]

/-- **LM on the tape evaluator of the source, RPN model linear in its `p` parameters, exact arithmetic: a
conditional contraction.**  If `f(θ,x) = Σⱼ cf x j·θⱼ` (value and derivative row of the program, for every parameter
list of length `p`), no column of the design matrix vanishes, `tau > 0`, `D ≤ κ·JᵀJ` (`κ` a hypothesis: full column
rank) and `θs` is a least-squares solution, then whatever `lm` returns after budget `k` is the parameter vector of a
loop state `s` with: either a stop test fired (`s.stop`), or
`‖θ − θs‖²_A ≤ (Λκ/(1+Λκ))^k ‖θ₀ − θs‖²_A` with `Λ = max(μ₀, 2)`.  This is NOT "reaches the least-squares
solution": it is a contraction bound unless a stop test fires (then `stop_eps1` / `stop_eps2` bound the gradient). -/
theorem lm_linear_contraction (prog : List (Op ℝ)) (xs ys : List ℝ) (hlen : xs.length = ys.length)
    (hn : 0 < xs.length) (p : ℕ) (hp : 0 < p) (cf : ℝ → ℕ → ℝ)
    (hval : ∀ (x : ℝ) (θ : List ℝ), θ.length = p → valOf prog θ x = ∑ j ∈ range p, cf x j * nth θ j)
    (hrow : ∀ (x : ℝ) (θ : List ℝ), θ.length = p → rowOf prog θ x = (List.range p).map (cf x))
    (hcol : ∀ i, i < p → ∃ k, k < xs.length ∧ cf (nth xs k) i ≠ 0)
    (habs : ∀ x : ℝ, Transc.abs x = |x|) (hF : FMaxLaw ℝ)
    (h : LMHP ℝ) (hτ : 0 < h.tau) (θ0 : List ℝ) (hθ : θ0.length = p) (k : ℕ) (θ cov : List ℝ)
    (κ : ℝ) (hκ : 0 ≤ κ)
    (hκD : ∀ x : ℕ → ℝ, bD (Jm (linJac cf p xs) p) xs.length p x x ≤
      κ * bA (Jm (linJac cf p xs) p) xs.length p x x)
    (θs : ℕ → ℝ) (hs : IsLS (Jm (linJac cf p xs) p) xs.length p (fun k => nth ys k) θs)
    (hr : lm prog h θ0 xs ys k = some (θ, cov)) :
    ∃ (s0 s : LMSt (TapeSt ℝ) ℝ), lmStart (tapeEval prog xs ys) h θ0 = some s0 ∧
      lmLoop (tapeEval prog xs ys) h k s0 = some s ∧ θ = (tapeEval prog xs ys).vals s.tp ∧
      (s.stop = true ∨ errA (linJac cf p xs) xs.length p θs θ ≤
        ((max s0.mu 2) * κ / (1 + (max s0.mu 2) * κ)) ^ k * errA (linJac cf p xs) xs.length p θs θ0) := by
  have L := tapeEval_linModel prog xs ys hlen hn p cf hval hrow hcol habs hF
  unfold lm at hr
  split at hr
  · exact absurd hr (by simp)
  · unfold lmG at hr
    split at hr
    · exact absurd hr (by simp)
    next s0 hs0 =>
      split at hr
      · exact absurd hr (by simp)
      next s hl =>
        have hI := linInv_start L h hτ hp θ0 hθ s0 hs0
        obtain ⟨_, _, hc⟩ := lmLoop_linear L h (max s0.mu 2) κ (le_max_right _ _) hκ hκD θs hs k s0 s hI hl
        obtain ⟨f1, _⟩ := lmFinish_out _ s θ cov hr
        obtain ⟨_, _, hv0, _⟩ := invW_start _ WFSt _ _ L.laws h θ0 s0 hs0
        refine ⟨s0, s, hs0, hl, f1, ?_⟩
        rcases hc with hc | hc
        · exact Or.inl hc
        · right; rw [f1]; rw [hv0] at hc; exact hc

end linear

section linex
open Cv.Rounding8.LMrun Cv.Rounding7.LM
attribute [local instance] Examples.instBEqReal_compute Examples.instLawfulBEqReal_compute Examples.instTranscReal
  Examples.instFMaxReal

/-- all structural hypotheses of `lm_linear_contraction` instantiated for the straight line `p0 + p1·x` on the
points `x = 0, 1, 2` (`κ` and the least-squares solution remain the quantified data of the statement) -/
example (h : LMHP ℝ) (hτ : 0 < h.tau) (θ0 : List ℝ) (hθ : θ0.length = 2) (k : ℕ) (θ cov : List ℝ)
    (κ : ℝ) (hκ : 0 ≤ κ)
    (hκD : ∀ x : ℕ → ℝ, bD (Jm (linJac Examples.cf01 2 [0, 1, 2]) 2) 3 2 x x ≤
      κ * bA (Jm (linJac Examples.cf01 2 [0, 1, 2]) 2) 3 2 x x)
    (θs : ℕ → ℝ) (hs : IsLS (Jm (linJac Examples.cf01 2 [0, 1, 2]) 2) 3 2 (fun k => nth ([1, 3, 5] : List ℝ) k) θs)
    (hr : lm Examples.prog01 h θ0 [0, 1, 2] [1, 3, 5] k = some (θ, cov)) :
    ∃ (s0 s : LMSt (TapeSt ℝ) ℝ), lmStart (tapeEval Examples.prog01 [0, 1, 2] [1, 3, 5]) h θ0 = some s0 ∧
      lmLoop (tapeEval Examples.prog01 [0, 1, 2] [1, 3, 5]) h k s0 = some s ∧
      θ = (tapeEval Examples.prog01 [0, 1, 2] [1, 3, 5]).vals s.tp ∧
      (s.stop = true ∨ errA (linJac Examples.cf01 2 [0, 1, 2]) 3 2 θs θ ≤
        ((max s0.mu 2) * κ / (1 + (max s0.mu 2) * κ)) ^ k * errA (linJac Examples.cf01 2 [0, 1, 2]) 3 2 θs θ0) :=
  lm_linear_contraction Examples.prog01 [0, 1, 2] [1, 3, 5] rfl (by norm_num) 2 (by norm_num) Examples.cf01
    (fun x θ hθ => (Examples.prog01_lin x θ hθ).1) (fun x θ hθ => (Examples.prog01_lin x θ hθ).2)
    (by
      intro i hi
      have : i = 0 ∨ i = 1 := by omega
      rcases this with rfl | rfl
      · exact ⟨0, by norm_num, by simp [Examples.cf01]⟩
      · exact ⟨1, by norm_num, by simp [Examples.cf01, nth]⟩)
    (fun _ => rfl) (fun _ _ => rfl) h hτ θ0 hθ k θ cov κ hκ hκD θs hs hr

end linex


end Cv.C10R
