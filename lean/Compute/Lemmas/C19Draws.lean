import Compute.Lemmas.C19Rng
/-
Structure of a sequence of draws (`Rng.drawN?`): concatenation, nesting, and the statement that the `j`-th value of a
successful sequence is the sampler evaluated at the `j`-th generator state of that very run (the state after the
previous `j` draws).  No Mathlib.
-/
namespace Cv.Rng

variable {β : Type}

/-- State of the run after the first `j` draws (`none` if one of them does not return). -/
def stateAfter (f : Rng → Option (β × Rng)) (j : Nat) (g : Rng) : Option Rng := (drawN? f j g).map (·.2)

theorem drawN?_zero (f : Rng → Option (β × Rng)) (g : Rng) : drawN? f 0 g = some ([], g) := rfl

theorem drawN?_succ (f : Rng → Option (β × Rng)) (n : Nat) (g : Rng) :
    drawN? f (n + 1) g = (f g).bind fun p => (drawN? f n p.2).map fun q => (p.1 :: q.1, q.2) := rfl

/-- `a + b` draws are `a` draws followed by `b` draws from the state reached. -/
theorem drawN?_add (f : Rng → Option (β × Rng)) (a b : Nat) (g : Rng) :
    drawN? f (a + b) g = (drawN? f a g).bind fun p => (drawN? f b p.2).map fun q => (p.1 ++ q.1, q.2) := by
  induction a generalizing g with
  | zero =>
    rw [Nat.zero_add, drawN?_zero, Option.bind_some]
    cases drawN? f b g with
    | none => rfl
    | some q => rfl
  | succ a ih =>
    rw [show a + 1 + b = (a + b) + 1 by omega, drawN?_succ, drawN?_succ]
    cases hf : f g with
    | none => rfl
    | some p =>
      simp only [Option.bind_some]
      rw [ih]
      cases drawN? f a p.2 with
      | none => rfl
      | some p' =>
        simp only [Option.bind_some, Option.map_some]
        cases drawN? f b p'.2 with
        | none => rfl
        | some q => rfl

/-- `nb` blocks of `n` draws are `nb * n` draws, block boundaries forgotten. -/
theorem drawN?_nested (f : Rng → Option (β × Rng)) (n nb : Nat) (g : Rng) :
    (drawN? (drawN? f n) nb g).map (fun p => (p.1.flatten, p.2)) = drawN? f (nb * n) g := by
  induction nb generalizing g with
  | zero => rw [Nat.zero_mul]; rfl
  | succ k ih =>
    rw [drawN?_succ, show (k + 1) * n = n + k * n by rw [Nat.succ_mul]; omega, drawN?_add f n (k * n)]
    cases drawN? f n g with
    | none => rfl
    | some p =>
      simp only [Option.bind_some]
      rw [← ih]
      cases drawN? (drawN? f n) k p.2 with
      | none => rfl
      | some q => rfl

/-- In a successful run of `k` draws the `j`-th value is `f` evaluated at the state after the first `j` draws of the
same run. -/
theorem drawN?_getElem {f : Rng → Option (β × Rng)} {k : Nat} {g g' : Rng} {xs : List β}
    (h : drawN? f k g = some (xs, g')) (j : Nat) (hj : j < xs.length) :
    ∃ gj gj', stateAfter f j g = some gj ∧ f gj = some (xs[j], gj') := by
  induction k generalizing g xs j with
  | zero =>
    simp only [drawN?_zero, Option.some.injEq, Prod.mk.injEq] at h
    rw [← h.1] at hj; exact absurd hj (Nat.not_lt_zero _)
  | succ k ih =>
    rw [drawN?_succ, Option.bind_eq_some_iff] at h
    obtain ⟨p, hp, h⟩ := h
    rw [Option.map_eq_some_iff] at h
    obtain ⟨q, hq, he⟩ := h
    simp only [Prod.mk.injEq] at he
    obtain ⟨hxs, hg⟩ := he
    subst hxs
    cases j with
    | zero => exact ⟨g, p.2, rfl, by simpa using hp⟩
    | succ j =>
      obtain ⟨gj, gj', hs, hf⟩ := ih (g := p.2) (xs := q.1) (by rw [hq, ← hg]) j (by simpa using hj)
      refine ⟨gj, gj', ?_, by simpa using hf⟩
      unfold stateAfter at hs ⊢
      rw [drawN?_succ, hp, Option.bind_some, Option.map_map]
      rw [Option.map_eq_some_iff] at hs ⊢
      obtain ⟨r, hr, hr2⟩ := hs
      exact ⟨r, hr, hr2⟩

/-- A run of `k` draws fails only because one of ITS OWN draws fails: there is a `j < k` such that the first `j`
draws return, reaching state `gj`, and `f gj = none`. -/
theorem drawN?_none_at {f : Rng → Option (β × Rng)} {k : Nat} {g : Rng} (h : drawN? f k g = none) :
    ∃ j, j < k ∧ ∃ gj, stateAfter f j g = some gj ∧ f gj = none := by
  induction k generalizing g with
  | zero => simp [drawN?_zero] at h
  | succ k ih =>
    rw [drawN?_succ] at h
    cases hf : f g with
    | none => exact ⟨0, Nat.succ_pos _, g, rfl, hf⟩
    | some p =>
      rw [hf, Option.bind_some, Option.map_eq_none_iff] at h
      obtain ⟨j, hj, gj, hs, hn⟩ := ih h
      refine ⟨j + 1, by omega, gj, ?_, hn⟩
      unfold stateAfter at hs ⊢
      rw [drawN?_succ, hf, Option.bind_some, Option.map_map]
      rw [Option.map_eq_some_iff] at hs ⊢
      obtain ⟨r, hr, hr2⟩ := hs
      exact ⟨r, hr, hr2⟩

/-- Conversely, a run returns as soon as each of its own draws returns. -/
theorem drawN?_isSome {f : Rng → Option (β × Rng)} {k : Nat} {g : Rng}
    (h : ∀ j, j < k → ∀ gj, stateAfter f j g = some gj → (f gj).isSome) : (drawN? f k g).isSome := by
  cases hd : drawN? f k g with
  | some r => rfl
  | none =>
    obtain ⟨j, hj, gj, hs, hn⟩ := drawN?_none_at hd
    have := h j hj gj hs
    rw [hn] at this
    exact this

end Cv.Rng

/-! ### Lemire's draw returns the output of the FIRST accepted word of the stream -/
namespace Cv.Rng

/-- The next raw word of the generator at state `g` (`alea::u64()`), and the state after it.  Irreducible so that the
elaborator never compares `g` with `step g` by structure eta (which would unfold 64-bit literal arithmetic). -/
@[irreducible] def nextWord (g : Rng) : UInt64 := (g.u64).1
@[irreducible] def step (g : Rng) : Rng := (g.u64).2

theorem u64_eq (g : Rng) : g.u64 = (nextWord g, step g) := by unfold nextWord step; rfl

/-- Generator state after `k` raw draws from `g`. -/
def nthState (g : Rng) : Nat → Rng
  | 0 => g
  | k + 1 => nthState (step g) k

/-- The raw 64-bit word at offset `k` of the stream that starts at state `g` (offset 0 = the next word). -/
def word (g : Rng) (k : Nat) : UInt64 := nextWord (nthState g k)

theorem nthState_succ (g : Rng) (k : Nat) : nthState g (k + 1) = nthState (step g) k := nthState.eq_2 g k
theorem nthState_zero (g : Rng) : nthState g 0 = g := nthState.eq_1 g
theorem nthState_one (g : Rng) : nthState g (0 + 1) = step g := (nthState_succ g 0).trans (nthState_zero _)
theorem word_succ (g : Rng) (k : Nat) : word g (k + 1) = word (step g) k := congrArg nextWord (nthState_succ g k)
theorem word_zero (g : Rng) : word g 0 = nextWord g := congrArg nextWord (nthState_zero g)

theorem lemireLoop_succ (m t : UInt64) (f : Nat) (g : Rng) :
    lemireLoop m t (f + 1) g =
      if nextWord g * m < t then lemireLoop m t f (step g) else some (mulHi (nextWord g) m, step g) := by
  simp only [lemireLoop, u64_eq]

theorem u64LessThan_unfold (fuel : Nat) (m : UInt64) (g : Rng) :
    u64LessThan fuel m g =
      if nextWord g * m < m then
        if nextWord g * m < lemireT m then lemireLoop m (lemireT m) fuel (step g)
        else some (mulHi (nextWord g) m, step g)
      else some (mulHi (nextWord g) m, step g) := by
  simp only [u64LessThan, u64_eq]
  rfl

theorem lemireT_zero {m : UInt64} (hm0 : m.toNat = 0) : (lemireT m).toNat = 0 := by
  unfold lemireT; rw [UInt64.toNat_mod, hm0, Nat.mod_zero, UInt64.toNat_sub, hm0]; rfl

/-- a word whose low product is `≥ m` is accepted (`2^64 mod m < m`). -/
theorem accept_of_not_lt (r m : UInt64) (hr : ¬ (r * m < m)) : ¬ (r * m < lemireT m) := by
  intro hlt
  apply hr
  rw [UInt64.lt_iff_toNat_lt] at hlt ⊢
  by_cases hm : 0 < m.toNat
  · exact Nat.lt_trans hlt (lemireT_lt m hm)
  · have := lemireT_zero (m := m) (by omega); omega

theorem lt_of_reject (r m : UInt64) (hr : r * m < lemireT m) : r * m < m := by
  rw [UInt64.lt_iff_toNat_lt] at hr ⊢
  by_cases hm : 0 < m.toNat
  · exact Nat.lt_trans hr (lemireT_lt m hm)
  · have := lemireT_zero (m := m) (by omega); omega

theorem lemireLoop_first {m t : UInt64} {fuel : Nat} {g g' : Rng} {v : UInt64}
    (h : lemireLoop m t fuel g = some (v, g')) :
    ∃ k, k < fuel ∧ (∀ i, i < k → word g i * m < t) ∧ ¬ (word g k * m < t) ∧
      v = mulHi (word g k) m ∧ g' = nthState g (k + 1) := by
  induction fuel generalizing g with
  | zero => simp [lemireLoop] at h
  | succ f ih =>
    rw [lemireLoop_succ] at h
    split at h
    · rename_i hr
      obtain ⟨k, hk, hrej, hacc, hv, hg⟩ := ih h
      refine ⟨k + 1, by omega, ?_, ?_, ?_, ?_⟩
      · intro i hi
        cases i with
        | zero => rw [word_zero]; exact hr
        | succ i => rw [word_succ]; exact hrej i (by omega)
      · rw [word_succ]; exact hacc
      · rw [word_succ]; exact hv
      · rw [nthState_succ]; exact hg
    · rename_i hr
      simp only [Option.some.injEq, Prod.mk.injEq] at h
      refine ⟨0, by omega, fun i hi => absurd hi (Nat.not_lt_zero _), ?_, ?_, ?_⟩
      · rw [word_zero]; exact hr
      · rw [word_zero]; exact h.1.symm
      · rw [nthState_one]; exact h.2.symm

/-- **First accepted word.**  If `u64_less_than(m)` returns `(v, g')` from state `g`, there is an offset `k ≤ fuel` such
that the words at offsets `0 … k-1` of the stream from `g` are all rejected, the word at offset `k` is accepted
(`lemireAccept`), `v = mulHi (word k) m`, and exactly `k + 1` words were consumed (`g'` is the state after `k + 1` raw draws). -/
theorem u64LessThan_first_accepted {fuel : Nat} {m : UInt64} {g g' : Rng} {v : UInt64}
    (h : u64LessThan fuel m g = some (v, g')) :
    ∃ k, k ≤ fuel ∧ (∀ i, i < k → ¬ lemireAccept m (word g i)) ∧ lemireAccept m (word g k) ∧
      v = mulHi (word g k) m ∧ g' = nthState g (k + 1) := by
  rw [u64LessThan_unfold] at h
  split at h
  · split at h
    · rename_i _ hr
      obtain ⟨k, hk, hrej, hacc, hv, hg⟩ := lemireLoop_first h
      refine ⟨k + 1, by omega, ?_, ?_, ?_, ?_⟩
      · intro i hi
        cases i with
        | zero => rw [word_zero]; exact fun hn => hn hr
        | succ i => rw [word_succ]; exact fun hn => hn (hrej i (by omega))
      · rw [word_succ]; exact hacc
      · rw [word_succ]; exact hv
      · rw [nthState_succ]; exact hg
    · rename_i _ hr
      simp only [Option.some.injEq, Prod.mk.injEq] at h
      refine ⟨0, Nat.zero_le _, fun i hi => absurd hi (Nat.not_lt_zero _), ?_, ?_, ?_⟩
      · rw [word_zero]; exact hr
      · rw [word_zero]; exact h.1.symm
      · rw [nthState_one]; exact h.2.symm
  · rename_i hr
    simp only [Option.some.injEq, Prod.mk.injEq] at h
    refine ⟨0, Nat.zero_le _, fun i hi => absurd hi (Nat.not_lt_zero _), ?_, ?_, ?_⟩
    · rw [word_zero]; exact accept_of_not_lt _ _ hr
    · rw [word_zero]; exact h.1.symm
    · rw [nthState_one]; exact h.2.symm

theorem lemireLoop_of_first {m t : UInt64} {fuel k : Nat} {g : Rng} (hk : k < fuel)
    (hrej : ∀ i, i < k → word g i * m < t) (hacc : ¬ (word g k * m < t)) :
    lemireLoop m t fuel g = some (mulHi (word g k) m, nthState g (k + 1)) := by
  induction k generalizing g fuel with
  | zero =>
    obtain ⟨f, rfl⟩ : ∃ f, fuel = f + 1 := ⟨fuel - 1, by omega⟩
    rw [word_zero] at hacc
    rw [lemireLoop_succ, if_neg hacc, word_zero, nthState_one]
  | succ k ih =>
    obtain ⟨f, rfl⟩ : ∃ f, fuel = f + 1 := ⟨fuel - 1, by omega⟩
    have h0 := hrej 0 (by omega)
    rw [word_zero] at h0
    rw [lemireLoop_succ, if_pos h0, word_succ, nthState_succ]
    apply ih (g := step g) (by omega)
    · intro i hi; have := hrej (i + 1) (by omega); rw [word_succ] at this; exact this
    · rw [word_succ] at hacc; exact hacc

/-- Converse: with enough fuel the draw returns the output of the first accepted word of the stream. -/
theorem u64LessThan_of_first_accepted {fuel k : Nat} {m : UInt64} {g : Rng} (hk : k ≤ fuel)
    (hrej : ∀ i, i < k → ¬ lemireAccept m (word g i)) (hacc : lemireAccept m (word g k)) :
    u64LessThan fuel m g = some (mulHi (word g k) m, nthState g (k + 1)) := by
  have hrej' : ∀ i, i < k → word g i * m < lemireT m := fun i hi => Classical.not_not.1 (hrej i hi)
  have hacc' : ¬ (word g k * m < lemireT m) := hacc
  rw [u64LessThan_unfold]
  cases k with
  | zero =>
    rw [word_zero] at hacc'
    rw [if_neg hacc', word_zero, nthState_one]
    split <;> rfl
  | succ k =>
    have h0 := hrej' 0 (by omega)
    rw [word_zero] at h0
    rw [if_pos (lt_of_reject _ _ h0), if_pos h0, word_succ, nthState_succ]
    apply lemireLoop_of_first (g := step g) (by omega)
    · intro i hi; have := hrej' (i + 1) (by omega); rw [word_succ] at this; exact this
    · rw [word_succ] at hacc'; exact hacc'

end Cv.Rng
