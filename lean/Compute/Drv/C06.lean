import Compute.Drv.Common
import Compute.Model.Scalar
import Compute.Model.Solve
import Compute.Model.Glm
import Compute.Model.GlmObj
/-
Driver for C06 (GLM fitting).  Request:
  `glm <family> n p <x: n*p floats> <y: n floats> <0 | 1 len w…> <0 | 1 len off…> alpha tol maxiter`
  family ∈ gaussian bernoulli quasipoisson poisson gamma exponential
Reply:
  `= <ok:0|1> <coef vec> <deviance> <dispersion|P> <covariance vec|P> <std errors vec|P> <predict(x) vec|P> <aic> <bic> <score(x,y)|P>`
  `glm2 <family> alpha tol maxiter <problem 1> <problem 2>` (problem = n p x y w off): one object fitted twice, reply for the second fit
  `setcoef <family> <mode> alpha tol maxiter <coef vec> <problem 1> [<problem 2>]`, `fam <family> <method> <args>` (see below)
  (`P` = that accessor panicked) or `! panic` when `fit` itself panics.
-/
open Cv Cv.Glm

def c06Family (s : String) : Option Family :=
  match s with
  | "gaussian" => some .gaussian
  | "bernoulli" => some .bernoulli
  | "quasipoisson" => some .quasiPoisson
  | "poisson" => some .poisson
  | "gamma" => some .gamma
  | "exponential" => some .exponential
  | _ => none

def c06Opt : P (Option (List Float)) := do
  let h ← pNat
  if h = 0 then pure none else do let v ← pVec; pure (some v)

def c06ShowOptVec (v : Option (List Float)) : String :=
  match v with
  | some l => showVec l
  | none => "P"

/-- one data set: `n p <x> <y> <0 | 1 len w…> <0 | 1 len off…>` -/
def c06Problem : P (List Float × List Float × Option (List Float) × Option (List Float)) := do
  let n ← pNat; let p ← pNat
  let x ← pMany pFloat (n * p); let y ← pMany pFloat n
  let w ← c06Opt; let off ← c06Opt
  pure (x, y, w, off)

def c06ReportBody (r : Fit Float) (x y : List Float) : String :=
  let disp := match dispersion r with | some d => showFloat d | none => "P"
  let sc := match score r x y with | some d => showFloat d | none => "P"
  s!"{showBool r.ok} {showVec r.coef} {showFloat r.deviance} {disp} {c06ShowOptVec (coefCovariance Cv.invertMatrix r)} {c06ShowOptVec (coefStandardError Cv.invertMatrix r)} {c06ShowOptVec (predict r x)} {showFloat (aic r)} {showFloat (bic r)} {sc}"

def c06Report (r : Fit Float) (x y : List Float) : String := ok (c06ReportBody r x y)

/-- one step of an object history: `alpha tol maxiter <0 | 1 len coef…> <problem>` =
`set_penalty; set_tolerance; [set_weights]; [set_offset]; [set_coef]; fit` on the SAME object -/
abbrev C06HistStep := Float × Float × Nat × Option (List Float) × List Float × List Float × Option (List Float) × Option (List Float)

def c06HistStep : P C06HistStep := do
  let alpha ← pFloat; let tol ← pFloat; let mi ← pNat
  let c ← c06Opt
  let (x, y, w, off) ← c06Problem
  pure (alpha, tol, mi, c, x, y, w, off)

/-- The state that survives between two fits of one `GLM` object: the weights and offsets that were set (every other
field is overwritten by `fit`; `set_coef` before a `fit` has no effect because `fit` re-initialises the coefficients).
`none` = a step panicked. -/
def c06RunHist (fam : Family) : List C06HistStep → Option (List Float) → Option (List Float) → Option (List String)
  | [], _, _ => some []
  | (alpha, tol, mi, _, x, y, w, off) :: rest, w0, o0 =>
    let w' := w <|> w0
    let o' := off <|> o0
    match fit (α := Float) Cv.solve fam x y w' o' alpha tol mi with
    | none => none
    | some r =>
      match c06RunHist fam rest w' o' with
      | none => none
      | some reps => some (c06ReportBody r x y :: reps)

/-- `1e-5`, the default tolerance of `GLM::new` -/
def c06Tol0 : Float := Float.ofBits 0x3EE4F8B588E368F1

/-- the step kinds of `hist2` (an object history with READS between the fits and no forced setter):
`F <mode> alpha tol maxiter <problem>`: mode 0 = leave alpha / tolerance as they are, 1 = `set_penalty` + `set_tolerance`,
2 = assign the pub fields; weights / offsets of the problem (if given) are set before the fit; then `fit`;
`R` = read every accessor (report on the data of the last fit);
`SP a`, `ST t`, `SW vec`, `SO vec`, `SC vec` = `set_penalty`, `set_tolerance`, `set_weights`, `set_offset`, `set_coef`. -/
inductive C06H where
  | fit (mode : Nat) (alpha tol : Float) (mi : Nat) (x y : List Float) (w off : Option (List Float))
  | read
  | setP (a : Float) | setT (t : Float) | setW (w : List Float) | setO (o : List Float) | setC (c : List Float)

def c06H : P C06H := do
  let k ← tok
  match k with
  | "F" => do
    let mode ← pNat; let alpha ← pFloat; let tol ← pFloat; let mi ← pNat
    let (x, y, w, off) ← c06Problem
    pure (.fit mode alpha tol mi x y w off)
  | "R" => pure .read
  | "SP" => do let a ← pFloat; pure (.setP a)
  | "ST" => do let a ← pFloat; pure (.setT a)
  | "SW" => do let v ← pVec; pure (.setW v)
  | "SO" => do let v ← pVec; pure (.setO v)
  | "SC" => do let v ← pVec; pure (.setC v)
  | _ => failure

/-- run a history on the object model; collects the reports of the `R` steps (`none` = a step panicked) -/
def c06RunH : List C06H → Obj Float → List Float → List Float → Option (List String)
  | [], _, _, _ => some []
  | .fit mode alpha tol mi x y w off :: rest, o, _, _ =>
    let o1 := if mode = 0 then o else (o.setPenalty alpha).setTolerance tol
    let o2 := match w with | some w => o1.setWeights w | none => o1
    let o3 := match off with | some v => o2.setOffset v | none => o2
    match o3.fit Cv.solve x y mi with
    | none => none
    | some o4 => c06RunH rest o4 x y
  | .read :: rest, o, x, y =>
    match o.view with
    | none => none      -- never fitted: `deviance().unwrap()` panics
    | some r =>
      match c06RunH rest o x y with
      | none => none
      | some reps => some (c06ReportBody r x y :: reps)
  | .setP a :: rest, o, x, y => c06RunH rest (o.setPenalty a) x y
  | .setT a :: rest, o, x, y => c06RunH rest (o.setTolerance a) x y
  | .setW v :: rest, o, x, y => c06RunH rest (o.setWeights v) x y
  | .setO v :: rest, o, x, y => c06RunH rest (o.setOffset v) x y
  | .setC v :: rest, o, x, y => c06RunH rest (o.setCoef v) x y

def c06Step (args : List String) : String :=
  match args with
  | "glm" :: famS :: rest =>
    match c06Family famS with
    | none => badOp
    | some fam =>
      withArgs (do
        let pr ← c06Problem
        let alpha ← pFloat; let tol ← pFloat; let mi ← pNat
        pure (pr, alpha, tol, mi)) rest fun ((x, y, w, off), alpha, tol, mi) =>
        match fit (α := Float) Cv.solve fam x y w off alpha tol mi with
        | none => panicked
        | some r => c06Report r x y
  -- the same `GLM` object fitted twice: weights / offsets set for the first fit stay unless set again
  | "glm2" :: famS :: rest =>
    match c06Family famS with
    | none => badOp
    | some fam =>
      withArgs (do
        let alpha ← pFloat; let tol ← pFloat; let mi ← pNat
        let p1 ← c06Problem; let p2 ← c06Problem
        pure (alpha, tol, mi, p1, p2)) rest fun (alpha, tol, mi, (x1, y1, w1, o1), (x2, y2, w2, o2)) =>
        match fit (α := Float) Cv.solve fam x1 y1 w1 o1 alpha tol mi with
        | none => panicked
        | some _ =>
          match fit (α := Float) Cv.solve fam x2 y2 (w2 <|> w1) (o2 <|> o1) alpha tol mi with
          | none => panicked
          | some r => c06Report r x2 y2
  -- `fit(problem 1) -> set_coef(c) -> report` (mode 0), `set_coef(c)` on a fresh object `-> coef, deviance, predict` (mode 1),
  -- `fit(problem 1) -> set_coef(c) -> fit(problem 2) -> report` (mode 2), `set_coef(c) -> fit(problem 1) -> report` (mode 3)
  | "setcoef" :: famS :: rest =>
    match c06Family famS with
    | none => badOp
    | some fam =>
      withArgs (do
        let mode ← pNat
        let alpha ← pFloat; let tol ← pFloat; let mi ← pNat
        let c ← pVec
        let p1 ← c06Problem
        let p2 ← if mode = 2 then (do let q ← c06Problem; pure (some q)) else pure none
        pure (mode, alpha, tol, mi, c, p1, p2)) rest fun (mode, alpha, tol, mi, c, (x1, y1, w1, o1), p2) =>
        match mode with
        | 0 =>
          match fit (α := Float) Cv.solve fam x1 y1 w1 o1 alpha tol mi with
          | none => panicked
          | some r => c06Report (setCoef r c) x1 y1
        | 1 => ok s!"{showVec c} P P"     -- never fitted: `deviance()` is Err, `predict` unwraps `p = None`
        | 2 =>
          match p2 with
          | none => badOp
          | some (x2, y2, w2, o2) =>
            match fit (α := Float) Cv.solve fam x1 y1 w1 o1 alpha tol mi with
            | none => panicked
            | some _ =>
              match fit (α := Float) Cv.solve fam x2 y2 (w2 <|> w1) (o2 <|> o1) alpha tol mi with
              | none => panicked
              | some r => c06Report r x2 y2
        | 3 =>
          match fit (α := Float) Cv.solve fam x1 y1 w1 o1 alpha tol mi with
          | none => panicked
          | some r => c06Report r x1 y1
        | _ => badOp
  -- object history: k fits on one object, a report after every fit, joined by ` ; `
  | "hist" :: famS :: rest =>
    match c06Family famS with
    | none => badOp
    | some fam =>
      withArgs (do let k ← pNat; pMany c06HistStep k) rest fun steps =>
        match c06RunHist fam steps none none with
        | none => panicked
        | some reps => ok (" ; ".intercalate reps)
  -- object history with reads between the fits: `hist2 <family> k <step>*k`, reply = the reports of the `R` steps
  | "hist2" :: famS :: rest =>
    match c06Family famS with
    | none => badOp
    | some fam =>
      withArgs (do let k ← pNat; pMany c06H k) rest fun steps =>
        match c06RunH steps (Obj.new fam c06Tol0) [] [] with
        | none => panicked
        | some reps => ok (" ; ".intercalate reps)
  -- the methods of `ExponentialFamily`, called directly
  | "fam" :: famS :: meth :: rest =>
    match c06Family famS with
    | none => badOp
    | some fam =>
      match meth with
      | "has_dispersion" => withArgs (pure ()) rest fun _ => ok (showBool fam.hasDispersion)
      | "variance" => withArgs pVec rest fun mu => ok (showVec (variance fam mu))
      | "inv_link" => withArgs pVec rest fun eta => ok (showVec (invLink fam eta))
      | "d_inv_link" => withArgs (do let e ← pVec; let m ← pVec; pure (e, m)) rest fun (e, m) =>
          ok (showVec (dInvLink fam e m))
      | "deviance" => withArgs (do let y ← pVec; let m ← pVec; pure (y, m)) rest fun (y, m) =>
          match deviance fam y m with | some d => ok (showFloat d) | none => panicked
      | "penalized_deviance" =>
          withArgs (do let y ← pVec; let m ← pVec; let a ← pFloat; let c ← pVec; pure (y, m, a, c)) rest
            fun (y, m, a, c) =>
              match penalizedDeviance fam y m a c with | some d => ok (showFloat d) | none => panicked
      | "iwr" => withArgs pVec rest fun y =>
          match initialWorkingResponse fam y with | some v => ok (showVec v) | none => ok "none"
      | "iww" => withArgs pVec rest fun y =>
          match initialWorkingWeights fam y with | some v => ok (showVec v) | none => ok "none"
      | _ => badOp
  | _ => badOp

def main (args : List String) : IO UInt32 := mainWith () (fun _ t => ((), c06Step t)) args
