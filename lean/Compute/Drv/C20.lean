import Compute.Drv.Common
import Compute.Model.Scalar
import Compute.Model.GpKernels
/-
Driver for C20.  Requests (floats as hex bit patterns):
  rbf_p form var ls n x1 y1 … xn yn              -> = k1 … kn      (scalar forward on each pair)
  rq_p  form var alpha ls n x1 y1 … xn yn        -> = k1 … kn
  rbf_m kind var ls rx cx <rx*cx> ry cy <ry*cy>  -> = nrows ncols <data> <scalar forward at (x_i, y_j), row-major>
  rq_m  kind var alpha ls rx cx <..> ry cy <..>  -> = nrows ncols <data> <scalar forward at (x_i, y_j), row-major>
form ∈ {0: f64, 1: &f64}; kind ∈ {0: Vector, 1: &Vector, 2: Matrix, 3: &Matrix} (a Vector has rx = 1).
Invalid kernel parameters -> `! panic`.
-/
open Cv Cv.Gp

def c20Pairs : P (List (Float × Float)) := do
  let n ← pNat
  pMany (do let x ← pFloat; let y ← pFloat; pure (x, y)) n

def c20Pts (kind : Nat) : P (Pts Float) := do
  let r ← pNat; let c ← pNat
  let d ← pMany pFloat (r * c)
  if kind < 2 then (if r = 1 then pure (Pts.vec d) else failure) else pure (Pts.mat ⟨d, r, c⟩)

def c20Mat (r : Option (Mat Float)) (f : Float → Float → Float) (x y : Pts Float) : String :=
  match r with
  | none => panicked
  | some m =>
    let sc := x.points.flatMap fun a => y.points.map fun b => f a b
    ok (" ".intercalate ([toString m.nrows, toString m.ncols] ++ (m.data ++ sc).map showFloat))

def c20Step (args : List String) : String :=
  match args with
  | "rbf_p" :: rest =>
    withArgs (do let _ ← pNat; let v ← pFloat; let l ← pFloat; let ps ← c20Pairs; pure (v, l, ps)) rest
      fun (v, l, ps) =>
        match RBF.new v l with
        | none => panicked
        | some k => ok (showFloats (ps.map fun (x, y) => k.fwd x y))
  | "rq_p" :: rest =>
    withArgs (do let _ ← pNat; let v ← pFloat; let a ← pFloat; let l ← pFloat; let ps ← c20Pairs
                 pure (v, a, l, ps)) rest
      fun (v, a, l, ps) =>
        match RQ.new v a l with
        | none => panicked
        | some k => ok (showFloats (ps.map fun (x, y) => k.fwd x y))
  | "rbf_m" :: rest =>
    withArgs (do
      let kind ← pNat; let v ← pFloat; let l ← pFloat
      let x ← c20Pts kind; let y ← c20Pts kind; pure (v, l, x, y)) rest
      fun (v, l, x, y) =>
        match RBF.new v l with
        | none => panicked
        | some k => c20Mat (k.fwdM x y) k.fwd x y
  | "rq_m" :: rest =>
    withArgs (do
      let kind ← pNat; let v ← pFloat; let a ← pFloat; let l ← pFloat
      let x ← c20Pts kind; let y ← c20Pts kind; pure (v, a, l, x, y)) rest
      fun (v, a, l, x, y) =>
        match RQ.new v a l with
        | none => panicked
        | some k => c20Mat (k.fwdM x y) k.fwd x y
  | _ => badOp

def main (args : List String) : IO UInt32 := mainWith () (fun _ t => ((), c20Step t)) args
