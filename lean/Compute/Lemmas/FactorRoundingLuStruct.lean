import Compute.Lemmas.LuCorrect
/-
Scalar-generic structural specifications of the phases of the LU factorisation model
(`Cv.LA.luDot`, `luColumn`, `swapRows`, `luScale`, `luStep`, `lu` of Model/Decomp.lean).

`Lemmas/LuCorrect.lean` proves these entry-level specifications for `[Field α]`.  Here nothing but
the operation type classes is assumed (no algebraic law is used), so the statements apply to a scalar
type that is not a field, e.g. rounded floating-point arithmetic; `luDot` stays the opaque model term.
-/
set_option linter.unusedSectionVars false
set_option linter.unusedVariables false
namespace Cv.LA.LuS
open Cv.LA Cv.LA.Lu

section
variable {α : Type} [Zero α] [Add α] [Sub α] [Mul α] [Div α]

/-- two folds over `List.range m` whose step functions agree below `m` agree -/
theorem foldl_range_congr {σ : Type} (f g : σ → Nat → σ) (s0 : σ) (m : Nat)
    (h : ∀ s k, k < m → f s k = g s k) :
    (List.range m).foldl f s0 = (List.range m).foldl g s0 := by
  induction m with
  | zero => rfl
  | succ m ih =>
    rw [List.range_succ, List.foldl_append, List.foldl_append,
      ih (fun s k hk => h s k (by omega))]
    exact h _ m (by omega)

/-- luDot as a fold over the entry function -/
theorem luDot_def (n : Nat) (w : List α) (i j : Nat) :
    luDot n w i j = (List.range (min i j)).foldl (fun s k => s + ent n w i k * ent n w k j) 0 := rfl

/-- luDot only reads row i left of min i j and column j above min i j -/
theorem luDot_congr (n : Nat) (w w' : List α) (i j : Nat)
    (h1 : ∀ k, k < min i j → ent n w' i k = ent n w i k)
    (h2 : ∀ k, k < min i j → ent n w' k j = ent n w k j) :
    luDot n w' i j = luDot n w i j := by
  rw [luDot_def, luDot_def]
  apply foldl_range_congr
  intro s k hk
  rw [h1 k hk, h2 k hk]

/-- `luColumn`: only column `j` changes; its new entries satisfy the left-looking recurrence, stated
through the model's own inner product `luDot` evaluated on the final array. -/
theorem luColumn_spec' (n j : Nat) (w : List α) (hw : w.length = n * n) (hj : j < n) :
    (luColumn n j w).length = n * n ∧
    (∀ i c, i < n → c < n → c ≠ j → ent n (luColumn n j w) i c = ent n w i c) ∧
    (∀ i, i < n → ent n (luColumn n j w) i j = ent n w i j - luDot n (luColumn n j w) i j) := by
  have key := foldl_range_ind
    (fun m (s : List α) => s.length = n * n ∧
      (∀ i c, i < n → c < n → (c ≠ j ∨ m ≤ i) → ent n s i c = ent n w i c) ∧
      (∀ i, i < m → ent n s i j = ent n w i j - luDot n s i j))
    (fun lu i => lu.set (i * n + j) (rd lu (i * n + j) - luDot n lu i j)) w n
    ⟨hw, fun _ _ _ _ _ => rfl, fun i hi => by omega⟩
    (by
      intro m s hm ⟨hl, hun, hcol⟩
      refine ⟨by simpa using hl, ?_, ?_⟩
      · intro i c hi hc hor
        rw [ent_set n s m j i c _ hl hm hj hc, if_neg (by omega)]
        exact hun i c hi hc (by omega)
      · intro i hi
        -- writing cell `(m,j)` does not disturb `luDot _ i' j` for `i' ≤ m`
        have hdot : ∀ i', i' ≤ m →
            luDot n (s.set (m * n + j) (rd s (m * n + j) - luDot n s m j)) i' j = luDot n s i' j := by
          intro i' hi'
          apply luDot_congr
          · intro k hk
            rw [ent_set n s m j i' k _ hl hm hj (by omega), if_neg (by omega)]
          · intro k hk
            rw [ent_set n s m j k j _ hl hm hj hj, if_neg (by omega)]
        rw [ent_set n s m j i j _ hl hm hj hj]
        by_cases him : i = m
        · subst him
          rw [if_pos ⟨rfl, rfl⟩, hdot i (Nat.le_refl i), ← ent_def,
            hun i j hm hj (Or.inr (Nat.le_refl i))]
        · rw [if_neg (by omega), hdot i (by omega)]
          exact hcol i (by omega))
  obtain ⟨h1, h2, h3⟩ := key
  exact ⟨h1, fun i c hi hc hcj => h2 i c hi hc (Or.inl hcj), fun i hi => h3 i hi⟩

/-- `swapRows`: rows `p` and `j` are exchanged. -/
theorem swapRows_spec' (n p j : Nat) (w : List α) (hw : w.length = n * n) (hp : p < n) (hj : j < n) :
    (swapRows n p j w).length = n * n ∧
    ∀ i c, i < n → c < n → ent n (swapRows n p j w) i c = ent n w (sw p j i) c := by
  unfold swapRows
  have key := foldl_range_ind
    (fun m (s : List α) => s.length = n * n ∧
      ∀ i c, i < n → c < n → ent n s i c = if c < m then ent n w (sw p j i) c else ent n w i c)
    (fun lu k => swapIdx lu (p * n + k) (j * n + k)) w n
    ⟨hw, fun _ _ _ _ => by simp⟩
    (by
      intro m s hm ⟨hl, hs⟩
      refine ⟨by rw [length_swapIdx]; exact hl, ?_⟩
      intro i c hi hc
      unfold ent
      rw [rd_swapIdx _ _ _ _ (by rw [hl]; exact idx_lt_sq hp hm) (by rw [hl]; exact idx_lt_sq hj hm)]
      simp only [idx_inj hc hm, ← ent_def]
      by_cases h1 : i = j ∧ c = m
      · obtain ⟨rfl, rfl⟩ := h1
        rw [if_pos ⟨rfl, rfl⟩, hs p c hp hc, if_neg (by omega), if_pos (by omega)]
        simp [sw]
      · rw [if_neg h1]
        by_cases h2 : i = p ∧ c = m
        · obtain ⟨rfl, rfl⟩ := h2
          rw [if_pos ⟨rfl, rfl⟩, hs j c hj hc, if_neg (by omega), if_pos (by omega)]
          have : sw i j i = j := by
            unfold sw; split
            · rename_i h; exact h
            · simp
          rw [this]
        · rw [if_neg h2, hs i c hi hc]
          by_cases hcm : c < m
          · rw [if_pos hcm, if_pos (by omega)]
          · rw [if_neg hcm]
            by_cases hcm' : c = m
            · subst hcm'
              have hij : i ≠ j := fun e => h1 ⟨e, rfl⟩
              have hip : i ≠ p := fun e => h2 ⟨e, rfl⟩
              rw [if_pos (by omega)]
              simp [sw, hij, hip]
            · rw [if_neg (by omega)])
  obtain ⟨h1, h2⟩ := key
  refine ⟨h1, fun i c hi hc => ?_⟩
  rw [h2 i c hi hc, if_pos hc]

open Classical in
/-- `luScale`: the sub-diagonal part of column `j` is divided by the pivot, unless the pivot is `0`. -/
theorem luScale_spec' [BEq α] [LawfulBEq α] (n j : Nat) (w : List α) (hw : w.length = n * n) (hj : j < n) :
    (luScale n j w).length = n * n ∧
    ∀ i c, i < n → c < n → ent n (luScale n j w) i c =
      if c = j ∧ j < i ∧ ent n w j j ≠ 0 then ent n w i j / ent n w j j else ent n w i c := by
  unfold luScale
  by_cases hpz : ent n w j j = 0
  · have : (decide (j < n) && (rd w (j * n + j) != 0)) = false := by
      rw [← ent_def, hpz]; simp
    rw [this]
    simp only [Bool.false_eq_true, if_false]
    refine ⟨hw, fun i c hi hc => ?_⟩
    rw [if_neg (fun h => h.2.2 hpz)]
  · have : (decide (j < n) && (rd w (j * n + j) != 0)) = true := by
      rw [← ent_def]; simp [hj, hpz]
    rw [this]
    simp only [if_true]
    have key := foldl_range'_ind
      (fun m (s : List α) => s.length = n * n ∧
        ∀ i c, i < n → c < n → ent n s i c =
          if c = j ∧ j < i ∧ i < j + 1 + m then ent n w i j / ent n w j j else ent n w i c)
      (fun lu i => lu.set (i * n + j) (rd lu (i * n + j) / rd lu (j * n + j))) w (j + 1) (n - (j + 1))
      ⟨hw, fun i c _ _ => by rw [if_neg (by omega)]⟩
      (by
        intro m s hm ⟨hl, hs⟩
        refine ⟨by simpa using hl, ?_⟩
        intro i c hi hc
        have hv : rd s ((j + 1 + m) * n + j) / rd s (j * n + j) = ent n w (j + 1 + m) j / ent n w j j := by
          rw [← ent_def, ← ent_def, hs (j + 1 + m) j (by omega) hj, hs j j hj hj,
            if_neg (by omega), if_neg (by omega)]
        rw [ent_set n s (j + 1 + m) j i c _ hl (by omega) hj hc, hv]
        by_cases h1 : i = j + 1 + m ∧ c = j
        · obtain ⟨rfl, rfl⟩ := h1
          rw [if_pos ⟨rfl, rfl⟩, if_pos ⟨rfl, by omega, by omega⟩]
        · rw [if_neg h1, hs i c hi hc]
          by_cases h2 : c = j ∧ j < i ∧ i < j + 1 + m
          · rw [if_pos h2, if_pos ⟨h2.1, h2.2.1, by omega⟩]
          · rw [if_neg h2, if_neg]
            rintro ⟨h3, h4, h5⟩
            have : i ≠ j + 1 + m := fun e => h1 ⟨e, h3⟩
            exact h2 ⟨h3, h4, by omega⟩)
    obtain ⟨h1, h2⟩ := key
    refine ⟨h1, fun i c hi hc => ?_⟩
    rw [h2 i c hi hc]
    by_cases h3 : c = j ∧ j < i
    · rw [if_pos ⟨h3.1, h3.2, by omega⟩, if_pos ⟨h3.1, h3.2, hpz⟩]
    · rw [if_neg (fun h => h3 ⟨h.1, h.2.1⟩), if_neg (fun h => h3 ⟨h.1, h.2.1⟩)]

end

section
variable {α : Type} [Zero α] [Add α] [Sub α] [Mul α] [Div α] [BEq α] [LawfulBEq α] [LT α]
  [DecidableLT α] [Transc α]

open Classical in
/-- entries of the working array and the pivot vector after `luStep`, in terms of the updated column
`w1 = luColumn n j w` and the pivot row `p`. -/
theorem luStep_spec' (n j : Nat) (w : List α) (piv : List Nat) (hw : w.length = n * n)
    (hpl : piv.length = n) (hj : j < n) (w1 : List α) (p : Nat) (hw1 : w1 = luColumn n j w)
    (hp : p = luPivot n j w1) :
    (luStep n (w, piv) j).1.length = n * n ∧ (luStep n (w, piv) j).2.length = n ∧
    (∀ i, (luStep n (w, piv) j).2.getD i 0 = piv.getD (sw p j i) 0) ∧
    (∀ i c, i < n → c < n → ent n (luStep n (w, piv) j).1 i c =
      if c = j ∧ j < i ∧ ent n w1 p j ≠ 0 then ent n w1 (sw p j i) j / ent n w1 p j
      else ent n w1 (sw p j i) c) := by
  obtain ⟨hl1, -, -⟩ := luColumn_spec' n j w hw hj
  rw [← hw1] at hl1
  obtain ⟨hpj, hpn⟩ := luPivot_range n j w1 hj
  rw [← hp] at hpj hpn
  have hstep : ∃ w2 : List α, (luStep n (w, piv) j).1 = luScale n j w2 ∧ w2.length = n * n ∧
      (∀ i c, i < n → c < n → ent n w2 i c = ent n w1 (sw p j i) c) ∧
      (luStep n (w, piv) j).2.length = n ∧
      ∀ i, (luStep n (w, piv) j).2.getD i 0 = piv.getD (sw p j i) 0 := by
    by_cases hpe : p = j
    · refine ⟨w1, ?_, hl1, ?_, ?_, ?_⟩
      · simp only [luStep, ← hw1, ← hp, hpe, bne_self_eq_false, Bool.false_eq_true, if_false]
      · intro i c _ _; rw [hpe, sw_self]
      · simp only [luStep, ← hw1, ← hp, hpe, bne_self_eq_false, Bool.false_eq_true, if_false]
        exact hpl
      · intro i
        simp only [luStep, ← hw1, ← hp, hpe, bne_self_eq_false, Bool.false_eq_true, if_false, sw_self]
    · have hb : (p != j) = true := by simpa using hpe
      obtain ⟨hl2, he2⟩ := swapRows_spec' n p j w1 hl1 hpn hj
      refine ⟨swapRows n p j w1, ?_, hl2, he2, ?_, ?_⟩
      · simp only [luStep, ← hw1, ← hp, hb, if_true]
      · simp only [luStep, ← hw1, ← hp, hb, if_true, length_swapIdx]
        exact hpl
      · intro i
        simp only [luStep, ← hw1, ← hp, hb, if_true]
        exact getD_swapIdx_nat piv p j i (by omega) (by omega)
  obtain ⟨w2, hs1, hl2, he2, hpl2, hpiv2⟩ := hstep
  obtain ⟨hl3, he3⟩ := luScale_spec' n j w2 hl2 hj
  rw [hs1]
  refine ⟨hl3, hpl2, hpiv2, ?_⟩
  intro i c hi hc
  have hjj : ent n w2 j j = ent n w1 p j := by
    rw [he2 j j hj hj]; simp [sw]
  rw [he3 i c hi hc, hjj, he2 i j hi hj, he2 i c hi hc]

omit [LawfulBEq α] in
/-- `lu` is the fold of `luStep` (`lu` itself needs only the instances of this section: no `One`,
`NatCast`, `LE`) -/
theorem lu_eq_foldl (a f : List α) (piv : List Nat) (h : lu a = some (f, piv)) :
    ∃ n, n * n = a.length ∧ (List.range n).foldl (luStep n) (a, List.range n) = (f, piv) := by
  unfold lu at h
  cases hs : isSquare a.length with
  | none => simp [hs] at h
  | some n =>
    simp only [hs, Option.bind_eq_bind, Option.bind_some, Option.pure_def, Option.some.injEq] at h
    exact ⟨n, isSquare_some hs, h⟩

end

end Cv.LA.LuS
