import Compute.Model.Integrate
import Compute.Generated.SrcC07Loops
import Compute.Lemmas.SrcLoops
/-
Source tie for C07, iterator chains (`src/integrate/functions.rs`): `trapz` as a WHOLE function.

`Compute/Props/SrcTieC07.lean` ties the straight-line fragments of `trapz` (step, node closure) and leaves the
pipeline `(1..n).map(..).sum::<f64>()` and the end-point term to the bit-exact tie.  With the loop subset of the
translator the complete body is regenerated (`Compute/Generated/SrcC07Loops.lean`): the range `1..n`, the map, the
iterator sum from `-0.0`, the end-point term `(f(b) + f(a)) / 2.`, the final product — and it IS the hand model
(`rfl`, for every scalar type and integrand).
`romberg` (matrix tableau, early exit) and `trapezoid` as a whole (`Option` arguments, `if let`, `Vector::ones(..) * dx`)
are outside the subset.  Of `trapezoid` (`src/integrate/samples.rs`) the two per-index closures are regenerated as scalar
fragments — `|i| xarr[i] - xarr[i - 1]` and `|i| (y[i] + y[i - 1]) / 2. * diff_x[i - 1]` — and the model's structural
recursions `pairDiffs` / `pairMeans` and its `some x` branch are proved to be the successive-pairs maps of exactly these
fragments (operand order of the source: later sample first); which samples meet which spacing (the index maps over
`1..n`) stays with the bit-exact tie.
-/
set_option linter.unusedSectionVars false
namespace Cv.SrcTie.C07Loops

variable {α : Type} [Add α] [Sub α] [Mul α] [Div α] [Neg α] [Zero α] [One α] [NatCast α] [IntCast α]
  [LT α] [DecidableLT α] [LE α] [DecidableLE α] [BEq α] [Cv.Transc α] [Inhabited α]

/-- `trapz`: `let dx = (b - a) / (n as f64); dx * ((1..n).map(|k| f(a + k as f64 * dx)).sum::<f64>() + (f(b) + f(a)) / 2.)`. -/
theorem trapz_eq (f : α → α) (a b : α) (n : Nat) : Cv.Src.C07Loops.trapz f a b n = Cv.trapz f a b n := rfl

/-! ### `trapezoid` (samples.rs): the per-index closures -/

/-- The spacings `diff_x = (1..n).map(|i| xarr[i] - xarr[i - 1])` of the model are the regenerated closure on
successive pairs (`b` = `xarr[i]`, `a` = `xarr[i - 1]`). -/
theorem pairDiffs_eq (xs : List α) :
    Cv.pairDiffs xs = List.zipWith (fun a b => Cv.Src.C07Loops.trapezoidDiff b a) xs xs.tail :=
  Cv.SrcLoops.pairRec_eq_zipWith_tail Cv.pairDiffs (fun a b => Cv.Src.C07Loops.trapezoidDiff b a)
    rfl (fun _ => rfl) (fun _ _ _ => rfl) xs

/-- The summands of the model, `pairMeans y` times the spacings, are the regenerated closure
`|i| (y[i] + y[i - 1]) / 2. * diff_x[i - 1]` on successive pairs of `y` (`w.2` = `y[i]`, `w.1` = `y[i - 1]`). -/
theorem trapezoid_terms_eq (y ds : List α) :
    List.zipWith (· * ·) (Cv.pairMeans y) ds =
      List.zipWith (fun (w : α × α) d => Cv.Src.C07Loops.trapezoidTerm w.2 w.1 d) (List.zip y y.tail) ds := by
  rw [Cv.SrcLoops.pairRec_eq_map_zip_tail Cv.pairMeans (fun a b => (b + a) / Cv.two)
    rfl (fun _ => rfl) (fun _ _ _ => rfl) y, List.zipWith_map_left]
  rfl

/-- The `Some(x)` branch of the model in terms of the two regenerated closures. -/
theorem trapezoid_some_eq (y xs : List α) :
    Cv.trapezoid y (some xs) none =
      (if y.length ≠ xs.length then none else
        some (Cv.iterSum (List.zipWith (fun (w : α × α) d => Cv.Src.C07Loops.trapezoidTerm w.2 w.1 d)
          (List.zip y y.tail) (List.zipWith (fun a b => Cv.Src.C07Loops.trapezoidDiff b a) xs xs.tail)))) := by
  rw [← pairDiffs_eq, ← trapezoid_terms_eq]
  rfl

end Cv.SrcTie.C07Loops
