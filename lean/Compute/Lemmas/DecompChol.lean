import Compute.Lemmas.Decomp
import Mathlib.Algebra.Order.Field.Basic
/-
Shape of the Cholesky factor (`try_cholesky` of decomposition/cholesky.rs) over an ordered field with an
abstract `sqrt` that maps positives to positives: lower triangular, positive diagonal, and the sweep
fails exactly at a non-positive pivot.
-/
set_option linter.unusedSectionVars false
namespace Cv.LA

theorem divmod_idx' {i j r : Nat} (hi : i < r) : (j * r + i) % r = i ∧ (j * r + i) / r = j := by
  have hr : 0 < r := by omega
  constructor
  · rw [Nat.add_comm, Nat.add_mul_mod_self_right, Nat.mod_eq_of_lt hi]
  · rw [Nat.add_comm, Nat.add_mul_div_right _ _ hr, Nat.div_eq_of_lt hi]; simp

theorem idx_lt' {i j r c : Nat} (hi : i < r) (hj : j < c) : j * r + i < r * c := by
  have : (j + 1) * r ≤ c * r := Nat.mul_le_mul_right r hj
  rw [Nat.add_mul, Nat.mul_comm c r] at this
  omega

section
variable {α : Type} [Zero α]

theorem rd_set (l : List α) (i j : Nat) (v : α) (hi : i < l.length) :
    rd (l.set i v) j = if i = j then v else rd l j := by
  simp only [rd, List.getD_eq_getElem?_getD, List.getElem?_set]
  by_cases h : i = j
  · subst h; simp [hi]
  · simp [h]

theorem idx_inj {n r c i j : Nat} (hc : c < n) (hj : j < n) (h : r * n + c = i * n + j) : r = i ∧ c = j := by
  have h1 := divmod_idx' (j := r) hc
  have h2 := divmod_idx' (j := i) hj
  rw [h] at h1
  exact ⟨h1.2.symm.trans h2.2 |>.symm ▸ rfl, h1.1.symm.trans h2.1 |>.symm ▸ rfl⟩
end

section
variable {F : Type} [Field F] [LinearOrder F] [IsStrictOrderedRing F] [Transc F] [BEq F] [ReflBEq F]

/-- shape invariant of the Cholesky sweep -/
def CholInv (n k : Nat) (l : List F) : Prop :=
  l.length = n * n ∧ (∀ r c, r < n → c < n → r < c → rd l (r * n + c) = 0) ∧ ∀ r, r < k → 0 < rd l (r * n + r)

theorem cholCell_inv (hsqrt : ∀ x : F, 0 < x → 0 < Transc.sqrt x) (n : Nat) (a l l' : List F) (k i j : Nat)
    (hk : k ≤ i) (hi : i < n) (hj : j ≤ i) (hinv : CholInv n k l) (h : cholCell n a l i j = some l') :
    CholInv n k l' ∧ (j = i → 0 < rd l' (i * n + i)) := by
  obtain ⟨hlen, hup, hdiag⟩ := hinv
  have hjn : j < n := by omega
  have hidx : i * n + j < l.length := by rw [hlen, Nat.mul_comm n n]; exact idx_lt' hjn hi
  -- whatever is written, it lands at (i,j)
  have hshape : ∀ v, CholInv n k (l.set (i * n + j) v) := by
    intro v
    refine ⟨by simp [hlen], ?_, ?_⟩
    · intro r c hr hc hrc
      rw [rd_set _ _ _ _ hidx]
      split
      · rename_i he
        obtain ⟨h1, h2⟩ := idx_inj hjn hc he
        omega
      · exact hup r c hr hc hrc
    · intro r hr
      rw [rd_set _ _ _ _ hidx]
      split
      · rename_i he
        obtain ⟨h1, h2⟩ := idx_inj hjn (by omega : r < n) he
        omega
      · exact hdiag r hr
  unfold cholCell at h
  by_cases hij : i = j
  · subst hij
    simp only [if_true] at h
    split at h
    · cases h
    · rename_i hp
      cases h
      refine ⟨hshape _, fun _ => ?_⟩
      rw [rd_set _ _ _ _ hidx, if_pos rfl]
      apply hsqrt
      have := not_or.mp hp
      exact not_le.mp this.1
  · simp only [hij, if_false, Option.some.injEq] at h
    subst h
    exact ⟨hshape _, fun h => absurd h.symm hij⟩

theorem cholCells_inv (hsqrt : ∀ x : F, 0 < x → 0 < Transc.sqrt x) (n : Nat) (a : List F) (k i : Nat)
    (hk : k ≤ i) (hi : i < n) (js : List Nat) (hjs : ∀ j ∈ js, j < i) (l l' : List F) (hinv : CholInv n k l)
    (h : js.foldlM (fun l j => cholCell n a l i j) l = some l') : CholInv n k l' := by
  induction js generalizing l with
  | nil => simp at h; subst h; exact hinv
  | cons j js ih =>
    rw [List.foldlM_cons] at h
    cases hc : cholCell n a l i j with
    | none => simp [hc] at h
    | some l1 =>
      simp only [hc, Option.bind_eq_bind, Option.bind_some] at h
      have hj := hjs j (List.mem_cons_self)
      exact ih (fun j' hj' => hjs j' (List.mem_cons_of_mem _ hj')) l1
        (cholCell_inv hsqrt n a l l1 k i j hk hi (by omega) hinv hc).1 h

theorem cholRow_inv (hsqrt : ∀ x : F, 0 < x → 0 < Transc.sqrt x) (n : Nat) (a l l' : List F) (i : Nat)
    (hi : i < n) (hinv : CholInv n i l) (h : cholRow n a l i = some l') : CholInv n (i + 1) l' := by
  unfold cholRow at h
  rw [List.range_succ, List.foldlM_append] at h
  cases h1 : (List.range i).foldlM (fun l j => cholCell n a l i j) l with
  | none => simp [h1] at h
  | some l1 =>
    simp only [h1, Option.bind_eq_bind, Option.bind_some, List.foldlM_cons, List.foldlM_nil] at h
    have inv1 := cholCells_inv hsqrt n a i i (Nat.le_refl i) hi (List.range i) (fun j hj => List.mem_range.mp hj) l l1 hinv h1
    cases hc : cholCell n a l1 i i with
    | none => simp [hc] at h
    | some l2 =>
      simp only [hc, Option.bind_some, Option.pure_def, Option.some.injEq] at h
      subst h
      obtain ⟨⟨hlen, hup, hdiag⟩, hpos⟩ := cholCell_inv hsqrt n a l1 l2 i i i (Nat.le_refl i) hi (Nat.le_refl i) inv1 hc
      refine ⟨hlen, hup, fun r hr => ?_⟩
      by_cases hri : r = i
      · subst hri; exact hpos rfl
      · exact hdiag r (by omega)

theorem cholRows_inv (hsqrt : ∀ x : F, 0 < x → 0 < Transc.sqrt x) (n : Nat) (a : List F) (k : Nat) (hk : k ≤ n)
    (l0 l' : List F) (hinv : CholInv n 0 l0)
    (h : (List.range k).foldlM (fun l i => cholRow n a l i) l0 = some l') : CholInv n k l' := by
  induction k generalizing l' with
  | zero => simp at h; subst h; exact hinv
  | succ k ih =>
    rw [List.range_succ, List.foldlM_append] at h
    cases h1 : (List.range k).foldlM (fun l i => cholRow n a l i) l0 with
    | none => simp [h1] at h
    | some l1 =>
      simp only [h1, Option.bind_eq_bind, Option.bind_some, List.foldlM_cons, List.foldlM_nil] at h
      cases hc : cholRow n a l1 k with
      | none => simp [hc] at h
      | some l2 =>
        simp only [hc, Option.bind_some, Option.pure_def, Option.some.injEq] at h
        subst h
        exact cholRow_inv hsqrt n a l1 l2 k (by omega) (ih (by omega) l1 h1) hc

/-- a cell of the sweep fails exactly on the diagonal, when the pivot `a_ii − Σ_k l_ik²` is not positive -/
theorem cholCell_none_iff (n : Nat) (a l : List F) (i j : Nat) :
    cholCell n a l i j = none ↔
      i = j ∧ rd a (i * n + i) - dot8 ((l.drop (j * n)).take j) ((l.drop (i * n)).take j) ≤ 0 := by
  unfold cholCell
  by_cases hij : i = j
  · subst hij
    simp only [if_true, isNan, beq_self_eq_true, Bool.not_true, Bool.false_eq_true, or_false, true_and]
    split <;> simp_all
  · simp [hij]

/-- **cholesky_shape**: whenever the sweep returns a factor it has `n²` entries, every entry above the
diagonal is the initial zero and every diagonal entry is the square root of a positive pivot. -/
theorem cholLoops_shape (hsqrt : ∀ x : F, 0 < x → 0 < Transc.sqrt x) (n : Nat) (a l : List F)
    (h : cholLoops n a = some l) :
    l.length = n * n ∧ (∀ r c, r < n → c < n → r < c → rd l (r * n + c) = 0) ∧ ∀ r, r < n → 0 < rd l (r * n + r) := by
  have h0 : CholInv n 0 (List.replicate (n * n) (0 : F)) := by
    refine ⟨by simp, ?_, fun r hr => by omega⟩
    intro r c hr hc _
    simp only [rd, List.getD_eq_getElem?_getD, List.getElem?_replicate]
    split <;> rfl
  exact cholRows_inv hsqrt n a n (Nat.le_refl n) _ l h0 h

end
end Cv.LA
