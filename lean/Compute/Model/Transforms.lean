import Compute.Model.Scalar
/-
Model of `src/functions/statistical.rs`: `logistic`, `logit`, `boxcox`, `boxcox_shifted`, `softmax`
(the max-shifted definition of the current source).  Polymorphic in the scalar; core Lean only.
`none` = panic.
-/
namespace Cv

/-- `f64::max` (NaN-ignoring) and `f64::NEG_INFINITY`, the seed of the running maximum of `softmax`. -/
class MaxBot (α : Type) where
  fmax : α → α → α
  negInf : α

instance : MaxBot Float := ⟨Cv.fmax, Float.ofBits 0xFFF0000000000000⟩

section
variable {α : Type} [Add α] [Sub α] [Mul α] [Div α] [Neg α] [Zero α] [One α]
  [LT α] [DecidableLT α] [LE α] [DecidableLE α] [BEq α] [Transc α]

/-- `1. / (1. + (-x).exp())` -/
def logistic (x : α) : α := 1 / (1 + exp (-x))

/-- `if !(0. ..=1.).contains(&p) { panic!() }; (p / (1. - p)).ln()` -/
def logit (p : α) : Option α :=
  if 0 ≤ p ∧ p ≤ 1 then some (ln (p / (1 - p))) else none

/-- the body shared by both Box–Cox transforms once the argument is known to be admissible -/
def boxcoxBody (x lambda : α) : α :=
  if lambda == 0 then ln x else (pow x lambda - 1) / lambda

/-- `assert!(x > 0.)` then the body -/
def boxcox (x lambda : α) : Option α :=
  if x > 0 then some (boxcoxBody x lambda) else none

/-- `assert!(x + alpha > 0.)` then the body at `x + alpha` -/
def boxcoxShifted (x lambda alpha : α) : Option α :=
  if x + alpha > 0 then some (boxcoxBody (x + alpha) lambda) else none

/-- running maximum `x.iter().cloned().fold(NEG_INFINITY, f64::max)` -/
def softmaxMax [MaxBot α] (x : List α) : α := x.foldl MaxBot.fmax MaxBot.negInf

/-- the exponent arguments `xᵢ - xmax` -/
def softmaxArgs [MaxBot α] (x : List α) : List α :=
  let xmax := softmaxMax x
  x.map fun i => i - xmax

/-- `x.iter().map(|i| (i - xmax).exp()).sum()` (left fold from zero) -/
def softmaxSum [MaxBot α] (x : List α) : α :=
  ((softmaxArgs x).map exp).foldl (· + ·) 0

def softmax [MaxBot α] (x : List α) : List α :=
  let sumExp := softmaxSum x
  (softmaxArgs x).map fun a => exp a / sumExp

end
end Cv
