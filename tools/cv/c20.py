"""C20 — covariance kernels are valid positive-definite kernels, scalar and matrix form.

Requests (see exec/src/bin/c20.rs, lean/Compute/Drv/C20.lean):
  rbf_p form var ls n x1 y1 … xn yn              -> = k1 … kn      (scalar forward on each pair)
  rq_p  form var alpha ls n x1 y1 … xn yn        -> = k1 … kn
  rbf_m kind var ls rx cx <rx*cx> ry cy <ry*cy>  -> = nrows ncols <matrix data> <scalar forward at every (x_i, y_j)>
  rq_m  kind var alpha ls rx cx <..> ry cy <..>  -> = nrows ncols <matrix data> <scalar forward at every (x_i, y_j)>
  rbf_g kind var ls r c <r*c> idx val            -> the `rbf_m` reply for the point set mutated IN PLACE at flat index idx
  rq_g  kind var alpha ls r c <r*c> idx val         (x = y), after a first call on the unmutated object (executor only;
                                                     the model is a pure function: model_line = the equivalent *_m line)
form: 0 = f64, 1 = &f64;  kind: 0 = Vector, 1 = &Vector, 2 = Matrix, 3 = &Matrix (a Vector has rx = 1).
All forms/kinds of one kernel are instantiations of one macro body, hence share one model.
"""
import math
import os

from .common import Failure, f2h, h2f, parse_reply

ID = "C20"
BIN = "c20"
PROOF_MODULES = ["Compute.Props.C20", "Compute.Props.C20Psd"]
REQUIRED_THEOREMS = [
    "Cv.C20.rbf_new_iff", "Cv.C20.rbf_new_rejects", "Cv.C20.rq_new_iff", "Cv.C20.rq_new_rejects",
    "Cv.C20.rbf_symm", "Cv.C20.rbf_diag", "Cv.C20.rbf_pos", "Cv.C20.rbf_le_var", "Cv.C20.rbf_antitone",
    "Cv.C20.rq_symm", "Cv.C20.rq_diag", "Cv.C20.rq_pos", "Cv.C20.rq_le_var", "Cv.C20.rq_antitone",
    "Cv.C20.rbf_matrix_form_entry", "Cv.C20.rq_matrix_form_entry",
    "Cv.C20.rbf_matrix_form_eq_scalar", "Cv.C20.rq_matrix_form_eq_scalar",
    "Cv.C20.rbf_gram_symm", "Cv.C20.rq_gram_symm", "Cv.C20.rbf_gram_diag", "Cv.C20.rq_gram_diag",
    "Cv.C20.rbf_kernel_psd", "Cv.C20.rq_kernel_psd_model", "Cv.C20.rbf_gram_psd", "Cv.C20.rq_gram_psd",
    "Cv.C20.rbf_gram_posSemidef", "Cv.C20.rq_gram_posSemidef",
]
RULE = ("RBF and RQ kernels, var / length scale / alpha log-uniform in (1e-2, 1e2) mixed with exact special values "
        "(alpha in {1/2, 1/3, 1/4, 1, 3/2, 2, 3, 0.1, 10}, var and length scale in {0.5, 1, 2, 0.01, 100}: ~30 % of the "
        "lines, and every special alpha once per form per run) plus invalid parameters (panic class); scalar form on batches of pairs in +-1e3 (each batch holds (x,y), (y,x), (x,x) triples and a ladder "
        "of distances from 1 ulp to 40 length scales); matrix form on point sets of 1..60 points (every size, "
        "chunk-of-8 boundaries emphasised) passed as Vector, &Vector, Matrix, &Matrix (all factorisations r x c of "
        "the point count), Gram (x = y) and cross (x != y) calls, clusters at offsets 0..1e3 with spreads 0.01..30 "
        "length scales; CALL-SEQUENCE stratum: consecutive matrix-form calls (one executor thread) whose second input is "
        "a permutation / two-entry swap of the first, a different set of doubled or all-equal points, the same points "
        "with other hyper-parameters, one coordinate moved by one ulp, x and y exchanged, the same Vector/Matrix object "
        "mutated in place (rbf_g/rq_g), RBF and RQ interleaved - for each kernel and argument kind; non-trivial = distinct (op, form/kind, sizes, parameter decade) class")
EXHAUSTIVE = {"quick": False, "thorough": False}
NOT_PROVED = []   # the one coherent list is at the END of this file (after the lead's wiring blocks)
TRUSTED = ["IEEE f64 arithmetic and glibc exp/pow shared by both executors",
           "LLVM powi lowering modelled as square-and-multiply (Cv.powi), measured bit-exact"]
ASSUMPTIONS = ["finite f64 inputs; point sets non-empty (an empty point set yields an empty 0 x m / n x 0 matrix since F50: shape checked, compared with the model)"]

EPS = 2.0 ** -52
MINNORM = 2.0 ** -1022

# Tolerance constants, >= 100x the maximum ratio observed on the current tree (CV_C20_CALIB=1 prints them):
# seeds 1..5 + default quick and the thorough tier gave  scalar rbf 1.61, scalar rq 1.76, matrix lines 2.25 (in units of
# eps * cond * exact value; the matrix form is bit-identical to the scalar form since F50 and uses the same bound);
# no inversion of the monotone order was ever observed.
C_SCALAR = 400.0     # scalar form vs exact value: |k - k*| <= C eps (1 + |arg|) k*          (RBF), (1 + alpha) (RQ)
PSD_FACTOR = 2.5     # Gram PSD: lambda_min >= -PSD_FACTOR n max_ij tol_ij, i.e. -n eps var c with c >= 1000 (observed <= 8.6)
C_MONO = 4.0         # monotonicity along sorted distances: k(d') <= k(d) (1 + C eps) for d' > d
CALIB = {}           # filled when CV_C20_CALIB=1: maximum observed ratios


def mp():
    import mpmath
    mpmath.mp.prec = 120
    return mpmath


def valid(p):
    return p == p and p > 0.0


# ------------------------------------------------------------------------------------------ request builders
def mk_pairs(op, form, params, pairs):
    return "%s %d %s %d %s" % (op, form, " ".join(f2h(p) for p in params), len(pairs),
                               " ".join("%s %s" % (f2h(x), f2h(y)) for x, y in pairs))


def mk_mat(op, kind, params, rx, cx, dx, ry, cy, dy):
    return "%s %d %s %d %d %s %d %d %s" % (op, kind, " ".join(f2h(p) for p in params),
                                           rx, cx, " ".join(f2h(v) for v in dx), ry, cy, " ".join(f2h(v) for v in dy))


def canon(line):
    """`*_g` (evaluate, mutate in place, evaluate again) -> the `*_m` line of the mutated point set (x = y)."""
    t = line.split()
    if not t or not t[0].endswith("_g"):
        return line
    i = 5 if t[0].startswith("rq") else 4
    r, c = int(t[i]), int(t[i + 1])
    d = t[i + 2:i + 2 + r * c]
    idx, val = int(t[i + 2 + r * c]), t[i + 3 + r * c]
    d = list(d)
    d[idx] = val
    pts = "%d %d %s" % (r, c, " ".join(d))
    return " ".join([t[0][:-2] + "_m"] + t[1:i] + [pts, pts])


def model_line(line):
    return canon(line)


def mk_mut(op, kind, params, r, c, d, idx, val):
    return "%s %d %s %d %d %s %d %s" % (op, kind, " ".join(f2h(p) for p in params), r, c,
                                        " ".join(f2h(v) for v in d), idx, f2h(val))


def parse(line):
    """-> dict(op, rq, fk, var, alpha, ls, and pairs | (rx,cx,dx,ry,cy,dy))"""
    t = canon(line).split()
    op = t[0]
    rq = op.startswith("rq")
    fk = int(t[1])
    if rq:
        var, alpha, ls = h2f(t[2]), h2f(t[3]), h2f(t[4])
        i = 5
    else:
        var, ls = h2f(t[2]), h2f(t[3])
        alpha = None
        i = 4
    d = {"op": op, "rq": rq, "fk": fk, "var": var, "alpha": alpha, "ls": ls}
    if op.endswith("_p"):
        n = int(t[i])
        v = [h2f(s) for s in t[i + 1:i + 1 + 2 * n]]
        d["pairs"] = [(v[2 * j], v[2 * j + 1]) for j in range(n)]
    else:
        rx, cx = int(t[i]), int(t[i + 1])
        i += 2
        dx = [h2f(s) for s in t[i:i + rx * cx]]
        i += rx * cx
        ry, cy = int(t[i]), int(t[i + 1])
        i += 2
        dy = [h2f(s) for s in t[i:i + ry * cy]]
        d.update(rx=rx, cx=cx, dx=dx, ry=ry, cy=cy, dy=dy)
    return d


# ------------------------------------------------------------------------------------------ generator
def clip(x):
    return max(-1e3, min(1e3, x))


def gen_param(rng):
    r = rng.random()
    if r < 0.08:
        return rng.choice([0.0100001, 0.011, 99.0, 99.9999, 1.0, 0.5, 2.0, 10.0, 0.1])
    return rng.loguniform(1.0001e-2, 0.9999e2)


# Exact special parameter values (fast paths / special cases keyed on an exact exponent or scale are invisible
# to log-uniform draws): about 30 % of all lines use at least one of them, and gen() emits every alpha once per
# form in every run.
SPECIAL_ALPHA = [0.5, 1.0 / 3.0, 0.25, 1.0, 1.5, 2.0, 3.0, 0.1, 10.0]
SPECIAL_SCALE = [0.5, 1.0, 2.0, 0.01, 100.0]


def gen_params(rng, rq):
    """[var, ls] or [var, alpha, ls]"""
    ps = [gen_param(rng) for _ in range(3 if rq else 2)]
    if rng.chance(0.3):
        pools = [SPECIAL_SCALE, SPECIAL_ALPHA, SPECIAL_SCALE] if rq else [SPECIAL_SCALE, SPECIAL_SCALE]
        forced = rng.randint(0, len(ps) - 1)
        if rq and rng.chance(0.6):
            forced = 1
        for j in range(len(ps)):
            if j == forced or rng.chance(0.4):
                ps[j] = rng.choice(pools[j])
    return ps


BAD = [0.0, -0.0, -1.0, -1e-300, float("nan"), float("-inf")]


def gen_pairs(rng, ls, n):
    ps = []
    while len(ps) < n:
        r = rng.random()
        x = clip(rng.choice([0.0, 1.0, -1.0, 10.0, -100.0, 1e3, -1e3, 1.0]) * rng.random() if rng.chance(0.5) else rng.uniform(-1e3, 1e3))
        if r < 0.45:
            d = ls * rng.loguniform(1e-3, 40.0) * rng.choice([1.0, -1.0])
            y = clip(x + d)
        elif r < 0.55:
            y = x
        elif r < 0.65:
            y = math.nextafter(x, rng.choice([-2e3, 2e3]))
            for _ in range(rng.randint(0, 3)):
                y = math.nextafter(y, 2e3)
            y = clip(y)
        elif r < 0.75:
            y = -x
        else:
            y = rng.uniform(-1e3, 1e3)
        ps.append((x, y))
        if rng.chance(0.5):
            ps.append((y, x))
        if rng.chance(0.2):
            ps.append((x, x))
    # a ladder of distances from one fixed point (monotonicity along sorted distances)
    x0 = clip(rng.normal() * rng.choice([0.0, 1.0, 30.0, 300.0]))
    for _ in range(max(4, n // 3)):
        d = ls * rng.loguniform(1e-4, 40.0)
        ps.append((x0, clip(x0 + d)) if rng.chance(0.5) else (clip(x0 - d), x0))
    if rng.chance(0.3):
        ps.append((0.0, -0.0))
        ps.append((-0.0, 0.0))
    return ps


SIZES_EDGE = [1, 2, 3, 7, 8, 9, 15, 16, 17, 23, 24, 25, 31, 32, 33, 40, 47, 48, 49, 56, 59, 60]


def gen_points(rng, ls, n):
    centre = rng.choice([0.0, 0.0, 1.0, -3.0, 10.0, -50.0, 100.0, 500.0, -900.0]) * (rng.random() if rng.chance(0.5) else 1.0)
    spread = ls * rng.loguniform(1e-2, 30.0)
    mode = rng.randint(0, 3)
    if mode == 0:      # gaussian cluster
        pts = [clip(centre + spread * rng.normal()) for _ in range(n)]
    elif mode == 1:    # regular grid (typical GP input)
        pts = [clip(centre + spread * (i - n / 2.0) / max(n, 1) * 4) for i in range(n)]
    elif mode == 2:    # uniform over the whole range
        pts = [rng.uniform(-1e3, 1e3) for _ in range(n)]
    else:              # cluster with duplicates and near-duplicates
        base = [clip(centre + spread * rng.normal()) for _ in range(max(1, n // 2))]
        pts = []
        for _ in range(n):
            b = rng.choice(base)
            pts.append(b if rng.chance(0.5) else clip(b + spread * 1e-3 * rng.normal()))
    return pts, mode


def shape_for(rng, kind, n):
    if kind < 2:
        return 1, n
    divs = [r for r in range(1, n + 1) if n % r == 0]
    r = rng.choice(divs + [1, n])
    return r, n // r


def gen(rng, tier):
    lines = []
    cover = {"scalar_lines": 0, "scalar_pairs": 0, "matrix_gram": 0, "matrix_cross": 0, "invalid_params": 0,
             "kinds": [0, 0, 0, 0], "sizes_seen": 0, "point_modes": [0, 0, 0, 0], "max_points": 0}
    thorough = tier == "thorough"
    # ---- scalar form
    n_sc = 400 if thorough else 60
    for i in range(n_sc):
        rq = i % 2 == 1
        params = gen_params(rng, rq)
        ls = params[-1]
        pairs = gen_pairs(rng, ls, rng.randint(4, 24))
        lines.append(mk_pairs("rq_p" if rq else "rbf_p", i // 2 % 2, params, pairs))
        cover["scalar_lines"] += 1
        cover["scalar_pairs"] += len(pairs)
    # ---- every special alpha, scalar and matrix form (all four kinds rotate), special scales for RBF
    cover["special_param_lines"] = 0
    for j, a in enumerate(SPECIAL_ALPHA):
        var = rng.choice(SPECIAL_SCALE) if j % 2 == 0 else gen_param(rng)
        ls = rng.choice(SPECIAL_SCALE) if j % 3 == 0 else gen_param(rng)
        lines.append(mk_pairs("rq_p", j % 2, [var, a, ls], gen_pairs(rng, ls, 8)))
        n = rng.choice([2, 5, 9, 17])
        px, _ = gen_points(rng, ls, n)
        kind = j % 4
        rx, cx = shape_for(rng, kind, n)
        lines.append(mk_mat("rq_m", kind, [var, a, ls], rx, cx, px, rx, cx, list(px)))
        cover["special_param_lines"] += 2
    for j, v in enumerate(SPECIAL_SCALE):
        ls = SPECIAL_SCALE[(j + 2) % len(SPECIAL_SCALE)]
        px, _ = gen_points(rng, ls, 9)
        lines.append(mk_mat("rbf_m", j % 4, [v, ls], 1 if j % 4 < 2 else 3, 9 if j % 4 < 2 else 3, px, 1 if j % 4 < 2 else 3, 9 if j % 4 < 2 else 3, list(px)))
        lines.append(mk_pairs("rbf_p", j % 2, [v, ls], gen_pairs(rng, ls, 8)))
        cover["special_param_lines"] += 2
    # ---- invalid parameters: every position, scalar and matrix
    for rq in (False, True):
        for pos in range(3 if rq else 2):
            for bad in BAD:
                params = gen_params(rng, rq)
                params[pos] = bad
                lines.append(mk_pairs("rq_p" if rq else "rbf_p", rng.randint(0, 1), params, [(0.0, 1.0), (1.0, 1.0)]))
                kind = rng.randint(0, 3)
                lines.append(mk_mat("rq_m" if rq else "rbf_m", kind, params, 1, 2, [0.0, 1.0], 1, 2, [0.0, 1.0]))
                cover["invalid_params"] += 2
    # ---- matrix form
    sizes = set()
    jobs = []
    # every size 1..60 as a Gram matrix once per kernel (kinds rotate), plus edge sizes as cross products
    for n in range(1, 61):
        if thorough or n in SIZES_EDGE or n % 5 == 0 or n < 12:
            jobs.append((n, n, True))
    for n in SIZES_EDGE:
        m = rng.choice(SIZES_EDGE)
        jobs.append((n, m, False))
    extra = 600 if thorough else 40
    for _ in range(extra):
        n = rng.randint(1, 60) if rng.chance(0.7) else rng.choice(SIZES_EDGE)
        gram = rng.chance(0.5)
        m = n if gram else (rng.randint(1, 60) if rng.chance(0.7) else rng.choice(SIZES_EDGE))
        jobs.append((n, m, gram))
    for j, (n, m, gram) in enumerate(jobs):
        for rq in ((False, True) if (thorough or j % 2 == 0 or n <= 9) else ((j // 2) % 2 == 1,)):
            params = gen_params(rng, rq)
            ls = params[-1]
            kind = (j + (2 if rq else 0) + rng.randint(0, 1)) % 4
            px, modex = gen_points(rng, ls, n)
            if gram:
                py = list(px)
            else:
                py, _ = gen_points(rng, ls, m)
                if rng.chance(0.5):   # overlapping sets: shifted copy
                    py = [clip(px[i % n] + ls * 0.3 * rng.normal()) for i in range(m)]
            rx, cx = shape_for(rng, kind, n)
            ry, cy = (rx, cx) if gram and rng.chance(0.7) else shape_for(rng, kind, m)
            lines.append(mk_mat("rq_m" if rq else "rbf_m", kind, params, rx, cx, px, ry, cy, py))
            cover["matrix_gram" if gram else "matrix_cross"] += 1
            cover["kinds"][kind] += 1
            cover["point_modes"][modex] += 1
            cover["max_points"] = max(cover["max_points"], n, m)
            sizes.add((n, m))
    cover["sizes_seen"] = len(sizes)
    gen_sequences(rng.fork("sequences"), tier, lines, cover)
    return lines, cover


def ulp_step(x, rng):
    return math.nextafter(x, rng.choice([-2e3, 2e3]))


SEQ_SCENARIOS = ["perm", "swap2", "dups", "params", "ulp", "xyswap", "mutate", "interleave"]


def gen_sequences(rng, tier, lines, cover):
    """CALL-SEQUENCE stratum.  The executor evaluates the request lines one after the other on one thread, so
    consecutive lines are consecutive calls: hidden state carried from one call to the next (memo / cache keyed by a
    fingerprint of the inputs, reused buffers) shows up in the second reply, which is judged on its own by the oracle
    (matrix form = scalar form bit for bit, range, symmetry, PSD) and by the bit-exact tie to the stateless model."""
    reps = 10 if tier == "thorough" else 3
    cover["sequence_pairs"] = {k: 0 for k in SEQ_SCENARIOS}
    cover["sequence_lines"] = 0

    def emit(rq, kind, params, px, py, shape_x=None, shape_y=None):
        rx, cx = shape_x or shape_for(rng, kind, len(px))
        ry, cy = shape_y or ((rx, cx) if len(py) == len(px) else shape_for(rng, kind, len(py)))
        lines.append(mk_mat("rq_m" if rq else "rbf_m", kind, params, rx, cx, px, ry, cy, py))
        cover["sequence_lines"] += 1
        return (rx, cx), (ry, cy)

    def points(n, ls):
        mode = rng.randint(0, 2)
        if mode == 0:     # small "nice" values (exact in binary: fingerprints of sets collide more easily)
            return [rng.choice([-4.0, -3.5, -2.0, -1.0, 0.0, 0.5, 1.0, 1.5, 2.0, 4.0, 5.0]) * rng.choice([1.0, ls]) + 0.25 * i
                    for i in range(n)]
        pts, _ = gen_points(rng, ls, n)
        return pts

    for rep_i in range(reps):
        for rq in (False, True):
            for kind in range(4):
                for sc in SEQ_SCENARIOS:
                    params = gen_params(rng, rq)
                    ls = params[-1]
                    n = rng.choice([2, 3, 4, 5, 6, 8, 9, 12, 16, 17])
                    kind2 = kind if rng.chance(0.7) else rng.randint(0, 3)
                    gram = rng.chance(0.6)
                    x = points(n, ls)
                    t = list(x) if gram else points(rng.choice([n, n, rng.randint(1, 12)]), ls)
                    first = lambda: emit(rq, kind, params, x, list(x) if gram else t)   # noqa: E731
                    second = lambda x2, prm=None, r=None: emit(rq if r is None else r, kind2, prm or params, x2,   # noqa: E731
                                                               list(x2) if gram else t)
                    if sc == "perm":
                        first()
                        x2 = list(x)
                        how = rng.randint(0, 2)
                        if how == 0:
                            rng.shuffle(x2)
                        elif how == 1:
                            x2.reverse()
                        else:
                            x2.sort()
                        if x2 == x:
                            x2 = x2[1:] + x2[:1]
                        second(x2)
                        if not gram and rng.chance(0.5):      # K(t, x) after K(x', t): roles exchanged as well
                            emit(rq, kind2, params, t, x2)
                    elif sc == "swap2":
                        first()
                        x2 = list(x)
                        a, b = rng.randint(0, n - 1), rng.randint(0, n - 1)
                        if a == b:
                            b = (a + 1) % n
                        x2[a], x2[b] = x2[b], x2[a]
                        second(x2)
                    elif sc == "dups":
                        h = max(1, n // 2)
                        if rng.chance(0.5):                    # every point twice: [a,a,b,b,..] then [c,c,d,d,..]
                            p1, p2 = points(h, ls), points(h, ls)
                            x1 = [v for v in p1 for _ in (0, 1)]
                            x2 = [v + 0.5 * ls for v in p2 for _ in (0, 1)]
                            if rng.chance(0.5):
                                rng.shuffle(x2)
                        else:                                  # all points equal
                            x1 = [x[0]] * (2 * h)
                            x2 = [clip(x[0] + ls)] * (2 * h)
                        emit(rq, kind, params, x1, list(x1))
                        emit(rq, kind2, params, x2, list(x2))
                        emit(rq, kind, params, x1, list(x2))   # and the cross call of the two
                    elif sc == "params":
                        first()
                        p2 = gen_params(rng, rq)
                        if rng.chance(0.5):                    # only one hyper-parameter changes
                            j = rng.randint(0, len(params) - 1)
                            p2 = list(params)
                            p2[j] = gen_param(rng)
                        second(list(x), prm=p2)
                        second(list(x))                        # and back to the first parameters
                    elif sc == "ulp":
                        first()
                        x2 = list(x)
                        j = rng.randint(0, n - 1)
                        x2[j] = ulp_step(x2[j], rng)
                        second(x2)
                    elif sc == "xyswap":
                        m = rng.choice([n, n, rng.randint(1, 12)])
                        y = points(m, ls)
                        emit(rq, kind, params, x, y)
                        emit(rq, kind2, params, y, x)
                    elif sc == "mutate":
                        r_, c_ = shape_for(rng, kind, n)
                        j = rng.randint(0, n - 1)
                        how = rng.randint(0, 2)
                        if how == 0:
                            val = x[(j + 1) % n]               # overwrite with a neighbour's value (a duplicate appears)
                        elif how == 1:
                            val = ulp_step(x[j], rng)
                        else:
                            val = clip(x[j] + ls * rng.normal())
                        lines.append(mk_mut("rq_g" if rq else "rbf_g", kind, params, r_, c_, x, j, val))
                        cover["sequence_lines"] += 1
                        # in-place exchange of two entries = two mutations; the second line starts from the once-mutated set
                        x1 = list(x)
                        x1[j] = val
                        lines.append(mk_mut("rq_g" if rq else "rbf_g", kind, params, r_, c_, x1, (j + 1) % n, x[j]))
                        cover["sequence_lines"] += 1
                    else:                                      # interleave RBF and RQ on the same inputs
                        pb, pq = gen_params(rng, False), gen_params(rng, True)
                        x2 = list(x)
                        rng.shuffle(x2)
                        for r, prm, xs in ((False, pb, x), (True, pq, x), (False, pb, x2), (True, pq, x2), (False, pb, x)):
                            emit(r, kind if not r else kind2, prm, xs, list(xs) if gram else t)
                    cover["sequence_pairs"][sc] += 1


def corpus():
    one, two_, half = 1.0, 2.0, 0.5
    ls = []
    # F36 witness: RQ k(0, 2) with var = 1, alpha = 1, l = 1 is 1/3 (was 3 with the exponent +alpha)
    ls.append(mk_pairs("rq_p", 0, [one, one, one], [(0.0, 2.0), (2.0, 0.0), (0.0, 0.0)]))
    ls.append(mk_pairs("rq_p", 1, [one, one, one], [(0.0, 2.0), (2.0, 0.0), (0.0, 0.0)]))
    ls.append(mk_mat("rq_m", 0, [one, one, one], 1, 2, [0.0, 2.0], 1, 2, [0.0, 2.0]))
    ls.append(mk_mat("rq_m", 3, [one, one, one], 2, 1, [0.0, 2.0], 1, 2, [0.0, 2.0]))
    ls.append(mk_pairs("rbf_p", 0, [two_, half], [(0.0, 1.0), (1.0, 0.0), (1.0, 1.0), (0.0, 0.25)]))
    # shapes: 1x1, n x 1 against 1 point, 1 point against m, 9 points (one full chunk + remainder) in a 3x3 Matrix
    ls.append(mk_mat("rbf_m", 0, [two_, half], 1, 1, [0.5], 1, 1, [0.25]))
    ls.append(mk_mat("rbf_m", 1, [two_, half], 1, 3, [0.5, 1.0, 1.5], 1, 1, [0.25]))
    ls.append(mk_mat("rbf_m", 2, [two_, half], 1, 1, [0.5], 2, 2, [0.25, 0.5, 0.75, 1.0]))
    ls.append(mk_mat("rbf_m", 3, [two_, half], 3, 3, [0.1 * i for i in range(9)], 3, 3, [0.1 * i for i in range(9)]))
    ls.append(mk_mat("rq_m", 2, [two_, 3.0, half], 3, 3, [0.1 * i for i in range(9)], 1, 9, [0.1 * i for i in range(9)]))
    # empty point sets: 0 x m / n x 0 result since F50 (the former dot_t route panicked in is_matrix)
    ls.append(mk_mat("rbf_m", 0, [two_, half], 1, 0, [], 1, 2, [0.0, 1.0]))
    ls.append(mk_mat("rbf_m", 1, [two_, half], 1, 2, [0.0, 1.0], 1, 0, [], ))
    # F50 witness (cancellation in the former x^2 + y^2 - 2xy matrix form): var = 1, l = 0.01, points 913.436 and
    # 913.4360001 gave the off-diagonal Gram entry 1.000001164153896 > var (scalar form: 0.99999999995), an
    # indefinite Gram matrix; the oracle demands entry <= var and bit equality with the scalar form
    ls.append(mk_mat("rbf_m", 0, [one, 0.01], 1, 2, [913.436, 913.4360001], 1, 2, [913.436, 913.4360001]))
    ls.append(mk_pairs("rbf_p", 0, [one, 0.01], [(913.436, 913.4360001), (913.4360001, 913.436)]))
    # exact exponents 1/2 and 1/3 in the RQ matrix form (seed C20g: a sqrt/cbrt fast path in Vector::powf that
    # forgot the reciprocal gave var (1+z)^(+alpha): entries above var, growing with distance, != scalar form)
    # Float-level witness that "positive" is a statement over the reals only: inside the domain (|x - y| = 2000,
    # l = 0.01) exp / pow underflow and the computed kernel value is exactly 0.0 (RBF: e^(-2e10); RQ with alpha = 100:
    # (2e8)^(-100)); scalar form, both impls, and matrix form (entries 0.0 off the diagonal, var on it).  The oracle
    # demands 0 <= k <= var and k > 0 only where the exact value is >= 1e-290.
    ls.append(mk_pairs("rbf_p", 0, [one, 0.01], [(1000.0, -1000.0), (-1000.0, 1000.0), (1000.0, 1000.0)]))
    ls.append(mk_pairs("rq_p", 1, [one, 100.0, 0.01], [(1000.0, -1000.0), (-1000.0, 1000.0), (1000.0, 1000.0)]))
    ls.append(mk_mat("rbf_m", 1, [one, 0.01], 1, 2, [1000.0, -1000.0], 1, 2, [1000.0, -1000.0]))
    ls.append(mk_mat("rq_m", 2, [one, 100.0, 0.01], 2, 1, [1000.0, -1000.0], 2, 1, [1000.0, -1000.0]))
    # call sequences (seed C20i: squared distances memoised under an order-insensitive XOR fingerprint): a reordered
    # set and a different set of doubled points right after a call with the same fingerprint, every argument kind
    for kind in range(4):
        sh4 = (1, 4) if kind < 2 else (2, 2)
        sh5 = (1, 5) if kind < 2 else (5, 1)
        a5, b5 = [5.0, -3.5, 0.0, 2.0, 1.0], [1.0, 2.0, 0.0, -3.5, 5.0]
        ls.append(mk_mat("rbf_m", kind, [one, one], sh5[0], sh5[1], a5, sh5[0], sh5[1], a5))
        ls.append(mk_mat("rbf_m", kind, [one, one], sh5[0], sh5[1], b5, sh5[0], sh5[1], b5))
        ls.append(mk_mat("rbf_m", kind, [one, two_], sh4[0], sh4[1], [1.0, 1.0, 4.0, 4.0], sh4[0], sh4[1], [1.0, 1.0, 4.0, 4.0]))
        ls.append(mk_mat("rbf_m", kind, [one, two_], sh4[0], sh4[1], [-2.0, -2.0, 0.5, 0.5], sh4[0], sh4[1], [-2.0, -2.0, 0.5, 0.5]))
        ls.append(mk_mat("rq_m", kind, [one, one, two_], sh4[0], sh4[1], [1.0, 1.0, 4.0, 4.0], sh4[0], sh4[1], [1.0, 1.0, 4.0, 4.0]))
        ls.append(mk_mat("rq_m", kind, [one, one, two_], sh4[0], sh4[1], [-2.0, -2.0, 0.5, 0.5], sh4[0], sh4[1], [-2.0, -2.0, 0.5, 0.5]))
        ls.append(mk_mut("rbf_g", kind, [one, one], sh5[0], sh5[1], a5, 0, -3.5))
    for kind, a in ((0, 0.5), (1, 1.0 / 3.0), (2, 0.5), (3, 1.0 / 3.0)):
        ls.append(mk_mat("rq_m", kind, [2.5, a, one], 1 if kind < 2 else 2, 4 if kind < 2 else 2, [-4.0, 1.5, 0.0, 2.0],
                         1 if kind < 2 else 2, 4 if kind < 2 else 2, [-4.0, 1.5, 0.0, 2.0]))
    return ls


# ------------------------------------------------------------------------------------------ oracle
def kref(M, rq, var, alpha, ls, x, y):
    """exact-arithmetic kernel value (mpmath, 120 bits) and the exponent argument / conditioning term."""
    d = M.mpf(x) - M.mpf(y)
    l2 = M.mpf(ls) * M.mpf(ls)
    if rq:
        q = d * d / (2 * M.mpf(alpha) * l2)
        return M.mpf(var) * M.power(1 + q, -M.mpf(alpha)), q
    a = d * d / (2 * l2)
    return M.mpf(var) * M.exp(-a), a


def calib(key, v):
    if os.environ.get("CV_C20_CALIB"):
        v = float(v)
        if v > CALIB.get(key, 0.0):
            CALIB[key] = v


def check_scalar(M, i, p, toks, fails):
    rq, var, alpha, ls = p["rq"], p["var"], p["alpha"], p["ls"]
    name = "rq" if rq else "rbf"
    pairs = p["pairs"]
    if len(toks) != len(pairs):
        fails.append(Failure(i, name + ":scalar:arity", "expected %d values, got %d" % (len(pairs), len(toks))))
        return
    ks = [h2f(t) for t in toks]
    seen = {}
    from fractions import Fraction
    dist = []
    for (x, y), k, tk in zip(pairs, ks, toks):
        if not (k == k) or k < 0.0 or k > var:
            fails.append(Failure(i, name + ":scalar:range", "k(%r, %r) = %r is outside [0, var = %r]" % (x, y, k, var)))
            return
        if x == y and k != var:
            fails.append(Failure(i, name + ":scalar:diagonal", "k(%r, %r) = %r, expected var = %r" % (x, y, k, var), f2h(var)))
            return
        ref, a = kref(M, rq, var, alpha, ls, x, y)
        cond = (1 + float(alpha)) if rq else (1 + float(a))
        tol = C_SCALAR * EPS * cond * ref + MINNORM * max(1.0, var)
        err = abs(M.mpf(k) - ref)
        if ref > 1e-290:
            calib("scalar_" + name, err / (EPS * cond * ref))
        if err > tol:
            fails.append(Failure(i, name + ":scalar:value", "k(%r, %r) = %r, exact %s (error %s > tolerance %s)" % (
                x, y, k, M.nstr(ref, 20), M.nstr(err, 5), M.nstr(tol, 5)), M.nstr(ref, 20)))
            return
        if ref > 1e-290 and not k > 0.0:
            fails.append(Failure(i, name + ":scalar:positive", "k(%r, %r) = %r is not positive (exact %s)" % (x, y, k, M.nstr(ref, 20))))
            return
        # symmetry, bit for bit
        if (y, x) in seen and seen[(y, x)] != tk and not (x == 0.0 and y == 0.0):
            fails.append(Failure(i, name + ":scalar:symmetry", "k(%r, %r) = %s but k(%r, %r) = %s" % (x, y, tk, y, x, seen[(y, x)])))
            return
        seen[(x, y)] = tk
        dist.append((abs(Fraction(x) - Fraction(y)), k, x, y))
    # monotone non-increasing in the distance: exact ties -> identical values; otherwise within C_MONO ulps
    dist.sort(key=lambda r: r[0])
    for (d0, k0, x0, y0), (d1, k1, x1, y1) in zip(dist, dist[1:]):
        if d0 == d1:
            if k0 != k1:
                fails.append(Failure(i, name + ":scalar:monotone", "equal distances |%r-%r| = |%r-%r| but values %r != %r" % (x0, y0, x1, y1, k0, k1)))
                return
        elif k1 > k0 * (1 + C_MONO * EPS) + MINNORM:
            fails.append(Failure(i, name + ":scalar:monotone", "distance |%r-%r| < |%r-%r| but k = %r < %r" % (x0, y0, x1, y1, k0, k1)))
            return
        if k0 > 1e-290:
            calib("mono_" + name, (k1 - k0) / (k0 * EPS))


def ldl_is_pd(A):
    """exact rational LDL^T without pivoting: True iff all pivots > 0 (A positive definite)."""
    from fractions import Fraction
    n = len(A)
    A = [[Fraction(v) for v in row] for row in A]
    for k in range(n):
        if A[k][k] <= 0:
            return False
        for r in range(k + 1, n):
            f = A[r][k] / A[k][k]
            if f != 0:
                for c in range(k + 1, n):
                    A[r][c] -= f * A[k][c]
    return True


def check_matrix(M, i, p, toks, fails):
    import numpy as np
    rq, var, alpha, ls = p["rq"], p["var"], p["alpha"], p["ls"]
    name = "rq" if rq else "rbf"
    xs, ys = p["dx"], p["dy"]
    n, m = len(xs), len(ys)
    if len(toks) < 2 or int(toks[0]) != n or int(toks[1]) != m or len(toks) != 2 + 2 * n * m:
        fails.append(Failure(i, name + ":matrix:shape", "%d x %d points gave shape %s x %s with %d entries" % (
            n, m, toks[0] if toks else "?", toks[1] if len(toks) > 1 else "?", (len(toks) - 2) // 2)))
        return
    T = toks[2:2 + n * m]          # matrix form
    S = toks[2 + n * m:]           # scalar form on the same pairs (f64 impl for even kinds, &f64 for odd kinds)
    K = [[h2f(T[a * m + b]) for b in range(m)] for a in range(n)]
    maxtol = 0.0
    for a in range(n):
        for b in range(m):
            k = K[a][b]
            x, y = xs[a], ys[b]
            if not (k == k) or k < 0.0 or k > var:
                fails.append(Failure(i, name + ":matrix:range", "entry (%d,%d) = %r for points %r, %r is outside [0, var = %r]" % (a, b, k, x, y, var)))
                return
            # since F50 the matrix form performs the scalar form's operations on every pair: bit equality
            if T[a * m + b] != S[a * m + b]:
                fails.append(Failure(i, name + ":matrix:entry", "entry (%d,%d) = %r differs from the scalar form %r at points %r, %r" % (
                    a, b, k, h2f(S[a * m + b]), x, y), S[a * m + b]))
                return
            ref, q = kref(M, rq, var, alpha, ls, x, y)
            cond = (1 + float(alpha)) if rq else (1 + float(q))
            tol = C_SCALAR * EPS * cond * float(ref) + MINNORM * max(1.0, var)
            err = float(abs(M.mpf(k) - ref))
            maxtol = max(maxtol, tol)
            if ref > 1e-290:
                calib("matrix_" + name, err / (EPS * cond * float(ref)))
            if err > tol:
                fails.append(Failure(i, name + ":matrix:value", "entry (%d,%d) = %r for points %r, %r; exact %s; error %.3g > tolerance %.3g" % (
                    a, b, k, x, y, M.nstr(ref, 20), err, tol), M.nstr(ref, 20)))
                return
    gram = xs == ys
    if not gram:
        return
    for a in range(n):
        if K[a][a] != var:
            fails.append(Failure(i, name + ":gram:diagonal", "Gram entry (%d,%d) = %r, expected var = %r" % (a, a, K[a][a], var), f2h(var)))
            return
        for b in range(a):
            if K[a][b] != K[b][a]:
                fails.append(Failure(i, name + ":gram:symmetry", "Gram entries (%d,%d) = %r and (%d,%d) = %r differ" % (a, b, K[a][b], b, a, K[b][a])))
                return
    # positive semi-definiteness at working precision: K = G + E with G (exact Gram matrix) PSD and
    # |E_ij| <= tol_ij = C eps cond_ij k*_ij <= ~C eps var, hence lambda_min(K) >= -n max tol_ij  (= -n eps var c).
    tau = PSD_FACTOR * n * maxtol
    A = np.array(K, dtype=float)
    lam = float(np.linalg.eigvalsh(A)[0])
    slack = 16 * n * EPS * float(np.linalg.norm(A, 2))      # error of eigvalsh itself
    calib("psd_" + name, max(0.0, -lam) / (n * EPS * var))
    if lam < -tau - slack:
        fails.append(Failure(i, name + ":gram:psd", "smallest eigenvalue of the %dx%d Gram matrix is %.6g < -%.3g (var = %r)" % (n, n, lam, tau, var)))
        return
    if n <= 10:
        # exact certificate: K + (tau + slack) I is positive definite (rational LDL^T)
        from fractions import Fraction
        sh = Fraction(tau + slack) + Fraction(MINNORM)
        B = [[Fraction(K[a][b]) + (sh if a == b else 0) for b in range(n)] for a in range(n)]
        if not ldl_is_pd(B):
            fails.append(Failure(i, name + ":gram:psd", "exact LDL^T: Gram matrix + %.3g I is not positive definite (n = %d)" % (tau + slack, n)))


def oracle(lines, impl):
    M = mp()
    fails = []
    for i, (l, rep) in enumerate(zip(lines, impl)):
        st, toks = parse_reply(rep)
        if st == "skip":
            continue
        p = parse(l)
        name = "rq" if p["rq"] else "rbf"
        params = [p["var"], p["ls"]] + ([p["alpha"]] if p["rq"] else [])
        ok_params = all(valid(v) for v in params)
        if not ok_params:
            if st != "panic":
                fails.append(Failure(i, name + ":ctor", "invalid parameters %r accepted (%s)" % (params, st)))
            continue
        if not all(math.isfinite(v) for v in params):
            continue
        matrix = p["op"].endswith("_m")
        if matrix and (len(p["dx"]) == 0 or len(p["dy"]) == 0):
            # outside the quantifier (empty point set): an empty matrix of the right shape, compared with the model
            if st != "ok" or toks != [str(len(p["dx"])), str(len(p["dy"]))]:
                fails.append(Failure(i, name + ":matrix:shape", "empty point set: reply %s %r" % (st, toks[:4])))
            continue
        if st != "ok":
            fails.append(Failure(i, name + ":panic", "valid parameters %r, reply %s" % (params, st)))
            continue
        try:
            if matrix:
                check_matrix(M, i, p, toks, fails)
            else:
                check_scalar(M, i, p, toks, fails)
        except (ValueError, IndexError) as e:
            fails.append(Failure(i, name + ":malformed", "reply could not be read: %r" % (e,)))
    if os.environ.get("CV_C20_CALIB"):
        import sys
        print("C20 CALIB %r" % (CALIB,), file=sys.stderr)
    return fails


def nontrivial(line, reply):
    if not reply.startswith("="):
        return None
    seq = "g " if line.startswith(("rbf_g", "rq_g")) else ""
    t = canon(line).split()
    op = seq + t[0]
    rq = t[0].startswith("rq")
    dec = tuple(int(math.floor(math.log10(h2f(s)))) for s in t[2:(5 if rq else 4)])
    i = 5 if rq else 4
    if t[0].endswith("_p"):
        return "%s %s %s n=%s" % (op, t[1], dec, t[i])
    rx, cx = int(t[i]), int(t[i + 1])
    j = i + 2 + rx * cx
    return "%s %s %s %dx%d %sx%s" % (op, t[1], dec, rx, cx, t[j], t[j + 1])

# --- source tie (translator tools/rs2lean.py: the straight-line functions of this property are regenerated from /repo/src on every run
# into lean/Compute/Generated/SrcC20.lean and proved equal to the hand model in Props/SrcTieC20.lean)
from . import srctie
srctie.wire(globals(), 'C20')

# --- deep theorems (Rounding5: float-level bounds in the standard model, wired by the lead)
PROOF_MODULES = PROOF_MODULES + [m for m in ['Compute.Lemmas.LogRounding', 'Compute.Lemmas.Rounding5', 'Compute.Props.Rounding5'] if m not in PROOF_MODULES]
REQUIRED_THEOREMS = REQUIRED_THEOREMS + ['Cv.Rounding5.rbf_near', 'Cv.Rounding5.rbf_error', 'Cv.Rounding5.rbf_error_explicit', 'Cv.Rounding5.rbf_pos_stdmodel', 'Cv.Rounding5.rq_near', 'Cv.Rounding5.rq_error', 'Cv.Rounding5.rq_pos_stdmodel']
NOT_PROVED = list(NOT_PROVED) + ['floating-point rounding of the scalar forms IS proved in the standard model with libm exp/pow of relative error <= u_f (Props/Rounding5): c K <= computed <= K/c with c = e^(-gamma_9 A)(1-u_f)(1-u) (RBF, A = (x-y)^2/(2 l^2)) resp. ((1-u)^11)^alpha (1-u_f)(1-u) (RQ), and computed > 0; the matrix forms and k <= var are oracle only']

# --- deep theorems (Rounding6: end-to-end residual / backward-error bounds in the standard model, wired by the lead)
PROOF_MODULES = PROOF_MODULES + [m for m in ['Compute.Lemmas.Rounding6', 'Compute.Props.Rounding6'] if m not in PROOF_MODULES]
REQUIRED_THEOREMS = REQUIRED_THEOREMS + ['Cv.Rounding6.rbf_matrix_near', 'Cv.Rounding6.rbf_matrix_range_stdmodel', 'Cv.Rounding6.rq_matrix_near', 'Cv.Rounding6.powi_two_idem', 'Cv.Rounding6.rbf_le_var']
NOT_PROVED = list(NOT_PROVED) + ['matrix forms: with idempotent rounding powi(a,2) = a*a holds at the rounded scalar type (powi_two_idem), so every Gram entry is the scalar form and satisfies the two-sided bound (RBF: e^(-gamma_7 A)(1-u_f)(1-u)), is > 0, and under the explicit extra hypothesis ExpLeOne (libm exp <= 1 on x <= 0) is <= var(1+u) (Props/Rounding6); symmetry bit for bit and psd of the f64 Gram matrix remain oracle/searched']

# --- review d: ONE coherent statement of what is and is not proved (replaces the NOT_PROVED entries accumulated above;
# the module / theorem wiring of the blocks above is unchanged)
NOT_PROVED = [
    "PROVED OVER THE REALS (Props/C20, Props/C20Psd; no rounding): constructors, the four scalar facts for both kernels "
    "(symmetric, k(x,x) = var, 0 < k <= var, non-increasing in |x - y|), matrix form = scalar form entry by entry with "
    "shape n x m for all four argument kinds, Gram symmetry and diagonal, Gram matrices positive semi-definite "
    "(Matrix.PosSemidef). The property's 'positive' holds over the reals; it does NOT hold at f64 (next item)",
    "UNDERFLOW: at f64 the kernel value underflows to exactly 0.0 inside the quantified domain, e.g. RBF var = 1, "
    "l = 0.01: k(1000, -1000) = 0.0, and RQ var = 1, alpha = 100, l = 0.01: k(1000, -1000) = 0.0 (corpus witness lines). "
    "The oracle therefore demands 0 <= k <= var always and k > 0 only where the exact value is >= 1e-290. The sign "
    "statements 'computed > 0' of Props/Rounding5 and Props/Rounding6 (scalar and matrix forms) are theorems of the "
    "standard model with an exp / pow that never underflows (class ExpLnStd / PowStd): read them as 'in the standard "
    "model, absent underflow (|x - y| <~ 38 l for RBF)'; they are false of f64 beyond that range",
    "ROUNDING, PROVED IN THE STANDARD MODEL ONLY (Props/Rounding5, Props/Rounding6; fl(a op b) = (a op b)(1+d), |d| <= u, "
    "libm exp / pow of relative error <= u_f, no underflow / overflow): the computed scalar and matrix-form values "
    "satisfy c K <= computed <= K / c with c = e^(-gamma_9 A)(1-u_f)(1-u) (RBF scalar, A = (x-y)^2 / (2 l^2); gamma_7 for "
    "the matrix form) resp. ((1-u)^11)^alpha (1-u_f)(1-u) (RQ); k <= var (1+u) under the explicit extra hypothesis "
    "ExpLeOne (libm exp <= 1 on arguments <= 0). That IEEE doubles and glibc satisfy the standard model (u_f, ExpLeOne, "
    "monotone exp / pow) is assumed, not proved",
    "hp and hsq: matrix form = scalar form is proved for every scalar type with hp: powi(a,2) = a*a, Gram symmetry for "
    "every scalar type with hp and hsq: (a-b)*(a-b) = (b-a)*(b-a) (hsq_of_neg_sub reduces hsq to b-a = -(a-b) and "
    "(-t)(-t) = t t). Over the reals both hold (instantiated in Props/C20). hp is proved for the standard model with "
    "idempotent rounding (Rounding6.powi_two_idem); hsq is NOT proved for any float model, and neither is proved of "
    "Lean's opaque Float / IEEE doubles. At f64 both consequences are checked bit for bit by the oracle on every "
    "generated case (matrix entry == scalar forward token for token; K_ij == K_ji)",
    "NOT PROVED AT f64, SEARCHED ONLY: k <= var, k(x,x) = var and monotonicity in the distance (oracle: exact checks, "
    "monotone within 4 ulp, never observed inverted); accuracy against the exact value (oracle: 400 eps (1 + |exponent|) "
    "relative for RBF, 400 eps (1 + alpha) for RQ, mpmath 120 bits; observed <= 2.25 eps units); positive "
    "semi-definiteness of the f64 Gram matrix (oracle: smallest eigenvalue >= -2.5 n max_ij tol_ij with a rigorous "
    "eigvalsh margin and an exact rational LDL^T certificate for n <= 10)",
    "SOURCE TIE: only the two scalar forward bodies (macros impl_kernel_f64_for_rbf / _rq) are regenerated from "
    "kernels.rs and proved equal to the model (Props/SrcTieC20). The constructors and the matrix forms (reshape, "
    "broadcast subtraction, Matrix::powi / exp / powf, scalar ops) are hand-modelled on top of the C04 / C12 / C15 "
    "models and tied only by the bit-exact differential execution (all four argument kinds, call sequences included)",
    "accuracy and monotonicity of libm exp / pow themselves",
]
TRUSTED = ["IEEE f64 arithmetic and glibc exp/pow shared by both executors",
           "LLVM powi lowering modelled as square-and-multiply (Cv.powi), measured bit-exact",
           "for the Rounding5/6 theorems: the standard model of floating-point arithmetic WITHOUT underflow/overflow and "
           "its libm classes (ExpLnStd, PowStd, ExpLeOne) as an idealisation of f64 + glibc"]

# --- review repairs in the Rounding layer (renamed stdmodel_* theorems, underflow-aware variants, genuine FlModel instance; wired by the lead)
PROOF_MODULES = PROOF_MODULES + [m for m in ['Compute.Lemmas.FlModelGrid', 'Compute.Props.RoundingGrid'] if m not in PROOF_MODULES]
REQUIRED_THEOREMS = REQUIRED_THEOREMS + [t for t in ['Cv.Rounding3U.rbf_range_ufl', 'Cv.Rounding3U.rbf_error_ufl', 'Cv.Rounding3U.rq_nonneg_ufl', 'Cv.FlModel.grid_abs_sub_le', 'Cv.FlModel.grid_idem', 'Cv.FlModel.grid_mono', 'Cv.FlModel.grid_rnd_one', 'Cv.FlModel.grid_rnd_natCast', 'Cv.FlModel.grid_rnd_dyadic', 'Cv.FlModel.f64grid_u', 'Cv.FlModel.f64grid_mono'] if t not in REQUIRED_THEOREMS]
NOT_PROVED = list(NOT_PROVED) + ['theorems named stdmodel_* hold in the idealised standard model (fl(x) = x(1+d) for every operation, library functions with relative error <= u_f for every argument) at u = 2^-53; they describe binary64 only where nothing overflows or underflows (for exp: arguments in [-708.39, 709.78]); outside that range computed values may be exactly 0 or inf', 'under ExpLnUfl (exp computed as e^x(1+d)+eta, underflow allowed) logistic, softmax, RBF and RQ values are proved in [0,1] resp. >= 0 (namespace Rounding3U); strict positivity is a theorem of the no-underflow model only; logistic(800) = 1 and an RBF value of exactly 0 are exhibited', 'FlModel has a genuine instance, FlModel.grid p (radix 2, p digits, round to nearest, unbounded exponent; f64grid has u = 2^-53), proved to satisfy the standard model and to be idempotent and monotone, with integers <= 2^p and dyadics exact (Lemmas/FlModelGrid); headline rounding theorems are instantiated on it (Props/RoundingGrid); overflow and underflow remain outside the model']
