//! C09 executor: special functions of `compute::functions` (gamma.rs, statistical.rs::erf).
//! Requests (floats as 16 hex digits):
//!   `gamma x` | `lngamma x` | `digamma x` | `erf x` | `beta a b`            -> `= y`
//!   `gammav n x1 … xn` (same for lngammav, digammav, erfv)                   -> `= y1 … yn`
//!   `betav n a1 b1 … an bn`                                                  -> `= y1 … yn`
//! `digamma` recurses once per unit step below 6, so requests with x < -100000 (or -inf) are refused as
//! `! diverged` here and in the model (the real function would overflow the stack / never return).
//! `erf(NaN)` recurses forever (`x >= 0.` and `-x >= 0.` are both false) until the stack overflows and the process
//! aborts; such a request is refused as `! diverged` too (the model's `erfF` runs out of fuel there).
use compute::functions::{beta, digamma, erf, gamma, ln_gamma};
use cvexec::*;

const DIGAMMA_MIN: f64 = -100000.0;

fn er(x: f64) -> Option<f64> {
    if x.is_nan() {
        None
    } else {
        Some(erf(x))
    }
}

fn dg(x: f64) -> Option<f64> {
    if x < DIGAMMA_MIN {
        None
    } else {
        Some(digamma(x))
    }
}

fn step(_: &mut (), t: &mut Toks) -> R<String> {
    let op = t.tok()?;
    match op {
        "gamma" | "lngamma" | "erf" | "digamma" => {
            let x = t.f64()?;
            t.end()?;
            let y = match op {
                "gamma" => gamma(x),
                "lngamma" => ln_gamma(x),
                "erf" => match er(x) {
                    Some(y) => y,
                    None => return Ok("! diverged".to_string()),
                },
                _ => match dg(x) {
                    Some(y) => y,
                    None => return Ok("! diverged".to_string()),
                },
            };
            Ok(ok(show_f(y)))
        }
        "beta" => {
            let a = t.f64()?;
            let b = t.f64()?;
            t.end()?;
            Ok(ok(show_f(beta(a, b))))
        }
        "gammav" | "lngammav" | "erfv" | "digammav" => {
            let xs = t.vec()?;
            t.end()?;
            let mut ys = Vec::with_capacity(xs.len());
            for x in xs {
                ys.push(match op {
                    "gammav" => gamma(x),
                    "lngammav" => ln_gamma(x),
                    "erfv" => match er(x) {
                        Some(y) => y,
                        None => return Ok("! diverged".to_string()),
                    },
                    _ => match dg(x) {
                        Some(y) => y,
                        None => return Ok("! diverged".to_string()),
                    },
                });
            }
            Ok(ok(show_fs(&ys)))
        }
        "betav" => {
            let n = t.usize()?;
            let xs = t.f64s(2 * n)?;
            t.end()?;
            let ys: Vec<f64> = (0..n).map(|i| beta(xs[2 * i], xs[2 * i + 1])).collect();
            Ok(ok(show_fs(&ys)))
        }
        _ => Err(BadOp),
    }
}

fn main() {
    run((), step);
}
