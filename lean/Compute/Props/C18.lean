import Compute.Lemmas.C18Step
import Compute.Model.Rng
/-
C18 — distributions are a pure function of current parameters and the RNG seed.

Theorems about the record model `Model/DistState.lean` of the 13 univariate distributions (constructor, every
setter, `Distribution1D::update`, cached sub-sampler fields), for every history of calls with valid and invalid
values interleaved and panics caught, over every linearly ordered field `α` (so: no NaN) and every
interpretation `CastInt α` of the casts `as usize / as u64 / as i64`.

* `InDomain k args`  — the documented parameter domain of kind `k` (`Lemmas/C18Step.lean`)
* `Valid d`          — the object's own parameters are in the domain
* `Coherent d`       — every cached sub-sampler is the one a fresh constructor builds from the current parameters
* `Inv d`            — `fresh d = some d`: the object equals, as a whole record, its freshly constructed twin
* `Reachable d`      — `d` is the result of a successful constructor call followed by any history of calls

A sampler, `pdf`, `mean`, `var` of the model are functions of the record (and of the generator state) only — the
records hold no generator state and there is no other state — so equality of records gives equality of every
observation and of the whole sample stream from every generator state, independently of which other objects
exist; `observational_equality` states this for an arbitrary function `f`.
-/
set_option linter.unusedSectionVars false
namespace Cv.C18
open Cv.DS
variable {α : Type} [Field α] [LinearOrder α] [IsStrictOrderedRing α] [CastInt α]

/-! ## Constructors -/

/-- A constructor succeeds exactly on the documented domain (out-of-domain arguments panic). -/
theorem new_isSome_iff (k : Kind) (args : List (Arg α)) : (newD k args).isSome ↔ InDomain k args :=
  newD_isSome_iff k args

theorem new_rejects (k : Kind) (args : List (Arg α)) (h : ¬ InDomain k args) : newD k args = none := by
  have := (new_isSome_iff k args).not.mpr h
  simpa using this

/-- A freshly constructed object is of the requested kind, valid, coherent, and equal to its twin. -/
theorem new_inv {k : Kind} {args : List (Arg α)} {d : Dist α} (h : newD k args = some d) :
    d.kind = k ∧ Valid d ∧ Coherent d ∧ Inv d := by
  obtain ⟨hk, hv, hc⟩ := newD_spec h
  exact ⟨hk, hv, hc, (fresh_iff d).mpr ⟨hv, hc⟩⟩

/-! ## One step -/

theorem step_new (d : Dist α) (args : List (Arg α)) :
    step d (.new args) = match newD d.kind args with
      | some d' => (d', false)
      | none => (d, true) := rfl

theorem step_kind (d : Dist α) (op : Op α) : (step d op).1.kind = d.kind := by
  cases op with
  | new args =>
    rw [step_new]
    split
    · rename_i d' h; exact (newD_spec h).1
    · rfl
  | set i a => exact setD_kind d i a
  | update ps => exact updateD_kind d ps

/-- The per-step lemma: every call (valid or invalid argument, panicking or not) maps an object that equals its
twin to an object that equals its twin. -/
theorem step_inv (d : Dist α) (h : Inv d) (op : Op α) : Inv (step d op).1 := by
  cases op with
  | new args =>
    rw [step_new]
    split
    · rename_i d' h'; exact (new_inv h').2.2.2
    · exact h
  | set i a =>
    show Inv (setD d i a).1
    by_cases ht : SetTyped d.kind i a
    · rw [setD_spec d h i a ht]
      split
      · rename_i d' h'; exact (new_inv h').2.2.2
      · exact h
    · rw [setD_untyped d i a ht]; exact h
  | update ps =>
    show Inv (updateD d ps).1
    have := updateD_spec d h ps
    split at this
    · rename_i d' h'
      rw [this]
      exact (new_inv (k := d.kind) (args := (castArgs d.kind ps).getD []) (by
        unfold newOfSlice at h'
        split at h'
        · rename_i args hc; simpa [hc] using h'
        · exact absurd h' (by simp))).2.2.2
    · exact this.2

/-- Setters validate exactly like the constructor (on the would-be parameter list): accepted iff in the domain;
on success the object *is* the fresh object with the new parameters, on rejection it panics and is untouched. -/
theorem set_spec (d : Dist α) (h : Inv d) (i : Nat) (a : Arg α) (ht : SetTyped d.kind i a) :
    (InDomain d.kind (d.params.set i a) →
        ∃ d', newD d.kind (d.params.set i a) = some d' ∧ step d (.set i a) = (d', false)) ∧
    (¬ InDomain d.kind (d.params.set i a) → step d (.set i a) = (d, true)) := by
  have hs := setD_spec d h i a ht
  constructor
  · intro hd
    obtain ⟨d', hd'⟩ := Option.isSome_iff_exists.mp ((new_isSome_iff _ _).mpr hd)
    exact ⟨d', hd', by simpa [step, hd'] using hs⟩
  · intro hd
    have := new_rejects _ _ hd
    simpa [step, this] using hs

/-- `update` validates exactly like the constructor on the slice (after indexing and the integer casts). -/
theorem update_spec (d : Dist α) (h : Inv d) (ps : List α) :
    (∀ d', newOfSlice d.kind ps = some d' → step d (.update ps) = (d', false)) ∧
    (newOfSlice d.kind ps = none → (step d (.update ps)).2 = true ∧ Inv (step d (.update ps)).1) := by
  have hs := updateD_spec d h ps
  constructor
  · intro d' hd'
    simpa [hd', step] using hs
  · intro hn
    simpa [hn, step] using hs

/-! ## Histories -/

theorem run_nil (d : Dist α) : run d [] = d := rfl

theorem run_cons (d : Dist α) (op : Op α) (h : List (Op α)) : run d (op :: h) = run (step d op).1 h := rfl

theorem run_append_one (d : Dist α) (h : List (Op α)) (op : Op α) :
    run d (h ++ [op]) = (step (run d h) op).1 := by
  simp [run, List.foldl_append]

/-- Induction over the history. -/
theorem history_inv (d : Dist α) (h0 : Inv d) (h : List (Op α)) : Inv (run d h) := by
  induction h generalizing d with
  | nil => exact h0
  | cons op h ih => rw [run_cons]; exact ih _ (step_inv d h0 op)

theorem history_kind (d : Dist α) (h : List (Op α)) : (run d h).kind = d.kind := by
  induction h generalizing d with
  | nil => rfl
  | cons op h ih => rw [run_cons, ih, step_kind]

/-- An object a program can hold: a successful constructor call followed by any history of calls (constructor
calls, setters, bulk updates; valid and invalid arguments; panics caught). -/
def Reachable (d : Dist α) : Prop :=
  ∃ (k : Kind) (args : List (Arg α)) (d0 : Dist α) (h : List (Op α)), newD k args = some d0 ∧ d = run d0 h

theorem reachable_inv {d : Dist α} (hr : Reachable d) : Inv d := by
  obtain ⟨k, args, d0, h, h0, rfl⟩ := hr
  exact history_inv d0 (new_inv h0).2.2.2 h

/-- **valid_inv** — no reachable object holds an out-of-domain parameter. -/
theorem valid_inv {d : Dist α} (hr : Reachable d) : Valid d :=
  ((fresh_iff d).mp (reachable_inv hr)).1

/-- **coherent_inv** — in every reachable object every cached sub-sampler (`Beta.alpha_gen/beta_gen`,
`ChiSquared.sampler`, `Gamma.normal_gen/uniform_gen`, `Exponential.rng`, `Gumbel.uniform_gen`) is the one a fresh
constructor builds from the current parameters (F32 was a violation of this). -/
theorem coherent_inv {d : Dist α} (hr : Reachable d) : Coherent d :=
  ((fresh_iff d).mp (reachable_inv hr)).2

/-- **observational_equality** — a reachable object is equal, as a whole record, to the object freshly
constructed from its current parameters (first conjunct: this is the result, proved by induction over histories);
hence — by congruence, second conjunct — every function of the record (pdf, pmf, mean, var) and every function of the
record and a generator state (the sample stream from any seed) coincide. -/
theorem observational_equality {d : Dist α} (hr : Reachable d) :
    newD d.kind d.params = some d ∧
    ∀ {β : Type} (f : Dist α → β), ∀ tw, newD d.kind d.params = some tw → f d = f tw := by
  have h : newD d.kind d.params = some d := reachable_inv hr
  refine ⟨h, ?_⟩
  intro β f tw htw
  rw [h] at htw
  cases htw
  rfl

/-- The sample stream: for *any* sampler that reads the record and the generator state, the `n` draws taken from
generator state `g` on a reachable object are the draws its freshly constructed twin gives from the same state.
This is a congruence corollary of the record equality (its content is `reachable_inv`); it is instantiated with the
modelled sampler `sampleP` of `Model/C18Obs.lean` in `Props/C18Review.lean` (`modelled_observations_eq`).  That other
distribution objects cannot influence the stream is true of the model by construction of its types (a sampler has no
other argument) and is not a theorem. -/
theorem stream_equality {d : Dist α} (hr : Reachable d) {β : Type}
    (sample : Dist α → Cv.Rng → Option (β × Cv.Rng)) (n : Nat) (g : Cv.Rng) :
    ∀ tw, newD d.kind d.params = some tw →
      Cv.Rng.drawN? (sample d) n g = Cv.Rng.drawN? (sample tw) n g :=
  fun tw htw => (observational_equality hr).2 (fun x => Cv.Rng.drawN? (sample x) n g) tw htw

/-- **update_total** — a bulk update to parameters the constructor accepts succeeds from every reachable state
(whatever the previous parameters were: e.g. bounds entirely above or below the old interval; F35 was a
violation of this) and yields exactly the freshly constructed object. -/
theorem update_total {d : Dist α} (hr : Reachable d) (ps : List α) (d' : Dist α)
    (hn : newOfSlice d.kind ps = some d') : step d (.update ps) = (d', false) :=
  (update_spec d (reachable_inv hr) ps).1 d' hn

/-- `update_total` in terms of the domain: if the slice has the right length and the cast values are in the
domain, the update succeeds. -/
theorem update_total_domain {d : Dist α} (hr : Reachable d) (ps : List α) (args : List (Arg α))
    (hc : castArgs d.kind ps = some args) (hd : InDomain d.kind args) :
    ∃ d', step d (.update ps) = (d', false) ∧ newD d.kind args = some d' := by
  obtain ⟨d', hd'⟩ := Option.isSome_iff_exists.mp ((new_isSome_iff _ _).mpr hd)
  refine ⟨d', update_total hr ps d' ?_, hd'⟩
  simp [newOfSlice, hc, hd']

/-- **invalid values are rejected everywhere** — from a reachable object: a constructor call, a setter or a bulk
update whose would-be parameters are outside the domain panics, and the object it leaves is again reachable-like
(valid, coherent, equal to its twin); constructor and setters leave it untouched. -/
theorem reject_invalid {d : Dist α} (hr : Reachable d) :
    (∀ args, ¬ InDomain d.kind args → step d (.new args) = (d, true)) ∧
    (∀ i a, SetTyped d.kind i a → ¬ InDomain d.kind (d.params.set i a) → step d (.set i a) = (d, true)) ∧
    (∀ ps args, castArgs d.kind ps = some args → ¬ InDomain d.kind args →
        (step d (.update ps)).2 = true ∧ Inv (step d (.update ps)).1) ∧
    (∀ ps, castArgs d.kind ps = none → (step d (.update ps)).2 = true ∧ Inv (step d (.update ps)).1) := by
  have hi := reachable_inv hr
  refine ⟨?_, ?_, ?_, ?_⟩
  · intro args hd
    simp [step, new_rejects _ _ hd]
  · intro i a ht hd
    exact (set_spec d hi i a ht).2 hd
  · intro ps args hc hd
    exact (update_spec d hi ps).2 (by simp [newOfSlice, hc, new_rejects _ _ hd])
  · intro ps hc
    exact (update_spec d hi ps).2 (by simp [newOfSlice, hc])

/-- Reachability is closed under further calls. -/
theorem reachable_step {d : Dist α} (hr : Reachable d) (op : Op α) : Reachable (step d op).1 := by
  obtain ⟨k, args, d0, h, h0, rfl⟩ := hr
  exact ⟨k, args, d0, h ++ [op], h0, (run_append_one d0 h op).symm⟩

/-! ## Non-vacuity and the two repaired defects, replayed in the model over `ℚ` -/

section Examples

local instance : CastInt ℚ := ⟨fun x => x.floor.toNat, fun x => x.floor⟩

/-- F32 replay: `ChiSquared::new(2)`, then `set_dof(50)`: the cached Gamma sampler is the one of 50 degrees of
freedom (shape 25, rate 1/2). -/
example :
    ∃ d0 : Dist ℚ, newD .chisquared [.int 2] = some d0 ∧
      (step d0 (.set 0 (.int 50))) = (.chisquared ⟨50, gammaOf 25 (1 / 2)⟩, false) := by
  refine ⟨.chisquared ⟨2, chiSampler 2⟩, by simp [newD, ChiSquared.new_eq], ?_⟩
  simp [step, setD, lift, ChiSquared.setDof_eq, chiSampler]
  norm_num

/-- F35 replay: `Uniform::new(0, 1)`, then `update(&[5, 6])` (entirely above) and `update(&[-6, -5])` (entirely
below) succeed; `update(&[2, 1])` panics and leaves the object untouched. -/
example :
    ∃ d0 : Dist ℚ, newD .uniform [.real 0, .real 1] = some d0 ∧
      step d0 (.update [5, 6]) = (.uniform ⟨5, 6⟩, false) ∧
      step (.uniform (⟨5, 6⟩ : Uniform ℚ)) (.update [-6, -5]) = (.uniform ⟨-6, -5⟩, false) ∧
      step (.uniform (⟨-6, -5⟩ : Uniform ℚ)) (.update [2, 1]) = (.uniform ⟨-6, -5⟩, true) := by
  refine ⟨.uniform ⟨0, 1⟩, by simp [newD, Uniform.new_eq], ?_, ?_, ?_⟩ <;>
    norm_num [step, updateD, lift, Uniform.update, Uniform.new_eq]

/-- A half-applied bulk update: `Beta::new(1, 1).update(&[5, -1])` panics in `set_beta` after `set_alpha(5)` has
assigned `alpha` and rebuilt `alpha_gen`; the object left behind is `Beta(5, 1)` with coherent caches. -/
example :
    step (.beta (⟨1, 1, gammaOf 1 1, gammaOf 1 1⟩ : Beta ℚ)) (.update [5, -1]) =
      (.beta ⟨5, 1, gammaOf 5 1, gammaOf 1 1⟩, true) := by
  norm_num [step, updateD, lift, Beta.update, Beta.setAlpha_eq, Beta.setBeta_eq]

/-- The hypotheses of the history theorems are satisfiable: a reachable object. -/
example : Reachable (.normal (⟨3, 2⟩ : Normal ℚ)) :=
  ⟨.normal, [.real 0, .real 1], .normal ⟨0, 1⟩,
    ([.set 0 (.real 3), .set 1 (.real (-1)), .update [3, 2]] : List (Op ℚ)),
    by simp [newD, Normal.new_eq], by
      norm_num [run, step, setD, updateD, lift, Normal.setMu, Normal.setSigma_eq, Normal.update]⟩

end Examples

end Cv.C18
