import Compute.Model.DistState
import Compute.Model.DistPdf
import Compute.Model.Samplers
import Compute.Model.Special
import Compute.Generated.C02Consts
/-
# Observations of a distribution record (property C18)

Everything the C18 executor observes on an object, as a function of the *record* of `Model/DistState.lean`
(and, for the draws, of the generator state): `pdf`/`pmf` at a probe, `mean`, `var`, `sample`.

The formulas are the models of the C02 colleague (`Model/DistPdf.lean`) and of the C03 colleague
(`Model/Samplers.lean`); this file only wires the fields of the record into them — and it wires the fields
*the Rust method reads*: `Beta::sample` reads `alpha_gen`/`beta_gen` (not `alpha`/`beta`), `ChiSquared::sample`
reads `sampler`, `Exponential::sample` reads `rng`, `Gumbel::sample` reads `uniform_gen`, so a stale cache would
show up in the modelled stream exactly as it does in Rust.  One level is not wired: `Gamma::sample` reads its
`normal_gen`/`uniform_gen` fields, for which `Cv.Gamma.sample` substitutes `Normal(0,1)`/`Uniform(0,1)`; no
method ever assigns those two fields after `Gamma::new` (theorem `coherent_inv`).

Polymorphic in the scalar `α` (special functions and constants are the parameter `F : Cv.Dist.Fns α`, as in
`Model/DistPdf.lean`): `densityP`, `meanP`, `varP`, `sampleP`, `drawsP`.  The compiled driver uses the `Float`
instances `densityD`, `meanD`, `varD`, `sampleD`, `drawsD` below (bit-for-bit correspondence); `Props/C18.lean`
instantiates `observational_equality` / `stream_equality` with the same definitions over an ordered field.

`Exponential`, `Gumbel` and `Pareto` redraw while the uniform draw is exactly 0 (repair F53): `drawNonzero` with fuel
(`none` = fuel exhausted; every redraw has probability 2⁻⁵³).  No Mathlib.
-/
namespace Cv.DS
open Cv

def inI64 (i : Int) : Bool := decide (-(2 ^ 63 : Int) ≤ i ∧ i < 2 ^ 63)

section
variable {α : Type} [Add α] [Sub α] [Mul α] [Div α] [Neg α] [Zero α] [One α] [NatCast α] [IntCast α]
  [LT α] [DecidableLT α] [LE α] [DecidableLE α] [BEq α] [Transc α] [OfLit α] [Log1p α] [ToU64 α] [FiniteTest α]

/-- `pdf(x)` / `pmf(k)` of the record; `none` = the call panics (`i64` overflow in `DiscreteUniform::pmf`) or the
probe has the wrong type (`f64` for densities, `i64` for mass functions). -/
def densityP (F : Cv.Dist.Fns α) (d : Dist α) (p : Arg α) : Option α :=
  match d, p with
  | .bernoulli d, .int k => some (Cv.Dist.Bernoulli.pmf d.p k)
  | .binomial d, .int k => some (Cv.Dist.Binomial.pmf F d.n d.p k)
  | .poisson d, .int k => some (Cv.Dist.Poisson.pmf F d.lambda k)
  | .discreteuniform d, .int k =>
    if k < d.lower ∨ d.upper < k then some 0
    else if inI64 (d.upper - d.lower) && inI64 (d.upper - d.lower + 1) then
      some (Cv.Dist.DiscreteUniform.pmf d.lower d.upper k)
    else none
  | .beta d, .real x => some (Cv.Dist.Beta.pdf F d.alpha d.beta x)
  | .chisquared d, .real x => some (Cv.Dist.ChiSquared.pdf F d.dof x)
  | .exponential d, .real x => some (Cv.Dist.Exponential.pdf d.lambda x)
  | .gamma d, .real x => some (Cv.Dist.Gamma.pdf F d.alpha d.beta x)
  | .gumbel d, .real x => some (Cv.Dist.Gumbel.pdf d.mu d.beta x)
  | .normal d, .real x => some (Cv.Dist.Normal.pdf F d.mu d.sigma x)
  | .pareto d, .real x => some (Cv.Dist.Pareto.pdf d.alpha d.minval x)
  | .t d, .real x => some (Cv.Dist.T.pdf F d.dof x)
  | .uniform d, .real x => some (Cv.Dist.Uniform.pdf d.lower d.upper x)
  | _, _ => none

/-- `Mean::mean` of the record; `none` = panic (`lower + upper` overflows `i64`). -/
def meanP (F : Cv.Dist.Fns α) (d : Dist α) : Option (Cv.Dist.Moment α) :=
  match d with
  | .bernoulli d => some (.fin (Cv.Dist.Bernoulli.mean d.p))
  | .beta d => some (.fin (Cv.Dist.Beta.mean d.alpha d.beta))
  | .binomial d => some (.fin (Cv.Dist.Binomial.mean d.n d.p))
  | .chisquared d => some (.fin (Cv.Dist.ChiSquared.mean d.dof))
  | .discreteuniform d =>
    if inI64 (d.lower + d.upper) then some (.fin (Cv.Dist.DiscreteUniform.mean d.lower d.upper)) else none
  | .exponential d => some (.fin (Cv.Dist.Exponential.mean d.lambda))
  | .gamma d => some (.fin (Cv.Dist.Gamma.mean d.alpha d.beta))
  | .gumbel d => some (.fin (Cv.Dist.Gumbel.mean F d.mu d.beta))
  | .normal d => some (.fin (Cv.Dist.Normal.mean d.mu d.sigma))
  | .pareto d => some (Cv.Dist.Pareto.mean d.alpha d.minval)
  | .poisson d => some (.fin (Cv.Dist.Poisson.mean d.lambda))
  | .t d => some (Cv.Dist.T.mean d.dof)
  | .uniform d => some (.fin (Cv.Dist.Uniform.mean d.lower d.upper))

/-- `Variance::var` of the record; `none` = panic (`upper - lower + 1` overflows `i64`). -/
def varP (F : Cv.Dist.Fns α) (d : Dist α) : Option (Cv.Dist.Moment α) :=
  match d with
  | .bernoulli d => some (.fin (Cv.Dist.Bernoulli.var d.p))
  | .beta d => some (.fin (Cv.Dist.Beta.var d.alpha d.beta))
  | .binomial d => some (.fin (Cv.Dist.Binomial.var d.n d.p))
  | .chisquared d => some (.fin (Cv.Dist.ChiSquared.var d.dof))
  | .discreteuniform d =>
    if inI64 (d.upper - d.lower) && inI64 (d.upper - d.lower + 1) then
      some (.fin (Cv.Dist.DiscreteUniform.var d.lower d.upper))
    else none
  | .exponential d => some (.fin (Cv.Dist.Exponential.var d.lambda))
  | .gamma d => some (.fin (Cv.Dist.Gamma.var d.alpha d.beta))
  | .gumbel d => some (.fin (Cv.Dist.Gumbel.var F d.mu d.beta))
  | .normal d => some (.fin (Cv.Dist.Normal.var d.mu d.sigma))
  | .pareto d => some (Cv.Dist.Pareto.var d.alpha d.minval)
  | .poisson d => some (.fin (Cv.Dist.Poisson.var d.lambda))
  | .t d => some (Cv.Dist.T.var d.dof)
  | .uniform d => some (.fin (Cv.Dist.Uniform.var d.lower d.upper))

/-- `let mut u = draw(); while u == 0. { u = draw(); }` (repair F53).  `none` = out of fuel. -/
def drawNonzero (draw : Rng → α × Rng) : Nat → Rng → Option (α × Rng)
  | 0, _ => none
  | fuel + 1, g =>
    let r := draw g
    if r.1 == 0 then drawNonzero draw fuel r.2 else some r

/-- `Distribution::sample` on the record.  `none` = a rejection / redraw loop ran out of `fuel`, or a panic. -/
def sampleP (fuel ifuel : Nat) (d : Dist α) (g : Rng) : Option (α × Rng) :=
  match d with
  | .bernoulli d => some (Cv.Bernoulli.sample d.p g)
  | .beta d =>
    match Cv.Gamma.sample fuel d.alpha_gen.alpha d.alpha_gen.beta g with
    | none => none
    | some (x, g) =>
      match Cv.Gamma.sample fuel d.beta_gen.alpha d.beta_gen.beta g with
      | none => none
      | some (y, g) =>
        -- repair F43: both variates underflowed; this branch reads `self.alpha`, `self.beta`
        if x + y == 0 then
          let (u, g) := g.f64 (α := α)
          some (if u * (d.alpha + d.beta) < d.alpha then 1 else 0, g)
        else some (x / (x + y), g)
  | .binomial d => Cv.Binomial.sample fuel ifuel d.n d.p g
  | .chisquared d => Cv.Gamma.sample fuel d.sampler.alpha d.sampler.beta g
  | .discreteuniform d => Cv.DiscreteUniform.sample lemireFuel d.lower d.upper g
  | .exponential d =>
    match drawNonzero (Cv.UniformF.sample d.rng.lower d.rng.upper) fuel g with
    | none => none
    | some (u, g) => some (-(Transc.ln u) / d.lambda, g)
  | .gamma d => Cv.Gamma.sample fuel d.alpha d.beta g
  | .gumbel d =>
    match drawNonzero (Cv.UniformF.sample d.uniform_gen.lower d.uniform_gen.upper) fuel g with
    | none => none
    | some (u, g) => some (d.mu - d.beta * Transc.ln (-(Transc.ln u)), g)
  | .normal d => Cv.Normal.sample fuel d.mu d.sigma g
  | .pareto d =>
    match drawNonzero (fun g => g.f64 (α := α)) fuel g with
    | none => none
    | some (u, g) => some (d.minval / Transc.pow u (1 / d.alpha), g)
  | .poisson d => Cv.Poisson.sample fuel d.lambda g
  | .t d => Cv.T.sample fuel d.dof g
  | .uniform d => some (Cv.UniformF.sample d.lower d.upper g)

/-- `n` calls of `sample()` from generator state `g` (the values only). -/
def drawsP (fuel ifuel : Nat) (d : Dist α) (g : Rng) (n : Nat) : Option (List α) :=
  (Rng.drawN? (sampleP fuel ifuel d) n g).map (·.1)

end

/-! ## The `Float` instance used by the compiled driver -/

/-- The special functions at `Float` (same wiring as `Drv/C02.lean`). -/
def floatFns : Cv.Dist.Fns Float where
  pi := Float.ofBits C02T.piBits
  gamma := Cv.gammaFn
  lnGamma := Cv.lnGammaFn
  erf := Cv.erfFn
  ln1p := Cv.log1pF
  euler := Float.ofBits C02T.eulerBits

def momentF : Cv.Dist.Moment Float → Float
  | .fin x => x
  | .inf => 1.0 / 0.0
  | .nan => 0.0 / 0.0

/-- A probe: `f64` for densities, `i64` for mass functions. -/
abbrev Probe := Arg Float

def densityD (d : Dist Float) (p : Probe) : Option Float := densityP floatFns d p
def meanD (d : Dist Float) : Option Float := (meanP floatFns d).map momentF
def varD (d : Dist Float) : Option Float := (varP floatFns d).map momentF
def sampleD (fuel ifuel : Nat) (d : Dist Float) (g : Rng) : Option (Float × Rng) := sampleP fuel ifuel d g

/-- `alea::set_seed(seed)` followed by `n` calls of `sample()`. -/
def drawsD (fuel ifuel : Nat) (d : Dist Float) (seed : UInt64) (n : Nat) : Option (List Float) :=
  drawsP fuel ifuel d (Rng.ofSeed seed) n

end Cv.DS
