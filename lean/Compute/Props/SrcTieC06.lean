import Compute.Model.Glm
import Compute.Generated.SrcC06
/-
Source tie for C06 (`src/predict/glms/families.rs`): the per-observation closures of
`ExponentialFamily::deviance` are regenerated from the Rust source (one per match arm — the source repeats the
Poisson / QuasiPoisson and the Gamma / Exponential formulas, and each copy is translated) into
`Compute/Generated/SrcC06.lean` on every run.  In the hand model (`Compute/Model/Glm.lean`) these formulas are
anonymous lambdas inside `devTerms` / `ylogy`; the theorems say that `devTerms f y mu`, for each family, IS the
model's pipeline with the regenerated closure in the place of the lambda — `rfl`, for every scalar type.
The pipelines (`vsub`, `zip`, the `sum`, the final factor `2.` / `-2.`) are outside the translated subset; they
stay tied bit-exactly.

`variance`, `inv_link`, `d_inv_link`: every match arm is a `Vector` expression; the translator spells the operator
overloads with the shared element-wise kernels of `Model/Vops.lean` (`f64 ∘ Vector` = `sv`, `Vector ∘ Vector` =
`vbinGo`, `-v` = `map (- ·)`, `.exp()` = `vun exp`; those kernels are tied to the Rust macros by C04) and the
theorems say that the model's function is, family by family, the regenerated arm (`cases f <;> rfl`).
-/
set_option linter.unusedSectionVars false
namespace Cv.SrcTie.C06
open Cv.Glm

variable {α : Type} [Add α] [Sub α] [Mul α] [Div α] [Neg α] [Zero α] [One α] [NatCast α] [IntCast α]
  [LT α] [DecidableLT α] [LE α] [DecidableLE α] [BEq α] [Cv.Transc α]

/-- Gaussian: `vsub(y, mu).iter().map(|r| r * r)`. -/
theorem devTerms_gaussian_eq (y mu : List α) :
    devTerms .gaussian y mu = (Cv.Vops.vbinGo (· - ·) y mu).map Cv.Src.C06.devGaussianTerm := rfl

/-- Bernoulli: `|i| y[i] * mu[i].ln() + (1. - y[i]) * (1. - mu[i]).ln()`. -/
theorem devTerms_bernoulli_eq (y mu : List α) :
    devTerms .bernoulli y mu = List.zipWith Cv.Src.C06.devBernoulliTerm y mu := rfl

/-- `ylogy`: `|x| if *x == 0. { 0. } else { x * x.ln() }` (both copies). -/
theorem ylogy_eq_poisson (y : List α) : ylogy y = y.map Cv.Src.C06.ylogyPoisson := rfl
theorem ylogy_eq_quasiPoisson (y : List α) : ylogy y = y.map Cv.Src.C06.ylogyQuasiPoisson := rfl

/-- Poisson: `|i| mu[i] - y[i] - y[i] * mu[i].ln() + ylogy[i]`. -/
theorem devTerms_poisson_eq (y mu : List α) :
    devTerms .poisson y mu
      = List.zipWith (fun (ym : α × α) l => Cv.Src.C06.devPoissonTerm ym.1 ym.2 l) (List.zip y mu)
          (y.map Cv.Src.C06.ylogyPoisson) := rfl

theorem devTerms_quasiPoisson_eq (y mu : List α) :
    devTerms .quasiPoisson y mu
      = List.zipWith (fun (ym : α × α) l => Cv.Src.C06.devQuasiPoissonTerm ym.1 ym.2 l) (List.zip y mu)
          (y.map Cv.Src.C06.ylogyQuasiPoisson) := rfl

/-- Gamma / Exponential: `|(yv, muv)| (yv - muv) / (muv) - (yv / muv).ln()`. -/
theorem devTerms_gamma_eq (y mu : List α) :
    devTerms .gamma y mu = List.zipWith Cv.Src.C06.devGammaTerm y mu := rfl

theorem devTerms_exponential_eq (y mu : List α) :
    devTerms .exponential y mu = List.zipWith Cv.Src.C06.devExponentialTerm y mu := rfl

/-! ### `variance`, `inv_link`, `d_inv_link`: one regenerated definition per match arm -/
open Cv.Src.C06 in
/-- `ExponentialFamily::variance`. -/
theorem variance_eq (f : Family) (mu : List α) :
    variance f mu = (match f with
      | .gaussian => varianceGaussian mu | .bernoulli => varianceBernoulli mu
      | .quasiPoisson => varianceQuasiPoisson mu | .poisson => variancePoisson mu
      | .gamma => varianceGamma mu | .exponential => varianceExponential mu) := by
  cases f <;> rfl

open Cv.Src.C06 in
/-- `ExponentialFamily::inv_link` (Bernoulli: `1. / (1. + (-e).exp())` on `Vector`s). -/
theorem invLink_eq (f : Family) (eta : List α) :
    invLink f eta = (match f with
      | .gaussian => invLinkGaussian eta | .bernoulli => invLinkBernoulli eta
      | .quasiPoisson => invLinkQuasiPoisson eta | .poisson => invLinkPoisson eta
      | .gamma => invLinkGamma eta | .exponential => invLinkExponential eta) := by
  cases f <;> rfl

open Cv.Src.C06 in
/-- `ExponentialFamily::d_inv_link`. -/
theorem dInvLink_eq (f : Family) (eta mu : List α) :
    dInvLink f eta mu = (match f with
      | .gaussian => dInvLinkGaussian eta mu | .bernoulli => dInvLinkBernoulli eta mu
      | .quasiPoisson => dInvLinkQuasiPoisson eta mu | .poisson => dInvLinkPoisson eta mu
      | .gamma => dInvLinkGamma eta mu | .exponential => dInvLinkExponential eta mu) := by
  cases f <;> rfl

end Cv.SrcTie.C06
