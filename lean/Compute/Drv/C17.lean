import Compute.Drv.Common
import Compute.Model.Scalar
import Compute.Model.Transforms
import Compute.Model.Binom
import Compute.Model.BinomAlt
/-
Driver for C17.  Requests
  logisticv <vec> | logit p | rt1 x (logistic then logit) | rt2 p (logit then logistic)
  boxcox x lambda | boxcoxs x lambda alpha | softmax2 c <vec> (softmax x, softmax (x .+ c)) | binom n k | binomalt n k | logsweep a b (all f32 bit patterns a..b and their negations)
Replies: `= h`, `= p r`, `= <vec>`, `= c`, `! panic`.
`binom`: the guard replies `= 0` (the source returns 0); overflow/underflow of a 64-bit operation
replies `! panic` (the executor is built with overflow checks).
-/
open Cv

def c17Opt (r : Option Float) : String :=
  match r with
  | some v => ok (showFloat v)
  | none => panicked

/-- `logsweep a b`: every non-negative f32 bit pattern in `[a, b]` with its negation through the model's `logistic`:
counts of range / monotonicity / reflection violations, of exact zeros and ones, and an FNV-style hash of all results. -/
structure SweepAcc where
  badRange : UInt64 := 0
  badMono : UInt64 := 0
  badSymm : UInt64 := 0
  firstBad : UInt64 := 0xFFFFFFFFFFFFFFFF
  zeros : UInt64 := 0
  ones : UInt64 := 0

/-- `logistic` at `Float`, unfolded (so that the compiled sweep works on unboxed doubles); definitionally the model: -/
@[inline] def c17LogisticF (x : Float) : Float := 1.0 / (1.0 + Float.exp (-x))
example (x : Float) : logistic x = c17LogisticF x := rfl

def c17Sweep : Nat → UInt32 → Float → Float → UInt64 → UInt64 → UInt64 → UInt64 → UInt64 → UInt64 → UInt64 →
    (Float × Float × UInt64 × SweepAcc)
  | 0, _, pp, pq, h, br, bm, bs, fb, zs, os => (pp, pq, h, ⟨br, bm, bs, fb, zs, os⟩)
  | fuel + 1, bits, pp, pq, h, br, bm, bs, fb, zs, os =>
    let x : Float := (Float32.ofBits bits).toFloat
    let p := c17LogisticF x
    let q := c17LogisticF (-x)
    let r := !(p >= 0.0 && p <= 1.0 && q >= 0.0 && q <= 1.0)
    let mo := !(p >= pp && q <= pq)
    let sy := !(((p + q) - 1.0).abs <= 200.0 * Float.ofBits 0x3CB0000000000000)
    let fb := if (r || mo || sy) && fb == 0xFFFFFFFFFFFFFFFF then bits.toUInt64 else fb
    let h := (h ^^^ p.toBits) * 0x00000100000001b3
    let h := (h ^^^ q.toBits) * 0x00000100000001b3
    c17Sweep fuel (bits + 1) p q h (if r then br + 1 else br) (if mo then bm + 1 else bm) (if sy then bs + 1 else bs) fb
      (if q == 0.0 then zs + 1 else zs) (if p == 1.0 then os + 1 else os)

def c17Step (args : List String) : String :=
  match args with
  | "logisticv" :: rest => withArgs pVec rest fun x => ok (showVec (x.map logistic))
  | "logit" :: rest => withArgs pFloat rest fun p => c17Opt (logit p)
  | "rt1" :: rest => withArgs pFloat rest fun x =>
      let p := logistic x
      match logit p with
      | some r => ok s!"{showFloat p} {showFloat r}"
      | none => panicked
  | "rt2" :: rest => withArgs pFloat rest fun p =>
      match logit p with
      | some q => ok s!"{showFloat q} {showFloat (logistic q)}"
      | none => panicked
  | "boxcox" :: rest => withArgs (do let x ← pFloat; let l ← pFloat; pure (x, l)) rest fun (x, l) =>
      c17Opt (boxcox x l)
  | "boxcoxs" :: rest =>
      withArgs (do let x ← pFloat; let l ← pFloat; let a ← pFloat; pure (x, l, a)) rest fun (x, l, a) =>
      c17Opt (boxcoxShifted x l a)
  | "softmax2" :: rest => withArgs (do let c ← pFloat; let x ← pVec; pure (c, x)) rest fun (c, x) =>
      ok s!"{showVec (softmax x)} {showVec (softmax (x.map fun v => v + c))}"
  | "binom" :: rest => withArgs (do let n ← pNat; let k ← pNat; pure (n, k)) rest fun (n, k) =>
      if n ≥ 2 ^ 64 ∨ k ≥ 2 ^ 64 then badOp
      else match binomCoeff n k with
        | .val c => ok (toString c)
        | .guard => ok "0"
        | .overflow => panicked
        | .underflow => panicked
  | "logsweep" :: rest => withArgs (do let a ← pNat; let b ← pNat; pure (a, b)) rest fun (a, b) =>
      if a > b ∨ b > 0x7f7fffff then badOp
      else
        let a32 : UInt32 := UInt32.ofNat a
        let x0 : Float := (Float32.ofBits a32).toFloat
        let negInf := Float.ofBits 0xFFF0000000000000
        let posInf := Float.ofBits 0x7FF0000000000000
        let (pp, pq, h, acc) := c17Sweep (b - a + 1) a32 negInf posInf 0xcbf29ce484222325 0 0 0 0xFFFFFFFFFFFFFFFF 0 0
        ok s!"{b - a + 1} {acc.badRange} {acc.badMono} {acc.badSymm} {acc.firstBad} {acc.zeros} {acc.ones} {h} {showFloat (logistic x0)} {showFloat (logistic (-x0))} {showFloat pp} {showFloat pq}"
  | "binomalt" :: rest => withArgs (do let n ← pNat; let k ← pNat; pure (n, k)) rest fun (n, k) =>
      if n ≥ 2 ^ 64 ∨ k ≥ 2 ^ 64 then badOp
      else match binomCoeffAlt Float n k with
        | some c => ok (toString c)
        | none => panicked
  | _ => badOp

def main (args : List String) : IO UInt32 := mainWith () (fun _ t => ((), c17Step t)) args
