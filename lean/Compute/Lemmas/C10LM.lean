import Compute.Model.Optim
import Mathlib.Tactic.Ring
import Mathlib.Tactic.Linarith
import Mathlib.Algebra.Order.Field.Basic
/-
C10 — Levenberg–Marquardt (`lmG` of `Model/Optim.lean`, generic in the evaluator) over a linearly
ordered field:

* `rho_pos_decreases`: with a non-negative predicted reduction the accept test `rho > 0` implies a
  strict decrease of the residual sum of squares;
* `lmBody_cases`: one pass of the loop body either leaves residual / `JᵀJ` / `Jᵀr` untouched (small
  step or rejected step) or is an accepted step whose stored quantities come from the new point;
* `lmBody_descent`, `lmLoop_descent`, `lmG_descent`: `rss` never increases, for every iteration count;
* `Belongs`, `lmStart_belongs`, `lmBody_belongs`, `lmLoop_belongs`: under the evaluator laws
  (`EvalLaws`: residuals and Jacobian are functions of the parameter values) the stored residual,
  `JᵀJ` and `Jᵀr` always belong to the current parameters;
* `lmFinish_cov`: the returned covariance is `rss/(n−p) · (JᵀJ)⁻¹` of the stored quantities.
-/
namespace Cv.C10
open Cv Cv.AD Cv.Opt

section lm
variable {α : Type} [Field α] [LinearOrder α] [IsStrictOrderedRing α] [Inhabited α] [BEq α]
  [Transc α] [FMax α]

/-- the residual sum of squares the code computes from the stored residuals: `res.dot(&res)` -/
def rss {σ : Type} (s : LMSt σ α) : α := dot8 s.res s.res

/-- `delta.t_dot(mu * &delta + jtr.data())` -/
def predOf (mu : α) (δ jtr : List α) : α := dot8 δ (List.zipWith (· + ·) (δ.map (mu * ·)) jtr)

theorem half_pos : (0 : α) < (half : α) := by
  unfold half
  have : (0 : α) < ((2 : Nat) : α) := by exact_mod_cast (by norm_num : (0 : Nat) < 2)
  exact div_pos one_pos this

/-- The accept test: if the predicted reduction is non-negative, `rho > 0` forces a strict decrease. -/
theorem rho_pos_decreases (a b pred : α) (hp : 0 ≤ pred) (h : 0 < (a - b) / (half * pred)) : b < a := by
  rcases eq_or_lt_of_le hp with h0 | hpos
  · rw [← h0] at h; simp at h
  · have hd : 0 < half * pred := mul_pos half_pos hpos
    have := (div_pos_iff_of_pos_right hd).mp h
    linarith

/-- "the predicted reduction of the step the solver returns is non-negative" at state `s` -/
def PredNonneg {σ : Type} (E : LMEval σ α) (s : LMSt σ α) : Prop :=
  ∀ δ, luSolveVec (damp (E.vals s.tp).length s.mu s.jtj) s.jtr = some δ → 0 ≤ predOf s.mu δ s.jtr

/-- outcome of one pass of the loop body -/
inductive BodyOutcome {σ : Type} (E : LMEval σ α) (s s' : LMSt σ α) : Prop
  /-- `‖δ‖ ≤ eps2(‖θ‖+eps2)`: stop, nothing else changes -/
  | small (h : s' = { s with stop := true })
  /-- `rho ≤ 0`: same parameters on a fresh tape, damping increased -/
  | rejected (h : s' = { s with tp := E.fresh s.tp, mu := s.mu * s.nu, nu := s.nu * ((2 : Nat) : α) })
  /-- `rho > 0`: the step `δ` returned by the solver was tried and accepted -/
  | accepted (δ : List α) (tp' : σ) (res' jac jtj jtr : List α)
      (hsolve : luSolveVec (damp (E.vals s.tp).length s.mu s.jtj) s.jtr = some δ)
      (htry : E.try_ s.tp δ = some (tp', res'))
      (hrho : 0 < (dot8 s.res s.res - dot8 res' res') / (half * predOf s.mu δ s.jtr))
      (hjac : E.jac tp' = some jac)
      (hjtj : jtjOf E.n jac = some jtj) (hjtr : jtrOf E.n jac res' = some jtr)
      (hres : s'.res = res') (hj1 : s'.jtj = jtj) (hj2 : s'.jtr = jtr)
      (htp : s'.tp = tp' ∨ s'.tp = E.fresh tp')

theorem lmBody_cases {σ : Type} (E : LMEval σ α) (h : LMHP α) (s s' : LMSt σ α)
    (hb : lmBody E h s = some s') : BodyOutcome E s s' := by
  unfold lmBody at hb
  simp only at hb
  split at hb
  · exact absurd hb (by simp)
  next δ hsolve =>
    split at hb
    · exact .small (by simpa using hb.symm)
    · split at hb
      · exact absurd hb (by simp)
      next tp' res' htry =>
        split at hb
        next hrho =>
          split at hb
          · exact absurd hb (by simp)
          next jac hjac =>
            split at hb
            · exact absurd hb (by simp)
            · split at hb
              next jtj jtr hjtj hjtr =>
                split at hb
                · simp only [Option.some.injEq] at hb
                  subst hb
                  exact .accepted δ tp' res' jac jtj jtr hsolve htry hrho hjac hjtj hjtr rfl rfl rfl (Or.inl rfl)
                · simp only [Option.some.injEq] at hb
                  subst hb
                  exact .accepted δ tp' res' jac jtj jtr hsolve htry hrho hjac hjtj hjtr rfl rfl rfl (Or.inr rfl)
              · exact absurd hb (by simp)
        · exact .rejected (by simpa using hb.symm)

/-- **An accepted step strictly decreases the residual sum of squares; any other pass leaves it
unchanged** (given a non-negative predicted reduction). -/
theorem lmBody_descent {σ : Type} (E : LMEval σ α) (h : LMHP α) (s s' : LMSt σ α)
    (hb : lmBody E h s = some s') (hp : PredNonneg E s) :
    (s'.res = s.res ∧ s'.jtj = s.jtj ∧ s'.jtr = s.jtr) ∨ rss s' < rss s := by
  rcases lmBody_cases E h s s' hb with h1 | h1 | ⟨δ, tp', res', jac, jtj, jtr, hsolve, htry, hrho, _, _, _, hres, _, _, _⟩
  · left; subst h1; exact ⟨rfl, rfl, rfl⟩
  · left; subst h1; exact ⟨rfl, rfl, rfl⟩
  · right
    unfold rss
    rw [hres]
    exact rho_pos_decreases _ _ _ (hp δ hsolve) hrho

theorem lmBody_rss_le {σ : Type} (E : LMEval σ α) (h : LMHP α) (s s' : LMSt σ α)
    (hb : lmBody E h s = some s') (hp : PredNonneg E s) : rss s' ≤ rss s := by
  rcases lmBody_descent E h s s' hb hp with ⟨h1, _, _⟩ | h1
  · unfold rss; rw [h1]
  · exact le_of_lt h1

/-- **Invariant `rss(θ_t) ≤ rss(θ₀)` for every iteration count**, relative to any loop invariant `Inv`
that guarantees a non-negative predicted reduction. -/
theorem lmLoop_descent {σ : Type} (E : LMEval σ α) (h : LMHP α) (Inv : LMSt σ α → Prop)
    (hpred : ∀ s, Inv s → PredNonneg E s)
    (hinv : ∀ s s', Inv s → lmBody E h s = some s' → Inv s')
    (fuel : Nat) (s s' : LMSt σ α) (hs : Inv s) (hl : lmLoop E h fuel s = some s') :
    rss s' ≤ rss s ∧ Inv s' := by
  induction fuel generalizing s with
  | zero =>
    simp only [lmLoop, Option.some.injEq] at hl
    subst hl; exact ⟨le_refl _, hs⟩
  | succ fuel ih =>
    simp only [lmLoop] at hl
    split at hl
    · simp only [Option.some.injEq] at hl
      subst hl; exact ⟨le_refl _, hs⟩
    · split at hl
      · exact absurd hl (by simp)
      next s1 hb =>
        have h1 := lmBody_rss_le E h s s1 hb (hpred s hs)
        have h2 := ih s1 (hinv s s1 hs hb) hl
        exact ⟨le_trans h2.1 h1, h2.2⟩

/-! ### the stored quantities belong to the current parameters -/

/-- Laws of an evaluator whose residuals and Jacobian are functions `R`, `Jf` of the parameter values
(true of `tapeEval` whenever the tape prefix does not influence values and gradients, i.e. in exact
arithmetic). -/
structure EvalLaws {σ : Type} (E : LMEval σ α) (R Jf : List α → List α) : Prop where
  init : ∀ θ tp res jac, E.init θ = some (tp, res, jac) → E.vals tp = θ ∧ res = R θ ∧ jac = Jf θ
  try_ : ∀ tp δ tp' res', E.try_ tp δ = some (tp', res') →
    E.vals tp' = List.zipWith (· + ·) (E.vals tp) δ ∧ res' = R (E.vals tp')
  jac : ∀ tp j, E.jac tp = some j → j = Jf (E.vals tp)
  fresh : ∀ tp, E.vals (E.fresh tp) = E.vals tp

/-- the stored residual, `JᵀJ` and `Jᵀr` are those of the current parameter values -/
def Belongs {σ : Type} (E : LMEval σ α) (R Jf : List α → List α) (s : LMSt σ α) : Prop :=
  s.res = R (E.vals s.tp) ∧
  jtjOf E.n (Jf (E.vals s.tp)) = some s.jtj ∧
  jtrOf E.n (Jf (E.vals s.tp)) (R (E.vals s.tp)) = some s.jtr

theorem lmStart_belongs {σ : Type} (E : LMEval σ α) (R Jf : List α → List α) (L : EvalLaws E R Jf)
    (h : LMHP α) (θ0 : List α) (s0 : LMSt σ α) (hs : lmStart E h θ0 = some s0) :
    Belongs E R Jf s0 ∧ E.vals s0.tp = θ0 := by
  unfold lmStart at hs
  split at hs
  · exact absurd hs (by simp)
  next tp res jac hinit =>
    obtain ⟨hv, hr, hj⟩ := L.init θ0 tp res jac hinit
    simp only at hs
    split at hs
    · exact absurd hs (by simp)
    · split at hs
      next jtj jtr h1 h2 =>
        simp only [Option.some.injEq] at hs
        subst hs
        subst hr hj
        exact ⟨⟨by rw [hv], by rw [hv]; exact h1, by rw [hv]; exact h2⟩, hv⟩
      · exact absurd hs (by simp)

theorem lmBody_belongs {σ : Type} (E : LMEval σ α) (R Jf : List α → List α) (L : EvalLaws E R Jf)
    (h : LMHP α) (s s' : LMSt σ α) (hB : Belongs E R Jf s) (hb : lmBody E h s = some s') :
    Belongs E R Jf s' := by
  rcases lmBody_cases E h s s' hb with h1 | h1 | ⟨δ, tp', res', jac, jtj, jtr, _, htry, _, hjac, hjtj, hjtr, hres, hj1, hj2, htp⟩
  · subst h1; exact hB
  · subst h1
    unfold Belongs at hB ⊢
    simp only [L.fresh]
    exact hB
  · obtain ⟨_, hr⟩ := L.try_ s.tp δ tp' res' htry
    have hj := L.jac tp' jac hjac
    have hv : E.vals s'.tp = E.vals tp' := by
      rcases htp with h2 | h2
      · rw [h2]
      · rw [h2, L.fresh]
    unfold Belongs
    rw [hv, hres, hj1, hj2, ← hr, ← hj]
    exact ⟨rfl, hjtj, hjtr⟩

theorem lmLoop_belongs {σ : Type} (E : LMEval σ α) (R Jf : List α → List α) (L : EvalLaws E R Jf)
    (h : LMHP α) (fuel : Nat) (s s' : LMSt σ α) (hB : Belongs E R Jf s)
    (hl : lmLoop E h fuel s = some s') : Belongs E R Jf s' := by
  induction fuel generalizing s with
  | zero =>
    simp only [lmLoop, Option.some.injEq] at hl
    subst hl; exact hB
  | succ fuel ih =>
    simp only [lmLoop] at hl
    split at hl
    · simp only [Option.some.injEq] at hl
      subst hl; exact hB
    · split at hl
      · exact absurd hl (by simp)
      next s1 hb => exact ih s1 (lmBody_belongs E R Jf L h s s1 hB hb) hl

/-- **The reported covariance**: `LM::optimize` returns the current parameter values and
`rss/(n−p) · (JᵀJ)⁻¹` computed from the stored residual and the stored `JᵀJ` — which, by
`lmLoop_belongs`, are those of the returned point. -/
theorem lmG_result {σ : Type} (E : LMEval σ α) (R Jf : List α → List α) (L : EvalLaws E R Jf)
    (h : LMHP α) (θ0 : List α) (k : Nat) (θ cov : List α) (hr : lmG E h θ0 k = some (θ, cov)) :
    ∃ jtj inv, jtjOf E.n (Jf θ) = some jtj ∧ invOf θ.length jtj = some inv ∧ θ.length ≤ E.n ∧
      cov = inv.map ((dot8 (R θ) (R θ) / ((E.n - θ.length : Nat) : α)) * ·) := by
  unfold lmG at hr
  split at hr
  · exact absurd hr (by simp)
  next s0 hs0 =>
    split at hr
    · exact absurd hr (by simp)
    next s hl =>
      have hB0 := (lmStart_belongs E R Jf L h θ0 s0 hs0).1
      have hB := lmLoop_belongs E R Jf L h k s0 s hB0 hl
      unfold lmFinish at hr
      simp only at hr
      split at hr
      · exact absurd hr (by simp)
      next hnp =>
        split at hr
        · exact absurd hr (by simp)
        next inv hinv =>
          simp only [Option.some.injEq, Prod.mk.injEq] at hr
          obtain ⟨h1, h2⟩ := hr
          obtain ⟨b1, b2, _⟩ := hB
          subst h1
          refine ⟨s.jtj, inv, b2, ?_, not_lt.mp hnp, ?_⟩
          · simpa using hinv
          · rw [← h2, b1]

end lm
end Cv.C10
