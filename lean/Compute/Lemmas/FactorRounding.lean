import Compute.Props.Rounding
import Compute.Lemmas.CholCorrect
import Compute.Lemmas.CholSolve
import Mathlib.Analysis.Real.Sqrt
import Mathlib.Algebra.Order.BigOperators.Group.Finset
/-
Rounding-error analysis of the Cholesky factorisation (`Cv.LA.cholLoops` / `Cv.LA.cholesky`) in the
standard model of floating-point arithmetic: the scalar type `Fl M` of `Lemmas/FlModel.lean` is given
the remaining operations the factorisations need (`<`, `≤`, `==`, `Transc` with a square root of
relative error `≤ u`), the Cholesky sweep is characterised cell by cell for *every* scalar type
(`cholLoops_cellsG`, no algebra), and each cell is analysed with the factor calculus
(`cell_bound`, `cell_div`, `cell_sub`, `cell_sqrt` → `cholLoops_backward_error`).  Also here: the
composition of a factorisation with two perturbed triangular solves (`compose_backward`, `γ_three`,
`residual_of_backward_mat`; Higham Thms 9.4 / 10.4), shared with the LU analysis of
`Lemmas/FactorRoundingLu.lean`.
-/
set_option linter.unusedSectionVars false
set_option linter.unusedVariables false
namespace Cv

/-! ### the scalar type `Fl M`: order, equality test, square root -/

/-- A square root with relative error at most `u` on the non-negative reals (the explicit assumption
on `f64::sqrt`; IEEE-754 requires `sqrt` to be correctly rounded, which is `FlSqrt.ofRnd`). -/
class FlSqrt (M : FlModel) where
  /-- the computed square root -/
  sqrtR : ℝ → ℝ
  sqrt_std : ∀ x : ℝ, 0 ≤ x → ∃ δ : ℝ, |δ| ≤ M.u ∧ sqrtR x = Real.sqrt x * (1 + δ)

/-- correctly rounded square root -/
@[reducible] noncomputable def FlSqrt.ofRnd (M : FlModel) : FlSqrt M where
  sqrtR := fun x => M.rnd (Real.sqrt x)
  sqrt_std := fun x _ => M.std (Real.sqrt x)

namespace Fl
variable {M : FlModel}

instance : LT (Fl M) := ⟨fun a b => a.val < b.val⟩
instance : LE (Fl M) := ⟨fun a b => a.val ≤ b.val⟩
noncomputable instance : DecidableLT (Fl M) := fun a b => Classical.propDecidable (a.val < b.val)
noncomputable instance : DecidableLE (Fl M) := fun a b => Classical.propDecidable (a.val ≤ b.val)
noncomputable instance : BEq (Fl M) := ⟨fun a b => @decide (a.val = b.val) (Classical.propDecidable _)⟩

theorem lt_def (a b : Fl M) : a < b ↔ a.val < b.val := Iff.rfl
theorem le_def (a b : Fl M) : a ≤ b ↔ a.val ≤ b.val := Iff.rfl
theorem beq_def (a b : Fl M) : (a == b) = true ↔ a.val = b.val := by
  show @decide (a.val = b.val) (Classical.propDecidable _) = true ↔ _
  simp

instance : LawfulBEq (Fl M) where
  rfl := by intro a; exact (beq_def a a).mpr rfl
  eq_of_beq := by intro a b h; exact Fl.ext ((beq_def a b).mp h)

/-- `Transc (Fl M)`: `sqrt` has relative error `≤ u`, `abs` is exact; the remaining fields are not used
by the linear-algebra models and are placeholders. -/
noncomputable instance [FlSqrt M] : Transc (Fl M) where
  sqrt a := ⟨FlSqrt.sqrtR (M := M) a.val⟩
  abs a := ⟨|a.val|⟩
  exp a := a
  ln a := a
  pow a _ := a
  sin a := a
  cos a := a
  tan a := a
  floor a := a
  ceil a := a

@[simp] theorem sqrt_val [FlSqrt M] (a : Fl M) : (Transc.sqrt a).val = FlSqrt.sqrtR (M := M) a.val := rfl
@[simp] theorem abs_val [FlSqrt M] (a : Fl M) : (Transc.abs a).val = |a.val| := rfl

theorem isNan_false (a : Fl M) : LA.isNan a = false := by
  unfold LA.isNan
  simp

end Fl

namespace FactorRounding
open Cv.FlModel Cv.LA Cv.Rounding Finset

variable {M : FlModel}

/-! ### the common shape of one cell of a factorisation -/

/-- If `A = T·g + Σ Pₖ·Fₖ` with rounding factors `g`, `Fₖ` of at most `N` roundings then
`|Σ Pₖ + T − A| ≤ γ_N (Σ|Pₖ| + |T|)`. -/
theorem cell_bound (N m : Nat) (P F : Nat → ℝ) (T g A : ℝ) (d e : Nat)
    (hF : ∀ k, M.Fac d (F k)) (hg : M.Fac e g) (hd : d ≤ N) (he : e ≤ N) (hN : N * M.u < 1)
    (h : A = T * g + ∑ k ∈ range m, P k * F k) :
    |∑ k ∈ range m, P k + T - A| ≤ M.γ N * (∑ k ∈ range m, |P k| + |T|) := by
  have e1 : ∑ k ∈ range m, P k + T - A = ∑ k ∈ range m, -(P k * (F k - 1)) + -(T * (g - 1)) := by
    rw [h, Finset.sum_neg_distrib]
    have : ∑ k ∈ range m, P k * (F k - 1) = ∑ k ∈ range m, P k * F k - ∑ k ∈ range m, P k := by
      rw [← Finset.sum_sub_distrib]
      exact Finset.sum_congr rfl fun k _ => by ring
    rw [this]; ring
  rw [e1, mul_add]
  refine le_trans (abs_add_le _ _) (add_le_add ?_ ?_)
  · refine le_trans (Finset.abs_sum_le_sum_abs _ _) ?_
    rw [Finset.mul_sum]
    apply Finset.sum_le_sum
    intro k _
    rw [abs_neg]
    exact delta_bound (hF k) hd hN _
  · rw [abs_neg]
    exact delta_bound hg he hN _

/-- index form of a perturbed sum, as a `Finset` sum -/
theorem pert_finset {k : Nat} {v : ℝ} {xs : List ℝ} (h : M.Pert k v xs) :
    ∃ F : Nat → ℝ, (∀ j, M.Fac k (F j)) ∧ v = ∑ j ∈ range xs.length, xs.getD j 0 * F j := by
  obtain ⟨F, hF, hv⟩ := h.exists_fun
  exact ⟨F, hF, by rw [hv, list_sum_range]⟩

/-- `x = fl(fl(a − s)/d)` with `s` a perturbed sum: `a = x·d·g + Σ xsₖ Fₖ`, `g` two roundings -/
theorem cell_div {D : Nat} (a s d x : Fl M) (xs : List ℝ) (hs : M.Pert D s.val xs) (hd : d.val ≠ 0)
    (hx : x = (a - s) / d) :
    ∃ g, M.Fac 2 g ∧ ∃ F : Nat → ℝ, (∀ k, M.Fac D (F k)) ∧
      a.val = x.val * d.val * g + ∑ k ∈ range xs.length, xs.getD k 0 * F k := by
  obtain ⟨F, hF, hv⟩ := pert_finset hs
  obtain ⟨δ1, hδ1, h1⟩ := M.std (a.val - s.val)
  obtain ⟨δ2, hδ2, h2⟩ := M.std (M.rnd (a.val - s.val) / d.val)
  have hf1 := Fac.one_add hδ1
  have hf2 := Fac.one_add hδ2
  refine ⟨((1 + δ1) * (1 + δ2))⁻¹, (hf1.mul hf2).inv, F, hF, ?_⟩
  have hxv : x.val = (a.val - s.val) * (1 + δ1) / d.val * (1 + δ2) := by
    rw [hx]
    show M.rnd (M.rnd (a.val - s.val) / d.val) = _
    rw [h2, h1]
  rw [← hv, hxv]
  have p1 := hf1.pos.ne'
  have p2 := hf2.pos.ne'
  field_simp
  ring

/-- `x = fl(a − s)` with `s` a perturbed sum: `a = x·g + Σ xsₖ Fₖ`, `g` one rounding -/
theorem cell_sub {D : Nat} (a s x : Fl M) (xs : List ℝ) (hs : M.Pert D s.val xs) (hx : x = a - s) :
    ∃ g, M.Fac 1 g ∧ ∃ F : Nat → ℝ, (∀ k, M.Fac D (F k)) ∧
      a.val = x.val * g + ∑ k ∈ range xs.length, xs.getD k 0 * F k := by
  obtain ⟨F, hF, hv⟩ := pert_finset hs
  obtain ⟨δ1, hδ1, h1⟩ := M.std (a.val - s.val)
  have hf1 := Fac.one_add hδ1
  refine ⟨(1 + δ1)⁻¹, hf1.inv, F, hF, ?_⟩
  have hxv : x.val = (a.val - s.val) * (1 + δ1) := by
    rw [hx]; exact h1
  rw [← hv, hxv]
  have p1 := hf1.pos.ne'
  field_simp
  ring

/-- `x = sqrt(fl(a − s))` with a positive radicand: `a = x²·g + Σ xsₖ Fₖ`, `g` three roundings -/
theorem cell_sqrt [FlSqrt M] {D : Nat} (a s x : Fl M) (xs : List ℝ) (hs : M.Pert D s.val xs)
    (hpos : 0 < (a - s).val) (hx : x = Transc.sqrt (a - s)) :
    0 < x.val ∧ ∃ g, M.Fac 3 g ∧ ∃ F : Nat → ℝ, (∀ k, M.Fac D (F k)) ∧
      a.val = x.val * x.val * g + ∑ k ∈ range xs.length, xs.getD k 0 * F k := by
  obtain ⟨F, hF, hv⟩ := pert_finset hs
  obtain ⟨δ1, hδ1, h1⟩ := M.std (a.val - s.val)
  obtain ⟨δ2, hδ2, h2⟩ := FlSqrt.sqrt_std (M := M) (a - s).val hpos.le
  have hf1 := Fac.one_add hδ1
  have hf2 := Fac.one_add hδ2
  have hxv : x.val = Real.sqrt ((a - s).val) * (1 + δ2) := by
    rw [hx]; exact h2
  have hsq : Real.sqrt ((a - s).val) * Real.sqrt ((a - s).val) = (a.val - s.val) * (1 + δ1) := by
    rw [Real.mul_self_sqrt hpos.le]; exact h1
  refine ⟨?_, ((1 + δ1) * ((1 + δ2) * (1 + δ2)))⁻¹, (hf1.mul (hf2.mul hf2)).inv, F, hF, ?_⟩
  · rw [hxv]; exact mul_pos (Real.sqrt_pos.mpr hpos) hf2.pos
  · have hxx : x.val * x.val = (a.val - s.val) * (1 + δ1) * ((1 + δ2) * (1 + δ2)) := by
      rw [hxv, ← hsq]; ring
    rw [← hv, hxx]
    have p1 := hf1.pos.ne'
    have p2 := hf2.pos.ne'
    field_simp
    ring

/-! ### the Cholesky sweep, cell by cell, for every scalar type -/

section generic
variable {α : Type} [Add α] [Sub α] [Mul α] [Div α] [Zero α] [LE α] [DecidableLE α] [BEq α] [Transc α]

/-- two lists agree on a segment when they agree entrywise there -/
theorem seg_congr (l l' : List α) (p m : Nat) (hl : l'.length = l.length) (hp : p + m ≤ l.length)
    (h : ∀ k, k < m → rd l' (p + k) = rd l (p + k)) : (l'.drop p).take m = (l.drop p).take m := by
  apply List.ext_getElem
  · simp [hl]
  · intro k h1 h2
    have hk : k < m := by
      simp only [List.length_take, List.length_drop] at h1; omega
    have := h k hk
    rw [rd_eq_getElem _ _ (by omega), rd_eq_getElem _ _ (by omega)] at this
    simpa using this

/-- the prefix dot product of rows `c` and `r` (length `c`) that cell `(r,c)` subtracts -/
def cholDot (n : Nat) (l : List α) (r c : Nat) : α :=
  dot8 ((l.drop (c * n)).take c) ((l.drop (r * n)).take c)

theorem cholDot_congr (n : Nat) (l l' : List α) (r c : Nat) (hl : l'.length = l.length)
    (hr : r * n + c ≤ l.length) (hc : c * n + c ≤ l.length)
    (h1 : ∀ k, k < c → rd l' (r * n + k) = rd l (r * n + k))
    (h2 : ∀ k, k < c → rd l' (c * n + k) = rd l (c * n + k)) : cholDot n l' r c = cholDot n l r c := by
  unfold cholDot
  rw [seg_congr l l' (c * n) c hl hc h2, seg_congr l l' (r * n) c hl hr h1]

/-- cell `(r,c)`, `c ≤ r`, holds the value the source assigns to it, computed from `l` itself -/
def CellG (n : Nat) (a l : List α) (r c : Nat) : Prop :=
  if r = c then ¬ (rd a (r * n + r) - cholDot n l r r ≤ 0) ∧
      rd l (r * n + r) = Transc.sqrt (rd a (r * n + r) - cholDot n l r r)
  else rd l (r * n + c) = (rd a (r * n + c) - cholDot n l r c) / rd l (c * n + c)

theorem CellG_congr (n : Nat) (a l l' : List α) (r c : Nat) (hl : l'.length = l.length)
    (hr : r * n + c ≤ l.length) (hc : c * n + c ≤ l.length)
    (h1 : ∀ k, k ≤ c → rd l' (r * n + k) = rd l (r * n + k))
    (h2 : ∀ k, k ≤ c → rd l' (c * n + k) = rd l (c * n + k)) (h : CellG n a l r c) :
    CellG n a l' r c := by
  have hdot : cholDot n l' r c = cholDot n l r c :=
    cholDot_congr n l l' r c hl hr hc (fun k hk => h1 k (by omega)) (fun k hk => h2 k (by omega))
  unfold CellG at *
  by_cases hrc : r = c
  · subst hrc
    simp only [if_true] at h ⊢
    rw [hdot, h1 r (Nat.le_refl r)]
    exact h
  · simp only [hrc, if_false] at h ⊢
    rw [hdot, h1 c (Nat.le_refl c), h2 c (Nat.le_refl c)]
    exact h

/-- loop invariant of the sweep: shape, and all cells before `(i,j)` in row-major order of the lower
triangle are final -/
def WrittenG (n : Nat) (a l : List α) (i j : Nat) : Prop :=
  l.length = n * n ∧ (∀ r c, r < n → c < n → r < c → rd l (r * n + c) = 0) ∧
    ∀ r c, c ≤ r → r < n → (r < i ∨ (r = i ∧ c < j)) → CellG n a l r c

theorem cholCell_writtenG (n : Nat) (a l l' : List α) (i j : Nat) (hi : i < n) (hj : j ≤ i)
    (hw : WrittenG n a l i j) (h : cholCell n a l i j = some l') : WrittenG n a l' i (j + 1) := by
  obtain ⟨hlen, hup, hcells⟩ := hw
  have hjn : j < n := by omega
  have hidx : i * n + j < l.length := by rw [hlen, Nat.mul_comm n n]; exact idx_lt' hjn hi
  have hrow : ∀ t c, t < n → c < n → t * n + c ≤ l.length := by
    intro t c ht hc
    have : t * n + c < l.length := by rw [hlen, Nat.mul_comm n n]; exact idx_lt' hc ht
    omega
  have hset : ∃ v, l' = l.set (i * n + j) v ∧
      (if i = j then ¬ (rd a (i * n + i) - cholDot n l i i ≤ 0) ∧
          v = Transc.sqrt (rd a (i * n + i) - cholDot n l i i)
        else v = (rd a (i * n + j) - cholDot n l i j) / rd l (j * n + j)) := by
    unfold cholCell at h
    by_cases hij : i = j
    · subst hij
      simp only [if_true] at h ⊢
      split at h
      · cases h
      · rename_i hp
        cases h
        exact ⟨_, rfl, (not_or.mp hp).1, rfl⟩
    · simp only [hij, if_false, Option.some.injEq] at h ⊢
      subst h
      exact ⟨_, rfl, rfl⟩
  obtain ⟨v, hl', hv⟩ := hset
  subst hl'
  have hframe : ∀ r c, c < n → ¬(r = i ∧ c = j) →
      rd (l.set (i * n + j) v) (r * n + c) = rd l (r * n + c) :=
    fun r c hc hne => rd_set_cell l n i j r c v hjn hc hne hidx
  have hlen' : (l.set (i * n + j) v).length = l.length := by simp
  refine ⟨by simp [hlen], ?_, ?_⟩
  · intro r c hr hc hrc
    rw [hframe r c hc (by omega)]
    exact hup r c hr hc hrc
  intro r c hcr hrn hlt
  by_cases hnew : r = i ∧ c = j
  · obtain ⟨hr, hc⟩ := hnew
    subst hr; subst hc
    have hv0 : rd (l.set (r * n + c) v) (r * n + c) = v := by rw [rd_set _ _ _ _ hidx, if_pos rfl]
    have hdot : cholDot n (l.set (r * n + c) v) r c = cholDot n l r c :=
      cholDot_congr n l _ r c hlen' (hrow r c hrn hjn) (hrow c c hjn hjn)
        (fun k hk => hframe r k (by omega) (by omega)) (fun k hk => hframe c k (by omega) (by omega))
    unfold CellG
    by_cases hrc : r = c
    · subst hrc
      simp only [if_true] at hv ⊢
      rw [hdot, hv0]
      exact hv
    · simp only [hrc, if_false] at hv ⊢
      rw [hdot, hv0, hframe c c (by omega) (by omega)]
      exact hv
  · have hold : CellG n a l r c := by
      apply hcells r c hcr hrn
      rcases hlt with h1 | ⟨h1, h2⟩
      · exact Or.inl h1
      · refine Or.inr ⟨h1, ?_⟩
        rcases Nat.lt_succ_iff_lt_or_eq.mp h2 with h3 | h3
        · exact h3
        · exact absurd ⟨h1, h3⟩ hnew
    have hcn : c < n := by omega
    apply CellG_congr n a l _ r c hlen' (hrow r c hrn hcn) (hrow c c hcn hcn) _ _ hold
    · intro k hk
      apply hframe r k (by omega)
      rintro ⟨h1, h2⟩
      rcases hlt with h3 | ⟨h3, h4⟩
      · omega
      · apply hnew; constructor
        · exact h1
        · omega
    · intro k hk
      apply hframe c k (by omega)
      rintro ⟨h1, h2⟩
      rcases hlt with h3 | ⟨h3, h4⟩
      · omega
      · omega

theorem cholCells_writtenG (n : Nat) (a : List α) (i : Nat) (hi : i < n) (m : Nat) (hm : m ≤ i + 1)
    (l l' : List α) (hw : WrittenG n a l i 0)
    (h : (List.range m).foldlM (fun l j => cholCell n a l i j) l = some l') : WrittenG n a l' i m := by
  induction m generalizing l' with
  | zero => simp at h; subst h; exact hw
  | succ m ih =>
    rw [List.range_succ, List.foldlM_append] at h
    cases h1 : (List.range m).foldlM (fun l j => cholCell n a l i j) l with
    | none => simp [h1] at h
    | some l1 =>
      simp only [h1, Option.bind_eq_bind, Option.bind_some, List.foldlM_cons, List.foldlM_nil] at h
      cases hc : cholCell n a l1 i m with
      | none => simp [hc] at h
      | some l2 =>
        simp only [hc, Option.bind_some, Option.pure_def, Option.some.injEq] at h
        subst h
        exact cholCell_writtenG n a l1 l2 i m hi (by omega) (ih (by omega) l1 h1) hc

theorem cholRow_writtenG (n : Nat) (a l l' : List α) (i : Nat) (hi : i < n) (hw : WrittenG n a l i 0)
    (h : cholRow n a l i = some l') : WrittenG n a l' (i + 1) 0 := by
  obtain ⟨hlen, hup, hcells⟩ := cholCells_writtenG n a i hi (i + 1) (Nat.le_refl _) l l' hw h
  refine ⟨hlen, hup, fun r c hcr hrn hlt => hcells r c hcr hrn ?_⟩
  rcases hlt with h1 | ⟨_, h2⟩
  · rcases Nat.lt_succ_iff_lt_or_eq.mp h1 with h3 | h3
    · exact Or.inl h3
    · exact Or.inr ⟨h3, by omega⟩
  · omega

theorem cholRows_writtenG (n : Nat) (a : List α) (k : Nat) (hk : k ≤ n) (l0 l' : List α)
    (hw : WrittenG n a l0 0 0)
    (h : (List.range k).foldlM (fun l i => cholRow n a l i) l0 = some l') : WrittenG n a l' k 0 := by
  induction k generalizing l' with
  | zero => simp at h; subst h; exact hw
  | succ k ih =>
    rw [List.range_succ, List.foldlM_append] at h
    cases h1 : (List.range k).foldlM (fun l i => cholRow n a l i) l0 with
    | none => simp [h1] at h
    | some l1 =>
      simp only [h1, Option.bind_eq_bind, Option.bind_some, List.foldlM_cons, List.foldlM_nil] at h
      cases hc : cholRow n a l1 k with
      | none => simp [hc] at h
      | some l2 =>
        simp only [hc, Option.bind_some, Option.pure_def, Option.some.injEq] at h
        subst h
        exact cholRow_writtenG n a l1 l2 k (by omega) (ih (by omega) l1 h1) hc

/-- **Every cell of the returned Cholesky factor satisfies its defining equation in the arithmetic of
the scalar type** (no algebraic law is used): diagonal cells are `sqrt` of a pivot that is not `≤ 0`,
cells below the diagonal are `(a_rc − dot(l_c, l_r)) / l_cc`, cells above it are the initial `0`. -/
theorem cholLoops_cellsG (n : Nat) (a l : List α) (h : cholLoops n a = some l) :
    l.length = n * n ∧ (∀ r c, r < n → c < n → r < c → rd l (r * n + c) = 0) ∧
      ∀ r c, c ≤ r → r < n → CellG n a l r c := by
  have h0 : WrittenG n a (List.replicate (n * n) (0 : α)) 0 0 := by
    refine ⟨by simp, ?_, fun r c _ _ hlt => by omega⟩
    intro r c hr hc _
    simp only [rd, List.getD_eq_getElem?_getD, List.getElem?_replicate]
    split <;> rfl
  obtain ⟨hlen, hup, hcells⟩ := cholRows_writtenG n a n (Nat.le_refl n) _ l h0 h
  exact ⟨hlen, hup, fun r c hcr hrn => hcells r c hcr hrn (Or.inl hrn)⟩

theorem tryCholesky_someG [LT α] [DecidableLT α] [One α] [NatCast α] (a l : List α) (n : Nat)
    (ha : a.length = n * n) (h : tryCholesky a = some (some l)) : cholLoops n a = some l := by
  unfold tryCholesky at h
  cases hsym : LA.isSymmetric a with
  | none => simp [hsym] at h
  | some s =>
    cases s with
    | false => simp [hsym] at h
    | true =>
      simp only [hsym, ha, isSquare_sq, Option.bind_eq_bind, Option.bind_some, Bool.not_true,
        Bool.false_eq_true, if_false, Option.pure_def, Option.some.injEq] at h
      exact h

theorem cholesky_someG [LT α] [DecidableLT α] [One α] [NatCast α] (a l : List α) (n : Nat)
    (ha : a.length = n * n) (h : LA.cholesky a = some l) : cholLoops n a = some l := by
  apply tryCholesky_someG a l n ha
  unfold LA.cholesky at h
  cases ht : tryCholesky a with
  | none => simp [ht] at h
  | some o => rw [ht] at h; simpa using h

end generic

/-! ### Cholesky in rounded arithmetic -/

section chol
variable [FlSqrt M]

/-- real value of entry `(i,c)` of a row-major `n × n` list of floating-point numbers -/
def ev (n : Nat) (l : List (Fl M)) (i c : Nat) : ℝ := (rd l (i * n + c)).val

theorem ev_def (n : Nat) (l : List (Fl M)) (i c : Nat) : ev n l i c = (rd l (i * n + c)).val := rfl

/-- the prefix dot product of a cell, as a perturbed sum of the exact products -/
theorem cholDot_pert (n : Nat) (l : List (Fl M)) (hlen : l.length = n * n) (r c : Nat) (hcr : c ≤ r)
    (hrn : r < n) :
    ∃ xs : List ℝ, xs.length = c ∧ (∀ k, k < c → xs.getD k 0 = ev n l c k * ev n l r k) ∧
      M.Pert (c + 1) (cholDot n l r c).val xs := by
  have hcn : c < n := by omega
  have h1 : c * n + c ≤ l.length := by
    have : c * n + c < l.length := by rw [hlen, Nat.mul_comm n n]; exact idx_lt' hcn hcn
    omega
  have h2 : r * n + c ≤ l.length := by
    have : r * n + c < l.length := by rw [hlen, Nat.mul_comm n n]; exact idx_lt' hcn hrn
    omega
  have hl1 : ((l.drop (c * n)).take c).length = c := by simp; omega
  have hl2 : ((l.drop (r * n)).take c).length = c := by simp; omega
  have hpl : (prods ((l.drop (c * n)).take c) ((l.drop (r * n)).take c)).length = c := by
    simp [prods, hl1, hl2]
  refine ⟨prods ((l.drop (c * n)).take c) ((l.drop (r * n)).take c), hpl, ?_, ?_⟩
  · intro k hk
    rw [prods_getD _ _ k (by omega) (by omega), rd_take _ _ _ hk, rd_take _ _ _ hk, rd_drop, rd_drop]
    rfl
  · have := dot8_pert ((l.drop (c * n)).take c) ((l.drop (r * n)).take c)
    rw [hpl] at this
    exact this.mono (Nat.add_le_add_right (sumDepth_le c) 1)

/-- **one cell of the Cholesky factor**: `|(L̂L̂ᵀ)_rc − a_rc| ≤ γ_N (|L̂||L̂ᵀ|)_rc`, `N = max n 3`
(the sums written up to the diagonal cell) -/
theorem chol_cell_bound (n N : Nat) (a l : List (Fl M)) (hlen : l.length = n * n) (r c : Nat)
    (hcr : c ≤ r) (hrn : r < n) (hdiag : (rd l (c * n + c)).val ≠ 0) (hcell : CellG n a l r c)
    (hN3 : 3 ≤ N) (hNn : n ≤ N) (hu : N * M.u < 1) :
    |∑ k ∈ range c, ev n l r k * ev n l c k + ev n l r c * ev n l c c - ev n a r c| ≤
      M.γ N * (∑ k ∈ range c, |ev n l r k| * |ev n l c k| + |ev n l r c| * |ev n l c c|) := by
  obtain ⟨xs, hxl, hxs, hp⟩ := cholDot_pert n l hlen r c hcr hrn
  have key : ∃ (g : ℝ) (F : Nat → ℝ), M.Fac 3 g ∧ (∀ k, M.Fac (c + 1) (F k)) ∧
      ev n a r c = ev n l r c * ev n l c c * g + ∑ k ∈ range c, (ev n l r k * ev n l c k) * F k := by
    unfold CellG at hcell
    by_cases hrc : r = c
    · subst hrc
      simp only [if_true] at hcell
      obtain ⟨hpos, hx⟩ := hcell
      have hpos' : 0 < (rd a (r * n + r) - cholDot n l r r).val := not_le.mp hpos
      obtain ⟨_, g, hg, F, hF, he⟩ := cell_sqrt _ _ _ xs hp hpos' hx
      refine ⟨g, F, hg, hF, ?_⟩
      rw [ev_def, he, hxl]
      congr 1
      apply Finset.sum_congr rfl
      intro k hk
      rw [hxs k (Finset.mem_range.mp hk)]
    · simp only [hrc, if_false] at hcell
      obtain ⟨g, hg, F, hF, he⟩ := cell_div _ _ _ _ xs hp hdiag hcell
      refine ⟨g, F, hg.mono (by omega), hF, ?_⟩
      rw [ev_def, he, hxl]
      congr 1
      apply Finset.sum_congr rfl
      intro k hk
      rw [hxs k (Finset.mem_range.mp hk)]
      ring
  obtain ⟨g, F, hg, hF, he⟩ := key
  have := cell_bound (M := M) N c (fun k => ev n l r k * ev n l c k) F (ev n l r c * ev n l c c) g
    (ev n a r c) (c + 1) 3 hF hg (by omega) hN3 hu he
  simpa only [abs_mul] using this

/-- the diagonal of the computed factor is positive -/
theorem chol_diag_pos (n : Nat) (a l : List (Fl M)) (hlen : l.length = n * n) (r : Nat) (hrn : r < n)
    (hcell : CellG n a l r r) : 0 < ev n l r r := by
  obtain ⟨xs, hxl, hxs, hp⟩ := cholDot_pert n l hlen r r (Nat.le_refl r) hrn
  unfold CellG at hcell
  simp only [if_true] at hcell
  obtain ⟨hpos, hx⟩ := hcell
  exact (cell_sqrt _ _ _ xs hp (not_le.mp hpos) hx).1

/-- sums of a lower-triangular product stop at the diagonal -/
theorem sum_lower (n c : Nat) (hc : c < n) (f : Nat → ℝ) (hz : ∀ k, c < k → k < n → f k = 0) :
    ∑ k ∈ range n, f k = ∑ k ∈ range c, f k + f c := by
  rw [← Finset.sum_range_succ]
  symm
  apply Finset.sum_subset (Finset.range_subset_range.mpr (by omega))
  intro k hk hk'
  have h1 := Finset.mem_range.mp hk
  have h2 : ¬ k < c + 1 := fun hh => hk' (Finset.mem_range.mpr hh)
  exact hz k (by omega) h1

/-- **Backward error of the Cholesky sweep** (Higham Thm 10.3; standard model, `sqrt` of relative error
`≤ u`).  Whenever the sweep returns `L̂`: `L̂` is lower triangular with positive diagonal and
`L̂·L̂ᵀ = A + ΔA`, `|ΔA| ≤ γ_{max n 3}·|L̂||L̂ᵀ|` entrywise on the lower triangle (the part of `A` that
is read). -/
theorem cholLoops_backward_error (n : Nat) (a l : List (Fl M)) (h : cholLoops n a = some l)
    (hu : (max n 3 : Nat) * M.u < 1) :
    l.length = n * n ∧ (∀ r c, r < n → c < n → r < c → ev n l r c = 0) ∧ (∀ r, r < n → 0 < ev n l r r) ∧
    ∀ i j, j ≤ i → i < n →
      |∑ k ∈ range n, ev n l i k * ev n l j k - ev n a i j| ≤
        M.γ (max n 3) * ∑ k ∈ range n, |ev n l i k| * |ev n l j k| := by
  obtain ⟨hlen, hup, hcells⟩ := cholLoops_cellsG n a l h
  have hup' : ∀ r c, r < n → c < n → r < c → ev n l r c = 0 := by
    intro r c hr hc hrc
    rw [ev_def, hup r c hr hc hrc]; rfl
  have hpos : ∀ r, r < n → 0 < ev n l r r :=
    fun r hr => chol_diag_pos n a l hlen r hr (hcells r r (Nat.le_refl r) hr)
  refine ⟨hlen, hup', hpos, ?_⟩
  intro i j hji hi
  have hj : j < n := by omega
  rw [sum_lower n j hj (fun k => ev n l i k * ev n l j k)
      (fun k h1 h2 => by show ev n l i k * ev n l j k = 0; rw [hup' j k hj h2 h1, mul_zero]),
    sum_lower n j hj (fun k => |ev n l i k| * |ev n l j k|)
      (fun k h1 h2 => by show |ev n l i k| * |ev n l j k| = 0; rw [hup' j k hj h2 h1, abs_zero, mul_zero])]
  exact chol_cell_bound n (max n 3) a l hlen i j hji hi (hpos j hj).ne' (hcells i j hji hi)
    (by omega) (by omega) hu

end chol

/-! ### composing a factorisation with two triangular solves (Higham Thm 9.4 / 10.4) -/

section compose

/-- `γ_a + γ_b + γ_c + γ_b γ_c ≤ γ_{a+b+c}` -/
theorem γ_three (a b c : Nat) (h : ((a + b + c : Nat) : ℝ) * M.u < 1) :
    M.γ a + M.γ b + M.γ c + M.γ b * M.γ c ≤ M.γ (a + b + c) := by
  have hu := M.u_nonneg
  have hbc : ((b + c : Nat) : ℝ) * M.u < 1 :=
    lt_of_le_of_lt (mul_le_mul_of_nonneg_right (Nat.cast_le.mpr (by omega)) hu) h
  have ha : (a : ℝ) * M.u < 1 :=
    lt_of_le_of_lt (mul_le_mul_of_nonneg_right (Nat.cast_le.mpr (by omega)) hu) h
  have h1 := M.γ_add_le b c hbc
  have h2 := M.γ_add_le a (b + c) (by rw [← Nat.add_assoc]; exact h)
  have h3 := M.γ_nonneg a ha
  have h4 := M.γ_nonneg (b + c) hbc
  rw [← Nat.add_assoc] at h2
  nlinarith [mul_nonneg h3 h4]

/-- **Composition.**  If `L·U = A + ΔA₀` with `|ΔA₀| ≤ g₀|L||U|` and the computed `y`, `x` solve the
perturbed triangular systems `(L+E₁)y = b`, `(U+E₂)x = y` with `|E₁| ≤ g₁|L|`, `|E₂| ≤ g₂|U|`, then
`(A + ΔA)x = b` with `|ΔA| ≤ (g₀ + g₁ + g₂ + g₁g₂)|L||U|`. -/
theorem compose_backward (n : Nat) (A L U E₁ E₂ : Nat → Nat → ℝ) (x y b : Nat → ℝ) (g₀ g₁ g₂ : ℝ)
    (hg₁ : 0 ≤ g₁)
    (hfac : ∀ i m, i < n → m < n →
      |∑ j ∈ range n, L i j * U j m - A i m| ≤ g₀ * ∑ j ∈ range n, |L i j| * |U j m|)
    (hE₁ : ∀ i j, i < n → j < n → |E₁ i j| ≤ g₁ * |L i j|)
    (hE₂ : ∀ j m, j < n → m < n → |E₂ j m| ≤ g₂ * |U j m|)
    (h1 : ∀ i, i < n → ∑ j ∈ range n, (L i j + E₁ i j) * y j = b i)
    (h2 : ∀ j, j < n → ∑ m ∈ range n, (U j m + E₂ j m) * x m = y j) :
    ∃ ΔA : Nat → Nat → ℝ,
      (∀ i m, i < n → m < n →
        |ΔA i m| ≤ (g₀ + g₁ + g₂ + g₁ * g₂) * ∑ j ∈ range n, |L i j| * |U j m|) ∧
      ∀ i, i < n → ∑ m ∈ range n, (A i m + ΔA i m) * x m = b i := by
  refine ⟨fun i m => ∑ j ∈ range n, (L i j + E₁ i j) * (U j m + E₂ j m) - A i m, ?_, ?_⟩
  · intro i m hi hm
    have e : ∑ j ∈ range n, (L i j + E₁ i j) * (U j m + E₂ j m) - A i m =
        (∑ j ∈ range n, L i j * U j m - A i m) +
          ∑ j ∈ range n, (L i j * E₂ j m + E₁ i j * U j m + E₁ i j * E₂ j m) := by
      have : ∑ j ∈ range n, (L i j + E₁ i j) * (U j m + E₂ j m) =
          ∑ j ∈ range n, L i j * U j m +
            ∑ j ∈ range n, (L i j * E₂ j m + E₁ i j * U j m + E₁ i j * E₂ j m) := by
        rw [← Finset.sum_add_distrib]
        exact Finset.sum_congr rfl fun j _ => by ring
      rw [this]; ring
    show |∑ j ∈ range n, (L i j + E₁ i j) * (U j m + E₂ j m) - A i m| ≤ _
    rw [e]
    refine le_trans (abs_add_le _ _) ?_
    have hb : |∑ j ∈ range n, (L i j * E₂ j m + E₁ i j * U j m + E₁ i j * E₂ j m)| ≤
        (g₁ + g₂ + g₁ * g₂) * ∑ j ∈ range n, |L i j| * |U j m| := by
      refine le_trans (Finset.abs_sum_le_sum_abs _ _) ?_
      rw [Finset.mul_sum]
      apply Finset.sum_le_sum
      intro j hj
      have hjn := Finset.mem_range.mp hj
      have a1 := hE₁ i j hi hjn
      have a2 := hE₂ j m hjn hm
      have nl := abs_nonneg (L i j)
      have nu := abs_nonneg (U j m)
      have t1 : |L i j * E₂ j m| ≤ g₂ * (|L i j| * |U j m|) := by
        rw [abs_mul]; nlinarith
      have t2 : |E₁ i j * U j m| ≤ g₁ * (|L i j| * |U j m|) := by
        rw [abs_mul]; nlinarith
      have t3 : |E₁ i j * E₂ j m| ≤ g₁ * g₂ * (|L i j| * |U j m|) := by
        rw [abs_mul]
        have := mul_le_mul a1 a2 (abs_nonneg _) (mul_nonneg hg₁ nl)
        nlinarith
      have := abs_add_le (L i j * E₂ j m + E₁ i j * U j m) (E₁ i j * E₂ j m)
      have := abs_add_le (L i j * E₂ j m) (E₁ i j * U j m)
      nlinarith
    have := hfac i m hi hm
    nlinarith
  · intro i hi
    rw [← h1 i hi]
    calc ∑ m ∈ range n, (A i m + (∑ j ∈ range n, (L i j + E₁ i j) * (U j m + E₂ j m) - A i m)) * x m
        = ∑ m ∈ range n, ∑ j ∈ range n, (L i j + E₁ i j) * ((U j m + E₂ j m) * x m) := by
          apply Finset.sum_congr rfl
          intro m _
          rw [add_sub_cancel, Finset.sum_mul]
          exact Finset.sum_congr rfl fun j _ => by ring
      _ = ∑ j ∈ range n, ∑ m ∈ range n, (L i j + E₁ i j) * ((U j m + E₂ j m) * x m) :=
          Finset.sum_comm
      _ = ∑ j ∈ range n, (L i j + E₁ i j) * y j := by
          apply Finset.sum_congr rfl
          intro j hj
          rw [← Finset.mul_sum, h2 j (Finset.mem_range.mp hj)]

/-- residual form of a backward error: `|b − A x| ≤ g·(S|x|)` rowwise when `(A+ΔA)x = b`, `|ΔA| ≤ g·S` -/
theorem residual_of_backward_mat (n : Nat) (A ΔA S : Nat → Nat → ℝ) (x b : Nat → ℝ) (g : ℝ)
    (hΔ : ∀ i m, i < n → m < n → |ΔA i m| ≤ g * S i m)
    (h : ∀ i, i < n → ∑ m ∈ range n, (A i m + ΔA i m) * x m = b i) :
    ∀ i, i < n → |b i - ∑ m ∈ range n, A i m * x m| ≤ g * ∑ m ∈ range n, S i m * |x m| := by
  intro i hi
  have e : b i - ∑ m ∈ range n, A i m * x m = ∑ m ∈ range n, ΔA i m * x m := by
    rw [← h i hi, ← Finset.sum_sub_distrib]
    exact Finset.sum_congr rfl fun m _ => by ring
  rw [e, Finset.mul_sum]
  refine le_trans (Finset.abs_sum_le_sum_abs _ _) (Finset.sum_le_sum ?_)
  intro m hm
  rw [abs_mul, ← mul_assoc]
  exact mul_le_mul_of_nonneg_right (hΔ i m hi (Finset.mem_range.mp hm)) (abs_nonneg _)

end compose

end FactorRounding
end Cv
