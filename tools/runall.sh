#!/bin/sh
# tools/runall.sh <tier> [seed]  — run every claimed check once, log one summary line each to out/runall-<tier>.log
TIER="${1:-quick}"; SEED="${2:-20260926}"
cd /verif
for i in 01 02 03 04 05 06 07 08 09 10 11 12 13 14 15 16 17 18 19 20; do
  out=$(VERIF_SEED=$SEED ./check C$i --tier $TIER 2>&1); rc=$?
  echo "$(date +%H:%M:%S) C$i rc=$rc $(echo "$out" | grep -E '^\[C' | tail -1) $(echo "$out" | grep -E '^VIOLATION|^INFRA' | head -2 | tr '\n' ' ')" >> out/runall-$TIER.log
done
