import Compute.Props.C03
/-
C03 — non-vacuity of the conditional theorems about the rejection samplers (review finding B2).

Most theorems of `Props/C03.lean` / `Props/C03Support.lean` about Gamma, Beta, χ², Student t and MVN have a hypothesis
`… = some (x, g')` ("the call returns").  This file shows that these hypotheses are satisfiable over ℝ, on concrete generator
states, by evaluating the model there:

* `normal_fast`: from every state whose raw word takes the Ziggurat fast path (`j < K[i]`, 98.8 % of the words),
  `Normal.sample` returns `μ ± j·W[i]·σ` after one word (this needs `Normal.sample` to unfold: it is written through
  `Normal.next` applied to the projections of `g.u64`, and every lemma about one pass is proved for a VARIABLE word — the
  kernel runs into "deep recursion" when it is made to reduce the generator on a symbolic state);
* `gamma_fast_accept`: for shape `≥ 1`, a fast-path normal draw `x ∈ [0, 1/2]` with positive sign followed by a uniform
  `≤ 0.99` passes the squeeze test of Marsaglia–Tsang: `Gamma.sample` returns `d·v/β` after one iteration;
* concrete states (seeds 1, 3, 8, 20; the words are computed by the kernel from the wyrand model) instantiate these and, through
  them, the hypotheses of `gamma_support_*`, `chi_squared_support_partial`, `t_formula` / `t_support_partial`, `beta_is_gamma_ratio` /
  `beta_sample_support_partial`, `gamma_boost`, `mvn_sample_spec_partial`.
-/
set_option linter.unusedSectionVars false
set_option linter.unusedSimpArgs false
set_option linter.unusedVariables false

namespace Cv.C03W
open Cv Cv.C03L Cv.C03
open scoped Cv.C09 Cv.C03L

/-! ### one pass of the Ziggurat loop -/

/-- layer index, strip coordinate and sign read off a raw word (as in `Normal.iter`) -/
def zi (u : UInt64) : Nat := (u &&& 0x7F).toNat
def zj (u : UInt64) : Nat := ((u >>> 8) &&& 0xFFFFFF).toNat
noncomputable def zs (u : UInt64) : ℝ := if u &&& 0x80 != 0 then 1 else -1

theorem sample_succ (fuel : Nat) (mu sigma : ℝ) (g : Rng) :
    Normal.sample (fuel + 1) mu sigma g = Normal.next (Normal.sample fuel mu sigma) mu sigma (g.u64).1 (g.u64).2 := rfl

/-- fast path, for a variable word -/
theorem iter_fast (mu sigma : ℝ) (u : UInt64) (g : Rng) (h : zj u < Normal.zK (zi u)) :
    Normal.iter mu sigma u g = .inl (Normal.out mu sigma (zs u) ((zj u : ℝ) * Normal.zW (zi u)), g) := by
  unfold zi zj at h
  unfold Normal.iter
  simp only [h, if_true]
  rfl

theorem next_inl (rest : Rng → Option (ℝ × Rng)) (mu sigma : ℝ) (u : UInt64) (g : Rng) (r : ℝ × Rng)
    (h : Normal.iter mu sigma u g = .inl r) : Normal.next rest mu sigma u g = some r := by
  unfold Normal.next
  rw [h]

/-- **Ziggurat fast path**: if the raw word drawn in state `g` is `w` (next state `g1`) and `j(w) < K[i(w)]`, the sampler
returns `μ + s·(j·W[i])·σ` and leaves the generator in `g1`. -/
theorem normal_fast (fuel : Nat) (mu sigma : ℝ) (g g1 : Rng) (w : UInt64) (hg : g.u64 = (w, g1))
    (h : zj w < Normal.zK (zi w)) :
    Normal.sample (fuel + 1) mu sigma g = some (Normal.out mu sigma (zs w) ((zj w : ℝ) * Normal.zW (zi w)), g1) := by
  have h1 : (g.u64).1 = w := by rw [hg]
  have h2 : (g.u64).2 = g1 := by rw [hg]
  rw [sample_succ, h1, h2]
  exact next_inl _ mu sigma w g1 _ (iter_fast mu sigma w g1 h)

/-! ### Marsaglia–Tsang: acceptance by the squeeze test after one fast normal draw -/

theorem powi_three (y : ℝ) : powi y 3 = y * y * y := by
  simp [powi, powiNat, powiNat.go]; ring

theorem powi_four (y : ℝ) : powi y 4 = y ^ 4 := by
  simp [powi, powiNat, powiNat.go]; ring

theorem vOf_pos (d x : ℝ) (hx : 0 ≤ x) : 0 < Gamma.vOf d x := by
  unfold Gamma.vOf
  rw [powi_three]
  have : 0 < 1 + x / Transc.sqrt (((9 : Nat) : ℝ) * d) := by
    have : 0 ≤ x / Transc.sqrt (((9 : Nat) : ℝ) * d) := div_nonneg hx (Real.sqrt_nonneg _)
    linarith
  positivity

theorem squeeze_of_small (u x : ℝ) (hx0 : 0 ≤ x) (hx1 : x ≤ 1 / 2) (hu : u ≤ 99 / 100) : Gamma.squeeze u x = true := by
  unfold Gamma.squeeze
  rw [powi_four]
  have hc : (ofLit C03T.gammaSqueeze : ℝ) ≤ 1 / 25 := by
    rw [C09.ofLit_real]; simp only [C03T.gammaSqueeze]; norm_num
  have hc0 : (0 : ℝ) ≤ ofLit C03T.gammaSqueeze := by
    rw [C09.ofLit_real]; simp only [C03T.gammaSqueeze]; norm_num
  have hx4 : x ^ 4 ≤ 1 / 16 := by
    have : x ^ 4 ≤ (1 / 2 : ℝ) ^ 4 := pow_le_pow_left₀ hx0 hx1 4
    norm_num at this; linarith
  have hx40 : 0 ≤ x ^ 4 := by positivity
  have : (ofLit C03T.gammaSqueeze : ℝ) * x ^ 4 ≤ 1 / 25 * (1 / 16) := mul_le_mul hc hx4 hx40 (by norm_num)
  simp only [decide_eq_true_eq]
  linarith

/-- one iteration of the Marsaglia–Tsang loop that accepts by the squeeze test (for a variable Ziggurat fuel `zf`) -/
theorem loop_accept (zf : Nat) (boost d beta : ℝ) (fuel : Nat) (g g1 : Rng) (x : ℝ)
    (hN : Normal.sample zf (0 : ℝ) 1 g = some (x, g1)) (hv : 0 < Gamma.vOf d x)
    (hsq : Gamma.squeeze (g1.f64 (α := ℝ)).1 x = true) :
    Gamma.loop zf boost d beta (fuel + 1) g = some (Gamma.result boost d (Gamma.vOf d x) beta, (g1.f64 (α := ℝ)).2) := by
  simp only [Gamma.loop, hN, hv, if_true, uniformF_unit, hsq]

/-- **Gamma, shape `≥ 1`, returns** after one iteration whenever the normal draw is a fast-path `x ∈ [0, 1/2]` (positive sign)
and the following uniform is `≤ 0.99`. -/
theorem gamma_fast_accept (fuel : Nat) (a b : ℝ) (ha : 1 ≤ a) (g g1 : Rng) (w : UInt64) (hg : g.u64 = (w, g1))
    (hfast : zj w < Normal.zK (zi w)) (hs : zs w = 1) (x : ℝ) (hx : (zj w : ℝ) * Normal.zW (zi w) = x)
    (hx0 : 0 ≤ x) (hx1 : x ≤ 1 / 2) (hu : (g1.f64 (α := ℝ)).1 ≤ 99 / 100) :
    Gamma.sample (fuel + 1) a b g =
      some (Gamma.result 1 (a - 1 / 3) (Gamma.vOf (a - 1 / 3) x) b, (g1.f64 (α := ℝ)).2) := by
  have hout : Normal.out (0 : ℝ) 1 (zs w) ((zj w : ℝ) * Normal.zW (zi w)) = x := by
    rw [hs, hx]; simp [Normal.out]
  have hN : Normal.sample (fuel + 1) (0 : ℝ) 1 g = some (x, g1) := hout ▸ normal_fast fuel 0 1 g g1 w hg hfast
  exact (gamma_no_boost (fuel + 1) a b ha g).trans
    (loop_accept (fuel + 1) 1 (a - 1 / 3) b fuel g g1 x hN (vOf_pos _ x hx0) (squeeze_of_small _ x hx0 hx1 hu))


/-! ## Concrete generator states (the words are computed by the kernel from the wyrand model) -/

/-! state `a0` = ⟨3⟩: raw word 0x3e99a772750dcbe, layer 62, strip coordinate 2576604, sign + -/
theorem a0_u64 : (⟨3⟩ : Rng).u64 = (281926288238763198, ⟨11562461410679940146⟩) := by decide +kernel
theorem a0_fast : zj 281926288238763198 < Normal.zK (zi 281926288238763198) := by decide +kernel
theorem a0_x : ((zj 281926288238763198 : ℕ) : ℝ) * Normal.zW (zi 281926288238763198) = 2576604 * (855428856114217 / 9444732965739290427392) := by
  have hi : zi 281926288238763198 = 62 := by decide +kernel
  have hj : zj 281926288238763198 = 2576604 := by decide +kernel
  have hl : C03T.zigW[62]! = ⟨0x3e78501068cb6148, 855428856114217, 9444732965739290427392⟩ := by decide +kernel
  rw [hi, hj]
  show ((2576604 : ℕ) : ℝ) * ofLit C03T.zigW[62]! = _
  rw [hl, C09.ofLit_real]
  norm_num
theorem a0_sign : zs 281926288238763198 = 1 := by
  have : (281926288238763198 &&& 0x80 != (0 : UInt64)) = true := by decide +kernel
  simp [zs, this]

/-! state `a1` = ⟨11562461410679940146⟩ read as a uniform: k = 3602790834135765, u = k / 2^53 ≈ 0.399990 -/
theorem a1_f53 : ((⟨11562461410679940146⟩ : Rng).f53) = (3602790834135765, ⟨4678178747650328673⟩) := by decide +kernel
theorem a1_u : ((⟨11562461410679940146⟩ : Rng).f64 (α := ℝ)).1 = 3602790834135765 / 2 ^ 53 := by
  rw [f64_eq, a1_f53]; norm_num
theorem a1_next : ((⟨11562461410679940146⟩ : Rng).f64 (α := ℝ)).2 = ⟨4678178747650328673⟩ := by
  show ((⟨11562461410679940146⟩ : Rng).f53).2 = _
  rw [a1_f53]

/-! state `b0` = ⟨8⟩: raw word 0x591b413082f6638b, layer 11, strip coordinate 8582755, sign + -/
theorem b0_u64 : (⟨8⟩ : Rng).u64 = (6420797370358195083, ⟨11562461410679940151⟩) := by decide +kernel
theorem b0_fast : zj 6420797370358195083 < Normal.zK (zi 6420797370358195083) := by decide +kernel
theorem b0_x : ((zj 6420797370358195083 : ℕ) : ℝ) * Normal.zW (zi 6420797370358195083) = 8582755 * (3291788835869801 / 75557863725914323419136) := by
  have hi : zi 6420797370358195083 = 11 := by decide +kernel
  have hj : zj 6420797370358195083 = 8582755 := by decide +kernel
  have hl : C03T.zigW[11]! = ⟨0x3e6763baa079a8d2, 3291788835869801, 75557863725914323419136⟩ := by decide +kernel
  rw [hi, hj]
  show ((8582755 : ℕ) : ℝ) * ofLit C03T.zigW[11]! = _
  rw [hl, C09.ofLit_real]
  norm_num
theorem b0_sign : zs 6420797370358195083 = 1 := by
  have : (6420797370358195083 &&& 0x80 != (0 : UInt64)) = true := by decide +kernel
  simp [zs, this]

/-! state `b0u` = ⟨8⟩ read as a uniform: k = 3135154965995212, u = k / 2^53 ≈ 0.348072 -/
theorem b0u_f53 : ((⟨8⟩ : Rng).f53) = (3135154965995212, ⟨11562461410679940151⟩) := by decide +kernel
theorem b0u_u : ((⟨8⟩ : Rng).f64 (α := ℝ)).1 = 3135154965995212 / 2 ^ 53 := by
  rw [f64_eq, b0u_f53]; norm_num
theorem b0u_next : ((⟨8⟩ : Rng).f64 (α := ℝ)).2 = ⟨11562461410679940151⟩ := by
  show ((⟨8⟩ : Rng).f53).2 = _
  rw [b0u_f53]

/-! state `b1` = ⟨11562461410679940151⟩: raw word 0x7df2c5f81d9dee81, layer 1, strip coordinate 1940974, sign + -/
theorem b1_u64 : (⟨11562461410679940151⟩ : Rng).u64 = (9075533868544421505, ⟨4678178747650328678⟩) := by decide +kernel
theorem b1_fast : zj 9075533868544421505 < Normal.zK (zi 9075533868544421505) := by decide +kernel
theorem b1_x : ((zj 9075533868544421505 : ℕ) : ℝ) * Normal.zW (zi 9075533868544421505) = 1940974 * (817126203801615 / 37778931862957161709568) := by
  have hi : zi 9075533868544421505 = 1 := by decide +kernel
  have hj : zj 9075533868544421505 = 1940974 := by decide +kernel
  have hl : C03T.zigW[1]! = ⟨0x3e57396028ea0078, 817126203801615, 37778931862957161709568⟩ := by decide +kernel
  rw [hi, hj]
  show ((1940974 : ℕ) : ℝ) * ofLit C03T.zigW[1]! = _
  rw [hl, C09.ofLit_real]
  norm_num
theorem b1_sign : zs 9075533868544421505 = 1 := by
  have : (9075533868544421505 &&& 0x80 != (0 : UInt64)) = true := by decide +kernel
  simp [zs, this]

/-! state `b2` = ⟨4678178747650328678⟩ read as a uniform: k = 4846806551893026, u = k / 2^53 ≈ 0.538104 -/
theorem b2_f53 : ((⟨4678178747650328678⟩ : Rng).f53) = (4846806551893026, ⟨16240640158330268821⟩) := by decide +kernel
theorem b2_u : ((⟨4678178747650328678⟩ : Rng).f64 (α := ℝ)).1 = 4846806551893026 / 2 ^ 53 := by
  rw [f64_eq, b2_f53]; norm_num
theorem b2_next : ((⟨4678178747650328678⟩ : Rng).f64 (α := ℝ)).2 = ⟨16240640158330268821⟩ := by
  show ((⟨4678178747650328678⟩ : Rng).f53).2 = _
  rw [b2_f53]

/-! state `c0` = ⟨20⟩: raw word 0x45a49be0c23bec6, layer 70, strip coordinate 795582, sign + -/
theorem c0_u64 : (⟨20⟩ : Rng).u64 = (313644204651953862, ⟨11562461410679940163⟩) := by decide +kernel
theorem c0_fast : zj 313644204651953862 < Normal.zK (zi 313644204651953862) := by decide +kernel
theorem c0_x : ((zj 313644204651953862 : ℕ) : ℝ) * Normal.zW (zi 313644204651953862) = 795582 * (1834828441750097 / 18889465931478580854784) := by
  have hi : zi 313644204651953862 = 70 := by decide +kernel
  have hj : zj 313644204651953862 = 795582 := by decide +kernel
  have hl : C03T.zigW[70]! = ⟨0x3e7a131125fa2944, 1834828441750097, 18889465931478580854784⟩ := by decide +kernel
  rw [hi, hj]
  show ((795582 : ℕ) : ℝ) * ofLit C03T.zigW[70]! = _
  rw [hl, C09.ofLit_real]
  norm_num
theorem c0_sign : zs 313644204651953862 = 1 := by
  have : (313644204651953862 &&& 0x80 != (0 : UInt64)) = true := by decide +kernel
  simp [zs, this]

/-! state `c1` = ⟨11562461410679940163⟩ read as a uniform: k = 516830273909785, u = k / 2^53 ≈ 0.057380 -/
theorem c1_f53 : ((⟨11562461410679940163⟩ : Rng).f53) = (516830273909785, ⟨4678178747650328690⟩) := by decide +kernel
theorem c1_u : ((⟨11562461410679940163⟩ : Rng).f64 (α := ℝ)).1 = 516830273909785 / 2 ^ 53 := by
  rw [f64_eq, c1_f53]; norm_num
theorem c1_next : ((⟨11562461410679940163⟩ : Rng).f64 (α := ℝ)).2 = ⟨4678178747650328690⟩ := by
  show ((⟨11562461410679940163⟩ : Rng).f53).2 = _
  rw [c1_f53]

/-! state `c2` = ⟨4678178747650328690⟩: raw word 0x904c2f1f506932a0, layer 32, strip coordinate 5269810, sign + -/
theorem c2_u64 : (⟨4678178747650328690⟩ : Rng).u64 = (10397737451231195808, ⟨16240640158330268833⟩) := by decide +kernel
theorem c2_fast : zj 10397737451231195808 < Normal.zK (zi 10397737451231195808) := by decide +kernel
theorem c2_x : ((zj 10397737451231195808 : ℕ) : ℝ) * Normal.zW (zi 10397737451231195808) = 5269810 * (1246534246557715 / 18889465931478580854784) := by
  have hi : zi 10397737451231195808 = 32 := by decide +kernel
  have hj : zj 10397737451231195808 = 5269810 := by decide +kernel
  have hl : C03T.zigW[32]! = ⟨0x3e71b6dd7bdda04c, 1246534246557715, 18889465931478580854784⟩ := by decide +kernel
  rw [hi, hj]
  show ((5269810 : ℕ) : ℝ) * ofLit C03T.zigW[32]! = _
  rw [hl, C09.ofLit_real]
  norm_num
theorem c2_sign : zs 10397737451231195808 = 1 := by
  have : (10397737451231195808 &&& 0x80 != (0 : UInt64)) = true := by decide +kernel
  simp [zs, this]

/-! state `c3` = ⟨16240640158330268833⟩ read as a uniform: k = 5621204168183374, u = k / 2^53 ≈ 0.624079 -/
theorem c3_f53 : ((⟨16240640158330268833⟩ : Rng).f53) = (5621204168183374, ⟨9356357495300657360⟩) := by decide +kernel
theorem c3_u : ((⟨16240640158330268833⟩ : Rng).f64 (α := ℝ)).1 = 5621204168183374 / 2 ^ 53 := by
  rw [f64_eq, c3_f53]; norm_num
theorem c3_next : ((⟨16240640158330268833⟩ : Rng).f64 (α := ℝ)).2 = ⟨9356357495300657360⟩ := by
  show ((⟨16240640158330268833⟩ : Rng).f53).2 = _
  rw [c3_f53]

/-! state `d0` = ⟨1⟩: raw word 0xcdef1695e1f8ed2c, layer 44, strip coordinate 14809325, sign - -/
theorem d0_u64 : (⟨1⟩ : Rng).u64 = (14839104130206199084, ⟨11562461410679940144⟩) := by decide +kernel
theorem d0_fast : zj 14839104130206199084 < Normal.zK (zi 14839104130206199084) := by decide +kernel
theorem d0_x : ((zj 14839104130206199084 : ℕ) : ℝ) * Normal.zW (zi 14839104130206199084) = 14809325 * (5750813076352231 / 75557863725914323419136) := by
  have hi : zi 14839104130206199084 = 44 := by decide +kernel
  have hj : zj 14839104130206199084 = 14809325 := by decide +kernel
  have hl : C03T.zigW[44]! = ⟨0x3e746e558295ece7, 5750813076352231, 75557863725914323419136⟩ := by decide +kernel
  rw [hi, hj]
  show ((14809325 : ℕ) : ℝ) * ofLit C03T.zigW[44]! = _
  rw [hl, C09.ofLit_real]
  norm_num

/-! state `d1` = ⟨11562461410679940144⟩: raw word 0x61d6d24b1c9aad40, layer 64, strip coordinate 1874605, sign - -/
theorem d1_u64 : (⟨11562461410679940144⟩ : Rng).u64 = (7050053486739369280, ⟨4678178747650328671⟩) := by decide +kernel
theorem d1_fast : zj 7050053486739369280 < Normal.zK (zi 7050053486739369280) := by decide +kernel
theorem d1_x : ((zj 7050053486739369280 : ℕ) : ℝ) * Normal.zW (zi 7050053486739369280) = 1874605 * (6965931619709429 / 75557863725914323419136) := by
  have hi : zi 7050053486739369280 = 64 := by decide +kernel
  have hj : zj 7050053486739369280 = 1874605 := by decide +kernel
  have hl : C03T.zigW[64]! = ⟨0x3e78bf7a57b8f1f5, 6965931619709429, 75557863725914323419136⟩ := by decide +kernel
  rw [hi, hj]
  show ((1874605 : ℕ) : ℝ) * ofLit C03T.zigW[64]! = _
  rw [hl, C09.ofLit_real]
  norm_num

/-! ## Witnesses: the hypotheses "the call returns" of the conditional theorems are satisfiable over ℝ -/

/-- `Normal.sample` returns (seed 1; fast path). -/
theorem normal_returns_witness : ∃ z g', Normal.sample 1 (0 : ℝ) 1 ⟨1⟩ = some (z, g') :=
  ⟨_, _, normal_fast 0 0 1 _ _ _ d0_u64 d0_fast⟩

/-- `Gamma.sample` with shape `2 ≥ 1` returns on seed 3, and the value is positive (instantiates `gamma_support_ge_one_partial`,
`gamma_loop_pos_partial`, `gamma_no_boost`). -/
theorem gamma_returns_witness : ∃ x g', Gamma.sample 1 (2 : ℝ) 1 ⟨3⟩ = some (x, g') ∧ 0 < x := by
  have h := gamma_fast_accept 0 (2 : ℝ) 1 (by norm_num) _ _ _ a0_u64 a0_fast a0_sign _ a0_x (by norm_num) (by norm_num) (by rw [a1_u]; norm_num)
  exact ⟨_, _, h, gamma_support_ge_one_partial 1 2 1 (by norm_num) one_pos _ _ _ h⟩

/-- χ² with 4 degrees of freedom returns on seed 3 (instantiates `chi_squared_support_partial`, `C03Support.chi_squared_pos_partial`). -/
theorem chi_squared_returns_witness : ∃ x g', ChiSquared.sample (α := ℝ) 1 4 ⟨3⟩ = some (x, g') ∧ 0 < x := by
  have h := gamma_fast_accept 0 (((4 : ℕ) : ℝ) / 2) (1 / 2) (by norm_num) _ _ _ a0_u64 a0_fast a0_sign _ a0_x (by norm_num) (by norm_num) (by rw [a1_u]; norm_num)
  rw [← chi_squared_is_gamma] at h
  exact ⟨_, _, h, chi_squared_support_partial 1 4 (by norm_num) _ _ _ h⟩

/-- Gamma below shape 1 (`α = 1/2`) returns on seed 8: one boosting uniform, then the loop at shape `3/2` (instantiates
`gamma_boost`, `gamma_support_lt_one_partial`). -/
theorem gamma_boost_returns_witness : ∃ x g', Gamma.sample 1 (1 / 2 : ℝ) 1 ⟨8⟩ = some (x, g') ∧ 0 < x := by
  have hfn : FirstNonzero ⟨8⟩ 0 := firstNonzero_zero_of_pos _ (by decide +kernel)
  have hr := redraw_unit_returns 1 ⟨8⟩ 0 hfn (by omega)
  have hst : stAfter ⟨8⟩ (0 + 1) = ⟨11562461410679940151⟩ := b0u_next
  rw [hst] at hr
  have hg := gamma_fast_accept 0 ((1 / 2 : ℝ) + 1) 1 (by norm_num) _ _ _ b1_u64 b1_fast b1_sign _ b1_x (by norm_num) (by norm_num) (by rw [b2_u]; norm_num)
  have h : ∃ r, Gamma.sample 1 (1 / 2 : ℝ) 1 ⟨8⟩ = some r := by
    rw [gamma_boost 1 (1 / 2) 1 (by norm_num) (by norm_num), hr]
    simp only [Option.bind_some, hg, Option.map_some]
    exact ⟨_, rfl⟩
  obtain ⟨⟨x, g'⟩, h⟩ := h
  exact ⟨x, g', h, gamma_support_lt_one_partial 1 (1 / 2) 1 (by norm_num) (by norm_num) one_pos _ _ _ h⟩

/-- χ² with 1 degree of freedom (= Gamma(1/2, rate 1/2), the boosted regime) returns on seed 8. -/
theorem chi_squared_one_returns_witness : ∃ x g', ChiSquared.sample (α := ℝ) 1 1 ⟨8⟩ = some (x, g') ∧ 0 < x := by
  have hfn : FirstNonzero ⟨8⟩ 0 := firstNonzero_zero_of_pos _ (by decide +kernel)
  have hr := redraw_unit_returns 1 ⟨8⟩ 0 hfn (by omega)
  have hst : stAfter ⟨8⟩ (0 + 1) = ⟨11562461410679940151⟩ := b0u_next
  rw [hst] at hr
  have hg := gamma_fast_accept 0 ((((1 : ℕ) : ℝ) / 2) + 1) (1 / 2) (by norm_num) _ _ _ b1_u64 b1_fast b1_sign _ b1_x (by norm_num) (by norm_num) (by rw [b2_u]; norm_num)
  have h : ∃ r, ChiSquared.sample (α := ℝ) 1 1 ⟨8⟩ = some r := by
    rw [chi_squared_is_gamma, gamma_boost 1 _ _ (by norm_num) (by norm_num), hr]
    simp only [Option.bind_some, hg, Option.map_some]
    exact ⟨_, rfl⟩
  obtain ⟨⟨x, g'⟩, h⟩ := h
  exact ⟨x, g', h, chi_squared_support_partial 1 1 (by norm_num) _ _ _ h⟩

/-- Student t with 4 degrees of freedom returns on seed 8: a fast-path normal, then Gamma(2, 1) (instantiates `t_formula`,
`C03Support.t_support_partial`). -/
theorem t_returns_witness : ∃ t g', T.sample 1 (4 : ℝ) ⟨8⟩ = some (t, g') := by
  have hz := normal_fast 0 (0 : ℝ) 1 _ _ _ b0_u64 b0_fast
  have hg := gamma_fast_accept 0 ((4 : ℝ) / 2) 1 (by norm_num) _ _ _ b1_u64 b1_fast b1_sign _ b1_x (by norm_num) (by norm_num) (by rw [b2_u]; norm_num)
  exact ⟨_, _, t_formula 1 4 (by norm_num) _ _ _ _ _ hz hg⟩

/-- Beta(2, 2) returns on seed 20 through the ratio branch, with a value in `[0, 1]` (instantiates `beta_is_gamma_ratio`,
`beta_sample_support_partial`). -/
theorem beta_returns_witness : ∃ v g', Beta.sample 1 (2 : ℝ) 2 ⟨20⟩ = some (v, g') ∧ 0 ≤ v ∧ v ≤ 1 := by
  have hx := gamma_fast_accept 0 (2 : ℝ) 1 (by norm_num) _ _ _ c0_u64 c0_fast c0_sign _ c0_x (by norm_num) (by norm_num) (by rw [c1_u]; norm_num)
  rw [c1_next] at hx
  have hy := gamma_fast_accept 0 (2 : ℝ) 1 (by norm_num) _ _ _ c2_u64 c2_fast c2_sign _ c2_x (by norm_num) (by norm_num) (by rw [c3_u]; norm_num)
  have hxp := gamma_support_ge_one_partial 1 2 1 (by norm_num) one_pos _ _ _ hx
  have hyp := gamma_support_ge_one_partial 1 2 1 (by norm_num) one_pos _ _ _ hy
  have h := beta_is_gamma_ratio 1 2 2 _ _ _ _ _ hx hy (by linarith)
  exact ⟨_, _, h, beta_sample_support_partial 1 2 2 (by norm_num) (by norm_num) _ _ _ h⟩

theorem drawN_two {β : Type} (f : Rng → Option (β × Rng)) (g g1 g2 : Rng) (x1 x2 : β)
    (h1 : f g = some (x1, g1)) (h2 : f g1 = some (x2, g2)) : Rng.drawN? f 2 g = some ([x1, x2], g2) := by
  simp [Rng.drawN?, h1, h2]

/-- Two consecutive normal draws return on seed 1: the hypothesis `hz` of `mvn_sample_spec_partial` in dimension 2. -/
theorem normal_pair_witness : ∃ z g', Rng.drawN? (Normal.sample 1 (0 : ℝ) 1) 2 ⟨1⟩ = some (z, g') ∧ z.length = 2 := by
  have h0 := normal_fast 0 (0 : ℝ) 1 _ _ _ d0_u64 d0_fast
  have h1 := normal_fast 0 (0 : ℝ) 1 _ _ _ d1_u64 d1_fast
  exact ⟨_, _, drawN_two (Normal.sample 1 (0 : ℝ) 1) _ _ _ _ _ h0 h1, rfl⟩

/-- MVN in dimension 2 with the factor `L = [[2, 0], [1, 3]]` and mean `(1, -1)` returns on seed 1 and its entries are
`μ_i + Σ_k L[i,k] z_k` (instantiates every hypothesis of `mvn_sample_spec_partial`). -/
theorem mvn_returns_witness : ∃ x g', MVN.sample 1 (⟨[1, -1], ⟨[2, 0, 1, 3], 2, 2⟩⟩ : MVN.Dist ℝ) ⟨1⟩ = some (x, g') ∧ x.length = 2 := by
  obtain ⟨z, g', hz, _⟩ := normal_pair_witness
  obtain ⟨x, hx, hl, _⟩ := mvn_sample_spec_partial 1 (⟨[1, -1], ⟨[2, 0, 1, 3], 2, 2⟩⟩ : MVN.Dist ℝ) ⟨1⟩ g' z 2 (by norm_num) rfl rfl rfl
    (by simp [Mat.WF]) hz
  exact ⟨x, g', hx, hl⟩

end Cv.C03W
