import Compute.Model.Optim
import Mathlib.Tactic.Ring
import Mathlib.Tactic.Linarith
import Mathlib.Algebra.Order.Field.Basic
/-
Helper lemmas for C10:
* the loop skeleton `runLoop` (shared by Adam and SGD) computes iterate `min(k, stopIdx)` of its step
  function (`iter`, `stopIdx` below are the short specification);
* `Cv.powi x t = x ^ t` (square-and-multiply) and `asI32 t = t` below 2³¹;
* `statMax` / `converged` over a linear order.
-/
namespace Cv.C10
open Cv Cv.AD Cv.Opt

/-! ### iterates and the first stop index -/
section loop
variable {σ : Type} (step : Nat → σ → Option σ) (stopped : σ → σ → Bool)

/-- The `n`-th iterate of the recurrence `s_t = step t s_{t-1}` (`t` counts from 1); `none` = a step
panicked. -/
def iter (s0 : σ) : Nat → Option σ
  | 0 => some s0
  | n + 1 => (iter s0 n).bind (step (n + 1))

/-- "the stop test fires at step `j`" (`j ≥ 1`): it compares iterate `j` with iterate `j-1`. -/
def stoppedAt (s0 : σ) (j : Nat) : Bool :=
  match j with
  | 0 => false
  | j + 1 =>
    match iter step s0 j, iter step s0 (j + 1) with
    | some a, some b => stopped b a
    | _, _ => false

/-- least `r` in `(j, j+fuel]` with `stoppedAt r`, else `j + fuel` -/
def firstStopFrom (s0 : σ) : Nat → Nat → Nat
  | 0, j => j
  | f + 1, j => if stoppedAt step stopped s0 (j + 1) then j + 1 else firstStopFrom s0 f (j + 1)

/-- `min(k, stopIdx)`: the first step `≤ k` at which the stop test fires, or `k` if there is none. -/
def stopIdx (s0 : σ) (k : Nat) : Nat := firstStopFrom step stopped s0 k 0

theorem iter_none_mono (s0 : σ) {n : Nat} (h : iter step s0 n = none) :
    ∀ m, n ≤ m → iter step s0 m = none := by
  intro m hm
  induction m with
  | zero => have : n = 0 := by omega
            subst this; exact h
  | succ m ih =>
    by_cases hn : n = m + 1
    · subst hn; exact h
    · have : iter step s0 m = none := ih (by omega)
      simp [iter, this]

theorem firstStopFrom_ge (s0 : σ) (f j : Nat) : j ≤ firstStopFrom step stopped s0 f j := by
  induction f generalizing j with
  | zero => simp [firstStopFrom]
  | succ f ih =>
    simp only [firstStopFrom]
    split
    · omega
    · have := ih (j + 1); omega

theorem firstStopFrom_le (s0 : σ) (f j : Nat) : firstStopFrom step stopped s0 f j ≤ j + f := by
  induction f generalizing j with
  | zero => simp [firstStopFrom]
  | succ f ih =>
    simp only [firstStopFrom]
    split
    · omega
    · have := ih (j + 1); omega

/-- no stop strictly between the start and the result -/
theorem firstStopFrom_before (s0 : σ) (f j i : Nat) (h1 : j < i)
    (h2 : i < firstStopFrom step stopped s0 f j) : stoppedAt step stopped s0 i = false := by
  induction f generalizing j with
  | zero => simp [firstStopFrom] at h2; omega
  | succ f ih =>
    simp only [firstStopFrom] at h2
    split at h2
    · omega
    · rename_i hs
      by_cases hi : i = j + 1
      · subst hi; simpa using hs
      · exact ih (j + 1) (by omega) h2

/-- if the result is before the end of the budget, the stop test fired there -/
theorem firstStopFrom_stopped (s0 : σ) (f j : Nat)
    (h : firstStopFrom step stopped s0 f j < j + f) :
    stoppedAt step stopped s0 (firstStopFrom step stopped s0 f j) = true := by
  induction f generalizing j with
  | zero => simp [firstStopFrom] at h
  | succ f ih =>
    simp only [firstStopFrom] at h ⊢
    split
    · assumption
    · rename_i hs
      simp only [hs] at h
      exact ih (j + 1) (by simp at h; omega)

theorem firstStopFrom_succ (s0 : σ) (f j : Nat) :
    firstStopFrom step stopped s0 (f + 1) j =
      (if j < firstStopFrom step stopped s0 f j ∧
          stoppedAt step stopped s0 (firstStopFrom step stopped s0 f j) = true
        then firstStopFrom step stopped s0 f j else j + f + 1) := by
  induction f generalizing j with
  | zero =>
    simp only [firstStopFrom]
    split <;> simp
  | succ f ih =>
    rw [firstStopFrom]
    conv => rhs; rw [firstStopFrom]
    by_cases hs : stoppedAt step stopped s0 (j + 1) = true
    · simp [hs]
    · simp only [hs]
      rw [ih (j + 1)]
      have hge := firstStopFrom_ge step stopped s0 f (j + 1)
      by_cases heq : firstStopFrom step stopped s0 f (j + 1) = j + 1
      · simp [heq, hs]; omega
      · have h1 : j + 1 < firstStopFrom step stopped s0 f (j + 1) := by omega
        have h2 : j < firstStopFrom step stopped s0 f (j + 1) := by omega
        simp only [h1, h2, true_and, Bool.false_eq_true, if_false]
        split <;> omega

/-- The loop computes the iterate at the first stop index. -/
theorem runLoop_eq_iter_from (s0 : σ) (fuel t : Nat) (s : σ) (hs : iter step s0 t = some s) :
    runLoop step stopped fuel t s = iter step s0 (firstStopFrom step stopped s0 fuel t) := by
  induction fuel generalizing t s with
  | zero => simp [runLoop, firstStopFrom, hs]
  | succ fuel ih =>
    have hnext : iter step s0 (t + 1) = step (t + 1) s := by simp [iter, hs]
    simp only [runLoop, firstStopFrom]
    cases hst : step (t + 1) s with
    | none =>
      have hn : iter step s0 (t + 1) = none := by rw [hnext, hst]
      have hsa : stoppedAt step stopped s0 (t + 1) = false := by simp [stoppedAt, hs, hn]
      simp only [hsa, Bool.false_eq_true, if_false]
      exact (iter_none_mono step s0 hn _ (firstStopFrom_ge step stopped s0 fuel (t + 1))).symm
    | some s' =>
      have hn : iter step s0 (t + 1) = some s' := by rw [hnext, hst]
      have hsa : stoppedAt step stopped s0 (t + 1) = stopped s' s := by simp [stoppedAt, hs, hn]
      simp only [hsa]
      by_cases hstop : stopped s' s = true
      · simp [hstop, hn]
      · simp only [hstop, Bool.false_eq_true, if_false]
        exact ih (t + 1) s' hn

theorem runLoop_eq_iter (s0 : σ) (k : Nat) :
    runLoop step stopped k 0 s0 = iter step s0 (stopIdx step stopped s0 k) :=
  runLoop_eq_iter_from step stopped s0 k 0 s0 rfl

theorem stopIdx_le (s0 : σ) (k : Nat) : stopIdx step stopped s0 k ≤ k := by
  have := firstStopFrom_le step stopped s0 k 0; simpa [stopIdx] using this

theorem stopIdx_before (s0 : σ) (k i : Nat) (h : i < stopIdx step stopped s0 k) :
    stoppedAt step stopped s0 i = false := by
  cases i with
  | zero => rfl
  | succ i => exact firstStopFrom_before step stopped s0 k 0 (i + 1) (by omega) h

theorem stopIdx_stopped (s0 : σ) (k : Nat) (h : stopIdx step stopped s0 k < k) :
    stoppedAt step stopped s0 (stopIdx step stopped s0 k) = true :=
  firstStopFrom_stopped step stopped s0 k 0 (by simpa [stopIdx] using h)

theorem stopIdx_succ (s0 : σ) (k : Nat) :
    stopIdx step stopped s0 (k + 1) =
      (if stoppedAt step stopped s0 (stopIdx step stopped s0 k) = true
        then stopIdx step stopped s0 k else k + 1) := by
  unfold stopIdx
  rw [firstStopFrom_succ]
  by_cases h0 : firstStopFrom step stopped s0 k 0 = 0
  · simp [h0, stoppedAt]
  · have : 0 < firstStopFrom step stopped s0 k 0 := by omega
    simp [this]

/-- Prefix property: one more unit of budget either changes nothing (the run had stopped) or applies
exactly one more step to the previous result. -/
theorem runLoop_succ (s0 : σ) (k : Nat) :
    runLoop step stopped (k + 1) 0 s0 =
      (if stoppedAt step stopped s0 (stopIdx step stopped s0 k) = true
        then runLoop step stopped k 0 s0
        else (runLoop step stopped k 0 s0).bind (step (k + 1))) := by
  rw [runLoop_eq_iter, runLoop_eq_iter, stopIdx_succ]
  split
  · rfl
  · rename_i hns
    have hk : stopIdx step stopped s0 k = k := by
      by_contra hne
      have hlt : stopIdx step stopped s0 k < k := by
        have := stopIdx_le step stopped s0 k; omega
      exact hns (stopIdx_stopped step stopped s0 k hlt)
    rw [hk]; rfl

/-- steps that agree on `1..k` give the same iterates and the same stop index -/
theorem iter_congr (step' : Nat → σ → Option σ) (s0 : σ) (k : Nat)
    (h : ∀ t, 1 ≤ t → t ≤ k → step t = step' t) : ∀ n, n ≤ k → iter step s0 n = iter step' s0 n := by
  intro n hn
  induction n with
  | zero => rfl
  | succ n ih => simp only [iter]; rw [ih (by omega), h (n + 1) (by omega) hn]

theorem stoppedAt_congr (step' : Nat → σ → Option σ) (s0 : σ) (k : Nat)
    (h : ∀ t, 1 ≤ t → t ≤ k → step t = step' t) (j : Nat) (hj : j ≤ k) :
    stoppedAt step stopped s0 j = stoppedAt step' stopped s0 j := by
  cases j with
  | zero => rfl
  | succ j =>
    simp only [stoppedAt]
    rw [iter_congr step step' s0 k h j (by omega), iter_congr step step' s0 k h (j + 1) hj]

theorem firstStopFrom_congr (step' : Nat → σ → Option σ) (s0 : σ) (k : Nat)
    (h : ∀ t, 1 ≤ t → t ≤ k → step t = step' t) (f j : Nat) (hfj : j + f ≤ k) :
    firstStopFrom step stopped s0 f j = firstStopFrom step' stopped s0 f j := by
  induction f generalizing j with
  | zero => rfl
  | succ f ih =>
    simp only [firstStopFrom]
    rw [stoppedAt_congr step stopped step' s0 k h (j + 1) (by omega), ih (j + 1) (by omega)]

theorem runLoop_congr (step' : Nat → σ → Option σ) (s0 : σ) (k : Nat)
    (h : ∀ t, 1 ≤ t → t ≤ k → step t = step' t) :
    runLoop step stopped k 0 s0 = iter step' s0 (stopIdx step' stopped s0 k) := by
  rw [runLoop_eq_iter]
  have e : stopIdx step stopped s0 k = stopIdx step' stopped s0 k :=
    firstStopFrom_congr step stopped step' s0 k h k 0 (by omega)
  rw [e]
  exact iter_congr step step' s0 k h _ (stopIdx_le step' stopped s0 k)

end loop

/-! ### `powi` is the power -/
section powi
variable {α : Type} [Field α]

theorem powiNat_go (fuel : Nat) (a : α) (n : Nat) (r : α) (h : n < 2 ^ fuel) :
    powiNat.go fuel a n r = r * a ^ n := by
  induction fuel generalizing a n r with
  | zero =>
    have : n = 0 := by simpa using h
    subst this; simp [powiNat.go]
  | succ fuel ih =>
    simp only [powiNat.go]
    have hdiv : n / 2 < 2 ^ fuel := by
      rw [Nat.div_lt_iff_lt_mul (by norm_num)]; rw [pow_succ] at h; exact h
    have hn : n = 2 * (n / 2) + n % 2 := (Nat.div_add_mod n 2).symm
    by_cases h0 : n / 2 = 0
    · simp only [h0, if_true]
      have : n = n % 2 := by omega
      by_cases h1 : n % 2 = 1
      · simp only [h1, if_true]; rw [this, h1]; simp
      · have h2 : n % 2 = 0 := by omega
        simp only [h2]; rw [this, h2]; simp
    · simp only [h0, if_false]
      rw [ih _ _ _ hdiv]
      by_cases h1 : n % 2 = 1
      · simp only [h1, if_true]
        conv => rhs; rw [hn, h1]
        rw [pow_add, pow_mul, pow_one, ← pow_two]; ring
      · have h2 : n % 2 = 0 := by omega
        simp only [h2]
        conv => rhs; rw [hn, h2]
        simp only [Nat.zero_ne_one, if_false, add_zero]
        rw [pow_mul, ← pow_two]

theorem powiNat_eq_pow (x : α) (n : Nat) (h : n < 2 ^ 64) : powiNat x n = x ^ n := by
  unfold powiNat; rw [powiNat_go 64 x n 1 h]; simp

theorem asI32_small (t : Nat) (h : t < 2 ^ 31) : asI32 t = (t : Int) := by
  unfold asI32; omega

theorem powi_asI32 (x : α) (t : Nat) (h : t < 2 ^ 31) : powi x (asI32 t) = x ^ t := by
  rw [asI32_small t h]
  unfold powi
  have : ¬ ((t : Int) < 0) := by omega
  simp only [this, if_false, Int.natAbs_natCast]
  exact powiNat_eq_pow x t (by
    have : (2 : Nat) ^ 31 < 2 ^ 64 := by norm_num
    omega)

end powi

end Cv.C10
