"""C13 — autocorrelation, AR fitting and forecasting are consistent.

Lines (tag = regime label, dropped before the line reaches the model):
  acovf|acf <tag> <k> <vec ts>                 -> = <float>
  acs <tag> <kmax> <vec ts>                    -> = <vec acovf(-kmax..kmax)> <vec acf(-kmax..kmax)>
  diff <tag> <vec v>                           -> = <vec>
  toeplitz <tag> <vec x>                       -> = <vec>
  ar_fit <tag> <p> <vec data>                  -> = <intercept> <vec coeffs>   (coeffs as stored: reversed)
  ar_pred1 <tag> <intercept> <vec coeffs> <vec hist>      -> = <float>
  ar_pred <tag> <intercept> <vec coeffs> <h> <vec hist>   -> = <vec>
  ar_fp <tag> <p> <h> <vec data>               -> = <intercept> <vec coeffs> <pred1> <vec preds>
  ar_refit <tag> <p> <h> <k> <vec s1> .. <vec sk>   one AR::new(p) object fitted on s1, then s2, ...; after each fit
                                               <intercept> <vec coeffs> <vec predict(s_i, h)>  (k blocks)

Oracle: see the docstrings of the check_* functions; references are exact (Python integers / fractions) or
mpmath at 240 bits; every tolerance is an a-priori rounding bound times a calibrated constant.
"""
import math
from fractions import Fraction
from .common import Failure, f2h, h2f, parse_reply, vec

ID = "C13"
BIN = "c13"
PROOF_MODULES = ["Compute.Props.C13", "Compute.Props.C13Review"]
REQUIRED_THEOREMS = ["Cv.C13.acovf_def", "Cv.C13.acf_def", "Cv.C13.acovf_even", "Cv.C13.acf_even", "Cv.C13.acf_zero",
                     "Cv.C13.acf_abs_le_one", "Cv.C13.acovf_large_lag", "Cv.C13.difference_cumsum",
                     "Cv.C13.fit_intercept", "Cv.C13.fit_yule_walker", "Cv.C13.predict_spec",
                     "Cv.C13.predictOne_spec", "Cv.C13.fit_shift", "Cv.C13.predict_shift", "Cv.C13.forecast_shift",
                     "Cv.C13.cumsum_difference", "Cv.C13.acf_degenerate", "Cv.C13.acovf_empty", "Cv.C13.fit_toeplitz_entry",
                     "Cv.C13R.ar_fit_total_real_example", "Cv.C13R.ar_fit_total_real_example_coeffs"]
# Of these, acovf_even / acf_even (simp with Int.natAbs_neg), acovf_empty, difference_empty are unfolding-level facts, not
# headline results; acovf_def carries the guard ts != [] and acf_def / acf_zero / acf_abs_le_one / the acf half of
# acovf_large_lag carry the guard of non-zero variance (acf_degenerate is the complementary statement: the code forms 0/0).
RULE = ("series of length 10..5000 from stationary AR(1..6) (random partial autocorrelations), plus linear trends, "
        "constant-plus-noise and offsets up to 1e6; every lag -50..50 (and lags beyond the length on short series); "
        "orders 1..8; horizons 1..1000; shift pairs (series, series + c); explicit-state forecasts incl. histories "
        "shorter than the order; non-trivial = distinct (op, regime, order, size class)")
EXHAUSTIVE = {"quick": False, "thorough": False}
NOT_PROVED = [
    "convergence of the forecasts of a stationary fit to the mean (needs the roots of the fitted polynomial): oracle only",
    "exactness of invert_matrix is a hypothesis of fit_yule_walker (R * inv = I)",
    "floating-point rounding (theorems are over an ordered field; the float gap is covered by the bit-exact tie and "
    "the rounding-bound oracle)",
]
TRUSTED = ["Lean Float arithmetic = Rust f64 arithmetic (measured)", "Iterator::sum folds from -0.0 (observed)",
           "Python integers/fractions and mpmath for the references",
           "AR::fit (mean, centring, acf calls, toeplitz, invert_matrix, matmul, the coefficient reversal) and AR::predict (the "
           "forecast loop over the centred window) are HAND-MODELLED in Model/Timeseries.lean and tied to the Rust text only by "
           "the bit-exact run-time correspondence (incl. the ar_refit / order-8 / seasonal strata), not by the translator; only "
           "AR::predict_one / predict_one_centred and the accumulation loops of acovf / acf / difference are source-tied. The "
           "reversal and the forecast loop are where F23 and F42 were found",
           "IEEE semantics of the degenerate cases (empty or constant series: acovf_empty / acf_degenerate say the code forms "
           "1/0 * -0 resp. 0/0; that this is NaN is observed on the implementation, corpus lines acf-constant / empty)"]
ASSUMPTIONS = ["lags fit in i32 and |k| != i32::MIN; orders p with p^2 < 2^24 (is_square's f32 root)"]

U = 2.0 ** -53
C_AC = 32.0       # acovf/acf: multiple of the a-priori rounding bound; max observed ratio (seeds 1..5 quick, thorough) 0.16
C_MEAN = 32.0     # intercept; max observed ratio 0.21
C_YW = 200.0      # Yule-Walker residual; max observed ratio 0.035
C_PRED = 128.0    # forecasts vs exact recursion; max observed ratio 0.86
C_PAIR = 200.0    # shift pairs; max observed ratios 0.003 (coefficients), 0.005 (forecasts)
SKIP_AT = 1e-2


def model_line(line):
    t = line.split()
    return " ".join([t[0]] + t[2:])


# ----------------------------------------------------------------------------- generator
def ar_coeffs(rng, q):
    """stationary AR(q) coefficients from random partial autocorrelations (Levinson-Durbin)."""
    phi = []
    for k in range(1, q + 1):
        r = rng.uniform(-0.9, 0.9)
        phi = [phi[j] - r * phi[k - 2 - j] for j in range(k - 1)] + [r]
    return phi


def series(rng, n, regime):
    q = rng.randint(1, 6)
    phi = ar_coeffs(rng, q)
    x = [0.0] * q
    out = []
    sd = 10.0 ** rng.randint(-2, 2)
    for i in range(n + 50):
        v = sum(p * x[-1 - j] for j, p in enumerate(phi)) + sd * rng.normal()
        x.append(v)
        x = x[-q:]
        if i >= 50:
            out.append(v)
    if regime == "trend":
        s = sd * rng.uniform(-0.5, 0.5)
        out = [v + s * i for i, v in enumerate(out)]
    elif regime == "offset":
        off = rng.choice([1.0, 1e2, 1e4, 1e6]) * rng.choice([-1, 1]) * rng.uniform(0.5, 1.0)
        out = [v + off for v in out]
    elif regime == "const":
        off = rng.choice([1.0, 1e3, 1e6])
        out = [off + sd * rng.normal() for _ in range(n)]
    elif regime == "grid":  # dyadic grid so that adding an integer constant is exact
        out = [round(v / sd * 1024) / 1024 for v in out]
    return out


REGIMES = ["ar", "ar", "trend", "offset", "const", "grid"]


def size(rng, big):
    if big:
        return rng.randint(1000, 5000)
    return rng.choice([rng.randint(10, 40), rng.randint(10, 40), rng.randint(40, 400)])



# ----------------------------------------------------------------------------- generic strata (GENERIC_STRATA.md)
BOUNDARY_N = [10, 15, 16, 17, 23, 24, 25, 31, 32, 33, 63, 64, 65, 127, 128, 129, 255, 256, 257, 511, 512, 513]
BOUNDARY_N_BIG = [1023, 1024, 1025, 2047, 2048, 2049, 2050, 4095, 4096, 4097, 5000]
SPECIALS = [0.0, -0.0, 1.0, -1.0, 0.5, 1.5, 2.0, 3.0, 1.0 / 3.0, 2.0 / 3.0, 0.1, 4.0, 1024.0, 1.0 + 2.0 ** -52, 1.0 - 2.0 ** -53]


def special_series(rng, n):
    """series drawn from exact special values (integers, half-integers, thirds, powers of two and neighbours)"""
    kind = rng.randint(0, 3)
    if kind == 0:
        return [float(rng.randint(-9, 9)) for _ in range(n)]
    if kind == 1:
        return [rng.randint(-9, 9) / 2.0 for _ in range(n)]
    if kind == 2:
        return [rng.choice(SPECIALS) * rng.choice([1.0, -1.0, 2.0, 0.5]) for _ in range(n)]
    return [2.0 ** rng.randint(-6, 6) * rng.choice([1.0, -1.0]) for _ in range(n)]


def seasonal_series(rng, n):
    """clean seasonal data with exact zeros about an exactly representable mean: forecasts cross the mean exactly"""
    per = rng.choice([4, 4, 8])
    a = float(rng.randint(1, 9)) * rng.choice([1.0, 0.5, 2.0])
    c = float(rng.choice([0, 0, 3, -7, 100, 4096]))
    if per == 4:
        pat = [a, 0.0, -a, 0.0]
    else:
        b = float(rng.randint(1, 5))
        pat = [a, b, 0.0, -b, -a, -b, 0.0, b]
    n = max(per * 3, n - n % per)        # whole periods: the mean is exactly c
    ph = rng.randint(0, per - 1)
    return [c + pat[(i + ph) % per] for i in range(n)]


def bigoffset_series(rng, n):
    """unit spread about a mean of 1e5 / 1e6 (sd / |mean| <= 1e-5)"""
    off = rng.choice([1e5, 1e6, -1e5, -1e6, 131072.0, 1048576.0])
    base = series(rng, n, "ar")
    sd = (sum(v * v for v in base) / n) ** 0.5 or 1.0
    return [off + v / sd for v in base]


def gen_strata(rng, tier, add):
    q = tier == "quick"
    m = 1 if q else 12
    # 1. order exactly 8 (and 7, 9, 16, 24 for explicit states): `dot` over whole blocks of 8
    for _ in range(30 * m):
        reg = rng.choice(REGIMES)
        add("ar_fp %s:p8:h 8 %d %s" % (reg, rng.choice([1, 3, 20]), vec(series(rng, rng.choice([16, 24, 40, 64, 100, rng.randint(20, 300)]), reg))), "strata:p8")
    for _ in range(40 * m):
        p = rng.choice([8, 8, 8, 16, 16, 24, 7, 9, 15, 17, 32])
        co = [rng.uniform(-1, 1) / (1 + p / 8.0) for _ in range(p)]
        ic = rng.choice([0.0, 1.0, rng.normal(), 1e3, 1e6])
        hist = [ic + rng.normal() for _ in range(rng.choice([p, p, p + 1, p + 8, 2 * p, rng.randint(p, p + 30)]))]
        if rng.chance(0.5):
            add("ar_pred1 state:p%d %s %s %s" % (p, f2h(ic), vec(co), vec(hist)), "strata:blocks")
        else:
            add("ar_pred state:p%d %s %s %d %s" % (p, f2h(ic), vec(co), rng.choice([1, 2, 9, 30]), vec(hist)), "strata:blocks")
    # histories shorter than the order whose length is a multiple of 8 (F42 branch over whole blocks)
    for _ in range(10 * m):
        p = rng.choice([9, 12, 16, 17, 24, 25])
        n = rng.choice([v for v in (8, 16, 24) if v < p])
        co = [rng.uniform(-1, 1) / 3 for _ in range(p)]
        ic = rng.choice([0.0, 2.5, 100.0])
        add("ar_pred1 short:p%d:n%d %s %s %s" % (p, n, f2h(ic), vec(co), vec([ic + rng.normal() for _ in range(n)])), "strata:blocks")
    # 2. tiny spread about a huge mean
    for _ in range(30 * m):
        p = rng.randint(1, 8)
        ts = bigoffset_series(rng, rng.choice([20, 50, 64, 200, rng.randint(10, 400)]))
        r = rng.randint(0, 2)
        if r == 0:
            add("ar_fp bigoff:p%d:h %d %d %s" % (p, p, rng.choice([1, 5, 30]), vec(ts)), "strata:bigoff")
        elif r == 1:
            add("ar_fit bigoff:p%d %d %s" % (p, p, vec(ts)), "strata:bigoff")
        else:
            add("acs bigoff:small %d %s" % (min(50, len(ts)), vec(ts)), "strata:bigoff")
    # 3. lags exactly +-(n-1), +-(n-2), +-n on short series
    for _ in range(40 * m):
        n = rng.choice([2, 3, 4, 5, 8, 9, 16, 17, rng.randint(2, 40)])
        ts = series(rng, n, rng.choice(REGIMES)) if rng.chance(0.6) else special_series(rng, n)
        k = rng.choice([n - 1, -(n - 1), n - 1, -(n - 1), n - 2, -(n - 2), n, -n])
        add("%s edge:n%d %d %s" % (rng.choice(["acovf", "acf"]), min(n, 20), k, vec(ts)), "strata:edge-lag")
    for _ in range(10 * m):
        n = rng.randint(3, 30)
        add("acs edge:small %d %s" % (n, vec(series(rng, n, rng.choice(REGIMES)))), "strata:edge-lag")
    # 4. length boundaries (2^k, 2^k +- 1, multiples of 8 ...), n = 2048 / 2049 in particular
    for n in BOUNDARY_N * m:
        reg = rng.choice(REGIMES)
        add("acs bnd:small %d %s" % (rng.choice([3, 8, 50]), vec(series(rng, n, reg))), "strata:sizes")
        if n > 8 and rng.chance(0.5):
            pp = 8 if rng.chance(0.4) else rng.randint(1, 8)
            add("ar_fp bnd:p%d:h %d 4 %s" % (pp, pp, vec(series(rng, n, reg))), "strata:sizes")
    for n in (BOUNDARY_N_BIG if q else BOUNDARY_N_BIG * 4):
        reg = rng.choice(["ar", "offset", "trend"])
        add("acs bnd:big %d %s" % (rng.choice([2, 5, 50]), vec(series(rng, n, reg))), "strata:sizes")
        if rng.chance(0.35):
            add("ar_fp bnd:p%d:h %d 3 %s" % (4, 4, vec(series(rng, n, reg))), "strata:sizes")
    for n in [1, 2, 3, 7, 8, 9, 15, 16, 17, 31, 32, 33, 64, 65, 1024, 1025] * m:
        add("diff bnd %s" % vec(special_series(rng, n) if rng.chance(0.5) else [rng.normal() for _ in range(n)]), "strata:sizes")
    # 5. forecasts crossing the mean exactly: clean seasonal data, fitted and explicit-state
    for _ in range(30 * m):
        ts = seasonal_series(rng, rng.choice([16, 24, 40, 64, 120]))
        p = rng.choice([2, 2, 3, 4, 4, 6, 8])
        add("ar_fp seasonal:p%d:h %d %d %s" % (p, p, rng.choice([6, 12, 40]), vec(ts)), "strata:seasonal")
    for _ in range(20 * m):
        p = rng.choice([2, 2, 3, 4])
        co = [rng.choice([-0.9, -0.5, 0.75, -1.0]) if j == 0 else 0.0 for j in range(p)]   # only phi_p non-zero
        ic = float(rng.choice([0, 0, 5, -3, 1000]))
        a = float(rng.randint(1, 6))
        hist = [ic + v for v in ([a, 0.0, -a, 0.0] * 4)[:8 + rng.randint(0, 3)]]
        add("ar_pred seasonal-state:p%d %s %s %d %s" % (p, f2h(ic), vec(co), rng.choice([4, 9, 16]), vec(hist)), "strata:seasonal")
    # zero variance (constant series with an exactly computed mean) and empty series
    for _ in range(6 * m):
        c = rng.randint(-40, 40) / 4.0
        add("acs constant:small %d %s" % (rng.randint(0, 4), vec([c] * rng.randint(1, 20))), "strata:degenerate")
    add("acs empty:small 2 0", "strata:degenerate")
    # exact special values as data
    for _ in range(30 * m):
        n = rng.choice([10, 12, 16, 17, 33, rng.randint(10, 80)])
        ts = special_series(rng, n)
        r = rng.randint(0, 2)
        if r == 0:
            add("acs special:small %d %s" % (rng.choice([3, n - 1, n + 1]), vec(ts)), "strata:special")
        elif r == 1:
            add("ar_fp special:p%d:h %d 5 %s" % (2, rng.randint(1, 4), vec(ts)), "strata:special")
        else:
            add("ar_fit special:p%d %d %s" % (3, rng.randint(1, 8), vec(ts)), "strata:special")
    # extreme scale: the series times 2^k gives bit-identical autocorrelations / coefficients and exactly scaled
    # autocovariances, intercept and forecasts
    for j in range(24 * m):
        k = rng.choice([-400, -200, -60, 60, 200, 400])
        ts = series(rng, rng.choice([12, 16, 30, 64, rng.randint(10, 120)]), rng.choice(["ar", "ar", "offset", "grid"]))
        sc = [v * 2.0 ** k for v in ts]
        if rng.chance(0.5):
            add("acs scaleA:%d:small 5 %s" % (j, vec(ts)), "strata:scale")
            add("acs scaleB:%d:%d:small 5 %s" % (j, k, vec(sc)), "strata:scale")
        else:
            p = rng.randint(1, 8)
            add("ar_fp scaleA:%d:p%d %d 6 %s" % (j, p, p, vec(ts)), "strata:scale")
            add("ar_fp scaleB:%d:%d:p%d %d 6 %s" % (j, k, p, p, vec(sc)), "strata:scale")
    # object reuse: long series then short series on one object, order 8
    for _ in range(10 * m):
        p = rng.choice([8, 8, 3, 5])
        a, b = series(rng, rng.randint(200, 400), "ar"), series(rng, rng.randint(p + 2, 24), rng.choice(REGIMES))
        add("ar_refit refit:p%d:k2 %d 4 2 %s %s" % (p, p, vec(a), vec(b)), "strata:refit")


def gen(rng, tier):
    cover = {}
    lines = []

    def add(l, k):
        lines.append(l)
        cover[k] = cover.get(k, 0) + 1

    q = tier == "quick"
    n_acs, n_acs_big, n_ac1, n_diff, n_fit, n_fp, n_fp_big, n_pair, n_state, n_short, n_toe = \
        (120, 6, 240, 150, 180, 180, 8, 120, 180, 60, 20) if q else (2400, 120, 6000, 3000, 4000, 4000, 200, 2400, 4000, 1200, 200)
    for b in range(n_acs + n_acs_big):
        reg = rng.choice(REGIMES)
        ts = series(rng, size(rng, b >= n_acs), reg)
        add("acs %s:%s 50 %s" % (reg, "big" if b >= n_acs else "small", vec(ts)), "acs:" + reg)
    for _ in range(n_ac1):
        reg = rng.choice(REGIMES)
        n = rng.choice([rng.randint(1, 12), rng.randint(10, 80)])
        ts = series(rng, n, reg)
        k = rng.choice([rng.randint(-60, 60), rng.choice([-1, 1]) * n, rng.choice([-1, 1]) * (n + rng.randint(0, 3)), 0])
        add("%s %s:n%d %d %s" % (rng.choice(["acovf", "acf"]), reg, min(n, 20), k, vec(ts)), "ac1")
    add("acf empty 0 0", "ac1")
    add("acovf empty 3 0", "ac1")
    add("acf constant 1 %s" % vec([2.5] * 7), "ac1")
    for _ in range(n_diff):
        r = rng.randint(0, 3)
        n = rng.choice([0, 1, 2, rng.randint(3, 60)])
        if r == 0:     # cumulative sums of integer increments: exact inverse
            inc = [float(rng.randint(-1000, 1000)) for _ in range(n)]
            v, acc = [], float(rng.randint(-10 ** 6, 10 ** 6))
            for d in inc:
                v.append(acc)
                acc += d
            add("diff cumsum-int %s" % vec(v), "diff")
        elif r == 1:   # dyadic increments
            v, acc = [], 0.0
            for _ in range(n):
                v.append(acc)
                acc += rng.randint(-4096, 4096) / 256.0
            add("diff cumsum-dyadic %s" % vec(v), "diff")
        else:
            v = [rng.normal() * 10.0 ** rng.randint(-5, 5) for _ in range(n)]
            if rng.chance(0.1) and n:
                v[rng.randint(0, n - 1)] = rng.choice([float("inf"), float("nan"), -0.0])
            add("diff float %s" % vec(v), "diff")
    for _ in range(n_fit):
        reg = rng.choice(REGIMES)
        p = rng.randint(1, 8)
        add("ar_fit %s:p%d %d %s" % (reg, p, p, vec(series(rng, size(rng, False), reg))), "fit:" + reg)
    add("ar_fit zero-order 0 %s" % vec([1.0, 2.0, 3.0, 5.0]), "fit:bad")
    add("ar_fit constant 2 %s" % vec([3.0] * 12), "fit:bad")
    add("ar_fit short 4 %s" % vec([1.0, 2.0, 4.0]), "fit:bad")
    for b in range(n_fp + n_fp_big):
        reg = rng.choice(REGIMES)
        p = rng.randint(1, 8)
        big = b >= n_fp
        h = 1000 if (big or rng.chance(0.15)) else rng.choice([1, 2, rng.randint(1, 30), rng.randint(1, 200)])
        add("ar_fp %s:p%d:%s %d %d %s" % (reg, p, "h1000" if h == 1000 else "h", p, h, vec(series(rng, size(rng, big), reg))), "fp:" + reg)
    for j in range(n_pair):
        p = rng.randint(1, 8)
        h = rng.choice([1, 5, rng.randint(1, 60), 1000 if rng.chance(0.1) else 20])
        ts = series(rng, size(rng, False), "grid")
        c = float(rng.choice([1, -1]) * rng.choice([1, 7, 100, 10 ** 4, 10 ** 6, rng.randint(1, 10 ** 6)]))
        add("ar_fp pairA:%d:p%d %d %d %s" % (j, p, p, h, vec(ts)), "pair")
        add("ar_fp pairB:%d:p%d:%s %d %d %s" % (j, p, f2h(c), p, h, vec([v + c for v in ts])), "pair")
    for _ in range(n_state):
        p = rng.randint(1, 8)
        co = [rng.uniform(-1, 1) for _ in range(p)]
        ic = rng.choice([0.0, rng.normal(), 1e3 * rng.normal(), 1e6])
        hist = [ic + rng.normal() for _ in range(rng.randint(p, p + 20))]
        if rng.chance(0.5):
            add("ar_pred1 state:p%d %s %s %s" % (p, f2h(ic), vec(co), vec(hist)), "state")
        else:
            add("ar_pred state:p%d %s %s %d %s" % (p, f2h(ic), vec(co), rng.choice([0, 1, 2, rng.randint(1, 40)]), vec(hist)), "state")
    for _ in range(n_short):
        p = rng.randint(2, 8)
        co = [rng.uniform(-1, 1) for _ in range(p)]
        ic = rng.choice([0.0, rng.normal(), 100.0])
        hist = [ic + rng.normal() for _ in range(rng.randint(0, p - 1))]
        if rng.chance(0.7):
            add("ar_pred1 short:p%d:n%d %s %s %s" % (p, len(hist), f2h(ic), vec(co), vec(hist)), "short")
        else:
            add("ar_pred short:p%d:n%d %s %s %d %s" % (p, len(hist), f2h(ic), vec(co), rng.randint(0, 5), vec(hist)), "short")
    for _ in range(n_acs):   # one AR object fitted on several series in turn
        p = rng.randint(1, 8)
        k = rng.choice([2, 2, 3])
        h = rng.choice([1, 5, 20])
        ss = [series(rng, size(rng, False), rng.choice(REGIMES)) for _ in range(k)]
        add("ar_refit refit:p%d:k%d %d %d %d %s" % (p, k, p, h, k, " ".join(vec(x) for x in ss)), "refit")
    for _ in range(n_toe):
        add("toeplitz n %s" % vec([rng.normal() for _ in range(rng.randint(0, 9))]), "toeplitz")
    gen_strata(rng, tier, add)
    rng.shuffle(lines)
    return lines, cover


def corpus():
    L = []
    # F23 witness: forecasts of a series shifted by 100 must move by exactly 100
    base = [0.5, -1.25, 2.0, 0.75, -0.5, 1.5, -2.25, 0.25, 1.0, -1.0, 0.5, 2.5, -1.75, 0.0, 1.25, -0.25]
    L.append("ar_fp pairA:c0:p2 2 5 %s" % vec(base))
    L.append("ar_fp pairB:c0:p2:%s 2 5 %s" % (f2h(100.0), vec([v + 100.0 for v in base])))
    L.append("acs corpus 5 %s" % vec(base))
    L.append("diff corpus %s" % vec([1.0, 4.0, 9.0, 16.0]))
    L.append("diff corpus-empty 0")
    # degenerate series (acf_degenerate / acovf_empty): zero variance -> 0/0, empty -> 1/0 * -0
    L.append("acf constant 1 %s" % vec([2.5] * 7))
    L.append("acs constant 3 %s" % vec([-4.0] * 5))
    L.append("acf empty 0 0")
    L.append("acovf empty 2 0")
    # one object fitted twice: the second fit must overwrite every trace of the first (p coefficients, not 2p)
    L.append("ar_refit refit:c0:p2:k2 2 3 2 %s %s" % (vec(base), vec([v * v - 1.0 + 0.5 * i for i, v in enumerate(base)])))
    # F42 witness: history shorter than the order; stored coeffs [phi3, phi2, phi1] = [1/8, 1/4, 1/2], history [1]: 0.5
    L.append("ar_pred1 short:p3:n1 %s %s %s" % (f2h(0.0), vec([0.125, 0.25, 0.5]), vec([1.0])))
    return L


def nontrivial(line, reply):
    t = line.split()
    if not reply.startswith("="):
        return None
    tag = t[1].split(":")
    n = 0
    for tok in t[2:]:
        if len(tok) < 8 and tok.isdigit():
            n = max(n, int(tok))
    return "%s:%s:%s" % (t[0], ":".join(x for x in tag if not x.isdigit() and len(x) < 12)[:30], "big" if n >= 1000 else "small")


# ----------------------------------------------------------------------------- exact references
def take_vec(t, i):
    n = int(t[i])
    return [h2f(s) for s in t[i + 1:i + 1 + n]], i + 1 + n


def finite(xs):
    return all(v == v and abs(v) != float("inf") for v in xs)


class Acov:
    """Exact biased autocovariances of a float series and a-priori rounding bounds for the code's evaluation."""

    def __init__(self, z, K):
        n = len(z)
        self.n = n
        fr = [Fraction(v) for v in z]
        D = max(f.denominator for f in fr)
        zi = [f.numerator * (D // f.denominator) for f in fr]
        S = sum(zi)
        w = [n * v - S for v in zi]          # a_i = w_i / (n D)
        self.den = Fraction(n) ** 3 * D * D   # c_k = sum_i w_i w_{i-k} / (n^3 D^2)
        self.c = []
        for k in range(0, K + 1):
            self.c.append(Fraction(sum(w[i] * w[i - k] for i in range(k, n)), 1) / self.den if k < n else Fraction(0))
        self.mean = Fraction(S, n * D)
        self.c0 = float(self.c[0])
        meanabs = sum(abs(v) for v in z) / n
        maxa = float(Fraction(max(abs(v) for v in w), n * D))
        meana = float(Fraction(sum(abs(v) for v in w), n * n * D))
        self.mean_err = (n + 2) * U * meanabs                       # |computed mean - mean|
        delta = self.mean_err + U * (maxa + self.mean_err)          # error of one centred value
        self.E = 2 * meana * delta + delta * delta + (n + 4) * U * (self.c0 + 2 * meana * delta + delta * delta)
        self.maxa = maxa

    def r(self, k):
        return self.c[k] / self.c[0]

    def acf_err(self):
        """bound for |computed acf - acf| (None when the variance is not resolved)"""
        if self.c0 <= 0 or self.E >= self.c0 / 4:
            return None
        return 2 * self.E / (self.c0 - self.E) + 8 * U


STATS = {}


def note(name, ratio):
    if ratio > STATS.get(name, 0.0):
        STATS[name] = ratio


def check_acs(ts, lags, acov_vals, acf_vals, key, i, fails):
    """definitions (exact), evenness (bit-exact), acf(0) = 1, |acf| <= 1, lags beyond the length give 0."""
    n = len(ts)
    if n == 0:
        # acovf_empty: 1/0 * -0 and (1/0 * -0) / (-0/0): NaN
        for k, cv, rv in zip(lags, acov_vals, acf_vals):
            for name, v in (("acovf", cv), ("acf", rv)):
                if v is not None and v == v:
                    fails.append(Failure(i, "%s:empty" % name, "%s of an empty series at lag %d is %r, expected NaN (1/0 * -0)" % (name, k, v)))
                    return
        return
    if not finite(ts):
        return
    if len(set(ts)) == 1 and n <= 1000 and abs(ts[0]) < 2.0 ** 20 and float(ts[0] * 4).is_integer():
        # acf_degenerate: constant series whose mean is computed exactly: every centred value is 0, acovf = 0, acf = 0/0
        for k, cv, rv in zip(lags, acov_vals, acf_vals):
            if cv is not None and not cv == 0.0:
                fails.append(Failure(i, "acovf:constant", "acovf of the constant series %r (n = %d) at lag %d is %r, expected 0" % (ts[0], n, k, cv)))
                return
            if rv is not None and rv == rv:
                fails.append(Failure(i, "acf:constant", "acf of the constant series %r (n = %d) at lag %d is %r, expected NaN (0/0: zero variance)" % (ts[0], n, k, rv)))
                return
        return
    K = max(abs(k) for k in lags)
    A = Acov(ts, min(K, n))
    byk = {}
    for k, cv, rv in zip(lags, acov_vals, acf_vals):
        byk[k] = (cv, rv)
    re = A.acf_err()
    for k, (cv, rv) in byk.items():
        ak = abs(k)
        if -k in byk:
            c2, r2 = byk[-k]
            if cv is not None and c2 is not None and f2h(cv) != f2h(c2):
                fails.append(Failure(i, "acovf:even", "acovf(ts, %d) = %r but acovf(ts, %d) = %r" % (k, cv, -k, c2)))
                return
            if rv is not None and r2 is not None and f2h(rv) != f2h(r2):
                fails.append(Failure(i, "acf:even", "acf(ts, %d) = %r but acf(ts, %d) = %r" % (k, rv, -k, r2)))
                return
        if ak >= n:
            if cv is not None and not cv == 0.0:
                fails.append(Failure(i, "acovf:large-lag", "acovf at lag %d of a length-%d series is %r, expected 0" % (k, n, cv)))
                return
            if rv is not None and re is not None and not rv == 0.0:
                fails.append(Failure(i, "acf:large-lag", "acf at lag %d of a length-%d series is %r, expected 0" % (k, n, rv)))
                return
            continue
        if cv is not None:
            ex = float(A.c[ak])
            tol = C_AC * A.E + 4 * U * abs(ex)
            if A.E > 0:
                note("acovf", abs(cv - ex) / A.E)
            if not abs(cv - ex) <= tol:
                fails.append(Failure(i, "acovf:def", "acovf(ts, %d) = %.17g, definition gives %.17g (allowance %.3g)" % (k, cv, ex, tol), ex))
                return
        if rv is not None and re is not None:
            ex = float(A.r(ak))
            note("acf", abs(rv - ex) / re)
            if not abs(rv - ex) <= C_AC * re:
                fails.append(Failure(i, "acf:def", "acf(ts, %d) = %.17g, definition gives %.17g (allowance %.3g)" % (k, rv, ex, C_AC * re), ex))
                return
            if k == 0 and not abs(rv - 1.0) <= 8 * U:
                fails.append(Failure(i, "acf:lag0", "acf(ts, 0) = %.17g, expected 1" % rv, 1.0))
                return
            if not abs(rv) <= 1.0 + 8 * (n + 4) * U:
                fails.append(Failure(i, "acf:bound", "|acf(ts, %d)| = %.17g exceeds 1" % (k, abs(rv))))
                return


def inv_exact(G):
    p = len(G)
    A = [row[:] + [Fraction(int(i == j)) for j in range(p)] for i, row in enumerate(G)]
    for c in range(p):
        piv = next((r for r in range(c, p) if A[r][c] != 0), None)
        if piv is None:
            return None
        A[c], A[piv] = A[piv], A[c]
        pv = A[c][c]
        A[c] = [v / pv for v in A[c]]
        for r in range(p):
            if r != c and A[r][c] != 0:
                f = A[r][c]
                A[r] = [a - f * b for a, b in zip(A[r], A[c])]
    return [row[p:] for row in A]


class FitRef:
    """Exact Yule-Walker system of a series for order p."""

    def __init__(self, data, p):
        self.A = Acov(data, p)
        self.p = p
        self.ok = False
        re = self.A.acf_err()
        if re is None:
            return
        # the code centres the data first: one more rounding of relative size u on every centred value
        self.re = re + 16 * U * (1 + self.A.mean_err / max(math.sqrt(self.A.c0), 1e-300))
        r = [Fraction(float(self.A.r(k))) for k in range(p + 1)]
        self.r = r
        R = [[r[abs(i - j)] for j in range(p)] for i in range(p)]
        Ri = inv_exact(R)
        if Ri is None:
            return
        self.R, self.Ri = R, Ri
        self.ninv = float(max(sum(abs(v) for v in row) for row in Ri))
        self.cond = float(max(sum(abs(v) for v in row) for row in R)) * self.ninv
        self.phi = [sum(Ri[i][j] * r[j + 1] for j in range(p)) for i in range(p)]
        self.ok = True

    def phi_tol(self, phi_hat):
        l1 = 1.0 + sum(abs(v) for v in phi_hat)
        return self.ninv * l1 * (self.re + 2 * self.p * U * self.cond)


def check_fit(data, p, ic, coeffs, key, i, fails):
    """intercept = mean; coefficients (un-reversed) solve the Yule-Walker equations of the exact autocorrelations.
    -> FitRef or None (None: outside the guard / failed)"""
    if len(coeffs) != p:
        fails.append(Failure(i, "ar_fit:len", "fit of order %d stored %d coefficients" % (p, len(coeffs))))
        return None
    F = FitRef(data, p)
    A = F.A
    m = float(A.mean)
    if A.mean_err > 0:
        note("mean", abs(ic - m) / A.mean_err)
    if not abs(ic - m) <= C_MEAN * A.mean_err + 2 * U * abs(m):
        fails.append(Failure(i, "ar_fit:intercept", "intercept %.17g is not the series mean %.17g" % (ic, m), m))
        return None
    if not F.ok or not finite(coeffs):
        if F.ok and C_YW * F.phi_tol([float(v) for v in F.phi]) < SKIP_AT:
            fails.append(Failure(i, "ar_fit:nonfinite", "well-conditioned fit (cond %.3g) stored coefficients %r" % (F.cond, coeffs)))
        return None
    phi = list(reversed(coeffs))
    l1 = 1.0 + sum(abs(v) for v in phi)
    base = l1 * (F.re + 2 * p * U * F.cond)
    if C_YW * F.ninv * base >= SKIP_AT:
        return None     # autocorrelation matrix too ill-conditioned for a meaningful bound
    worst = 0.0
    for a in range(p):
        res = sum(Fraction(phi[j]) * F.r[abs(a - j)] for j in range(p)) - F.r[a + 1]
        worst = max(worst, abs(float(res)))
    note("yw", worst / base)
    if not worst <= C_YW * base:
        fails.append(Failure(i, "ar_fit:yule-walker", "order %d: Yule-Walker residual max_i |sum_j phi_j r_|i-j| - r_i| = %.6g, allowance %.3g (cond %.3g); phi = %r"
                             % (p, worst, C_YW * base, F.cond, phi), [float(v) for v in F.phi]))
        return None
    return F


def recursion(phi, z0, h, mp):
    """exact AR recursion on the centred window z0 (oldest first); returns (values, rounding bound of the float evaluation)"""
    p = len(phi)
    w = [mp.mpf(v) for v in z0]
    e = [U * abs(float(v)) for v in z0]
    aphi = [abs(v) for v in phi]
    out, err = [], []
    for _ in range(h):
        s = mp.mpf(0)
        ab = 0.0
        ee = 0.0
        for j in range(p):
            s += mp.mpf(phi[j]) * w[-1 - j]
            ab += aphi[j] * abs(float(w[-1 - j]))
            ee += aphi[j] * e[-1 - j]
        ee += (p + 2) * U * ab
        out.append(s)
        err.append(ee)
        w = w[1:] + [s] if p else w
        e = e[1:] + [ee] if p else e
    return out, err


def check_forecasts(ic, coeffs, hist, preds, key, i, fails, what):
    """forecast h = intercept + z_h with z the AR recursion on the mean-centred last p values."""
    import mpmath
    mp = mpmath.mp
    mp.prec = 240
    p = len(coeffs)
    phi = list(reversed(coeffs))
    z0 = [mp.mpf(v) - mp.mpf(ic) for v in hist[len(hist) - p:]] if p else []
    z, err = recursion(phi, z0, len(preds), mp)
    for hh, (zv, ev, got) in enumerate(zip(z, err, preds)):
        ex = float(zv + mp.mpf(ic))
        bound = ev + 2 * U * (abs(float(zv)) + abs(ic))
        if bound > 0 and got == got and abs(got) != float("inf"):
            note("pred", abs(got - ex) / bound)
        if not abs(got - ex) <= C_PRED * bound:
            if abs(ex) > 1e300 or ex != ex:
                return z
            fails.append(Failure(i, "%s:recursion" % what, "forecast %d is %.17g, mean + AR recursion on the centred history gives %.17g (allowance %.3g)"
                                 % (hh + 1, got, ex, C_PRED * bound), ex))
            return None
    return z


def check_convergence(ic, coeffs, z0abs, preds, i, fails):
    """stationary fit: the horizon-h forecast is within kappa rho^h |z0| of the mean."""
    import numpy as np
    p = len(coeffs)
    phi = list(reversed(coeffs))
    Cm = np.zeros((p, p))
    Cm[0, :] = phi
    for j in range(1, p):
        Cm[j, j - 1] = 1.0
    ev, V = np.linalg.eig(Cm)
    rho = float(max(abs(ev)))
    if not rho < 0.995:
        return
    kappa = float(np.linalg.cond(V))
    if not kappa < 1e8:
        return
    h = len(preds)
    bound = 4 * kappa * (rho * (1 + 1e-9)) ** (h - p) * z0abs * math.sqrt(p) + 64 * p * U * (abs(ic) + z0abs) / (1 - rho)
    if not abs(preds[-1] - ic) <= bound:
        fails.append(Failure(i, "ar_predict:convergence", "stationary fit (spectral radius %.4f): forecast at horizon %d is %.17g, series mean %.17g, allowance %.3g"
                             % (rho, h, preds[-1], ic, bound), ic))


def sens_bound(phi, z0, h, dphi, dz0):
    """first-order bound of the change of the recursion under |dphi_j| <= dphi, |dz0| <= dz0 (actual-sign propagation
    per source, absolute values summed over sources)"""
    p = len(phi)
    z = list(z0)
    for _ in range(h):
        z.append(sum(phi[j] * z[-1 - j] for j in range(p)))
    tot = [0.0] * h
    # sources: each coefficient j (injects z_{t-1-j} at every step), each initial value
    for j in range(p):
        g = [0.0] * p
        for t in range(h):
            v = sum(phi[a] * g[-1 - a] for a in range(p)) + z[p + t - 1 - j]
            g.append(v)
            tot[t] += abs(v) * dphi
    for j in range(p):
        g = [0.0] * p
        g[j] = 1.0
        for t in range(h):
            v = sum(phi[a] * g[-1 - a] for a in range(p))
            g.append(v)
            tot[t] += abs(v) * dz0
    return tot


def parse_fp(toks):
    fl = toks
    ic = h2f(fl[0])
    n = int(fl[1])
    co = [h2f(s) for s in fl[2:2 + n]]
    p1 = h2f(fl[2 + n])
    m = int(fl[3 + n])
    pr = [h2f(s) for s in fl[4 + n:4 + n + m]]
    return ic, co, p1, pr


def oracle(lines, impl):
    import os
    fails = []
    pairs = {}
    scales = {}
    for i, (l, rep) in enumerate(zip(lines, impl)):
        t = l.split()
        op, tag = t[0], t[1]
        st, toks = parse_reply(rep)
        if st == "skip":
            continue
        key = "%s:%s" % (op, tag)
        if st == "bad":
            fails.append(Failure(i, key, "executor reply %r" % rep))
            continue
        if op in ("acovf", "acf"):
            k = int(t[2])
            ts = take_vec(t, 3)[0]
            if st != "ok":
                fails.append(Failure(i, key, "%s: %s" % (op, st)))
                continue
            v = h2f(toks[0])
            check_acs(ts, [k], [v if op == "acovf" else None], [v if op == "acf" else None], key, i, fails)
        elif op == "acs":
            kmax = int(t[2])
            ts = take_vec(t, 3)[0]
            if st != "ok":
                fails.append(Failure(i, key, "acovf/acf: %s" % st))
                continue
            m = 2 * kmax + 1
            a = [h2f(s) for s in toks[1:1 + m]]
            b = [h2f(s) for s in toks[2 + m:2 + 2 * m]]
            check_acs(ts, list(range(-kmax, kmax + 1)), a, b, key, i, fails)
            if tag.startswith("scale"):
                scales.setdefault("acs" + tag.split(":")[1], {})[tag[5]] = (i, tag, a + [None] + b)
        elif op == "diff":
            v = take_vec(t, 2)[0]
            if len(v) == 0:
                if st != "panic":
                    fails.append(Failure(i, "difference:empty", "difference of an empty vector returned %r" % rep))
                continue
            if st != "ok":
                fails.append(Failure(i, key, "difference: %s" % st))
                continue
            got = toks[1:]
            exp = [f2h(v[j + 1] - v[j]) for j in range(len(v) - 1)]
            if got != exp:
                fails.append(Failure(i, "difference:def", "difference(%r...) = %r..., expected the consecutive differences %r..." % (v[:4], [h2f(s) for s in got[:4]], [h2f(s) for s in exp[:4]]), exp))
        elif op == "toeplitz":
            x = take_vec(t, 2)[0]
            n = len(x)
            got = toks[1:]
            exp = [f2h(x[abs(a - b)]) for a in range(n) for b in range(n)]
            if st != "ok" or got != exp:
                fails.append(Failure(i, "toeplitz:def", "toeplitz(%r) = %s" % (x, rep[:200]), exp))
        elif op == "ar_fit" or op == "ar_fp":
            p = int(t[2])
            data = take_vec(t, 4 if op == "ar_fp" else 3)[0]
            h = int(t[3]) if op == "ar_fp" else 0
            if p == 0:
                if st != "panic":
                    fails.append(Failure(i, "ar:zero-order", "AR::new(0) did not panic"))
                continue
            if not finite(data) or len(data) <= p or len(set(data)) < 2:
                continue
            if st != "ok":
                F = FitRef(data, p)
                if F.ok and C_YW * F.phi_tol([float(v) for v in F.phi]) < SKIP_AT:
                    fails.append(Failure(i, key, "fit of order %d to %d points (cond %.3g): %s" % (p, len(data), F.cond, st)))
                continue
            if op == "ar_fit":
                ic = h2f(toks[0])
                co = [h2f(s) for s in toks[2:]]
                check_fit(data, p, ic, co, key, i, fails)
                continue
            ic, co, p1, pr = parse_fp(toks)
            if tag.startswith("scale"):
                scales.setdefault("fp" + tag.split(":")[1], {})[tag[5]] = (i, tag, [ic] + pr + [None] + co)
            F = check_fit(data, p, ic, co, key, i, fails)
            if len(pr) != h:
                fails.append(Failure(i, "ar_predict:len", "predict(data, %d) returned %d forecasts" % (h, len(pr))))
                continue
            if not finite(co):
                continue
            if h and f2h(p1) != f2h(pr[0]):
                fails.append(Failure(i, "ar_predict:one-vs-many", "predict_one(data) = %r but predict(data, %d)[0] = %r" % (p1, h, pr[0])))
                continue
            z = check_forecasts(ic, co, data, pr, key, i, fails, "ar_predict")
            if z is None:
                continue
            z0abs = max(abs(v - ic) for v in data[len(data) - p:])
            if F is not None and h >= 200:
                check_convergence(ic, co, z0abs, pr, i, fails)
            if tag.startswith("pair") and F is not None:
                pid = tag.split(":")[1]
                pairs.setdefault(pid, {})[tag[4]] = (i, tag, data, ic, co, pr, F)
        elif op == "ar_refit":
            p, h, k = int(t[2]), int(t[3]), int(t[4])
            ss, j = [], 5
            for _ in range(k):
                v, j = take_vec(t, j)
                ss.append(v)
            if p == 0 or any((not finite(v)) or len(v) <= p or len(set(v)) < 2 for v in ss):
                continue
            if st != "ok":
                Fs = [FitRef(v, p) for v in ss]
                if all(F.ok and C_YW * F.phi_tol([float(x) for x in F.phi]) < SKIP_AT for F in Fs):
                    fails.append(Failure(i, key, "refit of order %d on %d well-conditioned series: %s" % (p, k, st)))
                continue
            q, blocks, okp = 0, [], True
            try:
                for _ in range(k):
                    ic = h2f(toks[q])
                    n = int(toks[q + 1])
                    co = [h2f(x) for x in toks[q + 2:q + 2 + n]]
                    q += 2 + n
                    m = int(toks[q])
                    pr = [h2f(x) for x in toks[q + 1:q + 1 + m]]
                    q += 1 + m
                    blocks.append((ic, co, pr))
            except (ValueError, IndexError):
                okp = False
            if not okp or q != len(toks):
                fails.append(Failure(i, key, "malformed reply %r" % rep[:120]))
                continue
            bad = [(a, len(b[1])) for a, b in enumerate(blocks) if len(b[1]) != p]
            if bad:
                fails.append(Failure(i, "ar_refit:coeff-count", "AR(%d) object fitted %d times: after fit #%d it stores %d coefficients instead of %d "
                                     "(state of an earlier fit survives a re-fit)" % (p, k, bad[0][0] + 1, bad[0][1], p)))
                continue
            ic, co, pr = blocks[-1]
            F = check_fit(ss[-1], p, ic, co, key, i, fails)
            if len(pr) != h:
                fails.append(Failure(i, "ar_predict:len", "predict(data, %d) returned %d forecasts" % (h, len(pr))))
                continue
            if finite(co):
                check_forecasts(ic, co, ss[-1], pr, key, i, fails, "ar_refit")
        elif op in ("ar_pred1", "ar_pred"):
            ic = h2f(t[2])
            co, j = take_vec(t, 3)
            if op == "ar_pred":
                h = int(t[j])
                j += 1
            hist = take_vec(t, j)[0]
            p = len(co)
            if len(hist) < p:
                # history shorter than the order (F42): predict_one runs the recursion over the values that exist
                # (lag j weighted by phi_j, unobserved older values at the mean); predict panics (usize underflow).
                if op == "ar_pred":
                    continue   # no claim (the code panics; pinned by the correspondence check)
                if st != "ok":
                    fails.append(Failure(i, "ar:predict_one:short-history", "predict_one on a history of %d < p = %d values: %s" % (len(hist), p, st)))
                    continue
                n = len(hist)
                phi = list(reversed(co))
                ex = Fraction(ic) + sum(Fraction(phi[a]) * (Fraction(hist[n - 1 - a]) - Fraction(ic)) for a in range(n))
                ab = abs(ic) + sum(abs(phi[a]) * (abs(hist[n - 1 - a]) + abs(ic)) for a in range(n))
                got = h2f(toks[0])
                if not abs(Fraction(got) - ex) <= Fraction((p + 4) * 2 * U) * Fraction(ab):
                    fails.append(Failure(i, "ar:predict_one:short-history",
                                         "predict_one on a history of %d < p = %d values returned %.17g; the AR recursion on the available values "
                                         "(lag j weighted by phi_j, older values at the mean) gives %.17g" % (n, p, got, float(ex)), float(ex)))
                continue
            if st != "ok":
                fails.append(Failure(i, key, "%s: %s" % (op, st)))
                continue
            if not finite(co + hist + [ic]):
                continue
            pr = [h2f(toks[0])] if op == "ar_pred1" else [h2f(s) for s in toks[1:]]
            if op == "ar_pred" and len(pr) != h:
                fails.append(Failure(i, "ar_predict:len", "predict(data, %d) returned %d forecasts" % (h, len(pr))))
                continue
            check_forecasts(ic, co, hist, pr, key, i, fails, "ar_predict_one" if op == "ar_pred1" else "ar_predict")
    # exact scale equivariance: series * 2^k -> autocovariances * 2^2k / intercept and forecasts * 2^k (bit-exact),
    # autocorrelations and coefficients bit-identical
    for sid, ab in scales.items():
        if "A" not in ab or "B" not in ab:
            continue
        (ia, taga, va), (ib, tagb, vb) = ab["A"], ab["B"]
        k = int(tagb.split(":")[2])
        f = 2.0 ** (2 * k if sid.startswith("acs") else k)
        if len(va) != len(vb):
            continue
        scaled = True
        for x, y in zip(va, vb):
            if x is None:
                scaled = False
                continue
            if x != x or y != y:
                continue
            want = x * f if scaled else x
            if abs(want) == float("inf") or (want != 0 and abs(want) < 1e-290):
                continue
            if f2h(want) != f2h(y) and not (want == 0 and y == 0):
                what = ("autocovariance" if sid.startswith("acs") else "intercept/forecast") if scaled else ("autocorrelation" if sid.startswith("acs") else "coefficient")
                fails.append(Failure(ib, "scale:%s" % ("acs" if sid.startswith("acs") else "ar"),
                                     "series * 2^%d: %s %r became %r, expected %r (exact power-of-two scaling)" % (k, what, x, y, want), want))
                break
    # shift equivariance by paired runs
    for pid, ab in pairs.items():
        if "A" not in ab or "B" not in ab:
            continue
        ia, taga, da, ica, coa, pra, Fa = ab["A"]
        ib, tagb, db, icb, cob, prb, Fb = ab["B"]
        c = h2f(tagb.split(":")[3])
        if any(Fraction(x) + Fraction(c) != Fraction(y) for x, y in zip(da, db)):
            continue   # the shifted series was not formed exactly
        p = len(coa)
        tol_m = C_MEAN * (Fa.A.mean_err + Fb.A.mean_err) + 4 * U * (abs(ica) + abs(c))
        if not abs(icb - ica - c) <= tol_m:
            fails.append(Failure(ib, "ar_fit:shift-intercept", "series + %g: intercept moved by %.17g" % (c, icb - ica), ica + c))
            continue
        tphi = C_YW * (Fa.phi_tol(list(reversed(coa))) + Fb.phi_tol(list(reversed(cob))))
        if tphi >= SKIP_AT:
            continue
        dphi = max(abs(x - y) for x, y in zip(coa, cob))
        if tphi > 0:
            note("pair-phi", dphi / (tphi / C_YW))
        if not dphi <= tphi:
            fails.append(Failure(ib, "ar_fit:shift-coeffs", "series + %g: coefficients changed by %.6g (allowance %.3g): %r vs %r" % (c, dphi, tphi, coa, cob)))
            continue
        phi = list(reversed(coa))
        z0 = [v - ica for v in da[len(da) - p:]]
        h = len(pra)
        dz0 = 4 * U * (abs(icb) + max(abs(v) for v in db[len(db) - p:])) + tol_m
        sb = sens_bound(phi, z0, h, tphi, dz0)
        for hh in range(h):
            d = prb[hh] - pra[hh] - c
            tol = C_PAIR * sb[hh] + tol_m + 8 * U * (abs(prb[hh]) + abs(pra[hh]))
            if sb[hh] > 0:
                note("pair-pred", abs(d) / (sb[hh] + tol_m))
            if not abs(d) <= tol:
                fails.append(Failure(ib, "ar_predict:shift", "series + %g: forecast %d moved by %.17g instead of %g (allowance %.3g)" % (c, hh + 1, prb[hh] - pra[hh], c, tol), pra[hh] + c))
                break
    if os.environ.get("CV_CALIBRATE"):
        print("[c13 calibrate] worst observed ratios to the a-priori bounds:", {k: float("%.4g" % v) for k, v in sorted(STATS.items())})
    return fails

# --- deep theorems (2: inverse hypothesis discharged)
PROOF_MODULES = PROOF_MODULES + ['Compute.Props.C01SolveApps']
REQUIRED_THEOREMS = REQUIRED_THEOREMS + ['Cv.C01Solve.ar_fit_yule_walker_unconditional', 'Cv.C01Solve.ar_fit_total']
_np = list(NOT_PROVED)
_np = [('exactness of invert_matrix is no longer a hypothesis: Props/C01SolveApps proves the Yule-Walker equations of the fitted coefficients unconditionally for a non-singular Toeplitz matrix (exact arithmetic)' if 'invert_matrix' in str(x) else x) for x in _np]
NOT_PROVED = [x for x in _np if x is not None]

# --- deep theorems (C13Conv)
PROOF_MODULES = PROOF_MODULES + ['Compute.Props.C13Conv']
REQUIRED_THEOREMS = REQUIRED_THEOREMS + ['Cv.C13C.predict_prefix', 'Cv.C13C.forecast_abs_le', 'Cv.C13C.predict_abs_le', 'Cv.C13C.forecast_tendsto', 'Cv.C13C.forecast_eventually', 'Cv.C13C.fit_forecast_tendsto', 'Cv.C13C.forecast_tendsto_of_spectralRadius_lt_one', 'Cv.C13C.forecast_tendsto_of_ar_roots']
NOT_PROVED = [x for x in NOT_PROVED if not any(k in str(x) for k in ('convergence of the forecasts',))]
NOT_PROVED = NOT_PROVED + ["that a Yule-Walker fit always yields a stationary model (not true in general for the biased estimator with this inverse route: searched by the oracle); convergence of the forecasts to the mean IS proved whenever sum|phi_j| < 1 (geometric bound c^ceil(h/p)) and, via Gelfand's formula on the companion matrix, whenever all roots of z^p - phi_1 z^(p-1) - ... - phi_p lie inside the unit disc (Props/C13Conv)"]

# --- deep theorems (Rounding3)
PROOF_MODULES = PROOF_MODULES + ['Compute.Lemmas.AcovfRounding', 'Compute.Lemmas.AcfRounding', 'Compute.Lemmas.MatmulRounding', 'Compute.Props.Rounding3']
REQUIRED_THEOREMS = REQUIRED_THEOREMS + ['Cv.Rounding3.acovf_error', 'Cv.Rounding3.acovf_zero_error', 'Cv.Rounding3.acovf_mean_term_first_order', 'Cv.Rounding3.acf_abs_le', 'Cv.Rounding3.acf_zero_error', 'Cv.Rounding3.acf_zero_error_idem', 'Cv.Rounding3.stdmodel_acf_note', 'Cv.Rounding3.matvec_error']
NOT_PROVED = [x for x in NOT_PROVED if not any(k in str(x) for k in ('floating-point rounding',))]
NOT_PROVED = NOT_PROVED + ['rounding of the fitted coefficients and forecasts (oracle only); for acovf/acf the float-level claims ARE proved in the standard model (Props/Rounding3): acovf error bound (with a provably necessary first-order mean term for lag k > 0), |acf| <= 1 + gamma, |acf(0) - 1| <= gamma_4']

# --- source tie, loops (tools/rs2lean.py loops=True: accumulation loops and iterator chains regenerated from /repo/src into
# Generated/SrcC13Loops.lean and proved equal to the hand model in Props/SrcTieC13Loops.lean)
from . import srctie
srctie.wire_loops(globals(), 'C13')
PROOF_MODULES = PROOF_MODULES + ['Compute.Lemmas.SrcLoops']

# --- deep theorems (Rounding5: float-level bounds in the standard model, wired by the lead)
PROOF_MODULES = PROOF_MODULES + [m for m in ['Compute.Lemmas.Rounding5', 'Compute.Props.Rounding5'] if m not in PROOF_MODULES]
REQUIRED_THEOREMS = REQUIRED_THEOREMS + ['Cv.Rounding5.predictOne_error', 'Cv.Rounding5.arTerms_sum', 'Cv.Rounding5.difference_error']
NOT_PROVED = list(NOT_PROVED) + ['the one-step forecast IS bounded by theorem in the standard model (Props/Rounding5): |predict_one - (c + sum phi_j (x_j - c))| <= gamma_(p+3) (|c| + sum |phi_j||x_j - c|), and difference is exact up to one rounding per entry']

# --- deep theorems (Rounding6: end-to-end residual / backward-error bounds in the standard model, wired by the lead)
PROOF_MODULES = PROOF_MODULES + [m for m in ['Compute.Lemmas.Rounding6', 'Compute.Props.Rounding6'] if m not in PROOF_MODULES]
REQUIRED_THEOREMS = REQUIRED_THEOREMS + ['Cv.Rounding6.yuleWalker_residual', 'Cv.Rounding6.invertMatrix_residual']
NOT_PROVED = list(NOT_PROVED) + ['the Yule-Walker solve IS bounded end to end as a residual of the Toeplitz system of the computed autocorrelations (Props/Rounding6 yuleWalker_residual: gamma_(3p+1) W Z + gamma_(p+1) |R| Z); its propagation to the coefficients (cond(R)) is oracle only']

# --- source tie (translator pass 5: AR::predict_one / predict_one_centred incl. the short-history branch, Generated/SrcC13Mut.lean, Props/SrcTieC13Mut.lean)
from . import srctie
srctie.wire_mut(globals(), 'C13')

# --- review fixes (C13 owner): wording of the claims wired above
def _reword(x):
    x = str(x)
    x = x.replace("unconditionally for a non-singular Toeplitz matrix (exact arithmetic)",
                  "without the inverse hypothesis, over an ordered field whose sqrt and abs are exact (e.g. the reals; not Q), for a "
                  "non-singular Toeplitz autocorrelation matrix (ar_fit_total; instantiated over R in Props/C13Review)")
    return x
NOT_PROVED = [_reword(x) for x in NOT_PROVED]
NOT_PROVED = NOT_PROVED + ["the convergence theorems of Props/C13Conv take ARBITRARY coefficients with sum|phi_j| < 1 or roots inside the "
                           "unit disc; only fit_forecast_tendsto mentions arFit. That a given fit meets either condition is not proved "
                           "(oracle: horizon >= 200 convergence check on stationary fits)"]

# --- review repairs in the Rounding layer (renamed stdmodel_* theorems, underflow-aware variants, genuine FlModel instance; wired by the lead)
PROOF_MODULES = PROOF_MODULES + [m for m in ['Compute.Lemmas.FlModelGrid', 'Compute.Props.RoundingGrid'] if m not in PROOF_MODULES]
REQUIRED_THEOREMS = REQUIRED_THEOREMS + [t for t in ['Cv.RoundingGrid.AR.arA', 'Cv.FlModel.grid_abs_sub_le', 'Cv.FlModel.grid_idem', 'Cv.FlModel.grid_mono', 'Cv.FlModel.grid_rnd_one', 'Cv.FlModel.grid_rnd_natCast', 'Cv.FlModel.grid_rnd_dyadic', 'Cv.FlModel.f64grid_u', 'Cv.FlModel.f64grid_mono'] if t not in REQUIRED_THEOREMS]
NOT_PROVED = list(NOT_PROVED) + ['theorems named stdmodel_* hold in the idealised standard model (fl(x) = x(1+d) for every operation, library functions with relative error <= u_f for every argument) at u = 2^-53; they describe binary64 only where nothing overflows or underflows (for exp: arguments in [-708.39, 709.78]); outside that range computed values may be exactly 0 or inf', 'FlModel has a genuine instance, FlModel.grid p (radix 2, p digits, round to nearest, unbounded exponent; f64grid has u = 2^-53), proved to satisfy the standard model and to be idempotent and monotone, with integers <= 2^p and dyadics exact (Lemmas/FlModelGrid); headline rounding theorems are instantiated on it (Props/RoundingGrid); overflow and underflow remain outside the model']
