import Compute.Props.C04
/-
C04 — entries that contribute nothing to the sum of the shifted exponentials (in `f64`: entries at `−∞`, and any entry more
than ≈ 745 below the maximum) still COUNT in `logmeanexp`, and do not change `logsumexp`.

Stated for an arbitrary scalar (additive monoid, any `exp`): "contributes nothing" is the hypothesis `exp (e − m) = 0`, which is
what `f64` computes for `e = −∞` and finite `m` (`exp(−∞) = 0`); ℝ has no such element, so the statement cannot be phrased with
a real `−∞`, but it can with the property that matters.  Seeded change C04r dropped such entries from the count of `logmeanexp`.
-/
namespace Cv.C04
open Cv Cv.Vops Cv.VecOps

section Pad
variable {α : Type} [AddMonoid α] [Sub α] [Transc α]

/-- Entries whose shifted exponential is `0` do not change the sum of the shifted exponentials, wherever they stand. -/
theorem shiftedExpSum_filter (m : α) (x : List α) (keep : α → Bool)
    (h : ∀ e ∈ x, keep e = false → Transc.exp (e - m) = 0) :
    shiftedExpSum m (x.filter keep) = shiftedExpSum m x := by
  unfold shiftedExpSum
  rw [foldl_add_eq, foldl_add_eq]
  congr 1
  induction x with
  | nil => rfl
  | cons a l ih =>
    have ih' := ih (fun e he => h e (List.mem_cons_of_mem _ he))
    rw [List.filter_cons]
    by_cases hk : keep a = true
    · simp only [hk, if_true, List.map_cons, List.sum_cons, ih']
    · have hk' : keep a = false := by simpa using hk
      have h0 : Transc.exp (a - m) = (0 : α) := h a (by simp) hk'
      simp only [hk', Bool.false_eq_true, if_false, List.map_cons, List.sum_cons, ih', h0, zero_add]

end Pad

section Mean
variable {α : Type} [AddMonoid α] [Sub α] [Div α] [NatCast α] [LT α] [DecidableLT α] [Transc α]

omit [Div α] [NatCast α] in
/-- **`logsumexp` ignores entries that contribute nothing** (when they do not change the maximum): dropping them leaves
the value unchanged. -/
theorem logsumexpL_filter (isNaN : α → Bool) (nan : α) (x : List α) (keep : α → Bool)
    (hmax : maxL isNaN nan (x.filter keep) = maxL isNaN nan x)
    (h : ∀ e ∈ x, keep e = false → Transc.exp (e - maxL isNaN nan x) = 0) :
    logsumexpL isNaN nan (x.filter keep) = logsumexpL isNaN nan x := by
  unfold logsumexpL
  simp only [hmax, shiftedExpSum_filter _ x keep h]

/-- **`logmeanexp` divides by the full length**: entries that contribute nothing to the sum still count.  With the same
maximum and the same sum, the function on the whole slice is `ln (S / x.length) + m`, where `S` is the sum over the KEPT
entries — not `ln (S / (x.filter keep).length) + m`, which is what a version that skips such entries computes. -/
theorem logmeanexpL_counts_all (isNaN : α → Bool) (nan : α) (x : List α) (keep : α → Bool)
    (h : ∀ e ∈ x, keep e = false → Transc.exp (e - maxL isNaN nan x) = 0) :
    logmeanexpL isNaN nan x =
      ln (shiftedExpSum (maxL isNaN nan x) (x.filter keep) / (x.length : α)) + maxL isNaN nan x := by
  unfold logmeanexpL
  simp only [shiftedExpSum_filter _ x keep h]

end Mean

/-- Over ℝ, for non-empty input: `logmeanexp = logsumexp − ln n` with `n` the FULL length. -/
theorem logmeanexpL_eq_logsumexpL_sub_log (isNaN : ℝ → Bool) (nan : ℝ) (x : List ℝ) (hne : x ≠ []) :
    logmeanexpL isNaN nan x = logsumexpL isNaN nan x - Real.log (x.length : ℝ) := by
  have hn : (0 : ℝ) < (x.length : ℝ) := by
    have : 0 < x.length := List.length_pos_iff.mpr hne
    exact_mod_cast this
  rw [logmeanexpL_real isNaN nan x hne, logsumexpL_real isNaN nan x hne,
    Real.log_div (ne_of_gt (sum_exp_pos x hne)) (ne_of_gt hn)]

-- over ℝ with the real `exp` no entry has a zero exponential, so the hypotheses are instantiated by the keep-all filter;
-- the statements bite at scalars with a bottom element (`f64`: `exp(−∞ − m) = 0`), which the bit-exact tie exercises
example (x : List ℝ) : logsumexpL (fun _ => false) 0 (x.filter fun _ => true) = logsumexpL (fun _ => false) 0 x :=
  logsumexpL_filter _ _ x _ (by simp) (by intro e _ h; simp at h)

noncomputable example : logmeanexpL (fun v : ℝ => decide (v = -1)) (-1) [0, 0, 0, 0] = Real.log 4 - Real.log 4 := by
  rw [logmeanexpL_eq_logsumexpL_sub_log _ _ _ (by simp), logsumexpL_real _ _ _ (by simp)]
  norm_num

/-! A scalar where the hypothesis bites: ℚ with a toy `exp` that is `0` below `−100` and `1` elsewhere (`ln := id`). -/
section Toy
@[reducible] private def toyT : Transc ℚ where
  sqrt := id
  exp := fun v => if v < -100 then 0 else 1
  ln := id
  pow := fun a _ => a
  sin := id
  cos := id
  tan := id
  abs := id
  floor := id
  ceil := id
attribute [local instance] toyT

private def nanQ : ℚ → Bool := fun v => decide (v = 7)

private theorem toy_max : maxL nanQ 7 [-1000, 0, 0] = 0 := by
  norm_num [maxL, fmaxN, nanQ]

-- the entry −1000 contributes nothing to the sum (2 = 1 + 1) and still counts in the mean: 2/3, not 2/2
example : logmeanexpL nanQ 7 [-1000, 0, 0] = 2 / 3 := by
  rw [logmeanexpL_counts_all nanQ 7 [-1000, 0, 0] (fun v => decide (v ≠ -1000))
    (by intro e he hk; rw [toy_max]; simp at he hk; subst hk
        show (if ((-1000 : ℚ) - 0) < -100 then (0 : ℚ) else 1) = 0; norm_num)]
  rw [toy_max]
  show id (((([0, 0] : List ℚ).map fun v => if v - 0 < -100 then (0 : ℚ) else 1).foldl (· + ·) 0) / ((3 : ℕ) : ℚ)) + 0 = 2 / 3
  norm_num

end Toy

end Cv.C04
