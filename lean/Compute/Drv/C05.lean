import Compute.Drv.Common
import Compute.Model.Scalar
import Compute.Model.Matmul
import Compute.Model.DotTrait
/-
Driver for C05.  Requests (data = hex floats, lengths explicit so that malformed matrices can be sent):
  tr  nrows len <data>                                  -> = len <data>
  mm  ta tb rowsA rowsB lenA lenB <a> <b>               -> = len <data>
  mb  ta tb rowsA rowsB bsize lenA lenB <a> <b>         -> = len <data>
  xtx k len <x>                                         -> = len <data>
  dmm meth r1 c1 r2 c2 <r1*c1> <r2*c2>                  -> = r c <data>
  dmv meth r1 c1 n <r1*c1> <n>                          -> = len <data>
  dvm meth n r2 c2 <n> <r2*c2>                          -> = len <data>
  dvv meth n1 n2 <n1> <n2>                              -> = <float>
(the Rust executor's lines carry one more token after `meth`: the ownership form.)
-/
open Cv Cv.DotT Cv.C05W

def c05Meth (s : String) : Option Meth :=
  match s with
  | "dot" => some .dot | "t_dot" => some .tDot | "dot_t" => some .dotT | "t_dot_t" => some .tDotT
  | _ => none

def c05Bool : P Bool := do let n ← pNat; if n = 0 then pure false else if n = 1 then pure true else failure

def c05Vec (r : Option (List Float)) : String :=
  match r with
  | none => panicked
  | some d => ok (showVec d)

def c05Mat (r : Option (Mat Float)) : String :=
  match r with
  | none => panicked
  | some m => ok s!"{m.nrows} {m.ncols} {showFloats m.data}"

def c05Step (args : List String) : String :=
  match args with
  | "tr" :: rest =>
    withArgs (do let r ← pNat; let a ← pVec; pure (r, a)) rest fun (r, a) => c05Vec (transpose a r)
  | "mm" :: rest =>
    withArgs (do
      let ta ← c05Bool; let tb ← c05Bool; let ra ← pNat; let rb ← pNat
      let la ← pNat; let lb ← pNat; let a ← pMany pFloat la; let b ← pMany pFloat lb
      pure (ta, tb, ra, rb, a, b)) rest fun (ta, tb, ra, rb, a, b) => c05Vec (matmul a b ra rb ta tb)
  | "mb" :: rest =>
    withArgs (do
      let ta ← c05Bool; let tb ← c05Bool; let ra ← pNat; let rb ← pNat; let bs ← pNat
      let la ← pNat; let lb ← pNat; let a ← pMany pFloat la; let b ← pMany pFloat lb
      pure (ta, tb, ra, rb, bs, a, b)) rest fun (ta, tb, ra, rb, bs, a, b) =>
        c05Vec (matmulBlocked a b ra rb ta tb bs)
  | "xtx" :: rest =>
    withArgs (do let k ← pNat; let x ← pVec; pure (k, x)) rest fun (k, x) => c05Vec (xtx x k)
  | "dmm" :: ms :: rest =>
    match c05Meth ms with
    | none => badOp
    | some meth =>
      withArgs (do
        let r1 ← pNat; let c1 ← pNat; let r2 ← pNat; let c2 ← pNat
        let d1 ← pMany pFloat (r1 * c1); let d2 ← pMany pFloat (r2 * c2)
        pure (r1, c1, r2, c2, d1, d2)) rest fun (r1, c1, r2, c2, d1, d2) =>
        c05Mat (dotMM meth ⟨d1, r1, c1⟩ ⟨d2, r2, c2⟩)
  | "dmv" :: ms :: rest =>
    match c05Meth ms with
    | none => badOp
    | some meth =>
      withArgs (do
        let r1 ← pNat; let c1 ← pNat; let n ← pNat
        let d1 ← pMany pFloat (r1 * c1); let d2 ← pMany pFloat n
        pure (r1, c1, d1, d2)) rest fun (r1, c1, d1, d2) => c05Vec (dotMV meth ⟨d1, r1, c1⟩ d2)
  | "dvm" :: ms :: rest =>
    match c05Meth ms with
    | none => badOp
    | some meth =>
      withArgs (do
        let n ← pNat; let r2 ← pNat; let c2 ← pNat
        let d1 ← pMany pFloat n; let d2 ← pMany pFloat (r2 * c2)
        pure (r2, c2, d1, d2)) rest fun (r2, c2, d1, d2) => c05Vec (dotVM meth d1 ⟨d2, r2, c2⟩)
  | "dvv" :: ms :: rest =>
    match c05Meth ms with
    | none => badOp
    | some meth =>
      withArgs (do
        let n1 ← pNat; let n2 ← pNat
        let d1 ← pMany pFloat n1; let d2 ← pMany pFloat n2
        pure (d1, d2)) rest fun (d1, d2) =>
        match dotVV meth d1 d2 with
        | none => panicked
        | some x => ok (showFloat x)
  | _ => badOp

def main (args : List String) : IO UInt32 := mainWith () (fun _ t => ((), c05Step t)) args
