import Compute.Model.Interp
import Compute.Props.C16
/-
C16 (continued) — the model of `interp1d_linear(_unchecked)` is POINTWISE in the targets: the value in slot `i` depends on
`tgt[i]` only (never on the position, on the other targets, or on how many targets the call has), and a call on a
concatenation is the concatenation of the calls.  These hold for every scalar type (no order or field axioms): they are
structural facts about the loop over the targets.  (Round-10 seed C16w broke exactly this in the code: a bracket table
filled per block of 4096 targets with a block-relative index.)
-/
namespace Cv.C16
open Cv

section
variable {α : Type} [Add α] [Sub α] [Mul α] [Div α] [Neg α] [Zero α] [One α] [LT α] [DecidableLT α] [Inhabited α]

/-- The loop over the targets is `mapM` of the per-target body. -/
theorem interpAll_eq_some_iff' (x y : List α) (mode : ExtrapMode α) (ts vs : List α) :
    interpAll x y mode ts = some vs ↔ ts.map (interpOne x y mode) = vs.map some := by
  induction ts generalizing vs with
  | nil => cases vs <;> simp [interpAll]
  | cons t r ih =>
    simp only [interpAll, List.map_cons]
    cases h1 : interpOne x y mode t with
    | none => cases vs <;> simp
    | some v =>
      cases h2 : interpAll x y mode r with
      | none =>
        cases vs with
        | nil => simp
        | cons w ws =>
          simp only [List.map_cons, List.cons.injEq, reduceCtorEq, false_iff, not_and]
          intro _ hc
          have := (ih ws).2 hc
          rw [h2] at this; cases this
      | some us =>
        have := (ih us).1 h2
        cases vs with
        | nil => simp
        | cons w ws =>
          simp only [List.map_cons, List.cons.injEq, Option.some.injEq]
          constructor
          · rintro ⟨rfl, rfl⟩; exact ⟨rfl, this⟩
          · rintro ⟨rfl, hc⟩
            refine ⟨rfl, ?_⟩
            have := (ih ws).2 hc
            rw [h2] at this; cases this; rfl

/-- **Pointwise.** If the call returns, it returns one value per target and slot `i` is the per-target result of
`tgt[i]` alone. -/
theorem interpAll_pointwise (x y : List α) (mode : ExtrapMode α) (ts vs : List α)
    (h : interpAll x y mode ts = some vs) :
    vs.length = ts.length ∧ ∀ i (hi : i < ts.length) (hv : i < vs.length), interpOne x y mode ts[i] = some vs[i] := by
  have hm := (interpAll_eq_some_iff' x y mode ts vs).1 h
  have hl : vs.length = ts.length := by simpa using (congrArg List.length hm).symm
  refine ⟨hl, fun i hi hv => ?_⟩
  have := congrArg (fun l => l[i]?) hm
  simpa [List.getElem?_map, List.getElem?_eq_getElem hi, List.getElem?_eq_getElem hv] using this

/-- **Concatenation.** A call on `ts ++ us` returns iff both calls return, and then it is the concatenation. -/
theorem interpAll_append (x y : List α) (mode : ExtrapMode α) (ts us : List α) :
    interpAll x y mode (ts ++ us) =
      (interpAll x y mode ts).bind fun a => (interpAll x y mode us).map fun b => a ++ b := by
  induction ts with
  | nil => cases h : interpAll x y mode us <;> simp [interpAll, h]
  | cons t r ih =>
    simp only [List.cons_append, interpAll]
    cases h1 : interpOne x y mode t with
    | none => simp
    | some v =>
      rw [ih]
      cases h2 : interpAll x y mode r with
      | none => simp
      | some a =>
        cases h3 : interpAll x y mode us with
        | none => simp
        | some b => simp

/-- The same for the two public entry points (they only add input checks that do not look at the targets). -/
theorem interpUnchecked_append (x y : List α) (mode : ExtrapMode α) (ts us : List α) :
    interpUnchecked x y (ts ++ us) mode =
      (interpUnchecked x y ts mode).bind fun a => (interpUnchecked x y us mode).map fun b => a ++ b := by
  unfold interpUnchecked
  split
  · rfl
  · exact interpAll_append x y mode ts us

theorem interpChecked_append (x y : List α) (mode : ExtrapMode α) (ts us : List α) :
    interpChecked x y (ts ++ us) mode =
      (interpChecked x y ts mode).bind fun a => (interpChecked x y us mode).map fun b => a ++ b := by
  unfold interpChecked
  split
  · rfl
  · split
    · rfl
    · split
      · rfl
      · exact interpUnchecked_append x y mode ts us

/-- A single target behaves the same wherever it stands: the slot of `t` in `pre ++ [t] ++ post`. -/
theorem interpAll_slot (x y : List α) (mode : ExtrapMode α) (pre post : List α) (t : α) (vs : List α)
    (h : interpAll x y mode (pre ++ t :: post) = some vs) :
    ∃ hv : pre.length < vs.length, interpOne x y mode t = some vs[pre.length] := by
  obtain ⟨hl, hp⟩ := interpAll_pointwise x y mode _ vs h
  have hi : pre.length < (pre ++ t :: post).length := by simp
  have hv : pre.length < vs.length := by rw [hl]; exact hi
  refine ⟨hv, ?_⟩
  have := hp pre.length hi hv
  simpa using this

end

/-- non-vacuity over ℚ: the knot `1` gives `10` in the last slot of a three-target call, as it does alone -/
example : interpChecked ([0, 1, 2] : List ℚ) [0, 10, 20] ([1 / 2, 3] ++ [1]) .extrapolate = some [5, 30, 10] := by
  rw [interpChecked_append]; decide +kernel
example := interpAll_slot ([0, 1, 2] : List ℚ) [0, 10, 20] .extrapolate [1 / 2, 3] [] 1 [5, 30, 10] (by decide +kernel)

end Cv.C16
