import Compute.Drv.Common
import Compute.Model.Scalar
import Compute.Model.Tape
import Compute.Model.Optim
/-
Driver for C10.  Objectives are RPN programs `<nops> tok…` with tokens
  `p<i>` (parameter), `c<16 hex>` (constant), `x` (data point), `add sub mul div neg`, `powi<n>`, `exp`, `sin`.

  grad <np> θ… <x|-> <prog>                                   → `= val g_1 … g_np`
  adam <α> <β1> <β2> <ε> <np> θ… <nk> k_1 … k_nk <prog>        → `= θ(k_1) … θ(k_nk)` (np floats each)
  sgd  <α> <mom> <nesterov 0|1> <np> θ… <nk> k_1 … <prog>      → idem
  lm   <eps1> <eps2> <tau> <np> θ… <n> xs… ys… <nk> k_1 … <prog> → for each k: θ (np) then covariance (np²)
Any panicking run makes the whole reply `! panic`.
-/
open Cv Cv.AD Cv.Opt

def c10Op (s : String) : Option (Op Float) :=
  match s with
  | "x" => some .x
  | "add" => some .add | "sub" => some .sub | "mul" => some .mul | "div" => some .div
  | "neg" => some .neg | "exp" => some .exp | "sin" => some .sin
  | _ =>
    if s.startsWith "powi" then (parseInt (s.drop 4).toString).map .powi
    else if s.startsWith "p" then (s.drop 1).toString.toNat?.map .param
    else if s.startsWith "c" then (parseFloat (s.drop 1).toString).map .const
    else none

def pOp : P (Op Float) := do
  let t ← tok
  match c10Op t with
  | some o => pure o
  | none => failure

def pProg : P (List (Op Float)) := do let n ← pNat; pMany pOp n

def pOptX : P (Option Float) := do
  let t ← tok
  if t == "-" then pure none
  else match parseFloat t with
    | some x => pure (some x)
    | none => failure

/-- run `f k` for every `k`, concatenating the replies; `none` if any run panics -/
def forKs (ks : List Nat) (f : Nat → Option (List Float)) : String :=
  let rs := ks.map f
  if rs.all Option.isSome then ok (showFloats (rs.flatMap fun r => r.getD []))
  else panicked

def c10Step (args : List String) : String :=
  match args with
  | "grad" :: rest =>
    withArgs (do
      let θ ← pVec; let x ← pOptX; let prog ← pProg
      pure (θ, x, prog)) rest fun (θ, x, prog) =>
      match valGradAt prog θ x with
      | none => panicked
      | some (v, g) => ok (showFloats (v :: g))
  | "adam" :: rest =>
    withArgs (do
      let a ← pFloat; let b1 ← pFloat; let b2 ← pFloat; let e ← pFloat
      let θ ← pVec; let ks ← pNatVec; let prog ← pProg
      pure (a, b1, b2, e, θ, ks, prog)) rest fun (a, b1, b2, e, θ, ks, prog) =>
      forKs ks fun k => adam prog ⟨a, b1, b2, e⟩ θ k
  | "sgd" :: rest =>
    withArgs (do
      let a ← pFloat; let m ← pFloat; let nest ← pNat
      let θ ← pVec; let ks ← pNatVec; let prog ← pProg
      pure (a, m, nest, θ, ks, prog)) rest fun (a, m, nest, θ, ks, prog) =>
      forKs ks fun k => sgd prog ⟨a, m, nest != 0⟩ θ k
  | "lm" :: rest =>
    withArgs (do
      let e1 ← pFloat; let e2 ← pFloat; let tau ← pFloat
      let θ ← pVec; let n ← pNat; let xs ← pMany pFloat n; let ys ← pMany pFloat n
      let ks ← pNatVec; let prog ← pProg
      pure (e1, e2, tau, θ, xs, ys, ks, prog)) rest fun (e1, e2, tau, θ, xs, ys, ks, prog) =>
      forKs ks fun k => (lm prog ⟨e1, e2, tau⟩ θ xs ys k).map fun (p, c) => p ++ c
  | _ => badOp

def main (args : List String) : IO UInt32 := mainWith () (fun _ t => ((), c10Step t)) args
