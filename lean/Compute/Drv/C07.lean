import Compute.Drv.Common
import Compute.Model.Scalar
import Compute.Model.Stats
import Compute.Model.Integrate
import Compute.Generated.C07Tables
/-
Driver for C07 (model at `Float`).  Requests (the implementation-side `tag` token is dropped by
`model_line` in tools/cv/c07.py):
  `trapz <integrand> a b n` | `romberg <integrand> a b eps nmax` | `quad5 <integrand> a b`
  `trapezoid <vec y> (x <vec x> | nox) (dx <float> | nodx)`
  `<integrand>` = `poly <vec c>` | `<name> <k>`
-/
open Cv

def c07Nodes : List Float := C07Tables.nodeBits.map Float.ofBits
def c07Weights : List Float := C07Tables.weightBits.map Float.ofBits

def pIntegrand : P (Integrand Float) := do
  let name ← tok
  if name == "poly" then
    let c ← pVec
    pure (.poly c)
  else
    let k ← pFloat
    match name with
    | "expk" => pure (.expk k) | "sink" => pure (.sink k) | "cosk" => pure (.cosk k)
    | "sin2" => pure (.sin2 k) | "runge" => pure (.runge k) | "sqrt1" => pure (.sqrt1 k)
    | "xexp" => pure (.xexp k) | "log1" => pure (.log1 k) | "gauss" => pure (.gauss k)
    | "cosh" => pure (.cosh k) | "powx" => pure (.powx k) | "recip" => pure (.recip k)
    | "sincos" => pure (.sincos k) | "xsin" => pure (.xsin k) | "expsin" => pure (.expsin k)
    | "rat2" => pure (.rat2 k) | "logx" => pure (.logx k) | "sqrtq" => pure (.sqrtq k)
    | "tanhd" => pure (.tanhd k)
    | _ => failure

def pOptVec (yes no : String) : P (Option (List Float)) := do
  let t ← tok
  if t == yes then (do let v ← pVec; pure (some v))
  else if t == no then pure none else failure

def pOptFloat (yes no : String) : P (Option Float) := do
  let t ← tok
  if t == yes then (do let v ← pFloat; pure (some v))
  else if t == no then pure none else failure

def c07Step (args : List String) : String :=
  match args with
  | "trapz" :: rest =>
    withArgs (do let f ← pIntegrand; let a ← pFloat; let b ← pFloat; let n ← pNat; pure (f, a, b, n)) rest
      fun (f, a, b, n) => ok (showFloat (trapz f.eval a b n))
  | "romberg" :: rest =>
    withArgs (do
      let f ← pIntegrand; let a ← pFloat; let b ← pFloat; let e ← pFloat; let n ← pNat
      pure (f, a, b, e, n)) rest
      fun (f, a, b, e, n) =>
        match romberg f.eval a b e n with
        | none => panicked
        | some v => ok (showFloat v)
  | "quad5" :: rest =>
    withArgs (do let f ← pIntegrand; let a ← pFloat; let b ← pFloat; pure (f, a, b)) rest
      fun (f, a, b) => ok (showFloat (quad5 c07Nodes c07Weights f.eval a b))
  | "trapezoid" :: rest =>
    withArgs (do
      let y ← pVec; let x ← pOptVec "x" "nox"; let dx ← pOptFloat "dx" "nodx"
      pure (y, x, dx)) rest
      fun (y, x, dx) =>
        match trapezoid y x dx with
        | none => panicked
        | some v => ok (showFloat v)
  | _ => badOp

def main (args : List String) : IO UInt32 := mainWith () (fun _ t => ((), c07Step t)) args
