import Compute.Lemmas.C02Moments
import Mathlib.MeasureTheory.Function.JacobianOneDim
import Mathlib.MeasureTheory.Measure.Lebesgue.Integral
/-
Analysis lemmas for Student's t (`Props/C02Moments.lean`): the integrals
`∫₀^∞ x^(2a-1) (1 + x²/ν)^(-(a+b)) dx = ν^a B(a,b) / 2` obtained from Mathlib's Beta law (`∫ betaPDFReal = 1`) by the change
of variables `y = x²/(ν + x²)`, the even / odd extension to `ℝ`, and the resulting total mass, mean and variance of the density
`Γ((ν+1)/2) / (√(νπ) Γ(ν/2)) · (1 + x²/ν)^(-(ν+1)/2)`.
-/
open MeasureTheory ProbabilityTheory Set Filter Topology

namespace Cv.C02M

/-- An even function integrable on `(0, ∞)` is integrable on `ℝ` with twice the integral. -/
theorem integrable_of_even {h : ℝ → ℝ} (he : ∀ x, h (-x) = h x) (hi : IntegrableOn h (Ioi 0)) :
    Integrable h ∧ ∫ x, h x = 2 * ∫ x in Ioi 0, h x := by
  have int_Iic : IntegrableOn h (Iic 0) := by
    rw [← Measure.map_neg_eq_self (volume : Measure ℝ)]
    let m : MeasurableEmbedding fun x : ℝ => -x := (Homeomorph.neg ℝ).measurableEmbedding
    rw [m.integrableOn_map_iff]
    simp_rw [Function.comp_def, he, neg_preimage, neg_Iic, neg_zero]
    exact (integrableOn_Ici_iff_integrableOn_Ioi).mpr hi
  have hint : Integrable h := by
    have := int_Iic.union hi
    rwa [Iic_union_Ioi, integrableOn_univ] at this
  refine ⟨hint, ?_⟩
  have habs : (fun x => h |x|) = h := by
    funext x
    rcases abs_choice x with h1 | h1 <;> rw [h1]
    exact he x
  have := integral_comp_abs (f := h)
  rwa [habs] at this

/-- An odd function integrable on `(0, ∞)` is integrable on `ℝ` with integral zero. -/
theorem integrable_of_odd {k : ℝ → ℝ} (hm : AEStronglyMeasurable k volume) (ho : ∀ x, k (-x) = -k x)
    (hi : IntegrableOn k (Ioi 0)) : Integrable k ∧ ∫ x, k x = 0 := by
  have hi' : IntegrableOn (fun x => |k x|) (Ioi 0) := Integrable.abs hi
  have he := integrable_of_even (h := fun x => |k x|) (fun x => by simp [ho]) hi'
  have hint : Integrable k := (integrable_norm_iff hm).mp (by simpa [Real.norm_eq_abs] using he.1)
  refine ⟨hint, ?_⟩
  have h1 := integral_neg_eq_self k volume
  simp_rw [ho, integral_neg] at h1
  linarith

/-- The Beta integral on `(0,1)` as a Bochner integral, from Mathlib's `∫ betaPDFReal = 1`. -/
theorem beta_integral_Ioo {a b : ℝ} (ha : 0 < a) (hb : 0 < b) :
    IntegrableOn (fun y : ℝ => y ^ (a - 1) * (1 - y) ^ (b - 1)) (Ioo 0 1) ∧
      ∫ y in Ioo (0 : ℝ) 1, y ^ (a - 1) * (1 - y) ^ (b - 1) = ProbabilityTheory.beta a b := by
  have hm := betaPDFReal_mass ha hb
  have hB := (beta_pos ha hb).ne'
  have hcongr : ∀ y ∈ Ioo (0 : ℝ) 1, betaPDFReal a b y = (ProbabilityTheory.beta a b)⁻¹ * (y ^ (a - 1) * (1 - y) ^ (b - 1)) := by
    intro y hy
    rw [betaPDFReal, if_pos ⟨hy.1, hy.2⟩]; ring
  have hzero : ∀ y, y ∉ Ioo (0 : ℝ) 1 → betaPDFReal a b y = 0 := by
    intro y hy
    rw [betaPDFReal, if_neg]; exact fun h => hy ⟨h.1, h.2⟩
  have i1 : IntegrableOn (fun y : ℝ => (ProbabilityTheory.beta a b)⁻¹ * (y ^ (a - 1) * (1 - y) ^ (b - 1))) (Ioo 0 1) :=
    (hm.1.integrableOn (s := Ioo 0 1)).congr_fun hcongr measurableSet_Ioo
  have i2 : IntegrableOn (fun y : ℝ => y ^ (a - 1) * (1 - y) ^ (b - 1)) (Ioo 0 1) := by
    have : IntegrableOn (fun y : ℝ => ProbabilityTheory.beta a b * ((ProbabilityTheory.beta a b)⁻¹ * (y ^ (a - 1) * (1 - y) ^ (b - 1)))) (Ioo 0 1) :=
      i1.const_mul _
    refine this.congr_fun (fun y _ => ?_) measurableSet_Ioo
    field_simp
  refine ⟨i2, ?_⟩
  have h1 : ∫ y in Ioo (0 : ℝ) 1, betaPDFReal a b y = 1 := by
    rw [setIntegral_eq_integral_of_forall_compl_eq_zero hzero]; exact hm.2
  rw [setIntegral_congr_fun measurableSet_Ioo hcongr, integral_const_mul] at h1
  field_simp at h1
  linarith

theorem t_pointwise {ν a b x D : ℝ} (hν : 0 < ν) (hx : 0 < x) (hD : 0 < D) :
    2 * x * ν / D ^ 2 * ((x ^ 2 / D) ^ (a - 1) * (ν / D) ^ (b - 1)) =
      2 * ν ^ (-a) * (x ^ (2 * a - 1) * (D / ν) ^ (-(a + b))) := by
  have hxa : 0 < x ^ (2 * a) := Real.rpow_pos_of_pos hx _
  have hνa : 0 < ν ^ a := Real.rpow_pos_of_pos hν _
  have hνb : 0 < ν ^ b := Real.rpow_pos_of_pos hν _
  have hDa : 0 < D ^ a := Real.rpow_pos_of_pos hD _
  have hDb : 0 < D ^ b := Real.rpow_pos_of_pos hD _
  have e0 : (x ^ 2) ^ a = x ^ (2 * a) := by
    rw [← Real.rpow_natCast x 2, ← Real.rpow_mul hx.le]; norm_num
  have e1 : (x ^ 2 / D) ^ (a - 1) = (x ^ (2 * a) / x ^ 2) / (D ^ a / D) := by
    rw [Real.div_rpow (sq_nonneg x) hD.le, Real.rpow_sub_one (pow_pos hx 2).ne', Real.rpow_sub_one hD.ne', e0]
  have e2 : (ν / D) ^ (b - 1) = (ν ^ b / ν) / (D ^ b / D) := by
    rw [Real.div_rpow hν.le hD.le, Real.rpow_sub_one hν.ne', Real.rpow_sub_one hD.ne']
  have e3 : x ^ (2 * a - 1) = x ^ (2 * a) / x := Real.rpow_sub_one hx.ne' _
  have e4 : (D / ν) ^ (-(a + b)) = (ν ^ a * ν ^ b) / (D ^ a * D ^ b) := by
    rw [Real.rpow_neg (div_pos hD hν).le, Real.div_rpow hD.le hν.le, Real.rpow_add hD, Real.rpow_add hν, inv_div]
  have e5 : ν ^ (-a) = (ν ^ a)⁻¹ := Real.rpow_neg hν.le _
  rw [e1, e2, e3, e4, e5]
  field_simp

/-- `∫₀^∞ x^(2a-1) (1 + x²/ν)^(-(a+b)) dx = ν^a B(a,b) / 2` for `ν, a, b > 0`. -/
theorem t_aux {ν a b : ℝ} (hν : 0 < ν) (ha : 0 < a) (hb : 0 < b) :
    IntegrableOn (fun x : ℝ => x ^ (2 * a - 1) * (1 + x ^ 2 / ν) ^ (-(a + b))) (Ioi 0) ∧
      ∫ x in Ioi (0 : ℝ), x ^ (2 * a - 1) * (1 + x ^ 2 / ν) ^ (-(a + b)) = ν ^ a * ProbabilityTheory.beta a b / 2 := by
  set ψ : ℝ → ℝ := fun x => x ^ 2 / (ν + x ^ 2) with hψ
  set ψ' : ℝ → ℝ := fun x => 2 * x * ν / (ν + x ^ 2) ^ 2 with hψ'
  set g : ℝ → ℝ := fun y => y ^ (a - 1) * (1 - y) ^ (b - 1) with hg
  have hDpos : ∀ x : ℝ, 0 < ν + x ^ 2 := fun x => by positivity
  have hderiv : ∀ x ∈ Ioi (0 : ℝ), HasDerivWithinAt ψ (ψ' x) (Ioi 0) x := by
    intro x _
    have h1 : HasDerivAt (fun y : ℝ => y ^ 2) (2 * x) x := by simpa using hasDerivAt_pow 2 x
    have h2 : HasDerivAt (fun y : ℝ => ν + y ^ 2) (2 * x) x := h1.const_add ν
    have h3 := h1.div h2 (hDpos x).ne'
    refine (h3.congr_deriv ?_).hasDerivWithinAt
    simp only [hψ']
    have := (hDpos x).ne'
    field_simp
    ring
  have hinj : InjOn ψ (Ioi 0) := by
    intro x hx y hy hxy
    simp only [hψ] at hxy
    have h1 := (hDpos x).ne'
    have h2 := (hDpos y).ne'
    rw [div_eq_div_iff h1 h2] at hxy
    have h3 : x ^ 2 = y ^ 2 := by
      have : ν * (x ^ 2 - y ^ 2) = 0 := by linarith
      rcases mul_eq_zero.mp this with h | h
      · exact absurd h hν.ne'
      · linarith
    exact (sq_eq_sq₀ (le_of_lt hx) (le_of_lt hy)).mp h3
  have himg : ψ '' Ioi 0 = Ioo 0 1 := by
    ext y
    constructor
    · rintro ⟨x, hx, rfl⟩
      have hx' : 0 < x := hx
      simp only [hψ]
      refine ⟨by positivity, ?_⟩
      rw [div_lt_one (hDpos x)]; linarith
    · rintro ⟨h0, h1⟩
      have h1y : 0 < 1 - y := by linarith
      refine ⟨Real.sqrt (ν * y / (1 - y)), Real.sqrt_pos.mpr (by positivity), ?_⟩
      simp only [hψ]
      rw [Real.sq_sqrt (by positivity)]
      field_simp
      ring
  have hkey : ∀ x ∈ Ioi (0 : ℝ), |ψ' x| • g (ψ x) =
      2 * ν ^ (-a) * (x ^ (2 * a - 1) * (1 + x ^ 2 / ν) ^ (-(a + b))) := by
    intro x hx
    have hx' : 0 < x := hx
    have hD := hDpos x
    have habs : |ψ' x| = 2 * x * ν / (ν + x ^ 2) ^ 2 := abs_of_pos (by simp only [hψ']; positivity)
    have h1 : 1 - ψ x = ν / (ν + x ^ 2) := by
      simp only [hψ]; field_simp; ring
    have h2 : 1 + x ^ 2 / ν = (ν + x ^ 2) / ν := by field_simp
    simp only [hg, smul_eq_mul]
    rw [habs, h1, h2]
    exact t_pointwise hν hx' hD
  have hB := beta_integral_Ioo ha hb
  have hc : (2 * ν ^ (-a)) ≠ 0 := by
    have := Real.rpow_pos_of_pos hν (-a)
    positivity
  have i1 : IntegrableOn (fun x => |ψ' x| • g (ψ x)) (Ioi 0) :=
    (integrableOn_image_iff_integrableOn_abs_deriv_smul measurableSet_Ioi hderiv hinj g).mp (himg ▸ hB.1)
  have i2 : IntegrableOn (fun x : ℝ => 2 * ν ^ (-a) * (x ^ (2 * a - 1) * (1 + x ^ 2 / ν) ^ (-(a + b)))) (Ioi 0) :=
    i1.congr_fun hkey measurableSet_Ioi
  have i3 : IntegrableOn (fun x : ℝ => x ^ (2 * a - 1) * (1 + x ^ 2 / ν) ^ (-(a + b))) (Ioi 0) := by
    have : IntegrableOn (fun x : ℝ => (2 * ν ^ (-a))⁻¹ * (2 * ν ^ (-a) * (x ^ (2 * a - 1) * (1 + x ^ 2 / ν) ^ (-(a + b))))) (Ioi 0) :=
      i2.const_mul _
    refine this.congr_fun (fun x _ => ?_) measurableSet_Ioi
    field_simp
  refine ⟨i3, ?_⟩
  have h := integral_image_eq_integral_abs_deriv_smul measurableSet_Ioi hderiv hinj g
  rw [himg, hB.2, setIntegral_congr_fun measurableSet_Ioi hkey, integral_const_mul] at h
  have hνa : ν ^ (-a) = (ν ^ a)⁻¹ := Real.rpow_neg hν.le _
  have hpos := (Real.rpow_pos_of_pos hν a).ne'
  rw [hνa] at h
  field_simp at h
  field_simp
  linarith

/-! ## Student's t density -/

/-- The kernel `(1 + x²/ν)^(-(ν+1)/2)`. -/
noncomputable def tKernel (ν x : ℝ) : ℝ := (1 + x ^ 2 / ν) ^ (-(ν + 1) / 2)

/-- The normalising constant `Γ((ν+1)/2) / (√(νπ) Γ(ν/2))`. -/
noncomputable def tConst (ν : ℝ) : ℝ := Real.Gamma ((ν + 1) / 2) / (Real.sqrt (ν * Real.pi) * Real.Gamma (ν / 2))

theorem tKernel_neg (ν x : ℝ) : tKernel ν (-x) = tKernel ν x := by simp [tKernel]

theorem tKernel_continuous {ν : ℝ} (hν : 0 < ν) : Continuous (tKernel ν) := by
  unfold tKernel
  refine Continuous.rpow_const (by fun_prop) fun x => Or.inl ?_
  positivity

/-- `∫ (1 + x²/ν)^(-(ν+1)/2) dx = √ν · B(1/2, ν/2)`. -/
theorem tKernel_integral0 {ν : ℝ} (hν : 0 < ν) :
    Integrable (tKernel ν) ∧ ∫ x, tKernel ν x = ν ^ (1 / 2 : ℝ) * ProbabilityTheory.beta (1 / 2) (ν / 2) := by
  have h := t_aux (a := 1 / 2) (b := ν / 2) hν (by norm_num) (by positivity)
  have hfun : (fun x : ℝ => x ^ (2 * (1 / 2 : ℝ) - 1) * (1 + x ^ 2 / ν) ^ (-(1 / 2 + ν / 2))) = tKernel ν := by
    funext x
    have e1 : (2 * (1 / 2 : ℝ) - 1) = 0 := by norm_num
    have e2 : -(1 / 2 + ν / 2) = -(ν + 1) / 2 := by ring
    rw [e1, e2, Real.rpow_zero, one_mul, tKernel]
  rw [hfun] at h
  have he := integrable_of_even (tKernel_neg ν) h.1
  refine ⟨he.1, ?_⟩
  rw [he.2, h.2]; ring

/-- `∫ x (1 + x²/ν)^(-(ν+1)/2) dx = 0` (absolutely convergent) for `ν > 1`. -/
theorem tKernel_integral1 {ν : ℝ} (hν : 1 < ν) :
    Integrable (fun x => x * tKernel ν x) ∧ ∫ x, x * tKernel ν x = 0 := by
  have hν0 : 0 < ν := by linarith
  have h := t_aux (a := 1) (b := (ν - 1) / 2) hν0 one_pos (by linarith)
  have hfun : (fun x : ℝ => x ^ (2 * (1 : ℝ) - 1) * (1 + x ^ 2 / ν) ^ (-(1 + (ν - 1) / 2))) = fun x => x * tKernel ν x := by
    funext x
    have e1 : (2 * (1 : ℝ) - 1) = 1 := by norm_num
    have e2 : -(1 + (ν - 1) / 2) = -(ν + 1) / 2 := by ring
    rw [e1, e2, Real.rpow_one, tKernel]
  rw [hfun] at h
  have hm : AEStronglyMeasurable (fun x => x * tKernel ν x) volume :=
    (continuous_id.mul (tKernel_continuous hν0)).aestronglyMeasurable
  exact integrable_of_odd hm (fun x => by rw [tKernel_neg]; ring) h.1

/-- `∫ x² (1 + x²/ν)^(-(ν+1)/2) dx = ν^(3/2) · B(3/2, ν/2 - 1)` for `ν > 2`. -/
theorem tKernel_integral2 {ν : ℝ} (hν : 2 < ν) :
    Integrable (fun x => x ^ 2 * tKernel ν x) ∧
      ∫ x, x ^ 2 * tKernel ν x = ν ^ (3 / 2 : ℝ) * ProbabilityTheory.beta (3 / 2) (ν / 2 - 1) := by
  have hν0 : 0 < ν := by linarith
  have h := t_aux (a := 3 / 2) (b := ν / 2 - 1) hν0 (by norm_num) (by linarith)
  have hfun : (fun x : ℝ => x ^ (2 * (3 / 2 : ℝ) - 1) * (1 + x ^ 2 / ν) ^ (-(3 / 2 + (ν / 2 - 1)))) =
      fun x => x ^ 2 * tKernel ν x := by
    funext x
    have e1 : (2 * (3 / 2 : ℝ) - 1) = 2 := by norm_num
    have e2 : -(3 / 2 + (ν / 2 - 1)) = -(ν + 1) / 2 := by ring
    rw [e1, e2, Real.rpow_two, tKernel]
  rw [hfun] at h
  have he := integrable_of_even (h := fun x => x ^ 2 * tKernel ν x) (fun x => by rw [tKernel_neg]; ring) h.1
  refine ⟨he.1, ?_⟩
  rw [he.2, h.2]; ring

theorem tConst_mul_mass {ν : ℝ} (hν : 0 < ν) :
    tConst ν * (ν ^ (1 / 2 : ℝ) * ProbabilityTheory.beta (1 / 2) (ν / 2)) = 1 := by
  simp only [tConst, ProbabilityTheory.beta]
  rw [Real.Gamma_one_half_eq, ← Real.sqrt_eq_rpow, Real.sqrt_mul hν.le, show (1 / 2 : ℝ) + ν / 2 = (ν + 1) / 2 by ring]
  have g1 := (Real.Gamma_pos_of_pos (by positivity : 0 < (ν + 1) / 2)).ne'
  have g2 := (Real.Gamma_pos_of_pos (by positivity : 0 < ν / 2)).ne'
  have s1 := (Real.sqrt_pos.mpr hν).ne'
  have s2 := (Real.sqrt_pos.mpr Real.pi_pos).ne'
  field_simp

theorem tConst_mul_second {ν : ℝ} (hν : 2 < ν) :
    tConst ν * (ν ^ (3 / 2 : ℝ) * ProbabilityTheory.beta (3 / 2) (ν / 2 - 1)) = ν / (ν - 2) := by
  have hν0 : 0 < ν := by linarith
  have hb : 0 < ν / 2 - 1 := by linarith
  simp only [tConst, ProbabilityTheory.beta]
  have G32 : Real.Gamma (3 / 2) = 1 / 2 * Real.sqrt Real.pi := by
    rw [show (3 / 2 : ℝ) = 1 / 2 + 1 by norm_num, Real.Gamma_add_one (by norm_num), Real.Gamma_one_half_eq]
  have Gν : Real.Gamma (ν / 2) = (ν / 2 - 1) * Real.Gamma (ν / 2 - 1) := by
    rw [← Real.Gamma_add_one hb.ne']; congr 1; ring
  have e32 : ν ^ (3 / 2 : ℝ) = ν * Real.sqrt ν := by
    rw [show (3 / 2 : ℝ) = 1 + 1 / 2 by norm_num, Real.rpow_add hν0, Real.rpow_one, ← Real.sqrt_eq_rpow]
  rw [G32, Gν, e32, Real.sqrt_mul hν0.le, show (3 / 2 : ℝ) + (ν / 2 - 1) = (ν + 1) / 2 by ring]
  have g1 := (Real.Gamma_pos_of_pos (by positivity : 0 < (ν + 1) / 2)).ne'
  have g2 := (Real.Gamma_pos_of_pos hb).ne'
  have s1 := (Real.sqrt_pos.mpr hν0).ne'
  have s2 := (Real.sqrt_pos.mpr Real.pi_pos).ne'
  have h2 : ν - 2 ≠ 0 := by linarith
  have h3 : ν / 2 - 1 ≠ 0 := hb.ne'
  generalize Real.Gamma (ν / 2 - 1) = G at g2 ⊢
  generalize Real.Gamma ((ν + 1) / 2) = G' at g1 ⊢
  field_simp

/-- **Student's t**, `ν > 0`: the density `tConst ν · tKernel ν` is integrable with total mass one. -/
theorem t_mass {ν : ℝ} (hν : 0 < ν) :
    Integrable (fun x => tConst ν * tKernel ν x) ∧ ∫ x, tConst ν * tKernel ν x = 1 := by
  have h := tKernel_integral0 hν
  refine ⟨h.1.const_mul _, ?_⟩
  rw [integral_const_mul, h.2, tConst_mul_mass hν]

/-- **Student's t**, `ν > 1`: the first moment converges absolutely and is `0`. -/
theorem t_mean {ν : ℝ} (hν : 1 < ν) :
    Integrable (fun x => x * (tConst ν * tKernel ν x)) ∧ ∫ x, x * (tConst ν * tKernel ν x) = 0 := by
  have h := tKernel_integral1 hν
  have hf : (fun x => x * (tConst ν * tKernel ν x)) = fun x => tConst ν * (x * tKernel ν x) := by funext x; ring
  rw [hf]
  refine ⟨h.1.const_mul _, ?_⟩
  rw [integral_const_mul, h.2, mul_zero]

/-- **Student's t**, `ν > 2`: mass `1`, mean `0`, variance `ν / (ν - 2)`. -/
theorem t_moments {ν : ℝ} (hν : 2 < ν) : Moments (fun x => tConst ν * tKernel ν x) 0 (ν / (ν - 2)) := by
  have h0 := t_mass (by linarith : 0 < ν)
  have h1 := t_mean (by linarith : 1 < ν)
  have h2k := tKernel_integral2 hν
  have hf : (fun x => x ^ 2 * (tConst ν * tKernel ν x)) = fun x => tConst ν * (x ^ 2 * tKernel ν x) := by funext x; ring
  have i2 : Integrable fun x => x ^ 2 * (tConst ν * tKernel ν x) := by rw [hf]; exact h2k.1.const_mul _
  have e2 : ∫ x, x ^ 2 * (tConst ν * tKernel ν x) = ν / (ν - 2) := by
    rw [hf, integral_const_mul, h2k.2, tConst_mul_second hν]
  have := Moments.of_raw h0.1 h1.1 i2 h0.2 h1.2 e2
  simpa using this

/-- For `ν ≤ k` the `k`-th moment of Student's t diverges (the code reports NaN for the mean when `ν ≤ 1`, `∞` for the variance when
`1 < ν ≤ 2`): on `(1, ∞)` the integrand dominates `C · x^(k-ν-1)`. -/
theorem tKernel_not_integrable {ν : ℝ} (hν : 0 < ν) (k : ℕ) (hk : ν ≤ k) :
    ¬ Integrable (fun x => x ^ k * tKernel ν x) := by
  intro h
  have h1 : IntegrableOn (fun x => x ^ k * tKernel ν x) (Ioi 1) := h.integrableOn
  set p : ℝ := -(ν + 1) / 2 with hp
  have hp0 : p ≤ 0 := by rw [hp]; have : 0 < (ν + 1) / 2 := by positivity
                         linarith [show -(ν + 1) / 2 = -((ν + 1) / 2) by ring]
  set C : ℝ := (1 + 1 / ν) ^ p with hC
  have hCpos : 0 < C := Real.rpow_pos_of_pos (by positivity) _
  have hbound : ∀ x ∈ Ioi (1 : ℝ), C * x ^ ((k : ℝ) - ν - 1) ≤ x ^ k * tKernel ν x := by
    intro x hx
    have hx1 : (1 : ℝ) < x := hx
    have hx0 : 0 < x := by linarith
    have hle : 1 + x ^ 2 / ν ≤ x ^ 2 * (1 + 1 / ν) := by
      have : (1 : ℝ) ≤ x ^ 2 := by nlinarith
      have e : x ^ 2 * (1 + 1 / ν) = x ^ 2 + x ^ 2 / ν := by ring
      linarith
    have h2 : (x ^ 2 * (1 + 1 / ν)) ^ p ≤ (1 + x ^ 2 / ν) ^ p :=
      Real.rpow_le_rpow_of_nonpos (by positivity) hle hp0
    have h3 : (x ^ 2 * (1 + 1 / ν)) ^ p = x ^ (-(ν + 1)) * C := by
      rw [Real.mul_rpow (sq_nonneg x) (by positivity), ← Real.rpow_natCast x 2, ← Real.rpow_mul hx0.le]
      congr 2
      rw [hp]; push_cast; ring
    have h4 : x ^ ((k : ℝ) - ν - 1) = x ^ k * x ^ (-(ν + 1)) := by
      rw [show (k : ℝ) - ν - 1 = (k : ℝ) + -(ν + 1) by ring, Real.rpow_add hx0, Real.rpow_natCast]
    have hxk : 0 < x ^ k := pow_pos hx0 k
    calc C * x ^ ((k : ℝ) - ν - 1) = x ^ k * (x ^ (-(ν + 1)) * C) := by rw [h4]; ring
      _ ≤ x ^ k * tKernel ν x := by
        rw [← h3]; exact mul_le_mul_of_nonneg_left h2 hxk.le
  have hi : IntegrableOn (fun x : ℝ => C * x ^ ((k : ℝ) - ν - 1)) (Ioi 1) := by
    refine Integrable.mono' h1 ?_ ?_
    · exact (measurable_const.mul (measurable_id.pow_const _)).aestronglyMeasurable
    · refine (ae_restrict_iff' measurableSet_Ioi).mpr (ae_of_all _ fun x hx => ?_)
      have hx0 : (0 : ℝ) < x := lt_trans one_pos hx
      rw [Real.norm_of_nonneg (mul_nonneg hCpos.le (Real.rpow_nonneg hx0.le _))]
      exact hbound x hx
  have hi2 : IntegrableOn (fun x : ℝ => x ^ ((k : ℝ) - ν - 1)) (Ioi 1) := by
    have : IntegrableOn (fun x : ℝ => C⁻¹ * (C * x ^ ((k : ℝ) - ν - 1))) (Ioi 1) := hi.const_mul _
    refine this.congr_fun (fun x _ => ?_) measurableSet_Ioi
    have := hCpos.ne'
    field_simp
  rw [integrableOn_Ioi_rpow_iff one_pos] at hi2
  linarith

theorem t_not_integrable {ν : ℝ} (hν : 0 < ν) (k : ℕ) (hk : ν ≤ k) :
    ¬ Integrable (fun x => x ^ k * (tConst ν * tKernel ν x)) := by
  intro h
  have hc : 0 < tConst ν := by
    unfold tConst
    have h1 : 0 < Real.Gamma ((ν + 1) / 2) := Real.Gamma_pos_of_pos (by positivity)
    have h2 : 0 < Real.Gamma (ν / 2) := Real.Gamma_pos_of_pos (by positivity)
    have h4 : 0 < Real.sqrt (ν * Real.pi) := Real.sqrt_pos.mpr (by positivity)
    positivity
  have : Integrable (fun x => (tConst ν)⁻¹ * (x ^ k * (tConst ν * tKernel ν x))) := h.const_mul _
  refine tKernel_not_integrable hν k hk (this.congr (ae_of_all _ fun x => ?_))
  have := hc.ne'
  field_simp

end Cv.C02M
