import Compute.Model.GlmObj
import Compute.Props.C06
import Compute.Lemmas.C06Perm
/-
C06 — history independence of the `GLM` object (`Model/GlmObj.lean`, the state machine the `hist2` driver op runs).

`fit` overwrites everything the accessors read, so
* `view_after_fit`: right after `o.fit x y k` the accessors see exactly the record the functional `fit` returns for the
  object's configuration and the arguments — nothing of the object's earlier fits, reads or `set_coef` survives;
* `fit_history_independent`: two objects with the same configuration (family, alpha, tolerance, weights, offsets), whatever
  their histories, give the same reads after fitting the same data;
* `setters_keep_stored`: the five setters leave the stored results untouched, and `set_penalty` / `set_tolerance` /
  `set_weights` do not change what any accessor reads (`set_offset` and `set_coef` change only what `predict`/`coef` read);
* reads are pure: `view` is a function of the state, a read does not change it (no cache in the model — a cache in the
  implementation that outlives a `fit` shows up as a correspondence difference on `hist2` requests).
-/
set_option linter.unusedSectionVars false
namespace Cv.C06
open Cv Cv.Glm Cv.C06L

variable {α : Type} [Field α] [LT α] [DecidableLT α] [BEq α] [Transc α] [GlmScalar α] [Inhabited α]

/-- **view_after_fit.** Every read after `fit` depends only on the configuration and on the arguments of that `fit`. -/
theorem view_after_fit (solve : List α → List α → Option (List α)) (o o' : Obj α) (x y : List α) (k : Nat)
    (h : o.fit solve x y k = some o') :
    ∃ r, Glm.fit solve o.family x y o.weights o.offsets o.alpha o.tol k = some r ∧ o'.view = some r ∧
      o'.family = o.family ∧ o'.alpha = o.alpha ∧ o'.tol = o.tol ∧ o'.weights = o.weights ∧ o'.offsets = o.offsets := by
  unfold Obj.fit at h
  cases hf : Glm.fit solve o.family x y o.weights o.offsets o.alpha o.tol k with
  | none => rw [hf] at h; cases h
  | some r =>
    rw [hf] at h
    obtain rfl := Option.some.inj h
    have hoff : r.offsets = o.offsets := (fit_stored solve o.family x y o.weights o.offsets o.alpha o.tol k r hf).2.2.2.1
    refine ⟨r, rfl, ?_, rfl, rfl, rfl, rfl, rfl⟩
    show some { r with coef := r.coef, offsets := o.offsets } = some r
    rw [← hoff]

/-- a panicking `fit` of the functional model is a panicking `fit` of the object, and conversely -/
theorem fit_none_iff (solve : List α → List α → Option (List α)) (o : Obj α) (x y : List α) (k : Nat) :
    o.fit solve x y k = none ↔ Glm.fit solve o.family x y o.weights o.offsets o.alpha o.tol k = none := by
  unfold Obj.fit
  cases Glm.fit solve o.family x y o.weights o.offsets o.alpha o.tol k <;> simp

/-- **fit_history_independent.** Same configuration, any two histories (`coef`, `last` arbitrary): the same reads after
fitting the same data. -/
theorem fit_history_independent (solve : List α → List α → Option (List α)) (o₁ o₂ : Obj α) (x y : List α) (k : Nat)
    (hf : o₁.family = o₂.family) (ha : o₁.alpha = o₂.alpha) (ht : o₁.tol = o₂.tol) (hw : o₁.weights = o₂.weights)
    (ho : o₁.offsets = o₂.offsets) :
    (o₁.fit solve x y k).bind Obj.view = (o₂.fit solve x y k).bind Obj.view := by
  cases h1 : o₁.fit solve x y k with
  | none =>
    have := (fit_none_iff solve o₁ x y k).mp h1
    rw [hf, ha, ht, hw, ho] at this
    rw [(fit_none_iff solve o₂ x y k).mpr this]
  | some o1' =>
    obtain ⟨r, hr, hv, _⟩ := view_after_fit solve o₁ o1' x y k h1
    rw [hf, ha, ht, hw, ho] at hr
    cases h2 : o₂.fit solve x y k with
    | none => rw [(fit_none_iff solve o₂ x y k).mp h2] at hr; cases hr
    | some o2' =>
      obtain ⟨r', hr', hv', _⟩ := view_after_fit solve o₂ o2' x y k h2
      rw [hr] at hr'
      obtain rfl := Option.some.inj hr'
      simp only [Option.bind_some, hv, hv']

/-- **setters_keep_stored.** No setter touches what `fit` stored; `set_penalty`, `set_tolerance`, `set_weights` change no read
at all; `set_offset` / `set_coef` replace only the offsets / the coefficient vector the accessors see. -/
theorem setters_keep_stored (o : Obj α) (a : α) (w c : List α) :
    (o.setPenalty a).last = o.last ∧ (o.setTolerance a).last = o.last ∧ (o.setWeights w).last = o.last ∧
    (o.setOffset w).last = o.last ∧ (o.setCoef c).last = o.last ∧
    (o.setPenalty a).view = o.view ∧ (o.setTolerance a).view = o.view ∧ (o.setWeights w).view = o.view ∧
    (o.setOffset w).view = o.view.map (fun r => { r with offsets := some w }) ∧
    (o.setCoef c).view = o.view.map (fun r => Glm.setCoef r c) := by
  refine ⟨rfl, rfl, rfl, rfl, rfl, rfl, rfl, rfl, ?_, ?_⟩
  · simp only [Obj.view, Obj.setOffset]
    cases o.last <;> rfl
  · simp only [Obj.view, Obj.setCoef]
    cases o.last <;> rfl

/-- a fresh object has nothing to read -/
theorem view_new (f : Family) (t : α) : (Obj.new f t).view = none := rfl

section examples
local instance instTranscRatHist : Transc ℚ := ⟨id, id, id, fun a _ => a, id, id, id, abs, id, id⟩
local instance instGlmScalarRatHist : GlmScalar ℚ := ⟨fun _ => false, fun q => q.floor.toNat⟩

/-- fit A, (read), fit B on one object reads what a fresh object fitted to B reads: coefficient 3, deviance 36 -/
example :
    (((Obj.new .gaussian (1/100 : ℚ)).fit solve1 [1, 1, 1] [1, 2, 4] 10).bind fun o =>
      (o.fit solve1 [1, 1, 1, 1] [0, 2, 2, 8] 10).bind Obj.view).map (fun r => (r.ok, r.coef, r.deviance, r.n)) =
    some (true, [3], 36, 4) := by decide +kernel
example :
    (((Obj.new .gaussian (1/100 : ℚ)).fit solve1 [1, 1, 1, 1] [0, 2, 2, 8] 10).bind Obj.view).map
      (fun r => (r.ok, r.coef, r.deviance, r.n)) = some (true, [3], 36, 4) := by decide +kernel

end examples

end Cv.C06
