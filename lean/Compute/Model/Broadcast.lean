import Compute.Model.Mat
/-
Model of `src/linalg/array/broadcast.rs`: the classifier `calc_broadcast_shape` (decision tree,
its two asserts, the operand swap) and `broadcast_op!` with one branch per leaf.  `none` = panic.
Element type and operator are arbitrary.
-/
namespace Cv

inductive Bc where
  | hstack (n : Nat) | vstack (n : Nat) | isScalar | none | invalid
deriving Repr, DecidableEq

variable {α : Type}

/-- `calc_broadcast_shape`; the recursion `calc(m2, m1)` is unfolded once (`swap = true`), which
is what happens at run time: on the swapped call the first operand contains a 1. -/
def calcBroadcastCore (r1 c1 r2 c2 : Nat) : Option (Bc × Bc) :=
  if r1 = 1 then
    -- assert!(m1.ncols == m2.ncols || m2.ncols == 1 || m1.ncols == 1)
    if ¬ (c1 = c2 ∨ c2 = 1 ∨ c1 = 1) then Option.none
    else if c1 = c2 then some (.vstack r2, .none)
    else if c2 = 1 then some (.vstack r2, .hstack c1)
    else if c1 = 1 then some (.isScalar, .none)
    else some (.invalid, .invalid)
  else
    -- assert!(m1.nrows == m2.nrows || m2.nrows == 1 || m1.nrows == 1)
    if ¬ (r1 = r2 ∨ r2 = 1 ∨ r1 = 1) then Option.none
    else if r1 = r2 then some (.hstack c2, .none)
    else if r2 = 1 then some (.hstack c2, .vstack r1)
    else if r1 = 1 then some (.isScalar, .none)
    else some (.invalid, .invalid)

def calcBroadcastShape (r1 c1 r2 c2 : Nat) : Option (Bc × Bc) :=
  if r1 = r2 ∧ c1 = c2 then some (.none, .none)
  else if r1 = 1 ∨ c1 = 1 then calcBroadcastCore r1 c1 r2 c2
  else if r2 = 1 ∨ c2 = 1 then
    match calcBroadcastCore r2 c2 r1 c1 with
    | some (b1, b2) => some (b2, b1)
    | Option.none => Option.none
  else some (.invalid, .invalid)

/-- `matmatadd` etc.: `assert_eq!(shape)`, then the element-wise kernel on the data. -/
def matmat (op : α → α → α) (m1 m2 : Mat α) : Option (Mat α) :=
  if m1.nrows = m2.nrows ∧ m1.ncols = m2.ncols then
    some ⟨List.zipWith op m1.data m2.data, m1.nrows, m1.ncols⟩
  else Option.none

/-- `broadcast_op!`. -/
def broadcastOp [Inhabited α] (op : α → α → α) (m1 m2 : Mat α) : Option (Mat α) :=
  match calcBroadcastShape m1.nrows m1.ncols m2.nrows m2.ncols with
  | Option.none => Option.none
  | some (.none, .none) => matmat op m1 m2
  | some (.hstack h, .none) =>
    if h ≠ m2.ncols then Option.none else
    -- new = m2.clone(); for i in 0..m1.nrows: new.apply_along_row(i, |x| m1[i][0] op x)
    if m2.nrows < m1.nrows then Option.none else
    some (Mat.build m2.nrows m2.ncols fun i j =>
      if i < m1.nrows then op (m1.get i 0) (m2.get i j) else m2.get i j)
  | some (.vstack v, .none) =>
    if v ≠ m2.nrows then Option.none else
    -- for i in 0..new.nrows: new[i].zip(&m1[0]): x = y op x   (zip stops at the shorter row)
    some (Mat.build m2.nrows m2.ncols fun i j =>
      if j < m1.ncols then op (m1.get 0 j) (m2.get i j) else m2.get i j)
  | some (.none, .hstack h) =>
    if h ≠ m1.ncols then Option.none else
    if m1.nrows < m2.nrows then Option.none else
    some (Mat.build m1.nrows m1.ncols fun i j =>
      if i < m2.nrows then op (m1.get i j) (m2.get i 0) else m1.get i j)
  | some (.none, .vstack v) =>
    if v ≠ m1.nrows then Option.none else
    some (Mat.build m1.nrows m1.ncols fun i j =>
      if j < m2.ncols then op (m1.get i j) (m2.get 0 j) else m1.get i j)
  | some (.hstack h, .vstack v) =>
    if m2.ncols ≠ h ∨ m1.nrows ≠ v ∨ m2.nrows ≠ 1 ∨ m1.ncols ≠ 1 then Option.none else
    some (Mat.build m1.nrows m2.ncols fun i j => op (m1.get i 0) (m2.get 0 j))
  | some (.vstack v, .hstack h) =>
    if m1.ncols ≠ h ∨ m2.nrows ≠ v ∨ m1.nrows ≠ 1 ∨ m2.ncols ≠ 1 then Option.none else
    some (Mat.build m2.nrows m1.ncols fun i j => op (m1.get 0 j) (m2.get i 0))
  | some (.isScalar, _) =>
    if ¬ (m1.nrows = 1 ∧ m1.ncols = 1) then Option.none else
    -- m1[0][0] op m2   (scalar ∘ &Matrix: `sv` kernel, scalar on the left)
    some ⟨m2.data.map (fun x => op (m1.get 0 0) x), m2.nrows, m2.ncols⟩
  | some (_, .isScalar) =>
    if ¬ (m2.nrows = 1 ∧ m2.ncols = 1) then Option.none else
    some ⟨m1.data.map (fun x => op x (m2.get 0 0)), m1.nrows, m1.ncols⟩
  | some _ => Option.none

/-- `Vector::to_matrix`: a vector becomes a single row. -/
def vecToMat (v : List α) : Mat α := ⟨v, 1, v.length⟩

end Cv
