import Compute.Model.Scalar
import Compute.Model.Constructors
import Compute.Lemmas.C15Rows
import Mathlib.Algebra.Group.Defs
import Mathlib.Algebra.Group.Basic
/-
C15 helper lemmas, part 3: `powi` (square-and-multiply, LLVM's `__powidf2`) computes the power in every
monoid, for exponents below 2⁶⁴ (the fuel of the model; Rust's exponent is an `i32`).
-/
namespace Cv
variable {M : Type} [Monoid M]

theorem powiNat_go_eq (fuel : Nat) : ∀ (a : M) (n : Nat) (r : M), 0 < n → n < 2 ^ fuel →
    powiNat.go fuel a n r = r * a ^ n := by
  induction fuel with
  | zero => intro a n r h0 h1; simp at h1; omega
  | succ fuel ih =>
    intro a n r h0 h1
    unfold powiNat.go
    simp only
    by_cases hn : n / 2 = 0
    · have h1' : n = 1 := by omega
      subst h1'
      simp
    · have hlt : n / 2 < 2 ^ fuel := by
        rw [Nat.pow_succ] at h1; omega
      rw [if_neg hn, ih (a * a) (n / 2) _ (by omega) hlt]
      have hsq : (a * a) ^ (n / 2) = a ^ (2 * (n / 2)) := by rw [pow_mul, pow_two]
      rw [hsq]
      by_cases hodd : n % 2 = 1
      · rw [if_pos hodd, mul_assoc, ← pow_succ']
        congr 2; omega
      · rw [if_neg hodd]
        congr 2; omega

/-- `powi x n = xⁿ` for `0 ≤ n < 2⁶⁴`. -/
theorem powiNat_eq_pow (x : M) (n : Nat) (h : n < 2 ^ 64) : powiNat x n = x ^ n := by
  unfold powiNat
  by_cases h0 : n = 0
  · subst h0
    unfold powiNat.go
    simp
  · rw [powiNat_go_eq 64 x n 1 (by omega) h, one_mul]

theorem powi_natCast [Div M] (x : M) (n : Nat) (h : n < 2 ^ 64) : powi x (n : Int) = x ^ n := by
  unfold powi
  have : ¬ ((n : Int) < 0) := by omega
  simp only [Int.natAbs_natCast, this, if_false]
  exact powiNat_eq_pow x n h

end Cv
