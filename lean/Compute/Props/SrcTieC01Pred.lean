import Compute.Generated.SrcC01Pred
import Compute.Lemmas.Decomp
/-
Source tie of the routing predicates of src/linalg/utils.rs: `is_symmetric` and `is_exactly_symmetric`, whose
loop bounds and comparison are extracted from the Rust text on every run (Generated/SrcC01Pred.lean), equal
the hand model `Cv.LA.isSymmetric` / `Cv.LA.isExactlySymmetric`.  A changed loop bound (e.g. `0..n/2`) makes
these proofs fail.
-/
set_option linter.unusedSectionVars false
namespace Cv.SrcTie.C01Pred
open Cv Cv.LA

variable {α : Type} [Add α] [Sub α] [Mul α] [Div α] [Zero α] [One α] [NatCast α]
  [LT α] [DecidableLT α] [LE α] [DecidableLE α] [BEq α] [Cv.Transc α]

theorem range'_zero (n : Nat) : List.range' 0 (n - 0) = List.range n := by
  rw [Nat.sub_zero, List.range_eq_range']

theorem isExactlySymmetric_src (m : List α) :
    Cv.Src.C01Pred.isExactlySymmetric m = LA.isExactlySymmetric m := by
  unfold Cv.Src.C01Pred.isExactlySymmetric LA.isExactlySymmetric
  simp only [range'_zero]

theorem isSymmetric_src (m : List α) : Cv.Src.C01Pred.isSymmetric m = LA.isSymmetric m := by
  unfold Cv.Src.C01Pred.isSymmetric LA.isSymmetric
  simp only [range'_zero]

end Cv.SrcTie.C01Pred
