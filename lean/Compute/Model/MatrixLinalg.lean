import Compute.Model.Mat
import Compute.Model.Solve
/-
The `Matrix` methods of src/linalg/array/matrix.rs that factorise and solve, modelled separately
from the slice-level functions wherever they are separate code: `new`, `eye`, `t`, `is_symmetric`,
`is_positive_definite`, `is_upper/lower_triangular`, `diag`, `get_col_as_vector`,
`forward/backward_substitution`, `cholesky` (delegates to the slice function since F34), `lu`,
`det`, `lu_det`, `inv`, and the `Solve<Vector>` / `Solve<Matrix>` impls (`cholesky_solve`, `lu_solve`,
`solve`).  `none` = panic.  Core Lean only.
-/
namespace Cv.LA.M
open Cv Cv.LA

variable {α : Type} [Add α] [Sub α] [Mul α] [Div α] [Neg α] [Zero α] [One α] [NatCast α]
  [LT α] [DecidableLT α] [LE α] [DecidableLE α] [BEq α] [Transc α]

/-- `Matrix::new(data, nrows, ncols)` (`reshape_mut` asserts `nrows*ncols == len`). -/
def new (data : List α) (r c : Nat) : Option (Mat α) :=
  if r * c = data.length then some ⟨data, r, c⟩ else none

/-- `m[[i,j]]` after its bounds assert has been discharged by the caller. -/
@[inline] def g (m : Mat α) (i j : Nat) : α := rd m.data (i * m.ncols + j)

/-- `Matrix::eye(d)`: zeros, then `data[i*d+i] = 1`. -/
def eye (d : Nat) : Mat α := ⟨(List.range (d * d)).map fun k => if k / d = k % d then 1 else 0, d, d⟩

/-- `m.t()`: `transpose(&data, nrows)` then `Matrix::new(t, ncols, nrows)`. -/
def t (m : Mat α) : Option (Mat α) := do
  let d ← transpose m.data m.nrows
  new d m.ncols m.nrows

/-- `Matrix::is_symmetric` (false when not square). -/
def isSymmetric (m : Mat α) : Bool :=
  if m.nrows = m.ncols then
    (List.range m.nrows).all fun i => (List.range' i (m.ncols - i)).all fun j =>
      !(decide ((eps : α) < Transc.abs (rd m.data (i * m.ncols + j) - rd m.data (j * m.nrows + i))))
  else false

/-- `Matrix::is_positive_definite`. -/
def isPositiveDefinite (m : Mat α) : Bool :=
  if isSymmetric m then (List.range m.ncols).all fun i => !(decide (rd m.data (i * m.ncols + i) ≤ 0))
  else false

/-- Sequential scan `for (i,j) in cells { if m[i][j] != 0 { return false } } true`; `m[i][j]` panics
when `j ≥ ncols` (`i < nrows` at every call). -/
def triScan (m : Mat α) : List (Nat × Nat) → Option Bool
  | [] => some true
  | (i, j) :: rest =>
    if m.ncols ≤ j then none
    else if g m i j != 0 then some false
    else triScan m rest

/-- `is_upper_triangular`: `for i in 0..nrows { for j in 0..i.min(ncols) { … } }` (F38). -/
def isUpperTriangular (m : Mat α) : Option Bool :=
  triScan m ((List.range m.nrows).flatMap fun i => (List.range (min i m.ncols)).map fun j => (i, j))

/-- `is_lower_triangular`: `for i in 0..nrows { for j in i+1..ncols { … } }`. -/
def isLowerTriangular (m : Mat α) : Option Bool :=
  triScan m ((List.range m.nrows).flatMap fun i =>
    (List.range' (i + 1) (m.ncols - (i + 1))).map fun j => (i, j))

/-- `Matrix::diag`. -/
def diag (m : Mat α) : List α :=
  (List.range (min m.nrows m.ncols)).map fun i => rd m.data (i * m.ncols + i)

/-- `get_col_as_vector(col)`. -/
def getCol (m : Mat α) (col : Nat) : Option (List α) :=
  if col < m.ncols then some ((List.range m.nrows).map fun i => g m i col) else none

/-- `Matrix::forward_substitution(b)`: `x = zeros(nrows)`, `for i in 0..ncols`. -/
def forwardSubstitution (m : Mat α) (b : List α) : Option (List α) := do
  let lt ← isLowerTriangular m
  if !lt then none
  else if b.length ≠ m.nrows then none
  else if m.nrows < m.ncols then none   -- `b[nrows]` / `self[nrows]` out of range
  else
    let x := (List.range m.ncols).foldl (fun x i =>
      x ++ [(rd b i - dot8 ((m.data.drop (i * m.ncols)).take i) x) / g m i i]) []
    pure (x ++ List.replicate (m.nrows - m.ncols) 0)

/-- `Matrix::backward_substitution(b)`: `x = zeros(nrows)`, `for i in (0..ncols).rev()`; the `dot`
length assert fails on the first iteration unless the matrix is square. -/
def backwardSubstitution (m : Mat α) (b : List α) : Option (List α) := do
  let ut ← isUpperTriangular m
  if !ut then none
  else if b.length ≠ m.nrows then none
  else if m.ncols = 0 then pure (List.replicate m.nrows 0)
  else if m.nrows ≠ m.ncols then none
  else
    pure ((List.range m.ncols).reverse.foldl (fun x i =>
      ((rd b i - dot8 ((m.data.drop (i * m.ncols + (i + 1))).take (m.ncols - (i + 1))) x) / g m i i) :: x) [])

/-- `Matrix::cholesky`. -/
def cholesky (m : Mat α) : Option (Mat α) :=
  if !isPositiveDefinite m then none
  else do
    let l ← LA.cholesky m.data
    new l m.nrows m.ncols

/-- `Matrix::lu` — its own copy of the loops, written on `lu[[i,j]]`. -/
def luColumn (n j : Nat) (lu : List α) : List α :=
  (List.range n).foldl (fun lu i =>
    lu.set (i * n + j)
      (rd lu (i * n + j) -
        (List.range (min i j)).foldl (fun s k => s + rd lu (i * n + k) * rd lu (k * n + j)) 0)) lu

def luStep (n : Nat) (st : List α × List Nat) (j : Nat) : List α × List Nat :=
  let lu := luColumn n j st.1
  let p := (List.range' (j + 1) (n - (j + 1))).foldl
    (fun p i => if Transc.abs (rd lu (p * n + j)) < Transc.abs (rd lu (i * n + j)) then i else p) j
  let lu' := if p != j then (List.range n).foldl (fun lu k => swapIdx lu (p * n + k) (j * n + k)) lu else lu
  let piv := if p != j then swapIdx st.2 p j else st.2
  let lu'' :=
    if decide (j < n) && (rd lu' (j * n + j) != 0) then
      (List.range' (j + 1) (n - (j + 1))).foldl
        (fun lu i => lu.set (i * n + j) (rd lu (i * n + j) / rd lu (j * n + j))) lu'
    else lu'
  (lu'', piv)

def lu (m : Mat α) : Option (Mat α × List Nat) :=
  if m.nrows ≠ m.ncols then none
  else
    let n := m.nrows
    let r := (List.range n).foldl (luStep n) (m.data, List.range n)
    some (⟨r.1, m.nrows, m.ncols⟩, r.2)

/-- `Solve<Vector>::lu_solve`. -/
def luSolveV (m : Mat α) (piv : List Nat) (b : List α) : Option (List α) :=
  if m.nrows ≠ m.ncols then none
  else if m.nrows ≠ b.length then none
  else do
    let x ← luPermute piv b
    let n := m.ncols
    let x := (List.range n).foldl (fun x k =>
      (List.range' (k + 1) (n - (k + 1))).foldl
        (fun x i => x.set i (rd x i - rd x k * g m i k)) x) x
    let x := (List.range n).reverse.foldl (fun x k =>
      let x := x.set k (rd x k / g m k k)
      (List.range k).foldl (fun x i => x.set i (rd x i - rd x k * g m i k)) x) x
    pure x

/-- the column loop of the `Solve<Matrix>` impls: `solutions.extend(solver(col_i))` -/
def colsM (solver : List α → Option (List α)) (s : Mat α) : Nat → Option (List α)
  | 0 => some []
  | k + 1 => do
    let acc ← colsM solver s k
    let x ← getCol s k
    let sol ← solver x
    pure (acc ++ sol)

/-- … followed by `Matrix::new(solutions, s.ncols, s.nrows).t()` -/
def solveColsM (solver : List α → Option (List α)) (s : Mat α) : Option (Mat α) := do
  let sols ← colsM solver s s.ncols
  let mt ← new sols s.ncols s.nrows
  t mt

def luSolveM (m : Mat α) (piv : List Nat) (s : Mat α) : Option (Mat α) :=
  solveColsM (luSolveV m piv) s

/-- `Solve<Vector>::solve`: always the LU route. -/
def solveV (m : Mat α) (b : List α) : Option (List α) := do
  let (f, piv) ← lu m
  luSolveV f piv b

def solveM (m : Mat α) (s : Mat α) : Option (Mat α) := do
  let (f, piv) ← lu m
  luSolveM f piv s

/-- `Matrix::inv`. -/
def inv (m : Mat α) : Option (Mat α) :=
  if m.nrows ≠ m.ncols then none else solveM m (eye m.nrows)

/-- `Solve<Vector>::cholesky_solve`. -/
def choleskySolveV (m : Mat α) (b : List α) : Option (List α) := do
  let lt ← isLowerTriangular m
  if !lt then none
  else if m.nrows ≠ b.length then none
  else
    let y ← forwardSubstitution m b
    let mt ← t m
    backwardSubstitution mt y

def choleskySolveM (m : Mat α) (s : Mat α) : Option (Mat α) :=
  solveColsM (choleskySolveV m) s

/-- `x.iter().product()` -/
def prod (x : List α) : α := x.foldl (· * ·) 1

/-- `ipiv_parity(p) as f64` -/
def parityScalar (p : List Int) : Option α :=
  match ipivParity p with
  | .ok s => some (if s = 1 then 1 else -1)
  | _ => none

/-- `Matrix::det`. -/
def det (m : Mat α) : Option α := do
  let (f, piv) ← lu m
  let s ← parityScalar (piv.map Int.ofNat)
  pure (prod (diag f) * s)

/-- `Matrix::lu_det(piv)`. -/
def luDet (m : Mat α) (piv : List Int) : Option α :=
  if m.nrows ≠ m.ncols then none
  else do
    let s ← parityScalar piv
    pure (prod (diag m) * s)

end Cv.LA.M
