import Compute.Lemmas.StatRounding
import Compute.Lemmas.LogRounding
import Compute.Lemmas.InterpRounding
import Compute.Lemmas.C14
import Compute.Model.Integrate
import Compute.Model.Poly
import Compute.Model.Timeseries
import Compute.Model.Transforms
import Compute.Model.GpKernels
import Mathlib.Analysis.SpecialFunctions.Pow.Real
/-
Helpers for `Props/Rounding5.lean` (fifth batch of worst-case rounding-error theorems in the standard
model of `Lemmas/FlModel.lean`): quadrature sums (C07), Horner (C14), AR one-step forecast and
`difference` (C13), the extrapolation branch of `interp1d` (C16), `logit` / Box–Cox (C17), the scalar
covariance kernels (C20) and the one-pass covariance (C08).

Everything here is about the *same* model terms that are tied bit for bit to the Rust code at `Float`,
instantiated at the rounded scalar type `Fl M`.  This file contains the structural ("the computed value
is `Σ tᵢ·(1+θᵢ)`") lemmas; the headline bounds are in `Props/Rounding5.lean`.
-/
namespace Cv.Rounding5
open Cv Cv.FlModel Cv.Rounding

variable {M : FlModel}

/-! ### one rounding per operation -/

theorem add_fac (a b : Fl M) : ∃ g, M.Fac 1 g ∧ (a + b).val = (a.val + b.val) * g := by
  obtain ⟨δ, hδ, h⟩ := M.std (a.val + b.val)
  exact ⟨1 + δ, Fac.one_add hδ, h⟩
theorem sub_fac (a b : Fl M) : ∃ g, M.Fac 1 g ∧ (a - b).val = (a.val - b.val) * g := by
  obtain ⟨δ, hδ, h⟩ := M.std (a.val - b.val)
  exact ⟨1 + δ, Fac.one_add hδ, h⟩
theorem mul_fac (a b : Fl M) : ∃ g, M.Fac 1 g ∧ (a * b).val = (a.val * b.val) * g := by
  obtain ⟨δ, hδ, h⟩ := M.std (a.val * b.val)
  exact ⟨1 + δ, Fac.one_add hδ, h⟩
theorem div_fac (a b : Fl M) : ∃ g, M.Fac 1 g ∧ (a / b).val = (a.val / b.val) * g := by
  obtain ⟨δ, hδ, h⟩ := M.std (a.val / b.val)
  exact ⟨1 + δ, Fac.one_add hδ, h⟩
theorem natCast_fac (n : Nat) : ∃ g, M.Fac 1 g ∧ ((n : Fl M)).val = (n : ℝ) * g := by
  obtain ⟨δ, hδ, h⟩ := M.std (n : ℝ)
  exact ⟨1 + δ, Fac.one_add hδ, h⟩

/-- the literal `2.` of the integration routines: one rounding in the bare model -/
theorem two_fac : ∃ g, M.Fac 1 g ∧ (two : Fl M).val = 2 * g := by
  obtain ⟨g, hg, h⟩ := natCast_fac (M := M) 2
  exact ⟨g, hg, by rw [show (two : Fl M) = ((2 : Nat) : Fl M) from rfl, h]; norm_num⟩

/-- the literal `0.5 = 1/2.`: two roundings in the bare model -/
theorem half_fac : ∃ g, M.Fac 2 g ∧ (half : Fl M).val = 1 / 2 * g := by
  obtain ⟨g1, hg1, h1⟩ := natCast_fac (M := M) 2
  obtain ⟨g2, hg2, h2⟩ := div_fac (1 : Fl M) ((2 : Nat) : Fl M)
  refine ⟨g2 * g1⁻¹, by simpa using hg2.mul hg1.inv, ?_⟩
  rw [show (half : Fl M) = (1 : Fl M) / ((2 : Nat) : Fl M) from rfl, h2, h1]
  simp only [Fl.one_val]
  push_cast
  rw [one_div, one_div, mul_inv]; ring

/-! ### more closure properties of perturbed sums -/

theorem _root_.Cv.FlModel.Pert.mul_const {k : Nat} {v : ℝ} {xs : List ℝ} (h : M.Pert k v xs) (c : ℝ) :
    M.Pert k (v * c) (xs.map (· * c)) := by
  have := h.div_const c⁻¹
  simpa [div_inv_eq_mul] using this

theorem _root_.Cv.FlModel.Pert.of_fac {k : Nat} {f : ℝ} (x : ℝ) (hf : M.Fac k f) : M.Pert k (x * f) [x] := by
  have := (Pert.single (M := M) 0 x).scale hf
  simpa using this

theorem _root_.Cv.FlModel.Pert.congr {k : Nat} {v w : ℝ} {xs ys : List ℝ} (h : M.Pert k v xs) (hv : v = w)
    (hx : xs = ys) : M.Pert k w ys := by subst hv; subst hx; exact h

/-- a perturbed sum of sums `sᵢ + tᵢ` is a perturbed sum of the separate terms (same factors) -/
theorem _root_.Cv.FlModel.Pert.split {β : Type} {k : Nat} {v : ℝ} (L : List β) (s t : β → ℝ)
    (h : M.Pert k v (L.map fun p => s p + t p)) : M.Pert k v (L.flatMap fun p => [s p, t p]) := by
  obtain ⟨fs, hl, hf, rfl⟩ := h
  refine ⟨fs.flatMap fun f => [f, f], ?_, ?_, ?_⟩
  · simp only [List.length_map] at hl
    simp [List.length_flatMap, hl]
  · intro f hfm
    obtain ⟨g, hg, hfg⟩ := List.mem_flatMap.mp hfm
    simp only [List.mem_cons, List.not_mem_nil, or_false, or_self] at hfg
    exact hfg ▸ hf g hg
  · clear hf
    induction L generalizing fs with
    | nil => simp
    | cons p L ih =>
      cases fs with
      | nil => simp at hl
      | cons f fs =>
        have hl' : fs.length = (L.map fun p => s p + t p).length := by simpa using hl
        simp only [List.map_cons, List.zipWith_cons_cons, List.sum_cons, List.flatMap_cons,
          List.cons_append, List.nil_append]
        rw [ih fs hl']; ring

/-- relative accuracy of the tabulated values enters as additional rounding factors -/
theorem _root_.Cv.FlModel.Pert.rel {β : Type} {j k : Nat} {v : ℝ} (L : List β) (w φ ψ : β → ℝ)
    (hrel : ∀ p ∈ L, ∃ g, M.Fac j g ∧ φ p = ψ p * g)
    (h : M.Pert k v (L.map fun p => w p * φ p)) : M.Pert (j + k) v (L.map fun p => w p * ψ p) := by
  classical
  let G : β → ℝ := fun p => if hp : p ∈ L then Classical.choose (hrel p hp) else 1
  have hG : ∀ p ∈ L, M.Fac j (G p) ∧ φ p = ψ p * G p := by
    intro p hp
    have := Classical.choose_spec (hrel p hp)
    simp only [G, dif_pos hp]; exact this
  refine Pert.comp (L.map fun p => w p * ψ p) (L.map G) v (by simp) ?_ ?_
  · intro g hg
    obtain ⟨p, hp, rfl⟩ := List.mem_map.mp hg
    exact (hG p hp).1
  · refine h.congr rfl ?_
    rw [List.zipWith_map_left, List.zipWith_map_right, List.zipWith_self]
    apply List.map_congr_left
    intro p hp
    rw [(hG p hp).2]; ring

/-! ### C07: quadrature rules -/

/-- the terms `wᵢ·φ(xᵢ)` of a quadrature rule given as (node, weight) pairs -/
def ruleTerms (rule : List (Fl M × ℝ)) (φ : Fl M → ℝ) : List ℝ := rule.map fun p => p.2 * φ p.1

/-- the computed step `(b-a)/n` of `trapz` -/
noncomputable def trapzDx (a b : Fl M) (n : Nat) : Fl M := (b - a) / (n : Fl M)

/-- the computed interior node `a + k·dx` -/
noncomputable def trapzNode (a b : Fl M) (n k : Nat) : Fl M := a + (k : Fl M) * trapzDx a b n

/-- the composite trapezoid rule on the *computed* nodes with the exact step `h = (b-a)/n`:
interior nodes weight `h`, end points weight `h/2` (in the summation order of the source) -/
noncomputable def trapzRule (a b : Fl M) (n : Nat) : List (Fl M × ℝ) :=
  ((List.range' 1 (n - 1)).map fun k : Nat => (trapzNode a b n k, (b.val - a.val) / n))
    ++ [(b, (b.val - a.val) / n / 2), (a, (b.val - a.val) / n / 2)]

theorem trapzDx_fac (a b : Fl M) (n : Nat) :
    ∃ g, M.Fac 3 g ∧ (trapzDx a b n).val = (b.val - a.val) / n * g := by
  obtain ⟨g1, hg1, h1⟩ := sub_fac b a
  obtain ⟨g2, hg2, h2⟩ := natCast_fac (M := M) n
  obtain ⟨g3, hg3, h3⟩ := div_fac (b - a) (n : Fl M)
  refine ⟨g1 * g3 * g2⁻¹, (hg1.mul hg3).mul hg2.inv, ?_⟩
  rw [show trapzDx a b n = (b - a) / (n : Fl M) from rfl, h3, h1, h2]
  rw [div_eq_mul_inv, div_eq_mul_inv, mul_inv]; ring

/-- the computed node is `a·(1+θ) + k·h·(1+θ')`, `|θ|, |θ'| ≤ γ₆` -/
theorem trapzNode_pert (a b : Fl M) (n k : Nat) :
    M.Pert 6 (trapzNode a b n k).val [a.val, (k : ℝ) * ((b.val - a.val) / n)] := by
  obtain ⟨g1, hg1, h1⟩ := trapzDx_fac a b n
  obtain ⟨g2, hg2, h2⟩ := natCast_fac (M := M) k
  obtain ⟨g3, hg3, h3⟩ := mul_fac (k : Fl M) (trapzDx a b n)
  have hp : M.Pert 5 ((k : Fl M) * trapzDx a b n).val [(k : ℝ) * ((b.val - a.val) / n)] := by
    refine (Pert.of_fac ((k : ℝ) * ((b.val - a.val) / n)) ((hg2.mul hg1).mul hg3)).congr ?_ rfl
    rw [h3, h2, h1]; ring
  have := (Pert.single (M := M) 0 a.val).add_rnd hp (by omega : 0 + 1 ≤ 6) (le_refl _)
  exact this

theorem trapz_unfold (f : Fl M → Fl M) (a b : Fl M) (n : Nat) :
    trapz f a b n = trapzDx a b n *
      (iterSum ((List.range' 1 (n - 1)).map fun k : Nat => f (trapzNode a b n k))
        + (f b + f a) / two) := rfl

/-- **structure of the computed `trapz`**: `Σ wᵢ·f̂(x̂ᵢ)·(1+θᵢ)`, every `1+θᵢ` a product of at most
`max (n+4) 8` rounding factors -/
theorem trapz_pert (f : Fl M → Fl M) (a b : Fl M) (n : Nat) :
    M.Pert (max (n + 4) 8) (trapz f a b n).val (ruleTerms (trapzRule a b n) fun x => (f x).val) := by
  set h : ℝ := (b.val - a.val) / n with hh
  set L : List (Fl M) := (List.range' 1 (n - 1)).map fun k : Nat => f (trapzNode a b n k) with hL
  have hS := Rounding2.iterSum_pert L
  have hLlen : L.length = n - 1 := by simp [hL]
  rw [hLlen] at hS
  -- the end-point term
  obtain ⟨g1, hg1, h1⟩ := add_fac (f b) (f a)
  obtain ⟨g2, hg2, h2⟩ := two_fac (M := M)
  obtain ⟨g3, hg3, h3⟩ := div_fac (f b + f a) (two : Fl M)
  have hE : M.Pert 3 ((f b + f a) / two).val [(f b).val / 2, (f a).val / 2] := by
    have e0 : M.Pert 0 ((f b).val + (f a).val) ([(f b).val] ++ [(f a).val]) :=
      (Pert.single 0 _).append (Pert.single 0 _)
    have e1 := (e0.div_const 2).scale ((hg1.mul hg3).mul hg2.inv)
    refine e1.congr ?_ (by simp)
    rw [h3, h1, h2, div_eq_mul_inv, div_eq_mul_inv, mul_inv]; ring
  have hT := hS.add_rnd hE (show n - 1 + 1 ≤ max (n + 4) 8 - 4 - 1 + 1 by omega)
    (show 3 + 1 ≤ max (n + 4) 8 - 4 - 1 + 1 by omega)
  -- the product with the step
  obtain ⟨g4, hg4, h4⟩ := trapzDx_fac a b n
  obtain ⟨g5, hg5, h5⟩ := mul_fac (trapzDx a b n) (iterSum L + (f b + f a) / two)
  have hP := (hT.scale (hg4.mul hg5)).mul_const h
  rw [show max (n + 4) 8 - 4 - 1 + 1 + (3 + 1) = max (n + 4) 8 by omega] at hP
  refine hP.congr ?_ ?_
  · rw [trapz_unfold, h5, h4]
    rw [Fl.add_val, hh]; ring
  · simp only [ruleTerms, trapzRule, hL, vals, List.map_append, List.map_map, List.map_cons,
      List.map_nil, Function.comp_def, ← hh]
    congr 1
    · apply List.map_congr_left; intro k _; ring
    · simp only [List.cons.injEq, and_true]; constructor <;> ring

/-! #### Romberg: first tableau entry and one refinement step of the first column -/

/-- the two-point trapezoid rule of `r[0][0]` -/
noncomputable def romberg00Rule (a b : Fl M) : List (Fl M × ℝ) :=
  [(a, (b.val - a.val) / 2), (b, (b.val - a.val) / 2)]

theorem romberg00_pert (f : Fl M → Fl M) (a b : Fl M) :
    M.Pert 5 (romberg00 f a b).val (ruleTerms (romberg00Rule a b) fun x => (f x).val) := by
  obtain ⟨g1, hg1, h1⟩ := sub_fac b a
  obtain ⟨g2, hg2, h2⟩ := two_fac (M := M)
  obtain ⟨g3, hg3, h3⟩ := div_fac (b - a) (two : Fl M)
  obtain ⟨g4, hg4, h4⟩ := add_fac (f a) (f b)
  obtain ⟨g5, hg5, h5⟩ := mul_fac ((b - a) / two) (f a + f b)
  have e0 : M.Pert 0 ((f a).val + (f b).val) ([(f a).val] ++ [(f b).val]) :=
    (Pert.single 0 _).append (Pert.single 0 _)
  have e1 := (e0.scale ((((hg1.mul hg3).mul hg2.inv).mul hg4).mul hg5)).mul_const ((b.val - a.val) / 2)
  refine e1.congr ?_ ?_
  · rw [show romberg00 f a b = (b - a) / two * (f a + f b) from rfl, h5, h4, h3, h1, h2,
      div_eq_mul_inv, div_eq_mul_inv, mul_inv]; ring
  · simp [ruleTerms, romberg00Rule, mul_comm]

/-- the computed step `hn = (b-a)/2.powi(n)` of level `n` -/
noncomputable def rombergHn (a b : Fl M) (n : Nat) : Fl M := (b - a) / powi two (n : Int)

/-- the new (odd-index) nodes of level `n`, with the *computed* step as weight -/
noncomputable def rombergNewRule (a b : Fl M) (n : Nat) : List (Fl M × ℝ) :=
  (List.range' 1 (2 ^ (n - 1))).map fun k : Nat =>
    (a + ((2 * k - 1 : Nat) : Fl M) * rombergHn a b n, (rombergHn a b n).val)

/-- **one refinement step of the first Romberg column**:
`r[n][0] = r[n-1][0]/2·(1+θ₀) + Σ ĥn·f̂(x̂ₖ)·(1+θₖ)` with at most `max 3 (2^(n-1)+1) + 1` rounding factors
each (`ĥn` the computed step) -/
theorem rombergCol0Next_pert (f : Fl M → Fl M) (a b prev : Fl M) (n : Nat) :
    M.Pert (max 3 (2 ^ (n - 1) + 1) + 1) (rombergCol0Next f a b prev n).val
      ([prev.val / 2] ++ ruleTerms (rombergNewRule a b n) fun x => (f x).val) := by
  set hn := rombergHn a b n with hhn
  set L : List (Fl M) := (List.range' 1 (2 ^ (n - 1))).map
    fun k : Nat => f (a + ((2 * k - 1 : Nat) : Fl M) * hn) with hL
  have hS := Rounding2.iterSum_pert L
  have hLlen : L.length = 2 ^ (n - 1) := by simp [hL]
  rw [hLlen] at hS
  obtain ⟨g1, hg1, h1⟩ := half_fac (M := M)
  obtain ⟨g2, hg2, h2⟩ := mul_fac (half : Fl M) prev
  obtain ⟨g3, hg3, h3⟩ := mul_fac hn (iterSum L)
  have hA : M.Pert 3 ((half : Fl M) * prev).val [prev.val / 2] := by
    refine (Pert.of_fac (prev.val / 2) (hg1.mul hg2)).congr ?_ rfl
    rw [h2, h1]; ring
  have hB : M.Pert (2 ^ (n - 1) + 1) (hn * iterSum L).val ((vals L).map (· * hn.val)) := by
    refine ((hS.scale hg3).mul_const hn.val).congr ?_ rfl
    rw [h3]; ring
  have := hA.add_rnd hB (show 3 + 1 ≤ max 3 (2 ^ (n - 1) + 1) + 1 by omega)
    (show 2 ^ (n - 1) + 1 + 1 ≤ max 3 (2 ^ (n - 1) + 1) + 1 by omega)
  refine this.congr rfl ?_
  simp only [ruleTerms, rombergNewRule, hL, vals, List.map_map, Function.comp_def, ← hhn]
  congr 1
  apply List.map_congr_left; intro k _; ring

/-! #### `quad5` -/

/-- the computed midpoint and half-width of `quad5` -/
noncomputable def quadXm (a b : Fl M) : Fl M := half * (b + a)
noncomputable def quadXr (a b : Fl M) : Fl M := half * (b - a)

/-- the symmetric rule of `quad5` on the *computed* nodes `x̂m ± x̂r·tᵢ` with the exact half-width
`(b-a)/2` in the weights `wᵢ·(b-a)/2` -/
noncomputable def quad5Rule (nodes weights : List (Fl M)) (a b : Fl M) : List (Fl M × ℝ) :=
  (List.zip nodes weights).flatMap fun p =>
    [(quadXm a b + quadXr a b * p.1, p.2.val * ((b.val - a.val) / 2)),
     (quadXm a b - quadXr a b * p.1, p.2.val * ((b.val - a.val) / 2))]

theorem quadXr_fac (a b : Fl M) : ∃ g, M.Fac 4 g ∧ (quadXr a b).val = (b.val - a.val) / 2 * g := by
  obtain ⟨g1, hg1, h1⟩ := half_fac (M := M)
  obtain ⟨g2, hg2, h2⟩ := sub_fac b a
  obtain ⟨g3, hg3, h3⟩ := mul_fac (half : Fl M) (b - a)
  refine ⟨g1 * g2 * g3, (hg1.mul hg2).mul hg3, ?_⟩
  rw [show quadXr a b = half * (b - a) from rfl, h3, h2, h1]; ring

/-- two roundings per term `wᵢ·(f(x⁺) + f(x⁻))` -/
theorem quadTerms_factor (F G : Fl M → Fl M) (nodes weights : List (Fl M)) :
    ∃ gs : List ℝ, gs.length = (List.zip nodes weights).length ∧ (∀ g ∈ gs, M.Fac 2 g) ∧
      vals (List.zipWith (fun t w => w * (F t + G t)) nodes weights) =
        List.zipWith (· * ·)
          ((List.zip nodes weights).map fun p => p.2.val * ((F p.1).val + (G p.1).val)) gs := by
  induction nodes generalizing weights with
  | nil => exact ⟨[], by simp, by simp, by simp⟩
  | cons t nodes ih =>
    cases weights with
    | nil => exact ⟨[], by simp, by simp, by simp⟩
    | cons w weights =>
      obtain ⟨gs, hl, hg, he⟩ := ih weights
      obtain ⟨g1, hg1, h1⟩ := add_fac (F t) (G t)
      obtain ⟨g2, hg2, h2⟩ := mul_fac w (F t + G t)
      refine ⟨(g1 * g2) :: gs, by simpa using hl, ?_, ?_⟩
      · intro g hgm
        rcases List.mem_cons.mp hgm with rfl | hgm
        · exact hg1.mul hg2
        · exact hg g hgm
      · simp only [vals, List.zipWith_cons_cons, List.map_cons, List.zip_cons_cons] at he ⊢
        rw [he, h2, h1]
        congr 1
        ring

theorem quad5_unfold (nodes weights : List (Fl M)) (f : Fl M → Fl M) (a b : Fl M) :
    quad5 nodes weights f a b =
      iterSum (List.zipWith (fun t w => w * (f (quadXm a b + quadXr a b * t)
        + f (quadXm a b - quadXr a b * t))) nodes weights) * quadXr a b := rfl

/-- **structure of the computed `quad5`**: `Σ wᵢ·(b-a)/2·f̂(x̂ᵢ^±)·(1+θᵢ)`, at most `L + 7` rounding
factors each, `L = min (#nodes) (#weights)` (`= 5`, i.e. `12` factors, for the tables of the source) -/
theorem quad5_pert (nodes weights : List (Fl M)) (f : Fl M → Fl M) (a b : Fl M) :
    M.Pert (min nodes.length weights.length + 7) (quad5 nodes weights f a b).val
      (ruleTerms (quad5Rule nodes weights a b) fun x => (f x).val) := by
  set F : Fl M → Fl M := fun t => f (quadXm a b + quadXr a b * t) with hF
  set G : Fl M → Fl M := fun t => f (quadXm a b - quadXr a b * t) with hG
  obtain ⟨gs, hl, hg, he⟩ := quadTerms_factor F G nodes weights
  have hS := Rounding2.iterSum_pert (List.zipWith (fun t w => w * (F t + G t)) nodes weights)
  rw [he] at hS
  have hlen : (List.zipWith (fun t w => w * (F t + G t)) nodes weights).length =
      min nodes.length weights.length := by simp
  rw [hlen] at hS
  have hS' := Pert.comp _ gs _ (by simpa using hl) hg hS
  obtain ⟨g1, hg1, h1⟩ := quadXr_fac a b
  obtain ⟨g2, hg2, h2⟩ := mul_fac
    (iterSum (List.zipWith (fun t w => w * (F t + G t)) nodes weights)) (quadXr a b)
  have hP := (hS'.scale (hg1.mul hg2)).mul_const ((b.val - a.val) / 2)
  rw [show 2 + min nodes.length weights.length + (4 + 1) = min nodes.length weights.length + 7 by
    omega] at hP
  have hP' : M.Pert (min nodes.length weights.length + 7) (quad5 nodes weights f a b).val
      ((List.zip nodes weights).map fun p =>
        p.2.val * ((b.val - a.val) / 2) * (F p.1).val + p.2.val * ((b.val - a.val) / 2) * (G p.1).val) := by
    refine hP.congr ?_ ?_
    · rw [quad5_unfold, h2, h1]; ring
    · rw [List.map_map]
      apply List.map_congr_left; intro p _
      simp only [Function.comp_def]; ring
  have := Pert.split (List.zip nodes weights)
    (fun p => p.2.val * ((b.val - a.val) / 2) * (F p.1).val)
    (fun p => p.2.val * ((b.val - a.val) / 2) * (G p.1).val) hP'
  refine this.congr rfl ?_
  simp [ruleTerms, quad5Rule, List.map_flatMap, hF, hG]

/-! #### `trapezoid` (sample based) -/

theorem pairMeans_cons2 {α : Type} [Add α] [Div α] [NatCast α] (a b : α) (r : List α) :
    pairMeans (a :: b :: r) = (b + a) / two :: pairMeans (b :: r) := rfl
theorem pairDiffs_cons2 {α : Type} [Sub α] (a b : α) (r : List α) :
    pairDiffs (a :: b :: r) = (b - a) :: pairDiffs (b :: r) := rfl

/-- the exact panel areas `(y_{i+1}+y_i)/2·(x_{i+1}-x_i)` (the model's own terms over `ℝ`) -/
noncomputable def panelTerms (y x : List ℝ) : List ℝ :=
  List.zipWith (· * ·) (pairMeans y) (pairDiffs x)

/-- the exact panel areas for a uniform spacing `d` -/
noncomputable def panelTermsDx (y : List ℝ) (d : ℝ) : List ℝ := (pairMeans y).map (· * d)

theorem mean2_fac (a b : Fl M) :
    ∃ g, M.Fac 3 g ∧ ((b + a) / two).val = (b.val + a.val) / (two : ℝ) * g := by
  obtain ⟨g1, hg1, h1⟩ := add_fac b a
  obtain ⟨g2, hg2, h2⟩ := two_fac (M := M)
  obtain ⟨g3, hg3, h3⟩ := div_fac (b + a) (two : Fl M)
  refine ⟨g1 * g3 * g2⁻¹, (hg1.mul hg3).mul hg2.inv, ?_⟩
  rw [h3, h1, h2, show (two : ℝ) = 2 by simp [two], div_eq_mul_inv, div_eq_mul_inv, mul_inv]; ring

/-- five roundings per panel: sum, literal `2.`, quotient, difference, product -/
theorem panels_factor (y x : List (Fl M)) :
    ∃ gs : List ℝ, gs.length = (panelTerms (vals y) (vals x)).length ∧ (∀ g ∈ gs, M.Fac 5 g) ∧
      vals (List.zipWith (· * ·) (pairMeans y) (pairDiffs x)) =
        List.zipWith (· * ·) (panelTerms (vals y) (vals x)) gs := by
  induction y generalizing x with
  | nil => exact ⟨[], by simp [panelTerms, pairMeans], by simp, by simp [pairMeans]⟩
  | cons a r ih =>
    cases r with
    | nil => exact ⟨[], by simp [panelTerms, pairMeans], by simp, by simp [pairMeans]⟩
    | cons b r =>
      cases x with
      | nil => exact ⟨[], by simp [panelTerms, pairDiffs], by simp, by simp [pairDiffs]⟩
      | cons c s =>
        cases s with
        | nil => exact ⟨[], by simp [panelTerms, pairDiffs], by simp, by simp [pairDiffs]⟩
        | cons d s =>
          obtain ⟨gs, hl, hg, he⟩ := ih (d :: s)
          obtain ⟨g1, hg1, h1⟩ := mean2_fac a b
          obtain ⟨g2, hg2, h2⟩ := sub_fac d c
          obtain ⟨g3, hg3, h3⟩ := mul_fac ((b + a) / two) (d - c)
          refine ⟨(g1 * g2 * g3) :: gs, ?_, ?_, ?_⟩
          · simp only [panelTerms, vals, List.map_cons, pairMeans_cons2, pairDiffs_cons2,
              List.zipWith_cons_cons, List.length_cons] at hl ⊢
            rw [hl]
          · intro g hgm
            rcases List.mem_cons.mp hgm with rfl | hgm
            · exact (hg1.mul hg2).mul hg3
            · exact hg g hgm
          · simp only [panelTerms, vals, List.map_cons, pairMeans_cons2, pairDiffs_cons2,
              List.zipWith_cons_cons] at he ⊢
            rw [he, h3, h1, h2]
            congr 1
            ring

/-- five roundings per panel in the uniform branch: sum, `2.`, quotient, `1.0 * dx`, product -/
theorem panelsDx_factor (y : List (Fl M)) (d : Fl M) :
    ∃ gs : List ℝ, gs.length = (panelTermsDx (vals y) d.val).length ∧ (∀ g ∈ gs, M.Fac 5 g) ∧
      vals ((pairMeans y).map fun m => m * (1 * d)) =
        List.zipWith (· * ·) (panelTermsDx (vals y) d.val) gs := by
  induction y with
  | nil => exact ⟨[], by simp [panelTermsDx, pairMeans], by simp, by simp [pairMeans]⟩
  | cons a r ih =>
    cases r with
    | nil => exact ⟨[], by simp [panelTermsDx, pairMeans], by simp, by simp [pairMeans]⟩
    | cons b r =>
      obtain ⟨gs, hl, hg, he⟩ := ih
      obtain ⟨g1, hg1, h1⟩ := mean2_fac a b
      obtain ⟨g2, hg2, h2⟩ := mul_fac (1 : Fl M) d
      obtain ⟨g3, hg3, h3⟩ := mul_fac ((b + a) / two) (1 * d)
      refine ⟨(g1 * g2 * g3) :: gs, ?_, ?_, ?_⟩
      · simp only [panelTermsDx, vals, List.map_cons, pairMeans_cons2, List.length_cons] at hl ⊢
        rw [hl]
      · intro g hgm
        rcases List.mem_cons.mp hgm with rfl | hgm
        · exact (hg1.mul hg2).mul hg3
        · exact hg g hgm
      · simp only [panelTermsDx, vals, List.map_cons, pairMeans_cons2,
          List.zipWith_cons_cons] at he ⊢
        rw [he, h3, h1, h2]
        congr 1
        simp only [Fl.one_val]; ring

theorem pairMeans_length' {α : Type} [Add α] [Div α] [NatCast α] (y : List α) :
    (pairMeans y).length = y.length - 1 := by
  induction y with
  | nil => rfl
  | cons a r ih =>
    cases r with
    | nil => rfl
    | cons b r => rw [pairMeans_cons2, List.length_cons, ih]; simp

theorem pairDiffs_length' {α : Type} [Sub α] (x : List α) : (pairDiffs x).length = x.length - 1 := by
  induction x with
  | nil => rfl
  | cons a r ih =>
    cases r with
    | nil => rfl
    | cons b r => rw [pairDiffs_cons2, List.length_cons, ih]; simp

/-- **structure of the computed sample-based `trapezoid`, abscissae given** -/
theorem trapezoid_pert (y x : List (Fl M)) (hxy : y.length = x.length) :
    ∃ v, trapezoid y (some x) none = some v ∧
      M.Pert (y.length - 1 + 5) v.val (panelTerms (vals y) (vals x)) := by
  obtain ⟨gs, hl, hg, he⟩ := panels_factor y x
  have hS := Rounding2.iterSum_pert (List.zipWith (· * ·) (pairMeans y) (pairDiffs x))
  rw [he] at hS
  have hlen : (List.zipWith (· * ·) (pairMeans y) (pairDiffs x)).length = y.length - 1 := by
    rw [List.length_zipWith, pairMeans_length', pairDiffs_length', hxy]; simp
  rw [hlen] at hS
  refine ⟨iterSum (List.zipWith (· * ·) (pairMeans y) (pairDiffs x)), by simp [trapezoid, hxy], ?_⟩
  rw [Nat.add_comm]
  exact Pert.comp _ gs _ hl hg hS

/-- **structure of the computed sample-based `trapezoid`, uniform spacing `dx`** -/
theorem trapezoidDx_pert (y : List (Fl M)) (d : Fl M) (hy : y ≠ []) :
    ∃ v, trapezoid y none (some d) = some v ∧
      M.Pert (y.length - 1 + 5) v.val (panelTermsDx (vals y) d.val) := by
  obtain ⟨gs, hl, hg, he⟩ := panelsDx_factor y d
  have hS := Rounding2.iterSum_pert ((pairMeans y).map fun m => m * (1 * d))
  rw [he] at hS
  have hlen : ((pairMeans y).map fun m => m * (1 * d)).length = y.length - 1 := by
    rw [List.length_map, pairMeans_length']
  rw [hlen] at hS
  have hy0 : y.length ≠ 0 := by simpa using hy
  refine ⟨iterSum ((pairMeans y).map fun m => m * (1 * d)), by simp [trapezoid, hy0], ?_⟩
  rw [Nat.add_comm]
  exact Pert.comp _ gs _ hl hg hS

/-! ### C14: Horner -/

theorem hornerFl_cons (c0 : Fl M) (cs : List (Fl M)) (v : Fl M) :
    Poly.horner (c0 :: cs) v = Poly.horner cs v * v + c0 := by
  simp [Poly.horner, List.foldl_append]

/-- the monomials `aᵢ·xⁱ`, highest degree first (the order in which Horner's rule meets them) -/
noncomputable def hornerTerms : List ℝ → ℝ → List ℝ
  | [], _ => []
  | a :: c, x => (hornerTerms c x).map (· * x) ++ [a]

theorem hornerTerms_sum (c : List ℝ) (x : ℝ) : (hornerTerms c x).sum = Poly.horner c x := by
  induction c with
  | nil => simp [hornerTerms, Poly.horner]
  | cons a c ih =>
    rw [C14L.horner_cons, ← ih]
    simp [hornerTerms, List.sum_map_mul_right]

theorem hornerTerms_abs (c : List ℝ) (x : ℝ) :
    (hornerTerms c x).map (|·|) = hornerTerms (c.map (|·|)) |x| := by
  induction c with
  | nil => simp [hornerTerms]
  | cons a c ih =>
    simp only [hornerTerms, List.map_append, List.map_map, List.map_cons, List.map_nil, ← ih]
    congr 1
    apply List.map_congr_left
    intro t _
    simp [abs_mul]

/-- Horner's rule: each of the `n` steps adds two roundings to everything accumulated so far; `e` is
the cost of the very first step `0·v + aₙ` (`1` in the bare model, `0` when it is exact) -/
theorem horner_pert_gen (e : Nat) (c : List (Fl M)) (v : Fl M)
    (hb : ∀ a ∈ c, M.Pert e ((0 : Fl M) * v + a).val [a.val]) (hc : c ≠ []) :
    M.Pert (2 * (c.length - 1) + e) (Poly.horner c v).val (hornerTerms (vals c) v.val) := by
  induction c with
  | nil => exact absurd rfl hc
  | cons a r ih =>
    cases r with
    | nil =>
      have := hb a (by simp)
      simpa [hornerFl_cons, Poly.horner, hornerTerms] using this
    | cons b r =>
      have ih' := ih (fun a ha => hb a (by simp [ha])) (by simp)
      obtain ⟨g, hg, h⟩ := mul_fac (Poly.horner (b :: r) v) v
      have hm : M.Pert (2 * ((b :: r).length - 1) + e + 1) (Poly.horner (b :: r) v * v).val
          ((hornerTerms (vals (b :: r)) v.val).map (· * v.val)) := by
        refine ((ih'.mul_const v.val).scale hg).congr ?_ rfl
        rw [h]
      have := hm.add_rnd (Pert.single 0 a.val)
        (show 2 * ((b :: r).length - 1) + e + 1 + 1 ≤ 2 * ((a :: b :: r).length - 1) + e by
          simp only [List.length_cons]; omega)
        (show 0 + 1 ≤ 2 * ((a :: b :: r).length - 1) + e by simp only [List.length_cons]; omega)
      rw [hornerFl_cons]
      exact this.congr rfl (by simp [hornerTerms, vals])

theorem horner_first_step (a v : Fl M) : M.Pert 1 ((0 : Fl M) * v + a).val [a.val] := by
  obtain ⟨g, hg, h⟩ := add_fac ((0 : Fl M) * v) a
  refine (Pert.of_fac a.val hg).congr ?_ rfl
  rw [h]
  simp [M.rnd_zero]

theorem horner_first_step_exact (a v : Fl M) (ha : a.Rep) :
    M.Pert 0 ((0 : Fl M) * v + a).val [a.val] := by
  refine (Pert.single 0 a.val).congr ?_ rfl
  show a.val = M.rnd (M.rnd ((0 : ℝ) * v.val) + a.val)
  rw [zero_mul, M.rnd_zero, zero_add]
  exact ha.symm

/-! ### C13: the AR one-step forecast and `difference` -/

/-- one rounding per centred value -/
theorem centredProds_factor (D V : List (Fl M)) (ic : Fl M) :
    ∃ gs : List ℝ, gs.length = (List.zipWith (fun d c : Fl M => (d.val - ic.val) * c.val) D V).length ∧
      (∀ g ∈ gs, M.Fac 1 g) ∧
      prods (D.map (· - ic)) V =
        List.zipWith (· * ·) (List.zipWith (fun d c : Fl M => (d.val - ic.val) * c.val) D V) gs := by
  induction D generalizing V with
  | nil => exact ⟨[], by simp, by simp, by simp [prods]⟩
  | cons d D ih =>
    cases V with
    | nil => exact ⟨[], by simp, by simp, by simp [prods]⟩
    | cons c V =>
      obtain ⟨gs, hl, hg, he⟩ := ih V
      obtain ⟨g1, hg1, h1⟩ := sub_fac d ic
      refine ⟨g1 :: gs, by simpa using hl, ?_, ?_⟩
      · intro g hgm
        rcases List.mem_cons.mp hgm with rfl | hgm
        · exact hg1
        · exact hg g hgm
      · simp only [prods, List.map_cons, List.zipWith_cons_cons] at he ⊢
        rw [he, h1]
        congr 1
        ring

/-- the window of the history and the coefficients that `predict_one` multiplies -/
def arWindow (coeffs data : List (Fl M)) : List (Fl M) := data.drop (data.length - coeffs.length)
def arCoeffs (coeffs data : List (Fl M)) : List (Fl M) :=
  coeffs.drop (coeffs.length - (arWindow coeffs data).length)

theorem predictOne_unfold (coeffs : List (Fl M)) (ic : Fl M) (data : List (Fl M)) :
    TS.predictOne coeffs ic data =
      dot8 ((arWindow coeffs data).map (· - ic)) (arCoeffs coeffs data) + ic := by
  unfold TS.predictOne TS.predictOneCentred arCoeffs arWindow
  simp only [List.length_map, List.length_drop]
  by_cases h : coeffs.length ≤ data.length
  · rw [if_pos (by omega)]
    rw [show data.length - (data.length - coeffs.length) - coeffs.length = 0 by omega,
      show coeffs.length - (data.length - (data.length - coeffs.length)) = 0 by omega]
    simp
  · rw [if_neg (by omega)]

/-- the exact terms of the forecast: `φⱼ·(xⱼ − c)` over the window, then the intercept `c` -/
noncomputable def arTerms (coeffs : List (Fl M)) (ic : Fl M) (data : List (Fl M)) : List ℝ :=
  List.zipWith (fun d c : Fl M => (d.val - ic.val) * c.val) (arWindow coeffs data) (arCoeffs coeffs data)
    ++ [ic.val]

/-- **structure of the computed one-step forecast** -/
theorem predictOne_pert (coeffs : List (Fl M)) (ic : Fl M) (data : List (Fl M)) :
    M.Pert (min data.length coeffs.length + 3) (TS.predictOne coeffs ic data).val
      (arTerms coeffs ic data) := by
  obtain ⟨gs, hl, hg, he⟩ := centredProds_factor (arWindow coeffs data) (arCoeffs coeffs data) ic
  have hd := dot8_pert ((arWindow coeffs data).map (· - ic)) (arCoeffs coeffs data)
  rw [he] at hd
  have hd' := Pert.comp _ gs _ hl hg hd
  have hlen : (List.zipWith (· * ·) (List.zipWith (fun d c : Fl M => (d.val - ic.val) * c.val)
      (arWindow coeffs data) (arCoeffs coeffs data)) gs).length ≤ min data.length coeffs.length := by
    simp only [List.length_zipWith, arWindow, arCoeffs, List.length_drop]
    omega
  have hd'' := hd'.mono (show 1 + (sumDepth _ + 1) ≤ min data.length coeffs.length + 2 by
    have := sumDepth_le (List.zipWith (· * ·) (List.zipWith (fun d c : Fl M => (d.val - ic.val) * c.val)
      (arWindow coeffs data) (arCoeffs coeffs data)) gs).length
    omega)
  rw [predictOne_unfold]
  exact hd''.add_rnd (Pert.single 0 ic.val) (le_refl _) (by omega)

/-! ### C16: the extrapolation branch -/

/-- the value `slope·(t − xₖ) + yₖ` of the line through `(x_a,y_a)`, `(x_b,y_b)` anchored at `(xₖ,yₖ)`,
as computed on the right of the data -/
noncomputable def extrapRightF (xa xb ya yb xk yk t : Fl M) : Fl M :=
  (yb - ya) / (xb - xa) * (t - xk) + yk

/-- … and as computed on the left of the data: `(-slope)·(xₖ − t) + yₖ` -/
noncomputable def extrapLeftF (xa xb ya yb xk yk t : Fl M) : Fl M :=
  (-((yb - ya) / (xb - xa))) * (xk - t) + yk

theorem slope_fac (xa xb ya yb : Fl M) :
    ∃ g, M.Fac 3 g ∧ ((yb - ya) / (xb - xa)).val = (yb.val - ya.val) / (xb.val - xa.val) * g := by
  obtain ⟨g1, hg1, h1⟩ := sub_fac yb ya
  obtain ⟨g2, hg2, h2⟩ := sub_fac xb xa
  obtain ⟨g3, hg3, h3⟩ := div_fac (yb - ya) (xb - xa)
  refine ⟨g1 * g3 * g2⁻¹, (hg1.mul hg3).mul hg2.inv, ?_⟩
  rw [h3, h1, h2, div_eq_mul_inv, div_eq_mul_inv, mul_inv]; ring

theorem extrapRightF_pert (xa xb ya yb xk yk t : Fl M) :
    M.Pert 6 (extrapRightF xa xb ya yb xk yk t).val
      [(yb.val - ya.val) / (xb.val - xa.val) * (t.val - xk.val), yk.val] := by
  obtain ⟨g1, hg1, h1⟩ := slope_fac xa xb ya yb
  obtain ⟨g2, hg2, h2⟩ := sub_fac t xk
  obtain ⟨g3, hg3, h3⟩ := mul_fac ((yb - ya) / (xb - xa)) (t - xk)
  have hp : M.Pert 5 ((yb - ya) / (xb - xa) * (t - xk)).val
      [(yb.val - ya.val) / (xb.val - xa.val) * (t.val - xk.val)] := by
    refine (Pert.of_fac _ ((hg1.mul hg2).mul hg3)).congr ?_ rfl
    rw [h3, h1, h2]; ring
  exact hp.add_rnd (Pert.single 0 yk.val) (le_refl _) (by omega)

theorem extrapLeftF_pert (xa xb ya yb xk yk t : Fl M) :
    M.Pert 6 (extrapLeftF xa xb ya yb xk yk t).val
      [(yb.val - ya.val) / (xb.val - xa.val) * (t.val - xk.val), yk.val] := by
  obtain ⟨g1, hg1, h1⟩ := slope_fac xa xb ya yb
  obtain ⟨g2, hg2, h2⟩ := sub_fac xk t
  obtain ⟨g3, hg3, h3⟩ := mul_fac (-((yb - ya) / (xb - xa))) (xk - t)
  have hp : M.Pert 5 ((-((yb - ya) / (xb - xa))) * (xk - t)).val
      [(yb.val - ya.val) / (xb.val - xa.val) * (t.val - xk.val)] := by
    refine (Pert.of_fac _ ((hg1.mul hg2).mul hg3)).congr ?_ rfl
    rw [h3, h2, Fl.neg_val, h1]; ring
  exact hp.add_rnd (Pert.single 0 yk.val) (le_refl _) (by omega)

section interp
open Cv.Rounding2

/-- what `interpOne` computes to the left of the data in `Extrapolate` mode (comparisons are exact) -/
theorem interpOne_left (x y : List (Fl M)) (t : Fl M) (hn : 2 ≤ x.length)
    (ht : t.val < (x[0]!).val) :
    interpOne x y ExtrapMode.extrapolate t = some (extrapLeftF x[0]! x[1]! y[0]! y[1]! x[0]! y[0]! t) := by
  have hidx : scanIdx t (x.take (x.length - 1)) = 0 := by
    cases x with
    | nil => simp at hn
    | cons a r =>
      have : (a :: r).length - 1 = (r.length - 1) + 1 := by simp only [List.length_cons] at hn ⊢; omega
      rw [this, List.take_succ_cons]
      have ha : t.val < a.val := by simpa using ht
      simp only [scanIdx]
      rw [if_pos (show a > t from ha)]
  unfold interpOne
  simp only [hidx, true_or, if_true]
  rw [if_neg (by omega), if_neg (by omega)]
  rfl

/-- … and to the right of the data -/
theorem interpOne_right (x y : List (Fl M)) (t : Fl M) (hn : 2 ≤ x.length)
    (h0 : (x[0]!).val ≤ t.val) (ht : (x[x.length - 1]!).val < t.val) :
    interpOne x y ExtrapMode.extrapolate t = some (extrapRightF x[x.length - 2]! x[x.length - 1]!
      y[x.length - 2]! y[x.length - 1]! x[x.length - 1]! y[x.length - 1]! t) := by
  have hidx : scanIdx t (x.take (x.length - 1)) ≠ 0 := by
    cases x with
    | nil => simp at hn
    | cons a r =>
      have : (a :: r).length - 1 = (r.length - 1) + 1 := by simp only [List.length_cons] at hn ⊢; omega
      rw [this, List.take_succ_cons]
      have ha : ¬ t.val < a.val := by simpa using h0
      simp only [scanIdx]
      rw [if_neg (show ¬ a > t from ha)]
      omega
  unfold interpOne
  rw [if_neg (by omega)]
  simp only []
  rw [if_pos (Or.inr (show x[x.length - 1]! < t from ht))]
  simp only [hidx, if_false]
  rfl

end interp

/-! ### C17 / C20: library functions `ln`, `exp`, `powf` with relative error `≤ uf` -/

section transc
open Cv.Rounding3

/-- `powf` with relative error at most `uf` on positive bases (explicit hypothesis on `f64::powf`,
next to `ExpLnStd` for `exp` / `ln`).  TRUSTED LINK (stated, not proved): the platform `pow` satisfies
this for some `uf` in the absence of overflow/underflow. -/
class PowStd (M : FlModel) [ExpLnStd M] where
  powR : ℝ → ℝ → ℝ
  pow_std : ∀ x y : ℝ, 0 < x → ∃ δ : ℝ, |δ| ≤ uF M ∧ powR x y = x ^ y * (1 + δ)

/-- a correctly rounded `powf` next to correctly rounded `exp` / `ln` -/
@[reducible] noncomputable def PowStd.ofRnd (M : FlModel) : @PowStd M (ExpLnStd.ofRnd M) :=
  letI := ExpLnStd.ofRnd M
  { powR := fun x y => M.rnd (x ^ y)
    pow_std := fun x y _ => M.std (x ^ y) }

scoped instance flLE : LE (Fl M) := ⟨fun a b => a.val ≤ b.val⟩
noncomputable scoped instance flDecLE : DecidableLE (Fl M) :=
  fun a b => Classical.propDecidable (a.val ≤ b.val)
noncomputable scoped instance flBEq : BEq (Fl M) :=
  ⟨fun a b => @decide (a.val = b.val) (Classical.propDecidable _)⟩

/-- `Transc (Fl M)`: `exp`, `ln`, `pow` with relative error `≤ uf`, exact `abs`; the other fields are
placeholders (not used by the functions analysed here). -/
noncomputable scoped instance (priority := high) flTransc [ExpLnStd M] [PowStd M] : Transc (Fl M) where
  sqrt a := a
  abs a := ⟨|a.val|⟩
  exp a := ⟨ExpLnStd.expR (M := M) a.val⟩
  ln a := ⟨ExpLnStd.lnR (M := M) a.val⟩
  pow a b := ⟨PowStd.powR (M := M) a.val b.val⟩
  sin a := a
  cos a := a
  tan a := a
  floor a := a
  ceil a := a

theorem fl_le_def (a b : Fl M) : a ≤ b ↔ a.val ≤ b.val := Iff.rfl
theorem fl_beq_def (a b : Fl M) : (a == b) = true ↔ a.val = b.val := by
  show @decide (a.val = b.val) (Classical.propDecidable _) = true ↔ _
  simp
@[simp] theorem fl5_exp_val [ExpLnStd M] [PowStd M] (a : Fl M) :
    (Transc.exp a).val = ExpLnStd.expR (M := M) a.val := rfl
@[simp] theorem fl5_ln_val [ExpLnStd M] [PowStd M] (a : Fl M) :
    (Transc.ln a).val = ExpLnStd.lnR (M := M) a.val := rfl
@[simp] theorem fl5_pow_val [ExpLnStd M] [PowStd M] (a b : Fl M) :
    (Transc.pow a b).val = PowStd.powR (M := M) a.val b.val := rfl

/-! #### multiplicative closeness, continued -/

theorem Near.abs_sub_le {c s t : ℝ} (hc : 0 < c) (hs : 0 ≤ s) (h : Near c s t) :
    |t - s| ≤ (1 / c - 1) * s := by
  obtain ⟨h1, h2⟩ := h
  have hc1 : c ≤ 1 ∨ 1 < c := le_or_gt c 1
  have ht : t ≤ s / c := by rw [le_div_iff₀ hc]; exact h2
  have e : (1 / c - 1) * s = s / c - s := by ring
  rw [e, abs_le]
  constructor
  · -- `c·s ≤ t`, and `s/c − s ≥ s − c·s` as `(1−c)²·s ≥ 0`
    have : s - c * s ≤ s / c - s := by
      rw [le_sub_iff_add_le, div_eq_mul_inv]
      have hci : c * c⁻¹ = 1 := mul_inv_cancel₀ hc.ne'
      have hcinv : 0 < c⁻¹ := inv_pos.mpr hc
      nlinarith [mul_nonneg (mul_nonneg hs hcinv.le) (sq_nonneg (1 - c))]
    linarith
  · linarith

theorem Near.mul_right {c s t : ℝ} (h : Near c s t) {v : ℝ} (hv : 0 ≤ v) : Near c (s * v) (t * v) := by
  obtain ⟨h1, h2⟩ := h
  constructor
  · calc c * (s * v) = (c * s) * v := by ring
      _ ≤ t * v := mul_le_mul_of_nonneg_right h1 hv
  · calc t * v * c = (t * c) * v := by ring
      _ ≤ s * v := mul_le_mul_of_nonneg_right h2 hv

/-- `1 + A·g` with `g` a `k`-fold factor and `A ≥ 0` -/
theorem Near.one_add {k : Nat} {A g : ℝ} (hA : 0 ≤ A) (hg : M.Fac k g) :
    Near ((1 - M.u) ^ k) (1 + A) (1 + A * g) := by
  have hp := M.pow_pos' k
  have hp1 := M.pow_le_one'' k
  constructor
  · have := mul_le_mul_of_nonneg_left hg.1 hA
    nlinarith
  · have := mul_le_mul_of_nonneg_left hg.2 hA
    nlinarith

/-- negative real powers reverse and scale the closeness constant -/
theorem Near.rpow_neg {c s t α : ℝ} (hc : 0 < c) (hs : 0 < s) (hα : 0 ≤ α) (h : Near c s t) :
    Near (c ^ α) (s ^ (-α)) (t ^ (-α)) := by
  have ht := h.pos hc hs
  obtain ⟨h1, h2⟩ := h
  have hcα : 0 < c ^ α := Real.rpow_pos_of_pos hc α
  have hcc : c ^ (-α) * c ^ α = 1 := by
    rw [Real.rpow_neg hc.le, inv_mul_cancel₀ hcα.ne']
  constructor
  · have := Real.rpow_le_rpow_of_nonpos (mul_pos ht hc) h2 (neg_nonpos.mpr hα)
    rw [Real.mul_rpow ht.le hc.le] at this
    calc c ^ α * s ^ (-α) ≤ c ^ α * (t ^ (-α) * c ^ (-α)) := mul_le_mul_of_nonneg_left this hcα.le
      _ = t ^ (-α) * (c ^ (-α) * c ^ α) := by ring
      _ = t ^ (-α) := by rw [hcc, mul_one]
  · have := Real.rpow_le_rpow_of_nonpos (mul_pos hc hs) h1 (neg_nonpos.mpr hα)
    rw [Real.mul_rpow hc.le hs.le] at this
    calc t ^ (-α) * c ^ α ≤ (c ^ (-α) * s ^ (-α)) * c ^ α := mul_le_mul_of_nonneg_right this hcα.le
      _ = s ^ (-α) * (c ^ (-α) * c ^ α) := by ring
      _ = s ^ (-α) := by rw [hcc, mul_one]

/-- a library-function error `1+ε` and a rounding `1+δ` -/
theorem Near.libm_rnd [ExpLnStd M] {s ε δ : ℝ} (hs : 0 ≤ s) (hε : |ε| ≤ uF M) (hδ : |δ| ≤ M.u) :
    Near ((1 - uF M) * (1 - M.u)) s (s * ((1 + ε) * (1 + δ))) := by
  have hf : (libm M).Fac 1 (1 + ε) := Fac.one_add (M := libm M) hε
  have hd : M.Fac 1 (1 + δ) := Fac.one_add hδ
  have f1 := hf.1; have f2 := hf.2; have d1 := hd.1; have d2 := hd.2
  simp only [pow_one, libm_u] at f1 f2 d1 d2
  have hu1 : 0 < 1 - uF M := by linarith [ExpLnStd.uf_lt_one (M := M)]
  have hu2 := M.one_sub_u_pos
  refine Near.of_mul hs (mul_le_mul f1 d1 hu2.le (le_trans hu1.le f1)) ?_
  calc (1 + ε) * (1 + δ) * ((1 - uF M) * (1 - M.u)) = ((1 + ε) * (1 - uF M)) * ((1 + δ) * (1 - M.u)) := by ring
    _ ≤ 1 * 1 := mul_le_mul f2 d2 (mul_nonneg hd.pos.le hu2.le) (by norm_num)
    _ = 1 := one_mul 1

/-! #### `logit` -/

/-- the computed odds `p ⊘ (1 ⊖ p)`: two roundings -/
theorem odds_fac (p : Fl M) :
    ∃ g, M.Fac 2 g ∧ (p / (1 - p)).val = p.val / (1 - p.val) * g := by
  obtain ⟨g1, hg1, h1⟩ := sub_fac (1 : Fl M) p
  obtain ⟨g2, hg2, h2⟩ := div_fac p (1 - p)
  refine ⟨g2 * g1⁻¹, by simpa using hg2.mul hg1.inv, ?_⟩
  rw [h2, h1, Fl.one_val, div_eq_mul_inv, div_eq_mul_inv, mul_inv]; ring

theorem logit_unfold [ExpLnStd M] [PowStd M] (p : Fl M) (h0 : 0 ≤ p.val) (h1 : p.val ≤ 1) :
    logit p = some (Transc.ln (p / (1 - p))) := by
  unfold logit
  rw [if_pos ⟨show (0 : Fl M).val ≤ p.val from h0, show p.val ≤ (1 : Fl M).val from h1⟩]

/-- real-number core: `ln` of a perturbed positive argument, with a relative library error -/
theorem ln_near_error [ExpLnStd M] {q c Λ : ℝ} (qh : ℝ) (hq : 0 < q) (hc : 0 < c)
    (hnear : Near c q qh) (hΛ : -Real.log c ≤ Λ) :
    |ExpLnStd.lnR (M := M) qh - Real.log q| ≤ uF M * |Real.log q| + (1 + uF M) * Λ := by
  have hqh := hnear.pos hc hq
  obtain ⟨η, hη, hl⟩ := ExpLnStd.ln_std (M := M) qh hqh
  have hg : |Real.log qh - Real.log q| ≤ Λ := le_trans (hnear.log hc hq) hΛ
  have e : ExpLnStd.lnR (M := M) qh - Real.log q =
      η * Real.log q + (Real.log qh - Real.log q) * (1 + η) := by rw [hl]; ring
  rw [e]
  refine le_trans (abs_add_le _ _) ?_
  rw [abs_mul, abs_mul]
  have hη1 : |1 + η| ≤ 1 + uF M := by
    have := abs_le.mp hη
    rw [abs_le]; constructor <;> linarith
  have a1 : |η| * |Real.log q| ≤ uF M * |Real.log q| := mul_le_mul_of_nonneg_right hη (abs_nonneg _)
  have a2 : |Real.log qh - Real.log q| * |1 + η| ≤ Λ * (1 + uF M) :=
    mul_le_mul hg hη1 (abs_nonneg _) (le_trans (abs_nonneg _) hg)
  linarith

/-! #### Box–Cox -/

theorem boxcox_unfold_zero [ExpLnStd M] [PowStd M] (x l : Fl M) (hx : 0 < x.val) (hl : l.val = 0) :
    boxcox x l = some (Transc.ln x) := by
  unfold boxcox boxcoxBody
  rw [if_pos (show (0 : Fl M) < x from hx), if_pos ((fl_beq_def l 0).mpr hl)]

theorem boxcox_unfold [ExpLnStd M] [PowStd M] (x l : Fl M) (hx : 0 < x.val) (hl : l.val ≠ 0) :
    boxcox x l = some ((Transc.pow x l - 1) / l) := by
  unfold boxcox boxcoxBody
  rw [if_pos (show (0 : Fl M) < x from hx)]
  have : ¬ ((l == 0) = true) := fun h => hl ((fl_beq_def l 0).mp h)
  rw [if_neg this]

/-- structure of the computed Box–Cox value, `λ ≠ 0` -/
theorem boxcox_struct [ExpLnStd M] [PowStd M] (x l : Fl M) (hx : 0 < x.val) :
    ∃ ε g : ℝ, |ε| ≤ uF M ∧ M.Fac 2 g ∧
      ((Transc.pow x l - 1) / l).val = (x.val ^ l.val * (1 + ε) - 1) / l.val * g := by
  obtain ⟨ε, hε, hp⟩ := PowStd.pow_std (M := M) x.val l.val hx
  obtain ⟨g1, hg1, h1⟩ := sub_fac (Transc.pow x l) (1 : Fl M)
  obtain ⟨g2, hg2, h2⟩ := div_fac (Transc.pow x l - 1) l
  refine ⟨ε, g1 * g2, hε, hg1.mul hg2, ?_⟩
  rw [h2, h1, fl5_pow_val, hp, Fl.one_val]; ring

/-! #### the scalar covariance kernels -/

theorem powi_two_fl (z : Fl M) : powi z 2 = 1 * (z * z) := rfl

/-- `z.powi(2)`: two roundings in the bare model (`1.0 * (z*z)`) -/
theorem sq_fac (z : Fl M) : ∃ g, M.Fac 2 g ∧ (powi z 2).val = z.val ^ 2 * g := by
  obtain ⟨g1, hg1, h1⟩ := mul_fac z z
  obtain ⟨g2, hg2, h2⟩ := mul_fac (1 : Fl M) (z * z)
  refine ⟨g1 * g2, hg1.mul hg2, ?_⟩
  rw [powi_two_fl, h2, h1, Fl.one_val]; ring

/-- `(x - y).powi(2)`: four rounding factors -/
theorem sqDiff_fac (x y : Fl M) :
    ∃ g, M.Fac 4 g ∧ (powi (x - y) 2).val = (x.val - y.val) ^ 2 * g := by
  obtain ⟨g1, hg1, h1⟩ := sub_fac x y
  obtain ⟨g2, hg2, h2⟩ := sq_fac (x - y)
  refine ⟨g1 * g1 * g2, (hg1.mul hg1).mul hg2, ?_⟩
  rw [h2, h1]; ring

theorem gpTwo_fac : ∃ g, M.Fac 1 g ∧ (Gp.two : Fl M).val = 2 * g := by
  obtain ⟨g, hg, h⟩ := natCast_fac (M := M) 2
  exact ⟨g, hg, by rw [show (Gp.two : Fl M) = ((2 : Nat) : Fl M) from rfl, h]; norm_num⟩

theorem rbfDenom_fac (k : Gp.RBF (Fl M)) :
    ∃ g, M.Fac 4 g ∧ k.denom.val = 2 * k.ls.val ^ 2 * g := by
  obtain ⟨g1, hg1, h1⟩ := gpTwo_fac (M := M)
  obtain ⟨g2, hg2, h2⟩ := sq_fac k.ls
  obtain ⟨g3, hg3, h3⟩ := mul_fac (Gp.two : Fl M) (powi k.ls 2)
  refine ⟨g1 * g2 * g3, (hg1.mul hg2).mul hg3, ?_⟩
  rw [show k.denom = Gp.two * powi k.ls 2 from rfl, h3, h1, h2]; ring

theorem rqDenom_fac (k : Gp.RQ (Fl M)) :
    ∃ g, M.Fac 5 g ∧ k.denom.val = 2 * k.alpha.val * k.ls.val ^ 2 * g := by
  obtain ⟨g1, hg1, h1⟩ := gpTwo_fac (M := M)
  obtain ⟨g2, hg2, h2⟩ := mul_fac (Gp.two : Fl M) k.alpha
  obtain ⟨g3, hg3, h3⟩ := sq_fac k.ls
  obtain ⟨g4, hg4, h4⟩ := mul_fac (Gp.two * k.alpha) (powi k.ls 2)
  refine ⟨g1 * g2 * g3 * g4, ((hg1.mul hg2).mul hg3).mul hg4, ?_⟩
  rw [show k.denom = Gp.two * k.alpha * powi k.ls 2 from rfl, h4, h2, h1, h3]; ring

/-- the exact exponent `(x−y)²/(2ℓ²)` of the RBF kernel -/
noncomputable def rbfArg (k : Gp.RBF (Fl M)) (x y : Fl M) : ℝ :=
  (x.val - y.val) ^ 2 / (2 * k.ls.val ^ 2)

/-- the exact RBF kernel `σ²·exp(−(x−y)²/(2ℓ²))` -/
noncomputable def rbfExact (k : Gp.RBF (Fl M)) (x y : Fl M) : ℝ :=
  Real.exp (-(rbfArg k x y)) * k.var.val

theorem rbfArg_nonneg (k : Gp.RBF (Fl M)) (x y : Fl M) : 0 ≤ rbfArg k x y := by
  unfold rbfArg; positivity

/-- the computed exponent: nine rounding factors on the exact one -/
theorem rbfArg_fac (k : Gp.RBF (Fl M)) (x y : Fl M) :
    ∃ g, M.Fac 9 g ∧ ((-(powi (x - y) 2)) / k.denom).val = -(rbfArg k x y) * g := by
  obtain ⟨g1, hg1, h1⟩ := sqDiff_fac x y
  obtain ⟨g2, hg2, h2⟩ := rbfDenom_fac k
  obtain ⟨g3, hg3, h3⟩ := div_fac (-(powi (x - y) 2)) k.denom
  refine ⟨g1 * g3 * g2⁻¹, (hg1.mul hg3).mul hg2.inv, ?_⟩
  rw [h3, Fl.neg_val, h1, h2, rbfArg, div_eq_mul_inv, div_eq_mul_inv, mul_inv]; ring

theorem rbf_unfold [ExpLnStd M] [PowStd M] (k : Gp.RBF (Fl M)) (x y : Fl M) :
    k.fwd x y = Transc.exp ((-(powi (x - y) 2)) / k.denom) * k.var := rfl

/-- the exact argument `(x−y)²/(2αℓ²)` of the rational-quadratic kernel -/
noncomputable def rqArg (k : Gp.RQ (Fl M)) (x y : Fl M) : ℝ :=
  (x.val - y.val) ^ 2 / (2 * k.alpha.val * k.ls.val ^ 2)

/-- the exact rational-quadratic kernel `σ²·(1 + (x−y)²/(2αℓ²))^(−α)` -/
noncomputable def rqExact (k : Gp.RQ (Fl M)) (x y : Fl M) : ℝ :=
  (1 + rqArg k x y) ^ (-k.alpha.val) * k.var.val

theorem rqArg_nonneg (k : Gp.RQ (Fl M)) (x y : Fl M) (hα : 0 ≤ k.alpha.val) : 0 ≤ rqArg k x y := by
  unfold rqArg; positivity

theorem rqArg_fac (k : Gp.RQ (Fl M)) (x y : Fl M) :
    ∃ g, M.Fac 10 g ∧ (powi (x - y) 2 / k.denom).val = rqArg k x y * g := by
  obtain ⟨g1, hg1, h1⟩ := sqDiff_fac x y
  obtain ⟨g2, hg2, h2⟩ := rqDenom_fac k
  obtain ⟨g3, hg3, h3⟩ := div_fac (powi (x - y) 2) k.denom
  refine ⟨g1 * g3 * g2⁻¹, (hg1.mul hg3).mul hg2.inv, ?_⟩
  rw [h3, h1, h2, rqArg, div_eq_mul_inv, div_eq_mul_inv, mul_inv]; ring

/-- the computed base `1 ⊕ (x−y)²⊘denom` of the power -/
theorem rqBase_near (k : Gp.RQ (Fl M)) (x y : Fl M) (hα : 0 ≤ k.alpha.val) :
    Near ((1 - M.u) ^ 11) (1 + rqArg k x y) ((1 : Fl M) + powi (x - y) 2 / k.denom).val := by
  obtain ⟨g, hg, h⟩ := rqArg_fac k x y
  obtain ⟨g2, hg2, h2⟩ := add_fac (1 : Fl M) (powi (x - y) 2 / k.denom)
  have hA := rqArg_nonneg k x y hα
  have n1 : Near ((1 - M.u) ^ 10) (1 + rqArg k x y) (1 + rqArg k x y * g) := Near.one_add hA hg
  have hpos : 0 ≤ 1 + rqArg k x y * g := by have := hg.pos; positivity
  have n2 : Near ((1 - M.u) ^ 1) (1 + rqArg k x y * g) ((1 + rqArg k x y * g) * g2) :=
    Near.of_fac hpos hg2
  have := Near.trans (M.pow_pos' 10).le (M.pow_pos' 1).le n1 n2
  rw [h2, Fl.one_val, h]
  rwa [← pow_add] at this

theorem rq_unfold [ExpLnStd M] [PowStd M] (k : Gp.RQ (Fl M)) (x y : Fl M) :
    k.fwd x y = Transc.pow (1 + powi (x - y) 2 / k.denom) (-k.alpha) * k.var := rfl

end transc

/-! ### C08: the one-pass ("textbook", shifted by the first point) covariance -/

theorem onepass_foldl (x0 y0 : Fl M) (P : List (Fl M × Fl M)) (s : Fl M × Fl M × Fl M) :
    P.foldl (onepassStep x0 y0) s =
      ((P.map fun p => (p.1 - x0) * (p.2 - y0)).foldl (· + ·) s.1,
       (P.map fun p => p.1 - x0).foldl (· + ·) s.2.1,
       (P.map fun p => p.2 - y0).foldl (· + ·) s.2.2) := by
  induction P generalizing s with
  | nil => rfl
  | cons p P ih =>
    simp only [List.foldl_cons, List.map_cons]
    rw [ih]
    rfl

theorem centred_factor (D : List (Fl M)) (c : Fl M) :
    ∃ gs : List ℝ, gs.length = ((vals D).map (· - c.val)).length ∧ (∀ g ∈ gs, M.Fac 1 g) ∧
      vals (D.map (· - c)) = List.zipWith (· * ·) ((vals D).map (· - c.val)) gs := by
  induction D with
  | nil => exact ⟨[], by simp, by simp, by simp⟩
  | cons d D ih =>
    obtain ⟨gs, hl, hg, he⟩ := ih
    obtain ⟨g1, hg1, h1⟩ := sub_fac d c
    refine ⟨g1 :: gs, by simpa using hl, ?_, ?_⟩
    · intro g hgm
      rcases List.mem_cons.mp hgm with rfl | hgm
      · exact hg1
      · exact hg g hgm
    · simp only [vals, List.map_cons, List.zipWith_cons_cons] at he ⊢
      rw [he, h1]

/-- a plain left fold from `0` over centred values: `n + 1` roundings -/
theorem centredSum_pert (D : List (Fl M)) (c : Fl M) :
    M.Pert (D.length + 1) ((D.map (· - c)).foldl (· + ·) (0 : Fl M)).val ((vals D).map (· - c.val)) := by
  obtain ⟨gs, hl, hg, he⟩ := centred_factor D c
  have hp := foldl_pert (D.map (· - c)) (0 : Fl M) 0 [] (Pert.nil 0)
  simp only [Nat.zero_add, List.nil_append, List.length_map] at hp
  rw [he] at hp
  rw [Nat.add_comm]
  exact Pert.comp _ gs _ hl hg hp

/-- the running sum of products of centred values: `n + 3` roundings -/
theorem centredProdSum_pert (x y : List (Fl M)) (hxy : x.length = y.length) (x0 y0 : Fl M) :
    M.Pert (x.length + 3)
      (((List.zip x y).map fun p => (p.1 - x0) * (p.2 - y0)).foldl (· + ·) (0 : Fl M)).val
      (Rounding2.cprods x0.val y0.val x y) := by
  have hz : ((List.zip x y).map fun p => (p.1 - x0) * (p.2 - y0)) =
      List.zipWith (fun a b => (a - x0) * (b - y0)) x y := by
    rw [List.zip_eq_zipWith, List.map_zipWith]
  obtain ⟨gs, hl, hg, he⟩ := Rounding2.cterms_factor x0 y0 x y
  have hp := foldl_pert (List.zipWith (fun a b => (a - x0) * (b - y0)) x y) (0 : Fl M) 0 []
    (Pert.nil 0)
  simp only [Nat.zero_add, List.nil_append] at hp
  rw [he] at hp
  have hlen : (List.zipWith (fun a b => (a - x0) * (b - y0)) x y).length = x.length := by
    simp [hxy]
  rw [hlen] at hp
  rw [hz, Nat.add_comm]
  exact Pert.comp _ gs _ hl hg hp

/-- **structure of the computed one-pass covariance** -/
theorem onepass_struct (x0 y0 : Fl M) (xr yr : List (Fl M)) (hxy : xr.length = yr.length) :
    ∃ (v : Fl M) (sxy sx sy G H : ℝ),
      sampleCovarianceOnepass (x0 :: xr) (y0 :: yr) = some v ∧
      M.Pert (xr.length + 1 + 3) sxy (Rounding2.cprods x0.val y0.val (x0 :: xr) (y0 :: yr)) ∧
      M.Pert (xr.length + 1 + 1) sx ((vals (x0 :: xr)).map (· - x0.val)) ∧
      M.Pert (xr.length + 1 + 1) sy ((vals (y0 :: yr)).map (· - y0.val)) ∧
      M.Fac 3 G ∧ M.Fac 3 H ∧
      v.val = (sxy - sx * sy / ((xr.length + 1 : Nat) : ℝ) * H) / ((xr.length : Nat) : ℝ) * G := by
  have hlen : (x0 :: xr).length = (y0 :: yr).length := by simp [hxy]
  set x := x0 :: xr with hx
  set y := y0 :: yr with hy
  have hxl : x.length = xr.length + 1 := by simp [hx]
  set S := (List.zip x y).foldl (onepassStep x0 y0) (0, 0, 0) with hS
  have hSeq := onepass_foldl x0 y0 (List.zip x y) ((0 : Fl M), (0 : Fl M), (0 : Fl M))
  have h1 := centredProdSum_pert x y hlen x0 y0
  have h2 := centredSum_pert x x0
  have h3 := centredSum_pert y y0
  have hm1 : (List.zip x y).map (fun p => p.1 - x0) = x.map (· - x0) := by
    rw [show (fun p : Fl M × Fl M => p.1 - x0) = (· - x0) ∘ Prod.fst from rfl, ← List.map_map,
      List.map_fst_zip (by omega)]
  have hm2 : (List.zip x y).map (fun p => p.2 - y0) = y.map (· - y0) := by
    rw [show (fun p : Fl M × Fl M => p.2 - y0) = (· - y0) ∘ Prod.snd from rfl, ← List.map_map,
      List.map_snd_zip (by omega)]
  rw [hm1, hm2] at hSeq
  have e1 : S.1 = ((List.zip x y).map fun p => (p.1 - x0) * (p.2 - y0)).foldl (· + ·) 0 := by
    rw [hS, hSeq]
  have e2 : S.2.1 = (x.map (· - x0)).foldl (· + ·) 0 := by rw [hS, hSeq]
  have e3 : S.2.2 = (y.map (· - y0)).foldl (· + ·) 0 := by rw [hS, hSeq]
  rw [← e1] at h1
  rw [← e2] at h2
  rw [← e3] at h3
  obtain ⟨g1, hg1, q1⟩ := mul_fac S.2.1 S.2.2
  obtain ⟨g2, hg2, q2⟩ := natCast_fac (M := M) x.length
  obtain ⟨g3, hg3, q3⟩ := div_fac (S.2.1 * S.2.2) (x.length : Fl M)
  obtain ⟨g4, hg4, q4⟩ := sub_fac S.1 (S.2.1 * S.2.2 / (x.length : Fl M))
  obtain ⟨g5, hg5, q5⟩ := natCast_fac (M := M) (x.length - 1)
  obtain ⟨g6, hg6, q6⟩ := div_fac (S.1 - S.2.1 * S.2.2 / (x.length : Fl M)) ((x.length - 1 : Nat) : Fl M)
  have hyl : (y.length - 1 : Nat) = xr.length := by simp [hy, hxy]
  refine ⟨(S.1 - S.2.1 * S.2.2 / (x.length : Fl M)) / ((x.length - 1 : Nat) : Fl M),
    S.1.val, S.2.1.val, S.2.2.val, g4 * g6 * g5⁻¹, g1 * g3 * g2⁻¹, ?_, ?_, ?_, ?_,
    (hg4.mul hg6).mul hg5.inv, (hg1.mul hg3).mul hg2.inv, ?_⟩
  · simp only [sampleCovarianceOnepass, hx, hy, List.length_cons, hxy, if_true]
    rfl
  · rw [← hxl]; exact h1
  · rw [← hxl]; exact h2
  · have : y.length = xr.length + 1 := by simp [hy, hxy]
    rw [← this]; exact h3
  · rw [q6, q4, q3, q1, q2, q5, hxl]
    simp only [Nat.add_sub_cancel]
    rw [div_eq_mul_inv, div_eq_mul_inv, div_eq_mul_inv, div_eq_mul_inv, mul_inv, mul_inv]; ring

theorem abs_sum_le_sum_abs' (xs : List ℝ) : |xs.sum| ≤ (xs.map (|·|)).sum := by
  induction xs with
  | nil => simp
  | cons x xs ih =>
    simp only [List.sum_cons, List.map_cons]
    exact le_trans (abs_add_le _ _) (by linarith)

/-- the product of two perturbed sums: `|â·b̂ − A·B| ≤ γ_{j+k}·(Σ|xᵢ|)(Σ|yᵢ|)` -/
theorem pert_mul_error {j k : Nat} {a b : ℝ} {xs ys : List ℝ} (ha : M.Pert j a xs)
    (hb : M.Pert k b ys) (h : ((j + k : Nat) : ℝ) * M.u < 1) :
    |a * b - xs.sum * ys.sum| ≤ M.γ (j + k) * ((xs.map (|·|)).sum * (ys.map (|·|)).sum) := by
  have hu := M.u_nonneg
  have hj : (j : ℝ) * M.u < 1 := by
    push_cast at h; nlinarith [mul_nonneg (Nat.cast_nonneg (α := ℝ) k) hu]
  have hk : (k : ℝ) * M.u < 1 := by
    push_cast at h; nlinarith [mul_nonneg (Nat.cast_nonneg (α := ℝ) j) hu]
  have ea := ha.error hj
  have eb := hb.error hk
  set A := xs.sum; set B := ys.sum
  set SA := (xs.map (|·|)).sum; set SB := (ys.map (|·|)).sum
  have hA : |A| ≤ SA := abs_sum_le_sum_abs' xs
  have hB : |B| ≤ SB := abs_sum_le_sum_abs' ys
  have hSA : 0 ≤ SA := le_trans (abs_nonneg _) hA
  have hSB : 0 ≤ SB := le_trans (abs_nonneg _) hB
  have hγj := M.γ_nonneg j hj
  have hγk := M.γ_nonneg k hk
  have hb' : |b| ≤ (1 + M.γ k) * SB := by
    have : b = B + (b - B) := by ring
    rw [this]
    refine le_trans (abs_add_le _ _) ?_
    linarith
  have e : a * b - A * B = (a - A) * b + A * (b - B) := by ring
  rw [e]
  refine le_trans (abs_add_le _ _) ?_
  rw [abs_mul, abs_mul]
  have t1 : |a - A| * |b| ≤ (M.γ j * SA) * ((1 + M.γ k) * SB) :=
    mul_le_mul ea hb' (abs_nonneg _) (mul_nonneg hγj hSA)
  have t2 : |A| * |b - B| ≤ SA * (M.γ k * SB) :=
    mul_le_mul hA eb (abs_nonneg _) hSA
  have hadd := M.γ_add_le j k h
  have hSS : 0 ≤ SA * SB := mul_nonneg hSA hSB
  calc |a - A| * |b| + |A| * |b - B|
      ≤ (M.γ j * SA) * ((1 + M.γ k) * SB) + SA * (M.γ k * SB) := add_le_add t1 t2
    _ = (M.γ j + M.γ k + M.γ j * M.γ k) * (SA * SB) := by ring
    _ ≤ M.γ (j + k) * (SA * SB) := mul_le_mul_of_nonneg_right hadd hSS

/-! ### C08: the online (Welford-type) covariance — structure -/

/-- the exact products `(xₖ − m̂x_{k−1})·(yₖ − m̂y_k)` of deviations from the *computed* running means that
the online loop accumulates, from state `s` on -/
noncomputable def onlineTerms (s : Fl M × Fl M × Fl M × Fl M) : List (Fl M × Fl M) → List ℝ
  | [] => []
  | p :: P =>
    (p.1.val - s.1.val) * (p.2.val - (onlineStep s p).2.1.val) :: onlineTerms (onlineStep s p) P

theorem onlineTerms_length (s : Fl M × Fl M × Fl M × Fl M) (P : List (Fl M × Fl M)) :
    (onlineTerms s P).length = P.length := by
  induction P generalizing s with
  | nil => rfl
  | cons p P ih => simp [onlineTerms, ih]

/-- the co-moment accumulator of the online loop: every term carries its three own roundings and one
more per later addition -/
theorem online_c_pert (P : List (Fl M × Fl M)) (s : Fl M × Fl M × Fl M × Fl M) (k : Nat) (hk : 3 ≤ k)
    (pre : List ℝ) (h : M.Pert k s.2.2.1.val pre) :
    M.Pert (k + P.length) (P.foldl onlineStep s).2.2.1.val (pre ++ onlineTerms s P) := by
  induction P generalizing s k pre with
  | nil => simpa [onlineTerms] using h
  | cons p P ih =>
    obtain ⟨g1, hg1, h1⟩ := sub_fac p.1 s.1
    obtain ⟨g2, hg2, h2⟩ := sub_fac p.2 (onlineStep s p).2.1
    obtain ⟨g3, hg3, h3⟩ := mul_fac (p.1 - s.1) (p.2 - (onlineStep s p).2.1)
    have ht : M.Pert 3 ((p.1 - s.1) * (p.2 - (onlineStep s p).2.1)).val
        [(p.1.val - s.1.val) * (p.2.val - (onlineStep s p).2.1.val)] := by
      refine (Pert.of_fac _ ((hg1.mul hg2).mul hg3)).congr ?_ rfl
      rw [h3, h1, h2]; ring
    have hc : (onlineStep s p).2.2.1 = s.2.2.1 + (p.1 - s.1) * (p.2 - (onlineStep s p).2.1) := rfl
    have hstep : M.Pert (k + 1) (onlineStep s p).2.2.1.val
        (pre ++ [(p.1.val - s.1.val) * (p.2.val - (onlineStep s p).2.1.val)]) := by
      rw [hc]
      exact h.add_rnd ht (le_refl _) (by omega)
    have := ih (onlineStep s p) (k + 1) (by omega) _ hstep
    simp only [List.foldl_cons, List.length_cons, onlineTerms]
    rw [show k + (P.length + 1) = k + 1 + P.length by omega]
    simpa using this

/-- the floating-point counter `n += 1.` of the online loop is exact as long as the integers it passes
through are representable (`n < 2⁵³` at `f64`) -/
theorem online_count (P : List (Fl M × Fl M)) (s : Fl M × Fl M × Fl M × Fl M) (j : Nat)
    (hs : s.2.2.2.val = j) (hN : ∀ k : Nat, k ≤ j + P.length → M.rnd (k : ℝ) = k) :
    (P.foldl onlineStep s).2.2.2.val = (j + P.length : Nat) := by
  induction P generalizing s j with
  | nil => simpa using hs
  | cons p P ih =>
    have hn : (onlineStep s p).2.2.2.val = (j + 1 : Nat) := by
      show M.rnd (s.2.2.2.val + 1) = _
      rw [hs]
      have := hN (j + 1) (by simp only [List.length_cons]; omega)
      push_cast at this ⊢
      exact this
    have := ih (onlineStep s p) (j + 1) hn (fun k hk => hN k (by simp only [List.length_cons]; omega))
    simp only [List.foldl_cons, List.length_cons]
    rw [this]
    congr 1
    omega

/-- **structure of the computed online covariance** (partial result): with an exact counter, the value
is `Σ t̂ₖ/(n−1)·(1+θₖ)` with at most `n + 4` rounding factors each, `t̂ₖ` the products of deviations from
the *computed* running means -/
theorem online_pert_partial (x y : List (Fl M)) (hxy : x.length = y.length) (hn : 1 ≤ x.length)
    (hN : ∀ k : Nat, k ≤ x.length → M.rnd (k : ℝ) = k) :
    ∃ v, sampleCovarianceOnline x y = some v ∧
      M.Pert (x.length + 4) v.val
        ((onlineTerms ((0 : Fl M), (0 : Fl M), (0 : Fl M), (0 : Fl M)) (List.zip x y)).map
          (· / ((x.length - 1 : Nat) : ℝ))) := by
  set s0 : Fl M × Fl M × Fl M × Fl M := ((0 : Fl M), (0 : Fl M), (0 : Fl M), (0 : Fl M)) with hs0
  set S := (List.zip x y).foldl onlineStep s0 with hS
  have hzl : (List.zip x y).length = x.length := by simp [hxy]
  have hc := online_c_pert (List.zip x y) s0 3 (le_refl _) [] ((Pert.nil 0).mono (by omega))
  rw [hzl] at hc
  simp only [List.nil_append] at hc
  have hcnt := online_count (List.zip x y) s0 0 (by simp [hs0]) (by
    intro k hk; exact hN k (by rw [hzl] at hk; omega))
  rw [hzl, Nat.zero_add] at hcnt
  have hden : (S.2.2.2 - 1).val = ((x.length - 1 : Nat) : ℝ) := by
    show M.rnd (S.2.2.2.val - 1) = _
    rw [← hS] at hcnt
    rw [hcnt]
    have e : ((x.length : Nat) : ℝ) - 1 = ((x.length - 1 : Nat) : ℝ) := by
      rw [Nat.cast_sub hn]; simp
    rw [e]
    exact hN _ (by omega)
  obtain ⟨g, hg, hq⟩ := div_fac S.2.2.1 (S.2.2.2 - 1)
  refine ⟨S.2.2.1 / (S.2.2.2 - 1), by simp [sampleCovarianceOnline, hxy, hS, hs0], ?_⟩
  have := (hc.div_const ((x.length - 1 : Nat) : ℝ)).scale hg
  rw [show 3 + x.length + 1 = x.length + 4 by omega] at this
  refine this.congr ?_ rfl
  rw [hq, hden]

end Cv.Rounding5
