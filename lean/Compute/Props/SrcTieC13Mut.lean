import Compute.Model.Timeseries
import Compute.Generated.SrcC13Mut
/-
Source tie for C13, fifth pass (`Compute/Generated/SrcC13Mut.lean`, regenerated from the Rust source on every run by
`tools/rs2lean.py`, option `mut`): `AR::predict_one_centred` and `AR::predict_one` of `src/timeseries/autoregressive.rs`.

The hand models `Cv.TS.predictOneCentred` / `predictOne` (Model/Timeseries.lean) are total: they use the truncated subtraction
of `Nat` under the test that makes it exact.  The generated definitions keep the checked `usize` subtractions as guards inside
their branches (`none` = panic).  `predictOneCentred_eq` / `predictOne_eq` prove that the guards never fire and that the value is
the model's — in particular in the SHORT-history branch (`data.len() < coeffs.len()`: `dot(data, &coeffs[coeff_len - n..])`, the
latest values meet the lowest lags).  Only `Nat` order facts are used.
-/
set_option linter.unusedSectionVars false
namespace Cv.SrcTie.C13Mut

variable {α : Type} [Add α] [Sub α] [Mul α] [Div α] [Neg α] [Zero α] [One α] [NatCast α] [IntCast α]
  [LT α] [DecidableLT α] [LE α] [DecidableLE α] [BEq α] [Cv.Transc α] [Inhabited α]

theorem predictOneCentred_eq (coeffs : List α) (intercept : α) (d : List α) :
    Cv.Src.C13Mut.predictOneCentred coeffs intercept d = some (Cv.TS.predictOneCentred coeffs d) := by
  unfold Cv.Src.C13Mut.predictOneCentred Cv.TS.predictOneCentred
  by_cases h : coeffs.length ≤ d.length
  · have h' : d.length ≥ coeffs.length := h
    simp only [h', h, if_true]
  · have h' : ¬ d.length ≥ coeffs.length := h
    have h2 : d.length ≤ coeffs.length := by omega
    simp only [h', h, h2, if_false, if_true]

theorem predictOne_eq (coeffs : List α) (intercept : α) (data : List α) :
    Cv.Src.C13Mut.predictOne coeffs intercept data = some (Cv.TS.predictOne coeffs intercept data) := by
  unfold Cv.Src.C13Mut.predictOne Cv.TS.predictOne
  simp only [predictOneCentred_eq, Option.bind_some]

end Cv.SrcTie.C13Mut
