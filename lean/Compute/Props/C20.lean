import Compute.Model.GpKernels
import Compute.Lemmas.C20Matrix
import Mathlib.Analysis.SpecialFunctions.Pow.Real
import Mathlib.Analysis.SpecialFunctions.Trigonometric.Basic
import Mathlib.Tactic.Ring
import Mathlib.Tactic.Linarith
/-
C20 — covariance kernels are valid positive-definite kernels, scalar and matrix form.

Theorems about the model of `src/predict/gps/kernels.rs` (`Compute/Model/GpKernels.lean`):
* constructors accept exactly the positive parameters;
* scalar RBF and RQ over `ℝ`: symmetric, `k x x = var`, `0 < k x y ≤ var`, non-increasing in `|x - y|`;
* matrix form (as repaired by F50; `Vector`/`&Vector`/`Matrix`/`&Matrix` arguments = `Pts.vec`/`Pts.mat`, owned
  and borrowed forms share one macro body): never panics on non-empty point sets, has shape `n × m`, and entry
  `(i,j)` equals the scalar form at `(xᵢ, yⱼ)` — over `ℝ`, and for EVERY scalar type in which `powi a 2 = a * a`
  (the matrix form performs the scalar form's operations; for IEEE doubles the two are the same double);
* the Gram matrix (`x = y`) is symmetric entry by entry for every scalar type in which additionally
  `(a - b) * (a - b) = (b - a) * (b - a)` (true of IEEE doubles: `b - a = -(a - b)` exactly).
Positive semi-definiteness of the Gram matrices (T-B) is in `Compute/Props/C20Psd.lean`.
-/
namespace Cv.C20
open Cv Cv.Gp Cv.Mat

/-- `Transc ℝ`: Mathlib's real functions (`pow` is `Real.rpow`). -/
noncomputable scoped instance instTranscRealC20 : Transc ℝ where
  sqrt := Real.sqrt
  exp := Real.exp
  ln := Real.log
  pow := fun x y => x ^ y
  sin := Real.sin
  cos := Real.cos
  tan := Real.tan
  abs := fun x => |x|
  floor := fun x => (⌊x⌋ : ℝ)
  ceil := fun x => (⌈x⌉ : ℝ)

theorem exp_real (x : ℝ) : Cv.exp x = Real.exp x := rfl
theorem pow_real (x y : ℝ) : Cv.pow x y = x ^ y := rfl
theorem two_real : (two : ℝ) = 2 := by simp [two]

/-! ## Constructors: exactly the positive parameters are accepted -/

section ctor
variable {α : Type} [Zero α] [LT α] [DecidableLT α]

/-- **rbf_new_iff.** `RBFKernel::new(var, l)` returns a kernel iff `var > 0` and `l > 0`; it stores them unchanged. -/
theorem rbf_new_iff (var ls : α) (k : RBF α) :
    RBF.new var ls = some k ↔ 0 < var ∧ 0 < ls ∧ k = ⟨var, ls⟩ := by
  unfold RBF.new
  by_cases h1 : 0 < var <;> by_cases h2 : 0 < ls <;> simp [h1, h2, eq_comm]

/-- **rbf_new_rejects.** Any non-positive (or, for floats, NaN: `0 < NaN` is false) parameter panics. -/
theorem rbf_new_rejects (var ls : α) (h : ¬ (0 < var ∧ 0 < ls)) : RBF.new var ls = none := by
  unfold RBF.new
  by_cases h1 : 0 < var <;> by_cases h2 : 0 < ls <;> simp_all

/-- **rq_new_iff.** -/
theorem rq_new_iff (var alpha ls : α) (k : RQ α) :
    RQ.new var alpha ls = some k ↔ 0 < var ∧ 0 < alpha ∧ 0 < ls ∧ k = ⟨var, alpha, ls⟩ := by
  unfold RQ.new
  by_cases h1 : 0 < var <;> by_cases h2 : 0 < alpha <;> by_cases h3 : 0 < ls <;> simp [h1, h2, h3, eq_comm]

/-- **rq_new_rejects.** -/
theorem rq_new_rejects (var alpha ls : α) (h : ¬ (0 < var ∧ 0 < alpha ∧ 0 < ls)) : RQ.new var alpha ls = none := by
  unfold RQ.new
  by_cases h1 : 0 < var <;> by_cases h2 : 0 < alpha <;> by_cases h3 : 0 < ls <;> simp_all

end ctor

/-- Valid RBF parameters (what `RBFKernel::new` guarantees). -/
def _root_.Cv.Gp.RBF.Valid (k : RBF ℝ) : Prop := 0 < k.var ∧ 0 < k.ls
/-- Valid RQ parameters (what `RQKernel::new` guarantees). -/
def _root_.Cv.Gp.RQ.Valid (k : RQ ℝ) : Prop := 0 < k.var ∧ 0 < k.alpha ∧ 0 < k.ls

theorem rbf_valid_of_new {var ls : ℝ} {k : RBF ℝ} (h : RBF.new var ls = some k) : k.Valid := by
  obtain ⟨h1, h2, rfl⟩ := (rbf_new_iff var ls k).1 h; exact ⟨h1, h2⟩

theorem rq_valid_of_new {var alpha ls : ℝ} {k : RQ ℝ} (h : RQ.new var alpha ls = some k) : k.Valid := by
  obtain ⟨h1, h2, h3, rfl⟩ := (rq_new_iff var alpha ls k).1 h; exact ⟨h1, h2, h3⟩

example : RBF.new (2 : ℝ) (1 / 2) = some ⟨2, 1 / 2⟩ := by
  rw [rbf_new_iff]; norm_num
example : RQ.new (2 : ℝ) 3 (1 / 2) = some ⟨2, 3, 1 / 2⟩ := by
  rw [rq_new_iff]; norm_num
example : RBF.new (0 : ℝ) 1 = none := rbf_new_rejects _ _ (by norm_num)

/-! ## Scalar RBF kernel over `ℝ` -/

/-- The scalar RBF `forward` is the textbook closed form `var · exp(-(x-y)² / (2 l²))`. -/
theorem rbf_fwd_eq (k : RBF ℝ) (x y : ℝ) :
    k.fwd x y = k.var * Real.exp (-((x - y) ^ 2 / (2 * k.ls ^ 2))) := by
  simp only [RBF.fwd, RBF.denom, C04.powi_two, two_real, exp_real]
  rw [mul_comm]; congr 2; ring

/-- **rbf_symm.** `k x y = k y x`. -/
theorem rbf_symm (k : RBF ℝ) (x y : ℝ) : k.fwd x y = k.fwd y x := by
  rw [rbf_fwd_eq, rbf_fwd_eq]; congr 3; ring

/-- **rbf_diag.** `k x x = var`. -/
theorem rbf_diag (k : RBF ℝ) (x : ℝ) : k.fwd x x = k.var := by
  rw [rbf_fwd_eq]; simp

/-- **rbf_pos.** `0 < k x y`. -/
theorem rbf_pos (k : RBF ℝ) (hk : k.Valid) (x y : ℝ) : 0 < k.fwd x y := by
  rw [rbf_fwd_eq]; exact mul_pos hk.1 (Real.exp_pos _)

/-- **rbf_le_var.** `k x y ≤ var`. -/
theorem rbf_le_var (k : RBF ℝ) (hk : k.Valid) (x y : ℝ) : k.fwd x y ≤ k.var := by
  rw [rbf_fwd_eq]
  have h : Real.exp (-((x - y) ^ 2 / (2 * k.ls ^ 2))) ≤ 1 := by
    rw [Real.exp_le_one_iff]
    have : 0 ≤ (x - y) ^ 2 / (2 * k.ls ^ 2) := by positivity
    linarith
  calc k.var * _ ≤ k.var * 1 := mul_le_mul_of_nonneg_left h hk.1.le
    _ = k.var := mul_one _

/-- **rbf_antitone.** The RBF kernel is non-increasing in the distance of its arguments. -/
theorem rbf_antitone (k : RBF ℝ) (hk : k.Valid) (x y x' y' : ℝ) (h : |x - y| ≤ |x' - y'|) :
    k.fwd x' y' ≤ k.fwd x y := by
  rw [rbf_fwd_eq, rbf_fwd_eq]
  have hsq : (x - y) ^ 2 ≤ (x' - y') ^ 2 := sq_le_sq.mpr h
  have hd : 0 < 2 * k.ls ^ 2 := by have := hk.2; positivity
  apply mul_le_mul_of_nonneg_left _ hk.1.le
  apply Real.exp_le_exp.mpr
  have := div_le_div_of_nonneg_right hsq hd.le
  linarith

/-- Strict version: at a strictly larger distance the value is strictly smaller (so `k x y = var` iff `x = y`). -/
theorem rbf_strictAnti (k : RBF ℝ) (hk : k.Valid) (x y x' y' : ℝ) (h : |x - y| < |x' - y'|) :
    k.fwd x' y' < k.fwd x y := by
  rw [rbf_fwd_eq, rbf_fwd_eq]
  have hsq : (x - y) ^ 2 < (x' - y') ^ 2 := sq_lt_sq.mpr h
  have hd : 0 < 2 * k.ls ^ 2 := by have := hk.2; positivity
  apply mul_lt_mul_of_pos_left _ hk.1
  apply Real.exp_lt_exp.mpr
  have := div_lt_div_of_pos_right hsq hd
  linarith

example : (⟨2, 1 / 2⟩ : RBF ℝ).Valid := by constructor <;> norm_num
example : |(0 : ℝ) - 0| ≤ |(0 : ℝ) - 1| := by norm_num

/-! ## Scalar rational-quadratic kernel over `ℝ` (exponent `-α`, as repaired by F36) -/

/-- The scalar RQ `forward` is the textbook closed form `var · (1 + (x-y)² / (2 α l²))^(-α)`. -/
theorem rq_fwd_eq (k : RQ ℝ) (x y : ℝ) :
    k.fwd x y = k.var * (1 + (x - y) ^ 2 / (2 * k.alpha * k.ls ^ 2)) ^ (-k.alpha) := by
  simp only [RQ.fwd, RQ.denom, C04.powi_two, two_real, pow_real]
  rw [mul_comm]; congr 3; ring

theorem rq_base_ge_one (k : RQ ℝ) (hk : k.Valid) (x y : ℝ) : 1 ≤ 1 + (x - y) ^ 2 / (2 * k.alpha * k.ls ^ 2) := by
  have h2 := hk.2.1; have h3 := hk.2.2
  have : 0 ≤ (x - y) ^ 2 / (2 * k.alpha * k.ls ^ 2) := by positivity
  linarith

/-- **rq_symm.** -/
theorem rq_symm (k : RQ ℝ) (x y : ℝ) : k.fwd x y = k.fwd y x := by
  rw [rq_fwd_eq, rq_fwd_eq]; congr 4; ring

/-- **rq_diag.** -/
theorem rq_diag (k : RQ ℝ) (x : ℝ) : k.fwd x x = k.var := by
  rw [rq_fwd_eq]; simp

/-- **rq_pos.** -/
theorem rq_pos (k : RQ ℝ) (hk : k.Valid) (x y : ℝ) : 0 < k.fwd x y := by
  rw [rq_fwd_eq]
  exact mul_pos hk.1 (Real.rpow_pos_of_pos (by linarith [rq_base_ge_one k hk x y]) _)

/-- **rq_le_var.** -/
theorem rq_le_var (k : RQ ℝ) (hk : k.Valid) (x y : ℝ) : k.fwd x y ≤ k.var := by
  rw [rq_fwd_eq]
  have h : (1 + (x - y) ^ 2 / (2 * k.alpha * k.ls ^ 2)) ^ (-k.alpha) ≤ 1 :=
    Real.rpow_le_one_of_one_le_of_nonpos (rq_base_ge_one k hk x y) (by linarith [hk.2.1])
  calc k.var * _ ≤ k.var * 1 := mul_le_mul_of_nonneg_left h hk.1.le
    _ = k.var := mul_one _

/-- **rq_antitone.** The RQ kernel is non-increasing in the distance of its arguments. -/
theorem rq_antitone (k : RQ ℝ) (hk : k.Valid) (x y x' y' : ℝ) (h : |x - y| ≤ |x' - y'|) :
    k.fwd x' y' ≤ k.fwd x y := by
  rw [rq_fwd_eq, rq_fwd_eq]
  have hsq : (x - y) ^ 2 ≤ (x' - y') ^ 2 := sq_le_sq.mpr h
  have hd : 0 < 2 * k.alpha * k.ls ^ 2 := by have := hk.2.1; have := hk.2.2; positivity
  apply mul_le_mul_of_nonneg_left _ hk.1.le
  apply Real.rpow_le_rpow_of_nonpos (by linarith [rq_base_ge_one k hk x y]) _ (by linarith [hk.2.1])
  have := div_le_div_of_nonneg_right hsq hd.le
  linarith

example : (⟨2, 3, 1 / 2⟩ : RQ ℝ).Valid := by refine ⟨?_, ?_, ?_⟩ <;> norm_num

/-- The defect F36 (exponent `+α`), kept as a kernel-checked negation on its witness: with `var = α = l = 1`
the legacy value at `(0, 2)` is `3 > var`, while the repaired model gives `1/3`. -/
theorem rq_legacy_witness :
    (1 : ℝ) * (1 + (0 - 2) ^ 2 / (2 * 1 * 1 ^ 2)) ^ (1 : ℝ) = 3 ∧ (⟨1, 1, 1⟩ : RQ ℝ).fwd 0 2 = 1 / 3 := by
  constructor
  · norm_num
  · rw [rq_fwd_eq]; norm_num [Real.rpow_neg_one]

/-! ## Matrix form -/

section anyScalar
variable {α : Type} [Inhabited α] [Add α] [Sub α] [Mul α] [Div α] [Neg α] [Zero α] [One α] [NatCast α] [Transc α]

/-- **rbf_matrix_form_eq_scalar.** For every scalar type in which `powi a 2 = a * a` (the reals; IEEE doubles),
the RBF matrix form on non-empty point sets of sizes `n`, `m` returns a value, of shape `n × m`, whose entry
`(i,j)` is the scalar `forward` at `(xᵢ, yⱼ)` — the very same expression. -/
theorem rbf_matrix_form_eq_scalar (hp : ∀ a : α, powi a 2 = a * a) (k : RBF α) (x y : Pts α)
    (hx : PtsWF x) (hy : PtsWF y) (hxn : 0 < x.points.length) (hyn : 0 < y.points.length) :
    ∃ R, k.fwdM x y = some R ∧ R.nrows = x.points.length ∧ R.ncols = y.points.length ∧ R.WF ∧
      ∀ i j, i < x.points.length → j < y.points.length → R.get i j = k.fwd x.points[i]! y.points[j]! := by
  obtain ⟨R, hR, tR⟩ := rbf_fwdM_tab hp k x y hx hy hxn hyn
  exact ⟨R, hR, tR.1, tR.2.1, tR.2.2.1, tR.2.2.2⟩

/-- **rq_matrix_form_eq_scalar.** -/
theorem rq_matrix_form_eq_scalar (hp : ∀ a : α, powi a 2 = a * a) (k : RQ α) (x y : Pts α)
    (hx : PtsWF x) (hy : PtsWF y) (hxn : 0 < x.points.length) (hyn : 0 < y.points.length) :
    ∃ R, k.fwdM x y = some R ∧ R.nrows = x.points.length ∧ R.ncols = y.points.length ∧ R.WF ∧
      ∀ i j, i < x.points.length → j < y.points.length → R.get i j = k.fwd x.points[i]! y.points[j]! := by
  obtain ⟨R, hR, tR⟩ := rq_fwdM_tab hp k x y hx hy hxn hyn
  exact ⟨R, hR, tR.1, tR.2.1, tR.2.2.1, tR.2.2.2⟩

end anyScalar

/-- **rbf_matrix_form_entry.** For point sets of sizes `n`, `m` (each passed as a `Vector` or as a `Matrix` of any
shape `r × c` with `r·c` points) the RBF matrix form returns a value, of shape `n × m`, whose entry `(i,j)` is
the scalar form at `(xᵢ, yⱼ)`. -/
theorem rbf_matrix_form_entry (k : RBF ℝ) (x y : Pts ℝ) (hx : PtsWF x) (hy : PtsWF y)
    (hxn : 0 < x.points.length) (hyn : 0 < y.points.length) :
    ∃ R, k.fwdM x y = some R ∧ R.nrows = x.points.length ∧ R.ncols = y.points.length ∧ R.WF ∧
      ∀ i j, i < x.points.length → j < y.points.length → R.get i j = k.fwd x.points[i]! y.points[j]! :=
  rbf_matrix_form_eq_scalar (fun a => C04.powi_two a) k x y hx hy hxn hyn

/-- **rq_matrix_form_entry.** The same for the rational-quadratic kernel. -/
theorem rq_matrix_form_entry (k : RQ ℝ) (x y : Pts ℝ) (hx : PtsWF x) (hy : PtsWF y)
    (hxn : 0 < x.points.length) (hyn : 0 < y.points.length) :
    ∃ R, k.fwdM x y = some R ∧ R.nrows = x.points.length ∧ R.ncols = y.points.length ∧ R.WF ∧
      ∀ i j, i < x.points.length → j < y.points.length → R.get i j = k.fwd x.points[i]! y.points[j]! :=
  rq_matrix_form_eq_scalar (fun a => C04.powi_two a) k x y hx hy hxn hyn

/-- The four argument kinds, spelled out: `Vector`/`&Vector` arguments … -/
theorem rbf_matrix_form_entry_vec (k : RBF ℝ) (xs ys : List ℝ) (hx : xs ≠ []) (hy : ys ≠ []) :
    ∃ R, k.fwdM (.vec xs) (.vec ys) = some R ∧ R.nrows = xs.length ∧ R.ncols = ys.length ∧ R.WF ∧
      ∀ i j, i < xs.length → j < ys.length → R.get i j = k.fwd xs[i]! ys[j]! :=
  rbf_matrix_form_entry k (.vec xs) (.vec ys) trivial trivial (List.length_pos_iff.mpr hx) (List.length_pos_iff.mpr hy)

/-- … and `Matrix`/`&Matrix` arguments of any shapes: the points are the row-major data. -/
theorem rbf_matrix_form_entry_mat (k : RBF ℝ) (mx my : Mat ℝ) (hx : mx.WF) (hy : my.WF)
    (hxn : mx.data ≠ []) (hyn : my.data ≠ []) :
    ∃ R, k.fwdM (.mat mx) (.mat my) = some R ∧ R.nrows = mx.data.length ∧ R.ncols = my.data.length ∧ R.WF ∧
      ∀ i j, i < mx.data.length → j < my.data.length → R.get i j = k.fwd mx.data[i]! my.data[j]! :=
  rbf_matrix_form_entry k (.mat mx) (.mat my) hx hy (List.length_pos_iff.mpr hxn) (List.length_pos_iff.mpr hyn)

theorem rq_matrix_form_entry_vec (k : RQ ℝ) (xs ys : List ℝ) (hx : xs ≠ []) (hy : ys ≠ []) :
    ∃ R, k.fwdM (.vec xs) (.vec ys) = some R ∧ R.nrows = xs.length ∧ R.ncols = ys.length ∧ R.WF ∧
      ∀ i j, i < xs.length → j < ys.length → R.get i j = k.fwd xs[i]! ys[j]! :=
  rq_matrix_form_entry k (.vec xs) (.vec ys) trivial trivial (List.length_pos_iff.mpr hx) (List.length_pos_iff.mpr hy)

theorem rq_matrix_form_entry_mat (k : RQ ℝ) (mx my : Mat ℝ) (hx : mx.WF) (hy : my.WF)
    (hxn : mx.data ≠ []) (hyn : my.data ≠ []) :
    ∃ R, k.fwdM (.mat mx) (.mat my) = some R ∧ R.nrows = mx.data.length ∧ R.ncols = my.data.length ∧ R.WF ∧
      ∀ i j, i < mx.data.length → j < my.data.length → R.get i j = k.fwd mx.data[i]! my.data[j]! :=
  rq_matrix_form_entry k (.mat mx) (.mat my) hx hy (List.length_pos_iff.mpr hxn) (List.length_pos_iff.mpr hyn)

/-- Non-vacuity: all hypotheses of the matrix-form theorems instantiated on non-trivial inputs — four points as a
`2 × 2` `Matrix` against two points as a `1 × 2` `Matrix`, three points as a `Vector` against two (RQ), and the
statement really delivers a `2·2 × 2` result whose `(3,1)` entry is `k(4, 6)`. -/
example : PtsWF (.mat ⟨[0, 1], 2, 1⟩ : Pts ℝ) := by simp [PtsWF, Mat.WF]
example : ∃ R, (⟨2, 1 / 2⟩ : RBF ℝ).fwdM (.mat ⟨[0, 1, 3, 4], 2, 2⟩) (.mat ⟨[5, 6], 1, 2⟩) = some R ∧
    R.nrows = 4 ∧ R.ncols = 2 ∧ R.get 3 1 = (⟨2, 1 / 2⟩ : RBF ℝ).fwd 4 6 := by
  obtain ⟨R, hR, h1, h2, _, he⟩ := rbf_matrix_form_entry_mat (⟨2, 1 / 2⟩ : RBF ℝ) ⟨[0, 1, 3, 4], 2, 2⟩ ⟨[5, 6], 1, 2⟩
    (by simp [Mat.WF]) (by simp [Mat.WF]) (by simp) (by simp)
  exact ⟨R, hR, by simpa using h1, by simpa using h2, by simpa using he 3 1 (by simp) (by simp)⟩
example : ∃ R, (⟨2, 3, 1 / 2⟩ : RQ ℝ).fwdM (.vec [0, 1, 3]) (.vec [5, 6]) = some R ∧ R.nrows = 3 ∧ R.ncols = 2 := by
  obtain ⟨R, hR, h1, h2, _, _⟩ := rq_matrix_form_entry_vec (⟨2, 3, 1 / 2⟩ : RQ ℝ) [0, 1, 3] [5, 6] (by simp) (by simp)
  exact ⟨R, hR, by simpa using h1, by simpa using h2⟩

/-! ## Gram matrices are symmetric — for every scalar type with `powi a 2 = a*a` and `(a-b)² = (b-a)²` -/

section gram
variable {α : Type} [Inhabited α] [Add α] [Sub α] [Mul α] [Div α] [Neg α] [Zero α] [One α] [NatCast α] [Transc α]

/-- **rbf_gram_symm.** Entry `(i,j)` and entry `(j,i)` of the RBF Gram matrix differ only in the sign of the
difference that is squared; no other law is used, so the statement holds at `Float` as well as over `ℝ`. -/
theorem rbf_gram_symm (hp : ∀ a : α, powi a 2 = a * a) (hsq : ∀ a b : α, (a - b) * (a - b) = (b - a) * (b - a))
    (k : RBF α) (x : Pts α) (hx : PtsWF x) (hn : 0 < x.points.length) :
    ∃ R, k.fwdM x x = some R ∧ R.nrows = x.points.length ∧ R.ncols = x.points.length ∧
      ∀ i j, i < x.points.length → j < x.points.length → R.get i j = R.get j i := by
  obtain ⟨R, hR, tR⟩ := rbf_fwdM_tab hp k x x hx hx hn hn
  refine ⟨R, hR, tR.1, tR.2.1, fun i j hi hj => ?_⟩
  rw [tR.2.2.2 i j hi hj, tR.2.2.2 j i hj hi]
  simp only [RBF.fwd, hp, hsq x.points[i]! x.points[j]!]

/-- **rq_gram_symm.** -/
theorem rq_gram_symm (hp : ∀ a : α, powi a 2 = a * a) (hsq : ∀ a b : α, (a - b) * (a - b) = (b - a) * (b - a))
    (k : RQ α) (x : Pts α) (hx : PtsWF x) (hn : 0 < x.points.length) :
    ∃ R, k.fwdM x x = some R ∧ R.nrows = x.points.length ∧ R.ncols = x.points.length ∧
      ∀ i j, i < x.points.length → j < x.points.length → R.get i j = R.get j i := by
  obtain ⟨R, hR, tR⟩ := rq_fwdM_tab hp k x x hx hx hn hn
  refine ⟨R, hR, tR.1, tR.2.1, fun i j hi hj => ?_⟩
  rw [tR.2.2.2 i j hi hj, tR.2.2.2 j i hj hi]
  simp only [RQ.fwd, hp, hsq x.points[i]! x.points[j]!]

end gram

section
variable {α : Type} [Sub α] [Mul α] [Neg α]
/-- `hsq` reduced to two primitive facts of the arithmetic (both exact in IEEE-754: `b - a` is `-(a - b)` — the
same rounding of the negated exact difference — and `(-t) * (-t)` is `t * t`).  They are ASSUMED of `Float`
(opaque), not proved; the oracle checks Gram symmetry bit for bit on every generated case. -/
theorem hsq_of_neg_sub (hneg : ∀ a b : α, b - a = -(a - b)) (hmul : ∀ t : α, (-t) * (-t) = t * t) :
    ∀ a b : α, (a - b) * (a - b) = (b - a) * (b - a) := by
  intro a b; rw [hneg a b, hmul]
end

/-- The hypotheses of `rbf_gram_symm` are met by the reals. -/
example : (∀ a : ℝ, powi a 2 = a * a) ∧ ∀ a b : ℝ, (a - b) * (a - b) = (b - a) * (b - a) :=
  ⟨fun a => C04.powi_two a, fun a b => by ring⟩

/-- **rbf_gram_diag.** Over `ℝ` the diagonal of the Gram matrix is the output variance. -/
theorem rbf_gram_diag (k : RBF ℝ) (x : Pts ℝ) (hx : PtsWF x) (hn : 0 < x.points.length) :
    ∃ R, k.fwdM x x = some R ∧ ∀ i, i < x.points.length → R.get i i = k.var := by
  obtain ⟨R, hR, _, _, _, he⟩ := rbf_matrix_form_entry k x x hx hx hn hn
  exact ⟨R, hR, fun i hi => by rw [he i i hi hi, rbf_diag]⟩

theorem rq_gram_diag (k : RQ ℝ) (x : Pts ℝ) (hx : PtsWF x) (hn : 0 < x.points.length) :
    ∃ R, k.fwdM x x = some R ∧ ∀ i, i < x.points.length → R.get i i = k.var := by
  obtain ⟨R, hR, _, _, _, he⟩ := rq_matrix_form_entry k x x hx hx hn hn
  exact ⟨R, hR, fun i hi => by rw [he i i hi hi, rq_diag]⟩

end Cv.C20
