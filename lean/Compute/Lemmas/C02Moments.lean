import Mathlib.Probability.Distributions.Gamma
import Mathlib.Probability.Distributions.Beta
import Mathlib.Probability.Distributions.Exponential
import Mathlib.Probability.Distributions.Pareto
import Mathlib.Probability.Distributions.Gaussian.Real
import Mathlib.Analysis.SpecialFunctions.Gaussian.GaussianIntegral
import Mathlib.MeasureTheory.Integral.IntegralEqImproper
import Mathlib.MeasureTheory.Integral.IntervalIntegral.FundThmCalculus
import Mathlib.Analysis.SpecialFunctions.Integrals.Basic
import Mathlib.Analysis.SpecialFunctions.Exponential
import Mathlib.Data.Nat.Choose.Sum
import Mathlib.Tactic.Ring
import Mathlib.Tactic.Linarith
import Mathlib.Tactic.FieldSimp
import Mathlib.Tactic.Positivity
/-
Analysis lemmas for the deep C02 theorems (`Props/C02Moments.lean`): raw moments of Mathlib's `gammaPDFReal`,
`betaPDFReal`, `paretoPDFReal` and of the uniform density as Bochner integrals over `ℝ`, and the passage
raw moments → mean and central second moment.  Nothing here mentions the model.

Technique for the three Mathlib families: `x ^ k · pdf_θ(x) = c(θ,k) · pdf_{θ'}(x)` (the same family with shifted
parameter), so every moment follows from Mathlib's *total mass one* theorem of the family plus algebra on `Γ`.
-/
open MeasureTheory ProbabilityTheory Set Filter Topology

namespace Cv.C02M

/-- `f` is a probability density on `ℝ` with mean `m` and variance `v`: the three integrals converge absolutely and have
the stated values. -/
structure Moments (f : ℝ → ℝ) (m v : ℝ) : Prop where
  int0 : Integrable f
  int1 : Integrable fun x => x * f x
  int2 : Integrable fun x => (x - m) ^ 2 * f x
  mass : ∫ x, f x = 1
  mean : ∫ x, x * f x = m
  var : ∫ x, (x - m) ^ 2 * f x = v

/-- From raw moments `∫ f = 1`, `∫ x f = m`, `∫ x² f = s` to the central second moment `s - m²`. -/
theorem Moments.of_raw {f : ℝ → ℝ} {m s : ℝ} (h0 : Integrable f) (h1 : Integrable fun x => x * f x)
    (h2 : Integrable fun x => x ^ 2 * f x) (e0 : ∫ x, f x = 1) (e1 : ∫ x, x * f x = m)
    (e2 : ∫ x, x ^ 2 * f x = s) : Moments f m (s - m ^ 2) := by
  have hfun : (fun x => (x - m) ^ 2 * f x) = fun x => x ^ 2 * f x - (2 * m) * (x * f x) + m ^ 2 * f x := by
    funext x; ring
  have h12 : Integrable fun x => x ^ 2 * f x - (2 * m) * (x * f x) := h2.sub (h1.const_mul _)
  have h3 : Integrable fun x => m ^ 2 * f x := h0.const_mul _
  have i2 : Integrable fun x => (x - m) ^ 2 * f x := by
    rw [hfun]; exact h12.add h3
  refine ⟨h0, h1, i2, e0, e1, ?_⟩
  rw [hfun, integral_add h12 h3, integral_sub h2 (h1.const_mul _),
    integral_const_mul, integral_const_mul, e0, e1, e2]
  ring

/-- Densities that agree almost everywhere have the same moments. -/
theorem Moments.congr_ae {f g : ℝ → ℝ} {m v : ℝ} (h : Moments f m v) (hfg : f =ᵐ[volume] g) : Moments g m v := by
  have e1 : (fun x => x * f x) =ᵐ[volume] fun x => x * g x := by
    filter_upwards [hfg] with x hx; rw [hx]
  have e2 : (fun x => (x - m) ^ 2 * f x) =ᵐ[volume] fun x => (x - m) ^ 2 * g x := by
    filter_upwards [hfg] with x hx; rw [hx]
  exact ⟨h.int0.congr hfg, h.int1.congr e1, h.int2.congr e2, (integral_congr_ae hfg).symm.trans h.mass,
    (integral_congr_ae e1).symm.trans h.mean, (integral_congr_ae e2).symm.trans h.var⟩

/-- A non-negative measurable real function whose lower integral is one is integrable with integral one. -/
theorem integrable_of_lintegral_eq_one {f : ℝ → ℝ} (hm : Measurable f) (h0 : ∀ x, 0 ≤ f x)
    (h : ∫⁻ x, ENNReal.ofReal (f x) = 1) : Integrable f ∧ ∫ x, f x = 1 := by
  have hi : Integrable f := by
    refine ⟨hm.aestronglyMeasurable, ?_⟩
    rw [hasFiniteIntegral_iff_ofReal (ae_of_all _ h0), h]
    exact ENNReal.one_lt_top
  refine ⟨hi, ?_⟩
  rw [integral_eq_lintegral_of_nonneg_ae (ae_of_all _ h0) hm.aestronglyMeasurable, h]
  simp

/-- If `g = c · p` almost everywhere for a density `p` of total mass one, then `g` is integrable with integral `c`. -/
theorem integral_of_ae_eq_const_mul {g p : ℝ → ℝ} {c : ℝ} (hp : Integrable p ∧ ∫ x, p x = 1)
    (h : g =ᵐ[volume] fun x => c * p x) : Integrable g ∧ ∫ x, g x = c := by
  refine ⟨(hp.1.const_mul c).congr h.symm, ?_⟩
  rw [integral_congr_ae h, integral_const_mul, hp.2, mul_one]

theorem ae_ne (a : ℝ) : ∀ᵐ x : ℝ, x ≠ a := compl_mem_ae_iff.mpr (measure_singleton a)

/-! ## Gamma family -/

theorem gammaPDFReal_mass {a r : ℝ} (ha : 0 < a) (hr : 0 < r) :
    Integrable (gammaPDFReal a r) ∧ ∫ x, gammaPDFReal a r x = 1 :=
  integrable_of_lintegral_eq_one (measurable_gammaPDFReal a r) (gammaPDFReal_nonneg ha hr)
    (lintegral_gammaPDF_eq_one ha hr)

/-- `x^k · gammaPDF(a, r) = Γ(a+k)/(Γ(a) r^k) · gammaPDF(a+k, r)` off `{0}`. -/
theorem pow_mul_gammaPDFReal {a r : ℝ} (ha : 0 < a) (hr : 0 < r) (k : ℕ) {x : ℝ} (hx : x ≠ 0) :
    x ^ k * gammaPDFReal a r x = Real.Gamma (a + k) / (Real.Gamma a * r ^ k) * gammaPDFReal (a + k) r x := by
  simp only [gammaPDFReal]
  rcases lt_or_gt_of_ne hx with h | h
  · rw [if_neg (not_le.mpr h), if_neg (not_le.mpr h), mul_zero, mul_zero]
  · rw [if_pos h.le, if_pos h.le]
    have hak : 0 < a + k := by positivity
    have g1 := (Real.Gamma_pos_of_pos ha).ne'
    have g2 := (Real.Gamma_pos_of_pos hak).ne'
    have e1 : x ^ (a + k - 1) = x ^ (a - 1) * x ^ k := by
      rw [show a + (k : ℝ) - 1 = (a - 1) + k by ring, Real.rpow_add h, Real.rpow_natCast]
    have e2 : r ^ (a + k) = r ^ a * r ^ k := by rw [Real.rpow_add hr, Real.rpow_natCast]
    rw [e1, e2]
    have hrk : r ^ k ≠ 0 := pow_ne_zero _ hr.ne'
    field_simp

/-- Raw moments of the Gamma density: `∫ x^k · gammaPDF(a,r) = Γ(a+k) / (Γ(a) r^k)`. -/
theorem gamma_raw {a r : ℝ} (ha : 0 < a) (hr : 0 < r) (k : ℕ) :
    Integrable (fun x => x ^ k * gammaPDFReal a r x) ∧
      ∫ x, x ^ k * gammaPDFReal a r x = Real.Gamma (a + k) / (Real.Gamma a * r ^ k) := by
  refine integral_of_ae_eq_const_mul (gammaPDFReal_mass (a := a + k) (by positivity) hr) ?_
  filter_upwards [ae_ne 0] with x hx
  exact pow_mul_gammaPDFReal ha hr k hx

/-- **Gamma(a, r)** (shape, rate): mass `1`, mean `a / r`, variance `a / r²`. -/
theorem gamma_moments {a r : ℝ} (ha : 0 < a) (hr : 0 < r) : Moments (gammaPDFReal a r) (a / r) (a / r ^ 2) := by
  have h0 := gammaPDFReal_mass ha hr
  have h1 := gamma_raw ha hr 1
  have h2 := gamma_raw ha hr 2
  have g0 := (Real.Gamma_pos_of_pos ha).ne'
  have G1 : Real.Gamma (a + 1) = a * Real.Gamma a := Real.Gamma_add_one ha.ne'
  have G2 : Real.Gamma (a + 2) = (a + 1) * (a * Real.Gamma a) := by
    rw [show a + 2 = (a + 1) + 1 by ring, Real.Gamma_add_one (by positivity), G1]
  simp only [pow_one] at h1
  have e1 : Real.Gamma (a + (1 : ℕ)) / (Real.Gamma a * r ^ 1) = a / r := by
    push_cast; rw [G1]; field_simp
  have e2 : Real.Gamma (a + (2 : ℕ)) / (Real.Gamma a * r ^ 2) = (a + 1) * a / r ^ 2 := by
    push_cast; rw [G2]; field_simp
  have := Moments.of_raw h0.1 h1.1 h2.1 h0.2 (h1.2.trans (by simpa using e1)) (h2.2.trans e2)
  convert this using 1
  field_simp; ring

/-! ## Beta family -/

theorem betaPDFReal_nonneg {a b : ℝ} (ha : 0 < a) (hb : 0 < b) (x : ℝ) : 0 ≤ betaPDFReal a b x := by
  by_cases h : 0 < x ∧ x < 1
  · exact (betaPDFReal_pos h.1 h.2 ha hb).le
  · simp [betaPDFReal, h]

theorem betaPDFReal_mass {a b : ℝ} (ha : 0 < a) (hb : 0 < b) :
    Integrable (betaPDFReal a b) ∧ ∫ x, betaPDFReal a b x = 1 :=
  integrable_of_lintegral_eq_one (measurable_betaPDFReal a b) (betaPDFReal_nonneg ha hb)
    (lintegral_betaPDF_eq_one ha hb)

/-- `x^k · betaPDF(a, b) = B(a+k, b)/B(a, b) · betaPDF(a+k, b)` everywhere. -/
theorem pow_mul_betaPDFReal {a b : ℝ} (ha : 0 < a) (hb : 0 < b) (k : ℕ) (x : ℝ) :
    x ^ k * betaPDFReal a b x = ProbabilityTheory.beta (a + k) b / ProbabilityTheory.beta a b * betaPDFReal (a + k) b x := by
  simp only [betaPDFReal]
  by_cases h : 0 < x ∧ x < 1
  · rw [if_pos h, if_pos h]
    have e1 : x ^ (a + k - 1) = x ^ (a - 1) * x ^ k := by
      rw [show a + (k : ℝ) - 1 = (a - 1) + k by ring, Real.rpow_add h.1, Real.rpow_natCast]
    have b1 := (beta_pos ha hb).ne'
    have b2 := (beta_pos (α := a + k) (by positivity) hb).ne'
    rw [e1]
    field_simp
  · rw [if_neg h, if_neg h, mul_zero, mul_zero]

theorem beta_raw {a b : ℝ} (ha : 0 < a) (hb : 0 < b) (k : ℕ) :
    Integrable (fun x => x ^ k * betaPDFReal a b x) ∧
      ∫ x, x ^ k * betaPDFReal a b x = ProbabilityTheory.beta (a + k) b / ProbabilityTheory.beta a b := by
  refine integral_of_ae_eq_const_mul (betaPDFReal_mass (a := a + k) (by positivity) hb) ?_
  exact Filter.Eventually.of_forall fun x => pow_mul_betaPDFReal ha hb k x

/-- `B(a+1, b) / B(a, b) = a / (a + b)`. -/
theorem beta_ratio_one {a b : ℝ} (ha : 0 < a) (hb : 0 < b) :
    ProbabilityTheory.beta (a + 1) b / ProbabilityTheory.beta a b = a / (a + b) := by
  have hab : 0 < a + b := add_pos ha hb
  simp only [ProbabilityTheory.beta]
  rw [show a + 1 + b = (a + b) + 1 by ring, Real.Gamma_add_one ha.ne', Real.Gamma_add_one hab.ne']
  have g1 := (Real.Gamma_pos_of_pos ha).ne'
  have g2 := (Real.Gamma_pos_of_pos hb).ne'
  have g3 := (Real.Gamma_pos_of_pos hab).ne'
  field_simp

/-- `B(a+2, b) / B(a, b) = a (a+1) / ((a+b)(a+b+1))`. -/
theorem beta_ratio_two {a b : ℝ} (ha : 0 < a) (hb : 0 < b) :
    ProbabilityTheory.beta (a + 2) b / ProbabilityTheory.beta a b = a * (a + 1) / ((a + b) * (a + b + 1)) := by
  have hab : 0 < a + b := add_pos ha hb
  simp only [ProbabilityTheory.beta]
  rw [show a + 2 + b = ((a + b) + 1) + 1 by ring, show a + 2 = (a + 1) + 1 by ring,
    Real.Gamma_add_one (by positivity : a + 1 ≠ 0), Real.Gamma_add_one ha.ne',
    Real.Gamma_add_one (by positivity : a + b + 1 ≠ 0), Real.Gamma_add_one hab.ne']
  have g1 := (Real.Gamma_pos_of_pos ha).ne'
  have g2 := (Real.Gamma_pos_of_pos hb).ne'
  have g3 := (Real.Gamma_pos_of_pos hab).ne'
  have h1 : a + b + 1 ≠ 0 := by positivity
  field_simp

/-- **Beta(a, b)**: mass `1`, mean `a/(a+b)`, variance `ab / ((a+b)² (a+b+1))`. -/
theorem beta_moments {a b : ℝ} (ha : 0 < a) (hb : 0 < b) :
    Moments (betaPDFReal a b) (a / (a + b)) (a * b / ((a + b) ^ 2 * (a + b + 1))) := by
  have h0 := betaPDFReal_mass ha hb
  have h1 := beta_raw ha hb 1
  have h2 := beta_raw ha hb 2
  simp only [pow_one] at h1
  have e1 : ProbabilityTheory.beta (a + (1 : ℕ)) b / ProbabilityTheory.beta a b = a / (a + b) := by
    push_cast; exact beta_ratio_one ha hb
  have e2 : ProbabilityTheory.beta (a + (2 : ℕ)) b / ProbabilityTheory.beta a b = a * (a + 1) / ((a + b) * (a + b + 1)) := by
    push_cast; exact beta_ratio_two ha hb
  have := Moments.of_raw h0.1 h1.1 h2.1 h0.2 (h1.2.trans e1) (h2.2.trans e2)
  convert this using 1
  have hab : a + b ≠ 0 := (add_pos ha hb).ne'
  have h1 : a + b + 1 ≠ 0 := by positivity
  field_simp; ring

/-! ## Pareto family -/

theorem paretoPDFReal_mass {t r : ℝ} (ht : 0 < t) (hr : 0 < r) :
    Integrable (paretoPDFReal t r) ∧ ∫ x, paretoPDFReal t r x = 1 :=
  integrable_of_lintegral_eq_one (measurable_paretoPDFReal t r) (paretoPDFReal_nonneg ht.le hr.le)
    (lintegral_paretoPDF_eq_one ht hr)

/-- `x^k · paretoPDF(t, r) = r/(r-k) · t^k · paretoPDF(t, r-k)` everywhere (`t > 0`, `k < r`). -/
theorem pow_mul_paretoPDFReal {t r : ℝ} (ht : 0 < t) (k : ℕ) (hk : (k : ℝ) < r) (x : ℝ) :
    x ^ k * paretoPDFReal t r x = r / (r - k) * t ^ k * paretoPDFReal t (r - k) x := by
  simp only [paretoPDFReal]
  by_cases h : t ≤ x
  · rw [if_pos h, if_pos h]
    have hx : 0 < x := ht.trans_le h
    have e1 : x ^ (-(r - k + 1)) = x ^ (-(r + 1)) * x ^ k := by
      rw [show -(r - (k : ℝ) + 1) = -(r + 1) + k by ring, Real.rpow_add hx, Real.rpow_natCast]
    have e2 : t ^ r = t ^ (r - k) * t ^ k := by
      rw [← Real.rpow_natCast t k, ← Real.rpow_add ht]; congr 1; ring
    have hrk : r - k ≠ 0 := by linarith
    rw [e1, e2]
    field_simp
  · rw [if_neg h, if_neg h, mul_zero, mul_zero]

theorem pareto_raw {t r : ℝ} (ht : 0 < t) (k : ℕ) (hk : (k : ℝ) < r) :
    Integrable (fun x => x ^ k * paretoPDFReal t r x) ∧
      ∫ x, x ^ k * paretoPDFReal t r x = r / (r - k) * t ^ k := by
  refine integral_of_ae_eq_const_mul (paretoPDFReal_mass (r := r - k) ht (by linarith)) ?_
  exact Filter.Eventually.of_forall fun x => pow_mul_paretoPDFReal ht k hk x

/-- **Pareto(t, r)** (scale, shape), `r > 1`: mass one and mean `r t / (r - 1)`. -/
theorem pareto_mean {t r : ℝ} (ht : 0 < t) (hr : 1 < r) :
    Integrable (fun x => x * paretoPDFReal t r x) ∧ ∫ x, x * paretoPDFReal t r x = r * t / (r - 1) := by
  have h1 := pareto_raw ht 1 (by simpa using hr)
  simp only [pow_one, Nat.cast_one] at h1
  refine ⟨h1.1, h1.2.trans ?_⟩
  ring

/-- **Pareto(t, r)**, `r > 2`: mass `1`, mean `r t/(r-1)`, variance `t² r / ((r-1)² (r-2))`. -/
theorem pareto_moments {t r : ℝ} (ht : 0 < t) (hr : 2 < r) :
    Moments (paretoPDFReal t r) (r * t / (r - 1)) (t ^ 2 * r / ((r - 1) ^ 2 * (r - 2))) := by
  have h0 := paretoPDFReal_mass ht (by linarith : 0 < r)
  have h1 := pareto_mean ht (by linarith : 1 < r)
  have h2 := pareto_raw ht 2 (by simpa using hr)
  have := Moments.of_raw h0.1 h1.1 h2.1 h0.2 h1.2 h2.2
  convert this using 1
  have a1 : r - 1 ≠ 0 := by linarith
  have a2 : r - 2 ≠ 0 := by linarith
  push_cast
  field_simp; ring

/-- For `r ≤ k` the `k`-th moment of the Pareto density diverges (the code reports `∞` for the mean when `r ≤ 1`, for the
variance when `r ≤ 2`). -/
theorem pareto_raw_not_integrable {t r : ℝ} (ht : 0 < t) (hr0 : 0 < r) (k : ℕ) (hr : r ≤ k) :
    ¬ Integrable (fun x => x ^ k * paretoPDFReal t r x) := by
  intro h
  have h' : IntegrableOn (fun x => x ^ k * paretoPDFReal t r x) (Ioi t) := h.integrableOn
  have hc : IntegrableOn (fun x : ℝ => (r * t ^ r) * x ^ ((k : ℝ) - r - 1)) (Ioi t) := by
    refine h'.congr_fun (fun x hx => ?_) measurableSet_Ioi
    have hx0 : 0 < x := ht.trans hx
    simp only [paretoPDFReal]
    rw [if_pos (le_of_lt hx), show (k : ℝ) - r - 1 = -(r + 1) + k by ring, Real.rpow_add hx0, Real.rpow_natCast]
    ring
  have hc2 : IntegrableOn (fun x : ℝ => x ^ ((k : ℝ) - r - 1)) (Ioi t) := by
    have : IntegrableOn (fun x : ℝ => (r * t ^ r)⁻¹ * ((r * t ^ r) * x ^ ((k : ℝ) - r - 1))) (Ioi t) :=
      hc.const_mul (r * t ^ r)⁻¹
    refine this.congr_fun (fun x _ => ?_) measurableSet_Ioi
    have : r * t ^ r ≠ 0 := (mul_pos hr0 (Real.rpow_pos_of_pos ht r)).ne'
    field_simp
  rw [integrableOn_Ioi_rpow_iff ht] at hc2
  linarith

/-! ## Uniform density on `[a, b]` -/

/-- For a function equal to `1/(b-a)` on `[a,b]` and `0` outside, `∫ g · f = (∫_a^b g) / (b-a)` for continuous `g`. -/
theorem uniform_integral {f : ℝ → ℝ} {a b : ℝ} (hab : a < b) (hin : ∀ x ∈ Icc a b, f x = 1 / (b - a))
    (hout : ∀ x, x ∉ Icc a b → f x = 0) (g : ℝ → ℝ) (hg : Continuous g) :
    Integrable (fun x => g x * f x) ∧ ∫ x, g x * f x = (∫ x in a..b, g x) / (b - a) := by
  have hfun : (fun x => g x * f x) = (Icc a b).indicator fun x => g x / (b - a) := by
    funext x
    by_cases hx : x ∈ Icc a b
    · rw [indicator_of_mem hx, hin x hx]; ring
    · rw [indicator_of_notMem hx, hout x hx, mul_zero]
  have hc : Continuous fun x => g x / (b - a) := hg.div_const _
  refine ⟨?_, ?_⟩
  · rw [hfun, integrable_indicator_iff measurableSet_Icc]
    exact hc.continuousOn.integrableOn_Icc
  · rw [hfun, integral_indicator measurableSet_Icc, integral_Icc_eq_integral_Ioc,
      ← intervalIntegral.integral_of_le hab.le, intervalIntegral.integral_div]

/-- **Uniform(a, b)**, `a < b`: mass `1`, mean `(a+b)/2`, variance `(b-a)²/12`. -/
theorem uniform_moments {f : ℝ → ℝ} {a b : ℝ} (hab : a < b) (hin : ∀ x ∈ Icc a b, f x = 1 / (b - a))
    (hout : ∀ x, x ∉ Icc a b → f x = 0) : Moments f ((a + b) / 2) ((b - a) ^ 2 / 12) := by
  have hne : b - a ≠ 0 := sub_ne_zero.mpr hab.ne'
  have h0 := uniform_integral hab hin hout (fun _ => 1) continuous_const
  have h1 := uniform_integral hab hin hout (fun x => x) continuous_id
  have h2 := uniform_integral hab hin hout (fun x => (x - (a + b) / 2) ^ 2) (by fun_prop)
  simp only [one_mul] at h0
  refine ⟨h0.1, h1.1, h2.1, ?_, ?_, ?_⟩
  · rw [h0.2, intervalIntegral.integral_const, smul_eq_mul, mul_one, div_self hne]
  · rw [h1.2, integral_id]; field_simp; ring
  · rw [h2.2, intervalIntegral.integral_comp_sub_right (fun x => x ^ 2), integral_pow]
    field_simp; ring

/-! ## Poisson series -/

/-- `e^{-l} l^k / k!` -/
noncomputable def poissonTerm (l : ℝ) (k : ℕ) : ℝ := Real.exp (-l) * l ^ k / (k.factorial : ℝ)

theorem poissonTerm_succ (l : ℝ) (k : ℕ) : ((k + 1 : ℕ) : ℝ) * poissonTerm l (k + 1) = l * poissonTerm l k := by
  simp only [poissonTerm, Nat.factorial_succ]
  have : ((k.factorial : ℕ) : ℝ) ≠ 0 := by exact_mod_cast (Nat.factorial_pos k).ne'
  have : ((k : ℝ) + 1) ≠ 0 := by positivity
  push_cast
  field_simp
  ring

theorem poisson_hasSum_mass (l : ℝ) : HasSum (poissonTerm l) 1 := by
  have h := (NormedSpace.expSeries_div_hasSum_exp (l : ℝ)).mul_left (Real.exp (-l))
  rw [← Real.exp_eq_exp_ℝ, ← Real.exp_add, neg_add_cancel, Real.exp_zero] at h
  have hf : poissonTerm l = fun k : ℕ => Real.exp (-l) * (l ^ k / (k.factorial : ℝ)) := by
    funext k; simp only [poissonTerm]; ring
  rw [hf]; exact h

/-- First moment of the Poisson series: `Σ k · e^{-l} l^k / k! = l`. -/
theorem poisson_hasSum_mean (l : ℝ) : HasSum (fun k : ℕ => (k : ℝ) * poissonTerm l k) l := by
  have h : HasSum (fun k : ℕ => ((k + 1 : ℕ) : ℝ) * poissonTerm l (k + 1)) (l * 1) := by
    simp_rw [poissonTerm_succ]
    exact (poisson_hasSum_mass l).mul_left l
  have := HasSum.zero_add (f := fun k : ℕ => (k : ℝ) * poissonTerm l k) h
  simpa using this

/-- Second factorial moment: `Σ k (k-1) · e^{-l} l^k / k! = l²`. -/
theorem poisson_hasSum_fact2 (l : ℝ) : HasSum (fun k : ℕ => (k : ℝ) * ((k : ℝ) - 1) * poissonTerm l k) (l * l) := by
  have h : HasSum (fun k : ℕ => ((k + 1 : ℕ) : ℝ) * (((k + 1 : ℕ) : ℝ) - 1) * poissonTerm l (k + 1)) (l * l) := by
    have e : ∀ k : ℕ, ((k + 1 : ℕ) : ℝ) * (((k + 1 : ℕ) : ℝ) - 1) * poissonTerm l (k + 1) =
        l * ((k : ℝ) * poissonTerm l k) := by
      intro k
      rw [mul_right_comm, poissonTerm_succ]; push_cast; ring
    simp_rw [e]
    exact (poisson_hasSum_mean l).mul_left l
  have := HasSum.zero_add (f := fun k : ℕ => (k : ℝ) * ((k : ℝ) - 1) * poissonTerm l k) h
  simpa using this

/-- Second central moment of the Poisson series: `Σ (k - l)² · e^{-l} l^k / k! = l`. -/
theorem poisson_hasSum_var (l : ℝ) : HasSum (fun k : ℕ => ((k : ℝ) - l) ^ 2 * poissonTerm l k) l := by
  have h := ((poisson_hasSum_fact2 l).add ((poisson_hasSum_mean l).mul_left (1 - 2 * l))).add
    ((poisson_hasSum_mass l).mul_left (l ^ 2))
  convert h using 1
  · funext k; ring
  · ring

/-! ## Binomial sums -/

/-- `C(n,k) p^k q^(n-k)` -/
def binomTerm (n : ℕ) (p q : ℝ) (k : ℕ) : ℝ := (n.choose k : ℝ) * p ^ k * q ^ (n - k)

theorem binom_sum_mass (n : ℕ) (p q : ℝ) : ∑ k ∈ Finset.range (n + 1), binomTerm n p q k = (p + q) ^ n := by
  rw [add_pow]
  refine Finset.sum_congr rfl fun k _ => ?_
  simp only [binomTerm]; ring

theorem binomTerm_succ (m : ℕ) (p q : ℝ) (j : ℕ) :
    ((j + 1 : ℕ) : ℝ) * binomTerm (m + 1) p q (j + 1) = ((m : ℝ) + 1) * p * binomTerm m p q j := by
  simp only [binomTerm, Nat.add_sub_add_right]
  have h : (((m + 1) * m.choose j : ℕ) : ℝ) = (((m + 1).choose (j + 1) * (j + 1) : ℕ) : ℝ) := by
    rw [Nat.add_one_mul_choose_eq]
  push_cast at h
  rw [pow_succ]
  push_cast
  linear_combination (-(p ^ j * p * q ^ (m - j))) * h

/-- `Σ k · C(n,k) p^k q^(n-k) = n p (p+q)^(n-1)`. -/
theorem binom_sum_mean (n : ℕ) (p q : ℝ) :
    ∑ k ∈ Finset.range (n + 1), (k : ℝ) * binomTerm n p q k = n * p * (p + q) ^ (n - 1) := by
  cases n with
  | zero => simp
  | succ m =>
    rw [Finset.sum_range_succ']
    simp only [binomTerm_succ, Nat.cast_zero, zero_mul, add_zero, Nat.add_sub_cancel]
    rw [← Finset.mul_sum, binom_sum_mass]
    push_cast; ring

/-- `Σ k (k-1) · C(n,k) p^k q^(n-k) = n (n-1) p² (p+q)^(n-2)`. -/
theorem binom_sum_fact2 (n : ℕ) (p q : ℝ) :
    ∑ k ∈ Finset.range (n + 1), (k : ℝ) * ((k : ℝ) - 1) * binomTerm n p q k =
      n * ((n : ℝ) - 1) * p ^ 2 * (p + q) ^ (n - 2) := by
  cases n with
  | zero => simp
  | succ m =>
    rw [Finset.sum_range_succ']
    have e : ∀ j : ℕ, ((j + 1 : ℕ) : ℝ) * (((j + 1 : ℕ) : ℝ) - 1) * binomTerm (m + 1) p q (j + 1) =
        ((m : ℝ) + 1) * p * ((j : ℝ) * binomTerm m p q j) := by
      intro j
      rw [mul_right_comm, binomTerm_succ]; push_cast; ring
    simp only [e, Nat.cast_zero, zero_mul, add_zero]
    rw [← Finset.mul_sum, binom_sum_mean]
    have : m + 1 - 2 = m - 1 := by omega
    rw [this]
    push_cast; ring

/-- **Binomial(n, p)**: second central moment `Σ (k - np)² C(n,k) p^k (1-p)^(n-k) = n p (1-p)`. -/
theorem binom_sum_var (n : ℕ) (p : ℝ) :
    ∑ k ∈ Finset.range (n + 1), ((k : ℝ) - n * p) ^ 2 * binomTerm n p (1 - p) k = n * p * (1 - p) := by
  have h0 := binom_sum_mass n p (1 - p)
  have h1 := binom_sum_mean n p (1 - p)
  have h2 := binom_sum_fact2 n p (1 - p)
  simp only [add_sub_cancel, one_pow, mul_one] at h0 h1 h2
  have e : ∀ k : ℕ, ((k : ℝ) - n * p) ^ 2 * binomTerm n p (1 - p) k =
      (k : ℝ) * ((k : ℝ) - 1) * binomTerm n p (1 - p) k + (1 - 2 * (n * p)) * ((k : ℝ) * binomTerm n p (1 - p) k)
        + (n * p) ^ 2 * binomTerm n p (1 - p) k := by
    intro k; ring
  simp only [e, Finset.sum_add_distrib, ← Finset.mul_sum, h0, h1, h2]
  ring

theorem binom_sum_mean_one (n : ℕ) (p : ℝ) :
    ∑ k ∈ Finset.range (n + 1), (k : ℝ) * binomTerm n p (1 - p) k = n * p := by
  have h1 := binom_sum_mean n p (1 - p)
  simpa using h1

/-! ## Gaussian: moments against the density -/

/-- Integrals against Mathlib's Gaussian measure are integrals against its density. -/
theorem gaussian_integral_density (μ : ℝ) {v : NNReal} (hv : v ≠ 0) {g : ℝ → ℝ} (hg : Integrable g (gaussianReal μ v)) :
    Integrable (fun x => g x * gaussianPDFReal μ v x) ∧ ∫ x, g x * gaussianPDFReal μ v x = ∫ x, g x ∂(gaussianReal μ v) := by
  refine ⟨?_, ?_⟩
  · rw [gaussianReal_of_var_ne_zero _ hv,
      integrable_withDensity_iff_integrable_smul' (measurable_gaussianPDF μ v) (ae_of_all _ fun _ => gaussianPDF_lt_top)] at hg
    refine hg.congr (ae_of_all _ fun x => ?_)
    simp only [toReal_gaussianPDF, smul_eq_mul]; ring
  · rw [integral_gaussianReal_eq_integral_smul hv]
    refine integral_congr_ae (ae_of_all _ fun x => ?_)
    simp only [smul_eq_mul]; ring

/-- **Normal(μ, v)**, `v ≠ 0`: the density `gaussianPDFReal μ v` has mass `1`, mean `μ`, variance `v`. -/
theorem gaussian_moments (μ : ℝ) {v : NNReal} (hv : v ≠ 0) : Moments (gaussianPDFReal μ v) μ v := by
  have i1 : Integrable (fun x : ℝ => x) (gaussianReal μ v) := (memLp_id_gaussianReal (μ := μ) (v := v) 1).integrable le_rfl
  have i2 : Integrable (fun x : ℝ => (x - μ) ^ 2) (gaussianReal μ v) := by
    have h2 : MemLp (fun x : ℝ => x - μ) 2 (gaussianReal μ v) :=
      (memLp_id_gaussianReal (μ := μ) (v := v) 2).sub (memLp_const μ)
    exact h2.integrable_sq
  have h1 := gaussian_integral_density μ hv i1
  have h2 := gaussian_integral_density μ hv i2
  refine ⟨integrable_gaussianPDFReal μ v, h1.1, h2.1, integral_gaussianPDFReal_eq_one μ hv, ?_, ?_⟩
  · rw [h1.2]; exact integral_id_gaussianReal
  · rw [h2.2]
    have hvar := variance_fun_id_gaussianReal (μ := μ) (v := v)
    rw [variance_eq_integral measurable_id'.aemeasurable] at hvar
    simpa using hvar

/-! ## The error function and the normal CDF -/

/-- The error function `erf x = (2/√π) ∫₀ˣ e^{-t²} dt` (Mathlib has none). -/
noncomputable def erfSpec (x : ℝ) : ℝ := 2 / Real.sqrt Real.pi * ∫ t in (0 : ℝ)..x, Real.exp (-t ^ 2)

theorem integrable_exp_neg_sq : Integrable fun t : ℝ => Real.exp (-t ^ 2) := by
  simpa using integrable_exp_neg_mul_sq one_pos

theorem integral_Ioi_exp_neg_sq : ∫ t in Ioi (0 : ℝ), Real.exp (-t ^ 2) = Real.sqrt Real.pi / 2 := by
  simpa using integral_gaussian_Ioi 1

theorem integral_Iic_exp_neg_sq : ∫ t in Iic (0 : ℝ), Real.exp (-t ^ 2) = Real.sqrt Real.pi / 2 := by
  have := integral_comp_neg_Iic (0 : ℝ) (fun t => Real.exp (-t ^ 2))
  simp only [neg_sq, neg_zero] at this
  rw [this, integral_Ioi_exp_neg_sq]

theorem erfSpec_hasDerivAt (x : ℝ) : HasDerivAt erfSpec (2 / Real.sqrt Real.pi * Real.exp (-x ^ 2)) x := by
  have hc : Continuous fun t : ℝ => Real.exp (-t ^ 2) := by fun_prop
  exact (intervalIntegral.integral_hasDerivAt_right (hc.intervalIntegrable _ _)
    (hc.stronglyMeasurableAtFilter _ _) hc.continuousAt).const_mul _

theorem sqrt_pi_ne_zero : Real.sqrt Real.pi ≠ 0 := (Real.sqrt_pos.mpr Real.pi_pos).ne'

theorem erfSpec_tendsto_atTop : Tendsto erfSpec atTop (𝓝 1) := by
  have h := intervalIntegral_tendsto_integral_Ioi 0 integrable_exp_neg_sq.integrableOn tendsto_id
  rw [integral_Ioi_exp_neg_sq] at h
  have := h.const_mul (2 / Real.sqrt Real.pi)
  have e : 2 / Real.sqrt Real.pi * (Real.sqrt Real.pi / 2) = 1 := by
    have := sqrt_pi_ne_zero; field_simp
  rw [e] at this
  exact this

theorem erfSpec_tendsto_atBot : Tendsto erfSpec atBot (𝓝 (-1)) := by
  have h := intervalIntegral_tendsto_integral_Iic 0 integrable_exp_neg_sq.integrableOn tendsto_id
  rw [integral_Iic_exp_neg_sq] at h
  have h2 : Tendsto (fun i : ℝ => ∫ t in (0 : ℝ)..i, Real.exp (-t ^ 2)) atBot (𝓝 (-(Real.sqrt Real.pi / 2))) :=
    h.neg.congr fun i => (intervalIntegral.integral_symm i 0).symm
  have := h2.const_mul (2 / Real.sqrt Real.pi)
  have e : 2 / Real.sqrt Real.pi * -(Real.sqrt Real.pi / 2) = -1 := by
    have := sqrt_pi_ne_zero; field_simp
  rw [e] at this
  exact this

theorem erfSpec_zero : erfSpec 0 = 0 := by simp [erfSpec]

/-- `erf` is odd. -/
theorem erfSpec_neg (x : ℝ) : erfSpec (-x) = -erfSpec x := by
  simp only [erfSpec]
  have := intervalIntegral.integral_comp_neg (a := 0) (b := x) (fun t => Real.exp (-t ^ 2))
  simp only [neg_sq, neg_zero] at this
  rw [this, intervalIntegral.integral_symm]
  ring

/-- `½ (1 + erf ((x - μ) / (σ √2)))` -/
noncomputable def normalCdfR (μ σ x : ℝ) : ℝ := 1 / 2 * (1 + erfSpec ((x - μ) / (σ * Real.sqrt 2)))

/-- `1/(σ √(2π)) · exp (-½ ((x-μ)/σ)²)` -/
noncomputable def normalPdfR (μ σ x : ℝ) : ℝ :=
  1 / (σ * Real.sqrt (2 * Real.pi)) * Real.exp (-(1 / 2) * ((x - μ) / σ) ^ 2)

theorem normalCdfR_hasDerivAt (μ σ x : ℝ) (hσ : 0 < σ) : HasDerivAt (normalCdfR μ σ) (normalPdfR μ σ x) x := by
  have h1 : HasDerivAt (fun y : ℝ => (y - μ) / (σ * Real.sqrt 2)) (1 / (σ * Real.sqrt 2)) x :=
    ((hasDerivAt_id x).sub_const μ).div_const _
  have h2 := (erfSpec_hasDerivAt ((x - μ) / (σ * Real.sqrt 2))).comp x h1
  have h3 := (h2.const_add 1).const_mul (1 / 2)
  have key : normalPdfR μ σ x = 1 / 2 * (2 / Real.sqrt Real.pi * Real.exp (-((x - μ) / (σ * Real.sqrt 2)) ^ 2) *
      (1 / (σ * Real.sqrt 2))) := by
    unfold normalPdfR
    have s2 : Real.sqrt 2 ≠ 0 := (Real.sqrt_pos.mpr two_pos).ne'
    have e1 : Real.sqrt (2 * Real.pi) = Real.sqrt 2 * Real.sqrt Real.pi := Real.sqrt_mul (by norm_num) _
    have e2 : -((x - μ) / (σ * Real.sqrt 2)) ^ 2 = -(1 / 2) * ((x - μ) / σ) ^ 2 := by
      rw [div_pow, mul_pow, Real.sq_sqrt (by norm_num : (0 : ℝ) ≤ 2), div_pow]
      field_simp
    rw [e1, e2]
    have := sqrt_pi_ne_zero
    field_simp
  rw [key]
  exact h3

theorem tendsto_arg_atBot (μ : ℝ) {c : ℝ} (hc : 0 < c) : Tendsto (fun x : ℝ => (x - μ) / c) atBot atBot := by
  have : Tendsto (fun x : ℝ => x + -μ) atBot atBot := tendsto_atBot_add_const_right _ _ tendsto_id
  simpa [sub_eq_add_neg] using this.atBot_div_const hc

theorem tendsto_arg_atTop (μ : ℝ) {c : ℝ} (hc : 0 < c) : Tendsto (fun x : ℝ => (x - μ) / c) atTop atTop := by
  have : Tendsto (fun x : ℝ => x + -μ) atTop atTop := tendsto_atTop_add_const_right _ _ tendsto_id
  simpa [sub_eq_add_neg] using this.atTop_div_const hc

theorem normalCdfR_tendsto_atBot (μ σ : ℝ) (hσ : 0 < σ) : Tendsto (normalCdfR μ σ) atBot (𝓝 0) := by
  have hc : 0 < σ * Real.sqrt 2 := by positivity
  have h := ((erfSpec_tendsto_atBot.comp (tendsto_arg_atBot μ hc)).const_add 1).const_mul (1 / 2)
  have e0 : (1 / 2 : ℝ) * (1 + -1) = 0 := by norm_num
  rw [e0] at h
  exact h

theorem normalCdfR_tendsto_atTop (μ σ : ℝ) (hσ : 0 < σ) : Tendsto (normalCdfR μ σ) atTop (𝓝 1) := by
  have hc : 0 < σ * Real.sqrt 2 := by positivity
  have h := ((erfSpec_tendsto_atTop.comp (tendsto_arg_atTop μ hc)).const_add 1).const_mul (1 / 2)
  have e : (1 / 2 : ℝ) * (1 + 1) = 1 := by norm_num
  rw [e] at h
  exact h

/-- **The normal CDF is the integral of the normal density**: for `σ > 0`,
`½ (1 + erf ((x-μ)/(σ√2))) = ∫_{-∞}^{x} 1/(σ√(2π)) e^{-½((t-μ)/σ)²} dt`, given that the density is integrable. -/
theorem normalCdfR_eq_integral (μ σ x : ℝ) (hσ : 0 < σ) (hint : Integrable (normalPdfR μ σ)) :
    normalCdfR μ σ x = ∫ t in Iic x, normalPdfR μ σ t := by
  rw [integral_Iic_of_hasDerivAt_of_tendsto' (fun t _ => normalCdfR_hasDerivAt μ σ t hσ) hint.integrableOn
    (normalCdfR_tendsto_atBot μ σ hσ), sub_zero]

/-! ## A density that is the derivative of a CDF has the CDF's total variation as mass -/

/-- If `G' = g ≥ 0` everywhere and `G → m` at `-∞`, `G → n` at `+∞`, then `g` is integrable and `∫ g = n - m`. -/
theorem integral_of_deriv_nonneg {G g : ℝ → ℝ} {m n : ℝ} (hd : ∀ x, HasDerivAt G (g x) x) (hg : ∀ x, 0 ≤ g x)
    (hbot : Tendsto G atBot (𝓝 m)) (htop : Tendsto G atTop (𝓝 n)) : Integrable g ∧ ∫ x, g x = n - m := by
  have hcont : Continuous G := continuous_iff_continuousAt.mpr fun x => (hd x).continuousAt
  have hii : ∀ a b : ℝ, IntervalIntegrable g volume a b := fun a b =>
    intervalIntegral.intervalIntegrable_deriv_of_nonneg hcont.continuousOn (fun x _ => hd x) (fun x _ => hg x)
  have hval : ∀ i : ℝ, ∫ x in (-i)..i, ‖g x‖ = G i - G (-i) := by
    intro i
    simp_rw [Real.norm_of_nonneg (hg _)]
    exact intervalIntegral.integral_eq_sub_of_hasDerivAt (fun x _ => hd x) (hii _ _)
  have hint : Integrable g := by
    refine integrable_of_intervalIntegral_norm_tendsto (l := atTop) (a := fun i : ℝ => -i) (b := fun i : ℝ => i)
      (n - m) (fun i => (hii (-i) i).1) tendsto_neg_atTop_atBot tendsto_id ?_
    simp_rw [hval]
    exact htop.sub (hbot.comp tendsto_neg_atTop_atBot)
  exact ⟨hint, integral_of_hasDerivAt_of_tendsto hd hint hbot htop⟩

end Cv.C02M
