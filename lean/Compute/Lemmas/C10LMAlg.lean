import Compute.Lemmas.C10LM
import Compute.Lemmas.C05Spec
import Mathlib.Algebra.BigOperators.Ring.Finset
import Mathlib.Algebra.BigOperators.Group.Finset.Sigma
import Mathlib.Algebra.Order.BigOperators.Group.Finset
import Mathlib.Algebra.Order.BigOperators.Ring.Finset
/-
C10 — Levenberg–Marquardt: the predicted reduction `δᵀ(μδ + Jᵀr)` is non-negative whenever `μ ≥ 0` and
`δ` solves the damped normal equations `(JᵀJ + μ·diag(JᵀJ)) δ = Jᵀr` exactly (`lm_pred_nonneg`), about the
very lists the model computes (`jtjOf` = `matmul … true false`, `damp`, `dot8`), and the resulting descent
theorem for the whole loop with an idealised evaluator (`lm_descends_idealEval`).
-/
namespace Cv.C10
open Cv Cv.AD Cv.Opt Finset

section core
variable {α : Type} [Field α] [LinearOrder α] [IsStrictOrderedRing α]

/-- algebraic core: `Σ_i d_i (μ d_i + b_i) = μ Σ d_i² + Σ_k (Σ_i J_ki d_i)² + μ Σ_i (Σ_k J_ki²) d_i² ≥ 0`
when `b = (JᵀJ + μ diag(JᵀJ)) d`. -/
theorem pred_core (n p : ℕ) (Jm : ℕ → ℕ → α) (d b : ℕ → α) (mu : α) (hmu : 0 ≤ mu)
    (hb : ∀ i, i < p → b i = ∑ j ∈ range p,
      (if i = j then (∑ k ∈ range n, Jm k i * Jm k i) + mu * (∑ k ∈ range n, Jm k i * Jm k i)
        else ∑ k ∈ range n, Jm k i * Jm k j) * d j) :
    0 ≤ ∑ i ∈ range p, d i * (mu * d i + b i) := by
  have hbi : ∀ i ∈ range p, d i * (mu * d i + b i) =
      mu * (d i * d i) + (∑ j ∈ range p, ∑ k ∈ range n, (Jm k i * d i) * (Jm k j * d j))
        + mu * ((∑ k ∈ range n, Jm k i * Jm k i) * (d i * d i)) := by
    intro i hi
    have hip : i < p := mem_range.mp hi
    rw [hb i hip]
    have h1 : ∀ j ∈ range p,
        (if i = j then (∑ k ∈ range n, Jm k i * Jm k i) + mu * (∑ k ∈ range n, Jm k i * Jm k i)
          else ∑ k ∈ range n, Jm k i * Jm k j) * d j =
        (∑ k ∈ range n, Jm k i * Jm k j) * d j +
          (if i = j then mu * (∑ k ∈ range n, Jm k i * Jm k i) * d j else 0) := by
      intro j _
      by_cases hij : i = j
      · subst hij; simp only [if_true]; ring
      · simp only [hij, if_false]; ring
    rw [sum_congr rfl h1, sum_add_distrib, sum_ite_eq (range p) i, if_pos hi]
    have h2 : d i * ∑ j ∈ range p, (∑ k ∈ range n, Jm k i * Jm k j) * d j =
        ∑ j ∈ range p, ∑ k ∈ range n, (Jm k i * d i) * (Jm k j * d j) := by
      rw [mul_sum]
      apply sum_congr rfl
      intro j _
      rw [sum_mul, mul_sum]
      apply sum_congr rfl
      intro k _
      ring
    rw [← h2]; ring
  rw [sum_congr rfl hbi, sum_add_distrib, sum_add_distrib]
  have hmid : ∑ i ∈ range p, ∑ j ∈ range p, ∑ k ∈ range n, (Jm k i * d i) * (Jm k j * d j) =
      ∑ k ∈ range n, (∑ i ∈ range p, Jm k i * d i) * (∑ j ∈ range p, Jm k j * d j) := by
    have : ∀ k ∈ range n, (∑ i ∈ range p, Jm k i * d i) * (∑ j ∈ range p, Jm k j * d j) =
        ∑ i ∈ range p, ∑ j ∈ range p, (Jm k i * d i) * (Jm k j * d j) := by
      intro k _; rw [sum_mul_sum]
    calc ∑ i ∈ range p, ∑ j ∈ range p, ∑ k ∈ range n, (Jm k i * d i) * (Jm k j * d j)
        = ∑ i ∈ range p, ∑ k ∈ range n, ∑ j ∈ range p, (Jm k i * d i) * (Jm k j * d j) :=
          sum_congr rfl (fun i _ => sum_comm)
      _ = ∑ k ∈ range n, ∑ i ∈ range p, ∑ j ∈ range p, (Jm k i * d i) * (Jm k j * d j) := sum_comm
      _ = _ := (sum_congr rfl this).symm
  rw [hmid]
  have t1 : 0 ≤ ∑ i ∈ range p, mu * (d i * d i) :=
    sum_nonneg fun i _ => mul_nonneg hmu (mul_self_nonneg _)
  have t2 : 0 ≤ ∑ k ∈ range n, (∑ i ∈ range p, Jm k i * d i) * (∑ j ∈ range p, Jm k j * d j) :=
    sum_nonneg fun k _ => mul_self_nonneg _
  have t3 : 0 ≤ ∑ i ∈ range p, mu * ((∑ k ∈ range n, Jm k i * Jm k i) * (d i * d i)) :=
    sum_nonneg fun i _ => mul_nonneg hmu
      (mul_nonneg (sum_nonneg fun k _ => mul_self_nonneg _) (mul_self_nonneg _))
  linarith

end core

/-! ### from the lists of the model to finite sums -/
section lists
variable {α : Type}

/-- entry `i` of a list, `0` outside -/
abbrev nth [Zero α] (l : List α) (i : Nat) : α := l.getD i 0

theorem getBang_eq_nth [Zero α] [Inhabited α] (l : List α) (i : Nat) (h : i < l.length) : l[i]! = nth l i := by
  simp [nth, List.getD, h]

theorem nth_zipWith [Zero α] (f : α → α → α) (a b : List α) (i : Nat) (ha : i < a.length) (hb : i < b.length) :
    nth (List.zipWith f a b) i = f (nth a i) (nth b i) := by
  simp [nth, List.getD, ha, hb]

theorem nth_map [Zero α] (f : α → α) (a : List α) (i : Nat) (ha : i < a.length) :
    nth (a.map f) i = f (nth a i) := by
  simp [nth, List.getD, ha]

theorem foldl_range_sum [AddCommMonoid α] (f : Nat → α) (l : Nat) :
    (List.range l).foldl (fun s k => s + f k) 0 = ∑ k ∈ range l, f k := by
  induction l with
  | zero => simp
  | succ l ih => rw [List.range_succ, List.foldl_append, ih, sum_range_succ]; rfl

theorem foldl_add_sum [AddCommMonoid α] (l : List α) (s : α) : l.foldl (· + ·) s = s + l.sum := by
  induction l generalizing s with
  | nil => simp
  | cons a l ih => simp [List.foldl_cons, ih, add_assoc]

theorem dot8Go_sum [Semiring α] (s : α) (x y : List α) :
    dot8Go s x y = s + (List.zipWith (· * ·) x y).sum := by
  fun_induction dot8Go s x y with
  | case1 s x0 x1 x2 x3 x4 x5 x6 x7 xs y0 y1 y2 y3 y4 y5 y6 y7 ys ih =>
    rw [ih]; simp [List.sum_cons, add_assoc]
  | case2 s xs ys _ => exact foldl_add_sum _ s

theorem zipWith_mul_sum [Semiring α] (x y : List α) (h : x.length = y.length) :
    (List.zipWith (· * ·) x y).sum = ∑ i ∈ range x.length, nth x i * nth y i := by
  induction x generalizing y with
  | nil => simp
  | cons a as ih =>
    cases y with
    | nil => simp at h
    | cons b bs =>
      simp only [List.zipWith_cons_cons, List.sum_cons, List.length_cons]
      rw [sum_range_succ', ih bs (by simpa using h)]
      simp [nth, add_comm]

/-- the 8-way unrolled dot product is the sum of products -/
theorem dot8_sum [Semiring α] (x y : List α) (h : x.length = y.length) :
    dot8 x y = ∑ i ∈ range x.length, nth x i * nth y i := by
  unfold dot8; rw [dot8Go_sum, zero_add, zipWith_mul_sum x y h]

end lists

section lm
variable {α : Type} [Field α] [LinearOrder α] [IsStrictOrderedRing α] [Inhabited α] [BEq α]
  [Transc α] [FMax α]

/-- `x` solves the `p × p` system `a·x = b` (row-major `a`) -/
def IsSolution (p : Nat) (a x b : List α) : Prop :=
  ∀ i, i < p → ∑ j ∈ range p, nth a (i * p + j) * nth x j = nth b i

theorem idx_div (p i j : Nat) (hj : j < p) : (i * p + j) / p = i := by
  have hp : 0 < p := by omega
  rw [Nat.mul_comm, Nat.mul_add_div hp, Nat.div_eq_of_lt hj, Nat.add_zero]

theorem idx_mod (p i j : Nat) (hj : j < p) : (i * p + j) % p = j := by
  rw [Nat.mul_comm, Nat.mul_add_mod, Nat.mod_eq_of_lt hj]

theorem nth_damp (p : Nat) (mu : α) (a : List α) (i j : Nat) (hi : i < p) (hj : j < p) :
    nth (damp p mu a) (i * p + j) =
      if i = j then nth a (i * p + i) + mu * nth a (i * p + i) else nth a (i * p + j) := by
  have hk : i * p + j < p * p := by
    calc i * p + j < i * p + p := by omega
      _ = (i + 1) * p := by ring
      _ ≤ p * p := Nat.mul_le_mul_right p hi
  unfold damp nth
  rw [List.getD_eq_getElem?_getD, List.getElem?_map, List.getElem?_range hk]
  simp only [Option.map_some, Option.getD_some, idx_div p i j hj, idx_mod p i j hj]
  by_cases hij : i = j
  · subst hij; simp
  · simp [hij]

/-- entries of `JᵀJ` as the model computes it (`Matrix::t_dot`) -/
theorem jtj_entry (n p : Nat) (hn : 0 < n) (J jtj : List α) (hJ : J.length = n * p)
    (h : jtjOf n J = some jtj) :
    jtj.length = p * p ∧ ∀ i j, i < p → j < p →
      nth jtj (i * p + j) = ∑ k ∈ range n, nth J (k * p + i) * nth J (k * p + j) := by
  obtain ⟨c, hc, hlen, hent⟩ := C05L.matmul_entry J J n p n p true false hJ hJ hn hn (by simp)
  unfold jtjOf at h
  rw [hc] at h
  simp only [Option.some.injEq] at h
  subst h
  simp only [if_true, Bool.false_eq_true, if_false] at hlen hent
  refine ⟨hlen, ?_⟩
  intro i j hi hj
  have hk : i * p + j < c.length := by
    rw [hlen]
    calc i * p + j < i * p + p := by omega
      _ = (i + 1) * p := by ring
      _ ≤ p * p := Nat.mul_le_mul_right p hi
  rw [← getBang_eq_nth c _ hk, hent i j hi hj]
  unfold C05L.cellFold
  rw [foldl_range_sum]
  apply sum_congr rfl
  intro k hk'
  have hkn : k < n := mem_range.mp hk'
  have b1 : k * p + i < J.length := by
    rw [hJ]
    calc k * p + i < k * p + p := by omega
      _ = (k + 1) * p := by ring
      _ ≤ n * p := Nat.mul_le_mul_right p hkn
  have b2 : k * p + j < J.length := by
    rw [hJ]
    calc k * p + j < k * p + p := by omega
      _ = (k + 1) * p := by ring
      _ ≤ n * p := Nat.mul_le_mul_right p hkn
  simp only [Bool.and_false, Bool.false_eq_true, if_false, C05L.opEntry, if_true]
  rw [getBang_eq_nth J _ b1, getBang_eq_nth J _ b2]

theorem jtr_length (n p : Nat) (hn : 0 < n) (J r jtr : List α) (hJ : J.length = n * p) (hr : r.length = n)
    (h : jtrOf n J r = some jtr) : jtr.length = p := by
  obtain ⟨c, hc, hlen, _⟩ := C05L.matmul_entry J r n p n 1 true false hJ (by simpa using hr) hn hn (by simp)
  unfold jtrOf at h
  rw [hc] at h
  simp only [Option.some.injEq] at h
  subst h
  simpa using hlen

/-- **Predicted reduction is non-negative** for an exact solution of the damped normal equations. -/
theorem lm_pred_nonneg (n p : Nat) (hn : 0 < n) (J r jtj jtr δ : List α) (mu : α)
    (hJ : J.length = n * p) (hr : r.length = n)
    (hjtj : jtjOf n J = some jtj) (hjtr : jtrOf n J r = some jtr)
    (hmu : 0 ≤ mu) (hδ : δ.length = p) (hsol : IsSolution p (damp p mu jtj) δ jtr) :
    0 ≤ predOf mu δ jtr := by
  obtain ⟨_, hent⟩ := jtj_entry n p hn J jtj hJ hjtj
  have hlr := jtr_length n p hn J r jtr hJ hr hjtr
  unfold predOf
  have hl2 : (List.zipWith (· + ·) (δ.map (mu * ·)) jtr).length = p := by simp [hδ, hlr]
  rw [dot8_sum δ _ (by rw [hl2, hδ]), hδ]
  have hterm : ∀ i ∈ range p, nth δ i * nth (List.zipWith (· + ·) (δ.map (mu * ·)) jtr) i =
      nth δ i * (mu * nth δ i + nth jtr i) := by
    intro i hi
    have hip : i < p := mem_range.mp hi
    rw [nth_zipWith _ _ _ i (by simp [hδ, hip]) (by rw [hlr]; exact hip),
      nth_map _ _ i (by rw [hδ]; exact hip)]
  rw [sum_congr rfl hterm]
  apply pred_core n p (fun k i => nth J (k * p + i)) (nth δ) (nth jtr) mu hmu
  intro i hi
  rw [← hsol i hi]
  apply sum_congr rfl
  intro j hj
  have hjp : j < p := mem_range.mp hj
  rw [nth_damp p mu jtj i j hi hjp]
  by_cases hij : i = j
  · subst hij
    simp only [if_true]
    rw [hent i i hi hi]
  · simp only [hij, if_false]
    rw [hent i j hi hjp]

/-- diagonal of `JᵀJ` is non-negative -/
theorem jtj_diag_nonneg (n p : Nat) (hn : 0 < n) (J jtj : List α) (hJ : J.length = n * p)
    (h : jtjOf n J = some jtj) : ∀ x ∈ diagOf p jtj, 0 ≤ x := by
  obtain ⟨_, hent⟩ := jtj_entry n p hn J jtj hJ h
  intro x hx
  unfold diagOf at hx
  obtain ⟨i, hi, rfl⟩ := List.mem_map.mp hx
  have hip : i < p := List.mem_range.mp hi
  show 0 ≤ nth jtj (i * p + i)
  rw [hent i i hip hip]
  exact sum_nonneg fun k _ => mul_self_nonneg _

/-! ### descent of the whole loop under exact solves -/

/-- `f64::max` is the maximum (true of `f64` on non-NaN values) -/
def FMaxLaw (α : Type) [LinearOrder α] [FMax α] : Prop := ∀ a b : α, FMax.fmax a b = max a b

/-- whenever the LU solver returns at state `s`, what it returns solves the damped system exactly -/
def SolveExactAt {σ : Type} (E : LMEval σ α) (s : LMSt σ α) : Prop :=
  ∀ δ, luSolveVec (damp (E.vals s.tp).length s.mu s.jtj) s.jtr = some δ →
    δ.length = (E.vals s.tp).length ∧
      IsSolution (E.vals s.tp).length (damp (E.vals s.tp).length s.mu s.jtj) δ s.jtr

/-- the loop invariant: stored quantities belong to the current parameters, damping is non-negative -/
def LMInv {σ : Type} (E : LMEval σ α) (R Jf : List α → List α) (s : LMSt σ α) : Prop :=
  Belongs E R Jf s ∧ 0 ≤ s.mu ∧ 0 ≤ s.nu

theorem foldl_fmax_nonneg (hF : FMaxLaw α) (xs : List α) (x : α) (hx : 0 ≤ x) : 0 ≤ xs.foldl FMax.fmax x := by
  induction xs generalizing x with
  | nil => simpa
  | cons a as ih =>
    simp only [List.foldl_cons]
    apply ih
    rw [hF]
    exact le_trans hx (le_max_left _ _)

theorem lmInv_pred {σ : Type} (E : LMEval σ α) (R Jf : List α → List α) (hn : 0 < E.n)
    (hshape : ∀ θ, (Jf θ).length = E.n * θ.length ∧ (R θ).length = E.n)
    (s : LMSt σ α) (hI : LMInv E R Jf s) (hex : SolveExactAt E s) : PredNonneg E s := by
  intro δ hδ
  obtain ⟨⟨_, b2, b3⟩, hmu, _⟩ := hI
  obtain ⟨hl, hsol⟩ := hex δ hδ
  exact lm_pred_nonneg E.n _ hn _ _ _ _ δ s.mu (hshape _).1 (hshape _).2 b2 b3 hmu hl hsol

theorem lmInv_body {σ : Type} (E : LMEval σ α) (R Jf : List α → List α) (L : EvalLaws E R Jf)
    (hF : FMaxLaw α) (h : LMHP α) (s s' : LMSt σ α) (hI : LMInv E R Jf s)
    (hb : lmBody E h s = some s') : LMInv E R Jf s' := by
  refine ⟨lmBody_belongs E R Jf L h s s' hI.1 hb, ?_⟩
  obtain ⟨_, hmu, hnu⟩ := hI
  have two : (0 : α) ≤ ((2 : Nat) : α) := by exact_mod_cast (by norm_num : (0 : Nat) ≤ 2)
  unfold lmBody at hb
  simp only at hb
  split at hb
  · exact absurd hb (by simp)
  · split at hb
    · simp only [Option.some.injEq] at hb; subst hb; exact ⟨hmu, hnu⟩
    · split at hb
      · exact absurd hb (by simp)
      · split at hb
        · split at hb
          · exact absurd hb (by simp)
          · split at hb
            · exact absurd hb (by simp)
            · split at hb
              · split at hb
                · simp only [Option.some.injEq] at hb; subst hb; exact ⟨hmu, hnu⟩
                · simp only [Option.some.injEq] at hb; subst hb
                  refine ⟨?_, two⟩
                  show 0 ≤ FMax.fmax _ _
                  rw [hF]
                  have : (0 : α) ≤ 1 / ((3 : Nat) : α) := by
                    have : (0 : α) < ((3 : Nat) : α) := by exact_mod_cast (by norm_num : (0 : Nat) < 3)
                    exact le_of_lt (div_pos one_pos this)
                  exact le_trans this (le_max_left _ _)
              · exact absurd hb (by simp)
        · simp only [Option.some.injEq] at hb; subst hb
          exact ⟨mul_nonneg hmu hnu, mul_nonneg hnu two⟩

theorem lmInv_start {σ : Type} (E : LMEval σ α) (R Jf : List α → List α) (L : EvalLaws E R Jf)
    (hF : FMaxLaw α) (hn : 0 < E.n) (hshape : ∀ θ, (Jf θ).length = E.n * θ.length ∧ (R θ).length = E.n)
    (h : LMHP α) (htau : 0 ≤ h.tau) (θ0 : List α) (s0 : LMSt σ α) (hs : lmStart E h θ0 = some s0) :
    LMInv E R Jf s0 := by
  obtain ⟨hB, hv⟩ := lmStart_belongs E R Jf L h θ0 s0 hs
  refine ⟨hB, ?_, ?_⟩
  · -- mu0 = tau * max(diag JᵀJ) (the junk value 0/0 = 0 of the field for p = 0)
    have hdiag := jtj_diag_nonneg E.n θ0.length hn (Jf θ0) s0.jtj (hshape θ0).1 (by rw [← hv]; exact hB.2.1)
    unfold lmStart at hs
    split at hs
    · exact absurd hs (by simp)
    · simp only at hs
      split at hs
      · exact absurd hs (by simp)
      · split at hs
        next jtj0 jtr0 _ _ =>
          simp only [Option.some.injEq] at hs
          subst hs
          simp only at hdiag ⊢
          apply mul_nonneg htau
          cases hd : diagOf θ0.length jtj0 with
          | nil => simp [statMax]
          | cons x xs =>
            rw [hd] at hdiag
            simp only [statMax, Option.getD_some]
            exact foldl_fmax_nonneg hF xs x (hdiag x (by simp))
        · exact absurd hs (by simp)
  · unfold lmStart at hs
    split at hs
    · exact absurd hs (by simp)
    · simp only at hs
      split at hs
      · exact absurd hs (by simp)
      · split at hs
        · simp only [Option.some.injEq] at hs
          subst hs
          show (0 : α) ≤ ((2 : Nat) : α)
          exact_mod_cast (by norm_num : (0 : Nat) ≤ 2)
        · exact absurd hs (by simp)

/-- **LM descends — for an IDEALISED evaluator only.**  The hypothesis `EvalLaws E R Jf` (laws for ALL
evaluator states) is NOT satisfied by the shared-tape evaluator of the source (`Cv.C10D.tapeEval_not_evalLaws`);
the version for the source is `Cv.C10R.lmG_descends_on_sublevel` / `Cv.C10D.lm_core` (laws relative to the
well-formedness invariant of the tape state).  Kept as the generic skeleton.
Over a linearly ordered field, for an evaluator whose residuals and Jacobian are
functions of the parameter values, `tau ≥ 0`, and an exact linear solve at every reachable state:
for every start and every iteration budget `k`, the state after the loop has
`rss ≤ rss at the start`, and its residual / `JᵀJ` / `Jᵀr` belong to its parameters. -/
theorem lm_descends_idealEval {σ : Type} (E : LMEval σ α) (R Jf : List α → List α) (L : EvalLaws E R Jf)
    (hF : FMaxLaw α) (hn : 0 < E.n) (hshape : ∀ θ, (Jf θ).length = E.n * θ.length ∧ (R θ).length = E.n)
    (h : LMHP α) (htau : 0 ≤ h.tau)
    (hexact : ∀ s, LMInv E R Jf s → SolveExactAt E s)
    (θ0 : List α) (k : Nat) (s0 s : LMSt σ α)
    (hs0 : lmStart E h θ0 = some s0) (hl : lmLoop E h k s0 = some s) :
    rss s ≤ rss s0 ∧ rss s0 = dot8 (R θ0) (R θ0) ∧ rss s = dot8 (R (E.vals s.tp)) (R (E.vals s.tp)) ∧
      Belongs E R Jf s := by
  have hI0 := lmInv_start E R Jf L hF hn hshape h htau θ0 s0 hs0
  have hv := (lmStart_belongs E R Jf L h θ0 s0 hs0).2
  have hd := lmLoop_descent E h (LMInv E R Jf)
    (fun s1 h1 => lmInv_pred E R Jf hn hshape s1 h1 (hexact s1 h1))
    (fun s1 s2 h1 hb => lmInv_body E R Jf L hF h s1 s2 h1 hb) k s0 s hI0 hl
  refine ⟨hd.1, ?_, ?_, hd.2.1⟩
  · unfold rss; rw [hI0.1.1, hv]
  · unfold rss; rw [hd.2.1.1]

end lm
end Cv.C10
