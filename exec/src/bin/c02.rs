//! C02 executor: pdf / pmf / ln_pdf / cdf / mean / var of the distributions of `compute::distributions`.
//! Requests (floats as 16 hex digits, integers decimal):
//!   `pdf   <dist> <params> n x1 … xn`  -> `= y1 … yn`    (continuous)
//!   `lnpdf <dist> <params> n x1 … xn`  -> `= y1 … yn`
//!   `cdf   normal mu sigma n x1 … xn`  -> `= y1 … yn`    (a NaN erf argument gives `nan` since F56)
//!   `pmf   <dist> <params> n k1 … kn`  -> `= y1 … yn`    (discrete)
//!   `mean <dist> <params>` | `var <dist> <params>`       -> `= y`
//!   `mvn_pdf k mean[k] cov[k*k] m xs[m*k]` | `mvn_lnpdf …` -> `= y1 … ym`
//!   `mvn_mean k mean[k] cov[k*k]` -> `= k m1 … mk`;  `mvn_var k mean[k] cov[k*k]` -> `= nrows ncols c11 … ckk`
//! `<dist> <params>`: normal μ σ | gamma α β | beta α β | chi2 dof | t ν | pareto α xm | gumbel μ β |
//! exponential λ | uniform lo hi | poisson λ | binomial n p | bernoulli p | duniform lo hi
use compute::distributions::*;
use compute::linalg::Matrix;
use cvexec::*;

enum Obj {
    Normal(Normal),
    Gamma(Gamma),
    Beta(Beta),
    Chi2(ChiSquared),
    T(T),
    Pareto(Pareto),
    Gumbel(Gumbel),
    Exponential(Exponential),
    Uniform(Uniform),
    Poisson(Poisson),
    Binomial(Binomial),
    Bernoulli(Bernoulli),
    DUniform(DiscreteUniform),
}

#[derive(Clone, Copy)]
enum Params {
    F1(f64),
    F2(f64, f64),
    U(usize),
    NB(u64, f64),
    I2(i64, i64),
}

fn read_params(d: &str, t: &mut Toks) -> R<Params> {
    Ok(match d {
        "normal" | "gamma" | "beta" | "pareto" | "gumbel" | "uniform" => Params::F2(t.f64()?, t.f64()?),
        "t" | "exponential" | "poisson" | "bernoulli" => Params::F1(t.f64()?),
        "chi2" => Params::U(t.usize()?),
        "binomial" => Params::NB(t.u64()?, t.f64()?),
        "duniform" => Params::I2(t.i64()?, t.i64()?),
        _ => return Err(BadOp),
    })
}

fn build(d: &str, p: Params) -> Obj {
    match (d, p) {
        ("normal", Params::F2(a, b)) => Obj::Normal(Normal::new(a, b)),
        ("gamma", Params::F2(a, b)) => Obj::Gamma(Gamma::new(a, b)),
        ("beta", Params::F2(a, b)) => Obj::Beta(Beta::new(a, b)),
        ("chi2", Params::U(k)) => Obj::Chi2(ChiSquared::new(k)),
        ("t", Params::F1(v)) => Obj::T(T::new(v)),
        ("pareto", Params::F2(a, b)) => Obj::Pareto(Pareto::new(a, b)),
        ("gumbel", Params::F2(a, b)) => Obj::Gumbel(Gumbel::new(a, b)),
        ("exponential", Params::F1(l)) => Obj::Exponential(Exponential::new(l)),
        ("uniform", Params::F2(a, b)) => Obj::Uniform(Uniform::new(a, b)),
        ("poisson", Params::F1(l)) => Obj::Poisson(Poisson::new(l)),
        ("binomial", Params::NB(n, p)) => Obj::Binomial(Binomial::new(n, p)),
        ("bernoulli", Params::F1(p)) => Obj::Bernoulli(Bernoulli::new(p)),
        ("duniform", Params::I2(a, b)) => Obj::DUniform(DiscreteUniform::new(a, b)),
        _ => unreachable!(),
    }
}

/// Peripheral routes to the same object: `set` = every setter in declaration order, `rset` = reverse order,
/// `upd` = `Distribution1D::update(&[..])`, `clone` = a clone of the directly constructed object.
fn apply_route(o: &mut Obj, route: &str, p: Params) -> R<()> {
    let rev = route == "rset";
    match route {
        "set" | "rset" => match (o, p) {
            (Obj::Normal(d), Params::F2(a, b)) => {
                if rev { d.set_sigma(b).set_mu(a); } else { d.set_mu(a).set_sigma(b); }
            }
            (Obj::Gamma(d), Params::F2(a, b)) => {
                if rev { d.set_beta(b).set_alpha(a); } else { d.set_alpha(a).set_beta(b); }
            }
            (Obj::Beta(d), Params::F2(a, b)) => {
                if rev { d.set_beta(b).set_alpha(a); } else { d.set_alpha(a).set_beta(b); }
            }
            (Obj::Chi2(d), Params::U(k)) => { d.set_dof(k); }
            (Obj::T(d), Params::F1(v)) => { d.set_dof(v); }
            (Obj::Pareto(d), Params::F2(a, b)) => {
                if rev { d.set_minval(b).set_alpha(a); } else { d.set_alpha(a).set_minval(b); }
            }
            (Obj::Gumbel(d), Params::F2(a, b)) => {
                if rev { d.set_beta(b).set_mu(a); } else { d.set_mu(a).set_beta(b); }
            }
            (Obj::Exponential(d), Params::F1(l)) => { d.set_lambda(l); }
            (Obj::Uniform(d), Params::F2(a, b)) => {
                if rev { d.set_upper(b).set_lower(a); } else { d.set_lower(a).set_upper(b); }
            }
            (Obj::Poisson(d), Params::F1(l)) => { d.set_lambda(l); }
            (Obj::Binomial(d), Params::NB(n, q)) => {
                if rev { d.set_p(q).set_n(n); } else { d.set_n(n).set_p(q); }
            }
            (Obj::Bernoulli(d), Params::F1(q)) => { d.set_p(q); }
            (Obj::DUniform(d), Params::I2(a, b)) => {
                if rev { d.set_upper(b).set_lower(a); } else { d.set_lower(a).set_upper(b); }
            }
            _ => return Err(BadOp),
        },
        "upd" => {
            let v: Vec<f64> = match p {
                Params::F1(a) => vec![a],
                Params::F2(a, b) => vec![a, b],
                Params::U(k) => vec![k as f64],
                Params::NB(n, q) => vec![n as f64, q],
                Params::I2(a, b) => vec![a as f64, b as f64],
            };
            match o {
                Obj::Normal(d) => d.update(&v),
                Obj::Gamma(d) => d.update(&v),
                Obj::Beta(d) => d.update(&v),
                Obj::Chi2(d) => d.update(&v),
                Obj::T(d) => d.update(&v),
                Obj::Pareto(d) => d.update(&v),
                Obj::Gumbel(d) => d.update(&v),
                Obj::Exponential(d) => d.update(&v),
                Obj::Uniform(d) => d.update(&v),
                Obj::Poisson(d) => d.update(&v),
                Obj::Binomial(d) => d.update(&v),
                Obj::Bernoulli(d) => d.update(&v),
                Obj::DUniform(d) => d.update(&v),
            }
        }
        _ => return Err(BadOp),
    }
    Ok(())
}

/// Reads `<dist>[~route] [<initial params>] <params>` completely (so that a malformed line is `bad-op`, not a
/// panic), and returns a closure that runs the real constructor (and the route).
fn parse_obj(t: &mut Toks) -> R<Box<dyn FnOnce() -> Obj>> {
    let tok = t.tok()?;
    let mut it = tok.splitn(2, '~');
    let d: String = it.next().unwrap().to_string();
    let route: Option<String> = it.next().map(|s| s.to_string());
    match route {
        None => {
            let p = read_params(&d, t)?;
            Ok(Box::new(move || build(&d, p)))
        }
        Some(r) => {
            if !matches!(r.as_str(), "set" | "rset" | "upd" | "clone") {
                return Err(BadOp);
            }
            let p0 = read_params(&d, t)?;
            let p1 = read_params(&d, t)?;
            Ok(Box::new(move || {
                if r == "clone" {
                    let _first = build(&d, p0);
                    let o = build(&d, p1);
                    return clone_obj(&o);
                }
                let mut o = build(&d, p0);
                apply_route(&mut o, &r, p1).expect("route");
                o
            }))
        }
    }
}

fn clone_obj(o: &Obj) -> Obj {
    match o {
        Obj::Normal(d) => Obj::Normal(d.clone()),
        Obj::Gamma(d) => Obj::Gamma(d.clone()),
        Obj::Beta(d) => Obj::Beta(d.clone()),
        Obj::Chi2(d) => Obj::Chi2(d.clone()),
        Obj::T(d) => Obj::T(d.clone()),
        Obj::Pareto(d) => Obj::Pareto(d.clone()),
        Obj::Gumbel(d) => Obj::Gumbel(d.clone()),
        Obj::Exponential(d) => Obj::Exponential(d.clone()),
        Obj::Uniform(d) => Obj::Uniform(d.clone()),
        Obj::Poisson(d) => Obj::Poisson(d.clone()),
        Obj::Binomial(d) => Obj::Binomial(d.clone()),
        Obj::Bernoulli(d) => Obj::Bernoulli(d.clone()),
        Obj::DUniform(d) => Obj::DUniform(d.clone()),
    }
}

fn pdf(o: &Obj, x: f64) -> R<f64> {
    Ok(match o {
        Obj::Normal(d) => d.pdf(x),
        Obj::Gamma(d) => d.pdf(x),
        Obj::Beta(d) => d.pdf(x),
        Obj::Chi2(d) => d.pdf(x),
        Obj::T(d) => d.pdf(x),
        Obj::Pareto(d) => d.pdf(x),
        Obj::Gumbel(d) => d.pdf(x),
        Obj::Exponential(d) => d.pdf(x),
        Obj::Uniform(d) => d.pdf(x),
        _ => return Err(BadOp),
    })
}

fn ln_pdf(o: &Obj, x: f64) -> R<f64> {
    Ok(match o {
        Obj::Normal(d) => d.ln_pdf(x),
        Obj::Gamma(d) => d.ln_pdf(x),
        Obj::Beta(d) => d.ln_pdf(x),
        Obj::Chi2(d) => d.ln_pdf(x),
        Obj::T(d) => d.ln_pdf(x),
        Obj::Pareto(d) => d.ln_pdf(x),
        Obj::Gumbel(d) => d.ln_pdf(x),
        Obj::Exponential(d) => d.ln_pdf(x),
        Obj::Uniform(d) => d.ln_pdf(x),
        _ => return Err(BadOp),
    })
}

fn pmf(o: &Obj, k: i64) -> R<f64> {
    Ok(match o {
        Obj::Poisson(d) => d.pmf(k),
        Obj::Binomial(d) => d.pmf(k),
        Obj::Bernoulli(d) => d.pmf(k),
        Obj::DUniform(d) => d.pmf(k),
        _ => return Err(BadOp),
    })
}

fn mean(o: &Obj) -> f64 {
    match o {
        Obj::Normal(d) => d.mean(),
        Obj::Gamma(d) => d.mean(),
        Obj::Beta(d) => d.mean(),
        Obj::Chi2(d) => d.mean(),
        Obj::T(d) => d.mean(),
        Obj::Pareto(d) => d.mean(),
        Obj::Gumbel(d) => d.mean(),
        Obj::Exponential(d) => d.mean(),
        Obj::Uniform(d) => d.mean(),
        Obj::Poisson(d) => d.mean(),
        Obj::Binomial(d) => d.mean(),
        Obj::Bernoulli(d) => d.mean(),
        Obj::DUniform(d) => d.mean(),
    }
}

fn var(o: &Obj) -> f64 {
    match o {
        Obj::Normal(d) => d.var(),
        Obj::Gamma(d) => d.var(),
        Obj::Beta(d) => d.var(),
        Obj::Chi2(d) => d.var(),
        Obj::T(d) => d.var(),
        Obj::Pareto(d) => d.var(),
        Obj::Gumbel(d) => d.var(),
        Obj::Exponential(d) => d.var(),
        Obj::Uniform(d) => d.var(),
        Obj::Poisson(d) => d.var(),
        Obj::Binomial(d) => d.var(),
        Obj::Bernoulli(d) => d.var(),
        Obj::DUniform(d) => d.var(),
    }
}

fn is_discrete(o: &Obj) -> bool {
    matches!(o, Obj::Poisson(_) | Obj::Binomial(_) | Obj::Bernoulli(_) | Obj::DUniform(_))
}

fn step(_: &mut (), t: &mut Toks) -> R<String> {
    let op = t.tok()?;
    match op {
        "pdf" | "lnpdf" => {
            let mk = parse_obj(t)?;
            let xs = t.vec()?;
            t.end()?;
            let o = mk();
            if is_discrete(&o) {
                return Err(BadOp);
            }
            let mut ys = Vec::with_capacity(xs.len());
            for x in xs {
                ys.push(if op == "pdf" { pdf(&o, x)? } else { ln_pdf(&o, x)? });
            }
            Ok(ok(show_fs(&ys)))
        }
        "cdf" => {
            let d = t.tok()?;
            if d != "normal" && !d.starts_with("normal~") {
                return Err(BadOp);
            }
            let route = d.splitn(2, '~').nth(1).map(|s| s.to_string());
            let p0 = if route.is_some() { Some((t.f64()?, t.f64()?)) } else { None };
            let (mu, sigma) = (t.f64()?, t.f64()?);
            let xs = t.vec()?;
            t.end()?;
            let o = match (route.as_deref(), p0) {
                (None, _) => Normal::new(mu, sigma),
                (Some("set"), Some((a, b))) => { let mut n = Normal::new(a, b); n.set_mu(mu).set_sigma(sigma); n }
                (Some("rset"), Some((a, b))) => { let mut n = Normal::new(a, b); n.set_sigma(sigma).set_mu(mu); n }
                (Some("upd"), Some((a, b))) => { let mut n = Normal::new(a, b); n.update(&[mu, sigma]); n }
                (Some("clone"), Some(_)) => Normal::new(mu, sigma).clone(),
                _ => return Err(BadOp),
            };
            let mut ys = Vec::with_capacity(xs.len());
            for x in xs {
                ys.push(o.cdf(x));
            }
            Ok(ok(show_fs(&ys)))
        }
        "pmf" => {
            let mk = parse_obj(t)?;
            let ks = t.i64s()?;
            t.end()?;
            let o = mk();
            if !is_discrete(&o) {
                return Err(BadOp);
            }
            let mut ys = Vec::with_capacity(ks.len());
            for k in ks {
                ys.push(pmf(&o, k)?);
            }
            Ok(ok(show_fs(&ys)))
        }
        "mean" | "var" => {
            let mk = parse_obj(t)?;
            t.end()?;
            let o = mk();
            Ok(ok(show_f(if op == "mean" { mean(&o) } else { var(&o) })))
        }
        "mvn_pdf" | "mvn_lnpdf" => {
            let k = t.usize()?;
            let mu = t.f64s(k)?;
            let cov = t.f64s(k * k)?;
            let m = t.usize()?;
            let xs = t.f64s(m * k)?;
            t.end()?;
            let c = Matrix::new(cov, k as i32, k as i32);
            let d = MVN::new(mu, c);
            let mut ys = Vec::with_capacity(m);
            for i in 0..m {
                let x = &xs[i * k..(i + 1) * k];
                ys.push(if op == "mvn_pdf" { (&d).pdf(x) } else { (&d).ln_pdf(x) });
            }
            Ok(ok(show_fs(&ys)))
        }
        "mvn_mean" | "mvn_var" => {
            let k = t.usize()?;
            let mu = t.f64s(k)?;
            let cov = t.f64s(k * k)?;
            t.end()?;
            let c = Matrix::new(cov, k as i32, k as i32);
            let d = MVN::new(mu, c);
            if op == "mvn_mean" {
                let m: &[f64] = (&d).mean();
                Ok(ok(show_vec(m)))
            } else {
                let v: &Matrix = (&d).var();
                Ok(ok(format!("{} {} {}", v.nrows, v.ncols, show_fs(&v.data()))))
            }
        }
        _ => Err(BadOp),
    }
}

fn main() {
    run((), step);
}
