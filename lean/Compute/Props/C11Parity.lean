import Compute.Lemmas.ParityLemmas
import Compute.Props.C11
/-
C11 (deep) — `ipiv_parity` returns the sign of the permutation, for permutation vectors of EVERY size.

Strengthens the finite check `Cv.C11.parity_correct_le6` (all permutations of size ≤ 6) to all `n`,
against Mathlib's `Equiv.Perm.sign` and against the inversion-count sign `Cv.C11.invSign`; the fuel
`len + 1` that `Cv.LA.ipivParity` gives to every inner `while` is proved sufficient for every `n`
(no `diverged`, no `panic` on permutation vectors), and the total number of swaps is bounded by the
number of non-fixed points.  `det_sign_correct` combines this with `Cv.C11.det_spec`.
-/
set_option linter.unusedSectionVars false
namespace Cv.C11
open Cv Cv.LA Cv.Parity Equiv

/-! ### 1. against `Equiv.Perm.sign` -/

theorem parity_int_of_pow (k : ℕ) : (if k % 2 = 0 then (1 : ℤ) else -1) = (((-1 : ℤˣ) ^ k : ℤˣ) : ℤ) := by
  rcases Nat.even_or_odd k with h | h
  · rw [if_pos (Nat.even_iff.mp h), h.neg_one_pow]; rfl
  · rw [if_neg (by rw [Nat.odd_iff.mp h]; decide), h.neg_one_pow]; rfl

/-- **ipivParity_sign.**  For every `n` and every permutation `τ` of `Fin n`, `ipiv_parity` applied
to the vector `[τ 0, …, τ (n-1)]` returns (no panic, fuel never exhausted) Mathlib's `sign τ`. -/
theorem ipivParity_sign {n : ℕ} (τ : Perm (Fin n)) :
    ipivParity (vec τ) = .ok ((Perm.sign τ : ℤˣ) : ℤ) := by
  obtain ⟨k, hrun, hsg, -⟩ := parityLoop_full τ (n + 1) (Nat.lt_succ_self n)
  unfold ipivParity
  rw [vec_length, hrun, hsg]
  simp only [parity_int_of_pow]

/-- The swap budget: on `vec τ` the double loop runs to completion with ANY per-`while` fuel above `n`
(the model passes `n + 1`), ends on the identity vector, and performs `k ≤ #{i | τ i ≠ i} - 1 ≤ n - 1`
swaps in total with `sign τ = (-1)^k`. -/
theorem parity_fuel_sufficient {n : ℕ} (τ : Perm (Fin n)) (fuel : ℕ) (hf : n < fuel) :
    ∃ k : ℕ, parityLoop fuel (List.range n) (vec τ) 0 = .ok ((List.range n).map Int.ofNat, k) ∧
      Perm.sign τ = (-1) ^ k ∧ k ≤ τ.support.card - 1 ∧ k ≤ n - 1 := by
  obtain ⟨k, hrun, hsg, hk⟩ := parityLoop_full τ fuel hf
  have hn : τ.support.card ≤ n := le_trans (Finset.card_le_univ _) (by simp)
  refine ⟨k, ?_, hsg, hk, by omega⟩
  rw [hrun]
  congr 2
  apply List.ext_getElem <;> simp [vec]

example : ipivParity (vec (finRotate 7)) = .ok 1 := by
  rw [ipivParity_sign, sign_finRotate]; rfl

example : ipivParity (vec (Equiv.swap (2 : Fin 9) 5)) = .ok (-1) := by
  rw [ipivParity_sign, Perm.sign_swap (by decide)]; rfl

/-! ### 2. every permutation vector is some `vec τ` -/

theorem perm_range_get_lt {p : List ℕ} {n : ℕ} (hp : p.Perm (List.range n)) (i : Fin n) :
    ∃ h : (i : ℕ) < p.length, p[(i : ℕ)] < n := by
  have hl : (i : ℕ) < p.length := by rw [hp.length_eq, List.length_range]; exact i.isLt
  exact ⟨hl, List.mem_range.mp (hp.mem_iff.mp (List.getElem_mem hl))⟩

/-- the permutation of `Fin n` whose vector is `p` -/
noncomputable def permOfList (p : List ℕ) (n : ℕ) (hp : p.Perm (List.range n)) : Perm (Fin n) :=
  Equiv.ofBijective (fun i => ⟨p[(i : ℕ)]'(perm_range_get_lt hp i).1, (perm_range_get_lt hp i).2⟩)
    (Finite.injective_iff_bijective.mp (by
      intro i j h
      have hnd : p.Nodup := hp.nodup_iff.mpr List.nodup_range
      have := (List.Nodup.getElem_inj_iff hnd).mp (Fin.mk.inj h)
      exact Fin.ext this))

theorem permOfList_apply (p : List ℕ) (n : ℕ) (hp : p.Perm (List.range n)) (i : Fin n) :
    ((permOfList p n hp i : Fin n) : ℕ) = p[(i : ℕ)]'(perm_range_get_lt hp i).1 := rfl

theorem vec_permOfList (p : List ℕ) (n : ℕ) (hp : p.Perm (List.range n)) :
    vec (permOfList p n hp) = p.map Int.ofNat := by
  have hl : p.length = n := by rw [hp.length_eq, List.length_range]
  apply List.ext_getElem
  · simp [hl]
  · intro k h1 h2
    simp [vec, permOfList_apply]

/-- **ipivParity_perm.**  For every `n` and EVERY list `p` that is a rearrangement of `0..n-1`,
`ipiv_parity p` returns the sign of the permutation `i ↦ p[i]`. -/
theorem ipivParity_perm (n : ℕ) (p : List ℕ) (hp : p.Perm (List.range n)) :
    ipivParity (p.map Int.ofNat) = .ok ((Perm.sign (permOfList p n hp) : ℤˣ) : ℤ) := by
  rw [← vec_permOfList p n hp, ipivParity_sign]

example : ∃ s, ipivParity ([3, 0, 4, 1, 2, 6, 5].map Int.ofNat) = .ok s ∧ (s = 1 ∨ s = -1) :=
  ⟨_, ipivParity_perm 7 _ (by decide), by
    rcases Int.units_eq_one_or (Perm.sign (permOfList [3, 0, 4, 1, 2, 6, 5] 7 (by decide))) with h | h <;> simp [h]⟩

/-! ### 3. against the inversion-count sign `invSign` (the reference of `parity_correct_le6`) -/

theorem foldl_add_eq_sum (g : ℕ → ℕ) (l : List ℕ) (a : ℕ) :
    l.foldl (fun c i => c + g i) a = a + (l.map g).sum := by
  induction l generalizing a with
  | nil => simp
  | cons x l ih => simp [ih, Nat.add_assoc]

theorem list_range_sum (c : ℕ → ℕ) (n : ℕ) : ((List.range n).map c).sum = ∑ i ∈ Finset.range n, c i := by
  induction n with
  | zero => simp
  | succ n ih =>
    rw [List.range_succ, List.map_append, List.sum_append, ih, Finset.sum_range_succ]; simp

/-- the inner product of Mathlib's `sign_eq_prod_prod_Iio`, as a count of inversions `i < j`, `σ j < σ i` -/
theorem prod_lt_eq {n : ℕ} (σ : Perm (Fin n)) (q : ℕ → ℕ) (hq : ∀ i : Fin n, q i = σ i) (j : Fin n) :
    ∀ m, m ≤ (j : ℕ) →
      ∏ i ∈ Finset.univ.filter (fun i : Fin n => (i : ℕ) < m), (if σ i < σ j then (1 : ℤˣ) else -1)
        = (-1) ^ ((List.range m).filter fun i => decide (q j < q i)).length := by
  intro m
  induction m with
  | zero => intro _; simp
  | succ m ih =>
    intro hm
    have hmn : m < n := by omega
    have hset : Finset.univ.filter (fun i : Fin n => (i : ℕ) < m + 1)
        = insert (⟨m, hmn⟩ : Fin n) (Finset.univ.filter (fun i : Fin n => (i : ℕ) < m)) := by
      ext i; simp [Fin.ext_iff]; omega
    rw [hset, Finset.prod_insert (by simp), ih (by omega), List.range_succ, List.filter_append,
      List.length_append, pow_add, mul_comm]
    congr 1
    have hne : σ ⟨m, hmn⟩ ≠ σ j := fun e => by
      have := σ.injective e; simp [Fin.ext_iff] at this; omega
    have hqm : q m = σ ⟨m, hmn⟩ := hq ⟨m, hmn⟩
    by_cases hlt : σ ⟨m, hmn⟩ < σ j
    · have : ¬ q j < q m := by rw [hq j, hqm]; exact not_lt.mpr (le_of_lt hlt)
      simp [hlt, this]
    · have : q j < q m := by
        rw [hq j, hqm]; exact lt_of_le_of_ne (not_lt.mp hlt) (fun e => hne (Fin.ext e).symm)
      simp [hlt, this]

/-- Mathlib's sign of a permutation of `Fin n` is the parity of its inversion count. -/
theorem sign_eq_inversions {n : ℕ} (σ : Perm (Fin n)) (q : ℕ → ℕ) (hq : ∀ i : Fin n, q i = σ i) :
    Perm.sign σ = (-1) ^ ((List.range n).map fun j =>
      ((List.range j).filter fun i => decide (q j < q i)).length).sum := by
  rw [σ.sign_eq_prod_prod_Iio, list_range_sum, ← Fin.sum_univ_eq_sum_range, ← Finset.prod_pow_eq_pow_sum]
  apply Finset.prod_congr rfl
  intro j _
  rw [← prod_lt_eq σ q hq j j (le_refl _)]
  apply Finset.prod_congr _ (fun _ _ => rfl)
  ext i; simp [Finset.mem_Iio]

/-- `invSign` is Mathlib's sign -/
theorem invSign_eq_sign (n : ℕ) (p : List ℕ) (hp : p.Perm (List.range n)) :
    invSign p = ((Perm.sign (permOfList p n hp) : ℤˣ) : ℤ) := by
  have hl : p.length = n := by rw [hp.length_eq, List.length_range]
  have hq : ∀ i : Fin n, (fun k : ℕ => p.getD k 0) (i : ℕ) = ((permOfList p n hp i : Fin n) : ℕ) := by
    intro i
    have hi : (i : ℕ) < p.length := by rw [hl]; exact i.isLt
    simp [permOfList_apply, List.getD_eq_getElem?_getD, List.getElem?_eq_getElem hi]
  rw [sign_eq_inversions _ (fun k : ℕ => p.getD k 0) hq, ← parity_int_of_pow]
  unfold invSign
  simp only [foldl_add_eq_sum, Nat.zero_add, hl]

/-- **parity_correct_all** — `parity_correct_le6` for every size: for every `n` and every
rearrangement `p` of `0..n-1`, the repaired `ipiv_parity` returns the inversion-count sign, without
panic and within its fuel. -/
theorem parity_correct_all (n : ℕ) (p : List ℕ) (hp : p.Perm (List.range n)) :
    ipivParity (p.map Int.ofNat) = .ok (invSign p) := by
  rw [ipivParity_perm n p hp, invSign_eq_sign n p hp]

example : ipivParity ([3, 0, 4, 1, 2, 6, 5, 8, 7, 9].map Int.ofNat) = .ok (-1) :=
  parity_correct_all 10 _ (by decide)

/-- the same for an `i32` vector given directly as the model takes it: any rearrangement `l : List Int`
of `[0, …, n-1]` -/
theorem parity_correct_all_int (n : ℕ) (l : List Int) (hl : l.Perm ((List.range n).map Int.ofNat)) :
    (l.map Int.toNat).Perm (List.range n) ∧ ipivParity l = .ok (invSign (l.map Int.toNat)) := by
  have hp : (l.map Int.toNat).Perm (List.range n) := by
    have := hl.map Int.toNat
    simpa [List.map_map, Function.comp_def] using this
  have hback : (l.map Int.toNat).map Int.ofNat = l := by
    rw [List.map_map]
    conv_rhs => rw [← List.map_id l]
    apply List.map_congr_left
    intro x hx
    obtain ⟨k, _, rfl⟩ := List.mem_map.mp (hl.mem_iff.mp hx)
    simp
  refine ⟨hp, ?_⟩
  have := parity_correct_all n _ hp
  rwa [hback] at this

example : ipivParity [2, 0, 1, 4, 3] = .ok (-1) :=
  (parity_correct_all_int 5 [2, 0, 1, 4, 3] (by decide)).2

/-! ### 4. the determinant -/
section det
variable {α : Type} [Add α] [Sub α] [Mul α] [Div α] [Neg α] [Zero α] [One α] [NatCast α]
  [LT α] [DecidableLT α] [LE α] [DecidableLE α] [BEq α] [Transc α]

/-- the pivot vector of `Matrix::lu` is a permutation of `0..nrows-1`, for every input -/
theorem matrix_lu_pivots_perm (m f : Mat α) (piv : List ℕ) (h : M.lu m = some (f, piv)) :
    piv.Perm (List.range m.nrows) := by
  unfold M.lu at h
  split at h
  · cases h
  · simp only [Option.some.injEq, Prod.mk.injEq] at h
    rw [← h.2, matrix_luStep_eq]
    exact foldl_luStep_perm m.nrows (List.range m.nrows) (m.data, List.range m.nrows)

theorem parityScalar_perm (n : ℕ) (p : List ℕ) (hp : p.Perm (List.range n)) :
    (M.parityScalar (p.map Int.ofNat) : Option α)
      = some (if Perm.sign (permOfList p n hp) = 1 then 1 else -1) := by
  unfold M.parityScalar
  rw [ipivParity_perm n p hp]
  simp only [Units.val_eq_one]

/-- **det_sign_correct.**  Whenever `Matrix::lu` succeeds (i.e. the matrix is square), `Matrix::det`
succeeds too — the parity routine neither panics nor diverges on the pivot vector, whatever the size —
and `det = (∏ diag U) · sign(π)` where `π` is the row permutation recorded by the pivots and `sign`
is Mathlib's `Equiv.Perm.sign` (as `±1` in the scalar type). -/
theorem det_sign_correct (m f : Mat α) (piv : List ℕ) (h : M.lu m = some (f, piv)) :
    ∃ hp : piv.Perm (List.range m.nrows),
      M.det m = some (M.prod (M.diag f) * (if Perm.sign (permOfList piv m.nrows hp) = 1 then 1 else -1)) := by
  have hp := matrix_lu_pivots_perm m f piv h
  refine ⟨hp, ?_⟩
  rw [det_spec, h]
  simp only [Option.bind_some, parityScalar_perm (α := α) m.nrows piv hp]

/-- error branch: `det` panics exactly when `lu` does, i.e. on non-square matrices -/
theorem det_none_iff (m : Mat α) : M.det m = none ↔ m.nrows ≠ m.ncols := by
  constructor
  · intro hd hs
    have : ∃ fp, M.lu m = some fp := by simp [M.lu, hs]
    obtain ⟨⟨f, piv⟩, h⟩ := this
    obtain ⟨_, hdet⟩ := det_sign_correct m f piv h
    rw [hdet] at hd; cases hd
  · intro hs
    rw [det_spec, matrix_lu_nonsquare m hs]; rfl

example : M.lu (⟨[0, 2, 3, 4], 2, 2⟩ : Mat ℚ) = some (⟨[3, 4, 0, 2], 2, 2⟩, [1, 0]) ∧
    M.det (⟨[0, 2, 3, 4], 2, 2⟩ : Mat ℚ) = some (-6) := by decide +kernel

end det

section detRing
variable {F : Type} [Field F] [LinearOrder F] [IsStrictOrderedRing F] [Transc F] [BEq F]

/-- the same over a field, with the sign as the usual cast `ℤˣ → ℤ → F` -/
theorem det_sign_correct_field (m f : Mat F) (piv : List ℕ) (h : M.lu m = some (f, piv)) :
    ∃ hp : piv.Perm (List.range m.nrows),
      M.det m = some (M.prod (M.diag f) * (((Perm.sign (permOfList piv m.nrows hp) : ℤˣ) : ℤ) : F)) := by
  obtain ⟨hp, hd⟩ := det_sign_correct m f piv h
  refine ⟨hp, ?_⟩
  rw [hd]
  rcases Int.units_eq_one_or (Perm.sign (permOfList piv m.nrows hp)) with h1 | h1 <;> simp [h1]

end detRing

/-! ### 5. the fuel is enough on every input whatsoever -/

/-- **parity_never_diverges** (the theorem the model's doc comment refers to).  For EVERY input vector
— permutation or not, any length, negative or out-of-range entries — the fuel `len + 1` per inner
`while` is never exhausted: each executed swap creates a new position `j` with `perm[j] = j` and destroys
none, so the Rust loop terminates on every input; the model's `diverged` outcome is unreachable. -/
theorem parity_never_diverges (l : List Int) : ipivParity l ≠ .diverged := by
  unfold ipivParity
  have := parityLoop_no_diverge (l.length + 1) (List.range l.length) l 0 (Nat.lt_succ_self _)
  cases h : parityLoop (l.length + 1) (List.range l.length) l 0 with
  | ok r => simp
  | panic => simp
  | diverged => exact absurd h this

/-! ### 6. exactly the permutation vectors are accepted -/

theorem mem_fixSet (l : List Int) (j : ℕ) : j ∈ fixSet l ↔ l[j]? = some (j : ℤ) := by
  simp only [fixSet, Finset.mem_filter, Finset.mem_range, and_iff_right_iff_imp]
  intro h
  exact (List.getElem?_eq_some_iff.mp h).1

theorem parityWhile_ok (i : ℕ) : ∀ (fuel : ℕ) (l : List Int) (par : ℕ) (l' : List Int) (par' : ℕ),
    parityWhile i fuel l par = .ok (l', par') →
      l'.Perm l ∧ fixSet l ⊆ fixSet l' ∧ l'[i]? = some (i : ℤ) := by
  intro fuel
  induction fuel with
  | zero => intro l par l' par' h; simp [parityWhile] at h
  | succ fuel ih =>
    intro l par l' par' h
    unfold parityWhile at h
    cases hi : l[i]? with
    | none => simp [hi] at h
    | some pi =>
      simp only [hi] at h
      by_cases h1 : pi = (i : ℤ)
      · simp only [h1, if_true, Res.ok.injEq, Prod.mk.injEq] at h
        obtain ⟨rfl, -⟩ := h
        exact ⟨List.Perm.refl _, Finset.Subset.refl _, by rw [hi, h1]⟩
      · simp only [h1, if_false] at h
        by_cases h2 : pi < 0
        · simp [h2] at h
        · simp only [h2, if_false] at h
          cases hJ : l[pi.toNat]? with
          | none => simp [hJ] at h
          | some pj =>
            simp only [hJ] at h
            by_cases h3 : pj = pi
            · simp [h3] at h
            · simp only [h3, if_false] at h
              have hpi : ((pi.toNat : ℕ) : ℤ) = pi := Int.toNat_of_nonneg (not_lt.mp h2)
              have hss := fixSet_swap_ssubset l i pi.toNat pj (by rw [hpi]; exact hi) hJ
                (by rw [hpi]; exact h1) (by rw [hpi]; exact h3)
              obtain ⟨g1, g2, g3⟩ := ih _ _ _ _ h
              exact ⟨g1.trans (swapIdx_perm l i pi.toNat), hss.subset.trans g2, g3⟩

theorem parityLoop_ok (fuel : ℕ) : ∀ (is : List ℕ) (l : List Int) (par : ℕ) (l' : List Int) (par' : ℕ),
    parityLoop fuel is l par = .ok (l', par') →
      l'.Perm l ∧ fixSet l ⊆ fixSet l' ∧ ∀ i ∈ is, l'[i]? = some (i : ℤ) := by
  intro is
  induction is with
  | nil =>
    intro l par l' par' h
    simp only [parityLoop, Res.ok.injEq, Prod.mk.injEq] at h
    obtain ⟨rfl, -⟩ := h
    exact ⟨List.Perm.refl _, Finset.Subset.refl _, by simp⟩
  | cons i is ih =>
    intro l par l' par' h
    unfold parityLoop at h
    cases hw : parityWhile i fuel l par with
    | ok r =>
      obtain ⟨l₁, par₁⟩ := r
      simp only [hw] at h
      obtain ⟨a1, a2, a3⟩ := parityWhile_ok i fuel l par l₁ par₁ hw
      obtain ⟨b1, b2, b3⟩ := ih l₁ par₁ l' par' h
      refine ⟨b1.trans a1, a2.trans b2, ?_⟩
      intro j hj
      rcases List.mem_cons.mp hj with rfl | hj
      · exact (mem_fixSet _ _).mp (b2 ((mem_fixSet _ _).mpr a3))
      · exact b3 j hj
    | panic => simp [hw] at h
    | diverged => simp [hw] at h

/-- **ipivParity_ok_iff.**  `ipiv_parity` returns a value exactly on the rearrangements of `0..len-1`
(and then the value is the sign, `parity_correct_all_int`) … -/
theorem ipivParity_ok_iff (l : List Int) :
    (∃ s, ipivParity l = .ok s) ↔ l.Perm ((List.range l.length).map Int.ofNat) := by
  constructor
  · rintro ⟨s, hs⟩
    unfold ipivParity at hs
    cases hrun : parityLoop (l.length + 1) (List.range l.length) l 0 with
    | ok r =>
      obtain ⟨l', par'⟩ := r
      obtain ⟨h1, -, h3⟩ := parityLoop_ok _ _ _ _ _ _ hrun
      have hlen : l'.length = l.length := h1.length_eq
      have : l' = (List.range l.length).map Int.ofNat := by
        apply List.ext_getElem
        · simp [hlen]
        · intro k hk1 hk2
          have hk : k < l.length := by rw [← hlen]; exact hk1
          have := h3 k (List.mem_range.mpr hk)
          rw [List.getElem?_eq_getElem hk1] at this
          simpa using Option.some.inj this
      rw [← this]
      exact h1.symm
    | panic => simp [hrun] at hs
    | diverged => simp [hrun] at hs
  · intro h
    exact ⟨_, (parity_correct_all_int l.length l h).2⟩

/-- … and panics (the `assert!` or an index out of range) on every other input: the three-valued
model outcome is decided by the permutation property alone. -/
theorem ipivParity_panic_iff (l : List Int) :
    ipivParity l = .panic ↔ ¬ l.Perm ((List.range l.length).map Int.ofNat) := by
  rw [← ipivParity_ok_iff]
  have hnd := parity_never_diverges l
  cases h : ipivParity l with
  | ok s => simp
  | panic => simp
  | diverged => exact absurd h hnd

example : ipivParity [0, 2, 2] = .panic := (ipivParity_panic_iff _).mpr (by decide)

end Cv.C11
