import Compute.Lemmas.Decomp
import Compute.Lemmas.DecompTri
import Mathlib.Algebra.Order.AbsoluteValue.Basic
import Mathlib.Algebra.Order.Field.Rat
import Mathlib.Algebra.Order.Field.Basic
import Mathlib.Tactic.Linarith
import Mathlib.Data.Nat.Sqrt
/-
C01 — linear systems are solved through every entry point.
Theorems about the model of src/linalg/utils.rs (`solve`, `solve_sys`, `invert_matrix`, layout
conversions, routing predicate), decomposition/substitution.rs and the `Matrix` entry points
(`Model/Decomp.lean`, `Model/Solve.lean`, `Model/MatrixLinalg.lean`) in exact arithmetic.
-/
set_option linter.unusedSectionVars false
namespace Cv.C01
open Cv Cv.LA

/-- Exact square root on `ℚ` where it exists: the root of a perfect-square rational (numerator and
denominator both perfect squares), and the argument itself otherwise.  Kernel-reducible (`Nat.sqrt`). -/
def ratSqrt (x : ℚ) : ℚ :=
  if 0 ≤ x ∧ Nat.sqrt x.num.natAbs * Nat.sqrt x.num.natAbs = x.num.natAbs ∧ Nat.sqrt x.den * Nat.sqrt x.den = x.den
  then (Nat.sqrt x.num.natAbs : ℚ) / (Nat.sqrt x.den : ℚ) else x

/-- Exact rationals, used ONLY for the concrete `decide` witnesses of C01 / C11 (and of the files that
import them).  `abs` is the absolute value; `sqrt` is `ratSqrt`, i.e. the true square root on perfect
squares — every witness below takes roots of perfect squares only (`ratSqrt_witness` shows the values),
so the displayed factors are genuine.  On a non-square `sqrt` returns its argument; no theorem is
instantiated at this instance with a hypothesis about `sqrt` (`hsqrt`/`SqrtExactOn` are hypotheses of
the generic theorems, never discharged here).  The remaining fields are unused placeholders. -/
instance instTranscRat : Cv.Transc ℚ where
  sqrt := ratSqrt
  exp x := x
  ln x := x
  pow x _ := x
  sin x := x
  cos x := x
  tan x := x
  abs x := |x|
  floor x := x
  ceil x := x

theorem ratSqrt_witness : ratSqrt 0 = 0 ∧ ratSqrt 1 = 1 ∧ ratSqrt 4 = 2 ∧ ratSqrt 9 = 3 ∧ ratSqrt (9 / 4) = 3 / 2 ∧
    ratSqrt (1 / 16) = 1 / 4 := by decide +kernel

/-! ### 1. layout conversions are transposes and mutually inverse -/
section layout
variable {α : Type} [Zero α]

theorem divmod_idx {i j r : Nat} (hi : i < r) : (j * r + i) % r = i ∧ (j * r + i) / r = j := by
  have hr : 0 < r := by omega
  constructor
  · rw [Nat.add_comm, Nat.add_mul_mod_self_right, Nat.mod_eq_of_lt hi]
  · rw [Nat.add_comm, Nat.add_mul_div_right _ _ hr, Nat.div_eq_of_lt hi]; simp

theorem idx_lt {i j r c : Nat} (hi : i < r) (hj : j < c) : j * r + i < r * c := by
  have : (j + 1) * r ≤ c * r := Nat.mul_le_mul_right r hj
  rw [Nat.add_mul, Nat.mul_comm c r] at this
  omega

/-- `row_to_col_major` is literally the transposition loop of `transpose`. -/
theorem rowToCol_eq_transpose (a : List α) (r : Nat) : rowToColMajor a r = transpose a r := rfl

/-- entry `(i,j)` of the `r × c` row-major input sits at `j*r+i` of the column-major output. -/
theorem rowToCol_entry (a x : List α) (r c : Nat) (hr : r ≠ 0) (h : r * c = a.length)
    (hx : rowToColMajor a r = some x) (i j : Nat) (hi : i < r) (hj : j < c) :
    x.length = a.length ∧ rd x (j * r + i) = rd a (i * c + j) := by
  have hm : isMatrix a.length r = some c := isMatrix_eq_some_iff.mpr ⟨hr, h⟩
  simp only [rowToColMajor, hm, Option.bind_eq_bind, Option.bind_some, Option.pure_def, Option.some.injEq] at hx
  subst hx
  refine ⟨by simp, ?_⟩
  rw [rd_map_range _ _ _ (h ▸ idx_lt hi hj)]
  obtain ⟨h1, h2⟩ := divmod_idx (j := j) hi
  rw [h1, h2]

theorem colToRow_entry (a x : List α) (r c : Nat) (hr : r ≠ 0) (h : r * c = a.length)
    (hx : colToRowMajor a r = some x) (i j : Nat) (hi : i < r) (hj : j < c) :
    x.length = a.length ∧ rd x (i * c + j) = rd a (j * r + i) := by
  have hm : isMatrix a.length r = some c := isMatrix_eq_some_iff.mpr ⟨hr, h⟩
  simp only [colToRowMajor, hm, Option.bind_eq_bind, Option.bind_some, Option.pure_def, Option.some.injEq] at hx
  subst hx
  refine ⟨by simp, ?_⟩
  have hlt : i * c + j < a.length := by rw [← h, Nat.mul_comm r c]; exact idx_lt hj hi
  rw [rd_map_range _ _ _ hlt]
  obtain ⟨h1, h2⟩ := divmod_idx (j := i) hj
  rw [h1, h2]

theorem kdecomp {k r c : Nat} (hk : k < r * c) : k / c < r ∧ k % c < c ∧ k / c * c + k % c = k := by
  have hc : 0 < c := by
    rcases Nat.eq_zero_or_pos c with h | h
    · subst h; simp at hk
    · exact h
  refine ⟨?_, Nat.mod_lt _ hc, ?_⟩
  · exact Nat.div_lt_of_lt_mul (by rwa [Nat.mul_comm] )
  · rw [Nat.mul_comm]; exact Nat.div_add_mod k c

/-- `col_to_row_major ∘ row_to_col_major = id` on every `r × c` array. -/
theorem colToRow_rowToCol (a x : List α) (r : Nat) (hx : rowToColMajor a r = some x) :
    colToRowMajor x r = some a := by
  cases hm : isMatrix a.length r with
  | none => simp [rowToColMajor, hm] at hx
  | some c =>
    obtain ⟨hr, h⟩ := isMatrix_eq_some_iff.mp hm
    have hx' := hx
    simp only [rowToColMajor, hm, Option.bind_eq_bind, Option.bind_some, Option.pure_def, Option.some.injEq] at hx'
    have hlen : x.length = a.length := by subst hx'; simp
    have hm2 : isMatrix x.length r = some c := by rw [hlen]; exact hm
    simp only [colToRowMajor, hm2, Option.bind_eq_bind, Option.bind_some, Option.pure_def, Option.some.injEq]
    apply List.ext_getElem
    · simp [hlen]
    · intro k hk1 hk2
      simp only [List.getElem_map, List.getElem_range]
      obtain ⟨d1, d2, d3⟩ := kdecomp (h ▸ hk2 : k < r * c)
      rw [(rowToCol_entry a x r c hr h hx (k / c) (k % c) d1 d2).2, d3, rd_eq_getElem _ _ hk2]

/-- `row_to_col_major ∘ col_to_row_major = id`. -/
theorem rowToCol_colToRow (a x : List α) (r : Nat) (hx : colToRowMajor a r = some x) :
    rowToColMajor x r = some a := by
  cases hm : isMatrix a.length r with
  | none => simp [colToRowMajor, hm] at hx
  | some c =>
    obtain ⟨hr, h⟩ := isMatrix_eq_some_iff.mp hm
    have hx' := hx
    simp only [colToRowMajor, hm, Option.bind_eq_bind, Option.bind_some, Option.pure_def, Option.some.injEq] at hx'
    have hlen : x.length = a.length := by subst hx'; simp
    have hm2 : isMatrix x.length r = some c := by rw [hlen]; exact hm
    simp only [rowToColMajor, hm2, Option.bind_eq_bind, Option.bind_some, Option.pure_def, Option.some.injEq]
    apply List.ext_getElem
    · simp [hlen]
    · intro k hk1 hk2
      simp only [List.getElem_map, List.getElem_range]
      have hk3 : k < c * r := by rw [Nat.mul_comm]; exact h ▸ hk2
      obtain ⟨d1, d2, d3⟩ := kdecomp hk3
      rw [(colToRow_entry a x r c hr h hx (k % r) (k / r) d2 d1).2, d3, rd_eq_getElem _ _ hk2]

end layout

/-! ### 2./3. routing and the multi-right-hand-side paths -/
section routing
variable {α : Type} [Add α] [Sub α] [Mul α] [Div α] [Neg α] [Zero α] [One α] [NatCast α]
  [LT α] [DecidableLT α] [LE α] [DecidableLE α] [BEq α] [Transc α]

/-- `solve` = Cholesky route iff the routing predicate (`is_positive_definite && is_exactly_symmetric`,
F37) holds *and* every pivot is positive, otherwise the LU route (the F01 repair: fall back instead
of taking `sqrt` of a negative). -/
theorem solve_routing (a b : List α) (h : a.length = b.length * b.length) :
    solve a b =
      (routePredicate a).bind fun ok =>
        if ok then
          (tryCholesky a).bind fun l? =>
            match l? with
            | some l => choleskySolve l b
            | none => (lu a).bind fun fp => luSolve fp.1 fp.2 b
        else (lu a).bind fun fp => luSolve fp.1 fp.2 b := by
  simp only [solve, h, ne_eq, not_true_eq_false, if_false, route, solveWith, Option.bind_eq_bind, Option.pure_def]
  cases routePredicate a with
  | none => rfl
  | some pd =>
    cases pd with
    | false => simp
    | true =>
      simp only [Option.bind_some, if_true]
      cases tryCholesky a with
      | none => rfl
      | some l? => cases l? <;> rfl

/-- the predicate is the conjunction of the two source predicates, evaluated left to right -/
theorem routePredicate_eq (a : List α) :
    routePredicate a = (isPositiveDefinite a).bind fun pd => if pd then isExactlySymmetric a else some false := rfl

/-- `invert_matrix(m) = solve_sys(m, I)`. -/
theorem invertMatrix_eq_solveSys (m : List α) :
    invertMatrix m = (isSquare m.length).bind fun n => solveSys m (identity n) := rfl

/-- `Matrix::inv(m) = Matrix::solve(m, eye(n))` on square matrices (panic otherwise). -/
theorem matrix_inv_eq_solve_eye (m : Mat α) :
    M.inv m = if m.nrows ≠ m.ncols then none else M.solveM m (M.eye m.nrows) := rfl

/-- `Matrix::solve` never routes: it is always `lu` followed by `lu_solve`. -/
theorem matrix_solve_is_lu (m : Mat α) (b : List α) :
    M.solveV m b = (M.lu m).bind fun fp => M.luSolveV fp.1 fp.2 b := by
  simp only [M.solveV, Option.bind_eq_bind]

end routing



/-! ### 2. every column of `solve_sys` is the single-right-hand-side solve of that column -/
section cols
variable {α : Type} [Add α] [Sub α] [Mul α] [Div α] [Zero α] [One α] [NatCast α]
  [LT α] [DecidableLT α] [LE α] [DecidableLE α] [BEq α] [Transc α]

/-- column `c` of a row-major `n × nsys` array -/
def column (b : List α) (n nsys c : Nat) : List α := (List.range n).map fun i => rd b (i * nsys + c)

theorem drop_take_eq_map_rd (l : List α) (m n : Nat) (h : m + n ≤ l.length) :
    (l.drop m).take n = (List.range n).map fun i => rd l (m + i) := by
  apply List.ext_getElem
  · simp; omega
  · intro i h1 h2
    have hi : i < n := by simpa using h2
    simp only [List.getElem_take, List.getElem_drop, List.getElem_map, List.getElem_range]
    rw [rd_eq_getElem _ _ (by omega)]

theorem solveCols_spec (n : Nat) (solver : List α → Option (List α)) (bc : List α) :
    ∀ k sols, solveCols n solver bc k = some sols →
      sols.length = k * n ∧ ∀ c, c < k → solver ((bc.drop (c * n)).take n) = some ((sols.drop (c * n)).take n) := by
  intro k
  induction k with
  | zero =>
    intro sols h
    simp only [solveCols, Option.some.injEq] at h
    subst h
    exact ⟨by simp, fun c hc => by omega⟩
  | succ k ih =>
    intro sols h
    simp only [solveCols, Option.bind_eq_bind] at h
    cases hacc : solveCols n solver bc k with
    | none => simp [hacc] at h
    | some acc =>
      cases hsol : solver ((bc.drop (k * n)).take n) with
      | none => simp [hacc, hsol] at h
      | some sol =>
        simp only [hacc, hsol, Option.bind_some] at h
        by_cases hlen : sol.length = n
        · simp only [hlen, ne_eq, not_true_eq_false, if_false, Option.pure_def, Option.some.injEq] at h
          subst h
          obtain ⟨hal, hcols⟩ := ih acc hacc
          refine ⟨by simp [hal, hlen, Nat.add_mul], ?_⟩
          intro c hc
          by_cases hck : c < k
          · rw [hcols c hck]
            have h1 : c * n + n ≤ acc.length := by
              rw [hal]
              have : (c + 1) * n ≤ k * n := Nat.mul_le_mul_right n hck
              rw [Nat.add_mul] at this; omega
            rw [List.drop_append_of_le_length (by omega), List.take_append_of_le_length (by simp; omega)]
          · have : c = k := by omega
            subst this
            rw [hsol]
            have : (acc ++ sol).drop (c * n) = sol := by
              rw [← hal]; exact List.drop_left
            rw [this, List.take_of_length_le (by omega)]
        · simp [hlen] at h

/-- **Multi-RHS = single-RHS, column by column, one route for all columns.**  If `solve_sys a b`
returns `x`, then `a` is `n × n`, `b` is `n × nsys`, the route (`some l` Cholesky / `none` LU) is
chosen once, and for every column `c` the entries `x[·,c]` are exactly what the single-RHS solver
with that route — and hence `solve a b[·,c]` itself — returns. -/
theorem solveSys_column (a b x : List α) (h : solveSys a b = some x) :
    ∃ n nsys l?, n * n = a.length ∧ n ≠ 0 ∧ n * nsys = b.length ∧ route a = some l? ∧
      x.length = b.length ∧
      ∀ c, c < nsys → solveWith a l? (column b n nsys c) = some (column x n nsys c) ∧
        solve a (column b n nsys c) = some (column x n nsys c) := by
  unfold solveSys at h
  simp only [Option.bind_eq_bind] at h
  cases hsq : isSquare a.length with
  | none => simp [hsq] at h
  | some n =>
  cases hmat : isMatrix b.length n with
  | none => simp [hsq, hmat] at h
  | some nsys =>
  cases hbc : rowToColMajor b n with
  | none => simp [hsq, hmat, hbc] at h
  | some bc =>
  cases hroute : route a with
  | none => simp [hsq, hroute] at h
  | some l? =>
  simp only [hsq, hmat, hbc, hroute, Option.bind_some] at h
  obtain ⟨hn0, hnb⟩ := isMatrix_eq_some_iff.mp hmat
  have hnn := isSquare_some hsq
  -- the column loop with the solver of the chosen route
  have key : ∃ sols, solveCols n (solveWith a l?) bc nsys = some sols ∧ colToRowMajor sols n = some x := by
    cases l? with
    | some l =>
      cases hs : solveCols n (choleskySolve l) bc nsys with
      | none => simp [hs] at h
      | some sols => exact ⟨sols, hs, by simpa [hs] using h⟩
    | none =>
      cases hlu : lu a with
      | none => simp [hlu] at h
      | some fp =>
        have hsolver : solveWith a none = luSolve fp.1 fp.2 := by
          funext bb; simp [solveWith, hlu]
        rw [hsolver]
        cases hs : solveCols n (luSolve fp.1 fp.2) bc nsys with
        | none => simp [hlu, hs] at h
        | some sols => exact ⟨sols, rfl, by simpa [hlu, hs] using h⟩
  obtain ⟨sols, hsols, hx⟩ := key
  obtain ⟨hslen, hcols⟩ := solveCols_spec n _ bc nsys sols hsols
  have hslen' : n * nsys = sols.length := by rw [hslen, Nat.mul_comm]
  have hbclen : bc.length = b.length := by
    have := hbc
    simp only [rowToColMajor, hmat, Option.bind_eq_bind, Option.bind_some, Option.pure_def, Option.some.injEq] at this
    subst this; simp
  have hxlen : x.length = sols.length := by
    have := hx
    have hm2 : isMatrix sols.length n = some nsys := isMatrix_eq_some_iff.mpr ⟨hn0, hslen'⟩
    simp only [colToRowMajor, hm2, Option.bind_eq_bind, Option.bind_some, Option.pure_def, Option.some.injEq] at this
    subst this; simp
  refine ⟨n, nsys, l?, hnn, hn0, hnb, rfl, by rw [hxlen, ← hslen', hnb], ?_⟩
  intro c hc
  have hseg : c * n + n ≤ n * nsys := by
    have : (c + 1) * n ≤ nsys * n := Nat.mul_le_mul_right n hc
    rw [Nat.add_mul, Nat.mul_comm nsys n] at this; omega
  have hcolb : (bc.drop (c * n)).take n = column b n nsys c := by
    rw [drop_take_eq_map_rd _ _ _ (by rw [hbclen, ← hnb]; exact hseg)]
    apply List.map_congr_left
    intro i hi
    exact (rowToCol_entry b bc n nsys hn0 hnb hbc i c (List.mem_range.mp hi) hc).2
  have hcolx : (sols.drop (c * n)).take n = column x n nsys c := by
    rw [drop_take_eq_map_rd _ _ _ (by rw [← hslen']; exact hseg)]
    apply List.map_congr_left
    intro i hi
    exact ((colToRow_entry sols x n nsys hn0 hslen' hx i c (List.mem_range.mp hi) hc).2).symm
  have hmain : solveWith a l? (column b n nsys c) = some (column x n nsys c) := by
    rw [← hcolb, ← hcolx]; exact hcols c hc
  refine ⟨hmain, ?_⟩
  have hcl : (column b n nsys c).length = n := by simp [column]
  simp only [solve, hcl, hnn, ne_eq, not_true_eq_false, if_false, hroute, Option.bind_eq_bind, Option.bind_some]
  exact hmain

-- non-vacuity: a 2×2 system with two right-hand sides over ℚ
example : solveSys ([2, 1, 0, 3] : List ℚ) [5, 3, 9, 3] = some [1, 1, 3, 1] := by decide +kernel

end cols

/-! ### 3b. the routing predicate, characterised -/
section pd
variable {F : Type} [Field F] [LinearOrder F] [IsStrictOrderedRing F] [Transc F]

theorem isSymmetric_iff (habs : ∀ x : F, Transc.abs x = |x|) (a : List F) (n : Nat) (hl : a.length = n * n) :
    ∃ s, isSymmetric a = some s ∧
      (s = true ↔ ∀ i j, i < n → j < n → |rd a (i * n + j) - rd a (j * n + i)| ≤ (eps : F)) := by
  refine ⟨_, by simp only [isSymmetric, hl, isSquare_sq, Option.bind_eq_bind, Option.bind_some, Option.pure_def]; rfl, ?_⟩
  simp only [List.all_eq_true, List.mem_range, List.mem_range'_1, Bool.not_eq_true', decide_eq_false_iff_not,
    not_lt, habs]
  constructor
  · intro h i j hi hj
    rcases Nat.le_total i j with hij | hij
    · exact h i hi j ⟨hij, by omega⟩
    · rw [abs_sub_comm]; exact h j hj i ⟨hij, by omega⟩
  · intro h i hi j hj
    exact h i j hi (by omega)

/-- `is_positive_definite` never panics on a square array and holds exactly when the matrix is
symmetric up to the absolute tolerance `ε = 2⁻⁵²` and every diagonal entry is positive. -/
theorem isPositiveDefinite_iff (habs : ∀ x : F, Transc.abs x = |x|) (a : List F) (n : Nat)
    (hl : a.length = n * n) :
    ∃ p, isPositiveDefinite a = some p ∧
      (p = true ↔ (∀ i j, i < n → j < n → |rd a (i * n + j) - rd a (j * n + i)| ≤ (eps : F)) ∧
        ∀ i, i < n → 0 < rd a (i * n + i)) := by
  obtain ⟨s, hs, hsi⟩ := isSymmetric_iff habs a n hl
  cases s with
  | false =>
    refine ⟨false, by simp [isPositiveDefinite, hs], ?_⟩
    simp only [Bool.false_eq_true, false_iff, not_and]
    intro h; exact absurd (hsi.mpr h) (by simp)
  | true =>
    refine ⟨_, by simp only [isPositiveDefinite, hs, hl, isSquare_sq, Option.bind_eq_bind, Option.bind_some,
      Bool.not_true, Bool.false_eq_true, if_false, Option.pure_def]; rfl, ?_⟩
    simp only [List.all_eq_true, List.mem_range, Bool.not_eq_true', decide_eq_false_iff_not, not_le]
    exact ⟨fun h => ⟨hsi.mp rfl, h⟩, fun h => h.2⟩

/-- non-square input panics (`is_square(m).unwrap()`) -/
theorem isPositiveDefinite_nonsquare (a : List F) (h : ∀ n, n * n ≠ a.length) : isPositiveDefinite a = none := by
  have : isSquare a.length = none := by
    cases hs : isSquare a.length with
    | none => rfl
    | some n => exact absurd (isSquare_some hs) (h n)
  simp [isPositiveDefinite, isSymmetric, this]

end pd

/-! ### 4. triangular solves -/
section tri
variable {F : Type} [Field F]

/-- forward substitution solves `L·x = b` (reading only the lower triangle) -/
theorem forwardSubstitution_spec (l b x : List F) (n : Nat) (hl : l.length = n * n)
    (hd : ∀ i, i < n → rd l (i * n + i) ≠ 0) (h : forwardSubstitution l b = some x) :
    b.length = n ∧ x.length = n ∧ ∀ i, i < n →
      ((List.range (i + 1)).map fun j => rd l (i * n + j) * rd x j).sum = rd b i :=
  LA.forwardSubstitution_spec l b x n hl hd h

/-- backward substitution solves `U·x = b` (reading only the upper triangle) -/
theorem backwardSubstitution_spec (u b x : List F) (n : Nat) (hl : u.length = n * n)
    (hd : ∀ i, i < n → rd u (i * n + i) ≠ 0) (h : backwardSubstitution u b = some x) :
    b.length = n ∧ x.length = n ∧ ∀ i, i < n →
      ((List.range (n - i)).map fun t => rd u (i * n + i + t) * rd x (i + t)).sum = rd b i :=
  LA.backwardSubstitution_spec u b x n hl hd h

theorem substitution_length_mismatch (t b : List F) (n : Nat) (hl : t.length = n * n) (hb : b.length ≠ n) :
    forwardSubstitution t b = none ∧ backwardSubstitution t b = none :=
  ⟨forwardSubstitution_none t b n hl hb, backwardSubstitution_none t b n hl hb⟩

-- non-vacuity: a 2×2 lower / upper system over ℚ
example : forwardSubstitution ([2, 0, 1, 4] : List ℚ) [2, 9] = some [1, 2] := by decide +kernel
example : backwardSubstitution ([2, 1, 0, 4] : List ℚ) [4, 8] = some [1, 2] := by decide +kernel

end tri

/-! ### 6. the F01 witness -/

/-- On `[[1,2],[2,1]]` the routing predicate holds although the second Cholesky pivot is
`1 − 2² = −3 < 0`: the legacy code took `sqrt(−3)` here (finding F01). -/
theorem legacy_indefinite_witness :
    routePredicate ([1, 2, 2, 1] : List ℚ) = some true ∧
    cholCell 2 ([1, 2, 2, 1] : List ℚ) [1, 0, 2, 0] 1 1 = none ∧
    (rd ([1, 2, 2, 1] : List ℚ) 3 - dot8 [2] [2] : ℚ) = -3 := by
  refine ⟨by decide +kernel, by decide +kernel, by decide +kernel⟩

/-- The repaired code: `try_cholesky` reports `None` and `solve` falls back to LU, returning the
exact solution `(1/3, 1/3)`; likewise `solve_sys` and `invert_matrix`. -/
theorem repaired_indefinite_falls_back :
    tryCholesky ([1, 2, 2, 1] : List ℚ) = some none ∧
    solve ([1, 2, 2, 1] : List ℚ) [1, 1] = some [1 / 3, 1 / 3] ∧
    solveSys ([1, 2, 2, 1] : List ℚ) [1, 1] = some [1 / 3, 1 / 3] ∧
    invertMatrix ([1, 2, 2, 1] : List ℚ) = some [-1 / 3, 2 / 3, 2 / 3, -1 / 3] := by
  refine ⟨by decide +kernel, by decide +kernel, by decide +kernel, by decide +kernel⟩

/-- F37 witness: `[[2,1],[1+2⁻⁵³,2]]` passes the ε-symmetry test and has a positive diagonal, but is
not symmetric; the repaired routing predicate is false, so `solve` takes the LU route and returns
the exact solution of the *given* system (the legacy routing solved the symmetrised one). -/
theorem asymmetric_within_eps_routes_to_lu :
    let d : ℚ := 1 / 9007199254740992
    isPositiveDefinite [2, 1, 1 + d, 2] = some true ∧ routePredicate [2, 1, 1 + d, 2] = some false ∧
    route [2, 1, 1 + d, 2] = some none := by
  refine ⟨by decide +kernel, by decide +kernel, by decide +kernel⟩

end Cv.C01
