import Compute.Model.DistState
import Mathlib.Algebra.Order.Field.Basic
import Mathlib.Tactic.Linarith
/-
C18 — normal forms of the constructors and mutators of `Model/DistState.lean` over a linearly ordered field:
each one is "if the new parameters are in the domain then the fresh record else panic / unchanged".
The nested constructor calls (`Normal::new(0., 1.)`, `Uniform::new(0., 1.)`, `Gamma::new(alpha, 1.)`,
`Gamma::new(dof / 2., 0.5)`) never panic once the outer check has passed.
-/
set_option linter.unusedSectionVars false
namespace Cv.C18
open Cv.DS
variable {α : Type} [Field α] [LinearOrder α] [IsStrictOrderedRing α]

/-- `Normal::new(0., 1.)` -/
def stdNormal : Normal α := ⟨0, 1⟩
/-- `Uniform::new(0., 1.)` -/
def stdUniform : Uniform α := ⟨0, 1⟩
/-- The record `Gamma::new(a, b)` builds. -/
def gammaOf (a b : α) : Gamma α := ⟨a, b, stdNormal, stdUniform⟩
/-- The sampler of a `ChiSquared` with `n` degrees of freedom: `Gamma::new((n as f64) / 2., 0.5)`. -/
def chiSampler (n : Nat) : Gamma α := gammaOf ((n : α) / ((2 : Nat) : α)) ((1 : α) / ((2 : Nat) : α))

theorem Uniform.new_eq (a b : α) : Uniform.new a b = if a ≤ b then some ⟨a, b⟩ else none := by
  unfold Uniform.new
  by_cases h : a ≤ b
  · simp [h, not_lt.mpr h]
  · simp [h, not_le.mp h]

theorem Uniform.new_std : Uniform.new (0 : α) 1 = some stdUniform := by
  simp [Uniform.new_eq, stdUniform]

theorem Normal.new_eq (m s : α) : Normal.new m s = if 0 ≤ s then some ⟨m, s⟩ else none := by
  unfold Normal.new
  by_cases h : 0 ≤ s
  · simp [h, not_lt.mpr h]
  · simp [h, not_le.mp h]

theorem Normal.new_std : Normal.new (0 : α) 1 = some stdNormal := by
  simp [Normal.new_eq, stdNormal]

theorem Gamma.new_eq (a b : α) :
    Gamma.new a b = if 0 < a ∧ 0 < b then some (gammaOf a b) else none := by
  unfold Gamma.new
  rw [Normal.new_std, Uniform.new_std]
  by_cases h : 0 < a ∧ 0 < b
  · have h1 := not_le.mpr h.1
    have h2 := not_le.mpr h.2
    simp [h, h1, h2, gammaOf]
  · have : a ≤ 0 ∨ b ≤ 0 := by
      rcases not_and_or.mp h with h | h
      · exact Or.inl (not_lt.mp h)
      · exact Or.inr (not_lt.mp h)
    simp [h, this]

theorem Gamma.new_one (a : α) : Gamma.new a 1 = if 0 < a then some (gammaOf a 1) else none := by
  simp [Gamma.new_eq]

theorem half_pos' : (0 : α) < (1 : α) / ((2 : Nat) : α) := by
  have : (0 : α) < ((2 : Nat) : α) := by exact_mod_cast (by norm_num : (0 : ℕ) < 2)
  exact div_pos one_pos this

theorem ChiSquared.mkSampler_eq (n : Nat) (h : 0 < n) :
    ChiSquared.mkSampler (α := α) n = some (chiSampler n) := by
  unfold ChiSquared.mkSampler chiSampler
  have h2 : (0 : α) < ((2 : Nat) : α) := by exact_mod_cast (by norm_num : (0 : ℕ) < 2)
  have hn : (0 : α) < (n : α) := by exact_mod_cast h
  have : (0 : α) < (n : α) / ((2 : Nat) : α) := div_pos hn h2
  rw [Gamma.new_eq]
  simp only [this, half_pos', and_self, if_true]

/-! ### constructors -/

theorem Beta.new_eq (a b : α) :
    Beta.new a b = if 0 < a ∧ 0 < b then some ⟨a, b, gammaOf a 1, gammaOf b 1⟩ else none := by
  unfold Beta.new
  by_cases h : 0 < a ∧ 0 < b
  · have h1 := not_le.mpr h.1
    have h2 := not_le.mpr h.2
    simp [h, h1, h2, Gamma.new_one]
  · have : a ≤ 0 ∨ b ≤ 0 := by
      rcases not_and_or.mp h with h | h
      · exact Or.inl (not_lt.mp h)
      · exact Or.inr (not_lt.mp h)
    simp [h, this]

theorem ChiSquared.new_eq (n : Nat) :
    ChiSquared.new (α := α) n = if 0 < n then some ⟨n, chiSampler n⟩ else none := by
  unfold ChiSquared.new
  by_cases h : 0 < n
  · simp [h, ChiSquared.mkSampler_eq]
  · simp [h]

theorem Exponential.new_eq (l : α) :
    Exponential.new l = if 0 < l then some ⟨l, stdUniform⟩ else none := by
  unfold Exponential.new
  rw [Uniform.new_std]
  by_cases h : 0 < l
  · simp [h, not_le.mpr h]
  · simp [h, not_lt.mp h]

theorem Gumbel.new_eq (m b : α) :
    Gumbel.new m b = if 0 < b then some ⟨m, b, stdUniform⟩ else none := by
  unfold Gumbel.new
  rw [Uniform.new_std]
  by_cases h : 0 < b
  · simp [h, not_le.mpr h]
  · simp [h, not_lt.mp h]

theorem Pareto.new_eq (a m : α) :
    Pareto.new a m = if 0 < a ∧ 0 < m then some ⟨a, m⟩ else none := by
  unfold Pareto.new
  by_cases h : 0 < a ∧ 0 < m
  · have h1 := not_le.mpr h.1
    have h2 := not_le.mpr h.2
    simp [h, h1, h2]
  · have : a ≤ 0 ∨ m ≤ 0 := by
      rcases not_and_or.mp h with h | h
      · exact Or.inl (not_lt.mp h)
      · exact Or.inr (not_lt.mp h)
    simp [h, this]

theorem Poisson.new_eq (l : α) : Poisson.new l = if 0 < l then some ⟨l⟩ else none := by
  unfold Poisson.new
  by_cases h : 0 < l
  · simp [h, not_le.mpr h]
  · simp [h, not_lt.mp h]

theorem T.new_eq (x : α) : T.new x = if 0 < x then some ⟨x⟩ else none := by
  unfold T.new
  rfl

theorem DiscreteUniform.new_eq (a b : Int) :
    DiscreteUniform.new a b = if a ≤ b then some ⟨a, b⟩ else none := by
  unfold DiscreteUniform.new
  by_cases h : a ≤ b
  · simp [h, not_lt.mpr h]
  · simp [h, not_le.mp h]

/-! ### setters -/

theorem Uniform.setLower_eq (d : Uniform α) (x : α) :
    d.setLower x = if x ≤ d.upper then (⟨x, d.upper⟩, false) else (d, true) := by
  unfold Uniform.setLower
  by_cases h : x ≤ d.upper
  · simp [h, not_lt.mpr h]
  · simp [h, not_le.mp h]

theorem Uniform.setUpper_eq (d : Uniform α) (x : α) :
    d.setUpper x = if d.lower ≤ x then (⟨d.lower, x⟩, false) else (d, true) := by
  unfold Uniform.setUpper
  by_cases h : d.lower ≤ x
  · simp [h, not_lt.mpr h]
  · simp [h, not_le.mp h]

theorem DiscreteUniform.setLower_eq (d : DiscreteUniform) (x : Int) :
    d.setLower x = if x ≤ d.upper then (⟨x, d.upper⟩, false) else (d, true) := by
  unfold DiscreteUniform.setLower
  by_cases h : x ≤ d.upper
  · simp [h, not_lt.mpr h]
  · simp [h, not_le.mp h]

theorem DiscreteUniform.setUpper_eq (d : DiscreteUniform) (x : Int) :
    d.setUpper x = if d.lower ≤ x then (⟨d.lower, x⟩, false) else (d, true) := by
  unfold DiscreteUniform.setUpper
  by_cases h : d.lower ≤ x
  · simp [h, not_lt.mpr h]
  · simp [h, not_le.mp h]

theorem Normal.setSigma_eq (d : Normal α) (x : α) :
    d.setSigma x = if 0 ≤ x then (⟨d.mu, x⟩, false) else (d, true) := by
  unfold Normal.setSigma
  by_cases h : 0 ≤ x
  · simp [h, not_lt.mpr h]
  · simp [h, not_le.mp h]

theorem Gamma.setAlpha_eq (d : Gamma α) (x : α) :
    d.setAlpha x = if 0 < x then ({ d with alpha := x }, false) else (d, true) := by
  unfold Gamma.setAlpha
  by_cases h : 0 < x
  · simp [h, not_le.mpr h]
  · simp [h, not_lt.mp h]

theorem Gamma.setBeta_eq (d : Gamma α) (x : α) :
    d.setBeta x = if 0 < x then ({ d with beta := x }, false) else (d, true) := by
  unfold Gamma.setBeta
  by_cases h : 0 < x
  · simp [h, not_le.mpr h]
  · simp [h, not_lt.mp h]

theorem Beta.setAlpha_eq (d : Beta α) (x : α) :
    d.setAlpha x = if 0 < x then ({ d with alpha := x, alpha_gen := gammaOf x 1 }, false) else (d, true) := by
  unfold Beta.setAlpha
  by_cases h : 0 < x
  · simp [h, not_le.mpr h, Gamma.new_one]
  · simp [h, not_lt.mp h]

theorem Beta.setBeta_eq (d : Beta α) (x : α) :
    d.setBeta x = if 0 < x then ({ d with beta := x, beta_gen := gammaOf x 1 }, false) else (d, true) := by
  unfold Beta.setBeta
  by_cases h : 0 < x
  · simp [h, not_le.mpr h, Gamma.new_one]
  · simp [h, not_lt.mp h]

theorem ChiSquared.setDof_eq (d : ChiSquared α) (n : Nat) :
    d.setDof n = if 0 < n then (⟨n, chiSampler n⟩, false) else (d, true) := by
  unfold ChiSquared.setDof
  by_cases h : 0 < n
  · simp [h, ChiSquared.mkSampler_eq]
  · simp [h]

theorem Exponential.setLambda_eq (d : Exponential α) (x : α) :
    d.setLambda x = if 0 < x then ({ d with lambda := x }, false) else (d, true) := by
  unfold Exponential.setLambda
  by_cases h : 0 < x
  · simp [h, not_le.mpr h]
  · simp [h, not_lt.mp h]

theorem Gumbel.setBeta_eq (d : Gumbel α) (x : α) :
    d.setBeta x = if 0 < x then ({ d with beta := x }, false) else (d, true) := by
  unfold Gumbel.setBeta
  by_cases h : 0 < x
  · simp [h, not_le.mpr h]
  · simp [h, not_lt.mp h]

theorem Pareto.setAlpha_eq (d : Pareto α) (x : α) :
    d.setAlpha x = if 0 < x then ({ d with alpha := x }, false) else (d, true) := by
  unfold Pareto.setAlpha
  by_cases h : 0 < x
  · simp [h, not_le.mpr h]
  · simp [h, not_lt.mp h]

theorem Pareto.setMinval_eq (d : Pareto α) (x : α) :
    d.setMinval x = if 0 < x then ({ d with minval := x }, false) else (d, true) := by
  unfold Pareto.setMinval
  by_cases h : 0 < x
  · simp [h, not_le.mpr h]
  · simp [h, not_lt.mp h]

theorem Poisson.setLambda_eq (d : Poisson α) (x : α) :
    d.setLambda x = if 0 < x then (⟨x⟩, false) else (d, true) := by
  unfold Poisson.setLambda
  by_cases h : 0 < x
  · simp [h, not_le.mpr h]
  · simp [h, not_lt.mp h]

theorem T.setDof_eq (d : T α) (x : α) :
    d.setDof x = if 0 < x then (⟨x⟩, false) else (d, true) := by
  unfold T.setDof
  rfl

end Cv.C18
