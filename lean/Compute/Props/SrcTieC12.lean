import Compute.Model.Broadcast
import Compute.Generated.SrcC12
/-
Source tie for C12: the broadcast classifier `calc_broadcast_shape` of `src/linalg/array/broadcast.rs`.

`Compute/Generated/SrcC12.lean` is regenerated from the Rust source on every run (`tools/rs2lean.py`, option `mut`:
decision trees returning tuples of enum values, with `assert!`s).  The Rust function is recursive — on operands none of
whose first shape contains a 1 it calls itself on the swapped operands and swaps the two results — so the generated
definition is the FUNCTIONAL of that recursion: the recursive call is its first parameter `rec`.

The hand model `Cv.calcBroadcastShape` (Model/Broadcast.lean) is NOT syntactically the source: it unfolds the recursion
once (`calcBroadcastCore` is the part of the tree below "the first operand has a 1 in its shape", used for both orders) and
writes each `assert!(a || b || c)` as `if ¬ (a ∨ b ∨ c) then none`.  What is proved (pure `Nat` / propositional case analysis):
* `calcBroadcastShape_eq`: unfolding the source's recursion TWICE, with ANY function `R` at the third level, is the model:
  the recursive call is only reached with a first operand whose shape contains a 1 and differs from the other shape, and on
  such operands the function does not recurse — the third level is dead code, so this determines the Rust function;
* `calcBroadcastShape_fix`: the model satisfies the source's recursive equation (it is a fixed point of the functional);
* `calcBroadcastCore_eq`: below the test "`m1.shape()` contains a 1" (and the shapes differ) the source is the model's core.
-/
namespace Cv.SrcTie.C12

open Cv

/-- Below `m1.shape().contains(&1)` (shapes different) the source does not recurse and is the model's `calcBroadcastCore`. -/
theorem calcBroadcastCore_eq (R : Nat → Nat → Nat → Nat → Option (Bc × Bc)) (r1 c1 r2 c2 : Nat)
    (hne : ¬ (r1 = r2 ∧ c1 = c2)) (h1 : r1 = 1 ∨ c1 = 1) :
    Cv.Src.C12.calcBroadcastShape R r1 c1 r2 c2 = calcBroadcastCore r1 c1 r2 c2 := by
  unfold Cv.Src.C12.calcBroadcastShape calcBroadcastCore
  by_cases a1 : r1 = r2 <;> by_cases a2 : c1 = c2 <;> by_cases a3 : r1 = 1 <;> by_cases a4 : c1 = 1 <;>
    by_cases a5 : r2 = 1 <;> by_cases a6 : c2 = 1 <;> simp_all

/-- When neither test on `m1` succeeds the source swaps the operands, recurses, and swaps the results. -/
theorem swap_branch (R : Nat → Nat → Nat → Nat → Option (Bc × Bc)) (r1 c1 r2 c2 : Nat)
    (hne : ¬ (r1 = r2 ∧ c1 = c2)) (h1 : ¬ (r1 = 1 ∨ c1 = 1)) :
    Cv.Src.C12.calcBroadcastShape R r1 c1 r2 c2 =
      if r2 = 1 ∨ c2 = 1 then (R r2 c2 r1 c1).bind fun r => some (r.2, r.1) else some (Bc.invalid, Bc.invalid) := by
  unfold Cv.Src.C12.calcBroadcastShape
  rw [if_neg hne, if_neg h1]

/-- Two unfoldings of the source's recursion are the model, whatever the third level does. -/
theorem calcBroadcastShape_eq (R : Nat → Nat → Nat → Nat → Option (Bc × Bc)) (r1 c1 r2 c2 : Nat) :
    Cv.Src.C12.calcBroadcastShape (Cv.Src.C12.calcBroadcastShape R) r1 c1 r2 c2 = calcBroadcastShape r1 c1 r2 c2 := by
  by_cases h0 : r1 = r2 ∧ c1 = c2
  · unfold Cv.Src.C12.calcBroadcastShape calcBroadcastShape
    rw [if_pos h0, if_pos h0]
  · by_cases h1 : r1 = 1 ∨ c1 = 1
    · rw [calcBroadcastCore_eq _ _ _ _ _ h0 h1]
      unfold calcBroadcastShape
      rw [if_neg h0, if_pos h1]
    · unfold calcBroadcastShape
      rw [if_neg h0, if_neg h1, swap_branch _ _ _ _ _ h0 h1]
      by_cases h2 : r2 = 1 ∨ c2 = 1
      · rw [if_pos h2, if_pos h2]
        have h0' : ¬ (r2 = r1 ∧ c2 = c1) := fun h => h0 ⟨h.1.symm, h.2.symm⟩
        rw [calcBroadcastCore_eq R _ _ _ _ h0' h2]
        cases calcBroadcastCore r2 c2 r1 c1 with
        | none => rfl
        | some p => rfl
      · rw [if_neg h2, if_neg h2]

/-- The model is a fixed point of the source's recursive equation. -/
theorem calcBroadcastShape_fix (r1 c1 r2 c2 : Nat) :
    Cv.Src.C12.calcBroadcastShape calcBroadcastShape r1 c1 r2 c2 = calcBroadcastShape r1 c1 r2 c2 := by
  by_cases h0 : r1 = r2 ∧ c1 = c2
  · unfold Cv.Src.C12.calcBroadcastShape calcBroadcastShape
    rw [if_pos h0, if_pos h0]
  · by_cases h1 : r1 = 1 ∨ c1 = 1
    · rw [calcBroadcastCore_eq _ _ _ _ _ h0 h1]
      unfold calcBroadcastShape
      rw [if_neg h0, if_pos h1]
    · rw [swap_branch _ _ _ _ _ h0 h1]
      have h0' : ¬ (r2 = r1 ∧ c2 = c1) := fun h => h0 ⟨h.1.symm, h.2.symm⟩
      by_cases h2 : r2 = 1 ∨ c2 = 1
      · rw [if_pos h2]
        unfold calcBroadcastShape
        rw [if_neg h0', if_pos h2, if_neg h0, if_neg h1, if_pos h2]
        cases calcBroadcastCore r2 c2 r1 c1 with
        | none => rfl
        | some p => rfl
      · rw [if_neg h2]
        unfold calcBroadcastShape
        rw [if_neg h0, if_neg h1, if_neg h2]

end Cv.SrcTie.C12
