import Compute.Model.Resample
import Compute.Generated.SrcC19Mut
import Compute.Lemmas.SrcMut
/-
Source tie for C19, third pass: `jackknife` of `src/validation/resample.rs` as a whole function
(`Compute/Generated/SrcC19Mut.lean`, regenerated from the Rust source on every run by `tools/rs2lean.py`, option `mut`).

The hand model `Cv.Resample.jackknife` is NOT syntactically the source: it is polymorphic in the element type, maps
`leaveOut data` over the index range and sequences the `Option`s, where `leaveOut` keeps the panic of
`back.split_first().unwrap()` on an empty `back` as `none`.  The generated definition follows the loop of the source
(`split_at`, `split_first().unwrap()` as `(back[0]!, back.tail)`, `to_vec`, `extend_from_slice`, `push`) and does not model that
panic.  `jackknife_eq` proves: the model never panics and its value is the generated function's value — in particular the
`unwrap` cannot fail (`i < data.len()`), which is why leaving it unmodelled on the generated side loses nothing.
Only list lemmas are used.
-/
set_option linter.unusedSectionVars false
namespace Cv.SrcTie.C19Mut

variable {α : Type} [Add α] [Sub α] [Mul α] [Div α] [Neg α] [Zero α] [One α] [NatCast α] [IntCast α]
  [LT α] [DecidableLT α] [LE α] [DecidableLE α] [BEq α] [Cv.Transc α] [Inhabited α]

open Cv.Resample

theorem seqOpt_map_some {β γ : Type} (f : γ → β) (l : List γ) :
    seqOpt (l.map fun i => some (f i)) = some (l.map f) := by
  induction l with
  | nil => rfl
  | cons a t ih => simp only [List.map_cons, seqOpt, ih, Option.bind_some, Option.map_some]

/-- For an index in range, `leaveOut` does not panic and is `take i ++ tail (drop i)`. -/
theorem leaveOut_lt {β : Type} (data : List β) (i : Nat) (h : i < data.length) :
    leaveOut data i = some (data.take i ++ (data.drop i).tail) := by
  unfold leaveOut
  rw [List.drop_eq_getElem_cons h]
  rfl

/-- `jackknife(data)`: the model (with the `unwrap` panic kept) never panics and returns the generated function's value. -/
theorem jackknife_eq (data : List α) :
    Cv.Resample.jackknife data = some (Cv.Src.C19Mut.jackknife data) := by
  unfold Cv.Resample.jackknife Cv.Src.C19Mut.jackknife
  have h : (List.range data.length).map (leaveOut data) =
      (List.range data.length).map (fun i => some (data.take i ++ (data.drop i).tail)) := by
    apply List.map_congr_left
    intro i hi
    exact leaveOut_lt data i (List.mem_range.mp hi)
  rw [h, seqOpt_map_some]
  show _ = some (List.foldl (fun acc i => acc ++ [data.take i ++ (data.drop i).tail]) [] (List.range data.length))
  rw [Cv.SrcMut.foldl_push_map (fun i => data.take i ++ (data.drop i).tail)]
  rfl

end Cv.SrcTie.C19Mut
