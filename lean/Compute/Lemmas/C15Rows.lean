import Compute.Lemmas.C15Wf
/-
C15 helper lemmas, part 2 (core Lean only): the row view `rows m` of a matrix, its relation to the flat
data and to `Mat.get`, and the row views of the results of the structural operations.
-/
namespace Cv.Shape
open Cv Cv.Mat
variable {α : Type}

theorem length_flatten_of_forall {c : Nat} : ∀ (R : List (List α)), (∀ r ∈ R, r.length = c) → R.flatten.length = R.length * c
  | [], _ => by simp
  | r0 :: R, h => by
    have h0 : r0.length = c := h r0 (by simp)
    have ih := length_flatten_of_forall R (fun r hr => h r (by simp [hr]))
    simp only [List.flatten_cons, List.length_append, List.length_cons, ih, h0, Nat.add_mul, Nat.one_mul]
    omega

@[simp] theorem rows_length (m : Mat α) : (rows m).length = m.nrows := by simp [rows]

theorem row_length {m : Mat α} (hm : m.WF) {i : Nat} (hi : i < m.nrows) : (row m i).length = m.ncols := by
  unfold row WF at *
  have : (i + 1) * m.ncols ≤ m.nrows * m.ncols := Nat.mul_le_mul_right _ hi
  rw [Nat.add_mul] at this
  simp only [List.length_take, List.length_drop, hm]
  omega

theorem rows_succ (d : List α) (r c : Nat) :
    rows ⟨d, r + 1, c⟩ = d.take c :: rows ⟨d.drop c, r, c⟩ := by
  simp only [rows, List.range_succ_eq_map, List.map_cons, List.map_map]
  congr 1
  · simp [row]
  · apply List.map_congr_left
    intro i _
    simp only [Function.comp, row, List.drop_drop]
    congr 2
    rw [Nat.succ_mul]; omega

/-- A list of `c`-long rows is the row view of its own flattening. -/
theorem rows_of_flatten {c : Nat} : ∀ (R : List (List α)), (∀ r ∈ R, r.length = c) →
    rows ⟨R.flatten, R.length, c⟩ = R
  | [], _ => by simp [rows]
  | r0 :: R, h => by
    have h0 : r0.length = c := h r0 (by simp)
    have ih := rows_of_flatten R (fun r hr => h r (by simp [hr]))
    rw [List.length_cons, rows_succ, List.flatten_cons]
    rw [List.take_left' h0, List.drop_left' h0, ih]

/-- Flattening the row view gives back the flat data. -/
theorem rows_flatten_aux (c : Nat) : ∀ (r : Nat) (d : List α), d.length = r * c → (rows ⟨d, r, c⟩).flatten = d
  | 0, d, h => by
    have : d = [] := List.eq_nil_of_length_eq_zero (by simpa using h)
    simp [rows, this]
  | r + 1, d, h => by
    rw [rows_succ, List.flatten_cons, rows_flatten_aux c r (d.drop c)]
    · exact List.take_append_drop c d
    · rw [List.length_drop, h, Nat.succ_mul]; omega

theorem rows_flatten {m : Mat α} (hm : m.WF) : (rows m).flatten = m.data :=
  rows_flatten_aux m.ncols m.nrows m.data hm

theorem rows_row_length {m : Mat α} (hm : m.WF) : ∀ r ∈ rows m, r.length = m.ncols := by
  intro r hr
  simp only [rows, List.mem_map, List.mem_range] at hr
  obtain ⟨i, hi, rfl⟩ := hr
  exact row_length hm hi

/-- Two well-formed matrices with the same shape and the same rows are equal. -/
theorem eq_of_rows_eq {m m' : Mat α} (hm : m.WF) (hm' : m'.WF) (hr : m.nrows = m'.nrows) (hc : m.ncols = m'.ncols)
    (h : rows m = rows m') : m = m' := by
  have : m.data = m'.data := by rw [← rows_flatten hm, ← rows_flatten hm', h]
  cases m; cases m'; simp_all

theorem get_mk [Inhabited α] (d : List α) (r c i j : Nat) (h : i * c + j < d.length) :
    (Mat.mk d r c).get i j = d[i * c + j] := getBang h

theorem row_getElem [Inhabited α] {m : Mat α} (hm : m.WF) {i j : Nat} (hi : i < m.nrows) (hj : j < m.ncols) :
    (row m i)[j]! = m.get i j := by
  have hl := row_length hm hi
  have hk : i * m.ncols + j < m.data.length := by rw [hm]; exact idx_lt hi hj
  rw [getBang (by omega), Mat.get, getBang hk]
  simp [row, List.getElem_take, List.getElem_drop]

theorem row_eq_map [Inhabited α] {m : Mat α} (hm : m.WF) {i : Nat} (hi : i < m.nrows) :
    row m i = (List.range m.ncols).map fun j => m.get i j := by
  apply List.ext_getElem
  · simp [row_length hm hi]
  · intro j h1 h2
    have hj : j < m.ncols := by simpa [row_length hm hi] using h1
    rw [← getBang h1, row_getElem hm hi hj]
    simp

/-- The row view in terms of `Mat.get`. -/
theorem rows_eq_get [Inhabited α] {m : Mat α} (hm : m.WF) :
    rows m = (List.range m.nrows).map fun i => (List.range m.ncols).map fun j => m.get i j := by
  unfold rows
  apply List.map_congr_left
  intro i hi
  exact row_eq_map hm (List.mem_range.mp hi)

theorem rows_getElem [Inhabited α] {m : Mat α} (hm : m.WF) {i j : Nat} (hi : i < m.nrows) (hj : j < m.ncols) :
    (rows m)[i]![j]! = m.get i j := by
  have : (rows m)[i]! = row m i := by
    rw [getBang (by simpa using hi)]; simp [rows]
  rw [this, row_getElem hm hi hj]

/-- The row view of a matrix built entry by entry. -/
theorem rows_build [Inhabited α] (r c : Nat) (f : Nat → Nat → α) :
    rows (build r c f) = (List.range r).map fun i => (List.range c).map fun j => f i j := by
  rw [rows_eq_get (build_wf r c f)]
  simp only [build_nrows, build_ncols]
  apply List.map_congr_left
  intro i hi
  apply List.map_congr_left
  intro j hj
  exact build_get f (List.mem_range.mp hi) (List.mem_range.mp hj)

theorem mk_build_data (r c : Nat) (f : Nat → Nat → α) : (Mat.mk (build r c f).data r c) = build r c f := rfl

/-! ### `is_matrix` -/

theorem isMatrixU_some {len nrows ncols : Nat} (h : isMatrixU len nrows = some ncols) :
    0 < nrows ∧ nrows * ncols = len := by
  unfold isMatrixU isMatrix at h
  by_cases h0 : nrows = 0
  · simp [h0] at h
  · by_cases h1 : nrows * (len / nrows) = len
    · simp [h0, h1] at h; subst h; exact ⟨Nat.pos_of_ne_zero h0, h1⟩
    · simp [h0, h1] at h

theorem isMatrixU_of_mul {r c : Nat} (hr : 0 < r) : isMatrixU (r * c) r = some c := by
  unfold isMatrixU isMatrix
  have h0 : ¬ r = 0 := by omega
  have : r * c / r = c := Nat.mul_div_cancel_left c hr
  simp [h0, this]

theorem isMatrixU_wf {m : Mat α} (hm : m.WF) (hr : 0 < m.nrows) : isMatrixU m.data.length m.nrows = some m.ncols := by
  rw [hm]; exact isMatrixU_of_mul hr

theorem isMatrixU_zero (len : Nat) : isMatrixU len 0 = none := by simp [isMatrixU, isMatrix]

/-! ### transposition -/

theorem transposeData_wf [Inhabited α] {m : Mat α} (hm : m.WF) (hr : 0 < m.nrows) :
    transposeData m.data m.nrows = some (build m.ncols m.nrows fun j i => m.get i j).data := by
  unfold transposeData
  rw [isMatrixU_wf hm hr]
  rfl

theorem t_wf [Inhabited α] {m : Mat α} (hm : m.WF) (hr : 0 < m.nrows) :
    t m = some (build m.ncols m.nrows fun j i => m.get i j) := by
  unfold t
  rw [transposeData_wf hm hr, Option.bind_some, mnewN_eq]
  have : m.ncols * m.nrows = (build m.ncols m.nrows fun j i => m.get i j).data.length := (build_wf _ _ _).symm
  rw [if_pos this]
  rfl

theorem tMut_wf [Inhabited α] {m : Mat α} (hm : m.WF) (hr : 0 < m.nrows) :
    tMut m = some (build m.ncols m.nrows fun j i => m.get i j) := by
  unfold tMut
  rw [transposeData_wf hm hr]
  rfl

theorem t_zero_rows [Inhabited α] {m : Mat α} (hr : m.nrows = 0) : t m = none ∧ tMut m = none := by
  simp [t, tMut, transposeData, hr, isMatrixU_zero]

theorem rowToColMajor_wf [Inhabited α] {m : Mat α} (hm : m.WF) (hr : 0 < m.nrows) :
    rowToColMajor m.data m.nrows = some (build m.ncols m.nrows fun j i => m.get i j).data := by
  unfold rowToColMajor
  rw [isMatrixU_wf hm hr]
  have hl : m.data.length = m.nrows * m.ncols := hm
  simp only [Option.map_some, Option.some.injEq, build]
  rw [Nat.mul_comm m.ncols m.nrows, hl]
  apply List.map_congr_left
  intro p _
  rfl

theorem colToRowMajor_wf [Inhabited α] {m : Mat α} (hm : m.WF) (hc : 0 < m.ncols) :
    colToRowMajor m.data m.ncols = some (build m.ncols m.nrows fun j i => m.get i j).data := by
  unfold colToRowMajor
  have h1 : isMatrixU m.data.length m.ncols = some m.nrows := by
    rw [hm, Nat.mul_comm]; exact isMatrixU_of_mul hc
  rw [h1]
  have hl : m.data.length = m.nrows * m.ncols := hm
  simp only [Option.map_some, Option.some.injEq, build]
  rw [Nat.mul_comm m.ncols m.nrows, hl]
  apply List.map_congr_left
  intro p _
  rfl

/-! ### concatenation and repetition -/

theorem flatMap_eq_flatten_map {β : Type} (l : List β) (f : β → List α) : l.flatMap f = (l.map f).flatten := by
  induction l with
  | nil => rfl
  | cons a l ih => simp [List.flatMap_cons, ih]

theorem hcat_wf {m o : Mat α} (hm : m.WF) (ho : o.WF) (hr : m.nrows = o.nrows) :
    ∃ m', hcat m o = some m' ∧ m'.nrows = m.nrows ∧ m'.ncols = m.ncols + o.ncols ∧
      rows m' = (List.range m.nrows).map fun i => row m i ++ row o i := by
  let R := (List.range m.nrows).map fun i => row m i ++ row o i
  have hR : ∀ r ∈ R, r.length = m.ncols + o.ncols := by
    intro r hr'
    simp only [R, List.mem_map, List.mem_range] at hr'
    obtain ⟨i, hi, rfl⟩ := hr'
    rw [List.length_append, row_length hm hi, row_length ho (hr ▸ hi)]
  have hlen : R.length = m.nrows := by simp [R]
  refine ⟨⟨R.flatten, m.nrows, m.ncols + o.ncols⟩, ?_, rfl, rfl, ?_⟩
  · unfold hcat
    rw [if_pos hr, flatMap_eq_flatten_map, mnewN_eq, if_pos]
    rw [length_flatten_of_forall _ hR, hlen]
  · have := rows_of_flatten R hR
    rw [hlen] at this
    exact this

theorem vcat_wf {m o : Mat α} (hm : m.WF) (ho : o.WF) (hc : m.ncols = o.ncols) :
    ∃ m', vcat m o = some m' ∧ m'.nrows = m.nrows + o.nrows ∧ m'.ncols = m.ncols ∧
      rows m' = rows m ++ rows o := by
  let R := rows m ++ rows o
  have hR : ∀ r ∈ R, r.length = m.ncols := by
    intro r hr'
    simp only [R, List.mem_append] at hr'
    rcases hr' with h | h
    · exact rows_row_length hm r h
    · rw [hc]; exact rows_row_length ho r h
  have hlen : R.length = m.nrows + o.nrows := by simp [R]
  have hflat : R.flatten = m.data ++ o.data := by
    simp only [R, List.flatten_append, rows_flatten hm, rows_flatten ho]
  refine ⟨⟨m.data ++ o.data, m.nrows + o.nrows, m.ncols⟩, ?_, rfl, rfl, ?_⟩
  · unfold vcat
    rw [if_pos hc, mnewN_eq, if_pos]
    rw [← hflat, length_flatten_of_forall _ hR, hlen]
  · have := rows_of_flatten R hR
    rw [hlen, hflat] at this
    exact this

theorem hrepeat_wf {m : Mat α} (hm : m.WF) (n : Nat) :
    ∃ m', hrepeat m n = some m' ∧ m'.nrows = m.nrows ∧ m'.ncols = m.ncols * n ∧
      rows m' = (rows m).map fun r => (List.replicate n r).flatten := by
  let R := (List.range m.nrows).map fun i => (List.replicate n (row m i)).flatten
  have hR : ∀ r ∈ R, r.length = m.ncols * n := by
    intro r hr'
    simp only [R, List.mem_map, List.mem_range] at hr'
    obtain ⟨i, hi, rfl⟩ := hr'
    rw [length_flatten_of_forall (c := m.ncols) _ (fun x hx => by rw [List.eq_of_mem_replicate hx]; exact row_length hm hi)]
    rw [List.length_replicate, Nat.mul_comm]
  have hlen : R.length = m.nrows := by simp [R]
  refine ⟨⟨R.flatten, m.nrows, m.ncols * n⟩, ?_, rfl, rfl, ?_⟩
  · unfold hrepeat
    rw [flatMap_eq_flatten_map, mnewN_eq, if_pos]
    rw [length_flatten_of_forall _ hR, hlen]
  · have := rows_of_flatten R hR
    rw [hlen] at this
    rw [this]
    simp [R, rows, List.map_map, Function.comp_def]

theorem flatten_replicate_flatten (n : Nat) (X : List (List α)) :
    (List.replicate n X.flatten).flatten = (List.replicate n X).flatten.flatten := by
  induction n with
  | zero => simp
  | succ n ih => simp [List.replicate_succ, List.flatten_append, ih]

theorem vrepeat_wf {m : Mat α} (hm : m.WF) (n : Nat) :
    ∃ m', vrepeat m n = some m' ∧ m'.nrows = m.nrows * n ∧ m'.ncols = m.ncols ∧
      rows m' = (List.replicate n (rows m)).flatten := by
  let R := (List.replicate n (rows m)).flatten
  have hR : ∀ r ∈ R, r.length = m.ncols := by
    intro r hr'
    simp only [R, List.mem_flatten, List.mem_replicate] at hr'
    obtain ⟨l, ⟨_, rfl⟩, hr''⟩ := hr'
    exact rows_row_length hm r hr''
  have hlen : R.length = m.nrows * n := by
    rw [length_flatten_of_forall (c := m.nrows) _ (fun x hx => by rw [List.eq_of_mem_replicate hx]; simp)]
    rw [List.length_replicate, Nat.mul_comm]
  have hflat : R.flatten = (List.replicate n m.data).flatten := by
    rw [← rows_flatten hm, flatten_replicate_flatten]
  refine ⟨⟨(List.replicate n m.data).flatten, m.nrows * n, m.ncols⟩, ?_, rfl, rfl, ?_⟩
  · unfold vrepeat
    rw [mnewN_eq, if_pos]
    rw [← hflat, length_flatten_of_forall _ hR, hlen]
  · have := rows_of_flatten R hR
    rw [hlen, hflat] at this
    exact this

/-! ### vector → matrix -/

theorem vecToMatrix_eq (v : List α) : vecToMatrix v = some ⟨v, 1, v.length⟩ := by
  simp [vecToMatrix, mnewN_eq]

theorem rows_single (v : List α) : rows ⟨v, 1, v.length⟩ = [v] := by
  simp [rows, row]

end Cv.Shape
