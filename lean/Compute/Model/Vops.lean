import Compute.Model.Scalar
/-
Model of `src/linalg/array/vops.rs`: the eight `makefn_*!` kernel macros, each written exactly as the
source does — a loop over full chunks of 8 positions (the pattern match on eight heads) followed by the
remainder loop `for j in chunks*8..n` (the fall-through case) — generic in the element type and in the
operator / scalar function the macro is instantiated with.  `none` = panic (`assert_eq!` on lengths).
The output buffer of the source (`Vec::with_capacity` + `set_len`, every position written exactly once)
is the returned list.  Core Lean only.
-/
namespace Cv.Vops
variable {α : Type}

/-- `makefn_vops_binary!` after its `assert_eq!(v1.len(), v2.len())`. -/
def vbinGo (op : α → α → α) : List α → List α → List α
  | x0 :: x1 :: x2 :: x3 :: x4 :: x5 :: x6 :: x7 :: xs,
    y0 :: y1 :: y2 :: y3 :: y4 :: y5 :: y6 :: y7 :: ys =>
    op x0 y0 :: op x1 y1 :: op x2 y2 :: op x3 y3 :: op x4 y4 :: op x5 y5 :: op x6 y6 :: op x7 y7 ::
      vbinGo op xs ys
  | xs, ys => List.zipWith op xs ys

/-- `makefn_vops_binary!(name, op)`: `name(v1, v2)`. -/
def vbin (op : α → α → α) (v1 v2 : List α) : Option (List α) :=
  if v1.length = v2.length then some (vbinGo op v1 v2) else none

/-- `makefn_vops_binary_mut!` after its assert: `v1[i] op= v2[i]`; the result is the new `v1`. -/
def vbinMutGo (op : α → α → α) : List α → List α → List α
  | x0 :: x1 :: x2 :: x3 :: x4 :: x5 :: x6 :: x7 :: xs,
    y0 :: y1 :: y2 :: y3 :: y4 :: y5 :: y6 :: y7 :: ys =>
    op x0 y0 :: op x1 y1 :: op x2 y2 :: op x3 y3 :: op x4 y4 :: op x5 y5 :: op x6 y6 :: op x7 y7 ::
      vbinMutGo op xs ys
  | xs, ys => List.zipWith op xs ys

def vbinMut (op : α → α → α) (v1 v2 : List α) : Option (List α) :=
  if v1.length = v2.length then some (vbinMutGo op v1 v2) else none

/-- `makefn_vops_unary!(name, f)`: `v[i] = v1[i].f()`. -/
def vun (f : α → α) : List α → List α
  | x0 :: x1 :: x2 :: x3 :: x4 :: x5 :: x6 :: x7 :: xs =>
    f x0 :: f x1 :: f x2 :: f x3 :: f x4 :: f x5 :: f x6 :: f x7 :: vun f xs
  | xs => xs.map f

/-- `makefn_vops_unary_with_arg_f!(name, f, f64)`: `v[i] = v1[i].f(arg)`. -/
def vunArgF (f : α → α → α) (arg : α) : List α → List α
  | x0 :: x1 :: x2 :: x3 :: x4 :: x5 :: x6 :: x7 :: xs =>
    f x0 arg :: f x1 arg :: f x2 arg :: f x3 arg :: f x4 arg :: f x5 arg :: f x6 arg :: f x7 arg ::
      vunArgF f arg xs
  | xs => xs.map (f · arg)

/-- `makefn_vops_unary_with_arg_i!(name, f, i32)`: inside full chunks the exponents 2 and 3 are
special-cased to `x*x` and `x*x*x`; every other exponent, and every position of the remainder loop
whatever the exponent, calls the scalar method `f(arg)`.  `mul` is the `*` of the source. -/
def vunArgI (mul : α → α → α) (f : α → Int → α) (arg : Int) : List α → List α
  | x0 :: x1 :: x2 :: x3 :: x4 :: x5 :: x6 :: x7 :: xs =>
    (if arg = 2 then
      [mul x0 x0, mul x1 x1, mul x2 x2, mul x3 x3, mul x4 x4, mul x5 x5, mul x6 x6, mul x7 x7]
    else if arg = 3 then
      [mul (mul x0 x0) x0, mul (mul x1 x1) x1, mul (mul x2 x2) x2, mul (mul x3 x3) x3,
       mul (mul x4 x4) x4, mul (mul x5 x5) x5, mul (mul x6 x6) x6, mul (mul x7 x7) x7]
    else
      [f x0 arg, f x1 arg, f x2 arg, f x3 arg, f x4 arg, f x5 arg, f x6 arg, f x7 arg])
    ++ vunArgI mul f arg xs
  | xs => xs.map (f · arg)

/-- `makefn_vsops!(name, op)`: `v[i] = v1[i] op scalar`. -/
def vs (op : α → α → α) (v1 : List α) (s : α) : List α :=
  match v1 with
  | x0 :: x1 :: x2 :: x3 :: x4 :: x5 :: x6 :: x7 :: xs =>
    op x0 s :: op x1 s :: op x2 s :: op x3 s :: op x4 s :: op x5 s :: op x6 s :: op x7 s :: vs op xs s
  | xs => xs.map (op · s)

/-- `makefn_vsops_mut!(name, op=)`: `v1[i] op= scalar`; the result is the new `v1`. -/
def vsMut (op : α → α → α) (v1 : List α) (s : α) : List α :=
  match v1 with
  | x0 :: x1 :: x2 :: x3 :: x4 :: x5 :: x6 :: x7 :: xs =>
    op x0 s :: op x1 s :: op x2 s :: op x3 s :: op x4 s :: op x5 s :: op x6 s :: op x7 s :: vsMut op xs s
  | xs => xs.map (op · s)

/-- `makefn_svops!(name, op)`: `v[i] = scalar op v1[i]`. -/
def sv (op : α → α → α) (s : α) : List α → List α
  | x0 :: x1 :: x2 :: x3 :: x4 :: x5 :: x6 :: x7 :: xs =>
    op s x0 :: op s x1 :: op s x2 :: op s x3 :: op s x4 :: op s x5 :: op s x6 :: op s x7 :: sv op s xs
  | xs => xs.map (op s ·)

end Cv.Vops
