import Compute.Model.Integrate
import Compute.Generated.SrcC07
/-
Source tie for C07 (`src/integrate/functions.rs`): the straight-line fragments of `trapz` (the step `dx`, the node
closure `|k| f(a + k as f64 * dx)`) and of `quad5` (the change of variables `xm`, `xr`, the per-node closure) are
regenerated from the Rust source into `Compute/Generated/SrcC07.lean` on every run.  The theorems say that the
hand model (`Compute/Model/Integrate.lean`) IS its own pipeline (`iterSum`, `List.range'`, `List.zipWith` over the
regenerated node / weight tables) with the regenerated fragments in the place of the hand-written sub-terms —
`rfl`, for every scalar type and integrand.  The pipelines themselves, the end-point term `(f(b) + f(a)) / 2.` of
`trapz`, `romberg` and `trapezoid` are outside the translated subset (loops / iterators): bit-exact tie only.
-/
set_option linter.unusedSectionVars false
namespace Cv.SrcTie.C07

variable {α : Type} [Add α] [Sub α] [Mul α] [Div α] [Neg α] [Zero α] [One α] [NatCast α] [IntCast α]
  [LT α] [DecidableLT α] [LE α] [DecidableLE α] [BEq α] [Cv.Transc α]

/-- `trapz`: `let dx = (b - a) / (n as f64)` and `|k| f(a + k as f64 * dx)` are the model's. -/
theorem trapz_eq (f : α → α) (a b : α) (n : Nat) :
    Cv.trapz f a b n =
      (let dx := Cv.Src.C07.trapzDx a b n
       dx * (Cv.iterSum ((List.range' 1 (n - 1)).map fun k => Cv.Src.C07.trapzNode f a dx k) + (f b + f a) / Cv.two)) :=
  rfl

/-- `quad5`: `xm = 0.5 * (b + a)`, `xr = 0.5 * (b - a)` and
`|i| { let dx = xr * NODES[i]; WEIGHTS[i] * (f(xm + dx) + f(xm - dx)) }` are the model's. -/
theorem quad5_eq (nodes weights : List α) (f : α → α) (a b : α) :
    Cv.quad5 nodes weights f a b =
      (let xm := Cv.Src.C07.quad5Xm a b
       let xr := Cv.Src.C07.quad5Xr a b
       Cv.iterSum (List.zipWith (fun t w => Cv.Src.C07.quad5Term f xm xr t w) nodes weights) * xr) :=
  rfl

end Cv.SrcTie.C07
