import Compute.Lemmas.FactorRounding
import Compute.Lemmas.FactorRoundingLu
import Compute.Props.C11
import Mathlib.Tactic.NormNum
/-
Backward-error analysis of the factorisations and of `solve` in the standard model of floating-point
arithmetic (Higham, ASNA 2nd ed., Thms 9.3, 9.4, 10.3, 10.4), for the *same* model terms
(`Cv.LA.cholesky`, `Cv.LA.lu`, `Cv.LA.choleskySolve`, `Cv.LA.luSolve`, `Cv.LA.solve`) that are tied bit
for bit to the Rust code at `Float`, instantiated at the scalar type `Fl M` (reals with an abstract
rounding obeying `fl(x) = x(1+δ)`, `|δ| ≤ u`; comparisons, `abs` and `==` exact; a square root of relative
error `≤ u`: class `FlSqrt`, e.g. the correctly rounded `FlSqrt.ofRnd`).

TRUSTED LINK (stated, not proved): IEEE-754 binary64 round-to-nearest arithmetic and `sqrt` satisfy the
standard model with `u = 2⁻⁵³` as long as no operation overflows or underflows (Higham Thm 2.2), and
round-to-nearest is monotone with `fl(±1) = ±1` (`MonoUnit`, only used by the norm-wise corollary).

Headline theorems (`ev n l i j` = real value of entry `(i,j)`; `Lv`/`Uv` = unit lower / upper triangular
part of the packed LU factor):
* `cholesky_backward_error` (+ `_symm`): `L̂L̂ᵀ = A + ΔA`, `|ΔA| ≤ γ_{n+1}|L̂||L̂ᵀ|` (`n ≥ 2`; the constant
  proved underneath is `γ_{max n 3}`, `FactorRounding.cholLoops_backward_error`)
* `lu_backward_error`: `L̂Û = PA + ΔA`, `|ΔA| ≤ γ_n|L̂||Û|`, `piv` a permutation (no zero pivot)
* `choleskyRoute_backward_error` (`γ_{3n+1}`, sharp form `γ_{cholK n}`), `luRoute_backward_error`
  (`γ_{3n}`): the computed solution solves `(A + ΔA)x̂ = b`; `choleskyRoute_residual`, `luRoute_residual`
* `lu_multipliers_le_one_rounded`, `luRoute_backward_error_norm`: `|l̂_ij| ≤ 1` and
  `‖ΔA‖∞ ≤ γ_{3n}·n·‖Û‖∞` under monotone rounding
* `solve_routes`, `solve_backward_error`: the statement for `solve a b` itself (both routes)
* `f64_note`: `γ_{3n} ≤ γ_{3n+1} ≤ 1.1·10⁻¹⁴` for `n ≤ 32` at `u = 2⁻⁵³`
Non-vacuity: `namespace Examples` (2 × 2 runs of `cholesky`, `lu`, `solve` in a model where every
operation is 1 % off, and in a monotone model; computed factors differ from the exact ones).
-/
set_option linter.unusedSectionVars false
set_option linter.unusedVariables false
namespace Cv.RoundingLU
open Cv Cv.FlModel Cv.LA Cv.LA.Lu Cv.Rounding Cv.FactorRounding Finset

variable {M : FlModel} [FlSqrt M]

/-! ### 1. Cholesky: `L̂·L̂ᵀ = A + ΔA` -/

/-- exact symmetry of the input (what `solve`'s routing predicate `is_exactly_symmetric` tests) -/
def Symm (n : Nat) (a : List (Fl M)) : Prop := ∀ i j, i < n → j < n → ev n a i j = ev n a j i

/-- **Backward error of `cholesky`** (Higham Thm 10.3).  If `cholesky a` returns `L̂` for an `a` of
order `n ≥ 2` then `L̂` is `n × n`, lower triangular with positive diagonal, and
`L̂·L̂ᵀ = A + ΔA` with `|ΔA| ≤ γ_{n+1}·|L̂||L̂ᵀ|` entrywise on the lower triangle — the part of `a` the
sweep reads; on the whole matrix when `a` is exactly symmetric (`cholesky_backward_error_symm`).
The sharper constant proved underneath is `γ_{max n 3}` (`cholLoops_backward_error`). -/
theorem cholesky_backward_error (a l : List (Fl M)) (n : Nat) (ha : a.length = n * n) (hn : 2 ≤ n)
    (h : cholesky a = some l) (hu : ((n + 1 : Nat) : ℝ) * M.u < 1) :
    l.length = n * n ∧ (∀ r c, r < n → c < n → r < c → ev n l r c = 0) ∧ (∀ r, r < n → 0 < ev n l r r) ∧
    ∀ i j, j ≤ i → i < n →
      |∑ k ∈ range n, ev n l i k * ev n l j k - ev n a i j| ≤
        M.γ (n + 1) * ∑ k ∈ range n, |ev n l i k| * |ev n l j k| := by
  have hle : max n 3 ≤ n + 1 := by omega
  have hu' : ((max n 3 : Nat) : ℝ) * M.u < 1 :=
    lt_of_le_of_lt (mul_le_mul_of_nonneg_right (Nat.cast_le.mpr hle) M.u_nonneg) hu
  obtain ⟨h1, h2, h3, h4⟩ := cholLoops_backward_error n a l (cholesky_someG a l n ha h) hu'
  refine ⟨h1, h2, h3, fun i j hji hi => le_trans (h4 i j hji hi) ?_⟩
  exact mul_le_mul_of_nonneg_right (M.γ_mono hle hu)
    (Finset.sum_nonneg fun k _ => mul_nonneg (abs_nonneg _) (abs_nonneg _))

/-- the lower-triangle bound extends to the whole matrix when `a` is exactly symmetric -/
theorem chol_bound_symm (n : Nat) (a l : List (Fl M)) (g : ℝ) (hsym : Symm n a)
    (h : ∀ i j, j ≤ i → i < n →
      |∑ k ∈ range n, ev n l i k * ev n l j k - ev n a i j| ≤ g * ∑ k ∈ range n, |ev n l i k| * |ev n l j k|) :
    ∀ i j, i < n → j < n →
      |∑ k ∈ range n, ev n l i k * ev n l j k - ev n a i j| ≤ g * ∑ k ∈ range n, |ev n l i k| * |ev n l j k| := by
  intro i j hi hj
  rcases Nat.le_total j i with hji | hij
  · exact h i j hji hi
  · have := h j i hij hj
    rw [hsym i j hi hj]
    rw [show ∑ k ∈ range n, ev n l i k * ev n l j k = ∑ k ∈ range n, ev n l j k * ev n l i k from
        Finset.sum_congr rfl fun k _ => mul_comm _ _,
      show ∑ k ∈ range n, |ev n l i k| * |ev n l j k| = ∑ k ∈ range n, |ev n l j k| * |ev n l i k| from
        Finset.sum_congr rfl fun k _ => mul_comm _ _]
    exact this

/-- **… on the whole matrix** for an exactly symmetric `a`. -/
theorem cholesky_backward_error_symm (a l : List (Fl M)) (n : Nat) (ha : a.length = n * n) (hn : 2 ≤ n)
    (hsym : Symm n a) (h : cholesky a = some l) (hu : ((n + 1 : Nat) : ℝ) * M.u < 1) :
    ∀ i j, i < n → j < n →
      |∑ k ∈ range n, ev n l i k * ev n l j k - ev n a i j| ≤
        M.γ (n + 1) * ∑ k ∈ range n, |ev n l i k| * |ev n l j k| :=
  chol_bound_symm n a l _ hsym (cholesky_backward_error a l n ha hn h hu).2.2.2

/-! ### 3a. the Cholesky route of `solve`: `(A + ΔA)·x̂ = b` -/

/-- the constant of the Cholesky route: `3n` for `n ≥ 3` (`7` for `n = 2`) -/
def cholK (n : Nat) : Nat := max n 3 + max n 2 + max n 2

theorem cholK_le (n : Nat) (hn : 2 ≤ n) : cholK n ≤ 3 * n + 1 := by unfold cholK; omega

/-- **Backward error of the Cholesky route** (Higham Thm 10.4), sharp constant: the computed solution
`x̂ = cholesky_solve(L̂, b)`, `L̂ = cholesky(a)`, satisfies `(A + ΔA)·x̂ = b` with
`|ΔA| ≤ γ_{cholK n}·|L̂||L̂ᵀ|` entrywise, `cholK n = max n 3 + 2·max n 2` (`= 3n` for `n ≥ 3`). -/
theorem choleskyRoute_backward_error_sharp (a l b x : List (Fl M)) (n : Nat)
    (hc : cholLoops n a = some l) (hsym : Symm n a) (hs : choleskySolve l b = some x)
    (hu : ((cholK n : Nat) : ℝ) * M.u < 1) :
    x.length = n ∧ ∃ ΔA : Nat → Nat → ℝ,
      (∀ i m, i < n → m < n →
        |ΔA i m| ≤ M.γ (cholK n) * ∑ j ∈ range n, |ev n l i j| * |ev n l m j|) ∧
      ∀ i, i < n → ∑ m ∈ range n, (ev n a i m + ΔA i m) * (rd x m).val = (rd b i).val := by
  have hun := M.u_nonneg
  have hu3 : ((max n 3 : Nat) : ℝ) * M.u < 1 :=
    lt_of_le_of_lt (mul_le_mul_of_nonneg_right (Nat.cast_le.mpr (by unfold cholK; omega)) hun) hu
  have hu2 : ((max n 2 : Nat) : ℝ) * M.u < 1 :=
    lt_of_le_of_lt (mul_le_mul_of_nonneg_right (Nat.cast_le.mpr (by unfold cholK; omega)) hun) hu
  obtain ⟨hlen, hup, hpos, hfac⟩ := cholLoops_backward_error n a l hc hu3
  have hfac' := chol_bound_symm n a l _ hsym hfac
  have hd : ∀ i, i < n → (rd l (i * n + i)).val ≠ 0 := fun i hi => (hpos i hi).ne'
  obtain ⟨hxl, y, E₁, E₂, hE₁, hE₂, hrow₁, hrow₂⟩ := choleskySolve_backward_error l b x n hlen hd hs hu2
  have hγ2 := M.γ_nonneg (max n 2) hu2
  refine ⟨hxl, ?_⟩
  obtain ⟨ΔA, hΔ, hsolve⟩ := compose_backward n (ev n a) (ev n l) (fun j m => ev n l m j)
    (fun i j => if j ≤ i then E₁ i j else 0) (fun j m => if j ≤ m then E₂ j m else 0)
    (fun m => (rd x m).val) (fun j => (rd y j).val) (fun i => (rd b i).val)
    (M.γ (max n 3)) (M.γ (max n 2)) (M.γ (max n 2)) hγ2 hfac'
    (by
      intro i j hi hj
      by_cases hji : j ≤ i
      · simp only [hji, if_true]; exact hE₁ i j hi hji
      · simp only [hji, if_false, abs_zero]; exact mul_nonneg hγ2 (abs_nonneg _))
    (by
      intro j m hj hm
      by_cases hjm : j ≤ m
      · simp only [hjm, if_true]; exact hE₂ j m hjm hm
      · simp only [hjm, if_false, abs_zero]; exact mul_nonneg hγ2 (abs_nonneg _))
    (by
      intro i hi
      rw [← hrow₁ i hi, list_sum_range]
      refine Eq.trans (sum_head_eq (fun j => (ev n l i j + if j ≤ i then E₁ i j else 0) * (rd y j).val)
        n i hi ?_).symm ?_
      · intro j h1 h2
        have h3 : ¬ j ≤ i := by omega
        simp only [h3, if_false, add_zero]
        rw [hup i j hi h2 h1, zero_mul]
      · apply Finset.sum_congr rfl
        intro j hj
        have : j ≤ i := by have := Finset.mem_range.mp hj; omega
        simp only [this, if_true]
        rfl)
    (by
      intro j hj
      rw [← hrow₂ j hj, list_sum_range]
      rw [← sum_tail_eq (fun m => (ev n l m j + if j ≤ m then E₂ j m else 0) * (rd x m).val) n j (by omega)
        (by
          intro m hm
          have h3 : ¬ j ≤ m := by omega
          simp only [h3, if_false, add_zero]
          rw [hup m j (by omega) hj hm, zero_mul])]
      apply Finset.sum_congr rfl
      intro t _
      simp only [Nat.le_add_right, if_true]
      rfl)
  refine ⟨ΔA, fun i m hi hm => le_trans (hΔ i m hi hm) ?_, hsolve⟩
  refine mul_le_mul_of_nonneg_right ?_
    (Finset.sum_nonneg fun k _ => mul_nonneg (abs_nonneg _) (abs_nonneg _))
  exact γ_three (max n 3) (max n 2) (max n 2) hu

/-- **Residual of the Cholesky route**: `|b − A·x̂| ≤ γ_{cholK n}·|L̂||L̂ᵀ||x̂|` rowwise. -/
theorem choleskyRoute_residual (a l b x : List (Fl M)) (n : Nat)
    (hc : cholLoops n a = some l) (hsym : Symm n a) (hs : choleskySolve l b = some x)
    (hu : ((cholK n : Nat) : ℝ) * M.u < 1) :
    ∀ i, i < n → |(rd b i).val - ∑ m ∈ range n, ev n a i m * (rd x m).val| ≤
      M.γ (cholK n) * ∑ m ∈ range n, (∑ j ∈ range n, |ev n l i j| * |ev n l m j|) * |(rd x m).val| := by
  obtain ⟨_, ΔA, hΔ, hsolve⟩ := choleskyRoute_backward_error_sharp a l b x n hc hsym hs hu
  exact residual_of_backward_mat n (ev n a) ΔA _ (fun m => (rd x m).val) (fun i => (rd b i).val) _ hΔ hsolve

/-- **Backward error of the Cholesky route, Higham's constant** (Thm 10.4): for `n ≥ 2`,
`(A + ΔA)·x̂ = b` with `|ΔA| ≤ γ_{3n+1}·|L̂||L̂ᵀ|`. -/
theorem choleskyRoute_backward_error (a l b x : List (Fl M)) (n : Nat) (ha : a.length = n * n) (hn : 2 ≤ n)
    (hc : cholesky a = some l) (hsym : Symm n a) (hs : choleskySolve l b = some x)
    (hu : ((3 * n + 1 : Nat) : ℝ) * M.u < 1) :
    x.length = n ∧ ∃ ΔA : Nat → Nat → ℝ,
      (∀ i m, i < n → m < n →
        |ΔA i m| ≤ M.γ (3 * n + 1) * ∑ j ∈ range n, |ev n l i j| * |ev n l m j|) ∧
      ∀ i, i < n → ∑ m ∈ range n, (ev n a i m + ΔA i m) * (rd x m).val = (rd b i).val := by
  have hle := cholK_le n hn
  have hu' : ((cholK n : Nat) : ℝ) * M.u < 1 :=
    lt_of_le_of_lt (mul_le_mul_of_nonneg_right (Nat.cast_le.mpr hle) M.u_nonneg) hu
  obtain ⟨hx, ΔA, hΔ, hsolve⟩ :=
    choleskyRoute_backward_error_sharp a l b x n (cholesky_someG a l n ha hc) hsym hs hu'
  refine ⟨hx, ΔA, fun i m hi hm => le_trans (hΔ i m hi hm) ?_, hsolve⟩
  exact mul_le_mul_of_nonneg_right (M.γ_mono hle hu)
    (Finset.sum_nonneg fun k _ => mul_nonneg (abs_nonneg _) (abs_nonneg _))

/-! ### 2. LU with partial pivoting: `L̂·Û = P·A + ΔA` -/

/-- **Backward error of `lu`** (Higham Thm 9.3).  If `lu a` returns the packed factors `f` and the pivot
vector `piv` for an `a` of order `n`, and no pivot `Û[k,k]` is zero, then `piv` is a permutation of
`0..n-1` and `L̂·Û = P·A + ΔA` with `|ΔA| ≤ γ_n·|L̂||Û|` entrywise, where `L̂ = Lv n f` is the unit lower
and `Û = Uv n f` the upper triangular part of `f`, and row `i` of `P·A` is row `piv[i]` of `A` (row
exchanges are exact). -/
theorem lu_backward_error (a f : List (Fl M)) (piv : List Nat) (n : Nat) (ha : a.length = n * n)
    (h : lu a = some (f, piv)) (hd : ∀ k, k < n → ev n f k k ≠ 0) (hu : (n : ℝ) * M.u < 1) :
    f.length = n * n ∧ piv.Perm (List.range n) ∧ ∀ i c, i < n → c < n →
      |∑ k ∈ range n, Lv n f i k * Uv n f k c - ev n a (piv.getD i 0) c| ≤
        M.γ n * ∑ k ∈ range n, |Lv n f i k| * |Uv n f k c| := by
  obtain ⟨n', hn', hfold⟩ := LuS.lu_eq_foldl a f piv h
  have e : n' = n := Nat.mul_self_inj.mp (by rw [hn', ha])
  rw [e] at hfold
  have hinv := LuInvR.foldl n a ha hu
  rw [hfold] at hinv
  obtain ⟨m, hm, hperm⟩ := C11.lu_pivots_perm a f piv h
  have e2 : m = n := Nat.mul_self_inj.mp (by rw [hm, ha])
  rw [e2] at hperm
  exact ⟨hinv.hlen, hperm, fun i c hi hc => hinv.bound n a f piv hd i c hi hc⟩

/-- **the multipliers are bounded by one** in rounded arithmetic too, when rounding is monotone and
leaves `±1` alone (`MonoUnit`): `|L̂[i,k]| ≤ 1`. -/
theorem lu_multipliers_le_one_rounded (hm : MonoUnit M) (a f : List (Fl M)) (piv : List Nat) (n : Nat)
    (ha : a.length = n * n) (h : lu a = some (f, piv)) :
    ∀ i k, i < n → k < n → |Lv n f i k| ≤ 1 := by
  obtain ⟨n', hn', hfold⟩ := LuS.lu_eq_foldl a f piv h
  have e : n' = n := Nat.mul_self_inj.mp (by rw [hn', ha])
  rw [e] at hfold
  have hmul := LuMulR.foldl hm n a ha
  rw [hfold] at hmul
  exact fun i k hi hk => Lv_abs_le_one n f hmul i k hi hk

/-! ### 3b. the LU route of `solve` -/

/-- **Backward error of the LU route** (Higham Thm 9.4): the computed solution
`x̂ = lu_solve(f, piv, b)`, `(f, piv) = lu(a)`, satisfies `(P·A + ΔA)·x̂ = P·b` with
`|ΔA| ≤ γ_{3n}·|L̂||Û|` entrywise (i.e. `(A + PᵀΔA)·x̂ = b`), provided no pivot is zero. -/
theorem luRoute_backward_error (a f b x : List (Fl M)) (piv : List Nat) (n : Nat) (ha : a.length = n * n)
    (hb : b.length = n) (hlu : lu a = some (f, piv)) (hd : ∀ k, k < n → ev n f k k ≠ 0)
    (hs : luSolve f piv b = some x) (hu : ((3 * n : Nat) : ℝ) * M.u < 1) :
    x.length = n ∧ piv.Perm (List.range n) ∧ ∃ ΔA : Nat → Nat → ℝ,
      (∀ i m, i < n → m < n →
        |ΔA i m| ≤ M.γ (3 * n) * ∑ j ∈ range n, |Lv n f i j| * |Uv n f j m|) ∧
      ∀ i, i < n → ∑ m ∈ range n, (ev n a (piv.getD i 0) m + ΔA i m) * (rd x m).val =
        (rd b (piv.getD i 0)).val := by
  have hun := M.u_nonneg
  have hu1 : (n : ℝ) * M.u < 1 :=
    lt_of_le_of_lt (mul_le_mul_of_nonneg_right (Nat.cast_le.mpr (by omega)) hun) hu
  obtain ⟨hfl, hperm, hfac⟩ := lu_backward_error a f piv n ha hlu hd hu1
  have hpl : piv.length = n := by have := hperm.length_eq; simpa using this
  obtain ⟨_, x0, hx0l, hx0, hxe⟩ := LuS.luSolve_spec f piv b x n hpl hb hs
  obtain ⟨hyl, E₁, hE₁, h1⟩ := luFwd_backward_error n f x0 hx0l hu1
  obtain ⟨hxl, E₂, hE₂, h2⟩ := luBwd_backward_error n f (luFwd n f x0) hyl hd hu1
  rw [← hxe] at hxl h2
  have hγ := M.γ_nonneg n hu1
  obtain ⟨ΔA, hΔ, hsolve⟩ := compose_backward n (fun i m => ev n a (piv.getD i 0) m) (Lv n f) (Uv n f)
    E₁ E₂ (fun m => (rd x m).val) (fun j => (rd (luFwd n f x0) j).val) (fun i => (rd x0 i).val)
    (M.γ n) (M.γ n) (M.γ n) hγ hfac hE₁ hE₂ h1 h2
  refine ⟨hxl, hperm, ΔA, fun i m hi hm => le_trans (hΔ i m hi hm) ?_, ?_⟩
  · refine mul_le_mul_of_nonneg_right ?_
      (Finset.sum_nonneg fun k _ => mul_nonneg (abs_nonneg _) (abs_nonneg _))
    have h3 : 3 * n = n + n + n := by omega
    rw [h3] at hu ⊢
    exact γ_three n n n hu
  · intro i hi
    rw [hsolve i hi, hx0 i hi]

/-- **Residual of the LU route**: `|b − A·x̂| ≤ γ_{3n}·|L̂||Û||x̂|` in row `piv[i]`, for every `i`. -/
theorem luRoute_residual (a f b x : List (Fl M)) (piv : List Nat) (n : Nat) (ha : a.length = n * n)
    (hb : b.length = n) (hlu : lu a = some (f, piv)) (hd : ∀ k, k < n → ev n f k k ≠ 0)
    (hs : luSolve f piv b = some x) (hu : ((3 * n : Nat) : ℝ) * M.u < 1) :
    ∀ i, i < n →
      |(rd b (piv.getD i 0)).val - ∑ m ∈ range n, ev n a (piv.getD i 0) m * (rd x m).val| ≤
        M.γ (3 * n) *
          ∑ m ∈ range n, (∑ j ∈ range n, |Lv n f i j| * |Uv n f j m|) * |(rd x m).val| := by
  obtain ⟨_, _, ΔA, hΔ, hsolve⟩ := luRoute_backward_error a f b x piv n ha hb hlu hd hs hu
  exact residual_of_backward_mat n (fun i m => ev n a (piv.getD i 0) m) ΔA _ (fun m => (rd x m).val)
    (fun i => (rd b (piv.getD i 0)).val) _ hΔ hsolve

/-- **Norm-wise consequence (growth-factor form)**: with monotone rounding the multipliers are bounded
by one, hence every row of the backward error satisfies `Σ_m |ΔA[i,m]| ≤ γ_{3n}·n·‖Û‖∞`, i.e.
`‖ΔA‖∞ ≤ γ_{3n}·n·‖Û‖∞` (`‖Û‖∞ ≤ n·ρ·‖A‖∞` with the growth factor `ρ`). -/
theorem luRoute_backward_error_norm (hm : MonoUnit M) (a f b x : List (Fl M)) (piv : List Nat) (n : Nat)
    (ha : a.length = n * n) (hb : b.length = n) (hlu : lu a = some (f, piv))
    (hd : ∀ k, k < n → ev n f k k ≠ 0) (hs : luSolve f piv b = some x)
    (hu : ((3 * n : Nat) : ℝ) * M.u < 1) (Unorm : ℝ)
    (hU : ∀ j, j < n → ∑ m ∈ range n, |Uv n f j m| ≤ Unorm) :
    ∃ ΔA : Nat → Nat → ℝ,
      (∀ i, i < n → ∑ m ∈ range n, |ΔA i m| ≤ M.γ (3 * n) * (n * Unorm)) ∧
      ∀ i, i < n → ∑ m ∈ range n, (ev n a (piv.getD i 0) m + ΔA i m) * (rd x m).val =
        (rd b (piv.getD i 0)).val := by
  obtain ⟨_, _, ΔA, hΔ, hsolve⟩ := luRoute_backward_error a f b x piv n ha hb hlu hd hs hu
  have hL := lu_multipliers_le_one_rounded hm a f piv n ha hlu
  have hγ := M.γ_nonneg (3 * n) hu
  refine ⟨ΔA, fun i hi => ?_, hsolve⟩
  calc ∑ m ∈ range n, |ΔA i m|
      ≤ ∑ m ∈ range n, M.γ (3 * n) * ∑ j ∈ range n, |Lv n f i j| * |Uv n f j m| :=
        Finset.sum_le_sum fun m hm' => hΔ i m hi (Finset.mem_range.mp hm')
    _ = M.γ (3 * n) * ∑ j ∈ range n, ∑ m ∈ range n, |Lv n f i j| * |Uv n f j m| := by
        rw [← Finset.mul_sum, Finset.sum_comm]
    _ ≤ M.γ (3 * n) * ∑ j ∈ range n, Unorm := by
        refine mul_le_mul_of_nonneg_left (Finset.sum_le_sum fun j hj => ?_) hγ
        have hj' := Finset.mem_range.mp hj
        rw [← Finset.mul_sum]
        calc |Lv n f i j| * ∑ m ∈ range n, |Uv n f j m|
            ≤ 1 * ∑ m ∈ range n, |Uv n f j m| :=
              mul_le_mul_of_nonneg_right (hL i j hi hj')
                (Finset.sum_nonneg fun _ _ => abs_nonneg _)
          _ ≤ Unorm := by rw [one_mul]; exact hU j hj'
    _ = M.γ (3 * n) * (n * Unorm) := by
        rw [Finset.sum_const, Finset.card_range, nsmul_eq_mul]

/-! ### 3c. `solve` itself -/

theorem isExactlySymmetric_symm (a : List (Fl M)) (n : Nat) (ha : a.length = n * n)
    (h : isExactlySymmetric a = some true) : Symm n a := by
  simp only [isExactlySymmetric, ha, isSquare_sq, Option.bind_eq_bind, Option.bind_some, Option.pure_def,
    Option.some.injEq, List.all_eq_true, List.mem_range, List.mem_range'_1, Bool.not_eq_true',
    bne_eq_false_iff_eq] at h
  intro i j hi hj
  rcases Nat.lt_trichotomy i j with hij | hij | hij
  · exact congrArg Fl.val (h i hi j ⟨by omega, by omega⟩)
  · subst hij; rfl
  · exact (congrArg Fl.val (h j hj i ⟨by omega, by omega⟩)).symm

/-- the two routes of `solve`: a Cholesky factor of an exactly symmetric `a`, or the LU factors -/
theorem solve_routes (a b x : List (Fl M)) (n : Nat) (ha : a.length = n * n) (h : solve a b = some x) :
    b.length = n ∧
    ((∃ l, cholLoops n a = some l ∧ Symm n a ∧ choleskySolve l b = some x) ∨
     (∃ f piv, lu a = some (f, piv) ∧ luSolve f piv b = some x)) := by
  unfold solve at h
  by_cases hl : a.length = b.length * b.length
  · have hb : b.length = n := by rw [ha] at hl; exact (Nat.mul_self_inj.mp hl).symm
    refine ⟨hb, ?_⟩
    simp only [hl, ne_eq, not_true_eq_false, if_false, Option.bind_eq_bind] at h
    cases hr : route a with
    | none => simp [hr] at h
    | some r =>
      simp only [hr, Option.bind_some] at h
      cases r with
      | some l =>
        left
        unfold route at hr
        cases hp : routePredicate a with
        | none => simp [hp] at hr
        | some ok =>
          cases ok with
          | false => simp [hp] at hr
          | true =>
            simp only [hp, Option.bind_eq_bind, Option.bind_some, if_true] at hr
            refine ⟨l, tryCholesky_someG a l n ha hr, ?_, h⟩
            unfold routePredicate at hp
            cases hpd : isPositiveDefinite a with
            | none => simp [hpd] at hp
            | some pd =>
              cases pd with
              | false => simp [hpd] at hp
              | true =>
                simp only [hpd, Option.bind_eq_bind, Option.bind_some, if_true] at hp
                exact isExactlySymmetric_symm a n ha hp
      | none =>
        right
        simp only [solveWith] at h
        cases hf : lu a with
        | none => simp [hf] at h
        | some fp =>
          obtain ⟨f, piv⟩ := fp
          simp only [hf] at h
          exact ⟨f, piv, rfl, h⟩
  · simp [hl] at h

/-- **Backward error of `solve`** (C01, Higham Thms 9.4 / 10.4).  Whatever `solve a b` returns for an
`a` of order `n ≥ 2` in rounded arithmetic is the exact solution of a nearby system:
* on the Cholesky route (`a` exactly symmetric, `L̂` its computed factor) `(A + ΔA)·x̂ = b` with
  `|ΔA| ≤ γ_{3n+1}·|L̂||L̂ᵀ|`;
* on the LU route (computed factors `L̂`, `Û`, pivot vector `piv`), if no pivot is zero,
  `(P·A + ΔA)·x̂ = P·b` with `|ΔA| ≤ γ_{3n}·|L̂||Û|`. -/
theorem solve_backward_error (a b x : List (Fl M)) (n : Nat) (ha : a.length = n * n) (hn : 2 ≤ n)
    (h : solve a b = some x) (hu : ((3 * n + 1 : Nat) : ℝ) * M.u < 1) :
    b.length = n ∧
    ((∃ l, cholLoops n a = some l ∧ Symm n a ∧ x.length = n ∧ ∃ ΔA : Nat → Nat → ℝ,
        (∀ i m, i < n → m < n →
          |ΔA i m| ≤ M.γ (3 * n + 1) * ∑ j ∈ range n, |ev n l i j| * |ev n l m j|) ∧
        ∀ i, i < n → ∑ m ∈ range n, (ev n a i m + ΔA i m) * (rd x m).val = (rd b i).val) ∨
     (∃ f piv, lu a = some (f, piv) ∧ ((∀ k, k < n → ev n f k k ≠ 0) →
        x.length = n ∧ piv.Perm (List.range n) ∧ ∃ ΔA : Nat → Nat → ℝ,
        (∀ i m, i < n → m < n →
          |ΔA i m| ≤ M.γ (3 * n) * ∑ j ∈ range n, |Lv n f i j| * |Uv n f j m|) ∧
        ∀ i, i < n → ∑ m ∈ range n, (ev n a (piv.getD i 0) m + ΔA i m) * (rd x m).val =
          (rd b (piv.getD i 0)).val))) := by
  obtain ⟨hb, hroute⟩ := solve_routes a b x n ha h
  refine ⟨hb, ?_⟩
  rcases hroute with ⟨l, hc, hsym, hs⟩ | ⟨f, piv, hlu, hs⟩
  · left
    have hle := cholK_le n hn
    have hu' : ((cholK n : Nat) : ℝ) * M.u < 1 :=
      lt_of_le_of_lt (mul_le_mul_of_nonneg_right (Nat.cast_le.mpr hle) M.u_nonneg) hu
    obtain ⟨hx, ΔA, hΔ, hsolve⟩ := choleskyRoute_backward_error_sharp a l b x n hc hsym hs hu'
    refine ⟨l, hc, hsym, hx, ΔA, fun i m hi hm => le_trans (hΔ i m hi hm) ?_, hsolve⟩
    exact mul_le_mul_of_nonneg_right (M.γ_mono hle hu)
      (Finset.sum_nonneg fun k _ => mul_nonneg (abs_nonneg _) (abs_nonneg _))
  · right
    refine ⟨f, piv, hlu, fun hd => ?_⟩
    have hu3 : ((3 * n : Nat) : ℝ) * M.u < 1 :=
      lt_of_le_of_lt (mul_le_mul_of_nonneg_right (Nat.cast_le.mpr (by omega)) M.u_nonneg) hu
    exact luRoute_backward_error a f b x piv n ha hb hlu hd hs hu3

/-! ### 4. the `f64` instance -/

/-- **Numeric consequence at `f64`** (`u = 2⁻⁵³`): for every order `n ≤ 32` (the range of the C01 / C11
generators stays below 64) `γ_{3n} ≤ γ_{3n+1} ≤ 1.1·10⁻¹⁴`. -/
theorem f64_note (M : FlModel) (hu : M.u = 1 / 2 ^ 53) (n : Nat) (hn : n ≤ 32) :
    ((3 * n + 1 : Nat) : ℝ) * M.u < 1 ∧ M.γ (3 * n) ≤ 1.1e-14 ∧ M.γ (3 * n + 1) ≤ 1.1e-14 := by
  have h97 : ((97 : Nat) : ℝ) * M.u < 1 := by rw [hu]; norm_num
  have hle : 3 * n + 1 ≤ 97 := by omega
  have hlt : ((3 * n + 1 : Nat) : ℝ) * M.u < 1 :=
    lt_of_le_of_lt (mul_le_mul_of_nonneg_right (Nat.cast_le.mpr hle) M.u_nonneg) h97
  have h97γ : M.γ 97 ≤ 1.1e-14 := by
    unfold FlModel.γ
    rw [hu]
    norm_num
  exact ⟨hlt, le_trans (M.γ_mono (by omega) h97) h97γ, le_trans (M.γ_mono hle h97) h97γ⟩

/-! ### Non-vacuity: concrete runs in models where rounding errors occur -/

namespace Examples

/-- every operation (and `sqrt`) overestimates by 1 % (`δ = u = 0.01` always) -/
noncomputable abbrev Minf : FlModel := FlModel.inflate (1 / 100) (by norm_num) (by norm_num)
theorem Minf_u : Minf.u = 1 / 100 := rfl
theorem Minf_rnd (x : ℝ) : Minf.rnd x = x * (1 + 1 / 100) := rfl

noncomputable instance : FlSqrt Minf where
  sqrtR := fun x => Real.sqrt x * (1 + 1 / 100)
  sqrt_std := fun x _ => ⟨1 / 100, by rw [Minf_u, abs_of_nonneg (by norm_num)], rfl⟩

theorem sqrtR_def (x : ℝ) : FlSqrt.sqrtR (M := Minf) x = Real.sqrt x * (1 + 1 / 100) := rfl

theorem sqrt4 : Real.sqrt 4 = 2 := by
  rw [show (4 : ℝ) = 2 ^ 2 by norm_num, Real.sqrt_sq (by norm_num)]

section eval
variable {M : FlModel}
theorem mk_add (a b : ℝ) : (⟨a⟩ : Fl M) + ⟨b⟩ = ⟨M.rnd (a + b)⟩ := rfl
theorem mk_sub (a b : ℝ) : (⟨a⟩ : Fl M) - ⟨b⟩ = ⟨M.rnd (a - b)⟩ := rfl
theorem mk_mul (a b : ℝ) : (⟨a⟩ : Fl M) * ⟨b⟩ = ⟨M.rnd (a * b)⟩ := rfl
theorem mk_div (a b : ℝ) : (⟨a⟩ : Fl M) / ⟨b⟩ = ⟨M.rnd (a / b)⟩ := rfl
theorem mk_sub_zero (a : ℝ) : (⟨a⟩ : Fl M) - 0 = ⟨M.rnd (a - 0)⟩ := rfl
theorem zero_add_mk (a : ℝ) : (0 : Fl M) + ⟨a⟩ = ⟨M.rnd (0 + a)⟩ := rfl
theorem mk_eq_zero (a : ℝ) : (⟨a⟩ : Fl M) = 0 ↔ a = 0 := Fl.eq_zero_iff _
theorem mk_abs [FlSqrt M] (a : ℝ) : Transc.abs (⟨a⟩ : Fl M) = ⟨|a|⟩ := rfl
theorem mk_lt (a b : ℝ) : (⟨a⟩ : Fl M) < ⟨b⟩ ↔ a < b := Iff.rfl
end eval

/-- a symmetric positive definite 2 × 2 matrix -/
noncomputable abbrev A2 : List (Fl Minf) := [⟨400 / 101⟩, ⟨2⟩, ⟨2⟩, ⟨5⟩]

theorem A2_symm : Symm 2 A2 := by
  intro i j hi hj
  have h1 : i = 0 ∨ i = 1 := by omega
  have h2 : j = 0 ∨ j = 1 := by omega
  rcases h1 with rfl | rfl <;> rcases h2 with rfl | rfl <;> simp [ev, rd]

/-- `cholesky` succeeds on `A2` in the 1 % model; the computed factor has `l₀₀ = 2.02`, `l₁₀ = 1.01` (the
exact factor has `l₀₀ = 20/√101 ≈ 1.99`, `l₁₀ = √101/10 ≈ 1.005`) -/
theorem A2_chol : ∃ l, cholesky A2 = some l ∧ ev 2 l 0 0 = 101 / 50 ∧ ev 2 l 1 0 = 101 / 100 := by
  have hE : ¬ (4503599627370496 : Fl Minf).val < 0 := by
    show ¬ Minf.rnd ((4503599627370496 : ℕ) : ℝ) < 0
    rw [Minf_rnd]; norm_num
  unfold cholesky tryCholesky isSymmetric
  simp only [show A2.length = 2 * 2 from rfl, isSquare_sq]
  norm_num [cholLoops, cholRow, List.range_succ, List.foldlM_cons, List.foldlM_nil, cholCell, List.replicate,
    Fl.isNan_false, Fl.le_def, Fl.lt_def, rd, dot8, dot8Go, Minf_rnd, List.set, List.take, List.drop,
    sqrtR_def, sqrt4, eps, List.range', ev, hE]

/-- **`cholesky_backward_error` on a concrete run**: the hypotheses hold, the computed factor is not the
exact one (`(L̂L̂ᵀ)₀₀ ≠ a₀₀`), and the backward error is within the proved bound. -/
example : ∃ l, cholesky A2 = some l ∧
    ∑ k ∈ range 2, ev 2 l 0 k * ev 2 l 0 k - ev 2 A2 0 0 ≠ 0 ∧
    ∀ i j, j ≤ i → i < 2 →
      |∑ k ∈ range 2, ev 2 l i k * ev 2 l j k - ev 2 A2 i j| ≤
        Minf.γ (2 + 1) * ∑ k ∈ range 2, |ev 2 l i k| * |ev 2 l j k| := by
  obtain ⟨l, hl, h00, h10⟩ := A2_chol
  obtain ⟨_, hup, _, hb⟩ := cholesky_backward_error A2 l 2 rfl (le_refl 2) hl (by rw [Minf_u]; norm_num)
  refine ⟨l, hl, ?_, hb⟩
  have h01 : ev 2 l 0 1 = 0 := hup 0 1 (by omega) (by omega) (by omega)
  simp only [Finset.sum_range_succ, Finset.sum_range_zero, h00, h01]
  norm_num [ev, rd]

/-- `cholesky_solve` never fails on a square factor and a right-hand side of matching length -/
theorem choleskySolve_isSome {M : FlModel} (l b : List (Fl M)) (n : Nat) (hn : n ≠ 0)
    (hl : l.length = n * n) (hb : b.length = n) : ∃ x, choleskySolve l b = some x := by
  obtain ⟨lt, hlt⟩ := transpose_sq_some l n hn hl
  obtain ⟨hltl, _⟩ := transpose_sq_entry l lt n hl hlt
  unfold choleskySolve
  simp only [hl, isSquare_sq, hb, Option.bind_eq_bind, Option.bind_some, ne_eq, not_true_eq_false,
    if_false]
  unfold forwardSubstitution
  simp only [hl, isSquare_sq, hb, Option.bind_eq_bind, Option.bind_some, ne_eq, not_true_eq_false,
    if_false, Option.pure_def, hlt]
  unfold backwardSubstitution
  have hyl : ((List.range n).foldl (fun x i =>
      x ++ [(rd b i - dot8 ((l.drop (i * n)).take i) x) / rd l (i * n + i)]) []).length = n :=
    (build_append (fun i x => (rd b i - dot8 ((l.drop (i * n)).take i) x) / rd l (i * n + i)) n).1
  simp only [hltl, isSquare_sq, hyl, Option.bind_eq_bind, Option.bind_some, ne_eq, not_true_eq_false,
    if_false, Option.pure_def]
  exact ⟨_, rfl⟩

/-- **the Cholesky route on a concrete run**: `(A + ΔA)x̂ = b`, `|ΔA| ≤ γ₇|L̂||L̂ᵀ|` (`3n+1 = 7`) -/
example : ∃ l x, cholesky A2 = some l ∧ choleskySolve l [⟨1⟩, ⟨1⟩] = some x ∧ x.length = 2 ∧
    ∃ ΔA : Nat → Nat → ℝ,
      (∀ i m, i < 2 → m < 2 →
        |ΔA i m| ≤ Minf.γ (3 * 2 + 1) * ∑ j ∈ range 2, |ev 2 l i j| * |ev 2 l m j|) ∧
      ∀ i, i < 2 → ∑ m ∈ range 2, (ev 2 A2 i m + ΔA i m) * (rd x m).val =
        (rd ([⟨1⟩, ⟨1⟩] : List (Fl Minf)) i).val := by
  obtain ⟨l, hl, _, _⟩ := A2_chol
  have hll := (cholesky_backward_error A2 l 2 rfl (le_refl 2) hl (by rw [Minf_u]; norm_num)).1
  obtain ⟨x, hx⟩ := choleskySolve_isSome l [⟨1⟩, ⟨1⟩] 2 (by norm_num) hll rfl
  obtain ⟨h1, h2⟩ := choleskyRoute_backward_error A2 l [⟨1⟩, ⟨1⟩] x 2 rfl (le_refl 2) hl A2_symm hx
    (by rw [Minf_u]; norm_num)
  exact ⟨l, x, hl, hx, h1, h2⟩

/-- a 2 × 2 matrix whose LU factorisation exchanges the rows -/
noncomputable abbrev A3 : List (Fl Minf) := [⟨1⟩, ⟨2⟩, ⟨3⟩, ⟨4⟩]
/-- its computed packed factor in the 1 % model (the exact one is `[3, 4, 1/3, 2/3]`) -/
noncomputable abbrev F3 : List (Fl Minf) :=
  [⟨303 / 100⟩, ⟨101 / 25⟩, ⟨101 / 300⟩, ⟨4639899499 / 7500000000⟩]

theorem A3_step0 : luStep 2 (A3, [0, 1]) 0 = ([⟨303 / 100⟩, ⟨4⟩, ⟨101 / 300⟩, ⟨2⟩], [1, 0]) := by
  have hc : luColumn 2 0 A3 = [⟨101 / 100⟩, ⟨2⟩, ⟨303 / 100⟩, ⟨4⟩] := by
    norm_num [luColumn, luDot, List.range_succ, rd, Minf_rnd, List.set, mk_sub_zero]
  have hp : luPivot 2 0 ([⟨101 / 100⟩, ⟨2⟩, ⟨303 / 100⟩, ⟨4⟩] : List (Fl Minf)) = 1 := by
    norm_num [luPivot, List.range', rd, mk_abs, mk_lt]
  have hs : swapRows 2 1 0 ([⟨101 / 100⟩, ⟨2⟩, ⟨303 / 100⟩, ⟨4⟩] : List (Fl Minf)) =
      [⟨303 / 100⟩, ⟨4⟩, ⟨101 / 100⟩, ⟨2⟩] := rfl
  have hsc : luScale 2 0 ([⟨303 / 100⟩, ⟨4⟩, ⟨101 / 100⟩, ⟨2⟩] : List (Fl Minf)) =
      [⟨303 / 100⟩, ⟨4⟩, ⟨101 / 300⟩, ⟨2⟩] := by
    norm_num [luScale, List.range', rd, mk_div, mk_eq_zero, Minf_rnd, List.set]
  simp [luStep, hc, hp, hs, hsc, swapIdx]

theorem A3_step1 : luStep 2 ([⟨303 / 100⟩, ⟨4⟩, ⟨101 / 300⟩, ⟨2⟩], [1, 0]) 1 = (F3, [1, 0]) := by
  have hc : luColumn 2 1 ([⟨303 / 100⟩, ⟨4⟩, ⟨101 / 300⟩, ⟨2⟩] : List (Fl Minf)) = F3 := by
    norm_num [luColumn, luDot, List.range_succ, rd, Minf_rnd, List.set, mk_sub_zero, mk_sub, mk_mul,
      zero_add_mk]
  have hp : luPivot 2 1 F3 = 1 := by
    norm_num [luPivot, List.range']
  have hsc : luScale 2 1 F3 = F3 := by
    norm_num [luScale, List.range']
  simp [luStep, hc, hp, hsc]

/-- `lu` on `A3` in the 1 % model: rows exchanged, multiplier `0.33666…` instead of `1/3` -/
theorem A3_lu : lu A3 = some (F3, [1, 0]) := by
  unfold lu
  simp only [show A3.length = 2 * 2 from rfl, isSquare_sq]
  show some (luStep 2 (luStep 2 (A3, [0, 1]) 0) 1) = _
  rw [A3_step0, A3_step1]

theorem F3_pivots : ∀ k, k < 2 → ev 2 F3 k k ≠ 0 := by
  intro k hk
  have h : k = 0 ∨ k = 1 := by omega
  rcases h with rfl | rfl <;> norm_num [ev, rd]

/-- **`lu_backward_error` on a concrete run**: hypotheses hold, the computed multiplier differs from
the exact `1/3`, the product `L̂Û` differs from `P·A`, and the bound holds. -/
example : lu A3 = some (F3, [1, 0]) ∧ Lv 2 F3 1 0 = 101 / 300 ∧
    ∑ k ∈ range 2, Lv 2 F3 0 k * Uv 2 F3 k 0 - ev 2 A3 1 0 ≠ 0 ∧
    ∀ i c, i < 2 → c < 2 →
      |∑ k ∈ range 2, Lv 2 F3 i k * Uv 2 F3 k c - ev 2 A3 (([1, 0] : List Nat).getD i 0) c| ≤
        Minf.γ 2 * ∑ k ∈ range 2, |Lv 2 F3 i k| * |Uv 2 F3 k c| := by
  refine ⟨A3_lu, ?_, ?_, (lu_backward_error A3 F3 [1, 0] 2 rfl A3_lu F3_pivots
    (by rw [Minf_u]; norm_num)).2.2⟩
  · norm_num [Lv, ev, rd]
  · simp only [Finset.sum_range_succ, Finset.sum_range_zero]
    norm_num [Lv, Uv, ev, rd]

/-- **the LU route on a concrete run**: `(PA + ΔA)x̂ = Pb`, `|ΔA| ≤ γ₆|L̂||Û|`, and the residual bound -/
example : ∃ x, luSolve F3 [1, 0] [⟨1⟩, ⟨1⟩] = some x ∧ x.length = 2 ∧
    (∃ ΔA : Nat → Nat → ℝ,
      (∀ i m, i < 2 → m < 2 →
        |ΔA i m| ≤ Minf.γ (3 * 2) * ∑ j ∈ range 2, |Lv 2 F3 i j| * |Uv 2 F3 j m|) ∧
      ∀ i, i < 2 → ∑ m ∈ range 2, (ev 2 A3 (([1, 0] : List Nat).getD i 0) m + ΔA i m) * (rd x m).val =
        (rd ([⟨1⟩, ⟨1⟩] : List (Fl Minf)) (([1, 0] : List Nat).getD i 0)).val) ∧
    ∀ i, i < 2 →
      |(rd ([⟨1⟩, ⟨1⟩] : List (Fl Minf)) (([1, 0] : List Nat).getD i 0)).val -
          ∑ m ∈ range 2, ev 2 A3 (([1, 0] : List Nat).getD i 0) m * (rd x m).val| ≤
        Minf.γ (3 * 2) *
          ∑ m ∈ range 2, (∑ j ∈ range 2, |Lv 2 F3 i j| * |Uv 2 F3 j m|) * |(rd x m).val| := by
  refine ⟨_, rfl, ?_⟩
  have hu : ((3 * 2 : Nat) : ℝ) * Minf.u < 1 := by rw [Minf_u]; norm_num
  obtain ⟨h1, _, h2⟩ := luRoute_backward_error A3 F3 [⟨1⟩, ⟨1⟩] _ [1, 0] 2 rfl rfl A3_lu F3_pivots rfl hu
  exact ⟨h1, h2, luRoute_residual A3 F3 [⟨1⟩, ⟨1⟩] _ [1, 0] 2 rfl rfl A3_lu F3_pivots rfl hu⟩

theorem bigE : (4503599627370496 : Fl Minf).val = 4503599627370496 * (1 + 1 / 100) := by
  show Minf.rnd ((4503599627370496 : ℕ) : ℝ) = _
  rw [Minf_rnd]; norm_num

theorem A3_route : route A3 = some none := by
  unfold route routePredicate isPositiveDefinite isSymmetric
  simp only [show A3.length = 2 * 2 from rfl, isSquare_sq]
  norm_num [List.range_succ, List.range', rd, eps, Fl.lt_def, Minf_rnd, bigE]

theorem A3_solve : ∃ x, solve A3 [⟨1⟩, ⟨1⟩] = some x := by
  unfold solve
  simp only [show A3.length = 2 * 2 from rfl]
  simp [A3_route, solveWith, A3_lu, luSolve, luPermute]

theorem A2_pred : routePredicate A2 = some true := by
  unfold routePredicate isPositiveDefinite isSymmetric isExactlySymmetric
  simp only [show A2.length = 2 * 2 from rfl, isSquare_sq]
  norm_num [List.range_succ, List.range', rd, eps, Fl.lt_def, Fl.le_def, Minf_rnd, bigE]

theorem A2_solve : ∃ x, solve A2 [⟨1⟩, ⟨1⟩] = some x := by
  obtain ⟨l, hl, _, _⟩ := A2_chol
  have ht : tryCholesky A2 = some (some l) := by
    unfold cholesky at hl
    exact Option.join_eq_some_iff.mp hl
  have hll := (cholesky_backward_error A2 l 2 rfl (le_refl 2) hl (by rw [Minf_u]; norm_num)).1
  obtain ⟨x, hx⟩ := choleskySolve_isSome l [⟨1⟩, ⟨1⟩] 2 (by norm_num) hll rfl
  refine ⟨x, ?_⟩
  unfold solve
  simp only [show A2.length = 2 * 2 from rfl]
  simp [route, A2_pred, ht, solveWith, hx]

/-- **`solve_backward_error` on concrete runs**: `solve` succeeds on both routes in the 1 % model -/
example : ∃ x, solve A3 [⟨1⟩, ⟨1⟩] = some x ∧
    ∃ f piv, lu A3 = some (f, piv) ∧ ((∀ k, k < 2 → ev 2 f k k ≠ 0) →
      x.length = 2 ∧ piv.Perm (List.range 2) ∧ ∃ ΔA : Nat → Nat → ℝ,
      (∀ i m, i < 2 → m < 2 →
        |ΔA i m| ≤ Minf.γ (3 * 2) * ∑ j ∈ range 2, |Lv 2 f i j| * |Uv 2 f j m|) ∧
      ∀ i, i < 2 → ∑ m ∈ range 2, (ev 2 A3 (piv.getD i 0) m + ΔA i m) * (rd x m).val =
        (rd ([⟨1⟩, ⟨1⟩] : List (Fl Minf)) (piv.getD i 0)).val) := by
  obtain ⟨x, hx⟩ := A3_solve
  refine ⟨x, hx, ?_⟩
  obtain ⟨_, h⟩ := solve_backward_error A3 [⟨1⟩, ⟨1⟩] x 2 rfl (le_refl 2) hx (by rw [Minf_u]; norm_num)
  rcases h with ⟨l, hc, hsym, _⟩ | h
  · exfalso
    have := hsym 0 1 (by omega) (by omega)
    norm_num [ev, rd] at this
  · exact h

/-- … and on the Cholesky route (`A2` is exactly symmetric with positive diagonal: `A2_pred`) the
hypotheses of `solve_backward_error` hold as well -/
example : ∃ x, solve A2 [⟨1⟩, ⟨1⟩] = some x ∧ routePredicate A2 = some true ∧
    ([⟨1⟩, ⟨1⟩] : List (Fl Minf)).length = 2 := by
  obtain ⟨x, hx⟩ := A2_solve
  exact ⟨x, hx, A2_pred,
    (solve_backward_error A2 [⟨1⟩, ⟨1⟩] x 2 rfl (le_refl 2) hx (by rw [Minf_u]; norm_num)).1⟩

/-- a non-trivial *monotone* model: numbers in `[-1, 1]` are on the grid, everything else is inflated -/
noncomputable def outside (c : ℝ) (h0 : 0 ≤ c) (h1 : c < 1) : FlModel where
  rnd := fun x => if |x| ≤ 1 then x else x * (1 + c)
  u := c
  u_nonneg := h0
  u_lt_one := h1
  std := fun x => by
    by_cases hx : |x| ≤ 1
    · exact ⟨0, by simpa using h0, by simp [hx]⟩
    · exact ⟨c, by rw [abs_of_nonneg h0], by simp [hx]⟩

theorem outside_monoUnit (c : ℝ) (h0 : 0 ≤ c) (h1 : c < 1) : MonoUnit (outside c h0 h1) := by
  refine ⟨?_, ?_, ?_⟩
  · intro x y hxy
    show (if |x| ≤ 1 then x else x * (1 + c)) ≤ (if |y| ≤ 1 then y else y * (1 + c))
    by_cases hx : |x| ≤ 1 <;> by_cases hy : |y| ≤ 1
    · simp only [hx, hy, if_true]; exact hxy
    · simp only [hx, hy, if_true, if_false]
      have := abs_le.mp hx
      have hy1 : 1 < y := by
        rcases lt_abs.mp (not_le.mp hy) with h | h
        · exact h
        · linarith
      nlinarith
    · simp only [hx, hy, if_true, if_false]
      have := abs_le.mp hy
      have hx1 : x < -1 := by
        rcases lt_abs.mp (not_le.mp hx) with h | h
        · linarith
        · linarith
      nlinarith
    · simp only [hx, hy, if_false]
      exact mul_le_mul_of_nonneg_right hxy (by linarith)
  · show (if |(1 : ℝ)| ≤ 1 then (1 : ℝ) else 1 * (1 + c)) = 1
    simp
  · show (if |(-1 : ℝ)| ≤ 1 then (-1 : ℝ) else -1 * (1 + c)) = -1
    simp

noncomputable abbrev Mout : FlModel := outside (1 / 100) (by norm_num) (by norm_num)
theorem Mout_u : Mout.u = 1 / 100 := rfl
theorem Mout_rnd (x : ℝ) : Mout.rnd x = if |x| ≤ 1 then x else x * (1 + 1 / 100) := rfl
noncomputable instance : FlSqrt Mout := FlSqrt.ofRnd Mout

noncomputable abbrev A4 : List (Fl Mout) := [⟨1⟩, ⟨2⟩, ⟨3⟩, ⟨4⟩]
noncomputable abbrev F4 : List (Fl Mout) := [⟨303 / 100⟩, ⟨101 / 25⟩, ⟨100 / 303⟩, ⟨4799 / 7500⟩]

theorem A4_step0 : luStep 2 (A4, [0, 1]) 0 = ([⟨303 / 100⟩, ⟨4⟩, ⟨100 / 303⟩, ⟨2⟩], [1, 0]) := by
  have hc : luColumn 2 0 A4 = [⟨1⟩, ⟨2⟩, ⟨303 / 100⟩, ⟨4⟩] := by
    norm_num [luColumn, luDot, List.range_succ, rd, Mout_rnd, List.set, mk_sub_zero, abs_le]
  have hp : luPivot 2 0 ([⟨1⟩, ⟨2⟩, ⟨303 / 100⟩, ⟨4⟩] : List (Fl Mout)) = 1 := by
    norm_num [luPivot, List.range', rd, mk_abs, mk_lt]
  have hs : swapRows 2 1 0 ([⟨1⟩, ⟨2⟩, ⟨303 / 100⟩, ⟨4⟩] : List (Fl Mout)) =
      [⟨303 / 100⟩, ⟨4⟩, ⟨1⟩, ⟨2⟩] := rfl
  have hsc : luScale 2 0 ([⟨303 / 100⟩, ⟨4⟩, ⟨1⟩, ⟨2⟩] : List (Fl Mout)) =
      [⟨303 / 100⟩, ⟨4⟩, ⟨100 / 303⟩, ⟨2⟩] := by
    norm_num [luScale, List.range', rd, mk_div, mk_eq_zero, Mout_rnd, List.set, abs_le]
  simp [luStep, hc, hp, hs, hsc, swapIdx]

theorem A4_step1 : luStep 2 ([⟨303 / 100⟩, ⟨4⟩, ⟨100 / 303⟩, ⟨2⟩], [1, 0]) 1 = (F4, [1, 0]) := by
  have hc : luColumn 2 1 ([⟨303 / 100⟩, ⟨4⟩, ⟨100 / 303⟩, ⟨2⟩] : List (Fl Mout)) = F4 := by
    norm_num [luColumn, luDot, List.range_succ, rd, Mout_rnd, List.set, mk_sub_zero, mk_sub, mk_mul,
      zero_add_mk, abs_le]
  have hp : luPivot 2 1 F4 = 1 := by
    norm_num [luPivot, List.range']
  have hsc : luScale 2 1 F4 = F4 := by
    norm_num [luScale, List.range']
  simp [luStep, hc, hp, hsc]

theorem A4_lu : lu A4 = some (F4, [1, 0]) := by
  unfold lu
  simp only [show A4.length = 2 * 2 from rfl, isSquare_sq]
  show some (luStep 2 (luStep 2 (A4, [0, 1]) 0) 1) = _
  rw [A4_step0, A4_step1]

theorem F4_pivots : ∀ k, k < 2 → ev 2 F4 k k ≠ 0 := by
  intro k hk
  have h : k = 0 ∨ k = 1 := by omega
  rcases h with rfl | rfl <;> norm_num [ev, rd]

/-- **monotone rounding on a concrete run**: in `Mout` rounding errors occur (`Û₁₁ = 0.63986…`, exact
`2/3`), the multipliers are bounded by one, and the norm-wise backward-error bound
`Σ_m |ΔA[i,m]| ≤ γ₆·2·‖Û‖∞`, `‖Û‖∞ = 7.07`, holds for the computed solution. -/
example : lu A4 = some (F4, [1, 0]) ∧ Uv 2 F4 1 1 = 4799 / 7500 ∧
    (∀ i k, i < 2 → k < 2 → |Lv 2 F4 i k| ≤ 1) ∧
    ∃ x, luSolve F4 [1, 0] [⟨1⟩, ⟨1⟩] = some x ∧ ∃ ΔA : Nat → Nat → ℝ,
      (∀ i, i < 2 → ∑ m ∈ range 2, |ΔA i m| ≤ Mout.γ (3 * 2) * ((2 : Nat) * (707 / 100))) ∧
      ∀ i, i < 2 → ∑ m ∈ range 2, (ev 2 A4 (([1, 0] : List Nat).getD i 0) m + ΔA i m) * (rd x m).val =
        (rd ([⟨1⟩, ⟨1⟩] : List (Fl Mout)) (([1, 0] : List Nat).getD i 0)).val := by
  have hm := outside_monoUnit (1 / 100) (by norm_num) (by norm_num)
  refine ⟨A4_lu, by norm_num [Uv, ev, rd], lu_multipliers_le_one_rounded hm A4 F4 [1, 0] 2 rfl A4_lu,
    _, rfl, ?_⟩
  refine luRoute_backward_error_norm hm A4 F4 [⟨1⟩, ⟨1⟩] _ [1, 0] 2 rfl rfl A4_lu F4_pivots rfl
    (by rw [Mout_u]; norm_num) (707 / 100) ?_
  intro j hj
  have h : j = 0 ∨ j = 1 := by omega
  rcases h with rfl | rfl <;>
    (simp only [Finset.sum_range_succ, Finset.sum_range_zero]; norm_num [Uv, ev, rd])

/-- the `f64` note is about a satisfiable hypothesis: a model with `u = 2⁻⁵³` exists, and at `n = 32` the
constant of `solve` is below `1.1·10⁻¹⁴` -/
example : ∃ M : FlModel, M.u = 1 / 2 ^ 53 ∧ M.γ (3 * 32) ≤ 1.1e-14 :=
  ⟨FlModel.inflate (1 / 2 ^ 53) (by norm_num) (by norm_num), rfl,
    (f64_note _ rfl 32 (le_refl 32)).2.1⟩

end Examples

end Cv.RoundingLU
