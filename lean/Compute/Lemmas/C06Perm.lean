import Compute.Props.C06
/-
C06, permutation invariance lifted from the four building blocks (`dbeta_perm`, `ddbeta_perm`, `deviance_perm`,
`mean_perm` in `Props/C06.lean`) to one whole pass of the scoring loop: on the row-permuted problem a pass from the
same coefficients produces the same new coefficients, penalised deviance, counters and convergence flag, and the
permuted `mu`, `dmu`, `var`.
-/
set_option linter.unusedSectionVars false
namespace Cv.C06
open Cv Cv.Vops Cv.Glm Cv.C06L

variable {α : Type} [Field α] [LT α] [DecidableLT α] [BEq α] [Transc α] [GlmScalar α] [Inhabited α]
variable {n : Nat} (σ : Equiv.Perm (Fin n))

/-- the same problem with its observations reordered -/
def permProblem (P : Problem α) : Problem α :=
  { P with x := permRows σ P.x P.p, y := permVec σ P.y, weights := permVec σ P.weights,
           offsets := P.offsets.map (permVec σ) }

/-- reorder the per-observation vectors carried by the loop state -/
def permState (s : LoopState α) : LoopState α :=
  { s with mu := permVec σ s.mu, dmu := permVec σ s.dmu, var := permVec σ s.var }

theorem offAt_perm (off : Option (List α)) (i : Nat) (hi : i < n) :
    offAt (off.map (permVec σ)) i = offAt off (permIdx σ i) := by
  cases off with
  | none => rfl
  | some o => simp only [Option.map_some, offAt]; exact permVec_get σ o i hi

theorem linearPredictor_perm (x coef : List α) (p : Nat) (off : Option (List α)) (hn : 0 < n) (hp : 0 < p)
    (hx : x.length = n * p) (hc : coef.length = p) (ho : ∀ o, off = some o → o.length = n) (eta : List α)
    (he : linearPredictor x coef n p off = some eta) :
    linearPredictor (permRows σ x p) coef n p (off.map (permVec σ)) = some (permVec σ eta) := by
  obtain ⟨e, he1, hel, hee⟩ := linearPredictor_spec x coef n p off hn hp hx hc ho
  rw [he] at he1
  obtain rfl := Option.some.inj he1
  obtain ⟨e', he1', hel', hee'⟩ := linearPredictor_spec (permRows σ x p) coef n p (off.map (permVec σ)) hn hp
    (permRows_length σ x p) hc (by
      intro o h
      cases off with
      | none => simp at h
      | some o' => simp only [Option.map_some, Option.some.injEq] at h; subst h; exact permVec_length σ o')
  rw [he1']
  congr 1
  apply ext_getBang (by rw [hel', permVec_length])
  intro i hi
  have hi' : i < n := by omega
  rw [hee' i hi', permVec_get σ eta i hi', hee _ (permIdx_lt σ hi'), offAt_perm σ off i hi']
  congr 1
  apply Finset.sum_congr rfl
  intro j hj
  rw [permRows_get σ x p i j hi' (Finset.mem_range.mp hj)]

theorem penalizedDeviance_perm (f : Family) (y mu : List α) (alpha : α) (coef : List α) (hy : y.length = n)
    (hmu : mu.length = n) :
    penalizedDeviance f (permVec σ y) (permVec σ mu) alpha coef = penalizedDeviance f y mu alpha coef := by
  unfold penalizedDeviance
  rw [deviance_perm σ f y mu hy hmu]

/-- **loopBody_perm.** One pass of the scoring loop on the row-permuted problem. -/
theorem loopBody_perm (solve : List α → List α → Option (List α)) (P : Problem α) (st : LoopState α)
    (hPn : P.n = n) (hn : 0 < n) (hp : 0 < P.p) (hx : P.x.length = n * P.p) (hy : P.y.length = n)
    (hw : P.weights.length = n) (hc : st.coef.length = P.p) (ho : ∀ o, P.offsets = some o → o.length = n) :
    loopBody solve (permProblem σ P) st = (loopBody solve P st).map (permState σ) := by
  obtain ⟨eta, he, hel, _⟩ := linearPredictor_spec P.x st.coef n P.p P.offsets hn hp hx hc ho
  have hA := linearPredictor_perm σ P.x st.coef P.p P.offsets hn hp hx hc ho eta he
  have hmu : (invLink P.family eta).length = n := by rw [invLink_length, hel]
  have hdm : (dInvLink P.family eta (invLink P.family eta)).length = n := by
    rw [dInvLink_length _ _ _ (by rw [hmu, hel]), hmu]
  have hvr : (variance P.family (invLink P.family eta)).length = n := by rw [variance_length, hmu]
  have e1 : invLink P.family (permVec σ eta) = permVec σ (invLink P.family eta) := by
    rw [invLink_eq, invLink_eq, permVec_map σ _ eta hel]
  have e2 : dInvLink P.family (permVec σ eta) (permVec σ (invLink P.family eta)) =
      permVec σ (dInvLink P.family eta (invLink P.family eta)) := by
    rw [dInvLink_eq _ _ _ (by rw [permVec_length, permVec_length]), dInvLink_eq _ _ _ (by rw [hmu, hel]),
      permVec_map σ _ _ hmu]
  have e3 : variance P.family (permVec σ (invLink P.family eta)) = permVec σ (variance P.family (invLink P.family eta)) := by
    rw [variance_eq, variance_eq, permVec_map σ _ _ hmu]
  have e4 := dbeta_perm σ P.x P.y (invLink P.family eta) (dInvLink P.family eta (invLink P.family eta))
    (variance P.family (invLink P.family eta)) P.weights P.p hn hx hy hmu hdm hvr hw
  have e5 := ddbeta_perm σ P.x (dInvLink P.family eta (invLink P.family eta))
    (variance P.family (invLink P.family eta)) P.weights P.p hn hx hdm hvr hw
  have e6 := fun coef => penalizedDeviance_perm σ P.family P.y (invLink P.family eta) P.alpha coef hy hmu
  subst hPn
  simp only [loopBody, permProblem, hA, he, Option.bind_eq_bind, Option.bind_some, e1, e2, e3, e4, e5, e6]
  cases computeDbeta P.x P.y (invLink P.family eta) (dInvLink P.family eta (invLink P.family eta))
      (variance P.family (invLink P.family eta)) P.weights with
  | none => rfl
  | some dbeta =>
    cases computeDdbeta P.x (dInvLink P.family eta (invLink P.family eta))
        (variance P.family (invLink P.family eta)) P.weights with
    | none => rfl
    | some ddbeta =>
      simp only [Option.bind_some]
      cases solve (penalised P.alpha P.p st.coef dbeta ddbeta).2 (penalised P.alpha P.p st.coef dbeta ddbeta).1 with
      | none => rfl
      | some s =>
        simp only [Option.bind_some]
        cases Vops.vbin (· - ·) st.coef s with
        | none => rfl
        | some coef =>
          simp only [Option.bind_some]
          cases penalizedDeviance P.family P.y (invLink P.family eta) P.alpha coef with
          | none => rfl
          | some pd => rfl

/-- a pass does not read the per-observation vectors of the incoming state -/
theorem loopBody_permState (solve : List α → List α → Option (List α)) (Q : Problem α) (st : LoopState α) :
    loopBody solve Q (permState σ st) = loopBody solve Q st := rfl

theorem fitLoop_permState (solve : List α → List α → Option (List α)) (Q : Problem α) (k : Nat) (st : LoopState α) :
    fitLoop solve Q k (permState σ st) = fitLoop solve Q k st := by
  cases k with
  | zero => rfl
  | succ k => unfold fitLoop; rw [loopBody_permState]

theorem loopBody_coef_length {solve : List α → List α → Option (List α)} {P : Problem α} {st st' : LoopState α}
    (h : loopBody solve P st = some st') : st'.coef.length = st.coef.length := by
  obtain ⟨eta, dbeta, ddbeta, s, coef, pd, _, _, _, _, h5, _, h7⟩ := loopBody_some h
  obtain ⟨hl, hcoef⟩ := vbin_some h5
  subst h7
  simp only [hcoef, List.length_zipWith]
  omega

/-- **fitLoop_perm.** Every iterate of the scoring loop is invariant under a permutation of the observations: the whole
loop on the row-permuted problem returns the same coefficients, penalised deviances, iteration count and convergence flag
(and the permuted `mu`, `dmu`, `var`). -/
theorem fitLoop_perm (solve : List α → List α → Option (List α)) (P : Problem α)
    (hPn : P.n = n) (hn : 0 < n) (hp : 0 < P.p) (hx : P.x.length = n * P.p) (hy : P.y.length = n)
    (hw : P.weights.length = n) (ho : ∀ o, P.offsets = some o → o.length = n) :
    ∀ (k : Nat) (st : LoopState α), st.coef.length = P.p →
      fitLoop solve (permProblem σ P) k st = (fitLoop solve P k st).map (permState σ) := by
  intro k
  induction k with
  | zero =>
    intro st hc
    exact loopBody_perm σ solve P st hPn hn hp hx hy hw hc ho
  | succ k ih =>
    intro st hc
    unfold fitLoop
    rw [loopBody_perm σ solve P st hPn hn hp hx hy hw hc ho]
    cases hb : loopBody solve P st with
    | none => rfl
    | some st1 =>
      simp only [Option.map_some]
      have hc1 : st1.coef.length = P.p := by rw [loopBody_coef_length hb, hc]
      have hcv : (permState σ st1).converged = st1.converged := rfl
      rw [hcv]
      by_cases hconv : st1.converged = true
      · simp [hconv]
      · simp only [hconv, Bool.false_eq_true, if_false]
        rw [fitLoop_permState, ih st1 hc1]

/-! ### non-vacuity: an exact solver exists, and the model runs to a fixed point / to the error branch over `ℚ` -/

section examples
local instance : Transc ℚ := ⟨id, id, id, fun a _ => a, id, id, id, abs, id, id⟩
local instance : GlmScalar ℚ := ⟨fun _ => false, fun q => q.floor.toNat⟩

/-- the exact `1 × 1` solver -/
def solve1 (H g : List ℚ) : Option (List ℚ) :=
  match H, g with
  | [h], [b] => if h = 0 then none else some [b / h]
  | _, _ => none

/-- the hypothesis of `fixed_point_iff_score` / `gaussian_normal_equations` is satisfiable -/
example : SolvesExactly solve1 1 := by
  intro H g s hg hs
  match H, g, hs with
  | [h], [b], hs =>
    simp only [solve1] at hs
    by_cases h0 : h = 0
    · simp [h0] at hs
    · simp only [h0, if_false, Option.some.injEq] at hs
      subst hs
      refine ⟨rfl, ?_, ?_⟩
      · simp [mulVecL, mul_div_cancel₀ _ h0]
      · intro v hv hz
        match v, hv with
        | [a], _ =>
          simp [mulVecL, h0] at hz
          simp [hz]

/-- `Ok` branch of `fit_result` / `fit_ok_converged`: intercept-only Gaussian fit = the mean, deviance = RSS -/
example : (fit solve1 .gaussian [1, 1, 1] [1, 2, 4] none none 0 (1/100) 10).map
    (fun r => (r.ok, r.coef, r.deviance, r.nIter, r.n, r.p)) = some (true, [7/3], 14/3, 2, 3, 1) := by decide +kernel

/-- `Err` branch of `fit_result`: the same problem with `max_iter = 1` -/
example : (fit solve1 .gaussian [1, 1, 1] [1, 2, 4] none none 0 (1/100) 1).map
    (fun r => (r.ok, r.coef, r.nIter)) = some (false, [7/3], 1) := by decide +kernel

/-- a panic: the first column is not all ones -/
example : fit solve1 .gaussian [1, 2, 1] [1, 2, 4] none none 0 (1/100) 10 = none := by decide +kernel

end examples

end Cv.C06
