import Compute.Lemmas.CholCorrect
/-
Completeness / uniqueness of the Cholesky sweep: if `A = G·Gᵀ` for some lower-triangular `G` with positive
diagonal, the sweep does not fail and returns exactly `G` (`cholLoops n (G·Gᵀ) = some G`).
-/
set_option linter.unusedSectionVars false
namespace Cv.LA
open Finset

section
variable {F : Type} [Field F] [LinearOrder F] [IsStrictOrderedRing F] [Transc F] [BEq F] [ReflBEq F]

/-- `g` is a Cholesky factor of (the lower triangle of) `a`: lower triangular, positive diagonal, `G·Gᵀ = A`. -/
structure IsCholFactor (n : Nat) (a g : List F) : Prop where
  len : g.length = n * n
  low : ∀ r c, r < n → c < n → r < c → rd g (r * n + c) = 0
  diag : ∀ r, r < n → 0 < rd g (r * n + r)
  prod : ∀ i j, j ≤ i → i < n → ∑ k ∈ range n, rd g (i * n + k) * rd g (j * n + k) = rd a (i * n + j)

/-- the product row formula cut at the diagonal of the shorter row -/
theorem IsCholFactor.prod_cut {n : Nat} {a g : List F} (hg : IsCholFactor n a g) (i j : Nat) (hji : j ≤ i)
    (hi : i < n) :
    (∑ k ∈ range j, rd g (j * n + k) * rd g (i * n + k)) + rd g (i * n + j) * rd g (j * n + j) = rd a (i * n + j) := by
  rw [← hg.prod i j hji hi]
  have hcut : ∑ k ∈ range n, rd g (i * n + k) * rd g (j * n + k) =
      ∑ k ∈ range (j + 1), rd g (i * n + k) * rd g (j * n + k) := by
    symm
    apply Finset.sum_subset (Finset.range_subset_range.mpr (by omega))
    intro k hk hk'
    have h1 := Finset.mem_range.mp hk
    have h2 : ¬ k < j + 1 := fun hh => hk' (Finset.mem_range.mpr hh)
    rw [hg.low j k (by omega) h1 (by omega), mul_zero]
  rw [hcut, Finset.sum_range_succ]
  congr 1
  exact Finset.sum_congr rfl fun k _ => mul_comm _ _

/-- invariant: all cells before `(i,j)` (row-major, lower triangle) already hold the entries of `g` -/
def Agree (n : Nat) (g l : List F) (i j : Nat) : Prop :=
  l.length = n * n ∧ (∀ r c, r < n → c < n → r < c → rd l (r * n + c) = 0) ∧
    ∀ r c, c ≤ r → r < n → (r < i ∨ (r = i ∧ c < j)) → rd l (r * n + c) = rd g (r * n + c)

/-- `sqrt` undoes squaring on the diagonal of `g` (all the sweep asks of `sqrt` on this input) -/
def SqrtExactOnDiag (n : Nat) (g : List F) : Prop :=
  ∀ r, r < n → Transc.sqrt (rd g (r * n + r) * rd g (r * n + r)) = rd g (r * n + r)

/-- a `sqrt` that is positive and exact on positives undoes squaring of positives -/
theorem sqrt_mul_self (hpos : ∀ x : F, 0 < x → 0 < Transc.sqrt x)
    (hs : ∀ x : F, 0 < x → Transc.sqrt x * Transc.sqrt x = x) (y : F) (hy : 0 < y) : Transc.sqrt (y * y) = y := by
  have hyy : 0 < y * y := mul_pos hy hy
  have h1 := hs _ hyy
  have h2 := hpos _ hyy
  have : (Transc.sqrt (y * y) - y) * (Transc.sqrt (y * y) + y) = 0 := by ring_nf; ring_nf at h1; rw [h1]; ring
  rcases mul_eq_zero.mp this with h | h
  · exact sub_eq_zero.mp h
  · linarith

theorem cholCell_agree (n : Nat) (a g l : List F)
    (hg : IsCholFactor n a g) (hsg : SqrtExactOnDiag n g) (i j : Nat) (hi : i < n) (hj : j ≤ i) (hw : Agree n g l i j) :
    ∃ l', cholCell n a l i j = some l' ∧ Agree n g l' i (j + 1) := by
  obtain ⟨hlen, hupper, hcells⟩ := hw
  have hjn : j < n := by omega
  have hidx : i * n + j < l.length := by rw [hlen, Nat.mul_comm n n]; exact idx_lt' hjn hi
  have hrow : ∀ t, t < n → t * n + j ≤ l.length := by
    intro t ht
    have : t * n + j < l.length := by rw [hlen, Nat.mul_comm n n]; exact idx_lt' hjn ht
    omega
  have hdot : dot8 ((l.drop (j * n)).take j) ((l.drop (i * n)).take j) =
      ∑ k ∈ range j, rd g (j * n + k) * rd g (i * n + k) := by
    rw [dot8_rows l (j * n) (i * n) j (hrow j hjn) (hrow i hi)]
    apply Finset.sum_congr rfl
    intro k hk
    have hk' := Finset.mem_range.mp hk
    have e1 : rd l (j * n + k) = rd g (j * n + k) := by
      apply hcells j k (by omega) hjn
      rcases Nat.lt_or_eq_of_le hj with h | h
      · exact Or.inl h
      · exact Or.inr ⟨h, hk'⟩
    have e2 : rd l (i * n + k) = rd g (i * n + k) := hcells i k (by omega) hi (Or.inr ⟨rfl, hk'⟩)
    rw [e1, e2]
  have hcut := hg.prod_cut i j hj hi
  -- the value written is g[i,j]
  have hval : ∃ v, cholCell n a l i j = some (l.set (i * n + j) v) ∧ v = rd g (i * n + j) := by
    unfold cholCell
    by_cases hij : i = j
    · subst hij
      have hpiv : rd a (i * n + i) - ∑ k ∈ range i, rd g (i * n + k) * rd g (i * n + k) =
          rd g (i * n + i) * rd g (i * n + i) := by rw [← hcut]; ring
      have hd := hg.diag i hi
      have hpp : 0 < rd g (i * n + i) * rd g (i * n + i) := mul_pos hd hd
      simp only [if_true, hdot, hpiv, isNan, beq_self_eq_true, Bool.not_true, Bool.false_eq_true, or_false,
        not_le.mpr hpp, if_false]
      exact ⟨_, rfl, hsg i hi⟩
    · simp only [hij, if_false, hdot]
      refine ⟨_, rfl, ?_⟩
      have hjj : rd l (j * n + j) = rd g (j * n + j) :=
        hcells j j (Nat.le_refl j) hjn (Or.inl (by omega))
      have hd : rd g (j * n + j) ≠ 0 := ne_of_gt (hg.diag j hjn)
      rw [hjj, ← hcut]
      field_simp
      ring
  obtain ⟨v, hc, hv⟩ := hval
  refine ⟨_, hc, by simp [hlen], ?_, ?_⟩
  · intro r c hr hcn hrc
    rw [rd_set_cell l n i j r c v hjn hcn (by omega) hidx]
    exact hupper r c hr hcn hrc
  intro r c hcr hrn hlt
  by_cases hnew : r = i ∧ c = j
  · obtain ⟨hr, hc'⟩ := hnew
    subst hr; subst hc'
    rw [rd_set _ _ _ _ hidx, if_pos rfl, hv]
  · rw [rd_set_cell l n i j r c v hjn (by omega) hnew hidx]
    apply hcells r c hcr hrn
    rcases hlt with h1 | ⟨h1, h2⟩
    · exact Or.inl h1
    · refine Or.inr ⟨h1, ?_⟩
      rcases Nat.lt_succ_iff_lt_or_eq.mp h2 with h3 | h3
      · exact h3
      · exact absurd ⟨h1, h3⟩ hnew

theorem cholCells_agree (n : Nat) (a g : List F)
    (hg : IsCholFactor n a g) (hsg : SqrtExactOnDiag n g) (i : Nat) (hi : i < n) (m : Nat) (hm : m ≤ i + 1) (l : List F)
    (hw : Agree n g l i 0) :
    ∃ l', (List.range m).foldlM (fun l j => cholCell n a l i j) l = some l' ∧ Agree n g l' i m := by
  induction m with
  | zero => exact ⟨l, rfl, hw⟩
  | succ m ih =>
    obtain ⟨l1, h1, hw1⟩ := ih (by omega)
    obtain ⟨l2, h2, hw2⟩ := cholCell_agree n a g l1 hg hsg i m hi (by omega) hw1
    refine ⟨l2, ?_, hw2⟩
    rw [List.range_succ, List.foldlM_append, h1]
    simp only [Option.bind_eq_bind, Option.bind_some, List.foldlM_cons, List.foldlM_nil, h2, Option.pure_def]

theorem cholRows_agree (n : Nat) (a g : List F)
    (hg : IsCholFactor n a g) (hsg : SqrtExactOnDiag n g) (k : Nat) (hk : k ≤ n) (l0 : List F) (hw : Agree n g l0 0 0) :
    ∃ l', (List.range k).foldlM (fun l i => cholRow n a l i) l0 = some l' ∧ Agree n g l' k 0 := by
  induction k with
  | zero => exact ⟨l0, rfl, hw⟩
  | succ k ih =>
    obtain ⟨l1, h1, hw1⟩ := ih (by omega)
    obtain ⟨l2, h2, hlen, hupper, hcells⟩ := cholCells_agree n a g hg hsg k (by omega) (k + 1) (Nat.le_refl _) l1 hw1
    refine ⟨l2, ?_, hlen, hupper, fun r c hcr hrn hlt => hcells r c hcr hrn ?_⟩
    · rw [List.range_succ, List.foldlM_append, h1]
      have h2' : cholRow n a l1 k = some l2 := h2
      simp only [Option.bind_eq_bind, Option.bind_some, List.foldlM_cons, List.foldlM_nil, Option.pure_def, h2']
    · rcases hlt with h3 | ⟨_, h4⟩
      · rcases Nat.lt_succ_iff_lt_or_eq.mp h3 with h5 | h5
        · exact Or.inl h5
        · exact Or.inr ⟨h5, by omega⟩
      · omega

/-- **Completeness and uniqueness of the sweep**: on `A = G·Gᵀ` (`G` lower triangular, positive diagonal) the
sweep succeeds and returns `G` itself. -/
theorem cholLoops_of_factor (n : Nat) (a g : List F)
    (hg : IsCholFactor n a g) (hsg : SqrtExactOnDiag n g) : cholLoops n a = some g := by
  have h0 : Agree n g (List.replicate (n * n) (0 : F)) 0 0 := by
    refine ⟨by simp, ?_, fun r c _ _ hlt => by omega⟩
    intro r c _ _ _
    simp only [rd, List.getD_eq_getElem?_getD, List.getElem?_replicate]
    split <;> rfl
  obtain ⟨l, hl, hlen, hup, hcells⟩ := cholRows_agree n a g hg hsg n (Nat.le_refl n) _ h0
  have hl' : cholLoops n a = some l := hl
  rw [hl']
  congr 1
  apply List.ext_getElem (by rw [hlen, hg.len])
  intro k h1 h2
  rw [← rd_eq_getElem l k h1, ← rd_eq_getElem g k h2]
  have hk : k < n * n := by rw [← hlen]; exact h1
  have hn : 0 < n := by
    rcases Nat.eq_zero_or_pos n with h | h
    · subst h; simp at hk
    · exact h
  have hr : k / n < n := Nat.div_lt_of_lt_mul hk
  have hc : k % n < n := Nat.mod_lt _ hn
  have hkd : k / n * n + k % n = k := by rw [Nat.mul_comm]; exact Nat.div_add_mod k n
  rw [← hkd]
  rcases Nat.lt_or_ge (k / n) (k % n) with hlt | hge
  · rw [hup _ _ hr hc hlt, hg.low _ _ hr hc hlt]
  · exact hcells _ _ hge hr (Or.inl hr)

theorem sqrtExactOnDiag_of_exact (hpos : ∀ x : F, 0 < x → 0 < Transc.sqrt x)
    (hs : ∀ x : F, 0 < x → Transc.sqrt x * Transc.sqrt x = x) (n : Nat) (a g : List F)
    (hg : IsCholFactor n a g) : SqrtExactOnDiag n g :=
  fun r hr => sqrt_mul_self hpos hs _ (hg.diag r hr)

end
end Cv.LA
