import Compute.Lemmas.AcovfRounding
import Compute.Lemmas.LogRounding
/-
Rounded-arithmetic versions of the two normalisation facts of property C13 about the autocorrelation
`timeseries::acf` (`TS.acf`): "equal 1 at lag 0" and "never exceed it in magnitude".

Numerator and denominator of `acf` are built from the *same* computed deviations `dᵢ = fl(xᵢ − m̂)`, so
both statements hold up to a few rounding factors whatever the error of the computed mean `m̂`:

* `acf_abs_le`           `|acf(ts, k)| ≤ 1 + γ_{(n−k)+n+9}`            (standard model only)
* `acf_zero_error`       `|acf(ts, 0) − 1| ≤ γ_{2n+9}`                 (standard model only)
* `acf_zero_error_idem`  `|acf(ts, 0) − 1| ≤ γ_4`, independent of `n`  (idempotent rounding: numerator
                          and denominator are the *same* floating-point sum)

Hypothesis of all three: the computed deviations are not all zero (otherwise the code divides `0/0`).
-/
namespace Cv.Rounding3
open Cv Cv.FlModel Cv.Rounding

variable {M : FlModel}

/-- `powi(y, 2)` is `1 * (y * y)` (square-and-multiply with the accumulator starting at `1`) -/
theorem powi_two (d : Fl M) : powi d 2 = 1 * (d * d) := rfl

/-- the computed deviations `xᵢ ⊖ m̂` -/
noncomputable def devs (ts : List (Fl M)) : List (Fl M) := ts.map (· - TS.mean ts)

/-- exact sum of squares of the computed deviations -/
noncomputable def devSq (ts : List (Fl M)) : ℝ := ((devs ts).map fun d => d.val * d.val).sum

theorem devs_length (ts : List (Fl M)) : (devs ts).length = ts.length := by simp [devs]

/-- `acf` in terms of the computed deviations -/
theorem acf_unfold (ts : List (Fl M)) (k : Int) :
    TS.acf ts k =
      (1 / (ts.length : Fl M) * iterSum (List.zipWith (· * ·) ((devs ts).drop k.natAbs) (devs ts))) /
        (iterSum ((devs ts).map fun d => 1 * (d * d)) / (ts.length : Fl M)) := by
  unfold TS.acf TS.lagProducts devs
  simp only [powi_two]
  rw [← List.map_drop, List.zipWith_map, List.map_map]
  rfl

/-! ### list inequalities -/

theorem sq_sum_nonneg (A : List (Fl M)) : 0 ≤ (A.map fun a => a.val * a.val).sum :=
  List.sum_nonneg (by
    intro t ht
    obtain ⟨a, _, rfl⟩ := List.mem_map.mp ht
    exact mul_self_nonneg _)

/-- `Σ |aᵢ bᵢ| ≤ (Σ aᵢ² + Σ bᵢ²)/2` (lists of any lengths; `zip` truncates) -/
theorem prods_abs_le (A B : List (Fl M)) :
    ((prods A B).map (|·|)).sum ≤
      ((A.map fun a => a.val * a.val).sum + (B.map fun a => a.val * a.val).sum) / 2 := by
  induction A generalizing B with
  | nil =>
    have := sq_sum_nonneg B
    simp [prods]; linarith
  | cons a A ih =>
    cases B with
    | nil =>
      have := sq_sum_nonneg (a :: A)
      simp only [prods, List.zipWith_nil_right, List.map_nil, List.sum_nil] at this ⊢
      simp only [add_zero]
      linarith
    | cons b B =>
      have h1 := ih B
      have h2 : |a.val * b.val| ≤ (a.val * a.val + b.val * b.val) / 2 := by
        rw [abs_le]
        constructor <;> nlinarith [sq_nonneg (a.val - b.val), sq_nonneg (a.val + b.val)]
      simp only [prods, List.zipWith_cons_cons, List.map_cons, List.sum_cons] at h1 ⊢
      linarith

theorem sum_sq_drop_le (A : List (Fl M)) (k : Nat) :
    ((A.drop k).map fun a => a.val * a.val).sum ≤ (A.map fun a => a.val * a.val).sum := by
  induction k generalizing A with
  | zero => simp
  | succ k ih =>
    cases A with
    | nil => simp
    | cons a A =>
      simp only [List.drop_succ_cons, List.map_cons, List.sum_cons]
      have := ih A
      nlinarith [mul_self_nonneg a.val]

/-- upper bound of a perturbed sum: `|v|·(1−u)^k ≤ Σ|xᵢ|` -/
theorem pert_abs_mul_le {k : Nat} {v : ℝ} {xs : List ℝ} (h : M.Pert k v xs) :
    |v| * (1 - M.u) ^ k ≤ (xs.map (|·|)).sum := by
  obtain ⟨fs, hl, hf, rfl⟩ := h
  induction xs generalizing fs with
  | nil => simp
  | cons x xs ih =>
    cases fs with
    | nil => simp at hl
    | cons f fs =>
      have h1 := ih fs (by simpa using hl) (fun g hg => hf g (by simp [hg]))
      have hfac := hf f (by simp)
      have hc := (M.pow_pos' k).le
      simp only [List.zipWith_cons_cons, List.sum_cons, List.map_cons]
      have h2 : |x * f| * (1 - M.u) ^ k ≤ |x| := by
        rw [abs_mul, abs_of_pos hfac.pos, mul_assoc]
        calc |x| * (f * (1 - M.u) ^ k) ≤ |x| * 1 := mul_le_mul_of_nonneg_left hfac.2 (abs_nonneg _)
          _ = |x| := mul_one _
      calc |x * f + (List.zipWith (· * ·) xs fs).sum| * (1 - M.u) ^ k
          ≤ (|x * f| + |(List.zipWith (· * ·) xs fs).sum|) * (1 - M.u) ^ k :=
            mul_le_mul_of_nonneg_right (abs_add_le _ _) hc
        _ = |x * f| * (1 - M.u) ^ k + |(List.zipWith (· * ·) xs fs).sum| * (1 - M.u) ^ k := by ring
        _ ≤ |x| + (xs.map (|·|)).sum := add_le_add h2 h1

/-- two roundings per term `1 * (d * d)` -/
theorem sq_terms_factor (ds : List (Fl M)) :
    ∃ gs : List ℝ, gs.length = (ds.map fun d => d.val * d.val).length ∧ (∀ g ∈ gs, M.Fac 2 g) ∧
      vals (ds.map fun d => 1 * (d * d)) = List.zipWith (· * ·) (ds.map fun d => d.val * d.val) gs := by
  induction ds with
  | nil => exact ⟨[], by simp, by simp, by simp⟩
  | cons d ds ih =>
    obtain ⟨gs, hl, hg, he⟩ := ih
    obtain ⟨δ1, hδ1, h1⟩ := M.std (d.val * d.val)
    obtain ⟨δ2, hδ2, h2⟩ := M.std (1 * M.rnd (d.val * d.val))
    refine ⟨((1 + δ1) * (1 + δ2)) :: gs, by simpa using hl, ?_, ?_⟩
    · intro g hgm
      rcases List.mem_cons.mp hgm with rfl | hgm
      · exact (Fac.one_add hδ1).mul (Fac.one_add hδ2)
      · exact hg g hgm
    · simp only [vals, List.map_cons, List.zipWith_cons_cons, Fl.mul_val, Fl.one_val] at he ⊢
      rw [he, h2, h1]
      congr 1
      ring

/-! ### numerator and denominator -/

/-- the computed lagged sum: `|I_k|·(1−u)^{(n−k)+1} ≤ Σ dᵢ²` -/
theorem lagSum_abs_le (ts : List (Fl M)) (k : Nat) :
    |(iterSum (List.zipWith (· * ·) ((devs ts).drop k) (devs ts))).val| *
        (1 - M.u) ^ (ts.length - k + 1) ≤ devSq ts := by
  obtain ⟨gs, hl, hg, he⟩ := prods_factor ((devs ts).drop k) (devs ts)
  have hp := Rounding2.iterSum_pert (List.zipWith (· * ·) ((devs ts).drop k) (devs ts))
  rw [he] at hp
  have hlen : (List.zipWith (· * ·) ((devs ts).drop k) (devs ts)).length = ts.length - k := by
    simp [devs_length]
  rw [hlen] at hp
  have hp' := Pert.comp _ gs _ hl hg hp
  rw [Nat.add_comm 1 (ts.length - k)] at hp'
  refine le_trans (pert_abs_mul_le hp') ?_
  refine le_trans (prods_abs_le _ _) ?_
  have := sum_sq_drop_le (devs ts) k
  unfold devSq
  linarith

/-- the computed sum of squares `I₂ ∈ [(1−u)^{n+2}·Σdᵢ², Σdᵢ²/(1−u)^{n+2}]` -/
theorem sqSum_near (ts : List (Fl M)) :
    Near ((1 - M.u) ^ (ts.length + 2)) (devSq ts)
      (iterSum ((devs ts).map fun d => 1 * (d * d))).val := by
  obtain ⟨gs, hl, hg, he⟩ := sq_terms_factor (devs ts)
  have hp := Rounding2.iterSum_pert ((devs ts).map fun d => 1 * (d * d))
  rw [he] at hp
  simp only [List.length_map, devs_length] at hp
  have hp' := Pert.comp _ gs _ hl hg hp
  rw [Nat.add_comm 2 ts.length] at hp'
  exact Near.of_pert hp' (by
    intro t ht
    obtain ⟨d, _, rfl⟩ := List.mem_map.mp ht
    exact mul_self_nonneg _)

/-- the computed denominator `D̂ ∈ [(1−u)^{n+4}·Q/n, (Q/n)/(1−u)^{n+4}]`, `Q = Σ dᵢ²` -/
theorem acfDen_near (ts : List (Fl M)) (hn : 0 < ts.length) :
    Near ((1 - M.u) ^ (ts.length + 4)) (devSq ts / ts.length)
      (iterSum ((devs ts).map fun d => 1 * (d * d)) / (ts.length : Fl M)).val := by
  have h1 := sqSum_near ts
  have hn0 : (0 : ℝ) < ts.length := Nat.cast_pos.mpr hn
  have hQ0 : 0 ≤ devSq ts := sq_sum_nonneg _
  have hI0 : 0 ≤ (iterSum ((devs ts).map fun d => 1 * (d * d))).val := by
    have := h1.1
    exact le_trans (mul_nonneg (M.pow_pos' _).le hQ0) this
  have h1' : Near ((1 - M.u) ^ (ts.length + 2)) (devSq ts / ts.length)
      ((iterSum ((devs ts).map fun d => 1 * (d * d))).val / ts.length) := by
    have := Near.div (M.pow_pos' (ts.length + 2)) one_pos hQ0 hn0 h1
      (⟨by simp, by simp⟩ : Near 1 (ts.length : ℝ) ts.length)
    simpa using this
  have h2 := div_natCast_near (iterSum ((devs ts).map fun d => 1 * (d * d))) ts.length hI0 hn
  have := Near.trans (M.pow_pos' _).le (M.pow_pos' 2).le h1' h2
  rwa [← pow_add] at this

/-- the computed numerator is `I_k/n` times a 3-fold rounding factor -/
theorem acfNum_fac (ts : List (Fl M)) (I : Fl M) :
    ∃ F : ℝ, M.Fac 3 F ∧ (1 / (ts.length : Fl M) * I).val = I.val / ts.length * F := by
  obtain ⟨δ1, hδ1, h1⟩ := M.std (1 / M.rnd (ts.length : ℝ))
  obtain ⟨δ2, hδ2, h2⟩ := M.std (ts.length : ℝ)
  obtain ⟨δ3, hδ3, h3⟩ := M.std (M.rnd (1 / M.rnd (ts.length : ℝ)) * I.val)
  refine ⟨(1 + δ1) * (1 + δ2)⁻¹ * (1 + δ3),
    ((Fac.one_add hδ1).mul (Fac.one_add hδ2).inv).mul (Fac.one_add hδ3), ?_⟩
  show M.rnd (M.rnd (1 / M.rnd (ts.length : ℝ)) * I.val) = _
  rw [h3, h1, h2, one_div, mul_inv]
  ring

/-- `1/(1−u)^j ≤ 1 + γ_j` -/
theorem inv_pow_le (M : FlModel) (j : Nat) (hj : (j : ℝ) * M.u < 1) :
    ((1 - M.u) ^ j)⁻¹ ≤ 1 + M.γ j := by
  have hfac : M.Fac j ((1 - M.u) ^ j) := ⟨le_refl _, by nlinarith [M.pow_le_one'' j, M.pow_pos' j]⟩
  have := (abs_le.mp (hfac.inv.abs_sub_one_le hj)).2
  linarith

/-! ### the theorems -/

/-- **The computed autocorrelation never exceeds 1 by more than rounding** (standard model only):
`|acf(ts, k)| ≤ 1/(1−u)^{(n−k)+n+9} ≤ 1 + γ_{(n−k)+n+9}` for every lag, *whatever the error of the
computed mean* (numerator and denominator use the same computed deviations; Cauchy–Schwarz holds for
them exactly).  Hypothesis: the computed deviations are not all zero. -/
theorem acf_abs_le (ts : List (Fl M)) (k : Int) (hn : 0 < ts.length) (hQ : 0 < devSq ts)
    (h : ((ts.length - k.natAbs + ts.length + 9 : Nat) : ℝ) * M.u < 1) :
    |(TS.acf ts k).val| ≤ 1 + M.γ (ts.length - k.natAbs + ts.length + 9) := by
  set κ := k.natAbs with hκ
  set w := 1 - M.u with hw
  have hw0 : 0 < w := M.one_sub_u_pos
  have hn0 : (0 : ℝ) < ts.length := Nat.cast_pos.mpr hn
  set Ia := iterSum (List.zipWith (· * ·) ((devs ts).drop κ) (devs ts)) with hIa
  set De := iterSum ((devs ts).map fun d => 1 * (d * d)) / (ts.length : Fl M) with hDe
  obtain ⟨F, hF, hNu⟩ := acfNum_fac ts Ia
  have hden := acfDen_near ts hn
  have hE : 0 < De.val := hden.pos (M.pow_pos' _) (div_pos hQ hn0)
  obtain ⟨δ, hδ, hr⟩ := M.std ((1 / (ts.length : Fl M) * Ia).val / De.val)
  have hval : (TS.acf ts k).val = Ia.val / ts.length * F / De.val * (1 + δ) := by
    rw [acf_unfold]
    show M.rnd ((1 / (ts.length : Fl M) * Ia).val / De.val) = _
    rw [hr, hNu]
  have hd := Fac.one_add hδ
  have hdpos := hd.pos
  -- the three bounded pieces
  have a1 : |Ia.val| * w ^ (ts.length - κ + 1) ≤ devSq ts := lagSum_abs_le ts κ
  have a2 : F * w ^ 3 ≤ 1 := hF.2
  have a3 : (1 + δ) * w ≤ 1 := by simpa using hd.2
  have a4 : w ^ (ts.length + 4) * (devSq ts / ts.length) ≤ De.val := hden.1
  have hJ : w ^ (ts.length - κ + ts.length + 9) =
      w ^ (ts.length - κ + 1) * w ^ 3 * w * w ^ (ts.length + 4) := by
    rw [← pow_add, ← pow_succ, ← pow_add]; congr 1; omega
  have habs : |(TS.acf ts k).val| = |Ia.val| / ts.length * F / De.val * (1 + δ) := by
    rw [hval, abs_mul, abs_div, abs_mul, abs_div, abs_of_pos hF.pos, abs_of_pos hE, abs_of_pos hdpos,
      abs_of_pos hn0]
  have key : |(TS.acf ts k).val| * w ^ (ts.length - κ + ts.length + 9) ≤ 1 := by
    rw [habs, hJ]
    have e : |Ia.val| / ts.length * F / De.val * (1 + δ) *
        (w ^ (ts.length - κ + 1) * w ^ 3 * w * w ^ (ts.length + 4)) =
        (|Ia.val| * w ^ (ts.length - κ + 1)) * (F * w ^ 3) * ((1 + δ) * w) *
          (w ^ (ts.length + 4) / (ts.length * De.val)) := by
      field_simp
    rw [e]
    have p1 : 0 ≤ |Ia.val| * w ^ (ts.length - κ + 1) := mul_nonneg (abs_nonneg _) (pow_pos hw0 _).le
    have p2 : 0 ≤ F * w ^ 3 := mul_nonneg hF.pos.le (pow_pos hw0 _).le
    have p3 : 0 ≤ (1 + δ) * w := mul_nonneg hdpos.le hw0.le
    have p4 : 0 ≤ w ^ (ts.length + 4) / (ts.length * De.val) :=
      div_nonneg (pow_pos hw0 _).le (mul_pos hn0 hE).le
    have b1 : (|Ia.val| * w ^ (ts.length - κ + 1)) * (F * w ^ 3) * ((1 + δ) * w) ≤ devSq ts := by
      calc (|Ia.val| * w ^ (ts.length - κ + 1)) * (F * w ^ 3) * ((1 + δ) * w)
          ≤ devSq ts * 1 * 1 := by
            apply mul_le_mul (mul_le_mul a1 a2 p2 hQ.le) a3 p3
            simpa using hQ.le
        _ = devSq ts := by ring
    have b2 : devSq ts * (w ^ (ts.length + 4) / (ts.length * De.val)) ≤ 1 := by
      rw [mul_div_assoc', div_le_one (mul_pos hn0 hE)]
      have : w ^ (ts.length + 4) * (devSq ts / ts.length) * ts.length ≤ De.val * ts.length :=
        mul_le_mul_of_nonneg_right a4 hn0.le
      have e2 : w ^ (ts.length + 4) * (devSq ts / ts.length) * ts.length =
          devSq ts * w ^ (ts.length + 4) := by field_simp
      rw [e2] at this
      linarith
    calc _ ≤ devSq ts * (w ^ (ts.length + 4) / (ts.length * De.val)) :=
          mul_le_mul_of_nonneg_right b1 p4
      _ ≤ 1 := b2
  have hpw := M.pow_pos' (ts.length - κ + ts.length + 9)
  have : |(TS.acf ts k).val| ≤ ((1 - M.u) ^ (ts.length - κ + ts.length + 9))⁻¹ := by
    rw [← one_div, le_div_iff₀ hpw]; exact key
  exact le_trans this (inv_pow_le M _ h)

theorem prods_self_sq (ds : List (Fl M)) : prods ds ds = ds.map fun d => d.val * d.val := by
  rw [Rounding2.prods_self]; simp [vals, List.map_map, Function.comp_def]

/-- the computed sum of squares of the numerator at lag 0: `I₀ ∈ [(1−u)^{n+1}·Q, Q/(1−u)^{n+1}]` -/
theorem selfSum_near (ts : List (Fl M)) :
    Near ((1 - M.u) ^ (ts.length + 1)) (devSq ts)
      (iterSum (List.zipWith (· * ·) (devs ts) (devs ts))).val := by
  obtain ⟨gs, hl, hg, he⟩ := prods_factor (devs ts) (devs ts)
  have hp := Rounding2.iterSum_pert (List.zipWith (· * ·) (devs ts) (devs ts))
  rw [he] at hp
  have hlen : (List.zipWith (· * ·) (devs ts) (devs ts)).length = ts.length := by simp [devs_length]
  rw [hlen] at hp
  have hp' := Pert.comp _ gs _ hl hg hp
  rw [Nat.add_comm 1 ts.length, prods_self_sq] at hp'
  exact Near.of_pert hp' (by
    intro t ht
    obtain ⟨d, _, rfl⟩ := List.mem_map.mp ht
    exact mul_self_nonneg _)

/-- a series with two different values has computed deviations that are not all zero -/
theorem devSq_pos_of_ne (ts : List (Fl M)) (a b : Fl M) (ha : a ∈ ts) (hb : b ∈ ts)
    (hab : a.val ≠ b.val) : 0 < devSq ts := by
  have hz : ∀ x : Fl M, (x - TS.mean ts).val = 0 → x.val = (TS.mean ts).val := by
    intro x hx
    obtain ⟨δ, hδ, hr⟩ := M.std (x.val - (TS.mean ts).val)
    have hx' : (x.val - (TS.mean ts).val) * (1 + δ) = 0 := by rw [← hr]; exact hx
    rcases mul_eq_zero.mp hx' with h0 | h0
    · linarith
    · exact absurd h0 (Fac.one_add hδ).pos.ne'
  have hex : ∃ x ∈ ts, (x - TS.mean ts).val ≠ 0 := by
    by_contra hcon
    push Not at hcon
    exact hab ((hz a (hcon a ha)).trans (hz b (hcon b hb)).symm)
  obtain ⟨x, hx, hne⟩ := hex
  have hmem : (x - TS.mean ts).val * (x - TS.mean ts).val ∈ (devs ts).map fun d => d.val * d.val :=
    List.mem_map.mpr ⟨x - TS.mean ts, List.mem_map.mpr ⟨x, hx, rfl⟩, rfl⟩
  have hle := List.single_le_sum (l := (devs ts).map fun d => d.val * d.val) (by
    intro t ht
    obtain ⟨d, _, rfl⟩ := List.mem_map.mp ht
    exact mul_self_nonneg _) _ hmem
  have : 0 < (x - TS.mean ts).val * (x - TS.mean ts).val := mul_self_pos.mpr hne
  unfold devSq
  linarith

/-- **The computed autocorrelation at lag 0 is 1 up to rounding** (standard model only):
`|acf(ts, 0) − 1| ≤ γ_{2n+9}`, whatever the error of the computed mean. -/
theorem acf_zero_error (ts : List (Fl M)) (hn : 0 < ts.length) (hQ : 0 < devSq ts)
    (h : ((2 * ts.length + 9 : Nat) : ℝ) * M.u < 1) :
    |(TS.acf ts 0).val - 1| ≤ M.γ (2 * ts.length + 9) := by
  have hn0 : (0 : ℝ) < ts.length := Nat.cast_pos.mpr hn
  set Ia := iterSum (List.zipWith (· * ·) (devs ts) (devs ts)) with hIa
  set De := iterSum ((devs ts).map fun d => 1 * (d * d)) / (ts.length : Fl M) with hDe
  have hIa_near : Near ((1 - M.u) ^ (ts.length + 1)) (devSq ts) Ia.val := selfSum_near ts
  have hIa0 : 0 ≤ Ia.val := (hIa_near.pos (M.pow_pos' _) hQ).le
  obtain ⟨F, hF, hNu⟩ := acfNum_fac ts Ia
  have hNu_near : Near ((1 - M.u) ^ (ts.length + 4)) (devSq ts / ts.length)
      (1 / (ts.length : Fl M) * Ia).val := by
    have h1 : Near ((1 - M.u) ^ (ts.length + 1)) (devSq ts / ts.length) (Ia.val / ts.length) := by
      have := Near.div (M.pow_pos' (ts.length + 1)) one_pos hQ.le hn0 hIa_near
        (⟨by simp, by simp⟩ : Near 1 (ts.length : ℝ) ts.length)
      simpa using this
    have h2 : Near ((1 - M.u) ^ 3) (Ia.val / ts.length) (1 / (ts.length : Fl M) * Ia).val := by
      rw [hNu]; exact Near.of_fac (div_nonneg hIa0 hn0.le) hF
    have := Near.trans (M.pow_pos' _).le (M.pow_pos' 3).le h1 h2
    rwa [← pow_add] at this
  have hden := acfDen_near ts hn
  have hQn : 0 < devSq ts / ts.length := div_pos hQ hn0
  have hq := Near.div (M.pow_pos' (ts.length + 4)) (M.pow_pos' (ts.length + 4)) hQn.le hQn
    hNu_near hden
  rw [div_self hQn.ne'] at hq
  have hNu0 : 0 ≤ (1 / (ts.length : Fl M) * Ia).val / De.val :=
    div_nonneg (hNu_near.pos (M.pow_pos' _) hQn).le (hden.pos (M.pow_pos' _) hQn).le
  have hr := Near.rnd M hNu0
  have hfin := Near.trans (mul_pos (M.pow_pos' _) (M.pow_pos' _)).le M.one_sub_u_pos.le hq hr
  have hpow : (1 - M.u) ^ (ts.length + 4) * (1 - M.u) ^ (ts.length + 4) * (1 - M.u) =
      (1 - M.u) ^ (2 * ts.length + 9) := by
    rw [← pow_add, ← pow_succ]; congr 1; omega
  rw [hpow] at hfin
  have hval : (TS.acf ts 0).val = M.rnd ((1 / (ts.length : Fl M) * Ia).val / De.val) := by
    rw [acf_unfold]; rfl
  have hfac : M.Fac (2 * ts.length + 9) (TS.acf ts 0).val := by
    rw [hval]; exact ⟨by simpa using hfin.1, hfin.2⟩
  exact hfac.abs_sub_one_le h

theorem one_mul_of_rep {a : Fl M} (h : a.Rep) : (1 : Fl M) * a = a := by
  apply Fl.ext
  show M.rnd (1 * a.val) = a.val
  rw [one_mul]; exact h

/-- **… with idempotent rounding: `|acf(ts, 0) − 1| ≤ γ_4`, independent of the length** — numerator and
denominator are the same floating-point sum `I` of the same rounded squares; only the two different
scalings `fl(fl(1/n)·I)` and `fl(I/n)` and the final division differ. -/
theorem acf_zero_error_idem (hid : M.Idem) (ts : List (Fl M)) (hn : 0 < ts.length)
    (hQ : 0 < devSq ts) (h : ((4 : Nat) : ℝ) * M.u < 1) :
    |(TS.acf ts 0).val - 1| ≤ M.γ 4 := by
  have hn0 : (0 : ℝ) < ts.length := Nat.cast_pos.mpr hn
  have hnum : List.zipWith (· * ·) (devs ts) (devs ts) = (devs ts).map fun d => d * d :=
    List.zipWith_self
  have hI : (iterSum ((devs ts).map fun d => d * d)).val ≠ 0 := by
    rw [← hnum]; exact ((selfSum_near ts).pos (M.pow_pos' _) hQ).ne'
  set I := iterSum ((devs ts).map fun d => d * d) with hIdef
  have hden : ((devs ts).map fun d => (1 : Fl M) * (d * d)) = (devs ts).map fun d => d * d :=
    List.map_congr_left (fun d _ => one_mul_of_rep (rep_mul hid d d))
  obtain ⟨δ1, hδ1, h1⟩ := M.std (1 / M.rnd (ts.length : ℝ))
  obtain ⟨δ2, hδ2, h2⟩ := M.std (ts.length : ℝ)
  obtain ⟨δ3, hδ3, h3⟩ := M.std (M.rnd (1 / M.rnd (ts.length : ℝ)) * I.val)
  obtain ⟨δ4, hδ4, h4⟩ := M.std (I.val / M.rnd (ts.length : ℝ))
  obtain ⟨δ5, hδ5, h5⟩ := M.std (M.rnd (M.rnd (1 / M.rnd (ts.length : ℝ)) * I.val) /
    M.rnd (I.val / M.rnd (ts.length : ℝ)))
  have hval : (TS.acf ts 0).val = (1 + δ1) * (1 + δ3) * (1 + δ4)⁻¹ * (1 + δ5) := by
    rw [acf_unfold, Int.natAbs_zero, List.drop_zero, hnum, hden]
    show M.rnd (M.rnd (M.rnd (1 / M.rnd (ts.length : ℝ)) * I.val) /
      M.rnd (I.val / M.rnd (ts.length : ℝ))) = _
    rw [h5, h3, h4, h1, h2]
    have p2 := (Fac.one_add hδ2).pos.ne'
    have p4 := (Fac.one_add hδ4).pos.ne'
    have hn' := hn0.ne'
    field_simp
  have hfac : M.Fac (1 + 1 + 1 + 1) ((1 + δ1) * (1 + δ3) * (1 + δ4)⁻¹ * (1 + δ5)) :=
    (((Fac.one_add hδ1).mul (Fac.one_add hδ3)).mul (Fac.one_add hδ4).inv).mul (Fac.one_add hδ5)
  rw [hval]
  exact hfac.abs_sub_one_le h

end Cv.Rounding3
