//! C15 executor: structural operations, constructors, predicates through the public API of `compute`.
//! Stateful session (one current matrix); protocol: see /verif/lean/Compute/Drv/C15.lean.
use compute::linalg::Axis;
use compute::prelude::*;
use cvexec::*;

struct S {
    m: Matrix,
}

fn show_mat(m: &Matrix) -> String {
    if m.data.is_empty() {
        ok(format!("{} {}", m.nrows, m.ncols))
    } else {
        ok(format!("{} {} {}", m.nrows, m.ncols, show_fs(&m.data)))
    }
}

fn mat_args(t: &mut Toks) -> R<(i32, i32, Vec<f64>)> {
    let nr = t.i32()?;
    let nc = t.i32()?;
    let d = t.vec()?;
    Ok((nr, nc, d))
}

fn res_usize(r: Result<usize, String>) -> String {
    match r {
        Ok(n) => ok(format!("ok {}", n)),
        Err(_) => ok("err".to_string()),
    }
}

fn step(s: &mut S, t: &mut Toks) -> R<String> {
    let op = t.tok()?;
    match op {
        // ---------------------------------------------------------------- state-changing
        "load" => {
            let (nr, nc, d) = mat_args(t)?;
            t.end()?;
            s.m = Matrix::new(d, nr, nc);
            Ok(show_mat(&s.m))
        }
        "vreshape" => {
            let (nr, nc, d) = mat_args(t)?;
            t.end()?;
            s.m = Vector::from(d).reshape(nr, nc);
            Ok(show_mat(&s.m))
        }
        "reshape" => {
            let (nr, nc) = (t.i32()?, t.i32()?);
            t.end()?;
            s.m = s.m.reshape(nr, nc);
            Ok(show_mat(&s.m))
        }
        "reshape_mut" => {
            let (nr, nc) = (t.i32()?, t.i32()?);
            t.end()?;
            s.m.reshape_mut(nr, nc);
            Ok(show_mat(&s.m))
        }
        "t" => {
            t.end()?;
            s.m = s.m.t();
            Ok(show_mat(&s.m))
        }
        "t_mut" => {
            t.end()?;
            s.m.t_mut();
            Ok(show_mat(&s.m))
        }
        "hcat" => {
            let (nr, nc, d) = mat_args(t)?;
            t.end()?;
            let o = Matrix::new(d, nr, nc);
            s.m = s.m.hcat(o);
            Ok(show_mat(&s.m))
        }
        "vcat" => {
            let (nr, nc, d) = mat_args(t)?;
            t.end()?;
            let o = Matrix::new(d, nr, nc);
            s.m = s.m.vcat(o);
            Ok(show_mat(&s.m))
        }
        "hrepeat" => {
            let n = t.usize()?;
            t.end()?;
            s.m = s.m.hrepeat(n);
            Ok(show_mat(&s.m))
        }
        "vrepeat" => {
            let n = t.usize()?;
            t.end()?;
            s.m = s.m.vrepeat(n);
            Ok(show_mat(&s.m))
        }
        "arow" => {
            let (i, k, b) = (t.usize()?, t.f64()?, t.f64()?);
            t.end()?;
            s.m.apply_along_row(i, |x| x * k + b);
            Ok(show_mat(&s.m))
        }
        "acol" => {
            let (j, k, b) = (t.usize()?, t.f64()?, t.f64()?);
            t.end()?;
            s.m.apply_along_col(j, |x| x * k + b);
            Ok(show_mat(&s.m))
        }
        "fset" => {
            let (k, v) = (t.usize()?, t.f64()?);
            t.end()?;
            s.m.flat_idx_replace(k, v);
            Ok(show_mat(&s.m))
        }
        "set2" => {
            let (i, j, v) = (t.usize()?, t.usize()?, t.f64()?);
            t.end()?;
            s.m[[i, j]] = v;
            Ok(show_mat(&s.m))
        }
        "tovec_tomat" => {
            t.end()?;
            s.m = s.m.clone().to_vec().to_matrix();
            Ok(show_mat(&s.m))
        }
        "rowmat" => {
            let i = t.usize()?;
            t.end()?;
            s.m = s.m.get_row_as_vector(i).to_matrix();
            Ok(show_mat(&s.m))
        }
        "colmat" => {
            let j = t.usize()?;
            t.end()?;
            s.m = s.m.get_col_as_vector(j).to_matrix();
            Ok(show_mat(&s.m))
        }
        "diagmat" => {
            t.end()?;
            s.m = s.m.diag().to_matrix();
            Ok(show_mat(&s.m))
        }
        "r2c" => {
            t.end()?;
            let d = row_to_col_major(&s.m.data, s.m.nrows);
            s.m = Matrix::new(d, s.m.ncols as i32, s.m.nrows as i32);
            Ok(show_mat(&s.m))
        }
        "c2r" => {
            t.end()?;
            let d = col_to_row_major(&s.m.data, s.m.ncols);
            s.m = Matrix::new(d, s.m.ncols as i32, s.m.nrows as i32);
            Ok(show_mat(&s.m))
        }
        // ---------------------------------------------------------------- queries on the current matrix
        "row" => {
            let i = t.usize()?;
            t.end()?;
            Ok(ok(show_vec(&s.m.get_row_as_vector(i))))
        }
        "col" => {
            let j = t.usize()?;
            t.end()?;
            Ok(ok(show_vec(&s.m.get_col_as_vector(j))))
        }
        "fidx" => {
            let k = t.usize()?;
            t.end()?;
            Ok(ok(show_f(s.m.flat_idx(k))))
        }
        "get2" => {
            let (i, j) = (t.usize()?, t.usize()?);
            t.end()?;
            Ok(ok(show_f(s.m[[i, j]])))
        }
        "diag" => {
            t.end()?;
            Ok(ok(show_vec(&s.m.diag())))
        }
        "tovec" => {
            t.end()?;
            Ok(ok(show_vec(&s.m.clone().to_vec())))
        }
        "is_sq" => {
            t.end()?;
            Ok(ok(show_bool(s.m.is_square()).to_string()))
        }
        "is_sym" => {
            t.end()?;
            Ok(ok(show_bool(s.m.is_symmetric()).to_string()))
        }
        "is_up" => {
            t.end()?;
            Ok(ok(show_bool(s.m.is_upper_triangular()).to_string()))
        }
        "is_lo" => {
            t.end()?;
            Ok(ok(show_bool(s.m.is_lower_triangular()).to_string()))
        }
        "close" => {
            let (nr, nc, d) = mat_args(t)?;
            let tol = t.f64()?;
            t.end()?;
            let o = Matrix::new(d, nr, nc);
            Ok(ok(show_bool(s.m.close_to(&o, tol)).to_string()))
        }
        "eq" => {
            let (nr, nc, d) = mat_args(t)?;
            t.end()?;
            let o = Matrix::new(d, nr, nc);
            Ok(ok(show_bool(s.m == o).to_string()))
        }
        // ---------------------------------------------------------------- stateless
        "vclose" => {
            let (a, b, tol) = (t.vec()?, t.vec()?, t.f64()?);
            t.end()?;
            Ok(ok(show_bool(Vector::from(a).close_to(&Vector::from(b), tol)).to_string()))
        }
        "veq" => {
            let (a, b) = (t.vec()?, t.vec()?);
            t.end()?;
            Ok(ok(show_bool(Vector::from(a) == Vector::from(b)).to_string()))
        }
        "zeros" => {
            let (r, c) = (t.usize()?, t.usize()?);
            t.end()?;
            Ok(show_mat(&Matrix::zeros(r, c)))
        }
        "ones" => {
            let (r, c) = (t.usize()?, t.usize()?);
            t.end()?;
            Ok(show_mat(&Matrix::ones(r, c)))
        }
        "eye" => {
            let d = t.usize()?;
            t.end()?;
            Ok(show_mat(&Matrix::eye(d)))
        }
        "arange" => {
            let (a, b, st) = (t.f64()?, t.f64()?, t.f64()?);
            t.end()?;
            Ok(ok(show_vec(&arange(a, b, st))))
        }
        "linspace" => {
            let (a, b, n) = (t.f64()?, t.f64()?, t.usize()?);
            t.end()?;
            Ok(ok(show_vec(&linspace(a, b, n))))
        }
        "is_matrix" => {
            let (len, r) = (t.usize()?, t.usize()?);
            t.end()?;
            Ok(res_usize(is_matrix(&vec![0.; len], r)))
        }
        "is_square_u" => {
            let len = t.usize()?;
            t.end()?;
            Ok(res_usize(compute::linalg::is_square(&vec![0.; len])))
        }
        "is_design" => {
            let r = t.usize()?;
            let d = t.vec()?;
            t.end()?;
            Ok(ok(show_bool(is_design(&d, r)).to_string()))
        }
        "is_sym_u" => {
            let d = t.vec()?;
            t.end()?;
            Ok(ok(show_bool(compute::linalg::is_symmetric(&d)).to_string()))
        }
        "diag_u" => {
            let d = t.vec()?;
            t.end()?;
            Ok(ok(show_vec(&compute::linalg::diag(&d))))
        }
        "r2c_u" => {
            let r = t.usize()?;
            let d = t.vec()?;
            t.end()?;
            Ok(ok(show_vec(&row_to_col_major(&d, r))))
        }
        "c2r_u" => {
            let r = t.usize()?;
            let d = t.vec()?;
            t.end()?;
            Ok(ok(show_vec(&col_to_row_major(&d, r))))
        }
        "transpose_u" => {
            let r = t.usize()?;
            let d = t.vec()?;
            t.end()?;
            Ok(ok(show_vec(&transpose(&d, r))))
        }
        "diag_matrix" => {
            let d = t.vec()?;
            t.end()?;
            Ok(ok(show_vec(&diag_matrix(&d))))
        }
        "toeplitz" => {
            let d = t.vec()?;
            t.end()?;
            Ok(ok(show_vec(&toeplitz(&d))))
        }
        "vandermonde" => {
            let n = t.usize()?;
            let d = t.vec()?;
            t.end()?;
            Ok(ok(show_vec(&vandermonde(&d, n))))
        }
        "design" => {
            let r = t.usize()?;
            let d = t.vec()?;
            t.end()?;
            Ok(ok(show_vec(&design(&d, r))))
        }
        "rot" => {
            let dir = t.tok()?;
            let ax = match t.tok()? {
                "x" => Axis::X,
                "y" => Axis::Y,
                "z" => Axis::Z,
                _ => return Err(BadOp),
            };
            let a = t.f64()?;
            t.end()?;
            match dir {
                "cw" => Ok(show_mat(&rotation_matrix_cw(a, ax))),
                "ccw" => Ok(show_mat(&rotation_matrix_ccw(a, ax))),
                _ => Err(BadOp),
            }
        }
        // ---------------------------------------------------------------- coverage extension (Model/ShapeExtra.lean)
        "sort_data" => {
            t.end()?;
            // in-place sort of the live object; Rust leaves the slice in an unspecified order when the
            // comparator panics, so the harness puts the old data back before re-raising
            let backup = s.m.data.clone();
            let r = std::panic::catch_unwind(std::panic::AssertUnwindSafe(|| s.m.data_mut().sort()));
            if let Err(e) = r {
                s.m.data = backup;
                std::panic::resume_unwind(e);
            }
            Ok(show_mat(&s.m))
        }
        "dmset" => {
            let (k, v) = (t.usize()?, t.f64()?);
            t.end()?;
            s.m.data_mut()[k] = v;
            Ok(show_mat(&s.m))
        }
        "with_shape_fill" => {
            let (r, c, v) = (t.usize()?, t.usize()?, t.f64()?);
            t.end()?;
            let mut m = Matrix::with_shape(r, c);
            for x in m.data_mut().iter_mut() {
                *x = v;
            }
            s.m = m;
            Ok(show_mat(&s.m))
        }
        "with_capacity" => {
            let (r, c) = (t.usize()?, t.usize()?);
            t.end()?;
            s.m = Matrix::with_capacity(r, c);
            Ok(show_mat(&s.m))
        }
        "sumrows_mat" => {
            t.end()?;
            s.m = s.m.sum_rows().to_matrix();
            Ok(show_mat(&s.m))
        }
        "sumcols_mat" => {
            t.end()?;
            s.m = s.m.sum_cols().to_matrix();
            Ok(show_mat(&s.m))
        }
        "shape" => {
            t.end()?;
            let sh = s.m.shape();
            Ok(ok(format!("{} {}", sh[0], sh[1])))
        }
        "size" => {
            t.end()?;
            Ok(ok(format!("{}", s.m.size())))
        }
        "sum_rows" => {
            t.end()?;
            Ok(ok(show_vec(&s.m.sum_rows())))
        }
        "sum_cols" => {
            t.end()?;
            Ok(ok(show_vec(&s.m.sum_cols())))
        }
        "vnew" => {
            let d = t.vec()?;
            t.end()?;
            Ok(ok(show_vec(&Vector::new(d))))
        }
        "vempty" => {
            t.end()?;
            Ok(ok(show_vec(&Vector::empty())))
        }
        "vzeros" => {
            let n = t.usize()?;
            t.end()?;
            Ok(ok(show_vec(&Vector::zeros(n))))
        }
        "vones" => {
            let n = t.usize()?;
            t.end()?;
            Ok(ok(show_vec(&Vector::ones(n))))
        }
        "vwith_capacity" => {
            let n = t.usize()?;
            t.end()?;
            Ok(ok(format!("{}", Vector::with_capacity(n).len())))
        }
        "vempty_n" => {
            let n = t.usize()?;
            t.end()?;
            // contents are uninitialised: only the length is observed
            Ok(ok(format!("{}", Vector::empty_n(n).len())))
        }
        "vsort" => {
            let d = t.vec()?;
            t.end()?;
            let mut v = Vector::new(d);
            v.sort();
            Ok(ok(show_vec(&v)))
        }
        "with_shape" => {
            let (r, c) = (t.usize()?, t.usize()?);
            t.end()?;
            let m = Matrix::with_shape(r, c);
            Ok(ok(format!("{} {} {}", m.shape()[0], m.shape()[1], m.data.len())))
        }
        _ => Err(BadOp),
    }
}

fn main() {
    run(S { m: Matrix::empty() }, step);
}
