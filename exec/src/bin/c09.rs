//! C09 executor: special functions of `compute::functions` (gamma.rs, statistical.rs::erf).
//! Requests (floats as 16 hex digits):
//!   `gamma x` | `lngamma x` | `digamma x` | `erf x` | `beta a b`            -> `= y`
//!   `gammav n x1 … xn` (same for lngammav, digammav, erfv)                   -> `= y1 … yn`
//!   `betav n a1 b1 … an bn`                                                  -> `= y1 … yn`
//!   `erfsweep b0 n [dump-path]`: for the `n` consecutive f32 bit patterns `b0 ..` (non-negative finite floats `x`) evaluates
//!   `erf(x)` and `erf(-x)`; reply `= <order-independent 64-bit checksum of all 2n result bits> n <#x with erf(-x) != -erf(x) bitwise>
//!   <#x with |erf(±x)| > 1> <first bad bit pattern or ->`; with a dump path the `n` values `erf(x)` are also written
//!   there as little-endian f64 (for the exhaustive accuracy oracle; the model ignores the path).
//! `digamma` recurses once per unit step below 6, so requests with x < -100000 (or -inf) are refused as
//! `! diverged` here and in the model (the real function would overflow the stack / never return).
//! `erf` branches on the sign bit since repair F56: every argument (NaN and both zeros included) is evaluated.
use compute::functions::{beta, digamma, erf, gamma, ln_gamma};
use cvexec::*;

const DIGAMMA_MIN: f64 = -100000.0;

fn dg(x: f64) -> Option<f64> {
    if x < DIGAMMA_MIN {
        None
    } else {
        Some(digamma(x))
    }
}

fn step(_: &mut (), t: &mut Toks) -> R<String> {
    let op = t.tok()?;
    match op {
        "gamma" | "lngamma" | "erf" | "digamma" => {
            let x = t.f64()?;
            t.end()?;
            let y = match op {
                "gamma" => gamma(x),
                "lngamma" => ln_gamma(x),
                "erf" => erf(x),
                _ => match dg(x) {
                    Some(y) => y,
                    None => return Ok("! diverged".to_string()),
                },
            };
            Ok(ok(show_f(y)))
        }
        "beta" => {
            let a = t.f64()?;
            let b = t.f64()?;
            t.end()?;
            Ok(ok(show_f(beta(a, b))))
        }
        "gammav" | "lngammav" | "erfv" | "digammav" => {
            let xs = t.vec()?;
            t.end()?;
            let mut ys = Vec::with_capacity(xs.len());
            for x in xs {
                ys.push(match op {
                    "gammav" => gamma(x),
                    "lngammav" => ln_gamma(x),
                    "erfv" => erf(x),
                    _ => match dg(x) {
                        Some(y) => y,
                        None => return Ok("! diverged".to_string()),
                    },
                });
            }
            Ok(ok(show_fs(&ys)))
        }
        "erfsweep" => {
            let b0 = t.u64()?;
            let n = t.u64()?;
            let path = t.tok().ok();
            t.end()?;
            if b0 + n > 0x7f80_0000 {
                return Err(BadOp); // finite non-negative f32 only
            }
            let mut h: u64 = 0;
            let (mut odd_bad, mut bound_bad, mut first) = (0u64, 0u64, None);
            let mut buf: Vec<u8> = Vec::with_capacity(if path.is_some() { 8 * n as usize } else { 0 });
            for k in 0..n {
                let bits = (b0 + k) as u32;
                let x = f32::from_bits(bits) as f64;
                let y = erf(x);
                let yn = erf(-x);
                // checksum: wrapping sum of position-keyed mixes (order independent, so the model may evaluate in parallel)
                let key = (bits as u64 + 1).wrapping_mul(0x9E37_79B9_7F4A_7C15);
                h = h
                    .wrapping_add((y.to_bits() ^ key).wrapping_mul(0xBF58_476D_1CE4_E5B9))
                    .wrapping_add((yn.to_bits() ^ key.rotate_left(32)).wrapping_mul(0x94D0_49BB_1331_11EB));
                let mut bad = false;
                if yn.to_bits() != (-y).to_bits() {
                    odd_bad += 1;
                    bad = true;
                }
                if !(y.abs() <= 1.0) || !(yn.abs() <= 1.0) {
                    bound_bad += 1;
                    bad = true;
                }
                if bad && first.is_none() {
                    first = Some(bits);
                }
                if path.is_some() {
                    buf.extend_from_slice(&y.to_le_bytes());
                }
            }
            if let Some(p) = path {
                let pp = std::path::Path::new(p);
                if let Some(dir) = pp.parent() {
                    let _ = std::fs::create_dir_all(dir);
                }
                std::fs::write(pp, &buf).map_err(|_| BadOp)?;
            }
            let f = match first {
                Some(b) => format!("{:08x}", b),
                None => "-".to_string(),
            };
            Ok(ok(format!("{:016x} {} {} {} {}", h, n, odd_bad, bound_bad, f)))
        }
        "betav" => {
            let n = t.usize()?;
            let xs = t.f64s(2 * n)?;
            t.end()?;
            let ys: Vec<f64> = (0..n).map(|i| beta(xs[2 * i], xs[2 * i + 1])).collect();
            Ok(ok(show_fs(&ys)))
        }
        _ => Err(BadOp),
    }
}

fn main() {
    run((), step);
}
