import Compute.Props.C01Solve
import Compute.Props.C13
import Compute.Props.C14
import Compute.Props.C06
/-
C01 (deep), downstream: the hypotheses "`invert_matrix` returned an exact inverse" (`C14.IsInverse`, used by
C14 `fit_*` and C13 `fit_yule_walker`) and "the solver solves exactly" (`C06.SolvesExactly`) are discharged
for the shared models `Cv.invertMatrix` / `Cv.solve` by `invertMatrix_correct` / `solve_correct`.
-/
set_option linter.unusedSectionVars false
namespace Cv.C01Solve
open Cv Cv.LA Finset

section
variable {F : Type} [Field F] [LinearOrder F] [IsStrictOrderedRing F] [Transc F] [BEq F] [LawfulBEq F] [Inhabited F]

theorem bang_eq_rd (l : List F) (i : Nat) (h : i < l.length) : l[i]! = rd l i := by
  rw [getElem!_pos l i h, rd_eq_getElem _ _ h]

/-- **`invert_matrix` returns an exact inverse** in the sense of C14/C13. -/
theorem invertMatrix_isInverse (hpos : ∀ x : F, 0 < x → 0 < Transc.sqrt x)
    (g ginv : List F) (p : Nat) (hg : g.length = p * p) (h : invertMatrix g = some ginv)
    (hsq : SqrtOk p g) (hpiv : LuPivotsNonzero p g) : C14.IsInverse p g ginv := by
  obtain ⟨hl, hinv⟩ := invertMatrix_correct hpos g ginv p hg h hsq hpiv
  refine ⟨hl, fun i j hi hj => ?_⟩
  rw [← hinv i j hi hj]
  apply Finset.sum_congr rfl
  intro k hk
  have hk' := Finset.mem_range.mp hk
  rw [bang_eq_rd g _ (by rw [hg]; exact idx_lt' hk' hi), bang_eq_rd ginv _ (by rw [hl]; exact idx_lt' hj hk')]

/-! ### C14: polynomial regression -/

/-- **poly_fit_normal_equations_unconditional.**  `C14.fit_normal_equations` with its hypothesis
`IsInverse` discharged: whenever `invert_matrix` answers on the normal matrix, the fitted
coefficients satisfy the normal equations. -/
theorem poly_fit_normal_equations_unconditional
    (hpos : ∀ x : F, 0 < x → 0 < Transc.sqrt x)
    (p : Nat) (x y g ginv : List F) (hp : 0 < p) (hp31 : p ≤ 2 ^ 31)
    (hn : 0 < x.length) (hxy : x.length = y.length)
    (hg : xtx (Poly.vandermonde x p) x.length = some g) (hinv : invertMatrix g = some ginv)
    (hsq : SqrtOk p g) (hpiv : LuPivotsNonzero p g) :
    ∃ c, Poly.fit p x y = some c ∧ c.length = p ∧
      ∀ j, j < p →
        ∑ k ∈ Finset.range p, (∑ i ∈ Finset.range x.length, x[i]! ^ j * x[i]! ^ k) * c[k]! =
          ∑ i ∈ Finset.range x.length, x[i]! ^ j * y[i]! := by
  obtain ⟨g', hg1, hgl, _⟩ := C05.xtx_spec (Poly.vandermonde x p) x.length p (C14L.vandermonde_length x p) hn
  have hgg : g' = g := by rw [hg] at hg1; exact (Option.some.inj hg1).symm
  subst hgg
  exact C14.fit_normal_equations p x y g' ginv hp hp31 hn hxy hg hinv
    (invertMatrix_isInverse hpos g' ginv p hgl hinv hsq hpiv)

/-- **poly_fit_minimal_unconditional.**  The fitted polynomial minimises the residual sum of squares. -/
theorem poly_fit_minimal_unconditional
    (hpos : ∀ x : F, 0 < x → 0 < Transc.sqrt x)
    (p : Nat) (x y g ginv : List F) (hp : 0 < p) (hp31 : p ≤ 2 ^ 31)
    (hn : 0 < x.length) (hxy : x.length = y.length)
    (hg : xtx (Poly.vandermonde x p) x.length = some g) (hinv : invertMatrix g = some ginv)
    (hsq : SqrtOk p g) (hpiv : LuPivotsNonzero p g) :
    ∃ c, Poly.fit p x y = some c ∧ c.length = p ∧
      ∀ c' : List F, c'.length = p → C14.rss x y c ≤ C14.rss x y c' := by
  obtain ⟨g', hg1, hgl, _⟩ := C05.xtx_spec (Poly.vandermonde x p) x.length p (C14L.vandermonde_length x p) hn
  have hgg : g' = g := by rw [hg] at hg1; exact (Option.some.inj hg1).symm
  subst hgg
  obtain ⟨c, h1, h2, h3⟩ := C14.fit_minimal p x y g' ginv hp hp31 hn hxy hg hinv
    (invertMatrix_isInverse hpos g' ginv p hgl hinv hsq hpiv)
  exact ⟨c, h1, h2, fun c' hc' => (h3 c' hc').2⟩

/-! ### C13: AR(p) / Yule–Walker -/

/-- **ar_fit_yule_walker_unconditional.**  `C13.fit_yule_walker` with `IsInverse` discharged. -/
theorem ar_fit_yule_walker_unconditional
    (hpos : ∀ x : F, 0 < x → 0 < Transc.sqrt x)
    (p : Nat) (data rinv : List F) (hd : data ≠ []) (hp : 0 < p)
    (hinv : invertMatrix (TS.toeplitz ((TS.fitAcf p data).take p)) = some rinv)
    (hsq : SqrtOk p (TS.toeplitz ((TS.fitAcf p data).take p)))
    (hpiv : LuPivotsNonzero p (TS.toeplitz ((TS.fitAcf p data).take p))) :
    ∃ ic co, TS.arFit p data = some (ic, co) ∧ co.length = p ∧
      ∀ i, i < p →
        ∑ j ∈ Finset.range p, TS.acf data ((if j ≤ i then i - j else j - i : Nat) : Int) * co.reverse[j]! =
          TS.acf data ((i + 1 : Nat) : Int) := by
  have hlen := (C13.fitAcf_get p data 0 (Nat.zero_le _) hd).1
  have htl : ((TS.fitAcf p data).take p).length = p := by simp [hlen]
  have hT : (TS.toeplitz ((TS.fitAcf p data).take p)).length = p * p := by
    simp [TS.toeplitz, Mat.build, htl]
  exact C13.fit_yule_walker p data rinv hd hp hinv
    (invertMatrix_isInverse hpos _ rinv p hT hinv hsq hpiv)

/-! ### C06: the GLM scoring step -/

/-- the side conditions under which `Cv.solve` is exact on `H` -/
def Regular (p : Nat) (H : List F) : Prop := SqrtOk p H ∧ LuPivotsNonzero p H

open Classical in
/-- `Cv.solve`, answering only on regular matrices (where it agrees with `Cv.solve`) -/
noncomputable def solveRegular (p : Nat) (H g : List F) : Option (List F) :=
  if Regular p H then Cv.solve H g else none

theorem solveRegular_eq (p : Nat) (H g : List F) (h : Regular p H) : solveRegular p H g = Cv.solve H g := by
  simp [solveRegular, h]

/-- **glm_solver_exact.**  `Cv.solve`, on the matrices on which it is exact (Cholesky route, or LU
route with non-zero pivots), satisfies `C06.SolvesExactly`: right length, `H·s = g`, and `H` is
non-singular. -/
theorem glm_solver_exact (hpos : ∀ x : F, 0 < x → 0 < Transc.sqrt x) (p : Nat) :
    C06.SolvesExactly (solveRegular (F := F) p) p := by
  intro H g s hg hs
  unfold solveRegular at hs
  by_cases hreg : Regular p H
  swap
  · simp [hreg] at hs
  simp only [hreg, if_true] at hs
  obtain ⟨hlen, _⟩ := solve_some H g s hs
  have hH : H.length = p * p := by rw [hlen, hg]
  obtain ⟨_, hsl, hsol⟩ := solve_correct hpos H g s p hH hs hreg.1 hreg.2
  obtain ⟨hdet, _⟩ := solve_eq_inv_mulVec hpos H g s p hH hs hreg.1 hreg.2
  have hsum : ∀ (v : List F), v.length = p → ∀ a, a < p →
      ∑ b ∈ Finset.range p, H[a * p + b]! * v[b]! = ∑ b ∈ Finset.range p, rd H (a * p + b) * rd v b := by
    intro v hv a ha
    apply Finset.sum_congr rfl
    intro b hb
    have hb' := Finset.mem_range.mp hb
    rw [bang_eq_rd H _ (by rw [hH]; exact idx_lt' hb' ha), bang_eq_rd v _ (by omega)]
  refine ⟨hsl, ?_, ?_⟩
  · apply List.ext_getElem (by simp [C06.mulVecL, hg])
    intro i h1 h2
    have hi : i < p := by omega
    simp only [C06.mulVecL, List.getElem_map, List.getElem_range]
    rw [hsum s hsl i hi, hsol i hi, rd_eq_getElem _ _ h2]
  · intro v hv hz
    have h0 : ∀ i, i < p → ∑ j ∈ Finset.range p, rd H (i * p + j) * rd v j = rd (List.replicate p (0 : F)) i := by
      intro i hi
      rw [← hsum v hv i hi]
      have := congrArg (fun l => rd l i) hz
      simp only [C06.mulVecL] at this
      rw [rd_map_range _ _ _ hi] at this
      exact this
    have hmv := (solves_iff_mulVec p H v (List.replicate p 0)).mp h0
    have hzero : toVec p (List.replicate p (0 : F)) = 0 := by
      funext i
      simp [toVec, rd, List.getD_eq_getElem?_getD]
    rw [hzero] at hmv
    have hv0 := Matrix.eq_zero_of_mulVec_eq_zero hdet hmv
    apply list_eq_of_toVec_eq p v _ hv (by simp)
    rw [hv0, hzero]

end

section glm
variable {F : Type} [Field F] [LinearOrder F] [IsStrictOrderedRing F] [Transc F] [BEq F] [LawfulBEq F]
  [Inhabited F] [Glm.GlmScalar F]
open Cv.Glm

/-- a pass of the scoring loop with `Cv.solve` is a pass with the guarded solver, when the
penalised information matrix it meets is regular -/
theorem loopBody_solveRegular (P : Problem F) (st st' : LoopState F)
    (h : loopBody Cv.solve P st = some st')
    (hreg : ∀ eta dbeta ddbeta, linearPredictor P.x st.coef P.n P.p P.offsets = some eta →
      computeDbeta P.x P.y (invLink P.family eta) (dInvLink P.family eta (invLink P.family eta))
        (variance P.family (invLink P.family eta)) P.weights = some dbeta →
      computeDdbeta P.x (dInvLink P.family eta (invLink P.family eta))
        (variance P.family (invLink P.family eta)) P.weights = some ddbeta →
      Regular P.p (penalised P.alpha P.p st.coef dbeta ddbeta).2) :
    loopBody (solveRegular P.p) P st = some st' := by
  obtain ⟨eta, dbeta, ddbeta, s, coef, pd, h1, h2, h3, h4, h5, h6, h7⟩ := C06.loopBody_some h
  have h4' : solveRegular P.p (penalised P.alpha P.p st.coef dbeta ddbeta).2
      (penalised P.alpha P.p st.coef dbeta ddbeta).1 = some s := by
    rw [solveRegular_eq _ _ _ (hreg eta dbeta ddbeta h1 h2 h3)]; exact h4
  unfold loopBody
  simp only [h1, h2, h3, h4', h5, h6, Option.bind_eq_bind, Option.bind_some, Option.pure_def]
  rw [h7]

/-- **glm_fixed_point_unconditional.**  `C06.fixed_point_iff_score` for the shared solver `Cv.solve` itself:
one pass of the scoring loop (as run by the driver) leaves `β` unchanged iff the penalised score
equations hold — provided the penalised information matrix met in this pass is regular. -/
theorem glm_fixed_point_unconditional (hpos : ∀ x : F, 0 < x → 0 < Transc.sqrt x)
    (P : Problem F) (st st' : LoopState F)
    (hn : 0 < P.n) (hp : 0 < P.p) (hx : P.x.length = P.n * P.p) (hy : P.y.length = P.n)
    (hw : P.weights.length = P.n) (hc : st.coef.length = P.p) (ho : ∀ o, P.offsets = some o → o.length = P.n)
    (h : loopBody Cv.solve P st = some st')
    (hreg : ∀ eta dbeta ddbeta, linearPredictor P.x st.coef P.n P.p P.offsets = some eta →
      computeDbeta P.x P.y (invLink P.family eta) (dInvLink P.family eta (invLink P.family eta))
        (variance P.family (invLink P.family eta)) P.weights = some dbeta →
      computeDdbeta P.x (dInvLink P.family eta (invLink P.family eta))
        (variance P.family (invLink P.family eta)) P.weights = some ddbeta →
      Regular P.p (penalised P.alpha P.p st.coef dbeta ddbeta).2) :
    ∃ eta, linearPredictor P.x st.coef P.n P.p P.offsets = some eta ∧ eta.length = P.n ∧
      (st'.coef = st.coef ↔
        ∀ j, j < P.p →
          ∑ i ∈ Finset.range P.n, P.x[i * P.p + j]! *
              C06L.wres P.y (invLink P.family eta) (dInvLink P.family eta (invLink P.family eta))
                (variance P.family (invLink P.family eta)) P.weights i =
            if 0 < P.alpha ∧ 1 ≤ j then P.alpha * st.coef[j]! else 0) := by
  obtain ⟨eta, e1, e2, _, e4⟩ := C06.fixed_point_iff_score (solveRegular P.p) P st st' hn hp hx hy hw hc ho
    (glm_solver_exact hpos P.p) (loopBody_solveRegular P st st' h hreg)
  exact ⟨eta, e1, e2, e4⟩

/-- **glm_gaussian_normal_equations_unconditional.**  For the Gaussian family the fixed points of the
scoring step run with `Cv.solve` are the solutions of the weighted ridge normal equations. -/
theorem glm_gaussian_normal_equations_unconditional
    (hpos : ∀ x : F, 0 < x → 0 < Transc.sqrt x) (P : Problem F) (st st' : LoopState F)
    (hf : P.family = .gaussian)
    (hn : 0 < P.n) (hp : 0 < P.p) (hx : P.x.length = P.n * P.p) (hy : P.y.length = P.n)
    (hw : P.weights.length = P.n) (hc : st.coef.length = P.p) (ho : ∀ o, P.offsets = some o → o.length = P.n)
    (h : loopBody Cv.solve P st = some st')
    (hreg : ∀ eta dbeta ddbeta, linearPredictor P.x st.coef P.n P.p P.offsets = some eta →
      computeDbeta P.x P.y (invLink P.family eta) (dInvLink P.family eta (invLink P.family eta))
        (variance P.family (invLink P.family eta)) P.weights = some dbeta →
      computeDdbeta P.x (dInvLink P.family eta (invLink P.family eta))
        (variance P.family (invLink P.family eta)) P.weights = some ddbeta →
      Regular P.p (penalised P.alpha P.p st.coef dbeta ddbeta).2) :
    st'.coef = st.coef ↔
      ∀ j, j < P.p →
        (∑ k ∈ Finset.range P.p,
            (∑ i ∈ Finset.range P.n, P.x[i * P.p + j]! * P.weights[i]! * P.x[i * P.p + k]!) * st.coef[k]!) +
          (if 0 < P.alpha ∧ 1 ≤ j then P.alpha * st.coef[j]! else 0) =
        ∑ i ∈ Finset.range P.n, P.x[i * P.p + j]! * P.weights[i]! * (P.y[i]! - C06L.offAt P.offsets i) :=
  C06.gaussian_normal_equations (solveRegular P.p) P st st' hf hn hp hx hy hw hc ho
    (glm_solver_exact hpos P.p) (loopBody_solveRegular P st st' h hreg)

end glm

/-! ### end to end on non-singular inputs (no hypothesis on the solver's answer) -/
section
variable {F : Type} [Field F] [LinearOrder F] [IsStrictOrderedRing F] [Transc F] [BEq F] [LawfulBEq F] [Inhabited F]

/-- over an ordered field with exact `sqrt` and `abs`, every non-singular matrix is regular -/
theorem regular_of_det (habs : ∀ x : F, Transc.abs x = |x|)
    (hs : ∀ x : F, 0 < x → Transc.sqrt x * Transc.sqrt x = x)
    (H : List F) (p : Nat) (hH : H.length = p * p) (hdet : (toMatrix p H).det ≠ 0) : Regular p H :=
  ⟨sqrtOk_of_exact hs H p hH, luPivotsNonzero_of_det habs H p hH hdet⟩

/-- **poly_fit_total.**  Polynomial regression, end to end, over an ordered field with exact `sqrt`/`abs`: if the normal
matrix `VᵀV` is non-singular, `fit` does not panic, and the coefficients it returns satisfy the normal equations and
minimise the residual sum of squares. -/
theorem poly_fit_total (habs : ∀ x : F, Transc.abs x = |x|) (hpos : ∀ x : F, 0 < x → 0 < Transc.sqrt x)
    (hs : ∀ x : F, 0 < x → Transc.sqrt x * Transc.sqrt x = x)
    (p : Nat) (x y : List F) (hp : 0 < p) (hp31 : p ≤ 2 ^ 31) (hn : 0 < x.length) (hxy : x.length = y.length)
    (hdet : ∀ g, xtx (Poly.vandermonde x p) x.length = some g → (toMatrix p g).det ≠ 0) :
    ∃ c, Poly.fit p x y = some c ∧ c.length = p ∧
      (∀ j, j < p →
        ∑ k ∈ Finset.range p, (∑ i ∈ Finset.range x.length, x[i]! ^ j * x[i]! ^ k) * c[k]! =
          ∑ i ∈ Finset.range x.length, x[i]! ^ j * y[i]!) ∧
      ∀ c' : List F, c'.length = p → C14.rss x y c ≤ C14.rss x y c' := by
  obtain ⟨g, hg, hgl, _⟩ := C05.xtx_spec (Poly.vandermonde x p) x.length p (C14L.vandermonde_length x p) hn
  have hd := hdet g hg
  obtain ⟨ginv, hinv, _, _⟩ := invertMatrix_total habs hpos hs g p hgl (by omega) hd
  obtain ⟨hsq, hpiv⟩ := regular_of_det habs hs g p hgl hd
  obtain ⟨c, h1, h2, h3⟩ := poly_fit_normal_equations_unconditional hpos p x y g ginv hp hp31 hn hxy hg hinv hsq hpiv
  obtain ⟨c', h1', _, h3'⟩ := poly_fit_minimal_unconditional hpos p x y g ginv hp hp31 hn hxy hg hinv hsq hpiv
  have hcc : c' = c := by rw [h1] at h1'; exact (Option.some.inj h1').symm
  subst hcc
  exact ⟨c', h1, h2, h3, h3'⟩

/-- **ar_fit_total.**  AR(p) fit, end to end: if the Toeplitz autocorrelation matrix is non-singular, `fit` does not
panic and the stored coefficients solve the Yule–Walker equations. -/
theorem ar_fit_total (habs : ∀ x : F, Transc.abs x = |x|) (hpos : ∀ x : F, 0 < x → 0 < Transc.sqrt x)
    (hs : ∀ x : F, 0 < x → Transc.sqrt x * Transc.sqrt x = x)
    (p : Nat) (data : List F) (hd : data ≠ []) (hp : 0 < p)
    (hdet : (toMatrix p (TS.toeplitz ((TS.fitAcf p data).take p))).det ≠ 0) :
    ∃ ic co, TS.arFit p data = some (ic, co) ∧ co.length = p ∧
      ∀ i, i < p →
        ∑ j ∈ Finset.range p, TS.acf data ((if j ≤ i then i - j else j - i : Nat) : Int) * co.reverse[j]! =
          TS.acf data ((i + 1 : Nat) : Int) := by
  have hlen := (C13.fitAcf_get p data 0 (Nat.zero_le _) hd).1
  have htl : ((TS.fitAcf p data).take p).length = p := by simp [hlen]
  have hT : (TS.toeplitz ((TS.fitAcf p data).take p)).length = p * p := by
    simp [TS.toeplitz, Mat.build, htl]
  obtain ⟨rinv, hinv, _, _⟩ := invertMatrix_total habs hpos hs _ p hT (by omega) hdet
  obtain ⟨hsq, hpiv⟩ := regular_of_det habs hs _ p hT hdet
  exact ar_fit_yule_walker_unconditional hpos p data rinv hd hp hinv hsq hpiv

end

/-! ### non-vacuity: concrete runs over `ℚ` -/
section witness

/-- exact rationals; `sqrt` is exact on the perfect squares that occur below -/
local instance (priority := high) instTranscRatApps : Cv.Transc ℚ where
  sqrt x := if x = 4 then 2 else x
  exp x := x
  ln x := x
  pow x _ := x
  sin x := x
  cos x := x
  tan x := x
  abs x := |x|
  floor x := x
  ceil x := x
local instance : Glm.GlmScalar ℚ := ⟨fun _ => false, fun q => q.floor.toNat⟩

theorem sqrt_pos_ratA : ∀ x : ℚ, 0 < x → 0 < Transc.sqrt x := by
  intro x hx
  show 0 < (if x = 4 then (2:ℚ) else x)
  split
  · norm_num
  · exact hx

/-- the normal matrix of the design `x = (−1,−1,1,1)`, `p = 2`, is regular (Cholesky route, pivots `4`, `4`) -/
theorem ex_regular : Regular 2 ([4, 0, 0, 4] : List ℚ) := by
  have hr : route ([4, 0, 0, 4] : List ℚ) = some (some [2, 0, 0, 2]) := by decide +kernel
  refine ⟨fun l hl => ?_, fun h => ?_⟩
  · rw [hr] at hl
    cases hl
    unfold SqrtExactOn cholPivot
    decide +kernel
  · rw [hr] at h
    cases h

-- C14: the hypotheses of `poly_fit_normal_equations_unconditional` hold on a concrete run
example : xtx (Poly.vandermonde ([-1, -1, 1, 1] : List ℚ) 2) 4 = some [4, 0, 0, 4] ∧
    invertMatrix ([4, 0, 0, 4] : List ℚ) = some [1 / 4, 0, 0, 1 / 4] ∧
    Poly.fit 2 ([-1, -1, 1, 1] : List ℚ) [1, 3, 5, 9] = some [9 / 2, 5 / 2] := by
  refine ⟨by decide +kernel, by decide +kernel, by decide +kernel⟩

example : ∃ c, Poly.fit 2 ([-1, -1, 1, 1] : List ℚ) [1, 3, 5, 9] = some c ∧ c.length = 2 ∧
      ∀ c' : List ℚ, c'.length = 2 → C14.rss [-1, -1, 1, 1] [1, 3, 5, 9] c ≤ C14.rss [-1, -1, 1, 1] [1, 3, 5, 9] c' :=
  poly_fit_minimal_unconditional sqrt_pos_ratA 2 [-1, -1, 1, 1] [1, 3, 5, 9] [4, 0, 0, 4] [1 / 4, 0, 0, 1 / 4]
    (by norm_num) (by norm_num) (by norm_num) rfl (by decide +kernel) (by decide +kernel) ex_regular.1 ex_regular.2

-- C13: AR(1) on `1, 2, 4, 3`
example : ∃ ic co, TS.arFit 1 ([1, 2, 4, 3] : List ℚ) = some (ic, co) ∧ co.length = 1 ∧
      ∀ i, i < 1 →
        ∑ j ∈ Finset.range 1, TS.acf ([1, 2, 4, 3] : List ℚ) ((if j ≤ i then i - j else j - i : Nat) : Int) * co.reverse[j]! =
          TS.acf ([1, 2, 4, 3] : List ℚ) ((i + 1 : Nat) : Int) := by
  have hr : route (TS.toeplitz ((TS.fitAcf 1 ([1, 2, 4, 3] : List ℚ)).take 1)) = some (some [1]) := by decide +kernel
  refine ar_fit_yule_walker_unconditional sqrt_pos_ratA 1 [1, 2, 4, 3] [1] (by simp) (by norm_num) (by decide +kernel)
    (fun l hl => ?_) (fun h => ?_)
  · rw [hr] at hl
    cases hl
    unfold SqrtExactOn cholPivot
    decide +kernel
  · rw [hr] at h
    cases h

-- C06: one Gaussian scoring pass with `Cv.solve`, information matrix `XᵀX = 4·I`
def exP : Glm.Problem ℚ :=
  { family := .gaussian, x := [1, -1, 1, -1, 1, 1, 1, 1], y := [1, 3, 5, 9], n := 4, p := 2,
    weights := [1, 1, 1, 1], offsets := none, alpha := 0, tol := 1 / 1000, maxIter := 10 }
def exSt : Glm.LoopState ℚ :=
  { coef := [0, 0], pd := none, pdPrev := none, mu := [], dmu := [], var := [], nIter := 0, converged := false }

theorem ex_pass : (Glm.loopBody Cv.solve exP exSt).map (·.coef) = some [9 / 2, 5 / 2] := by decide +kernel

theorem ex_hreg : ∀ eta dbeta ddbeta, Glm.linearPredictor exP.x exSt.coef exP.n exP.p exP.offsets = some eta →
      Glm.computeDbeta exP.x exP.y (Glm.invLink exP.family eta) (Glm.dInvLink exP.family eta (Glm.invLink exP.family eta))
        (Glm.variance exP.family (Glm.invLink exP.family eta)) exP.weights = some dbeta →
      Glm.computeDdbeta exP.x (Glm.dInvLink exP.family eta (Glm.invLink exP.family eta))
        (Glm.variance exP.family (Glm.invLink exP.family eta)) exP.weights = some ddbeta →
      Regular exP.p (Glm.penalised exP.alpha exP.p exSt.coef dbeta ddbeta).2 := by
  intro eta dbeta ddbeta h1 h2 h3
  have e1 : Glm.linearPredictor exP.x exSt.coef exP.n exP.p exP.offsets = some [0, 0, 0, 0] := by decide +kernel
  rw [e1] at h1
  cases h1
  have e3 : Glm.computeDdbeta exP.x (Glm.dInvLink exP.family [0, 0, 0, 0] (Glm.invLink exP.family [0, 0, 0, 0]))
      (Glm.variance exP.family (Glm.invLink exP.family [0, 0, 0, 0])) exP.weights = some [4, 0, 0, 4] := by decide +kernel
  rw [e3] at h3
  cases h3
  have e4 : (Glm.penalised exP.alpha exP.p exSt.coef dbeta [4, 0, 0, 4]).2 = [4, 0, 0, 4] := by
    simp [Glm.penalised, exP]
  rw [e4]
  exact ex_regular

example : ∃ st', Glm.loopBody Cv.solve exP exSt = some st' ∧ st'.coef = [9 / 2, 5 / 2] ∧ st'.coef ≠ exSt.coef := by
  cases h : Glm.loopBody Cv.solve exP exSt with
  | none => have := ex_pass; rw [h] at this; cases this
  | some st' =>
    have := ex_pass
    rw [h] at this
    have hc : st'.coef = [9 / 2, 5 / 2] := by simpa using this
    exact ⟨st', rfl, hc, by rw [hc]; decide +kernel⟩

-- … and all hypotheses of the unconditional GLM theorem hold for this pass
example (st' : Glm.LoopState ℚ) (h : Glm.loopBody Cv.solve exP exSt = some st') :
    st'.coef = exSt.coef ↔
      ∀ j, j < exP.p →
        (∑ k ∈ Finset.range exP.p,
            (∑ i ∈ Finset.range exP.n, exP.x[i * exP.p + j]! * exP.weights[i]! * exP.x[i * exP.p + k]!) * exSt.coef[k]!) +
          (if 0 < exP.alpha ∧ 1 ≤ j then exP.alpha * exSt.coef[j]! else 0) =
        ∑ i ∈ Finset.range exP.n, exP.x[i * exP.p + j]! * exP.weights[i]! * (exP.y[i]! - C06L.offAt exP.offsets i) :=
  glm_gaussian_normal_equations_unconditional sqrt_pos_ratA exP exSt st' rfl (by decide) (by decide) rfl rfl rfl rfl
    (fun o ho => by cases ho) h ex_hreg

end witness

end Cv.C01Solve
