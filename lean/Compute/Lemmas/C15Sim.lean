import Compute.Props.C15
/-
C15, simulation of whole programs — part 1: the plain list-of-rows reference model (`Vec<Vec<_>>`) of the
public structural operations, written without any flat index arithmetic, and the one-step refinement
lemmas `(applyOp op m).map rows = refOp op (rows m)`.

The reference state is `List (List α)`.  A list of rows cannot represent a matrix without rows but with
a positive column count (`0 × c`): that is the only information `rows` forgets.  The lemmas therefore
assume that the matrix an operation is applied to (and the operand of `vcat`) has at least one row; a
zero column count (`r × 0`, `rows = [[], …, []]`) is covered.
-/
namespace Cv.C15Sim
open Cv Cv.Mat Cv.Shape
variable {α : Type}

/-! ## the reference model -/

/-- Column count of a list of rows: the length of the first row. -/
def width : List (List α) → Nat
  | [] => 0
  | r :: _ => r.length

/-- Cut a flat list into `r` consecutive chunks of `c` elements. -/
def chunk (c : Nat) : Nat → List α → List (List α)
  | 0, _ => []
  | r + 1, d => d.take c :: chunk c r (d.drop c)

/-- The admissible shape requests for `size` elements (NumPy convention) and the shape they denote. -/
def refShape (size : Nat) (nr nc : Int) : Option (Nat × Nat) :=
  if nr = -1 ∧ 0 < nc ∧ size % nc.toNat = 0 then some (size / nc.toNat, nc.toNat)
  else if nc = -1 ∧ 0 < nr ∧ size % nr.toNat = 0 then some (nr.toNat, size / nr.toNat)
  else if 0 ≤ nr ∧ 0 ≤ nc ∧ nr * nc = (size : Int) then some (nr.toNat, nc.toNat)
  else none

/-- `Matrix::new(d, nr, nc)` in the reference: the flat data cut into rows. -/
def refLoad (d : List α) (nr nc : Int) : Option (List (List α)) :=
  (refShape d.length nr nc).map fun (r, c) => chunk c r d

/-- Reference transposition: column `j` of every row, for each `j`. -/
def refT [Inhabited α] (R : List (List α)) : List (List α) :=
  (List.range (width R)).map fun j => R.map fun r => r[j]!

/-- The reference semantics of one operation on a list of rows; `none` = rejected. -/
def refOp [Inhabited α] : Op α → List (List α) → Option (List (List α))
  | .load d nr nc, _ => refLoad d nr nc
  | .reshape nr nc, R => refLoad R.flatten nr nc
  | .reshapeMut nr nc, R => refLoad R.flatten nr nc
  | .t, R => some (refT R)
  | .tMut, R => some (refT R)
  | .hcat d nr nc, R => (refLoad d nr nc).bind fun O =>
      if R.length = O.length then some (List.zipWith (· ++ ·) R O) else none
  | .vcat d nr nc, R => (refLoad d nr nc).bind fun O =>
      if O.all (fun r => r.length == width R) then some (R ++ O) else none
  | .hrepeat n, R => some (R.map fun r => (List.replicate n r).flatten)
  | .vrepeat n, R => some (List.replicate n R).flatten
  | .applyRow i f, R => if i < R.length then some (R.mapIdx fun a r => if a = i then r.map f else r) else none
  | .applyCol j f, R =>
      if j < width R then some (R.map fun r => r.mapIdx fun b x => if b = j then f x else x) else none
  | .flatReplace k v, R =>
      if k < R.flatten.length then some (chunk (width R) R.length (R.flatten.set k v)) else none
  | .set2 i j v, R =>
      if i < R.length ∧ j < width R then some (R.mapIdx fun a r => if a = i then r.set j v else r) else none
  | .toVecToMatrix, R => some [R.flatten]
  | .rowToMatrix i, R => if i < R.length then some [R[i]!] else none
  | .colToMatrix j, R => if j < width R then some [R.map fun r => r[j]!] else none
  | .diagToMatrix, R => some [(List.range (min R.length (width R))).map fun i => (R[i]!)[i]!]
  | .rowToCol, R => some (refT R)
  | .colToRow, R => if width R = 0 then none else some (refT R)   -- `col_to_row_major` divides by the column count

/-- A reference program stops at the first rejection. -/
def refRun [Inhabited α] : List (Op α) → List (List α) → Option (List (List α))
  | [], R => some R
  | op :: ops, R => (refOp op R).bind (refRun ops)

/-- A reference session in which a rejected operation leaves the rows as they were. -/
def refRunKeep [Inhabited α] : List (Op α) → List (List α) → List (List α)
  | [], R => R
  | op :: ops, R => refRunKeep ops ((refOp op R).getD R)

/-! ## the side condition: no operation is applied to a matrix without rows -/

/-- The operand matrix of `vcat` (if it can be built at all) has at least one row. -/
def OperandOK : Op α → Prop
  | .vcat d nr nc => ∀ o, mnew d nr nc = some o → 0 < o.nrows
  | _ => True

/-- Every operation of the program is applied to a matrix with at least one row (the final matrix is
unconstrained), and `vcat` operands have at least one row. -/
def Proper [Inhabited α] : List (Op α) → Mat α → Prop
  | [], _ => True
  | op :: ops, m => 0 < m.nrows ∧ OperandOK op ∧
      match applyOp op m with
      | none => True
      | some m' => Proper ops m'

/-- The same along a session that catches panics. -/
def ProperKeep [Inhabited α] : List (Op α) → Mat α → Prop
  | [], _ => True
  | op :: ops, m => 0 < m.nrows ∧ OperandOK op ∧ ProperKeep ops ((applyOp op m).getD m)

/-! ## basic facts -/

theorem rows_eq_chunk (c : Nat) : ∀ (r : Nat) (d : List α), rows ⟨d, r, c⟩ = chunk c r d
  | 0, d => by simp [rows, chunk]
  | r + 1, d => by rw [rows_succ, chunk, rows_eq_chunk c r]

theorem width_rows {m : Mat α} (hm : m.WF) (hr : 0 < m.nrows) : width (rows m) = m.ncols := by
  have h0 : row m 0 ∈ rows m := by
    simp only [rows, List.mem_map, List.mem_range]; exact ⟨0, hr, rfl⟩
  have hl := rows_row_length hm
  cases hR : rows m with
  | nil => rw [hR] at h0; simp at h0
  | cons r R => rw [hR] at hl; exact hl r (by simp)

theorem refShape_eq (size : Nat) (nr nc : Int) : refShape size nr nc = reshapeDims size nr nc := by
  unfold refShape reshapeDims
  by_cases h1 : 0 ≤ nr <;> by_cases h2 : 0 ≤ nc <;> by_cases h3 : nr = -1 <;> by_cases h4 : nc = -1 <;>
    by_cases h5 : nr * nc = (size : Int) <;> by_cases h6 : size % nc.toNat = 0 <;>
    by_cases h7 : size % nr.toNat = 0 <;> by_cases h8 : 0 < nc <;> by_cases h9 : 0 < nr <;>
    by_cases h10 : nr < 0 <;> first | omega | simp [*]

theorem refLoad_eq (d : List α) (nr nc : Int) : refLoad d nr nc = (mnew d nr nc).map rows := by
  unfold refLoad mnew reshapeMut
  rw [refShape_eq, Nat.one_mul, Option.map_map]
  congr 1
  funext p
  obtain ⟨r, c⟩ := p
  exact (rows_eq_chunk c r d).symm

theorem refReshape_eq {m : Mat α} (hm : m.WF) (nr nc : Int) :
    refLoad (rows m).flatten nr nc = (reshapeMut m nr nc).map rows := by
  have hl : m.data.length = m.nrows * m.ncols := hm
  unfold refLoad reshapeMut
  rw [rows_flatten hm, refShape_eq, hl, Option.map_map]
  congr 1
  funext p
  obtain ⟨r, c⟩ := p
  exact (rows_eq_chunk c r m.data).symm

/-- The row view of a well-formed matrix whose entries are known. -/
theorem rows_of_get [Inhabited α] {m' : Mat α} (hm' : m'.WF) (G : Nat → Nat → α)
    (h : ∀ a b, a < m'.nrows → b < m'.ncols → m'.get a b = G a b) :
    rows m' = (List.range m'.nrows).map fun a => (List.range m'.ncols).map (G a) := by
  rw [rows_eq_get hm']
  apply List.map_congr_left
  intro a ha
  apply List.map_congr_left
  intro b hb
  exact h a b (List.mem_range.mp ha) (List.mem_range.mp hb)

/-- Row-indexed rewriting of the row view. -/
theorem rows_mapIdx [Inhabited α] {m : Mat α} (hm : m.WF) (F : Nat → List α → List α) :
    (rows m).mapIdx F = (List.range m.nrows).map fun a => F a ((List.range m.ncols).map (m.get a)) := by
  apply List.ext_getElem
  · simp
  · intro a h1 h2
    have ha : a < m.nrows := by simpa using h1
    simp only [List.getElem_mapIdx, List.getElem_map, List.getElem_range, rows]
    rw [row_eq_map hm ha]

theorem rows_map [Inhabited α] {m : Mat α} (hm : m.WF) (F : List α → List α) :
    (rows m).map F = (List.range m.nrows).map fun a => F ((List.range m.ncols).map (m.get a)) := by
  simp only [rows, List.map_map]
  apply List.map_congr_left
  intro a ha
  simp only [Function.comp, row_eq_map hm (List.mem_range.mp ha)]

end Cv.C15Sim
