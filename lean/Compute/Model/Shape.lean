import Compute.Model.Mat
/-
Model of the structural (shape) operations of `src/linalg/array/matrix.rs`, `src/linalg/array/vec.rs`
and of the slice helpers of `src/linalg/utils.rs` they are built on (`is_matrix`, `transpose`,
`row_to_col_major`, `col_to_row_major`), over `Cv.Mat α` for an arbitrary element type.

Conventions: `none` = panic.  `i32` arguments are `Int`s (assumed to be in `i32` range; an `i32`
multiplication overflow is a panic in the executor build and `≠ size` here, i.e. `none` on both sides),
`usize` arguments are `Nat`s.  Sizes are assumed `< 2³¹` (`size as i32` is then the identity).
Out-of-range `Vec` indexing that can only happen on a matrix violating `data.len() = nrows·ncols`
is not modelled as a panic (reads give `default`): `wf_preserved` (Props/C15) shows that no program of
public operations started from `Matrix::new` ever reaches such a state.
No Mathlib imports.
-/
namespace Cv
namespace Shape
variable {α : Type}

/-! ### slice helpers of `utils.rs` -/

/-- `is_matrix(m, nrows)`: outer `none` = panic (division by zero for `nrows = 0`), inner `none` =
`Err("Not a matrix")`, `some (some ncols)` = `Ok(ncols)`. -/
def isMatrix (len nrows : Nat) : Option (Option Nat) :=
  if nrows = 0 then none
  else
    let ncols := len / nrows
    if nrows * ncols = len then some (some ncols) else some none

/-- `is_matrix(m, nrows).unwrap()`. -/
def isMatrixU (len nrows : Nat) : Option Nat := (isMatrix len nrows).join

/-- `transpose(a, nrows)`: `for j in 0..ncols { for i in 0..nrows { at.push(a[i*ncols + j]) } }`. -/
def transposeData [Inhabited α] (a : List α) (nrows : Nat) : Option (List α) :=
  (isMatrixU a.length nrows).map fun ncols =>
    (Mat.build ncols nrows fun j i => a[i * ncols + j]!).data

/-- `row_to_col_major(a, nrows)`: `x[j*nrows + i] = a[i*ncols + j]` for all `i, j` (every position of the
copy is overwritten exactly once). -/
def rowToColMajor [Inhabited α] (a : List α) (nrows : Nat) : Option (List α) :=
  (isMatrixU a.length nrows).map fun ncols =>
    (List.range a.length).map fun p => a[(p % nrows) * ncols + p / nrows]!

/-- `col_to_row_major(a, nrows)`: `x[i*ncols + j] = a[j*nrows + i]`. -/
def colToRowMajor [Inhabited α] (a : List α) (nrows : Nat) : Option (List α) :=
  (isMatrixU a.length nrows).map fun ncols =>
    (List.range a.length).map fun p => a[(p % ncols) * nrows + p / ncols]!

/-! ### `Matrix::new`, `reshape_mut`, `reshape` -/

/-- The shape logic of `reshape_mut` on a matrix whose `size()` is `size`. -/
def reshapeDims (size : Nat) (nr nc : Int) : Option (Nat × Nat) :=
  if 0 ≤ nr ∧ 0 ≤ nc then
    -- assert_eq!(nrows * ncols, size as i32)
    if nr * nc = (size : Int) then some (nr.toNat, nc.toNat) else none
  else if nr < 0 then
    -- assert!(nrows == -1 && ncols > 0); assert_eq!(size % ncols, 0)   (F24)
    if nr = -1 ∧ 0 < nc then
      if size % nc.toNat = 0 then some (size / nc.toNat, nc.toNat) else none
    else none
  else
    -- here ncols < 0:  assert!(ncols == -1 && nrows > 0); assert_eq!(size % nrows, 0)
    if nc = -1 ∧ 0 < nr then
      if size % nr.toNat = 0 then some (nr.toNat, size / nr.toNat) else none
    else none

/-- `Matrix::reshape_mut` (all asserts precede the assignments: on a panic `self` is unchanged). -/
def reshapeMut (m : Mat α) (nr nc : Int) : Option (Mat α) :=
  (reshapeDims (m.nrows * m.ncols) nr nc).map fun (r, c) => ⟨m.data, r, c⟩

/-- `Matrix::new(data, nrows, ncols)`: starts from `1 × len` and calls `reshape_mut`. -/
def mnew (d : List α) (nr nc : Int) : Option (Mat α) :=
  reshapeMut ⟨d, 1, d.length⟩ nr nc

/-- `Matrix::new(data, r as i32, c as i32)` as used internally. -/
def mnewN (d : List α) (r c : Nat) : Option (Mat α) := mnew d (r : Int) (c : Int)

/-- `Matrix::reshape`: computes the target shape (the inferred dimension by `i32` division, no
divisibility test here) and delegates to `Matrix::new`, whose `reshape_mut` checks `r·c = len`. -/
def reshape (m : Mat α) (nr nc : Int) : Option (Mat α) :=
  let size : Int := ((m.nrows * m.ncols : Nat) : Int)
  if 0 ≤ nr ∧ 0 ≤ nc then
    if nr * nc = size then mnew m.data nr nc else none
  else if nr < 0 then
    if nr = -1 ∧ 0 < nc then mnew m.data (size / nc) nc else none
  else
    if nc = -1 ∧ 0 < nr then mnew m.data nr (size / nr) else none

/-- `Vector::to_matrix`. -/
def vecToMatrix (v : List α) : Option (Mat α) := mnewN v 1 v.length

/-- `Vector::reshape`. -/
def vecReshape (v : List α) (nr nc : Int) : Option (Mat α) := mnew v nr nc

/-! ### row view -/

/-- `&self[i]` = `&self.data[i*ncols .. (i+1)*ncols]`. -/
def row (m : Mat α) (i : Nat) : List α := (m.data.drop (i * m.ncols)).take m.ncols

/-- The plain row-major `Vec<Vec<_>>` view of a matrix. -/
def rows (m : Mat α) : List (List α) := (List.range m.nrows).map (row m)

/-! ### transposition -/

/-- `Matrix::t`. -/
def t [Inhabited α] (m : Mat α) : Option (Mat α) :=
  (transposeData m.data m.nrows).bind fun d => mnewN d m.ncols m.nrows

/-- `Matrix::t_mut` (data replaced, dimensions swapped; a panic of `transpose` leaves `self` unchanged). -/
def tMut [Inhabited α] (m : Mat α) : Option (Mat α) :=
  (transposeData m.data m.nrows).map fun d => ⟨d, m.ncols, m.nrows⟩

/-! ### concatenation and repetition -/

/-- `Matrix::hcat`. -/
def hcat (m o : Mat α) : Option (Mat α) :=
  if m.nrows = o.nrows then
    mnewN ((List.range m.nrows).flatMap fun i => row m i ++ row o i) m.nrows (m.ncols + o.ncols)
  else none

/-- `Matrix::vcat`. -/
def vcat (m o : Mat α) : Option (Mat α) :=
  if m.ncols = o.ncols then mnewN (m.data ++ o.data) (m.nrows + o.nrows) m.ncols else none

/-- `Matrix::hrepeat`. -/
def hrepeat (m : Mat α) (n : Nat) : Option (Mat α) :=
  mnewN ((List.range m.nrows).flatMap fun i => (List.replicate n (row m i)).flatten) m.nrows (m.ncols * n)

/-- `Matrix::vrepeat` (`self.data.repeat(n)`). -/
def vrepeat (m : Mat α) (n : Nat) : Option (Mat α) :=
  mnewN (List.replicate n m.data).flatten (m.nrows * n) m.ncols

/-! ### extraction, indexing, in-place maps -/

/-- `get_row_as_vector`. -/
def getRow (m : Mat α) (i : Nat) : Option (List α) := if i < m.nrows then some (row m i) else none

/-- `get_col_as_vector`. -/
def getCol [Inhabited α] (m : Mat α) (j : Nat) : Option (List α) :=
  if j < m.ncols then some ((List.range m.nrows).map fun i => m.get i j) else none

/-- `apply_along_row` (`self[row]` asserts `row < nrows`). -/
def applyRow (m : Mat α) (i : Nat) (f : α → α) : Option (Mat α) :=
  if i < m.nrows then
    some ⟨m.data.mapIdx fun k x => if i * m.ncols ≤ k ∧ k < (i + 1) * m.ncols then f x else x, m.nrows, m.ncols⟩
  else none

/-- `apply_along_col`: `for row in self.data.chunks_mut(ncols) { row[col] = f(row[col]) }`.
`chunks_mut(0)` panics; `row[col]` panics in the first chunk (before anything is written) when
`col ≥ ncols`; with no rows nothing is visited. -/
def applyCol (m : Mat α) (j : Nat) (f : α → α) : Option (Mat α) :=
  if m.ncols = 0 then none
  else if m.data ≠ [] ∧ m.ncols ≤ j then none
  else some ⟨m.data.mapIdx fun k x => if k % m.ncols = j then f x else x, m.nrows, m.ncols⟩

/-- `flat_idx`. -/
def flatIdx [Inhabited α] (m : Mat α) (k : Nat) : Option α :=
  if k < m.nrows * m.ncols then some m.data[k]! else none

/-- `flat_idx_replace`. -/
def flatIdxReplace (m : Mat α) (k : Nat) (v : α) : Option (Mat α) :=
  if k < m.nrows * m.ncols then some ⟨m.data.set k v, m.nrows, m.ncols⟩ else none

/-- `m[[i, j]]`. -/
def get2 [Inhabited α] (m : Mat α) (i j : Nat) : Option α :=
  if i < m.nrows ∧ j < m.ncols then some (m.get i j) else none

/-- `m[[i, j]] = v`. -/
def set2 (m : Mat α) (i j : Nat) (v : α) : Option (Mat α) :=
  if i < m.nrows ∧ j < m.ncols then some ⟨m.data.set (i * m.ncols + j) v, m.nrows, m.ncols⟩ else none

/-- `Matrix::diag` (stride `ncols`, F25). -/
def diag [Inhabited α] (m : Mat α) : List α :=
  (List.range (min m.nrows m.ncols)).map fun i => m.data[i * m.ncols + i]!

/-- `Matrix::to_vec`. -/
def toVec (m : Mat α) : List α := m.data

/-! ### predicates and comparisons -/

/-- `f64::abs` as a class so that the comparisons can be stated for every ordered field. -/
class HasAbs (α : Type) where
  abs : α → α

instance : HasAbs Float := ⟨Float.abs⟩

/-- `Matrix::is_square`. -/
def isSquare (m : Mat α) : Bool := m.nrows == m.ncols

section ordered
variable [Sub α] [Div α] [Zero α] [LT α] [DecidableLT α] [BEq α] [HasAbs α] [Inhabited α]

/-- `Matrix::is_symmetric` (`eps` = `f64::EPSILON`): compares `data[i*ncols+j]` with `data[j*nrows+i]`
for `j ≥ i`. -/
def isSymmetric (eps : α) (m : Mat α) : Bool :=
  if m.nrows = m.ncols then
    (List.range m.nrows).all fun i => (List.range m.ncols).all fun j =>
      if i ≤ j then
        !(decide (eps < HasAbs.abs (m.data[i * m.ncols + j]! - m.data[j * m.nrows + i]!)))
      else true
  else false

/-- `Matrix::is_upper_triangular` as repaired by F38: row `i` is scanned over `j < min(i, ncols)`, so the
read `self[i][j]` stays inside the row also when the matrix has more rows than columns. -/
def isUpperTriangular (m : Mat α) : Bool :=
  (List.range m.nrows).all fun i => (List.range (min i m.ncols)).all fun j => m.get i j == 0

/-- `Matrix::is_lower_triangular` (never indexes out of range). -/
def isLowerTriangular (m : Mat α) : Bool :=
  (List.range m.nrows).all fun i => (List.range m.ncols).all fun j =>
    if i < j then m.get i j == 0 else true

/-- `approx_eq::rel_diff`. -/
def relDiff (x y : α) : α :=
  if x == 0 then HasAbs.abs y
  else if y == 0 then HasAbs.abs x
  else
    let ax := HasAbs.abs x
    let ay := HasAbs.abs y
    -- [ax, ay].fold(NAN, f64::min): the smaller one (a NaN operand makes the numerator NaN anyway)
    HasAbs.abs (ax - ay) / (if ay < ax then ay else ax)

/-- `Vector::close_to` as repaired by F27. -/
def vecCloseTo (xs ys : List α) (tol : α) : Bool :=
  if xs.length = ys.length then
    (List.zip xs ys).all fun (a, b) =>
      !(((decide (a < 0)) && (decide (0 < b))) || ((decide (0 < a)) && (decide (b < 0)))
        || decide (tol < relDiff a b))
  else false

/-- `Matrix::close_to`. -/
def closeTo (m o : Mat α) (tol : α) : Bool :=
  if m.nrows = o.nrows ∧ m.ncols = o.ncols then vecCloseTo m.data o.data tol else false

/-- `PartialEq for Vector` (absolute `f64::EPSILON`). -/
def vecEq (eps : α) (xs ys : List α) : Bool :=
  if xs.length = ys.length then
    (List.zip xs ys).all fun (a, b) => !(decide (eps < HasAbs.abs (a - b)))
  else false

/-- `PartialEq for Matrix`. -/
def matEq (eps : α) (m o : Mat α) : Bool :=
  if m.nrows = o.nrows ∧ m.ncols = o.ncols then vecEq eps m.data o.data else false

end ordered

/-! ### programs of structural operations -/

/-- One state-changing public structural operation on the current matrix.  Operand matrices are
given as the arguments of the `Matrix::new` call that creates them. -/
inductive Op (α : Type) where
  | load (d : List α) (nr nc : Int)            -- `Matrix::new(d, nr, nc)` / `Vector::reshape`
  | reshape (nr nc : Int)
  | reshapeMut (nr nc : Int)
  | t
  | tMut
  | hcat (d : List α) (nr nc : Int)
  | vcat (d : List α) (nr nc : Int)
  | hrepeat (n : Nat)
  | vrepeat (n : Nat)
  | applyRow (i : Nat) (f : α → α)
  | applyCol (j : Nat) (f : α → α)
  | flatReplace (k : Nat) (v : α)
  | set2 (i j : Nat) (v : α)
  | toVecToMatrix                               -- `m.to_vec().to_matrix()`
  | rowToMatrix (i : Nat)                       -- `m.get_row_as_vector(i).to_matrix()`
  | colToMatrix (j : Nat)                       -- `m.get_col_as_vector(j).to_matrix()`
  | diagToMatrix                                -- `m.diag().to_matrix()`
  | rowToCol                                    -- `Matrix::new(row_to_col_major(&m.data, m.nrows), m.ncols, m.nrows)`
  | colToRow                                    -- `Matrix::new(col_to_row_major(&m.data, m.ncols), m.ncols, m.nrows)`

/-- The effect of one operation; `none` = panic. -/
def applyOp [Inhabited α] : Op α → Mat α → Option (Mat α)
  | .load d nr nc, _ => mnew d nr nc
  | .reshape nr nc, m => reshape m nr nc
  | .reshapeMut nr nc, m => reshapeMut m nr nc
  | .t, m => t m
  | .tMut, m => tMut m
  | .hcat d nr nc, m => (mnew d nr nc).bind fun o => hcat m o
  | .vcat d nr nc, m => (mnew d nr nc).bind fun o => vcat m o
  | .hrepeat n, m => hrepeat m n
  | .vrepeat n, m => vrepeat m n
  | .applyRow i f, m => applyRow m i f
  | .applyCol j f, m => applyCol m j f
  | .flatReplace k v, m => flatIdxReplace m k v
  | .set2 i j v, m => set2 m i j v
  | .toVecToMatrix, m => vecToMatrix (toVec m)
  | .rowToMatrix i, m => (getRow m i).bind vecToMatrix
  | .colToMatrix j, m => (getCol m j).bind vecToMatrix
  | .diagToMatrix, m => vecToMatrix (diag m)
  | .rowToCol, m => (rowToColMajor m.data m.nrows).bind fun d => mnewN d m.ncols m.nrows
  | .colToRow, m => (colToRowMajor m.data m.ncols).bind fun d => mnewN d m.ncols m.nrows

/-- A program stops at the first panic. -/
def run [Inhabited α] : List (Op α) → Mat α → Option (Mat α)
  | [], m => some m
  | op :: ops, m => (applyOp op m).bind (run ops)

/-- A session that catches panics: a panicking operation leaves the matrix as it was (this is what
the Rust code does: every assert precedes the first write) and the session goes on. -/
def runKeep [Inhabited α] : List (Op α) → Mat α → Mat α
  | [], m => m
  | op :: ops, m => runKeep ops ((applyOp op m).getD m)

end Shape
end Cv
