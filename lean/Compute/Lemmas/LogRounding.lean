import Compute.Props.Rounding
import Compute.Lemmas.NormRounding
import Compute.Model.VecOps
import Compute.Model.Transforms
import Compute.Model.GpKernels
import Mathlib.Analysis.SpecialFunctions.Log.Basic
/-
Worst-case rounding-error analysis (standard model, `Lemmas/FlModel.lean`) of the log-domain reductions
`utils::logsumexp` / `utils::logmeanexp` (`VecOps.logsumexpL`, `VecOps.logmeanexpL`) and of
`functions::logistic` / `functions::softmax` (`Model/Transforms.lean`), at the rounded scalar type `Fl M`.

The library functions `exp` and `ln` are *hypotheses* (class `ExpLnStd`): any pair of functions with
relative error at most `u_f` (a second unit roundoff; `u_f = 2⁻⁵²` covers every libm whose `exp`/`log`
are accurate to 1 ulp, `u_f = u` is a correctly rounded libm, instance `ExpLnStd.ofRnd`).
TRUSTED LINK (stated, not proved): the platform `exp`/`log` used by Rust's `f64::exp`/`f64::ln` satisfy
this for some `u_f` in the absence of overflow/underflow.

Positive quantities are compared multiplicatively: `Near c s t` says `c·s ≤ t ≤ s/c`.
-/
namespace Cv.Rounding3
open Cv Cv.FlModel Cv.Rounding

variable {M : FlModel}

/-! ### the libm hypothesis and the `Transc (Fl M)` instance -/

/-- `exp` and `ln` with relative error at most `uf` for EVERY argument (explicit hypothesis on `f64::exp`,
`f64::ln`).  PROVISO: `ExpLnStd` is an idealisation — no IEEE `exp` has relative error `≤ uf` below `−745.13` (underflow) or above `709.78` (overflow); at binary64 the computed value can be exactly `0` there.  The underflow-aware variants are in namespace `Cv.Rounding3U` (class `ExpLnUfl`). -/
class ExpLnStd (M : FlModel) where
  /-- unit roundoff of the library functions -/
  uf : ℝ
  uf_nonneg : 0 ≤ uf
  uf_lt_one : uf < 1
  expR : ℝ → ℝ
  lnR : ℝ → ℝ
  exp_std : ∀ x : ℝ, ∃ δ : ℝ, |δ| ≤ uf ∧ expR x = Real.exp x * (1 + δ)
  ln_std : ∀ x : ℝ, 0 < x → ∃ δ : ℝ, |δ| ≤ uf ∧ lnR x = Real.log x * (1 + δ)

/-- correctly rounded `exp` and `ln` satisfy the hypothesis with `uf = u` -/
@[reducible] noncomputable def ExpLnStd.ofRnd (M : FlModel) : ExpLnStd M where
  uf := M.u
  uf_nonneg := M.u_nonneg
  uf_lt_one := M.u_lt_one
  expR := fun x => M.rnd (Real.exp x)
  lnR := fun x => M.rnd (Real.log x)
  exp_std := fun x => M.std (Real.exp x)
  ln_std := fun x _ => M.std (Real.log x)

/-- the unit roundoff of the library functions -/
noncomputable abbrev uF (M : FlModel) [ExpLnStd M] : ℝ := ExpLnStd.uf (M := M)

/-- an auxiliary model whose unit roundoff is `uf`: gives access to the `γ` / `Fac` calculus for the
library-function errors (`(libm M).γ k = k·uf/(1 − k·uf)`) -/
noncomputable def libm (M : FlModel) [ExpLnStd M] : FlModel where
  rnd := id
  u := uF M
  u_nonneg := ExpLnStd.uf_nonneg
  u_lt_one := ExpLnStd.uf_lt_one
  std := fun x => ⟨0, by simpa using ExpLnStd.uf_nonneg (M := M), by simp⟩

/-- `γ^f_k = k·uf/(1 − k·uf)` -/
noncomputable abbrev γf (M : FlModel) [ExpLnStd M] (k : Nat) : ℝ := (libm M).γ k

theorem libm_u [ExpLnStd M] : (libm M).u = uF M := rfl

theorem γf_one [ExpLnStd M] : γf M 1 = uF M / (1 - uF M) := by
  show ((1 : Nat) : ℝ) * (libm M).u / (1 - ((1 : Nat) : ℝ) * (libm M).u) = _
  rw [libm_u]; simp

scoped instance flLT : LT (Fl M) := ⟨fun a b => a.val < b.val⟩
noncomputable scoped instance flDecLT : DecidableLT (Fl M) :=
  fun a b => Classical.propDecidable (a.val < b.val)

/-- `Transc (Fl M)`: `exp`, `ln` with relative error `≤ uf`, exact `abs`; the other fields are
placeholders (not used by the functions analysed here). -/
noncomputable scoped instance flTransc [ExpLnStd M] : Transc (Fl M) where
  sqrt a := a
  abs a := ⟨|a.val|⟩
  exp a := ⟨ExpLnStd.expR (M := M) a.val⟩
  ln a := ⟨ExpLnStd.lnR (M := M) a.val⟩
  pow a _ := a
  sin a := a
  cos a := a
  tan a := a
  floor a := a
  ceil a := a

@[simp] theorem fl_exp_val [ExpLnStd M] (a : Fl M) :
    (Transc.exp a).val = ExpLnStd.expR (M := M) a.val := rfl
@[simp] theorem fl_ln_val [ExpLnStd M] (a : Fl M) :
    (Transc.ln a).val = ExpLnStd.lnR (M := M) a.val := rfl

/-- positivity of the idealised library `exp`.  PROVISO: `ExpLnStd` is an idealisation — no IEEE `exp` has relative error `≤ uf` below `−745.13` (underflow) or above `709.78` (overflow); at binary64 the computed value can be exactly `0` there.  The underflow-aware variants are in namespace `Cv.Rounding3U` (class `ExpLnUfl`). -/
theorem expR_pos_stdmodel [ExpLnStd M] (x : ℝ) : 0 < ExpLnStd.expR (M := M) x := by
  obtain ⟨δ, hδ, h⟩ := ExpLnStd.exp_std (M := M) x
  rw [h]
  have := (abs_le.mp hδ).1
  have := ExpLnStd.uf_lt_one (M := M)
  exact mul_pos (Real.exp_pos x) (by linarith)

/-! ### multiplicative closeness -/

/-- `t ∈ [c·s, s/c]` (for `0 < c ≤ 1`, `s ≥ 0`: `t` approximates `s` with relative error `≤ 1/c − 1`) -/
def Near (c s t : ℝ) : Prop := c * s ≤ t ∧ t * c ≤ s

theorem Near.trans {c1 c2 s t w : ℝ} (h1 : 0 ≤ c1) (h2 : 0 ≤ c2) (a : Near c1 s t) (b : Near c2 t w) :
    Near (c1 * c2) s w := by
  constructor
  · calc c1 * c2 * s = c2 * (c1 * s) := by ring
      _ ≤ c2 * t := mul_le_mul_of_nonneg_left a.1 h2
      _ ≤ w := b.1
  · calc w * (c1 * c2) = (w * c2) * c1 := by ring
      _ ≤ t * c1 := mul_le_mul_of_nonneg_right b.2 h1
      _ ≤ s := a.2

theorem Near.of_mul {c s g : ℝ} (hs : 0 ≤ s) (h1 : c ≤ g) (h2 : g * c ≤ 1) : Near c s (s * g) := by
  constructor
  · rw [mul_comm]; exact mul_le_mul_of_nonneg_left h1 hs
  · calc s * g * c = s * (g * c) := by ring
      _ ≤ s * 1 := mul_le_mul_of_nonneg_left h2 hs
      _ = s := mul_one s

theorem Near.of_fac {k : Nat} {f s : ℝ} (hs : 0 ≤ s) (hf : M.Fac k f) : Near ((1 - M.u) ^ k) s (s * f) :=
  Near.of_mul hs hf.1 hf.2

/-- one rounding of a non-negative number -/
theorem Near.rnd (M : FlModel) {s : ℝ} (hs : 0 ≤ s) : Near (1 - M.u) s (M.rnd s) := by
  obtain ⟨δ, hδ, h⟩ := M.std s
  rw [h]
  have := Near.of_fac hs (Fac.one_add hδ)
  simpa using this

theorem Near.pos {c s t : ℝ} (hc : 0 < c) (hs : 0 < s) (h : Near c s t) : 0 < t :=
  lt_of_lt_of_le (mul_pos hc hs) h.1

/-- sums of termwise close lists are close -/
theorem Near.sum {β : Type} (c : ℝ) (L : List β) (s t : β → ℝ) (h : ∀ a ∈ L, Near c (s a) (t a)) :
    Near c (L.map s).sum (L.map t).sum := by
  induction L with
  | nil => simp [Near]
  | cons a L ih =>
    obtain ⟨h1, h2⟩ := ih (fun b hb => h b (by simp [hb]))
    obtain ⟨a1, a2⟩ := h a (by simp)
    simp only [List.map_cons, List.sum_cons]
    constructor
    · rw [mul_add]; exact add_le_add a1 h1
    · rw [add_mul]; exact add_le_add a2 h2

/-- `|log t − log s| ≤ −log c` -/
theorem Near.log {c s t : ℝ} (hc : 0 < c) (hs : 0 < s) (h : Near c s t) :
    |Real.log t - Real.log s| ≤ -Real.log c := by
  have ht := h.pos hc hs
  have h1 : Real.log c + Real.log s ≤ Real.log t := by
    rw [← Real.log_mul hc.ne' hs.ne']
    exact (Real.log_le_log_iff (mul_pos hc hs) ht).mpr h.1
  have h2 : Real.log t + Real.log c ≤ Real.log s := by
    rw [← Real.log_mul ht.ne' hc.ne']
    exact (Real.log_le_log_iff (mul_pos ht hc) hs).mpr h.2
  rw [abs_le]
  constructor <;> linarith

/-- perturbing the argument of `exp` by `τ`, `|τ| ≤ T` -/
theorem Near.exp {d τ T : ℝ} (h : |τ| ≤ T) : Near (Real.exp (-T)) (Real.exp d) (Real.exp (d + τ)) := by
  obtain ⟨h1, h2⟩ := abs_le.mp h
  constructor
  · rw [← Real.exp_add, Real.exp_le_exp]; linarith
  · rw [← Real.exp_add, Real.exp_le_exp]; linarith

/-- quotients -/
theorem Near.div {c c' s t p q : ℝ} (hc : 0 < c) (hc' : 0 < c') (hs : 0 ≤ s) (hp : 0 < p)
    (h : Near c s t) (h' : Near c' p q) : Near (c * c') (s / p) (t / q) := by
  have hq := h'.pos hc' hp
  constructor
  · rw [mul_div_assoc', div_le_div_iff₀ hp hq]
    have e1 : c * c' * s * q = (c * s) * (q * c') := by ring
    rw [e1]
    exact mul_le_mul h.1 h'.2 (mul_nonneg hq.le hc'.le) (le_trans (mul_nonneg hc.le hs) h.1)
  · rw [div_mul_eq_mul_div, div_le_div_iff₀ hq hp]
    have e1 : t * (c * c') * p = (t * c) * (c' * p) := by ring
    rw [e1]
    exact mul_le_mul h.2 h'.1 (mul_nonneg hc'.le hp.le) hs

theorem Near.of_pert {k : Nat} {v : ℝ} {xs : List ℝ} (h : M.Pert k v xs) (hx : ∀ x ∈ xs, 0 ≤ x) :
    Near ((1 - M.u) ^ k) xs.sum v := by
  obtain ⟨fs, hl, hf, rfl⟩ := h
  exact Rounding2.zipWith_nonneg_bounds ((1 - M.u) ^ k) xs fs hl (fun f hfm => hf f hfm)
    (M.pow_pos' k).le hx

/-- `−log (1−u)^k ≤ γ_k` -/
theorem neg_log_pow_le (M : FlModel) (k : Nat) (hk : (k : ℝ) * M.u < 1) :
    -Real.log ((1 - M.u) ^ k) ≤ M.γ k := by
  have hp := M.pow_pos' k
  have hfac : M.Fac k ((1 - M.u) ^ k) :=
    ⟨le_refl _, by nlinarith [M.pow_le_one'' k]⟩
  have h1 := (abs_le.mp (hfac.inv.abs_sub_one_le hk)).2
  have h2 := Real.log_le_sub_one_of_pos (inv_pos.mpr hp)
  rw [Real.log_inv] at h2
  linarith

/-! ### the shifted exponential sum -/

/-- one term `exp(v ⊖ m)`: the argument is rounded (absolute error `≤ u·|v − m|`, which enters the
exponential multiplicatively), then `exp` has relative error `≤ uf` -/
theorem exp_sub_near [ExpLnStd M] (v m : Fl M) (D : ℝ) (h : |v.val - m.val| ≤ D) :
    Near (Real.exp (-(M.u * D)) * (1 - uF M)) (Real.exp (v.val - m.val)) (Transc.exp (v - m)).val := by
  obtain ⟨δ, hδ, hr⟩ := M.std (v.val - m.val)
  obtain ⟨ε, hε, he⟩ := ExpLnStd.exp_std (M := M) (M.rnd (v.val - m.val))
  have hval : (Transc.exp (v - m)).val =
      Real.exp ((v.val - m.val) + (v.val - m.val) * δ) * (1 + ε) := by
    show ExpLnStd.expR (M := M) (M.rnd (v.val - m.val)) = _
    rw [he, hr]; ring_nf
  rw [hval]
  have hτ : |(v.val - m.val) * δ| ≤ M.u * D := by
    rw [abs_mul, mul_comm]
    exact mul_le_mul hδ h (abs_nonneg _) M.u_nonneg
  have hfac : (libm M).Fac 1 (1 + ε) := Fac.one_add (M := libm M) hε
  have h1 := hfac.1
  have h2 := hfac.2
  simp only [pow_one, libm_u] at h1 h2
  exact Near.trans (Real.exp_pos _).le (by linarith [ExpLnStd.uf_lt_one (M := M)])
    (Near.exp hτ) (Near.of_mul (Real.exp_pos _).le h1 h2)

open VecOps in
/-- **structure of the computed shifted sum**: `Ŝ ∈ [c·S, S/c]`, `S = Σ exp(xᵢ − m)` exact,
`c = e^{−uD}·(1−uf)·(1−u)ⁿ` for arguments with `|xᵢ − m| ≤ D`. -/
theorem shiftedExpSum_near [ExpLnStd M] (m : Fl M) (x : List (Fl M)) (D : ℝ)
    (hD : ∀ a ∈ x, |a.val - m.val| ≤ D) :
    Near (Real.exp (-(M.u * D)) * (1 - uF M) * (1 - M.u) ^ x.length)
      (x.map fun a => Real.exp (a.val - m.val)).sum (shiftedExpSum m x).val := by
  set es : List (Fl M) := x.map fun v => Transc.exp (v - m) with hes
  have hp := foldl_pert es (0 : Fl M) 0 [] (Pert.nil 0)
  simp only [Nat.zero_add, List.nil_append] at hp
  have hpos : ∀ t ∈ vals es, 0 ≤ t := by
    intro t ht
    obtain ⟨e, he, rfl⟩ := List.mem_map.mp ht
    obtain ⟨v, _, rfl⟩ := List.mem_map.mp he
    exact (expR_pos_stdmodel _).le
  have h2 := Near.of_pert hp hpos
  have hlen : es.length = x.length := by simp [hes]
  rw [hlen] at h2
  have h1 : Near (Real.exp (-(M.u * D)) * (1 - uF M))
      (x.map fun a => Real.exp (a.val - m.val)).sum (vals es).sum := by
    have := Near.sum (Real.exp (-(M.u * D)) * (1 - uF M)) x
      (fun a => Real.exp (a.val - m.val)) (fun a => (Transc.exp (a - m)).val)
      (fun a ha => exp_sub_near a m D (hD a ha))
    simpa [hes, vals, List.map_map, Function.comp_def] using this
  have hc1 : 0 ≤ Real.exp (-(M.u * D)) * (1 - uF M) :=
    mul_nonneg (Real.exp_pos _).le (by linarith [ExpLnStd.uf_lt_one (M := M)])
  exact Near.trans hc1 (M.pow_pos' _).le h1 h2

/-- `−log` of the closeness constant of the shifted sum is at most `u·D + γ^f_1 + γ_k` -/
theorem neg_log_const_le [ExpLnStd M] (D : ℝ) (k : Nat) (hk : (k : ℝ) * M.u < 1) :
    0 < Real.exp (-(M.u * D)) * (1 - uF M) * (1 - M.u) ^ k ∧
    -Real.log (Real.exp (-(M.u * D)) * (1 - uF M) * (1 - M.u) ^ k) ≤ M.u * D + γf M 1 + M.γ k := by
  have hf1 : 0 < 1 - uF M := by linarith [ExpLnStd.uf_lt_one (M := M)]
  have he := Real.exp_pos (-(M.u * D))
  have hp := M.pow_pos' k
  refine ⟨mul_pos (mul_pos he hf1) hp, ?_⟩
  rw [Real.log_mul (mul_pos he hf1).ne' hp.ne', Real.log_mul he.ne' hf1.ne', Real.log_exp]
  have h1 := neg_log_pow_le M k hk
  have h2 : -Real.log (1 - uF M) ≤ γf M 1 := by
    have hu1 : ((1 : Nat) : ℝ) * (libm M).u < 1 := by
      rw [libm_u]; simpa using ExpLnStd.uf_lt_one (M := M)
    have := neg_log_pow_le (libm M) 1 hu1
    simpa [libm_u] using this
  linarith

/-! ### `ln(·) + m` -/

/-- the tail `ln(q̂) + m` of both reductions: `q̂ ∈ [c·Q, Q/c]` with `−log c ≤ Λ` -/
theorem ln_add_error [ExpLnStd M] (q m : Fl M) (Q c Λ : ℝ) (hQ : 0 < Q) (hc : 0 < c)
    (hnear : Near c Q q.val) (hΛ : -Real.log c ≤ Λ) :
    |(Transc.ln q + m).val - (Real.log Q + m.val)| ≤
      (1 + M.u) * ((1 + uF M) * Λ + uF M * |Real.log Q|) + M.u * |Real.log Q + m.val| := by
  have hq := hnear.pos hc hQ
  obtain ⟨η, hη, hl⟩ := ExpLnStd.ln_std (M := M) q.val hq
  obtain ⟨ζ, hζ, hr⟩ := M.std (ExpLnStd.lnR (M := M) q.val + m.val)
  have hval : (Transc.ln q + m).val = (ExpLnStd.lnR (M := M) q.val + m.val) * (1 + ζ) := hr
  have hg : |Real.log q.val - Real.log Q| ≤ Λ := le_trans (hnear.log hc hQ) hΛ
  have hΛ0 : 0 ≤ Λ := le_trans (abs_nonneg _) hg
  set g := Real.log q.val - Real.log Q with hgdef
  set lQ := Real.log Q with hlQ
  have hu := M.u_nonneg
  have hf := ExpLnStd.uf_nonneg (M := M)
  -- error of the logarithm
  have e1 : ExpLnStd.lnR (M := M) q.val - lQ = g * (1 + η) + η * lQ := by
    rw [hl, hgdef]; ring
  have hη1 : |1 + η| ≤ 1 + uF M := by
    have := abs_le.mp hη
    rw [abs_le]; constructor <;> linarith
  have hζ1 : |1 + ζ| ≤ 1 + M.u := by
    have := abs_le.mp hζ
    rw [abs_le]; constructor <;> linarith
  have hE : |ExpLnStd.lnR (M := M) q.val - lQ| ≤ (1 + uF M) * Λ + uF M * |lQ| := by
    rw [e1]
    refine le_trans (abs_add_le _ _) ?_
    rw [abs_mul, abs_mul]
    have a1 : |g| * |1 + η| ≤ Λ * (1 + uF M) := mul_le_mul hg hη1 (abs_nonneg _) hΛ0
    have a2 : |η| * |lQ| ≤ uF M * |lQ| := mul_le_mul_of_nonneg_right hη (abs_nonneg _)
    linarith
  have e2 : (Transc.ln q + m).val - (lQ + m.val) =
      (ExpLnStd.lnR (M := M) q.val - lQ) * (1 + ζ) + ζ * (lQ + m.val) := by
    rw [hval]; ring
  rw [e2]
  refine le_trans (abs_add_le _ _) ?_
  rw [abs_mul, abs_mul]
  have hE0 : 0 ≤ (1 + uF M) * Λ + uF M * |lQ| := le_trans (abs_nonneg _) hE
  have b1 : |ExpLnStd.lnR (M := M) q.val - lQ| * |1 + ζ| ≤
      ((1 + uF M) * Λ + uF M * |lQ|) * (1 + M.u) := mul_le_mul hE hζ1 (abs_nonneg _) hE0
  have b2 : |ζ| * |lQ + m.val| ≤ M.u * |lQ + m.val| := mul_le_mul_of_nonneg_right hζ (abs_nonneg _)
  linarith

/-! ### `logsumexp`, `logmeanexp` -/

/-- exact `log Σ exp xᵢ` -/
noncomputable def lse (xs : List ℝ) : ℝ := Real.log (xs.map Real.exp).sum

/-- exact `log ((Σ exp xᵢ)/n)` -/
noncomputable def lme (xs : List ℝ) : ℝ := Real.log ((xs.map Real.exp).sum / xs.length)

theorem sum_exp_shift (x : List (Fl M)) (m : ℝ) :
    (x.map fun a => Real.exp (a.val - m)).sum = ((vals x).map Real.exp).sum * Real.exp (-m) := by
  induction x with
  | nil => simp
  | cons a x ih =>
    simp only [List.map_cons, List.sum_cons, vals] at ih ⊢
    rw [ih, sub_eq_add_neg, Real.exp_add]; ring

theorem sum_exp_pos (x : List (Fl M)) (hne : x ≠ []) : 0 < ((vals x).map Real.exp).sum := by
  cases x with
  | nil => exact absurd rfl hne
  | cons a x =>
    simp only [vals, List.map_cons, List.sum_cons]
    have : 0 ≤ ((x.map Fl.val).map Real.exp).sum := List.sum_nonneg (by
      intro t ht
      obtain ⟨_, _, rfl⟩ := List.mem_map.mp ht
      exact (Real.exp_pos _).le)
    linarith [Real.exp_pos a.val]

/-- `log Σ exp(xᵢ − m) + m = log Σ exp xᵢ` -/
theorem log_shift (x : List (Fl M)) (hne : x ≠ []) (m : ℝ) :
    Real.log (x.map fun a => Real.exp (a.val - m)).sum + m = lse (vals x) := by
  rw [sum_exp_shift, Real.log_mul (sum_exp_pos x hne).ne' (Real.exp_pos _).ne', Real.log_exp]
  unfold lse; ring

/-- bounds of the exact shifted sum when `m` is the maximum: `1 ≤ S ≤ n` -/
theorem shifted_sum_bounds (x : List (Fl M)) (m : Fl M) (hm : m ∈ x) (hmax : ∀ b ∈ x, b.val ≤ m.val) :
    1 ≤ (x.map fun a => Real.exp (a.val - m.val)).sum ∧
      (x.map fun a => Real.exp (a.val - m.val)).sum ≤ x.length := by
  constructor
  · have hmem : Real.exp (m.val - m.val) ∈ x.map fun a => Real.exp (a.val - m.val) :=
      List.mem_map.mpr ⟨m, hm, rfl⟩
    have := List.single_le_sum (l := x.map fun a => Real.exp (a.val - m.val)) (by
      intro t ht
      obtain ⟨_, _, rfl⟩ := List.mem_map.mp ht
      exact (Real.exp_pos _).le) _ hmem
    simpa using this
  · have := List.sum_le_card_nsmul (x.map fun a => Real.exp (a.val - m.val)) 1 (by
      intro t ht
      obtain ⟨b, hb, rfl⟩ := List.mem_map.mp ht
      rw [← Real.exp_zero, Real.exp_le_exp]
      linarith [hmax b hb])
    simpa using this

open VecOps in
/-- **Forward error of `ln(Σ exp(xᵢ ⊖ m)) ⊕ m` for an arbitrary shift `m`** with `|xᵢ − m| ≤ D`
(standard model, libm hypothesis `ExpLnStd`), `S = Σ exp(xᵢ − m)`:

  `|ŝ − log Σ exp xᵢ| ≤ (1+u)·((1+uf)(u·D + γ^f_1 + γ_n) + uf·|log S|) + u·|log Σ exp xᵢ|`. -/
theorem shifted_logsumexp_error [ExpLnStd M] (m : Fl M) (x : List (Fl M)) (hne : x ≠ []) (D : ℝ)
    (hD : ∀ a ∈ x, |a.val - m.val| ≤ D) (hn : (x.length : ℝ) * M.u < 1) :
    |(Transc.ln (shiftedExpSum m x) + m).val - lse (vals x)| ≤
      (1 + M.u) * ((1 + uF M) * (M.u * D + γf M 1 + M.γ x.length)
        + uF M * |Real.log (x.map fun a => Real.exp (a.val - m.val)).sum|)
      + M.u * |lse (vals x)| := by
  obtain ⟨hc, hΛ⟩ := neg_log_const_le (M := M) D x.length hn
  have hS : 0 < (x.map fun a => Real.exp (a.val - m.val)).sum := by
    rw [sum_exp_shift]; exact mul_pos (sum_exp_pos x hne) (Real.exp_pos _)
  have := ln_add_error (shiftedExpSum m x) m _ _ _ hS hc (shiftedExpSum_near m x D hD) hΛ
  rwa [log_shift x hne] at this

open VecOps in
/-- **Forward error of `logsumexp`** (standard model; `exp`, `ln` with relative error `≤ uf`; the
maximum is exact).  For non-empty data of spread `max − min ≤ D`:

  `|ŝ − log Σ exp xᵢ| ≤ (1+u)·((1+uf)(u·D + γ^f_1 + γ_n) + uf·log n) + u·|log Σ exp xᵢ|`.

The bound does not depend on the size of the data except through the single rounding of the final
addition `ln(S) + xmax` (the term `u·|result|`) and the spread `D` (the shifted arguments `xᵢ − xmax`
are rounded before `exp`).  `isNaN` is any NaN test that is true of the seed and false of the data. -/
theorem logsumexp_error [ExpLnStd M] (isNaN : Fl M → Bool) (nan : Fl M) (hnan : isNaN nan = true)
    (x : List (Fl M)) (hne : x ≠ []) (hfin : ∀ a ∈ x, isNaN a = false) (D : ℝ)
    (hD : ∀ a ∈ x, ∀ b ∈ x, |a.val - b.val| ≤ D) (hn : (x.length : ℝ) * M.u < 1) :
    |(logsumexpL isNaN nan x).val - lse (vals x)| ≤
      (1 + M.u) * ((1 + uF M) * (M.u * D + γf M 1 + M.γ x.length) + uF M * Real.log x.length)
      + M.u * |lse (vals x)| := by
  obtain ⟨hmem, hmax⟩ := Rounding2.maxL_spec isNaN nan hnan x hne hfin
  set m := maxL isNaN nan x with hm
  have hb := shifted_sum_bounds x m hmem hmax
  have h := shifted_logsumexp_error m x hne D (fun a ha => hD a ha m hmem) hn
  have hlog0 : 0 ≤ Real.log (x.map fun a => Real.exp (a.val - m.val)).sum := Real.log_nonneg hb.1
  have hlogn : Real.log (x.map fun a => Real.exp (a.val - m.val)).sum ≤ Real.log x.length :=
    (Real.log_le_log_iff (by linarith [hb.1]) (by linarith [hb.1, hb.2])).mpr hb.2
  rw [abs_of_nonneg hlog0] at h
  refine le_trans h ?_
  have hf := ExpLnStd.uf_nonneg (M := M)
  have hu := M.u_nonneg
  have : uF M * Real.log (x.map fun a => Real.exp (a.val - m.val)).sum ≤ uF M * Real.log x.length :=
    mul_le_mul_of_nonneg_left hlogn hf
  have h1u : 0 ≤ 1 + M.u := by linarith
  nlinarith [mul_le_mul_of_nonneg_left this h1u]

/-- a quotient by a rounded integer: two more rounding factors -/
theorem div_natCast_near (v : Fl M) (d : Nat) (hv : 0 ≤ v.val) (hd : 0 < d) :
    Near ((1 - M.u) ^ 2) (v.val / d) (v / (d : Fl M)).val := by
  obtain ⟨δ1, hδ1, h1⟩ := M.std (v.val / M.rnd (d : ℝ))
  obtain ⟨δ2, hδ2, h2⟩ := M.std (d : ℝ)
  have hfac : M.Fac (1 + 1) ((1 + δ1) * (1 + δ2)⁻¹) := (Fac.one_add hδ1).mul (Fac.one_add hδ2).inv
  have hval : (v / (d : Fl M)).val = v.val / d * ((1 + δ1) * (1 + δ2)⁻¹) := by
    show M.rnd (v.val / M.rnd (d : ℝ)) = _
    rw [h1, h2, div_mul_eq_div_div, div_eq_mul_inv _ (1 + δ2)]; ring
  rw [hval]
  have hd0 : (0 : ℝ) < d := Nat.cast_pos.mpr hd
  exact Near.of_fac (div_nonneg hv hd0.le) hfac

open VecOps in
/-- **Forward error of `logmeanexp`**: the division by the rounded length costs two more roundings,

  `|ŝ − log((Σ exp xᵢ)/n)| ≤ (1+u)·((1+uf)(u·D + γ^f_1 + γ_{n+2}) + uf·log n) + u·|log((Σ exp xᵢ)/n)|`. -/
theorem logmeanexp_error [ExpLnStd M] (isNaN : Fl M → Bool) (nan : Fl M) (hnan : isNaN nan = true)
    (x : List (Fl M)) (hne : x ≠ []) (hfin : ∀ a ∈ x, isNaN a = false) (D : ℝ)
    (hD : ∀ a ∈ x, ∀ b ∈ x, |a.val - b.val| ≤ D) (hn : ((x.length + 2 : Nat) : ℝ) * M.u < 1) :
    |(logmeanexpL isNaN nan x).val - lme (vals x)| ≤
      (1 + M.u) * ((1 + uF M) * (M.u * D + γf M 1 + M.γ (x.length + 2)) + uF M * Real.log x.length)
      + M.u * |lme (vals x)| := by
  obtain ⟨hmem, hmax⟩ := Rounding2.maxL_spec isNaN nan hnan x hne hfin
  set m := maxL isNaN nan x with hm
  have hb := shifted_sum_bounds x m hmem hmax
  have hlen : 0 < x.length := List.length_pos_iff.mpr hne
  have hn0 : (0 : ℝ) < x.length := Nat.cast_pos.mpr hlen
  set S := (x.map fun a => Real.exp (a.val - m.val)).sum with hS
  have hSpos : 0 < S := by linarith [hb.1]
  -- closeness of the computed mean of exponentials
  have hnear1 := shiftedExpSum_near m x D (fun a ha => hD a ha m hmem)
  have hŜ0 : 0 ≤ (shiftedExpSum m x).val := by
    have hf1 : 0 < 1 - uF M := by linarith [ExpLnStd.uf_lt_one (M := M)]
    exact (hnear1.pos (mul_pos (mul_pos (Real.exp_pos _) hf1) (M.pow_pos' _)) hSpos).le
  have hnear2 := div_natCast_near (shiftedExpSum m x) x.length hŜ0 hlen
  have hc1 : 0 < Real.exp (-(M.u * D)) * (1 - uF M) * (1 - M.u) ^ x.length :=
    mul_pos (mul_pos (Real.exp_pos _) (by linarith [ExpLnStd.uf_lt_one (M := M)])) (M.pow_pos' _)
  have hnear1' : Near (Real.exp (-(M.u * D)) * (1 - uF M) * (1 - M.u) ^ x.length)
      (S / x.length) ((shiftedExpSum m x).val / x.length) := by
    have := Near.div hc1 one_pos hSpos.le hn0 hnear1 (⟨by simp, by simp⟩ : Near 1 (x.length : ℝ) x.length)
    simpa using this
  have hnear := Near.trans hc1.le (M.pow_pos' 2).le hnear1' hnear2
  have hcc : Real.exp (-(M.u * D)) * (1 - uF M) * (1 - M.u) ^ x.length * (1 - M.u) ^ 2 =
      Real.exp (-(M.u * D)) * (1 - uF M) * (1 - M.u) ^ (x.length + 2) := by
    rw [pow_add]; ring
  rw [hcc] at hnear
  obtain ⟨hc, hΛ⟩ := neg_log_const_le (M := M) D (x.length + 2) hn
  have hQ : 0 < S / x.length := div_pos hSpos hn0
  have h := ln_add_error (shiftedExpSum m x / (x.length : Fl M)) m _ _ _ hQ hc hnear hΛ
  -- exact value
  have hexact : Real.log (S / x.length) + m.val = lme (vals x) := by
    unfold lme
    rw [hS, sum_exp_shift, Real.log_div (mul_pos (sum_exp_pos x hne) (Real.exp_pos _)).ne' hn0.ne',
      Real.log_mul (sum_exp_pos x hne).ne' (Real.exp_pos _).ne', Real.log_exp,
      Real.log_div (sum_exp_pos x hne).ne' (by simpa [vals] using hn0.ne')]
    simp [vals]
    ring
  rw [hexact] at h
  -- |log(S/n)| ≤ log n
  have hlogn0 : 0 ≤ Real.log x.length := Real.log_natCast_nonneg _
  have habs : |Real.log (S / x.length)| ≤ Real.log x.length := by
    rw [Real.log_div hSpos.ne' hn0.ne', abs_le]
    have h0 : 0 ≤ Real.log S := Real.log_nonneg hb.1
    have h1 : Real.log S ≤ Real.log x.length := (Real.log_le_log_iff hSpos hn0).mpr hb.2
    constructor <;> linarith
  refine le_trans h ?_
  have hf := ExpLnStd.uf_nonneg (M := M)
  have hu := M.u_nonneg
  have : uF M * |Real.log (S / x.length)| ≤ uF M * Real.log x.length :=
    mul_le_mul_of_nonneg_left habs hf
  have h1u : 0 ≤ 1 + M.u := by linarith
  nlinarith [mul_le_mul_of_nonneg_left this h1u]

/-! ### `softmax` -/

theorem softmax_unfold [ExpLnStd M] [MaxBot (Fl M)] (x : List (Fl M)) :
    softmax x = (softmaxArgs x).map fun a => Transc.exp a / softmaxSum x := rfl

theorem softmaxSum_unfold [ExpLnStd M] [MaxBot (Fl M)] (x : List (Fl M)) :
    softmaxSum x = ((softmaxArgs x).map Transc.exp).foldl (· + ·) 0 := rfl

theorem softmaxArgs_length [MaxBot (Fl M)] (x : List (Fl M)) : (softmaxArgs x).length = x.length := by
  simp [softmaxArgs]

/-- the computed sum of exponentials against the exact sum of the *computed* exponentials -/
theorem softmaxSum_near [ExpLnStd M] [MaxBot (Fl M)] (x : List (Fl M)) :
    Near ((1 - M.u) ^ x.length) ((softmaxArgs x).map fun a => (Transc.exp a).val).sum
      (softmaxSum x).val := by
  have hp := foldl_pert ((softmaxArgs x).map Transc.exp) (0 : Fl M) 0 [] (Pert.nil 0)
  simp only [Nat.zero_add, List.nil_append, List.length_map, softmaxArgs_length] at hp
  have := Near.of_pert hp (by
    intro t ht
    obtain ⟨e, he, rfl⟩ := List.mem_map.mp ht
    obtain ⟨v, _, rfl⟩ := List.mem_map.mp he
    exact (expR_pos_stdmodel _).le)
  simpa [vals, List.map_map, Function.comp_def, softmaxSum_unfold] using this

/-- **`softmax` returns positive numbers that sum to one up to `γ_{n+1}`** (standard model only; of the
library `exp` only positivity is used; independent of the running maximum, for *every* `MaxBot`
instance).  `Σᵢ ŷᵢ` is the exact real sum of the computed entries `ŷᵢ = fl(eᵢ/Ŝ)`:

  `0 < ŷᵢ`  and  `|Σᵢ ŷᵢ − 1| ≤ γ_{n+1}`.

This is the floating-point form of "non-negative numbers that sum to 1".  PROVISO: `ExpLnStd` is an idealisation — no IEEE `exp` has relative error `≤ uf` below `−745.13` (underflow) or above `709.78` (overflow); at binary64 the computed value can be exactly `0` there.  The underflow-aware variants are in namespace `Cv.Rounding3U` (class `ExpLnUfl`).
(`softmax_sum_error_ufl`: entries `≥ 0`, same bound on the sum.) -/
theorem softmax_sum_error_stdmodel [ExpLnStd M] [MaxBot (Fl M)] (x : List (Fl M)) (hne : x ≠ [])
    (h : ((x.length + 1 : Nat) : ℝ) * M.u < 1) :
    (softmax x).length = x.length ∧ (∀ y ∈ softmax x, 0 < y.val) ∧
      |(vals (softmax x)).sum - 1| ≤ M.γ (x.length + 1) := by
  set args := softmaxArgs x with hargs
  set Ŝ := softmaxSum x with hŜ
  set E := (args.map fun a => (Transc.exp a).val).sum with hE
  have hnearS : Near ((1 - M.u) ^ x.length) E Ŝ.val := softmaxSum_near x
  have hargs_ne : args ≠ [] := by
    intro h0
    have := softmaxArgs_length x
    rw [← hargs, h0] at this
    exact hne (List.eq_nil_of_length_eq_zero this.symm)
  have hEpos : 0 < E := by
    cases hA : args with
    | nil => exact absurd hA hargs_ne
    | cons a l =>
      rw [hE, hA]
      simp only [List.map_cons, List.sum_cons]
      have h0 : 0 ≤ (l.map fun a => (Transc.exp a).val).sum := List.sum_nonneg (by
        intro t ht
        obtain ⟨_, _, rfl⟩ := List.mem_map.mp ht
        exact (expR_pos_stdmodel _).le)
      have h1 := expR_pos_stdmodel (M := M) a.val
      simp only [fl_exp_val] at h0 ⊢
      linarith
  have hŜpos : 0 < Ŝ.val := hnearS.pos (M.pow_pos' _) hEpos
  refine ⟨by rw [softmax_unfold]; simp [softmaxArgs_length], ?_, ?_⟩
  · intro y hy
    rw [softmax_unfold] at hy
    obtain ⟨a, _, rfl⟩ := List.mem_map.mp hy
    have hq : 0 < (Transc.exp a).val / Ŝ.val := div_pos (expR_pos_stdmodel _) hŜpos
    exact (Near.rnd M hq.le).pos M.one_sub_u_pos hq
  · -- Σ ŷ against Σ e/Ŝ = E/Ŝ
    have h1 : Near (1 - M.u) (args.map fun a => (Transc.exp a).val / Ŝ.val).sum
        (args.map fun a => (Transc.exp a / Ŝ).val).sum :=
      Near.sum (1 - M.u) args _ _ (fun a _ =>
        Near.rnd M (div_pos (expR_pos_stdmodel (M := M) a.val) hŜpos).le)
    have hsum : (args.map fun a => (Transc.exp a).val / Ŝ.val).sum = E / Ŝ.val := by
      rw [hE, ← sum_map_div, List.map_map]; rfl
    have hvals : (vals (softmax x)).sum = (args.map fun a => (Transc.exp a / Ŝ).val).sum := by
      rw [softmax_unfold]; simp [vals, List.map_map, Function.comp_def, hargs, hŜ]
    rw [hsum] at h1
    -- E/Ŝ against 1
    have h2 : Near ((1 - M.u) ^ x.length) 1 (E / Ŝ.val) := by
      constructor
      · rw [mul_one, le_div_iff₀ hŜpos, mul_comm]; exact hnearS.2
      · rw [div_mul_eq_mul_div, div_le_one hŜpos, mul_comm]; exact hnearS.1
    have h3 := Near.trans (M.pow_pos' _).le M.one_sub_u_pos.le h2 h1
    rw [← pow_succ] at h3
    have hfac : M.Fac (x.length + 1) (vals (softmax x)).sum := by
      rw [hvals]
      exact ⟨by simpa using h3.1, h3.2⟩
    exact hfac.abs_sub_one_le h

/-- exact softmax entry `exp(v)/Σ exp(xᵢ)`, written with the shift `m` -/
noncomputable def softmaxExact (x : List (Fl M)) (m : ℝ) (v : Fl M) : ℝ :=
  Real.exp (v.val - m) / (x.map fun a => Real.exp (a.val - m)).sum

theorem softmaxExact_eq (x : List (Fl M)) (m : ℝ) (v : Fl M) :
    softmaxExact x m v = Real.exp v.val / ((vals x).map Real.exp).sum := by
  unfold softmaxExact
  rw [sum_exp_shift, sub_eq_add_neg, Real.exp_add]
  have := (Real.exp_pos (-m)).ne'
  field_simp

/-- **Relative accuracy of every `softmax` entry** when the computed shift `m = softmaxMax x` satisfies
`|xᵢ − m| ≤ D`: entry `i` lies in `[c·yᵢ, yᵢ/c]`, `yᵢ = exp(xᵢ)/Σⱼ exp(xⱼ)`,
`c = e^{−2uD}·(1−uf)²·(1−u)^{n+1}` — relative error about `2uD + 2uf + (n+1)u`. -/
theorem softmax_entry_near [ExpLnStd M] [MaxBot (Fl M)] (x : List (Fl M)) (hne : x ≠ []) (D : ℝ)
    (hD : ∀ a ∈ x, |a.val - (softmaxMax x).val| ≤ D) (i : Nat) (hi : i < x.length) :
    ∃ y, (softmax x)[i]? = some y ∧
      Near ((Real.exp (-(M.u * D)) * (1 - uF M)) *
          (Real.exp (-(M.u * D)) * (1 - uF M) * (1 - M.u) ^ x.length) * (1 - M.u))
        (Real.exp (x[i]).val / ((vals x).map Real.exp).sum) y.val := by
  set m := softmaxMax x with hm
  have hsm : softmax x = x.map fun v => Transc.exp (v - m) / softmaxSum x := by
    rw [softmax_unfold]; simp [softmaxArgs, List.map_map, Function.comp_def, hm]
  have hS : softmaxSum x = VecOps.shiftedExpSum m x := by
    rw [softmaxSum_unfold]; simp [softmaxArgs, VecOps.shiftedExpSum, List.map_map, Function.comp_def, hm]
  refine ⟨Transc.exp (x[i] - m) / softmaxSum x, by rw [hsm]; simp [hi], ?_⟩
  have hf1 : 0 < 1 - uF M := by linarith [ExpLnStd.uf_lt_one (M := M)]
  have hc1 : 0 < Real.exp (-(M.u * D)) * (1 - uF M) := mul_pos (Real.exp_pos _) hf1
  have hc2 : 0 < Real.exp (-(M.u * D)) * (1 - uF M) * (1 - M.u) ^ x.length :=
    mul_pos hc1 (M.pow_pos' _)
  have hn1 := exp_sub_near (x[i]) m D (hD _ (List.getElem_mem hi))
  have hn2 := shiftedExpSum_near m x D hD
  have hSpos : 0 < (x.map fun a => Real.exp (a.val - m.val)).sum := by
    rw [sum_exp_shift]; exact mul_pos (sum_exp_pos x hne) (Real.exp_pos _)
  have hq := Near.div hc1 hc2 (Real.exp_pos _).le hSpos hn1 hn2
  have he0 : 0 ≤ (Transc.exp (x[i] - m)).val / (VecOps.shiftedExpSum m x).val :=
    div_nonneg (expR_pos_stdmodel _).le (hn2.pos hc2 hSpos).le
  have hr := Near.rnd M he0
  have := Near.trans (mul_pos hc1 hc2).le M.one_sub_u_pos.le hq hr
  rw [← softmaxExact_eq x m.val (x[i])]
  rw [hS]
  exact this

/-! ### `logistic` -/

/-- exact logistic function -/
noncomputable def sigma (t : ℝ) : ℝ := 1 / (1 + Real.exp (-t))

theorem sigma_pos (t : ℝ) : 0 < sigma t := by
  unfold sigma; have := Real.exp_pos (-t); positivity

/-- **structure of the computed logistic** (`1 / (1 + exp(−x))`: library `exp`, one addition, one
division): `σ̂ = σ(x)·F·G` with `F` a 2-fold rounding factor and `G` a 1-fold libm factor. -/
theorem logistic_fac [ExpLnStd M] (x : Fl M) :
    ∃ F G : ℝ, M.Fac 2 F ∧ (libm M).Fac 1 G ∧ (logistic x).val = sigma x.val * F * G := by
  obtain ⟨ε, hε, he⟩ := ExpLnStd.exp_std (M := M) (-x.val)
  obtain ⟨δ1, hδ1, h1⟩ := M.std (1 + ExpLnStd.expR (M := M) (-x.val))
  obtain ⟨δ2, hδ2, h2⟩ := M.std (1 / M.rnd (1 + ExpLnStd.expR (M := M) (-x.val)))
  set e := Real.exp (-x.val) with hedef
  have hepos : 0 < e := Real.exp_pos _
  -- the libm error seen from `1 + e`
  set θ := ε * e / (1 + e) with hθdef
  have hθ : |θ| ≤ uF M := by
    rw [hθdef, abs_div, abs_mul, abs_of_pos hepos, abs_of_pos (by linarith : 0 < 1 + e),
      div_le_iff₀ (by linarith)]
    have := ExpLnStd.uf_nonneg (M := M)
    have h' : |ε| * e ≤ uF M * e := mul_le_mul_of_nonneg_right hε hepos.le
    nlinarith
  have hsum : 1 + ExpLnStd.expR (M := M) (-x.val) = (1 + e) * (1 + θ) := by
    rw [he, hθdef]; field_simp; ring
  have hG : (libm M).Fac 1 (1 + θ)⁻¹ := (Fac.one_add (M := libm M) hθ).inv
  have hF : M.Fac (1 + 1) ((1 + δ2) * (1 + δ1)⁻¹) := (Fac.one_add hδ2).mul (Fac.one_add hδ1).inv
  refine ⟨(1 + δ2) * (1 + δ1)⁻¹, (1 + θ)⁻¹, hF, hG, ?_⟩
  show M.rnd (1 / M.rnd (1 + ExpLnStd.expR (M := M) (-x.val))) = _
  rw [h2, h1, hsum]
  unfold sigma
  rw [← hedef]
  have hθpos : (1 + θ) ≠ 0 := (hG.inv.pos).ne' |> fun h => by simpa using h
  have hδpos : (1 + δ1) ≠ 0 := (Fac.one_add hδ1).pos.ne'
  have : (1 + e) ≠ 0 := by linarith
  field_simp

/-- **Relative error of `logistic`**: `|σ̂ − σ(x)| ≤ (γ₂ + γ^f_1 + γ₂·γ^f_1)·σ(x)` — about `2u + uf`,
uniformly in `x`. -/
theorem logistic_error [ExpLnStd M] (x : Fl M) (h : ((2 : Nat) : ℝ) * M.u < 1)
    (hf : ((1 : Nat) : ℝ) * uF M < 1) :
    |(logistic x).val - sigma x.val| ≤ (M.γ 2 + γf M 1 + M.γ 2 * γf M 1) * sigma x.val := by
  obtain ⟨F, G, hF, hG, hv⟩ := logistic_fac x
  have hF1 := hF.abs_sub_one_le h
  have hG1 := hG.abs_sub_one_le (by rw [libm_u]; exact hf)
  have hs := sigma_pos x.val
  rw [hv]
  have e1 : sigma x.val * F * G - sigma x.val = sigma x.val * ((F - 1) * (G - 1) + (F - 1) + (G - 1)) := by
    ring
  rw [e1, abs_mul, abs_of_pos hs, mul_comm]
  refine mul_le_mul_of_nonneg_right ?_ hs.le
  have hγ2 := M.γ_nonneg 2 h
  calc |(F - 1) * (G - 1) + (F - 1) + (G - 1)|
      ≤ |(F - 1) * (G - 1)| + |F - 1| + |G - 1| := by
        refine le_trans (abs_add_le _ _) ?_
        linarith [abs_add_le ((F - 1) * (G - 1)) (F - 1)]
    _ ≤ M.γ 2 * γf M 1 + M.γ 2 + γf M 1 := by
        rw [abs_mul]
        have := mul_le_mul hF1 hG1 (abs_nonneg _) hγ2
        linarith
    _ = _ := by ring

/-- the computed logistic is positive (idealised standard model only).  PROVISO: `ExpLnStd` is an idealisation — no IEEE `exp` has relative error `≤ uf` below `−745.13` (underflow) or above `709.78` (overflow); at binary64 the computed value can be exactly `0` there.  The underflow-aware variants are in namespace `Cv.Rounding3U` (class `ExpLnUfl`). -/
theorem logistic_pos_stdmodel [ExpLnStd M] (x : Fl M) : 0 < (logistic x).val := by
  obtain ⟨F, G, hF, hG, hv⟩ := logistic_fac x
  rw [hv]
  exact mul_pos (mul_pos (sigma_pos _) hF.pos) hG.pos

/-- **Range of the computed `logistic`**: with a monotone rounding function that fixes `1`
(round-to-nearest does both) the computed value lies in `(0, 1]` for every input — in particular it is
a valid argument of `logit`.  PROVISO: `ExpLnStd` is an idealisation — no IEEE `exp` has relative error `≤ uf` below `−745.13` (underflow) or above `709.78` (overflow); at binary64 the computed value can be exactly `0` there.  The underflow-aware variants are in namespace `Cv.Rounding3U` (class `ExpLnUfl`).  (`logistic_range_ufl`: `[0, 1]`.) -/
theorem logistic_range_stdmodel [ExpLnStd M] (hmono : Monotone M.rnd) (h1 : M.rnd 1 = 1) (x : Fl M) :
    0 < (logistic x).val ∧ (logistic x).val ≤ 1 := by
  refine ⟨logistic_pos_stdmodel x, ?_⟩
  show M.rnd (1 / M.rnd (1 + ExpLnStd.expR (M := M) (-x.val))) ≤ 1
  have hd : 1 ≤ M.rnd (1 + ExpLnStd.expR (M := M) (-x.val)) := by
    rw [← h1]
    exact hmono (by linarith [expR_pos_stdmodel (M := M) (-x.val)])
  have hq : 1 / M.rnd (1 + ExpLnStd.expR (M := M) (-x.val)) ≤ 1 := by
    rw [div_le_one (by linarith)]; exact hd
  calc M.rnd (1 / M.rnd (1 + ExpLnStd.expR (M := M) (-x.val))) ≤ M.rnd 1 := hmono hq
    _ = 1 := h1

end Cv.Rounding3

/-! ## Library functions with gradual underflow (`ExpLnUfl`): the honest variants -/

namespace Cv.Rounding3U
open Cv Cv.FlModel Cv.Rounding
open Cv.Rounding3 (Near)

variable {M : FlModel}

/-- `exp` / `powf` WITH GRADUAL UNDERFLOW: `expR x = eˣ(1+δ) + η`, `|δ| ≤ uf`, `|η| ≤ η₀` (`η₀` = half the smallest
subnormal, `2⁻¹⁰⁷⁵` at `f64`), non-negative, and `≤ 1` on non-positive arguments; `powR` non-negative on positive
bases.  Unlike `ExpLnStd` (relative error for EVERY argument, which no IEEE `exp` satisfies below `−745.13`) this
is satisfiable by a real libm on the whole range where `exp` does not OVERFLOW.  Conclusions weaken from `0 <` to
`0 ≤` and error bounds gain an absolute term. -/
class ExpLnUfl (M : FlModel) where
  uf : ℝ
  uf_nonneg : 0 ≤ uf
  uf_lt_one : uf < 1
  eta0 : ℝ
  eta0_nonneg : 0 ≤ eta0
  expR : ℝ → ℝ
  powR : ℝ → ℝ → ℝ
  exp_ufl : ∀ x : ℝ, ∃ δ η : ℝ, |δ| ≤ uf ∧ |η| ≤ eta0 ∧ expR x = Real.exp x * (1 + δ) + η
  exp_nonneg : ∀ x : ℝ, 0 ≤ expR x
  exp_le_one : ∀ x : ℝ, x ≤ 0 → expR x ≤ 1
  pow_nonneg : ∀ x y : ℝ, 0 < x → 0 ≤ powR x y

/-- a libm that flushes to zero below a threshold `T ≤ 0`: `eˣ` above, `0` below — an instance in which underflow
really happens (`η₀ = e^T`) -/
@[reducible] noncomputable def ExpLnUfl.flush (M : FlModel) (T : ℝ) (hT : T ≤ 0) : ExpLnUfl M where
  uf := 0
  uf_nonneg := le_refl 0
  uf_lt_one := by norm_num
  eta0 := Real.exp T
  eta0_nonneg := (Real.exp_pos T).le
  expR := fun x => if x < T then 0 else Real.exp x
  powR := fun x y => Real.exp (y * Real.log x)
  exp_ufl := fun x => by
    by_cases h : x < T
    · refine ⟨0, -Real.exp x, by simp, ?_, by simp [h]⟩
      rw [abs_neg, abs_of_pos (Real.exp_pos x)]
      exact Real.exp_le_exp.mpr h.le
    · exact ⟨0, 0, by simp, by simpa using (Real.exp_pos T).le, by simp [h]⟩
  exp_nonneg := fun x => by
    by_cases h : x < T
    · simp [h]
    · simp only [h, if_false]; exact (Real.exp_pos x).le
  exp_le_one := fun x hx => by
    by_cases h : x < T
    · simp [h]
    · simp only [h, if_false]; exact Real.exp_le_one_iff.mpr hx
  pow_nonneg := fun x y _ => (Real.exp_pos _).le

scoped instance flLT : LT (Fl M) := ⟨fun a b => a.val < b.val⟩
noncomputable scoped instance flDecLT : DecidableLT (Fl M) :=
  fun a b => Classical.propDecidable (a.val < b.val)

/-- `Transc (Fl M)` with the underflowing library functions -/
noncomputable scoped instance flTranscU [ExpLnUfl M] : Transc (Fl M) where
  sqrt a := a
  abs a := ⟨|a.val|⟩
  exp a := ⟨ExpLnUfl.expR (M := M) a.val⟩
  ln a := a
  pow a b := ⟨ExpLnUfl.powR (M := M) a.val b.val⟩
  sin a := a
  cos a := a
  tan a := a
  floor a := a
  ceil a := a

@[simp] theorem flU_exp_val [ExpLnUfl M] (a : Fl M) :
    (Transc.exp a).val = ExpLnUfl.expR (M := M) a.val := rfl

theorem rnd_nonneg' {w : ℝ} (hw : 0 ≤ w) : 0 ≤ M.rnd w := by
  obtain ⟨δ, hδ, h⟩ := M.std w
  rw [h]
  exact mul_nonneg hw (Fac.one_add hδ).pos.le

/-- **range of the computed `logistic` with an underflowing `exp`**: `0 ≤ logistic x ≤ 1` for a monotone rounding
that fixes `1` (absent OVERFLOW of `exp(−x)`, i.e. `x ≥ −709.78` at `f64`, where the computed value is exactly
`0`: the bound `0 ≤` is attained in practice, `0 <` is a theorem of the idealised `ExpLnStd` model only) -/
theorem logistic_range_ufl [ExpLnUfl M] (hmono : Monotone M.rnd) (h1 : M.rnd 1 = 1) (x : Fl M) :
    0 ≤ (logistic x).val ∧ (logistic x).val ≤ 1 := by
  have he := ExpLnUfl.exp_nonneg (M := M) (-x.val)
  have hd : 1 ≤ M.rnd (1 + ExpLnUfl.expR (M := M) (-x.val)) := by
    rw [← h1]
    exact hmono (by linarith)
  constructor
  · show 0 ≤ M.rnd (1 / M.rnd (1 + ExpLnUfl.expR (M := M) (-x.val)))
    exact rnd_nonneg' (div_nonneg zero_le_one (by linarith))
  · show M.rnd (1 / M.rnd (1 + ExpLnUfl.expR (M := M) (-x.val))) ≤ 1
    have hq : 1 / M.rnd (1 + ExpLnUfl.expR (M := M) (-x.val)) ≤ 1 := by
      rw [div_le_one (by linarith)]; exact hd
    calc M.rnd (1 / M.rnd (1 + ExpLnUfl.expR (M := M) (-x.val))) ≤ M.rnd 1 := hmono hq
      _ = 1 := h1

theorem softmaxArgs_length' [MaxBot (Fl M)] (x : List (Fl M)) : (softmaxArgs x).length = x.length := by
  simp [softmaxArgs]

/-- **`softmax` with an underflowing `exp`**: the entries are `≥ 0` (entries whose shifted exponential underflows
are exactly `0`) and — provided the computed sum of exponentials is positive, as it is whenever the term of the
maximum, `exp(0)`, does not vanish — they still sum to one up to `γ_{n+1}`: the sum-to-one property does not depend
on the accuracy of `exp` at all. -/
theorem softmax_sum_error_ufl [ExpLnUfl M] [MaxBot (Fl M)] (x : List (Fl M))
    (hS : 0 < (softmaxSum x).val) (h : ((x.length + 1 : Nat) : ℝ) * M.u < 1) :
    (softmax x).length = x.length ∧ (∀ y ∈ softmax x, 0 ≤ y.val) ∧
      |(vals (softmax x)).sum - 1| ≤ M.γ (x.length + 1) := by
  have hsm : softmax x = (softmaxArgs x).map fun a => Transc.exp a / softmaxSum x := rfl
  have hsS : softmaxSum x = ((softmaxArgs x).map Transc.exp).foldl (· + ·) 0 := rfl
  have hnearS : Near ((1 - M.u) ^ x.length) ((softmaxArgs x).map fun a => (Transc.exp a).val).sum
      (softmaxSum x).val := by
    have hp := foldl_pert ((softmaxArgs x).map Transc.exp) (0 : Fl M) 0 [] (Pert.nil 0)
    simp only [Nat.zero_add, List.nil_append, List.length_map, softmaxArgs_length'] at hp
    have := Rounding3.Near.of_pert hp (by
      intro t ht
      obtain ⟨e, he, rfl⟩ := List.mem_map.mp ht
      obtain ⟨v, _, rfl⟩ := List.mem_map.mp he
      exact ExpLnUfl.exp_nonneg _)
    simpa [vals, List.map_map, Function.comp_def, hsS] using this
  set args := softmaxArgs x with hargs
  set Ŝ := softmaxSum x with hŜ
  set E := (args.map fun a => (Transc.exp a).val).sum with hE
  refine ⟨by rw [hsm, List.length_map, hargs, softmaxArgs_length'], ?_, ?_⟩
  · intro y hy
    rw [hsm] at hy
    obtain ⟨a, _, rfl⟩ := List.mem_map.mp hy
    exact rnd_nonneg' (div_nonneg (ExpLnUfl.exp_nonneg _) hS.le)
  · have h1 : Near (1 - M.u) (args.map fun a => (Transc.exp a).val / Ŝ.val).sum
        (args.map fun a => (Transc.exp a / Ŝ).val).sum :=
      Rounding3.Near.sum (1 - M.u) args _ _ (fun a _ =>
        Rounding3.Near.rnd M (div_nonneg (ExpLnUfl.exp_nonneg (M := M) a.val) hS.le))
    have hsum : (args.map fun a => (Transc.exp a).val / Ŝ.val).sum = E / Ŝ.val := by
      rw [hE, ← sum_map_div, List.map_map]; rfl
    have hvals : (vals (softmax x)).sum = (args.map fun a => (Transc.exp a / Ŝ).val).sum := by
      rw [hsm]; simp [vals, List.map_map, Function.comp_def]
    rw [hsum] at h1
    have h2 : Near ((1 - M.u) ^ x.length) 1 (E / Ŝ.val) := by
      constructor
      · rw [mul_one, le_div_iff₀ hS, mul_comm]; exact hnearS.2
      · rw [div_mul_eq_mul_div, div_le_one hS, mul_comm]; exact hnearS.1
    have h3 := Rounding3.Near.trans (M.pow_pos' _).le M.one_sub_u_pos.le h2 h1
    rw [← pow_succ] at h3
    have hfac : M.Fac (x.length + 1) (vals (softmax x)).sum := by
      rw [hvals]
      exact ⟨by simpa using h3.1, h3.2⟩
    exact hfac.abs_sub_one_le h

/-- one rounding of a non-negative number is at most `(1+u)` times it -/
theorem rnd_le_of_nonneg' {w : ℝ} (hw : 0 ≤ w) : M.rnd w ≤ w * (1 + M.u) := by
  obtain ⟨δ, hδ, h⟩ := M.std w
  rw [h]
  exact mul_le_mul_of_nonneg_left (by linarith [(abs_le.mp hδ).2]) hw

section kernels
variable [ExpLnUfl M]

theorem rbf_unfold_u (k : Gp.RBF (Fl M)) (x y : Fl M) :
    k.fwd x y = Transc.exp ((-(powi (x - y) 2)) / k.denom) * k.var := rfl

/-- the exponent of the RBF kernel is non-positive in rounded arithmetic too -/
theorem rbf_arg_nonpos (k : Gp.RBF (Fl M)) (x y : Fl M) : ((-(powi (x - y) 2)) / k.denom).val ≤ 0 := by
  have hsq : ∀ z : Fl M, 0 ≤ (powi z 2).val := by
    intro z
    show 0 ≤ M.rnd (1 * M.rnd (z.val * z.val))
    exact rnd_nonneg' (by have := rnd_nonneg' (M := M) (mul_self_nonneg z.val); linarith)
  have hden : 0 ≤ k.denom.val := by
    show 0 ≤ M.rnd (M.rnd ((2 : Nat) : ℝ) * (powi k.ls 2).val)
    exact rnd_nonneg' (mul_nonneg (rnd_nonneg' (by norm_num)) (hsq _))
  show M.rnd (-(powi (x - y) 2).val / k.denom.val) ≤ 0
  obtain ⟨δ, hδ, h⟩ := M.std (-(powi (x - y) 2).val / k.denom.val)
  rw [h]
  have : -(powi (x - y) 2).val / k.denom.val ≤ 0 :=
    div_nonpos_of_nonpos_of_nonneg (neg_nonpos.mpr (hsq _)) hden
  exact mul_nonpos_of_nonpos_of_nonneg this (Fac.one_add hδ).pos.le

/-- **RBF kernel with an underflowing `exp`**: `0 ≤ k̂ ≤ σ²(1+u)` (for well separated points the computed value is
exactly `0`; `0 < k̂` is a theorem of the idealised `ExpLnStd` model only) -/
theorem rbf_range_ufl (k : Gp.RBF (Fl M)) (x y : Fl M) (hv : 0 ≤ k.var.val) :
    0 ≤ (k.fwd x y).val ∧ (k.fwd x y).val ≤ k.var.val * (1 + M.u) := by
  have he0 := ExpLnUfl.exp_nonneg (M := M) ((-(powi (x - y) 2)) / k.denom).val
  have he1 := ExpLnUfl.exp_le_one (M := M) _ (rbf_arg_nonpos k x y)
  rw [rbf_unfold_u]
  constructor
  · exact rnd_nonneg' (mul_nonneg he0 hv)
  · show M.rnd (ExpLnUfl.expR (M := M) ((-(powi (x - y) 2)) / k.denom).val * k.var.val) ≤ _
    refine le_trans (rnd_le_of_nonneg' (mul_nonneg he0 hv)) ?_
    exact mul_le_mul_of_nonneg_right (by nlinarith) (by linarith [M.u_nonneg])

/-- **RBF kernel with an underflowing `exp`, error**: the relative bound of the idealised model plus the absolute
term `η₀·σ²·(1+u)` -/
theorem rbf_error_ufl (k : Gp.RBF (Fl M)) (x y : Fl M) (hv : 0 ≤ k.var.val) :
    ∃ δ ε η : ℝ, |δ| ≤ ExpLnUfl.uf (M := M) ∧ |ε| ≤ M.u ∧ |η| ≤ ExpLnUfl.eta0 (M := M) ∧
      (k.fwd x y).val =
        (Real.exp ((-(powi (x - y) 2)) / k.denom).val * (1 + δ) + η) * k.var.val * (1 + ε) := by
  obtain ⟨δ, η, hδ, hη, he⟩ := ExpLnUfl.exp_ufl (M := M) ((-(powi (x - y) 2)) / k.denom).val
  obtain ⟨ε, hε, hr⟩ := M.std (ExpLnUfl.expR (M := M) ((-(powi (x - y) 2)) / k.denom).val * k.var.val)
  refine ⟨δ, ε, η, hδ, hε, hη, ?_⟩
  rw [rbf_unfold_u]
  show M.rnd (ExpLnUfl.expR (M := M) ((-(powi (x - y) 2)) / k.denom).val * k.var.val) = _
  rw [hr, he]

/-- **rational-quadratic kernel with an underflowing `powf`**: `0 ≤ k̂` -/
theorem rq_nonneg_ufl (k : Gp.RQ (Fl M)) (x y : Fl M) (hv : 0 ≤ k.var.val) (hα : 0 ≤ k.alpha.val) :
    0 ≤ (k.fwd x y).val := by
  have hsq : ∀ z : Fl M, 0 ≤ (powi z 2).val := by
    intro z
    show 0 ≤ M.rnd (1 * M.rnd (z.val * z.val))
    exact rnd_nonneg' (by have := rnd_nonneg' (M := M) (mul_self_nonneg z.val); linarith)
  have hden : 0 ≤ k.denom.val := by
    show 0 ≤ M.rnd (M.rnd (M.rnd ((2 : Nat) : ℝ) * k.alpha.val) * (powi k.ls 2).val)
    exact rnd_nonneg' (mul_nonneg (rnd_nonneg' (mul_nonneg (rnd_nonneg' (by norm_num)) hα)) (hsq _))
  have hB : 0 < ((1 : Fl M) + powi (x - y) 2 / k.denom).val := by
    show 0 < M.rnd (1 + M.rnd ((powi (x - y) 2).val / k.denom.val))
    have h1 := rnd_nonneg' (M := M) (div_nonneg (hsq (x - y)) hden)
    obtain ⟨δ, hδ, h⟩ := M.std (1 + M.rnd ((powi (x - y) 2).val / k.denom.val))
    rw [h]
    exact mul_pos (by linarith) (Fac.one_add hδ).pos
  show 0 ≤ M.rnd (ExpLnUfl.powR (M := M) _ (-k.alpha).val * k.var.val)
  exact rnd_nonneg' (mul_nonneg (ExpLnUfl.pow_nonneg _ _ hB) hv)

end kernels

end Cv.Rounding3U
