import Compute.Model.Glm
import Compute.Lemmas.C06Basic
import Compute.Lemmas.C06Spec
import Compute.Lemmas.C09
import Mathlib.Analysis.SpecialFunctions.Log.Basic
import Mathlib.Algebra.Order.BigOperators.Group.Finset
import Mathlib.Tactic.Ring
import Mathlib.Tactic.Linarith
import Mathlib.Tactic.FieldSimp
import Mathlib.Tactic.NormNum
import Mathlib.Tactic.Positivity
/-
C06 (deep) — the model's `deviance` is the textbook deviance of each family, over ℝ with `ln = Real.log`.

`Valid f y μ` is the domain on which the source formula (families.rs:71-115) is meaningful:
Gaussian: all reals; Bernoulli: `y ∈ {0,1}`, `0 < μ < 1`; (Quasi)Poisson: `y ≥ 0`, `μ > 0`; Gamma/Exponential: `y > 0`, `μ > 0`.
`unitDev f y μ` is the textbook unit deviance `2·(ℓ(y;y) − ℓ(μ;y))`:
  Gaussian `(y−μ)²`, Poisson `2(y ln(y/μ) − (y−μ))`, Bernoulli `2(y ln(y/μ) + (1−y) ln((1−y)/(1−μ)))`,
  Gamma/Exponential `2(−ln(y/μ) + (y−μ)/μ)`, with `0·ln 0 = 0` (which is also what `0 * Real.log 0` evaluates to).

* `deviance_textbook`: on valid data `deviance f y mu = some (Σ_i unitDev f y_i μ_i)`; the per-family closed forms
  `poisson_deviance`, `bernoulli_deviance`, `bernoulli_deviance_loglik`, `gamma_deviance`, `gamma_deviance_split`,
  `gaussian_deviance`, and `quasiPoisson_eq_poisson`, `exponential_eq_gamma`.
* `unitDev_nonneg`, `unitDev_eq_zero_iff` (`= 0 ↔ y = μ`, from `ln x ≤ x − 1`), `deviance_nonneg`, `deviance_eq_zero_iff`.
* Where the source deviates from the textbook form, exactly: at `y = 0` the Poisson branch `if y == 0 { 0 }` IS the
  `0·ln 0 = 0` convention (no deviation, `poisson_term_zero`); for a *fractional* Bernoulli response `0 < y < 1`
  (binomial proportions — outside the Bernoulli family and outside the property's quantifier, responses are simulated
  0/1) the source omits the saturated term: `bernoulli_fractional_gap`, witness `y = μ = 1/2 ↦ 2 ln 2` instead of `0`.
-/
namespace Cv.C06D
open Cv Cv.Glm Cv.C06L Cv.C09

/-! ## textbook unit deviances and the valid domain -/

/-- the domain on which the source's deviance formula is meaningful -/
def Valid (f : Family) (y mu : ℝ) : Prop :=
  match f with
  | .gaussian => True
  | .bernoulli => (y = 0 ∨ y = 1) ∧ 0 < mu ∧ mu < 1
  | .quasiPoisson | .poisson => 0 ≤ y ∧ 0 < mu
  | .gamma | .exponential => 0 < y ∧ 0 < mu

/-- the textbook unit deviance `2(ℓ(y;y) − ℓ(μ;y))` (`0 · ln 0 = 0`: in Mathlib `0 * Real.log 0 = 0` as well) -/
noncomputable def unitDev (f : Family) (y mu : ℝ) : ℝ :=
  match f with
  | .gaussian => (y - mu) ^ 2
  | .bernoulli => 2 * (y * Real.log (y / mu) + (1 - y) * Real.log ((1 - y) / (1 - mu)))
  | .quasiPoisson | .poisson => 2 * (y * Real.log (y / mu) - (y - mu))
  | .gamma | .exponential => 2 * (-Real.log (y / mu) + (y - mu) / mu)

section terms
variable [BEq ℝ] [LawfulBEq ℝ]

/-- the Poisson branch at `y = 0` returns `μ`: the `if *x == 0. { 0. }` of the source is the `0·ln 0 = 0` convention -/
theorem poisson_term_zero (mu : ℝ) : devTermF .poisson 0 mu = mu := by
  simp [devTermF]

/-- **devTerm_textbook.**  On the valid domain, the scaled per-observation term of the source is the textbook unit
deviance. -/
theorem devTerm_textbook (f : Family) (y mu : ℝ) (h : Valid f y mu) :
    devScale f (devTermF f y mu) = unitDev f y mu := by
  have hP : 0 ≤ y ∧ 0 < mu →
      2 * (mu - y - y * Transc.ln mu + (if y == 0 then 0 else y * Transc.ln y)) =
        2 * (y * Real.log (y / mu) - (y - mu)) := by
    rintro ⟨hy, hm⟩
    by_cases h0 : y = 0
    · subst h0; simp
    · have hb : (y == 0) = false := by simpa using h0
      rw [hb]
      simp only [Bool.false_eq_true, if_false, transc_ln]
      rw [Real.log_div h0 hm.ne']
      ring
  have hG : 0 < y ∧ 0 < mu →
      2 * ((y - mu) / mu - Transc.ln (y / mu)) = 2 * (-Real.log (y / mu) + (y - mu) / mu) := by
    intro _; simp only [transc_ln]; ring
  cases f
  · simp only [devScale, devTermF, unitDev]; ring
  · obtain ⟨hy, hm0, hm1⟩ := h
    simp only [devScale, devTermF, unitDev, transc_ln]
    rcases hy with rfl | rfl
    · have : (1 : ℝ) - mu ≠ 0 := by linarith
      simp only [zero_mul, zero_div, sub_zero, one_mul, zero_add, Real.log_zero, mul_zero]
      rw [one_div, Real.log_inv]; ring
    · simp only [sub_self, zero_mul, add_zero, one_mul, zero_div, Real.log_zero, mul_zero]
      rw [one_div, Real.log_inv]; ring
  · exact hP h
  · exact hP h
  · exact hG h
  · exact hG h

end terms

/-! ## `ln x ≤ x − 1`: non-negativity, equality only at `y = μ` -/

theorem sub_one_sub_log_nonneg (x : ℝ) (hx : 0 < x) : 0 ≤ x - 1 - Real.log x := by
  have := Real.log_le_sub_one_of_pos hx; linarith

theorem sub_one_sub_log_eq_zero_iff (x : ℝ) (hx : 0 < x) : x - 1 - Real.log x = 0 ↔ x = 1 := by
  constructor
  · intro h
    by_contra hne
    have := Real.log_lt_sub_one_of_pos hx hne
    linarith
  · rintro rfl; simp

/-- Poisson: `y ln(y/μ) − (y − μ) = μ·(x ln x − x + 1)`, written through `t = μ/y`: `= y (t − 1 − ln t)` -/
theorem poisson_core (y mu : ℝ) (hy : 0 < y) (hm : 0 < mu) :
    y * Real.log (y / mu) - (y - mu) = y * (mu / y - 1 - Real.log (mu / y)) := by
  rw [Real.log_div hy.ne' hm.ne', Real.log_div hm.ne' hy.ne']
  field_simp
  ring

/-- Gamma: `−ln(y/μ) + (y−μ)/μ = x − 1 − ln x` with `x = y/μ` -/
theorem gamma_core (y mu : ℝ) (hm : 0 < mu) :
    -Real.log (y / mu) + (y - mu) / mu = y / mu - 1 - Real.log (y / mu) := by
  field_simp
  ring

/-- **unitDev_nonneg.** -/
theorem unitDev_nonneg (f : Family) (y mu : ℝ) (h : Valid f y mu) : 0 ≤ unitDev f y mu := by
  have hP : 0 ≤ y ∧ 0 < mu → 0 ≤ 2 * (y * Real.log (y / mu) - (y - mu)) := by
    rintro ⟨hy, hm⟩
    rcases hy.eq_or_lt with rfl | hy
    · simp; exact hm.le
    · rw [poisson_core y mu hy hm]
      exact mul_nonneg (by norm_num) (mul_nonneg hy.le (sub_one_sub_log_nonneg _ (div_pos hm hy)))
  have hG : 0 < y ∧ 0 < mu → 0 ≤ 2 * (-Real.log (y / mu) + (y - mu) / mu) := by
    rintro ⟨hy, hm⟩
    rw [gamma_core y mu hm]
    exact mul_nonneg (by norm_num) (sub_one_sub_log_nonneg _ (div_pos hy hm))
  cases f
  · exact sq_nonneg _
  · obtain ⟨hy, hm0, hm1⟩ := h
    simp only [unitDev]
    rcases hy with rfl | rfl
    · have h1 : 0 < 1 - mu := by linarith
      have : Real.log (1 / (1 - mu)) = -Real.log (1 - mu) := by rw [one_div, Real.log_inv]
      have hl : Real.log (1 - mu) ≤ 0 := Real.log_nonpos h1.le (by linarith)
      simp only [zero_mul, zero_add, sub_zero, one_mul, this]
      linarith
    · have : Real.log (1 / mu) = -Real.log mu := by rw [one_div, Real.log_inv]
      have hl : Real.log mu ≤ 0 := Real.log_nonpos hm0.le hm1.le
      simp only [sub_self, zero_mul, add_zero, one_mul, this]
      linarith
  · exact hP h
  · exact hP h
  · exact hG h
  · exact hG h

/-- **unitDev_eq_zero_iff.**  On the valid domain the unit deviance vanishes exactly at `y = μ`
(for Bernoulli `y ∈ {0,1}`, `0 < μ < 1` both sides are false: the deviance is strictly positive). -/
theorem unitDev_eq_zero_iff (f : Family) (y mu : ℝ) (h : Valid f y mu) : unitDev f y mu = 0 ↔ y = mu := by
  have hP : 0 ≤ y ∧ 0 < mu → (2 * (y * Real.log (y / mu) - (y - mu)) = 0 ↔ y = mu) := by
    rintro ⟨hy, hm⟩
    rcases hy.eq_or_lt with rfl | hy
    · simp only [zero_mul, zero_div, zero_sub, neg_neg]
      constructor
      · intro h0; linarith
      · intro h0; linarith
    · rw [poisson_core y mu hy hm]
      have hpos : 0 < mu / y := div_pos hm hy
      rw [mul_eq_zero, mul_eq_zero, sub_one_sub_log_eq_zero_iff _ hpos, div_eq_one_iff_eq hy.ne']
      constructor
      · rintro (h2 | h2 | h2)
        · norm_num at h2
        · exact absurd h2 hy.ne'
        · exact h2.symm
      · intro h2; exact Or.inr (Or.inr h2.symm)
  have hG : 0 < y ∧ 0 < mu → (2 * (-Real.log (y / mu) + (y - mu) / mu) = 0 ↔ y = mu) := by
    rintro ⟨hy, hm⟩
    rw [gamma_core y mu hm, mul_eq_zero, sub_one_sub_log_eq_zero_iff _ (div_pos hy hm), div_eq_one_iff_eq hm.ne']
    constructor
    · rintro (h2 | h2)
      · norm_num at h2
      · exact h2
    · intro h2; exact Or.inr h2
  cases f
  · simp only [unitDev]
    rw [sq_eq_zero_iff, sub_eq_zero]
  · obtain ⟨hy, hm0, hm1⟩ := h
    simp only [unitDev]
    rcases hy with rfl | rfl
    · have h1 : 0 < 1 - mu := by linarith
      have : Real.log (1 / (1 - mu)) = -Real.log (1 - mu) := by rw [one_div, Real.log_inv]
      have hl : Real.log (1 - mu) < 0 := Real.log_neg h1 (by linarith)
      simp only [zero_mul, zero_add, sub_zero, one_mul, this]
      constructor
      · intro h0; linarith
      · intro h0; linarith
    · have : Real.log (1 / mu) = -Real.log mu := by rw [one_div, Real.log_inv]
      have hl : Real.log mu < 0 := Real.log_neg hm0 hm1
      simp only [sub_self, zero_mul, add_zero, one_mul, this]
      constructor
      · intro h0; linarith
      · intro h0; linarith
  · exact hP h
  · exact hP h
  · exact hG h
  · exact hG h

/-! ## the model's `deviance` -/

section total
variable [BEq ℝ] [LawfulBEq ℝ] [GlmScalar ℝ]

omit [BEq ℝ] [LawfulBEq ℝ] [GlmScalar ℝ] in
theorem devScale_sum (f : Family) (n : ℕ) (t : ℕ → ℝ) :
    devScale f (∑ i ∈ Finset.range n, t i) = ∑ i ∈ Finset.range n, devScale f (t i) := by
  cases f <;> simp only [devScale, Finset.mul_sum, Finset.sum_mul]

/-- **deviance_textbook.**  On valid data (`Valid` for every observation) the model's `deviance` is the sum of the
textbook unit deviances. -/
theorem deviance_textbook (f : Family) (y mu : List ℝ) (h : y.length = mu.length)
    (hv : ∀ i, i < y.length → Valid f y[i]! mu[i]!) :
    deviance f y mu = some (∑ i ∈ Finset.range y.length, unitDev f y[i]! mu[i]!) := by
  rw [deviance_spec f y mu h, devScale_sum]
  congr 1
  exact Finset.sum_congr rfl fun i hi => devTerm_textbook f _ _ (hv i (Finset.mem_range.mp hi))

/-- **poisson_deviance.**  `2 Σ (y ln(y/μ) − (y − μ))`, `y ≥ 0` (with `0 ln 0 = 0`), `μ > 0`. -/
theorem poisson_deviance (y mu : List ℝ) (h : y.length = mu.length)
    (hv : ∀ i, i < y.length → 0 ≤ y[i]! ∧ 0 < mu[i]!) :
    deviance .poisson y mu =
      some (2 * ∑ i ∈ Finset.range y.length, (y[i]! * Real.log (y[i]! / mu[i]!) - (y[i]! - mu[i]!))) := by
  rw [deviance_textbook .poisson y mu h hv, Finset.mul_sum]; rfl

omit [LawfulBEq ℝ] [GlmScalar ℝ] in
/-- **quasiPoisson_eq_poisson.**  (every input, not only valid ones) -/
theorem quasiPoisson_eq_poisson (y mu : List ℝ) : deviance .quasiPoisson y mu = deviance .poisson y mu := rfl

omit [LawfulBEq ℝ] in
/-- **bernoulli_deviance_loglik.**  `−2 Σ (y ln μ + (1−y) ln(1−μ))` — the source's formula, every input. -/
theorem bernoulli_deviance_loglik (y mu : List ℝ) (h : y.length = mu.length) :
    deviance .bernoulli y mu =
      some (-2 * ∑ i ∈ Finset.range y.length, (y[i]! * Real.log mu[i]! + (1 - y[i]!) * Real.log (1 - mu[i]!))) := by
  rw [deviance_spec .bernoulli y mu h]
  simp only [devScale, devTermF, transc_ln]
  rw [mul_comm]

/-- **bernoulli_deviance.**  For 0/1 responses and `0 < μ < 1` this is the textbook deviance
`2 Σ (y ln(y/μ) + (1−y) ln((1−y)/(1−μ)))`. -/
theorem bernoulli_deviance (y mu : List ℝ) (h : y.length = mu.length)
    (hv : ∀ i, i < y.length → (y[i]! = 0 ∨ y[i]! = 1) ∧ 0 < mu[i]! ∧ mu[i]! < 1) :
    deviance .bernoulli y mu =
      some (2 * ∑ i ∈ Finset.range y.length,
        (y[i]! * Real.log (y[i]! / mu[i]!) + (1 - y[i]!) * Real.log ((1 - y[i]!) / (1 - mu[i]!)))) := by
  rw [deviance_textbook .bernoulli y mu h hv, Finset.mul_sum]; rfl

/-- **gamma_deviance.**  `2 Σ (−ln(y/μ) + (y−μ)/μ)`, `y > 0`, `μ > 0`. -/
theorem gamma_deviance (y mu : List ℝ) (h : y.length = mu.length)
    (hv : ∀ i, i < y.length → 0 < y[i]! ∧ 0 < mu[i]!) :
    deviance .gamma y mu =
      some (2 * ∑ i ∈ Finset.range y.length, (-Real.log (y[i]! / mu[i]!) + (y[i]! - mu[i]!) / mu[i]!)) := by
  rw [deviance_textbook .gamma y mu h hv, Finset.mul_sum]; rfl

/-- **gamma_deviance_split.**  The form with `ln y − ln μ`: `2 Σ ((y−μ)/μ − ln y + ln μ)`. -/
theorem gamma_deviance_split (y mu : List ℝ) (h : y.length = mu.length)
    (hv : ∀ i, i < y.length → 0 < y[i]! ∧ 0 < mu[i]!) :
    deviance .gamma y mu =
      some (2 * ∑ i ∈ Finset.range y.length, ((y[i]! - mu[i]!) / mu[i]! - Real.log y[i]! + Real.log mu[i]!)) := by
  rw [gamma_deviance y mu h hv]
  congr 2
  refine Finset.sum_congr rfl fun i hi => ?_
  obtain ⟨hy, hm⟩ := hv i (Finset.mem_range.mp hi)
  rw [Real.log_div hy.ne' hm.ne']; ring

omit [LawfulBEq ℝ] [GlmScalar ℝ] in
/-- **exponential_eq_gamma.**  (every input) -/
theorem exponential_eq_gamma (y mu : List ℝ) : deviance .exponential y mu = deviance .gamma y mu := rfl

/-- **gaussian_deviance.**  `Σ (y − μ)²`, every input. -/
theorem gaussian_deviance (y mu : List ℝ) (h : y.length = mu.length) :
    deviance .gaussian y mu = some (∑ i ∈ Finset.range y.length, (y[i]! - mu[i]!) ^ 2) :=
  deviance_textbook .gaussian y mu h (fun _ _ => trivial)

/-- **deviance_nonneg / deviance_eq_zero_iff.**  On valid data the deviance is `≥ 0`, and `= 0` exactly when the
means reproduce the responses. -/
theorem deviance_nonneg (f : Family) (y mu : List ℝ) (h : y.length = mu.length)
    (hv : ∀ i, i < y.length → Valid f y[i]! mu[i]!) :
    ∃ d, deviance f y mu = some d ∧ 0 ≤ d ∧ (d = 0 ↔ ∀ i, i < y.length → y[i]! = mu[i]!) := by
  refine ⟨_, deviance_textbook f y mu h hv, ?_, ?_⟩
  · exact Finset.sum_nonneg fun i hi => unitDev_nonneg f _ _ (hv i (Finset.mem_range.mp hi))
  · rw [Finset.sum_eq_zero_iff_of_nonneg fun i hi => unitDev_nonneg f _ _ (hv i (Finset.mem_range.mp hi))]
    constructor
    · intro h0 i hi
      exact (unitDev_eq_zero_iff f _ _ (hv i hi)).mp (h0 i (Finset.mem_range.mpr hi))
    · intro h0 i hi
      have hi' := Finset.mem_range.mp hi
      exact (unitDev_eq_zero_iff f _ _ (hv i hi')).mpr (h0 i hi')

end total

/-! ## where the source's formula is *not* the textbook deviance -/

section gap
variable [BEq ℝ] [LawfulBEq ℝ]

omit [LawfulBEq ℝ] in
/-- **bernoulli_fractional_gap.**  For a fractional response `0 < y < 1` (a binomial proportion; not a Bernoulli
observation) the source's term exceeds the textbook binomial unit deviance by the omitted saturated log-likelihood
`−2 (y ln y + (1−y) ln(1−y)) > 0`; in particular it does not vanish at `y = μ`. -/
theorem bernoulli_fractional_gap (y mu : ℝ) (hy0 : 0 < y) (hy1 : y < 1) (hm0 : 0 < mu) (hm1 : mu < 1) :
    devScale .bernoulli (devTermF .bernoulli y mu) - unitDev .bernoulli y mu =
        -2 * (y * Real.log y + (1 - y) * Real.log (1 - y)) ∧
      0 < -2 * (y * Real.log y + (1 - y) * Real.log (1 - y)) := by
  have h1y : 0 < 1 - y := by linarith
  have h1m : 0 < 1 - mu := by linarith
  constructor
  · simp only [devScale, devTermF, unitDev, transc_ln]
    rw [Real.log_div hy0.ne' hm0.ne', Real.log_div h1y.ne' h1m.ne']
    ring
  · have l1 : Real.log y < 0 := Real.log_neg hy0 hy1
    have l2 : Real.log (1 - y) < 0 := Real.log_neg h1y (by linarith)
    have := mul_neg_of_pos_of_neg hy0 l1
    have := mul_neg_of_pos_of_neg h1y l2
    linarith

/-- witness: `y = μ = 1/2` gives `2 ln 2`, not `0` -/
example : devScale .bernoulli (devTermF .bernoulli (1 / 2 : ℝ) (1 / 2)) = 2 * Real.log 2 := by
  simp only [devScale, devTermF, transc_ln]
  have : (1 : ℝ) - 1 / 2 = 1 / 2 := by norm_num
  rw [this, one_div, Real.log_inv]
  ring

end gap

/-! ## non-vacuity -/

/-- the instance hypotheses `[BEq ℝ] [LawfulBEq ℝ] [GlmScalar ℝ]` are satisfiable (the theorems hold for every choice) -/
example : LawfulBEq ℝ := inferInstance
noncomputable example : GlmScalar ℝ := ⟨fun _ => false, fun x => ⌊x⌋₊⟩

section examples
variable [BEq ℝ] [LawfulBEq ℝ] [GlmScalar ℝ]

/-- Poisson with a zero count: `y = (0, 2)`, `μ = (1, 2)`: deviance `2·((0 − (0−1)) + (2 ln 1 − 0)) = 2`. -/
example : deviance .poisson ([0, 2] : List ℝ) [1, 2] = some 2 := by
  rw [poisson_deviance [0, 2] [1, 2] rfl (by
    intro i hi
    have : i = 0 ∨ i = 1 := by simp at hi; omega
    rcases this with rfl | rfl <;> norm_num)]
  simp [Finset.sum_range_succ]

/-- Gamma at `y = μ`: deviance 0. -/
example : deviance .gamma ([3, 5] : List ℝ) [3, 5] = some 0 := by
  rw [gamma_deviance [3, 5] [3, 5] rfl (by
    intro i hi
    have : i = 0 ∨ i = 1 := by simp at hi; omega
    rcases this with rfl | rfl <;> norm_num)]
  simp

/-- Bernoulli `y = (1, 0)`, `μ = (1/2, 1/2)`: valid, deviance `4 ln 2`. -/
example : deviance .bernoulli ([1, 0] : List ℝ) [1 / 2, 1 / 2] = some (4 * Real.log 2) := by
  rw [bernoulli_deviance_loglik [1, 0] [1 / 2, 1 / 2] rfl]
  have h2 : Real.log (1 / 2 : ℝ) = -Real.log 2 := by rw [one_div, Real.log_inv]
  simp [Finset.sum_range_succ]
  ring_nf
  rw [h2]
  ring

end examples

end Cv.C06D
