import Compute.Drv.Common
import Compute.Model.Scalar
import Compute.Model.Broadcast
/-
Driver for C12.  Request: `bc <op> <kind> r1 c1 r2 c2 <r1*c1 floats> <r2*c2 floats>`
  op ∈ add sub mul div ; kind ∈ mm mv vm  (for a Vector operand r = 1 and c = its length).
Reply: `= r c <data>` or `! panic`.
-/
open Cv

def c12Op (s : String) : Option (Float → Float → Float) :=
  match s with
  | "add" => some (· + ·) | "sub" => some (· - ·) | "mul" => some (· * ·) | "div" => some (· / ·)
  | _ => none

def c12Step (args : List String) : String :=
  match args with
  | "bc" :: opS :: kind :: rest =>
    match c12Op opS with
    | none => badOp
    | some op =>
      withArgs (do
        let r1 ← pNat; let c1 ← pNat; let r2 ← pNat; let c2 ← pNat
        let d1 ← pMany pFloat (r1 * c1); let d2 ← pMany pFloat (r2 * c2)
        pure (r1, c1, r2, c2, d1, d2)) rest fun (r1, c1, r2, c2, d1, d2) =>
        let m1 : Mat Float := if kind == "vm" then vecToMat d1 else ⟨d1, r1, c1⟩
        let m2 : Mat Float := if kind == "mv" then vecToMat d2 else ⟨d2, r2, c2⟩
        match broadcastOp op m1 m2 with
        | none => panicked
        | some r => ok s!"{r.nrows} {r.ncols} {showFloats r.data}"
  | _ => badOp

def main (args : List String) : IO UInt32 := mainWith () (fun _ t => ((), c12Step t)) args
