import Compute.Model.Matmul
import Compute.Lemmas.Mat
/-
Loop lemmas for C05 (core Lean only, no algebraic laws on the scalar):
both loop nests of `Model/Matmul.lean` (`mmLoop`, `mmBlockedLoop`) leave in cell `(i,j)` of the
accumulator the left fold `((0 + a[i,0]·b[0,j]) + a[i,1]·b[1,j]) + … + a[i,l-1]·b[l-1,j]` —
the same expression tree — so they are equal for every scalar type, `Float` included.
-/
namespace Cv.C05L
open Cv

/-! ### generic fold lemmas -/

theorem foldl_congr' {σ ι : Type} (F G : σ → ι → σ) (xs : List ι)
    (h : ∀ x ∈ xs, ∀ s, F s x = G s x) (s : σ) : xs.foldl F s = xs.foldl G s := by
  induction xs generalizing s with
  | nil => rfl
  | cons x xs ih =>
    simp only [List.foldl_cons]
    rw [h x (by simp) s]
    exact ih (fun y hy => h y (by simp [hy])) _

theorem foldl_id' {σ ι : Type} (F : σ → ι → σ) (xs : List ι)
    (h : ∀ x ∈ xs, ∀ s, F s x = s) (s : σ) : xs.foldl F s = s := by
  induction xs generalizing s with
  | nil => rfl
  | cons x xs ih =>
    simp only [List.foldl_cons]
    rw [h x (by simp) s]
    exact ih (fun y hy => h y (by simp [hy])) _

/-- A fold whose step is the identity for every element except `j` performs at most that one step. -/
theorem foldl_unique {σ ι : Type} [DecidableEq ι] (j : ι) (F : σ → ι → σ) (xs : List ι) (hn : xs.Nodup)
    (hid : ∀ x ∈ xs, x ≠ j → ∀ s, F s x = s) (s : σ) :
    xs.foldl F s = if j ∈ xs then F s j else s := by
  induction xs generalizing s with
  | nil => simp
  | cons x xs ih =>
    simp only [List.foldl_cons]
    have hn' := (List.nodup_cons.mp hn)
    by_cases hx : x = j
    · subst hx
      rw [foldl_id' F xs (fun y hy s => hid y (by simp [hy]) (by rintro rfl; exact hn'.1 hy) s)]
      simp
    · rw [hid x (by simp) hx s, ih hn'.2 (fun y hy => hid y (by simp [hy]))]
      have : (j ∈ x :: xs) ↔ j ∈ xs := by
        simp only [List.mem_cons]
        constructor
        · rintro (h | h)
          · exact absurd h.symm hx
          · exact h
        · exact Or.inr
      simp only [this]

/-- Simulation: a relation preserved by each step is preserved by the folds. -/
theorem foldl_sim {σ τ ι : Type} (R : σ → τ → Prop) (f : σ → ι → σ) (g : τ → ι → τ) (xs : List ι)
    (h : ∀ x ∈ xs, ∀ c s, R c s → R (f c x) (g s x)) (c : σ) (s : τ) (hR : R c s) :
    R (xs.foldl f c) (xs.foldl g s) := by
  induction xs generalizing c s with
  | nil => exact hR
  | cons x xs ih =>
    simp only [List.foldl_cons]
    exact ih (fun y hy => h y (by simp [hy])) _ _ (h x (by simp) c s hR)

/-! ### index arithmetic -/

theorem idx_eq_iff {n i j i' j' : Nat} (hj : j < n) (hj' : j' < n) :
    i' * n + j' = i * n + j ↔ i' = i ∧ j' = j := by
  constructor
  · intro h
    have hn : 0 < n := by omega
    have h1 : (i' * n + j') / n = i' := by
      rw [Nat.add_comm, Nat.add_mul_div_right _ _ hn, Nat.div_eq_of_lt hj']; simp
    have h2 : (i * n + j) / n = i := by
      rw [Nat.add_comm, Nat.add_mul_div_right _ _ hn, Nat.div_eq_of_lt hj]; simp
    have hi : i' = i := by rw [← h1, ← h2, h]
    subst hi
    exact ⟨rfl, by omega⟩
  · rintro ⟨rfl, rfl⟩; rfl

/-- The blocks `[q·b, min(q·b+b, l))`, `q = 0 … l/b`, concatenate to `0 … l`. -/
theorem blocks_flatMap (b l : Nat) (hb : 0 < b) (q : Nat) :
    (List.range q).flatMap (fun kk => List.range' (kk * b) (min (kk * b + b) l - kk * b)) =
      List.range (min (q * b) l) := by
  induction q with
  | zero => simp
  | succ q ih =>
    rw [List.range_succ, List.flatMap_append, ih]
    simp only [List.flatMap_cons, List.flatMap_nil, List.append_nil]
    rw [List.range_eq_range', List.range_eq_range']
    have e : (q + 1) * b = q * b + b := by rw [Nat.add_mul]; simp
    rw [e]
    by_cases h : q * b ≤ l
    · have h1 : min (q * b) l = q * b := by omega
      rw [h1]
      have := @List.range'_append 0 (q * b) (min (q * b + b) l - q * b) 1
      simp only [Nat.zero_add, Nat.one_mul] at this
      rw [this]
      congr 1
      omega
    · have h1 : min (q * b) l = l := by omega
      have h2 : min (q * b + b) l - q * b = 0 := by omega
      have h3 : min (q * b + b) l = l := by omega
      rw [h1, h2, h3]; simp

theorem blocks_all (b l : Nat) (hb : 0 < b) :
    (List.range (l / b + 1)).flatMap (fun kk => List.range' (kk * b) (min (kk * b + b) l - kk * b)) =
      List.range l := by
  rw [blocks_flatMap b l hb]
  have := Nat.lt_mul_div_succ l hb
  rw [Nat.mul_comm] at this
  congr 1
  omega

/-- `j` lies in block `jj` iff `jj = j / b`. -/
theorem mem_block_iff {b n j jj : Nat} (hb : 0 < b) (hj : j < n) :
    j ∈ List.range' (jj * b) (min (jj * b + b) n - jj * b) ↔ jj = j / b := by
  rw [List.mem_range'_1]
  have hdm := Nat.div_add_mod j b
  have hm := Nat.mod_lt j hb
  constructor
  · rintro ⟨h1, h2⟩
    have h3 : j < jj * b + b := by omega
    symm
    rw [Nat.div_eq_iff hb]
    omega
  · rintro rfl
    rw [Nat.mul_comm] at hdm
    omega

/-! ### the accumulator seen from one cell -/

section cell
variable {α : Type} [Inhabited α] [Add α] [Mul α] [Zero α]

/-- The value both kernels leave in a cell: `k` ascending, left-associated, starting from `0`. -/
def cellFold (f : Nat → α) (l : Nat) : α := (List.range l).foldl (fun s k => s + f k) 0

/-- "array `c` has `N` cells and cell `p` holds `s`" -/
def CellIs (N p : Nat) (c : Array α) (s : α) : Prop := c.size = N ∧ c[p]! = s

theorem cellIs_modify {N p : Nat} (hp : p < N) (c : Array α) (s : α) (q : Nat) (g : α → α)
    (h : CellIs N p c s) : CellIs N p (c.modify q g) (if q = p then g s else s) := by
  obtain ⟨h1, h2⟩ := h
  refine ⟨by simp [h1], ?_⟩
  have hp' : p < (c.modify q g).size := by simp [h1, hp]
  have hp'' : p < c.size := by omega
  rw [getElem!_pos (c.modify q g) p hp', Array.getElem_modify]
  rw [getElem!_pos c p hp''] at h2
  rw [h2]

theorem mmLoop_cell (A B : Array α) (m l n i j : Nat) (hi : i < m) (hj : j < n) :
    CellIs (m * n) (i * n + j) (mmLoop A B m l n) (cellFold (fun k => A[i * l + k]! * B[k * n + j]!) l) := by
  have hp : i * n + j < m * n := Mat.idx_lt hi hj
  -- scalar shadow of the loop nest
  let G : α → Nat → α := fun s i' =>
    (List.range l).foldl (fun s k =>
      (List.range n).foldl (fun s j' =>
        if i' * n + j' = i * n + j then s + A[i' * l + k]! * B[k * n + j']! else s) s) s
  have sim : CellIs (m * n) (i * n + j) (mmLoop A B m l n) ((List.range m).foldl G 0) := by
    unfold mmLoop
    apply foldl_sim (CellIs (m * n) (i * n + j))
    · intro i' _ c s hR
      apply foldl_sim (CellIs (m * n) (i * n + j))
      · intro k _ c s hR
        apply foldl_sim (CellIs (m * n) (i * n + j))
        · intro j' _ c s hR
          exact cellIs_modify hp c s _ _ hR
        · exact hR
      · exact hR
    · refine ⟨by simp, ?_⟩
      rw [getElem!_pos (Array.replicate (m * n) (0 : α)) (i * n + j) (by simpa using hp)]; simp
  have key : (List.range m).foldl G 0 = cellFold (fun k => A[i * l + k]! * B[k * n + j]!) l := by
    rw [foldl_unique i G _ List.nodup_range]
    · simp only [List.mem_range, hi, if_true]
      show (List.range l).foldl _ 0 = _
      unfold cellFold
      apply foldl_congr'
      intro k _ s
      rw [foldl_unique j _ _ List.nodup_range]
      · simp [hj]
      · intro j' _ hne s
        simp [hne]
    · intro i' _ hne s
      apply foldl_id'
      intro k _ s
      apply foldl_id'
      intro j' hj' s
      have hj'' : j' < n := List.mem_range.mp hj'
      have : ¬ (i' * n + j' = i * n + j) := fun h => hne ((idx_eq_iff hj hj'').mp h).1
      simp [this]
  rw [← key]; exact sim

theorem mmBlockedLoop_cell (A B : Array α) (m l n b i j : Nat) (hb : 0 < b) (hi : i < m) (hj : j < n) :
    CellIs (m * n) (i * n + j) (mmBlockedLoop A B m l n b)
      (cellFold (fun k => A[i * l + k]! * B[k * n + j]!) l) := by
  have hp : i * n + j < m * n := Mat.idx_lt hi hj
  let kb : Nat → List Nat := fun kk => List.range' (kk * b) (min (kk * b + b) l - kk * b)
  let jb : Nat → List Nat := fun jj => List.range' (jj * b) (min (jj * b + b) n - jj * b)
  let G : α → Nat → α := fun s jj =>
    (List.range (l / b + 1)).foldl (fun s kk =>
      (List.range m).foldl (fun s i' =>
        (kb kk).foldl (fun s k =>
          (jb jj).foldl (fun s j' =>
            if i' * n + j' = i * n + j then s + A[i' * l + k]! * B[k * n + j']! else s) s) s) s) s
  have sim : CellIs (m * n) (i * n + j) (mmBlockedLoop A B m l n b) ((List.range (n / b + 1)).foldl G 0) := by
    unfold mmBlockedLoop
    apply foldl_sim (CellIs (m * n) (i * n + j))
    · intro jj _ c s hR
      apply foldl_sim (CellIs (m * n) (i * n + j))
      · intro kk _ c s hR
        apply foldl_sim (CellIs (m * n) (i * n + j))
        · intro i' _ c s hR
          apply foldl_sim (CellIs (m * n) (i * n + j))
          · intro k _ c s hR
            apply foldl_sim (CellIs (m * n) (i * n + j))
            · intro j' _ c s hR
              exact cellIs_modify hp c s _ _ hR
            · exact hR
          · exact hR
        · exact hR
      · exact hR
    · refine ⟨by simp, ?_⟩
      rw [getElem!_pos (Array.replicate (m * n) (0 : α)) (i * n + j) (by simpa using hp)]; simp
  have jb_lt : ∀ jj j', j' ∈ jb jj → j' < n := by
    intro jj j' h
    have := List.mem_range'_1.mp h
    omega
  have key : (List.range (n / b + 1)).foldl G 0 = cellFold (fun k => A[i * l + k]! * B[k * n + j]!) l := by
    rw [foldl_unique (j / b) G _ List.nodup_range]
    · have hmem : j / b ∈ List.range (n / b + 1) := by
        rw [List.mem_range]
        have := Nat.div_le_div_right (c := b) (Nat.le_of_lt hj)
        omega
      simp only [hmem, if_true]
      have hjin : j ∈ jb (j / b) := (mem_block_iff hb hj).mpr rfl
      -- per kk: the block of k's is folded with the plain step
      have step : ∀ kk, ∀ s : α,
          (List.range m).foldl (fun s i' =>
            (kb kk).foldl (fun s k =>
              (jb (j / b)).foldl (fun s j' =>
                if i' * n + j' = i * n + j then s + A[i' * l + k]! * B[k * n + j']! else s) s) s) s
          = (kb kk).foldl (fun s k => s + A[i * l + k]! * B[k * n + j]!) s := by
        intro kk s
        rw [foldl_unique i _ _ List.nodup_range]
        · simp only [List.mem_range, hi, if_true]
          apply foldl_congr'
          intro k _ s
          rw [foldl_unique j _ _ (List.nodup_range' 1)]
          · have hjin' : j ∈ List.range' (j / b * b) (min (j / b * b + b) n - j / b * b) := hjin
            rw [if_pos hjin', if_pos rfl]
          · intro j' _ hne s
            simp [hne]
        · intro i' _ hne s
          apply foldl_id'
          intro k _ s
          apply foldl_id'
          intro j' hj' s
          have hj'' : j' < n := jb_lt _ _ hj'
          have : ¬ (i' * n + j' = i * n + j) := fun h => hne ((idx_eq_iff hj hj'').mp h).1
          simp [this]
      show (List.range (l / b + 1)).foldl _ 0 = _
      rw [foldl_congr' _ _ _ (fun kk _ s => step kk s)]
      rw [← List.foldl_flatMap (f := kb) (g := fun s k => s + A[i * l + k]! * B[k * n + j]!)]
      rw [blocks_all b l hb]
      rfl
    · intro jj _ hne s
      have hnot : j ∉ jb jj := fun h => hne ((mem_block_iff hb hj).mp h)
      apply foldl_id'
      intro kk _ s
      apply foldl_id'
      intro i' _ s
      apply foldl_id'
      intro k _ s
      apply foldl_id'
      intro j' hj' s
      have hj'' : j' < n := jb_lt _ _ hj'
      have : ¬ (i' * n + j' = i * n + j) := fun h => by
        have := ((idx_eq_iff hj hj'').mp h).2
        subst this
        exact hnot hj'
      simp [this]
  rw [← key]; exact sim

/-- **The blocked loop nest equals the plain one, for every scalar type** (no algebraic law is used:
every cell accumulates the same products in the same order). -/
theorem mmBlockedLoop_eq (A B : Array α) (m l n b : Nat) (hb : 0 < b) :
    mmBlockedLoop A B m l n b = mmLoop A B m l n := by
  have s1 : (mmBlockedLoop A B m l n b).size = m * n := by
    unfold mmBlockedLoop
    apply foldl_sim (fun (c : Array α) (_ : Unit) => c.size = m * n) _ (fun _ _ => ()) _ _ _ ()
    · simp
    · intro jj _ c _ h
      apply foldl_sim (fun (c : Array α) (_ : Unit) => c.size = m * n) _ (fun _ _ => ()) _ _ _ () h
      intro kk _ c _ h
      apply foldl_sim (fun (c : Array α) (_ : Unit) => c.size = m * n) _ (fun _ _ => ()) _ _ _ () h
      intro i' _ c _ h
      apply foldl_sim (fun (c : Array α) (_ : Unit) => c.size = m * n) _ (fun _ _ => ()) _ _ _ () h
      intro k _ c _ h
      apply foldl_sim (fun (c : Array α) (_ : Unit) => c.size = m * n) _ (fun _ _ => ()) _ _ _ () h
      intro j' _ c _ h
      simpa using h
  have s2 : (mmLoop A B m l n).size = m * n := by
    unfold mmLoop
    apply foldl_sim (fun (c : Array α) (_ : Unit) => c.size = m * n) _ (fun _ _ => ()) _ _ _ ()
    · simp
    · intro i' _ c _ h
      apply foldl_sim (fun (c : Array α) (_ : Unit) => c.size = m * n) _ (fun _ _ => ()) _ _ _ () h
      intro k _ c _ h
      apply foldl_sim (fun (c : Array α) (_ : Unit) => c.size = m * n) _ (fun _ _ => ()) _ _ _ () h
      intro j' _ c _ h
      simpa using h
  apply Array.ext (by rw [s1, s2])
  intro p hp1 hp2
  rw [s1] at hp1
  have hn : 0 < n := by
    rcases Nat.eq_zero_or_pos n with h | h
    · subst h; simp at hp1
    · exact h
  have hi : p / n < m := by
    rw [Nat.div_lt_iff_lt_mul hn]; exact hp1
  have hj : p % n < n := Nat.mod_lt p hn
  have hpe : p / n * n + p % n = p := by
    rw [Nat.mul_comm]; exact Nat.div_add_mod p n
  have c1 := (mmBlockedLoop_cell A B m l n b (p / n) (p % n) hb hi hj).2
  have c2 := (mmLoop_cell A B m l n (p / n) (p % n) hi hj).2
  rw [hpe] at c1 c2
  rw [getElem!_pos (mmLoop A B m l n) p hp2] at c2
  rw [getElem!_pos (mmBlockedLoop A B m l n b) p (by rw [s1]; exact hp1)] at c1
  rw [c1, c2]

end cell
end Cv.C05L
