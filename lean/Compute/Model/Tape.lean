import Compute.Model.Scalar
/-
Model of the dependency crate `reverse` 0.2.2 (reverse-mode automatic differentiation on a Wengert
list; ~/.cargo/registry/src/*/reverse-0.2.2/src/lib.rs), restricted to what the optimizers of
`src/optimize/{adam,sgd,lm}.rs` and the objective catalogue of property C10 use:

* `Tape` = `RefCell<Vec<Node>>`, `Node { weights: [f64; 2], dependencies: [usize; 2] }`;
* `Tape::add_var`, `Tape::clear`; `Var { val, location }`;
* every operator impl the catalogue reaches, **in the node order of the source** (e.g. `Var - Var` is
  `self.add(rhs.neg())`, `neg` is `self * -1.`, `Var / Var` is `self * rhs.recip()`), with the weights
  written exactly as the source computes them (so that the `Float` instance is bit-identical,
  including the weight `-1/x` of `f64 / Var`, which is what the crate does);
* `Var::grad` (the reverse sweep over the *whole* tape, two `+=` per node, leaf nodes included) and
  `Gradient::wrt`;
* the objective catalogue: RPN programs over `+ - * / neg powi exp sin`, parameters, constants and
  the data point `x`, with a stack of constants (`f64`) and variables (`Var`) so that every
  `f64 ∘ Var`, `Var ∘ f64`, `Var ∘ Var` operator impl is exercised.

The tape is threaded explicitly (`Tape α → … × Tape α`).  Core Lean only, generic in the scalar.
-/
namespace Cv.AD

/-- `Node { weights, dependencies }`. -/
structure Node (α : Type) where
  w0 : α
  w1 : α
  d0 : Nat
  d1 : Nat
deriving Repr

/-- `Var { val, location, tape }` (the tape reference is the threaded state). -/
structure Var (α : Type) where
  val : α
  loc : Nat
deriving Repr

abbrev Tape (α : Type) := Array (Node α)

variable {α : Type}

/-- `Tape::add_node(loc1, loc2, grad1, grad2)`: push, return the index. -/
@[inline] def addNode (t : Tape α) (d0 d1 : Nat) (w0 w1 : α) : Nat × Tape α :=
  (t.size, t.push ⟨w0, w1, d0, d1⟩)

/-- a new `Var` with value `v` whose node is `(d0, d1, w0, w1)` -/
@[inline] def mk (t : Tape α) (v : α) (d0 d1 : Nat) (w0 w1 : α) : Var α × Tape α :=
  (⟨v, t.size⟩, t.push ⟨w0, w1, d0, d1⟩)

section ops
variable [Add α] [Sub α] [Mul α] [Div α] [Neg α] [Zero α] [One α] [IntCast α] [Transc α]

/-- `Tape::add_var(val)`: a leaf: `add_node(len, len, 0., 0.)`. -/
def addVar (t : Tape α) (x : α) : Var α × Tape α := mk t x t.size t.size 0 0

/-- `Tape::add_vars` / `.iter().map(|&x| tape.add_var(x)).collect()`. -/
def addVars (t : Tape α) : List α → List (Var α) × Tape α
  | [] => ([], t)
  | x :: xs =>
    let (v, t) := addVar t x
    let (vs, t) := addVars t xs
    (v :: vs, t)

/-- `impl Add<Var> for Var`. -/
def addVV (t : Tape α) (a b : Var α) : Var α × Tape α := mk t (a.val + b.val) a.loc b.loc 1 1
/-- `impl Add<f64> for Var`. -/
def addVC (t : Tape α) (a : Var α) (c : α) : Var α × Tape α := mk t (a.val + c) a.loc a.loc 1 0
/-- `impl Mul<Var> for Var`. -/
def mulVV (t : Tape α) (a b : Var α) : Var α × Tape α := mk t (a.val * b.val) a.loc b.loc b.val a.val
/-- `impl Mul<f64> for Var`. -/
def mulVC (t : Tape α) (a : Var α) (c : α) : Var α × Tape α := mk t (a.val * c) a.loc a.loc c 0
/-- `impl Neg for Var`: `self * -1.`. -/
def negV (t : Tape α) (a : Var α) : Var α × Tape α := mulVC t a (-1)
/-- `impl Sub<Var> for Var`: `self.add(rhs.neg())` (two nodes). -/
def subVV (t : Tape α) (a b : Var α) : Var α × Tape α :=
  let (nb, t) := negV t b
  addVV t a nb
/-- `impl Sub<f64> for Var`: `self.add(rhs.neg())`. -/
def subVC (t : Tape α) (a : Var α) (c : α) : Var α × Tape α := addVC t a (-c)
/-- `impl Sub<Var> for f64`: node `(rhs, rhs, 0., -1.)`. -/
def subCV (t : Tape α) (c : α) (a : Var α) : Var α × Tape α := mk t (c - a.val) a.loc a.loc 0 (-1)
/-- `Var::recip`: weight `-1. / (self.val.powi(2))`. -/
def recipV (t : Tape α) (a : Var α) : Var α × Tape α :=
  mk t (1 / a.val) a.loc a.loc ((-1) / (powi a.val 2)) 0
/-- `impl Div<Var> for Var`: `self * rhs.recip()`. -/
def divVV (t : Tape α) (a b : Var α) : Var α × Tape α :=
  let (r, t) := recipV t b
  mulVV t a r
/-- `impl Div<f64> for Var`: `self * rhs.recip()` (`f64::recip = 1.0 / x`). -/
def divVC (t : Tape α) (a : Var α) (c : α) : Var α × Tape α := mulVC t a (1 / c)
/-- `impl Div<Var> for f64`: node `(rhs, rhs, 0., -1. / rhs.val)` — as the crate has it (the true
derivative of `c / x` is `-c / x²`; see the finding recorded for C10). -/
def divCV (t : Tape α) (c : α) (a : Var α) : Var α × Tape α :=
  mk t (c / a.val) a.loc a.loc 0 ((-1) / a.val)
/-- `Var::powi(n)`: weight `n as f64 * self.val.powi(n - 1)`. -/
def powiV (t : Tape α) (a : Var α) (n : Int) : Var α × Tape α :=
  mk t (powi a.val n) a.loc a.loc ((n : α) * powi a.val (n - 1)) 0
/-- `Var::exp`. -/
def expV (t : Tape α) (a : Var α) : Var α × Tape α :=
  mk t (Transc.exp a.val) a.loc a.loc (Transc.exp a.val) 0
/-- `Var::sin`. -/
def sinV (t : Tape α) (a : Var α) : Var α × Tape α :=
  mk t (Transc.sin a.val) a.loc a.loc (Transc.cos a.val) 0

end ops

/-! ### the reverse sweep -/
section sweep
variable [Add α] [Mul α] [Zero α] [One α]

/-- One iteration of `for (idx, n) in nodes.iter().enumerate().rev()`:
`derivs[n.dependencies[0]] += n.weights[0] * derivs[idx]; derivs[n.dependencies[1]] += n.weights[1] * derivs[idx];`
(`derivs[idx]` is re-read for the second statement, as in the source). -/
@[inline] def sweepStep (t : Tape α) (d : Array α) (idx : Nat) : Array α :=
  match t[idx]? with
  | none => d
  | some n =>
    let x := d.getD idx 0
    let d := d.modify n.d0 (fun y => y + n.w0 * x)
    let x := d.getD idx 0
    d.modify n.d1 (fun y => y + n.w1 * x)

/-- nodes `k-1, k-2, …, 0` in that order -/
def sweepFrom (t : Tape α) : Nat → Array α → Array α
  | 0, d => d
  | k + 1, d => sweepFrom t k (sweepStep t d k)

/-- `Var::grad`: `derivs = vec![0.; n]; derivs[self.location] = 1.;` then the sweep over the whole tape. -/
def grad (t : Tape α) (v : Var α) : Array α :=
  sweepFrom t t.size ((Array.replicate t.size (0 : α)).setIfInBounds v.loc 1)

/-- `Gradient::wrt(&[Var])`: `self[v.location]` for each variable. -/
def wrt (d : Array α) (vs : List (Var α)) : List α := vs.map fun v => d.getD v.loc 0

end sweep

/-! ### the objective catalogue: RPN programs -/

/-- One RPN instruction. -/
inductive Op (α : Type) where
  | param (i : Nat)      -- push `p[i]` (a `Var`)
  | const (c : α)        -- push an `f64`
  | x                    -- push `d[0][0]` (an `f64`: the data point of LM's per-point call)
  | add | sub | mul | div | neg
  | powi (n : Int)
  | exp | sin
deriving Repr

/-- Stack cell: an `f64` constant or a `Var`. -/
inductive Item (α : Type) where
  | c (x : α)
  | v (x : Var α)

section rpn
variable [Add α] [Sub α] [Mul α] [Div α] [Neg α] [Zero α] [One α] [IntCast α] [Transc α]

/-- the four `Add` impls (`f64 + Var` is `rhs + self`) -/
def iAdd (t : Tape α) : Item α → Item α → Item α × Tape α
  | .c a, .c b => (.c (a + b), t)
  | .v a, .c b => let (r, t) := addVC t a b; (.v r, t)
  | .c a, .v b => let (r, t) := addVC t b a; (.v r, t)
  | .v a, .v b => let (r, t) := addVV t a b; (.v r, t)

def iSub (t : Tape α) : Item α → Item α → Item α × Tape α
  | .c a, .c b => (.c (a - b), t)
  | .v a, .c b => let (r, t) := subVC t a b; (.v r, t)
  | .c a, .v b => let (r, t) := subCV t a b; (.v r, t)
  | .v a, .v b => let (r, t) := subVV t a b; (.v r, t)

/-- the four `Mul` impls (`f64 * Var` is `rhs * self`) -/
def iMul (t : Tape α) : Item α → Item α → Item α × Tape α
  | .c a, .c b => (.c (a * b), t)
  | .v a, .c b => let (r, t) := mulVC t a b; (.v r, t)
  | .c a, .v b => let (r, t) := mulVC t b a; (.v r, t)
  | .v a, .v b => let (r, t) := mulVV t a b; (.v r, t)

def iDiv (t : Tape α) : Item α → Item α → Item α × Tape α
  | .c a, .c b => (.c (a / b), t)
  | .v a, .c b => let (r, t) := divVC t a b; (.v r, t)
  | .c a, .v b => let (r, t) := divCV t a b; (.v r, t)
  | .v a, .v b => let (r, t) := divVV t a b; (.v r, t)

def iNeg (t : Tape α) : Item α → Item α × Tape α
  | .c a => (.c (-a), t)
  | .v a => let (r, t) := negV t a; (.v r, t)

def iPowi (t : Tape α) (n : Int) : Item α → Item α × Tape α
  | .c a => (.c (powi a n), t)
  | .v a => let (r, t) := powiV t a n; (.v r, t)

def iExp (t : Tape α) : Item α → Item α × Tape α
  | .c a => (.c (Transc.exp a), t)
  | .v a => let (r, t) := expV t a; (.v r, t)

def iSin (t : Tape α) : Item α → Item α × Tape α
  | .c a => (.c (Transc.sin a), t)
  | .v a => let (r, t) := sinV t a; (.v r, t)

/-- One instruction on (stack, tape); `none` = panic (index out of range, stack underflow). -/
def stepOp (ps : List (Var α)) (x? : Option α) (st : List (Item α)) (t : Tape α) :
    Op α → Option (List (Item α) × Tape α)
  | .param i => match ps[i]? with
    | some p => some (.v p :: st, t)
    | none => none
  | .const c => some (.c c :: st, t)
  | .x => match x? with
    | some x => some (.c x :: st, t)
    | none => none
  | .add => match st with
    | b :: a :: st => let (r, t) := iAdd t a b; some (r :: st, t)
    | _ => none
  | .sub => match st with
    | b :: a :: st => let (r, t) := iSub t a b; some (r :: st, t)
    | _ => none
  | .mul => match st with
    | b :: a :: st => let (r, t) := iMul t a b; some (r :: st, t)
    | _ => none
  | .div => match st with
    | b :: a :: st => let (r, t) := iDiv t a b; some (r :: st, t)
    | _ => none
  | .neg => match st with
    | a :: st => let (r, t) := iNeg t a; some (r :: st, t)
    | _ => none
  | .powi n => match st with
    | a :: st => let (r, t) := iPowi t n a; some (r :: st, t)
    | _ => none
  | .exp => match st with
    | a :: st => let (r, t) := iExp t a; some (r :: st, t)
    | _ => none
  | .sin => match st with
    | a :: st => let (r, t) := iSin t a; some (r :: st, t)
    | _ => none

def runOps (ps : List (Var α)) (x? : Option α) :
    List (Op α) → List (Item α) → Tape α → Option (List (Item α) × Tape α)
  | [], st, t => some (st, t)
  | o :: os, st, t =>
    match stepOp ps x? st t o with
    | none => none
    | some (st, t) => runOps ps x? os st t

/-- The objective closure `f(&params, data)`: runs the program; the result must be a single `Var`
(anything else is a panic of the executor's closure). -/
def evalProg (prog : List (Op α)) (ps : List (Var α)) (x? : Option α) (t : Tape α) :
    Option (Var α × Tape α) :=
  match runOps ps x? prog [] t with
  | some ([.v r], t) => some (r, t)
  | _ => none

/-- `tape.clear(); params = add_var(θ)…; f(&params, data).grad().wrt(&params)` — the gradient the
optimizers Adam and plain SGD use at the point `θ`. -/
def gradAt (prog : List (Op α)) (θ : List α) : Option (List α) :=
  let (ps, t) := addVars (#[] : Tape α) θ
  match evalProg prog ps none t with
  | none => none
  | some (r, t) => some (wrt (grad t r) ps)

/-- value and gradient (driver op `grad`) -/
def valGradAt (prog : List (Op α)) (θ : List α) (x? : Option α) : Option (α × List α) :=
  let (ps, t) := addVars (#[] : Tape α) θ
  match evalProg prog ps x? t with
  | none => none
  | some (r, t) => some (r.val, wrt (grad t r) ps)

/-- `future_params = params.zip(update_vec).map(|(p, u)| *p - momentum * u)` on the tape. -/
def lookAhead (t : Tape α) (mom : α) : List (Var α) → List α → List (Var α) × Tape α
  | p :: ps, u :: us =>
    let (f, t) := subVC t p (mom * u)
    let (fs, t) := lookAhead t mom ps us
    (f :: fs, t)
  | _, _ => ([], t)

/-- The gradient Nesterov-SGD uses: the parameters are leaves `0..n-1`, the look-ahead points are the
next `n` nodes, the objective is evaluated at the look-ahead points and differentiated w.r.t. them. -/
def gradAtLookAhead (prog : List (Op α)) (mom : α) (θ u : List α) : Option (List α) :=
  let (ps, t) := addVars (#[] : Tape α) θ
  let (fs, t) := lookAhead t mom ps u
  match evalProg prog fs none t with
  | none => none
  | some (r, t) => some (wrt (grad t r) fs)

end rpn
end Cv.AD
