import Compute.Props.C05
import Mathlib.Data.Matrix.Mul
import Mathlib.Algebra.BigOperators.Fin
/-
C05 — the definition stated with Mathlib's `Matrix` (review-a, C05 C item: the entry formulas of `Props/C05` go through
the model's own `opEntry`).  For matrices `A`, `B` over a commutative semiring, flattened row-major:

    matmul (flat A) (flat B) … ta tb = some (flat (op A * op B))        op = id / `Matrix.transpose`

for each of the four flag pairs, `*` being Mathlib's matrix product.
-/
namespace Cv.C05
open Cv Cv.C05L

variable {α : Type} [Inhabited α]

/-- row-major flattening of an `m × n` matrix -/
def flat {m n : Nat} (A : Matrix (Fin m) (Fin n) α) : List α :=
  (List.range (m * n)).map fun p =>
    if h : p / n < m ∧ p % n < n then A ⟨p / n, h.1⟩ ⟨p % n, h.2⟩ else default

@[simp] theorem flat_length {m n : Nat} (A : Matrix (Fin m) (Fin n) α) : (flat A).length = m * n := by
  simp [flat]

theorem flat_get {m n : Nat} (A : Matrix (Fin m) (Fin n) α) (i j : Nat) (hi : i < m) (hj : j < n) :
    (flat A)[i * n + j]! = A ⟨i, hi⟩ ⟨j, hj⟩ := by
  have hk : i * n + j < m * n := Mat.idx_lt hi hj
  have hn : 0 < n := by omega
  have h1 : (i * n + j) / n = i := by
    rw [Nat.add_comm, Nat.add_mul_div_right _ _ hn, Nat.div_eq_of_lt hj]; simp
  have h2 : (i * n + j) % n = j := by
    rw [Nat.add_comm, Nat.add_mul_mod_self_right, Nat.mod_eq_of_lt hj]
  rw [getElem!_pos (flat A) (i * n + j) (by simpa using hk)]
  simp only [flat, List.getElem_map, List.getElem_range]
  have hc : (i * n + j) / n < m ∧ (i * n + j) % n < n := by rw [h1, h2]; exact ⟨hi, hj⟩
  rw [dif_pos hc]
  congr 1 <;> exact Fin.ext (by simp [h1, h2])

/-- a list with the right length and the right entries is the flattening -/
theorem eq_flat {m n : Nat} (C : Matrix (Fin m) (Fin n) α) (c : List α) (hl : c.length = m * n)
    (h : ∀ i j (hi : i < m) (hj : j < n), c[i * n + j]! = C ⟨i, hi⟩ ⟨j, hj⟩) : c = flat C := by
  apply List.ext_getElem (by simp [hl])
  intro p hp1 hp2
  rw [hl] at hp1
  have hn : 0 < n := by
    rcases Nat.eq_zero_or_pos n with h0 | h0
    · subst h0; simp at hp1
    · exact h0
  have hi : p / n < m := by rw [Nat.div_lt_iff_lt_mul hn]; exact hp1
  have hj : p % n < n := Nat.mod_lt p hn
  have hpe : p / n * n + p % n = p := by rw [Nat.mul_comm]; exact Nat.div_add_mod p n
  have e1 := h _ _ hi hj
  have e2 := flat_get C _ _ hi hj
  rw [hpe] at e1 e2
  rw [← getElem!_pos c p (by rw [hl]; exact hp1), ← getElem!_pos (flat C) p hp2, e1, e2]

variable [CommSemiring α]

theorem sum_range_fin (l : Nat) (f : Nat → α) (g : Fin l → α) (h : ∀ k : Fin l, f k = g k) :
    ∑ k ∈ Finset.range l, f k = ∑ k : Fin l, g k := by
  rw [Finset.sum_range]
  exact Finset.sum_congr rfl (fun k _ => h k)

/-- **`A·B`** (`A : m × l`, `B : l × n`). -/
theorem matmul_matrix_NN {m l n : Nat} (A : Matrix (Fin m) (Fin l) α) (B : Matrix (Fin l) (Fin n) α)
    (hm : 0 < m) (hl : 0 < l) : matmul (flat A) (flat B) m l false false = some (flat (A * B)) := by
  obtain ⟨c, h1, h2, h3⟩ := matmul_spec_NN (flat A) (flat B) m l n (by simp) (by simp) hm hl
  rw [h1, eq_flat (A * B) c h2]
  intro i j hi hj
  rw [h3 i j hi hj, Matrix.mul_apply]
  exact sum_range_fin l _ _ (fun k => by rw [flat_get A i k hi k.2, flat_get B k j k.2 hj])

/-- **`Aᵀ·B`** (`A : l × m` stored, `B : l × n`). -/
theorem matmul_matrix_TN {m l n : Nat} (A : Matrix (Fin l) (Fin m) α) (B : Matrix (Fin l) (Fin n) α)
    (hl : 0 < l) : matmul (flat A) (flat B) l l true false = some (flat (A.transpose * B)) := by
  obtain ⟨c, h1, h2, h3⟩ := matmul_spec_TN (flat A) (flat B) m l n (by simp) (by simp) hl
  rw [h1, eq_flat (A.transpose * B) c h2]
  intro i j hi hj
  rw [h3 i j hi hj, Matrix.mul_apply]
  exact sum_range_fin l _ _ (fun k => by rw [flat_get A k i k.2 hi, flat_get B k j k.2 hj]; rfl)

/-- **`A·Bᵀ`** (`A : m × l`, `B : n × l` stored). -/
theorem matmul_matrix_NT {m l n : Nat} (A : Matrix (Fin m) (Fin l) α) (B : Matrix (Fin n) (Fin l) α)
    (hm : 0 < m) (hn : 0 < n) : matmul (flat A) (flat B) m n false true = some (flat (A * B.transpose)) := by
  obtain ⟨c, h1, h2, h3⟩ := matmul_spec_NT (flat A) (flat B) m l n (by simp) (by simp) hm hn
  rw [h1, eq_flat (A * B.transpose) c h2]
  intro i j hi hj
  rw [h3 i j hi hj, Matrix.mul_apply]
  exact sum_range_fin l _ _ (fun k => by rw [flat_get A i k hi k.2, flat_get B j k hj k.2]; rfl)

/-- **`Aᵀ·Bᵀ`** (`A : l × m`, `B : n × l` stored) — the path repaired by F12. -/
theorem matmul_matrix_TT {m l n : Nat} (A : Matrix (Fin l) (Fin m) α) (B : Matrix (Fin n) (Fin l) α)
    (hl : 0 < l) (hn : 0 < n) :
    matmul (flat A) (flat B) l n true true = some (flat (A.transpose * B.transpose)) := by
  obtain ⟨c, h1, h2, h3⟩ := matmul_spec_TT (flat A) (flat B) m l n (by simp) (by simp) hl hn
  rw [h1, eq_flat (A.transpose * B.transpose) c h2]
  intro i j hi hj
  rw [h3 i j hi hj, Matrix.mul_apply]
  exact sum_range_fin l _ _ (fun k => by rw [flat_get A k i k.2 hi, flat_get B j k hj k.2]; rfl)

/-- The blocked kernel returns the same flattened Mathlib product for every block size ≥ 1 (all flags). -/
theorem matmulBlocked_matrix_NN {m l n : Nat} (A : Matrix (Fin m) (Fin l) α) (B : Matrix (Fin l) (Fin n) α)
    (hm : 0 < m) (hl : 0 < l) (bsize : Nat) (hbs : 0 < bsize) :
    matmulBlocked (flat A) (flat B) m l false false bsize = some (flat (A * B)) := by
  rw [matmulBlocked_eq_semiring _ _ _ _ _ _ _ hbs, matmul_matrix_NN A B hm hl]

/-- `xtx` is `Xᵀ·X` in Mathlib's sense. -/
theorem xtx_matrix {k p : Nat} (X : Matrix (Fin k) (Fin p) α) (hk : 0 < k) :
    xtx (flat X) k = some (flat (X.transpose * X)) := matmul_matrix_TN X X hk

/-- non-vacuity: concrete `2×3` and `3×2` operands -/
def exA : Matrix (Fin 2) (Fin 3) Int := fun i j => ((i.val * 3 + j.val + 1 : Nat) : Int)
def exB : Matrix (Fin 3) (Fin 2) Int := fun i j => ((i.val + 2 * j.val : Nat) : Int)
example : matmul (flat exA) (flat exB) 2 3 false false = some (flat (exA * exB)) :=
  matmul_matrix_NN exA exB (by decide) (by decide)
example : flat exA = [1, 2, 3, 4, 5, 6] ∧ flat exB = [0, 2, 1, 3, 2, 4] := by decide

end Cv.C05
