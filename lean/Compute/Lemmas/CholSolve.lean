import Compute.Lemmas.CholCorrect
/-
`cholesky_solve` (decomposition/substitution.rs): forward solve with `L`, transpose, backward solve with
`Lᵀ` — in exact arithmetic the result solves `(L·Lᵀ)·x = b`.
-/
set_option linter.unusedSectionVars false
namespace Cv.LA
open Finset

section
variable {α : Type} [Zero α]

/-- entries of `transpose` of a square array -/
theorem transpose_sq_entry (l lt : List α) (n : Nat) (hl : l.length = n * n) (h : transpose l n = some lt) :
    lt.length = n * n ∧ ∀ i j, i < n → j < n → rd lt (i * n + j) = rd l (j * n + i) := by
  unfold transpose at h
  cases hm : isMatrix l.length n with
  | none => simp [hm] at h
  | some c =>
    obtain ⟨hn0, hc⟩ := isMatrix_eq_some_iff.mp hm
    have hcn : c = n := by
      rw [hl] at hc
      exact Nat.eq_of_mul_eq_mul_left (Nat.pos_of_ne_zero hn0) hc
    subst hcn
    simp only [hm, Option.bind_eq_bind, Option.bind_some, Option.pure_def, Option.some.injEq] at h
    subst h
    refine ⟨by simp [hl], fun i j hi hj => ?_⟩
    have hlt : i * c + j < l.length := by rw [hl]; exact idx_lt' hj hi
    rw [rd_map_range _ _ _ hlt]
    obtain ⟨h1, h2⟩ := divmod_idx' (j := i) hj
    rw [h1, h2]

theorem transpose_sq_some (l : List α) (n : Nat) (hn : n ≠ 0) (hl : l.length = n * n) :
    ∃ lt, transpose l n = some lt := by
  have hm : isMatrix l.length n = some n := isMatrix_eq_some_iff.mpr ⟨hn, hl.symm⟩
  simp only [transpose, hm, Option.bind_eq_bind, Option.bind_some, Option.pure_def]
  exact ⟨_, rfl⟩

end

section
variable {F : Type} [Field F]

/-- `Σ_{t < n-i} f (i+t)` is the tail of the full sum -/
theorem sum_tail_eq (f : Nat → F) (n i : Nat) (hi : i ≤ n) (hz : ∀ j, j < i → f j = 0) :
    ∑ t ∈ range (n - i), f (i + t) = ∑ j ∈ range n, f j := by
  rw [← Finset.sum_range_add_sum_Ico f hi, Finset.sum_Ico_eq_sum_range,
    Finset.sum_eq_zero (fun j hj => hz j (Finset.mem_range.mp hj)), zero_add]

/-- `Σ_{j ≤ i} f j` is the full sum when `f` vanishes beyond `i` -/
theorem sum_head_eq (f : Nat → F) (n i : Nat) (hi : i < n) (hz : ∀ j, i < j → j < n → f j = 0) :
    ∑ j ∈ range (i + 1), f j = ∑ j ∈ range n, f j := by
  apply Finset.sum_subset (Finset.range_subset_range.mpr (by omega))
  intro j hj hj'
  have h1 := Finset.mem_range.mp hj
  have h2 : ¬ j < i + 1 := fun hh => hj' (Finset.mem_range.mpr hh)
  exact hz j (by omega) h1

/-- **`cholesky_solve` solves `(L·Lᵀ) x = b`.**  `l` square of order `n`, lower triangular, non-zero
diagonal.  The right-hand side must have length `n` (otherwise the function panics), and so has the
result. -/
theorem choleskySolve_LLt (l b x : List F) (n : Nat) (hl : l.length = n * n)
    (hd : ∀ i, i < n → rd l (i * n + i) ≠ 0)
    (hlow : ∀ r c, r < n → c < n → r < c → rd l (r * n + c) = 0)
    (h : choleskySolve l b = some x) :
    b.length = n ∧ x.length = n ∧ ∀ i, i < n →
      ∑ j ∈ range n, (∑ k ∈ range n, rd l (i * n + k) * rd l (j * n + k)) * rd x j = rd b i := by
  unfold choleskySolve at h
  rw [hl, isSquare_sq] at h
  simp only [Option.bind_eq_bind, Option.bind_some] at h
  by_cases hb : b.length = n
  swap
  · simp [hb] at h
  simp only [hb, ne_eq, not_true_eq_false, if_false] at h
  cases hy : forwardSubstitution l b with
  | none => simp [hy] at h
  | some y =>
  cases ht : transpose l n with
  | none => simp [hy, ht] at h
  | some lt =>
  simp only [hy, ht, Option.bind_some] at h
  obtain ⟨_, hyl, hfwd⟩ := forwardSubstitution_spec l b y n hl hd hy
  obtain ⟨hltl, hlt⟩ := transpose_sq_entry l lt n hl ht
  have hdt : ∀ i, i < n → rd lt (i * n + i) ≠ 0 := fun i hi => by rw [hlt i i hi hi]; exact hd i hi
  obtain ⟨_, hxl, hbwd⟩ := backwardSubstitution_spec lt y x n hltl hdt h
  -- full-row forms
  have hF : ∀ i, i < n → ∑ k ∈ range n, rd l (i * n + k) * rd y k = rd b i := by
    intro i hi
    rw [← hfwd i hi, list_sum_range]
    symm
    apply sum_head_eq (fun k => rd l (i * n + k) * rd y k) n i hi
    intro j hij hj
    simp only [hlow i j hi hj hij, zero_mul]
  have hB : ∀ k, k < n → ∑ j ∈ range n, rd l (j * n + k) * rd x j = rd y k := by
    intro k hk
    rw [← hbwd k hk, list_sum_range]
    have h1 : ∑ t ∈ range (n - k), rd lt (k * n + k + t) * rd x (k + t) =
        ∑ t ∈ range (n - k), rd l ((k + t) * n + k) * rd x (k + t) := by
      apply Finset.sum_congr rfl
      intro t ht'
      have := Finset.mem_range.mp ht'
      rw [Nat.add_assoc, hlt k (k + t) hk (by omega)]
    rw [h1]
    symm
    apply sum_tail_eq (fun j => rd l (j * n + k) * rd x j) n k (by omega)
    intro j hj
    simp only [hlow j k (by omega) hk hj, zero_mul]
  refine ⟨hb, hxl, fun i hi => ?_⟩
  rw [← hF i hi]
  simp_rw [Finset.sum_mul]
  rw [Finset.sum_comm]
  apply Finset.sum_congr rfl
  intro k hk
  rw [← hB k (Finset.mem_range.mp hk), Finset.mul_sum]
  exact Finset.sum_congr rfl fun j _ => by ring

/-- the panic branches of `cholesky_solve`: wrong right-hand-side length, or order `0`
(`transpose` → `is_matrix(·, 0)` divides by zero) -/
theorem choleskySolve_none (l b : List F) (n : Nat) (hl : l.length = n * n) (hb : b.length ≠ n ∨ n = 0) :
    choleskySolve l b = none := by
  unfold choleskySolve
  rw [hl, isSquare_sq]
  simp only [Option.bind_eq_bind, Option.bind_some]
  rcases hb with hb | hn
  · simp [hb]
  · subst hn
    by_cases hb : b.length = 0
    · simp only [hb, ne_eq, not_true_eq_false, if_false]
      cases forwardSubstitution l b with
      | none => rfl
      | some y => simp [transpose, isMatrix]
    · simp [hb]

/-- **`cholesky_solve` solves `A x = b`** whenever `L·Lᵀ = A`. -/
theorem choleskySolve_spec (a l b x : List F) (n : Nat) (hl : l.length = n * n)
    (hd : ∀ i, i < n → rd l (i * n + i) ≠ 0)
    (hlow : ∀ r c, r < n → c < n → r < c → rd l (r * n + c) = 0)
    (hA : ∀ i j, i < n → j < n → ∑ k ∈ range n, rd l (i * n + k) * rd l (j * n + k) = rd a (i * n + j))
    (h : choleskySolve l b = some x) :
    b.length = n ∧ x.length = n ∧ ∀ i, i < n → ∑ j ∈ range n, rd a (i * n + j) * rd x j = rd b i := by
  obtain ⟨h1, h2, h3⟩ := choleskySolve_LLt l b x n hl hd hlow h
  refine ⟨h1, h2, fun i hi => ?_⟩
  rw [← h3 i hi]
  exact Finset.sum_congr rfl fun j hj => by rw [hA i j hi (Finset.mem_range.mp hj)]

/-- `cholesky_solve` never panics on a square factor of order `n ≥ 1` with non-zero diagonal and a right-hand
side of length `n`. -/
theorem choleskySolve_some (l b : List F) (n : Nat) (hl : l.length = n * n) (hn : n ≠ 0) (hb : b.length = n)
    (hd : ∀ i, i < n → rd l (i * n + i) ≠ 0) : ∃ x, choleskySolve l b = some x := by
  obtain ⟨y, hy⟩ : ∃ y, forwardSubstitution l b = some y := by
    unfold forwardSubstitution
    rw [hl, isSquare_sq]
    simp only [Option.bind_eq_bind, Option.bind_some, hb, ne_eq, not_true_eq_false, if_false, Option.pure_def]
    exact ⟨_, rfl⟩
  obtain ⟨_, hyl, _⟩ := forwardSubstitution_spec l b y n hl hd hy
  obtain ⟨lt, ht⟩ := transpose_sq_some l n hn hl
  obtain ⟨hltl, _⟩ := transpose_sq_entry l lt n hl ht
  obtain ⟨x, hx⟩ : ∃ x, backwardSubstitution lt y = some x := by
    unfold backwardSubstitution
    rw [hltl, isSquare_sq]
    simp only [Option.bind_eq_bind, Option.bind_some, hyl, ne_eq, not_true_eq_false, if_false, Option.pure_def]
    exact ⟨_, rfl⟩
  refine ⟨x, ?_⟩
  unfold choleskySolve
  rw [hl, isSquare_sq]
  simp only [Option.bind_eq_bind, Option.bind_some, hb, ne_eq, not_true_eq_false, if_false, hy, ht, hx]

end
end Cv.LA
