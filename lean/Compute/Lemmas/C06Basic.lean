import Compute.Model.Glm
import Compute.Lemmas.Mat
import Compute.Lemmas.C04Kernels
import Compute.Lemmas.C05Spec
import Compute.Props.C05
import Mathlib.Algebra.BigOperators.Ring.Finset
import Mathlib.Algebra.BigOperators.Group.Finset.Basic
import Mathlib.Algebra.BigOperators.Fin
import Mathlib.Tactic.Ring
/-
Helper lemmas for C06: element access into the results of the shared element-wise kernels, list sums as
`Finset` sums, and sums over permuted observations.
-/
namespace Cv.C06L
open Cv Cv.Vops Cv.Glm

variable {α : Type}

/-! ### element access -/

theorem getBang_map [Inhabited α] {β : Type} [Inhabited β] (f : β → α) (l : List β) (i : Nat) (h : i < l.length) :
    (l.map f)[i]! = f l[i]! := by
  rw [getElem!_pos (l.map f) i (by simpa using h), getElem!_pos l i h]; simp

theorem getBang_zipWith [Inhabited α] (f : α → α → α) (a b : List α) (i : Nat) (ha : i < a.length) (hb : i < b.length) :
    (List.zipWith f a b)[i]! = f a[i]! b[i]! := by
  rw [getElem!_pos (List.zipWith f a b) i (by simp; omega), getElem!_pos a i ha, getElem!_pos b i hb]; simp

theorem getBang_rangeMap [Inhabited α] (f : Nat → α) (n i : Nat) (h : i < n) :
    ((List.range n).map f)[i]! = f i := by
  rw [getElem!_pos _ i (by simpa using h)]; simp

theorem getBang_replicate [Inhabited α] (a : α) (n i : Nat) (h : i < n) : (List.replicate n a)[i]! = a := by
  rw [getElem!_pos _ i (by simpa using h)]; simp

theorem toArray_getBang [Inhabited α] (a : List α) (k : Nat) : a.toArray[k]! = a[k]! := by simp

theorem ext_getBang [Inhabited α] {a b : List α} (hl : a.length = b.length) (h : ∀ i, i < a.length → a[i]! = b[i]!) :
    a = b := by
  apply List.ext_getElem hl
  intro i h1 h2
  have := h i h1
  rwa [getElem!_pos a i h1, getElem!_pos b i h2] at this

/-- `vbin` on lists of equal length is `zipWith`. -/
theorem vbin_eq (op : α → α → α) (a b : List α) (h : a.length = b.length) :
    Vops.vbin op a b = some (List.zipWith op a b) := by
  simp [Vops.vbin, h, Cv.C04.vbinGo_eq]

theorem vbin_none (op : α → α → α) (a b : List α) (h : a.length ≠ b.length) : Vops.vbin op a b = none := by
  simp [Vops.vbin, h]

theorem vbin_some {op : α → α → α} {a b c : List α} (h : Vops.vbin op a b = some c) :
    a.length = b.length ∧ c = List.zipWith op a b := by
  by_cases hl : a.length = b.length
  · rw [vbin_eq op a b hl] at h; exact ⟨hl, (Option.some.inj h).symm⟩
  · rw [vbin_none op a b hl] at h; cases h

/-! ### sums -/

section sums
variable [CommRing α]

theorem iterSum_eq (l : List α) : iterSum l = l.sum := by
  unfold iterSum
  rw [Cv.C05.foldl_add_sum]; simp

/-- `sum8Go` is the plain sum (proved by explicit pattern matching: no auxiliary matcher lemmas of the
shared `sum8Go` are generated here, so this file can be imported next to the C04/C08 lemma files). -/
theorem sum8Go_eq : ∀ (n : Nat) (x : List α) (s : α), x.length ≤ n → sum8Go s x = s + x.sum
  | 0, x, s, h => by
    have : x = [] := List.eq_nil_of_length_eq_zero (by omega)
    subst this
    show ([] : List α).foldl (· + ·) s = _
    simp
  | n + 1, x, s, h => by
    match x, h with
    | x0 :: x1 :: x2 :: x3 :: x4 :: x5 :: x6 :: x7 :: rest, h =>
      show sum8Go (s + (x0 + x1 + x2 + x3 + x4 + x5 + x6 + x7)) rest = _
      rw [sum8Go_eq n rest _ (by simp at h; omega)]
      simp only [List.sum_cons]
      ring
    | [], _ => show ([] : List α).foldl (· + ·) s = _; simp
    | [a], _ => show [a].foldl (· + ·) s = _; simp
    | [a, b], _ => show [a, b].foldl (· + ·) s = _; simp; ring
    | [a, b, c], _ => show [a, b, c].foldl (· + ·) s = _; simp; ring
    | [a, b, c, d], _ => show [a, b, c, d].foldl (· + ·) s = _; simp; ring
    | [a, b, c, d, e], _ => show [a, b, c, d, e].foldl (· + ·) s = _; simp; ring
    | [a, b, c, d, e, f], _ => show [a, b, c, d, e, f].foldl (· + ·) s = _; simp; ring
    | [a, b, c, d, e, f, g], _ => show [a, b, c, d, e, f, g].foldl (· + ·) s = _; simp; ring

theorem sum8_eq (l : List α) : sum8 l = l.sum := by
  unfold sum8
  rw [sum8Go_eq l.length l 0 (Nat.le_refl _)]; simp

theorem list_sum_eq_range [Inhabited α] (l : List α) : l.sum = ∑ i ∈ Finset.range l.length, l[i]! := by
  induction l using List.reverseRecOn with
  | nil => simp
  | append_singleton l a ih =>
    rw [List.sum_append, List.length_append, List.length_singleton, Finset.sum_range_succ, ih]
    congr 1
    · apply Finset.sum_congr rfl
      intro i hi
      have hi' : i < l.length := Finset.mem_range.mp hi
      rw [getElem!_pos l i hi', getElem!_pos (l ++ [a]) i (by simp; omega), List.getElem_append_left hi']
    · rw [getElem!_pos (l ++ [a]) l.length (by simp)]; simp

/-- A sum over `range n` is invariant under a permutation of the indices. -/
theorem sum_range_perm (n : Nat) (σ : Equiv.Perm (Fin n)) (f : Nat → α) :
    ∑ i ∈ Finset.range n, (if h : i < n then f (σ ⟨i, h⟩) else 0) = ∑ i ∈ Finset.range n, f i := by
  rw [Finset.sum_range, Finset.sum_range]
  have : ∀ i : Fin n, (if h : (i : Nat) < n then f (σ ⟨i, h⟩) else 0) = f (σ i) := by
    intro i; simp [i.isLt]
  simp only [this]
  exact Equiv.sum_comp σ (fun i : Fin n => f i)

end sums

/-! ### permuting observations -/

/-- apply a permutation of `0..n-1` to an index (identity outside the range) -/
def permIdx {n : Nat} (σ : Equiv.Perm (Fin n)) (i : Nat) : Nat := if h : i < n then (σ ⟨i, h⟩ : Nat) else i

theorem permIdx_lt {n : Nat} (σ : Equiv.Perm (Fin n)) {i : Nat} (h : i < n) : permIdx σ i < n := by
  simp [permIdx, h]

/-- observation `i` of the permuted vector is observation `σ i` of the original -/
def permVec [Inhabited α] {n : Nat} (σ : Equiv.Perm (Fin n)) (y : List α) : List α :=
  (List.range n).map fun i => y[permIdx σ i]!

/-- row `i` of the permuted row-major `n × p` matrix is row `σ i` of the original -/
def permRows [Inhabited α] {n : Nat} (σ : Equiv.Perm (Fin n)) (x : List α) (p : Nat) : List α :=
  (List.range (n * p)).map fun k => x[permIdx σ (k / p) * p + k % p]!

theorem permVec_length [Inhabited α] {n : Nat} (σ : Equiv.Perm (Fin n)) (y : List α) : (permVec σ y).length = n := by
  simp [permVec]

theorem permRows_length [Inhabited α] {n : Nat} (σ : Equiv.Perm (Fin n)) (x : List α) (p : Nat) :
    (permRows σ x p).length = n * p := by
  simp [permRows]

theorem permVec_get [Inhabited α] {n : Nat} (σ : Equiv.Perm (Fin n)) (y : List α) (i : Nat) (h : i < n) :
    (permVec σ y)[i]! = y[permIdx σ i]! := by
  unfold permVec; rw [getBang_rangeMap _ _ _ h]

theorem idx_div {p i j : Nat} (hj : j < p) : (i * p + j) / p = i := by
  have hp : 0 < p := by omega
  rw [Nat.add_comm, Nat.add_mul_div_right _ _ hp, Nat.div_eq_of_lt hj, Nat.zero_add]

theorem idx_mod {p i j : Nat} (hj : j < p) : (i * p + j) % p = j := by
  rw [Nat.add_comm, Nat.add_mul_mod_self_right, Nat.mod_eq_of_lt hj]

theorem permRows_get [Inhabited α] {n : Nat} (σ : Equiv.Perm (Fin n)) (x : List α) (p i j : Nat) (hi : i < n) (hj : j < p) :
    (permRows σ x p)[i * p + j]! = x[permIdx σ i * p + j]! := by
  unfold permRows
  rw [getBang_rangeMap _ _ _ (Cv.Mat.idx_lt hi hj), idx_div hj, idx_mod hj]

/-- sums over observations do not see the permutation -/
theorem sum_permIdx [CommRing α] {n : Nat} (σ : Equiv.Perm (Fin n)) (f : Nat → α) :
    ∑ i ∈ Finset.range n, f (permIdx σ i) = ∑ i ∈ Finset.range n, f i := by
  rw [← sum_range_perm n σ f]
  apply Finset.sum_congr rfl
  intro i hi
  have h : i < n := Finset.mem_range.mp hi
  simp [permIdx, h]

/-- element-wise maps commute with the permutation -/
theorem permVec_zipWith [Inhabited α] {n : Nat} (σ : Equiv.Perm (Fin n)) (f : α → α → α) (a b : List α)
    (ha : a.length = n) (hb : b.length = n) :
    List.zipWith f (permVec σ a) (permVec σ b) = permVec σ (List.zipWith f a b) := by
  apply ext_getBang
  · simp [permVec_length]
  · intro i hi
    have hi' : i < n := by simpa [permVec_length] using hi
    have hs := permIdx_lt σ hi'
    rw [getBang_zipWith f _ _ i (by simpa [permVec_length] using hi') (by simpa [permVec_length] using hi'),
      permVec_get σ _ i hi', permVec_get σ _ i hi', permVec_get σ _ i hi',
      getBang_zipWith f a b _ (by omega) (by omega)]

theorem permVec_map [Inhabited α] {n : Nat} (σ : Equiv.Perm (Fin n)) (f : α → α) (a : List α) (ha : a.length = n) :
    (permVec σ a).map f = permVec σ (a.map f) := by
  apply ext_getBang
  · simp [permVec_length]
  · intro i hi
    have hi' : i < n := by simpa [permVec_length] using hi
    have hs := permIdx_lt σ hi'
    rw [getBang_map f _ i (by simpa [permVec_length] using hi'), permVec_get σ _ i hi', permVec_get σ _ i hi',
      getBang_map f a _ (by omega)]

theorem permVec_replicate [Inhabited α] {n : Nat} (σ : Equiv.Perm (Fin n)) (c : α) :
    permVec σ (List.replicate n c) = List.replicate n c := by
  apply ext_getBang
  · simp [permVec_length]
  · intro i hi
    have hi' : i < n := by simpa [permVec_length] using hi
    rw [permVec_get σ _ i hi', getBang_replicate _ _ _ (permIdx_lt σ hi'), getBang_replicate _ _ _ hi']

/-- the sum of a permuted vector -/
theorem permVec_sum [CommRing α] [Inhabited α] {n : Nat} (σ : Equiv.Perm (Fin n)) (a : List α) (ha : a.length = n) :
    (permVec σ a).sum = a.sum := by
  rw [list_sum_eq_range, list_sum_eq_range, permVec_length, ha]
  rw [← sum_permIdx σ (fun i => a[i]!)]
  apply Finset.sum_congr rfl
  intro i hi
  exact permVec_get σ a i (Finset.mem_range.mp hi)

end Cv.C06L
