//! C04 executor: every element-wise operator form, unary map and reduction of `Vector` / `Matrix`
//! through the public API of `compute`.  Protocol: see /verif/lean/Compute/Drv/C04.lean.
use compute::linalg::{dot, inf_norm, logmeanexp, logsumexp, norm, prod, sum};
use compute::prelude::{Dot, Matrix, Vector};
use compute::statistics::max;
use cvexec::*;

#[derive(Clone)]
enum Val {
    V(Vector),
    M(Matrix),
    S(f64),
}
use Val::*;

fn operand(t: &mut Toks) -> R<Val> {
    match t.tok()? {
        "v" => Ok(V(Vector::from(t.vec()?))),
        "m" => {
            let r = t.usize()?;
            let c = t.usize()?;
            let d = t.vec()?;
            Ok(M(Matrix::new(d, r as i32, c as i32)))
        }
        "s" => Ok(S(t.f64()?)),
        _ => Err(BadOp),
    }
}

fn show(v: &Val) -> String {
    match v {
        V(x) => format!("v {}", show_vec(&x.v)),
        M(m) => {
            if m.data.v.is_empty() {
                format!("m {} {}", m.nrows, m.ncols)
            } else {
                format!("m {} {} {}", m.nrows, m.ncols, show_fs(&m.data.v))
            }
        }
        S(s) => format!("s {}", show_f(*s)),
    }
}

// both operands are containers (`$a`, `$b` are `&Vector` / `&Matrix` bindings: `.clone()` = owned form)
macro_rules! bin2 {
    ($a:ident, $b:ident, $sr:expr, $or:expr, $op:tt) => {
        match ($sr, $or) {
            (0, 0) => $a.clone() $op $b.clone(),
            (0, _) => $a.clone() $op $b,
            (_, 0) => $a $op $b.clone(),
            _ => $a $op $b,
        }
    };
}
macro_rules! bin_cs {
    ($a:ident, $s:ident, $sr:expr, $op:tt) => {
        match $sr {
            0 => $a.clone() $op $s,
            _ => $a $op $s,
        }
    };
}
macro_rules! bin_sc {
    ($s:ident, $b:ident, $or:expr, $op:tt) => {
        match $or {
            0 => $s $op $b.clone(),
            _ => $s $op $b,
        }
    };
}
macro_rules! bin_all {
    ($a:ident, $b:ident, $sr:expr, $or:expr, $op:tt) => {
        match (&$a, &$b) {
            (V(x), V(y)) => V(bin2!(x, y, $sr, $or, $op)),
            (M(x), M(y)) => M(bin2!(x, y, $sr, $or, $op)),
            (V(x), S(s)) => { let s = *s; V(bin_cs!(x, s, $sr, $op)) }
            (M(x), S(s)) => { let s = *s; M(bin_cs!(x, s, $sr, $op)) }
            (S(s), V(y)) => { let s = *s; V(bin_sc!(s, y, $or, $op)) }
            (S(s), M(y)) => { let s = *s; M(bin_sc!(s, y, $or, $op)) }
            _ => return Err(BadOp),
        }
    };
}
macro_rules! asg2 {
    ($x:ident, $y:ident, $or:expr, $op:tt) => {
        match $or {
            0 => *$x $op $y.clone(),
            _ => *$x $op &*$y,
        }
    };
}
macro_rules! asg_all {
    ($a:ident, $b:ident, $or:expr, $op:tt) => {
        match (&mut $a, &$b) {
            (V(x), V(y)) => { asg2!(x, y, $or, $op); }
            (M(x), M(y)) => { asg2!(x, y, $or, $op); }
            (V(x), S(s)) => { *x $op *s; }
            (M(x), S(s)) => { *x $op *s; }
            _ => return Err(BadOp),
        }
    };
}

macro_rules! maps {
    ($name:expr, $x:expr, $($m:ident),+) => {
        match $name {
            $( stringify!($m) => $x.$m(), )+
            _ => return Err(BadOp),
        }
    };
}
macro_rules! all_maps {
    ($name:expr, $x:expr) => {
        maps!($name, $x, ln, ln_1p, log10, log2, exp, exp2, exp_m1, sin, cos, tan, sinh, cosh, tanh, asin,
              acos, atan, asinh, acosh, atanh, sqrt, cbrt, abs, floor, ceil, to_radians, to_degrees, recip,
              round, signum)
    };
}

fn scalar_map(name: &str, x: f64) -> R<f64> {
    Ok(all_maps!(name, x))
}

fn echo(v: &Val, is_ref: usize) -> String {
    match v {
        S(_) => String::new(),
        _ => {
            if is_ref == 1 {
                format!(" | {}", show(v))
            } else {
                String::new()
            }
        }
    }
}


/// Data of a `long` request, built from a compact description (identical in the Lean driver and in the Python oracle):
/// `ones`: 1.0; `iota`: (i mod 17) - 8; `hash`: (mix(seed, i) mod 13) - 6; `pm1`: +-1 from bit 40 of mix(seed, i).
fn mix(seed: u64, i: u64) -> u64 {
    let mut z = seed.wrapping_add(i.wrapping_mul(0x9E3779B97F4A7C15));
    z = (z ^ (z >> 30)).wrapping_mul(0xBF58476D1CE4E5B9);
    z = (z ^ (z >> 27)).wrapping_mul(0x94D049BB133111EB);
    z ^ (z >> 31)
}

fn gen_data(kind: &str, seed: u64, n: usize) -> R<Vec<f64>> {
    let mut v = Vec::with_capacity(n);
    for i in 0..n as u64 {
        v.push(match kind {
            "ones" => 1.0,
            "iota" => (i % 17) as f64 - 8.0,
            "hash" => (mix(seed, i) % 13) as f64 - 6.0,
            "pm1" => {
                if (mix(seed, i) >> 40) & 1 == 1 {
                    -1.0
                } else {
                    1.0
                }
            }
            _ => return Err(BadOp),
        });
    }
    Ok(v)
}

/// order-sensitive digest of a result vector: sum of bits(x_i) * (2 i + 1) modulo 2^64
fn digest(xs: &[f64]) -> String {
    let mut h: u64 = 0;
    for (i, x) in xs.iter().enumerate() {
        h = h.wrapping_add(x.to_bits().wrapping_mul(2 * i as u64 + 1));
    }
    let first = xs.first().map(|x| show_f(*x)).unwrap_or_else(|| "-".to_string());
    let last = xs.last().map(|x| show_f(*x)).unwrap_or_else(|| "-".to_string());
    format!("{} {:016x} {} {}", xs.len(), h, first, last)
}

fn long_step(t: &mut Toks) -> R<String> {
    match t.tok()? {
        "red" => {
            let name = t.tok()?;
            let form = t.tok()?;
            let kind = t.tok()?;
            let seed = t.u64()?;
            let n = t.usize()?;
            t.end()?;
            let d = gen_data(kind, seed, n)?;
            let r = match form {
                "free" => match name {
                    "sum" => sum(&d),
                    "prod" => prod(&d),
                    "norm" => norm(&d),
                    "max" => max(&d),
                    "logsumexp" => logsumexp(&d),
                    "logmeanexp" => logmeanexp(&d),
                    _ => return Err(BadOp),
                },
                "meth" => {
                    let x = Vector::from(d);
                    match name {
                        "sum" => x.sum(),
                        "prod" => x.prod(),
                        "norm" => x.norm(),
                        "max" => x.max(),
                        "logsumexp" => x.logsumexp(),
                        "logmeanexp" => x.logmeanexp(),
                        _ => return Err(BadOp),
                    }
                }
                "mat" => {
                    let m = Matrix::new(d, 1, n as i32);
                    match name {
                        "sum" => m.sum(),
                        "prod" => m.prod(),
                        "norm" => m.norm(),
                        "max" => m.max(),
                        _ => return Err(BadOp),
                    }
                }
                _ => return Err(BadOp),
            };
            Ok(ok(show_f(r)))
        }
        "dot" => {
            let form = t.tok()?;
            let (k1, s1) = (t.tok()?, t.u64()?);
            let (k2, s2) = (t.tok()?, t.u64()?);
            let n = t.usize()?;
            t.end()?;
            let a = gen_data(k1, s1, n)?;
            let b = gen_data(k2, s2, n)?;
            let r = match form {
                "free" => dot(&a, &b),
                "meth" => {
                    let (x, y) = (Vector::from(a), Vector::from(b));
                    x.dot(&y)
                }
                _ => return Err(BadOp),
            };
            Ok(ok(show_f(r)))
        }
        "infnorm" => {
            let form = t.tok()?;
            let nrows = t.usize()?;
            let kind = t.tok()?;
            let seed = t.u64()?;
            let n = t.usize()?;
            t.end()?;
            let d = gen_data(kind, seed, n)?;
            let r = match form {
                "free" => inf_norm(&d, nrows),
                "meth" => Matrix::new(d, nrows as i32, (n / nrows) as i32).inf_norm(),
                _ => return Err(BadOp),
            };
            Ok(ok(show_f(r)))
        }
        "ew" => {
            let op = t.tok()?;
            let (k1, s1) = (t.tok()?, t.u64()?);
            let (k2, s2) = (t.tok()?, t.u64()?);
            let n = t.usize()?;
            t.end()?;
            let x = Vector::from(gen_data(k1, s1, n)?);
            let y = Vector::from(gen_data(k2, s2, n)?);
            let r: Vector = match op {
                "vadd" => &x + &y,
                "vsub" => &x - &y,
                "vmul" => &x * &y,
                "svmul" => 3.0 * &x,
                "svsub" => 100.0 - &x,
                "vssub" => &x - 2.0,
                "vsdiv" => &x / 4.0,
                "asgadd" => {
                    let mut z = x.clone();
                    z += &y;
                    z
                }
                "asgsmul" => {
                    let mut z = x.clone();
                    z *= 5.0;
                    z
                }
                "abs" => x.abs(),
                "powi3" => x.powi(3),
                "powi2" => x.powi(2),
                "neg" => -x.clone(),
                "mmadd" => {
                    let (a, b) = (Matrix::new(x.clone(), 1, n as i32), Matrix::new(y.clone(), 1, n as i32));
                    (&a + &b).data
                }
                _ => return Err(BadOp),
            };
            Ok(ok(digest(&r.v)))
        }
        _ => Err(BadOp),
    }
}

fn step(_: &mut (), t: &mut Toks) -> R<String> {
    match t.tok()? {
        "long" => long_step(t),
        "bin" => {
            let op = t.tok()?;
            let sr = t.usize()?;
            let or = t.usize()?;
            let a = operand(t)?;
            let b = operand(t)?;
            t.end()?;
            let r = match op {
                "add" => bin_all!(a, b, sr, or, +),
                "sub" => bin_all!(a, b, sr, or, -),
                "mul" => bin_all!(a, b, sr, or, *),
                "div" => bin_all!(a, b, sr, or, /),
                _ => return Err(BadOp),
            };
            Ok(ok(format!("{}{}{}", show(&r), echo(&a, sr), echo(&b, or))))
        }
        "asg" => {
            let op = t.tok()?;
            let or = t.usize()?;
            let mut a = operand(t)?;
            let b = operand(t)?;
            t.end()?;
            match op {
                "add" => asg_all!(a, b, or, +=),
                "sub" => asg_all!(a, b, or, -=),
                "mul" => asg_all!(a, b, or, *=),
                "div" => asg_all!(a, b, or, /=),
                _ => return Err(BadOp),
            };
            Ok(ok(format!("{}{}", show(&a), echo(&b, or))))
        }
        "neg" => {
            let a = operand(t)?;
            t.end()?;
            let r = match a {
                V(x) => V(-x),
                M(x) => M(-x),
                S(_) => return Err(BadOp),
            };
            Ok(ok(show(&r)))
        }
        "map" | "mapt" => {
            let name = t.tok()?;
            let a = operand(t)?;
            // `mapt`: the trailing table is for the model only
            let r = match &a {
                V(x) => V(all_maps!(name, x)),
                M(x) => M(all_maps!(name, x)),
                S(_) => return Err(BadOp),
            };
            Ok(ok(format!("{} | {}", show(&r), show(&a))))
        }
        "powi" => {
            let n = t.i32()?;
            let a = operand(t)?;
            t.end()?;
            let r = match &a {
                V(x) => V(x.powi(n)),
                M(x) => M(x.powi(n)),
                S(_) => return Err(BadOp),
            };
            Ok(ok(format!("{} | {}", show(&r), show(&a))))
        }
        "powf" => {
            let p = t.f64()?;
            let a = operand(t)?;
            t.end()?;
            let r = match &a {
                V(x) => V(x.powf(p)),
                M(x) => M(x.powf(p)),
                S(_) => return Err(BadOp),
            };
            Ok(ok(format!("{} | {}", show(&r), show(&a))))
        }
        "scal" => {
            let name = t.tok()?;
            let x = t.vec()?;
            t.end()?;
            let mut out = Vec::with_capacity(x.len());
            for v in x.iter() {
                out.push(scalar_map(name, *v)?);
            }
            Ok(ok(show_vec(&out)))
        }
        "scali" => {
            let n = t.i32()?;
            let x = t.vec()?;
            t.end()?;
            let out: Vec<f64> = x.iter().map(|v| v.powi(n)).collect();
            Ok(ok(show_vec(&out)))
        }
        "scalf" => {
            let p = t.f64()?;
            let x = t.vec()?;
            t.end()?;
            let out: Vec<f64> = x.iter().map(|v| v.powf(p)).collect();
            Ok(ok(show_vec(&out)))
        }
        "red" => {
            let name = t.tok()?;
            let form = t.tok()?;
            let a = operand(t)?;
            t.end()?;
            let r = match (form, &a) {
                ("free", V(_)) | ("free", M(_)) => {
                    let d: &[f64] = match &a {
                        V(x) => &x.v,
                        M(m) => &m.data.v,
                        S(_) => return Err(BadOp),
                    };
                    match name {
                        "sum" => sum(d),
                        "prod" => prod(d),
                        "norm" => norm(d),
                        "max" => max(d),
                        "logsumexp" => logsumexp(d),
                        "logmeanexp" => logmeanexp(d),
                        _ => return Err(BadOp),
                    }
                }
                ("meth", V(x)) => match name {
                    "sum" => x.sum(),
                    "prod" => x.prod(),
                    "norm" => x.norm(),
                    "max" => x.max(),
                    "logsumexp" => x.logsumexp(),
                    "logmeanexp" => x.logmeanexp(),
                    _ => return Err(BadOp),
                },
                ("meth", M(m)) => match name {
                    "sum" => m.sum(),
                    "prod" => m.prod(),
                    "norm" => m.norm(),
                    "max" => m.max(),
                    _ => return Err(BadOp),
                },
                _ => return Err(BadOp),
            };
            Ok(ok(show_f(r)))
        }
        "dot" => {
            let x = t.vec()?;
            let y = t.vec()?;
            t.end()?;
            Ok(ok(show_f(dot(&x, &y))))
        }
        "infnorm" => {
            let form = t.tok()?;
            match form {
                "free" => {
                    let n = t.usize()?;
                    let x = t.vec()?;
                    t.end()?;
                    Ok(ok(show_f(inf_norm(&x, n))))
                }
                "meth" => {
                    let a = operand(t)?;
                    t.end()?;
                    match a {
                        M(m) => Ok(ok(show_f(m.inf_norm()))),
                        _ => Err(BadOp),
                    }
                }
                _ => Err(BadOp),
            }
        }
        _ => Err(BadOp),
    }
}

fn main() {
    run((), step);
}
