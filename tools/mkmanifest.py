#!/usr/bin/env python3
"""Regenerates /verif/MANIFEST.json from the table below (one entry per claimed property)."""
import json, os
VERIF = os.path.dirname(os.path.dirname(os.path.abspath(__file__)))
ALL = ["C%02d" % i for i in range(1, 21)]

NOTE = ("Trusted: Lean 4.33 kernel (axioms audited per theorem to lie within propext, Classical.choice, Quot.sound; "
        "no sorry/admit/own axioms/native_decide/bv_decide), Mathlib definitions used as specifications, the hand-written "
        "Lean model of the anchored Rust code, the bit-exact correspondence harness (generators, Rust executor, Lean driver, "
        "comparer), Lean's compiled Float arithmetic and glibc libm. Theorems are about exact arithmetic / arbitrary element "
        "types; IEEE rounding is covered by the bit-exact tie plus the exact-rational oracle, not by proof.")

CLAIMED = {
    "C16": dict(
        text=("Kernel-checked theorems over any linearly ordered field, for strictly increasing abscissae, n >= 2 knots and equally many ordinates (hypothesis bundle "
              "Knots), about a hand-written model of interpolate.rs that mirrors the source line by line: the linear scan over the first n-1 abscissae returns the "
              "unique bracketing index; at a knot the result is exactly that knot ordinate in every mode; inside the closed range the result is the value on the line "
              "through the two neighbouring knots, hence between their ordinates; left of the first abscissa and right of the last the three modes give panic / the "
              "left resp. right fill value / the continuation of the first resp. last segment (the right-hand statements were false before repair F28 and hold of the "
              "current source); the checked variant rejects mismatched lengths and any DESCENDING step and otherwise agrees with the unchecked one; one outside "
              "target aborts the whole call in panic mode; otherwise the call returns exactly one value per target. Every implication has a kernel-checked example on "
              "the knots [0,1,2] / [0,10,20] over the rationals. Stated limits: duplicate (equal neighbouring) abscissae are not rejected by the checked variant (its "
              "test is x[i+1] - x[i] < 0), lie outside every theorem, and are compared with the model only (kernel-checked witness [0,1,1,2]); this matches the "
              "property text (unsorted) and is recorded as the specified behaviour. Tie: model and Rust code agree bit for bit on generated requests (knot counts "
              "2..200 incl. 2^k and 2^k +- 1, spacing ratios to 1e6, targets at knots, midpoints, +- 1 ulp around knots, in the last segment, just beyond and far "
              "beyond both ends, ordered multi-target calls, all modes, both variants, descents at block boundaries, segment widths w with w (1/w) != 1, scale "
              "factors 2^+-500); the source tie (Props/SrcTieC16) regenerates only the six per-target arithmetic formulas (slopeLeft, extrapLeft, slopeRight, "
              "extrapRight, ratio, lerp) from interpolate.rs and proves them equal to the model by rfl; the scan, the out-of-range test, the mode dispatch and the "
              "index wiring of those formulas (which knots and ordinates are passed) are hand-written both in the model and in the tie theorem, so that control flow, "
              "where F28 lived, is covered by the bit tie only. Oracle: exact rational arithmetic; exact at knots and fills, forward-error bound 16 u max|y| inside "
              "and 16 u (|slope (t - x_k)| + |y_k|) outside plus an absolute subnormal slack, exact scale laws (ordinates times 2^k scale the result exactly, "
              "abscissae and targets times 2^k leave it unchanged). ROUNDING in the standard model (Lemmas/FlModel: every operation has relative error <= u and there "
              "is NO overflow and NO underflow): inside the range the computed result is within gamma_8 max|y| (<= 16u) of the line, between the ordinates up to "
              "that, and exact at every knot (Props/Rounding2); the extrapolation branch is within gamma_6 (|slope (t - x_k)| + |y_k|) of the line and no bound "
              "relative to the exact extrapolated value exists (kernel-checked example, Props/Rounding5). Results or intermediates outside the normal range (for "
              "instance the 2^+-500 scale strata and ordinates near 1e-310) are outside that model; there the evidence is the oracle and the bit tie."),
        design='DESIGN.md §6 C16',
        technique='Lean 4 proof (scan invariant, segment algebra over ordered fields) + bit-exact correspondence + exact-rational oracle'),
    "C17": dict(
        text=("Kernel-checked theorems about hand-written models of combinatorial.rs and statistical.rs. binom_coeff on 64-bit arithmetic (Nat with explicit range "
              "checks): for every k <= n the model returns a value if and only if C(n,k) < 2^64, and that value is exactly C(n,k) (invariant c = C(n,i), every split "
              "division exact, no intermediate overflow and no guard while the value fits; a value that does not fit is always stopped by the guard, which returns 0, "
              "or by an overflow check, which is a panic in checked builds), with symmetry and the Pascal rule; k > n underflows. Over the reals: logistic(-x) = 1 - "
              "logistic x, 0 < logistic < 1, strictly increasing, logit o logistic = id, logistic o logit = id on the OPEN interval (0,1), logit defined exactly on "
              "[0,1]; at p = 0 and p = 1 the real model carries junk values of the totalised log 0 and 1/0, the code returns -inf and +inf, which are proved to be "
              "the one-sided limits and are checked exactly by the oracle; softmax (max-shifted definition of the source, the seed of the running maximum being any "
              "lower bound of the entries because the reals have no -infinity): all exponent arguments <= 0, denominator >= 1, entries positive, sum 1, order "
              "preserving, = exp x_i / sum exp x_j, shift invariant; Box-Cox = (x^l - 1)/l (ln x at l = 0, proved to be the continuous extension) defined iff x > 0, "
              "shifted form iff x + shift > 0 (boxcoxShifted_eq is a definitional unfolding, not a headline result). binom_coeff_alt (log-gamma route since repair "
              "F52) is inside the model on top of the C09 ln_gamma model: with the ideal log-gamma it returns C(n,k); for any log-gamma within absolute error delta "
              "of ln Gamma at the three arguments it is exact whenever C(n,k) (e^(3 delta) - 1) < 1/2, in numbers exact for C(n,k) <= 1.6e8 when delta = 1e-9, which "
              "is what the accuracy 1e-12 max(1, ln Gamma) enforced by the C09 oracle gives for n <= 225; that accuracy of the Lanczos ln_gamma is a HYPOTHESIS of "
              "these theorems (measured, not proved, never instantiated for the model ln_gamma in a theorem), so the exactness statement is conditional; symmetry "
              "only for commutative subtraction (it fails at f64); k > n panics. Tie: every request is compared bit for bit between the Rust code and the model, no "
              "implementation-only request remains (all (n,k) with n <= 67, the 64-bit threshold region up to n = 2^64-1 with outcome classes, binom_coeff_alt for "
              "all n < 176 and up to 2^64-1, logit at both edges of [0,1], Box-Cox incl. |lambda| down to 1e-320, softmax lengths of every residue mod 8 up to 1000); "
              "the source tie (Props/SrcTieC17) regenerates logistic, logit, boxcox and boxcox_shifted only, while softmax, binom_coeff and binom_coeff_alt are hand "
              "models covered by the bit tie only. Quantifier: in the thorough tier EVERY f32 in +-745 (2 x 1,144,668,161 arguments) is run through logistic for "
              "range [0,1], monotonicity, reflection within 200 eps, exact zeros and the model tie (hash of all result bits); accuracy against mpmath is SAMPLED (2e6 "
              "of those 2.29e9 values, 0.09 per cent; 2e4 in the quick tier, where the sweep covers 12 chunks of 20000 bit patterns). Oracles: exact integers for "
              "binom_coeff, mpmath with forward-error bounds for the transforms (cancellation-aware bound for Box-Cox: for |lambda| below about 1e-16 the result "
              "loses all relative accuracy within that bound), a log-space bound and a theorem-backed exactness clause for binom_coeff_alt. Float-level theorems "
              "(Props/Rounding3 and Props/Rounding5, owned elsewhere) hold IN THE STANDARD MODEL, i.e. with libm exp/ln/pow of relative error <= u_f and absent "
              "under/overflow: x >= -708.39 resp. x_i - max >= -708; there every computed softmax entry is > 0 and |sum - 1| <= gamma_(n+1) for lengths <= 999 (the "
              "contract allows 1000), logistic lies in (0,1] with relative error <= gamma_2 + gamma^f_1, logit and Box-Cox carry explicit error bounds. Outside that "
              "range, which is inside the property domain, computed values may be exactly 0: logistic(-710.0) = 0 although the true value is 4.5e-309, softmax "
              "[0,-800,1e4] = [0,0,1]; at f64 the range of logistic is therefore [0,1] and softmax entries are >= 0; this is the specified behaviour and the oracle "
              "demands it exactly (values in [0,1] resp. >= 0, exact zeros where exp under/overflows, keys logistic:underflow-zero and softmax:underflow-zero)."),
        design='DESIGN.md §6 C17',
        technique='Lean 4 proof (Nat invariant with explicit u64 range checks, real analysis for logistic/softmax/Box-Cox) + bit-exact correspondence'),
    "C19": dict(
        text=("Kernel-checked theorems for every element type, data list, generator state and fuel, about the hand-written model of resample.rs on top of an exact "
              "model of the alea wyrand generator (validated bit for bit, including the generator state after each call). UNCONDITIONAL: jackknife = [d.eraseIdx i | "
              "i < n] in order and never panics; all four functions return on length-1 input for every state and fuel; shuffle_two rejects unequal lengths; "
              "bootstrap_eq / shuffle_eq / shuffle_two_eq: on non-empty input (equal lengths) each function EQUALS a sequence of DiscreteUniform(0, n-1) index draws "
              "of the run itself (n_bootstrap x n draws for bootstrap, 4n draws = 2n transpositions for the shuffles, draw j evaluated at the generator state left by "
              "draws 0..j-1) followed by a total post-processing that cannot panic (data[i] for each drawn i; the SAME transposition list applied to both arrays for "
              "shuffle_two). TERMINATION-RELATIVE TOTALITY: a call returns iff its own index draws all return (..._isSome_iff), in particular for every generator "
              "state for which each of its Lemire draws returns within the fuel (..._returns); if a call does not return, there is a j below its number of draws such "
              "that the first j draws of that run return and the rejection loop for bound n runs out of fuel at the state reached (..._none; no index panic, no "
              "assert, no overflow for n < 2^63); more fuel never changes a returned result. WHENEVER THE CALL RETURNS (names end in _partial; termination of the "
              "rejection loop for every state is NOT proved): bootstrap returns exactly the requested number of resamples, each of the original length, every element "
              "equal to data[i] for an index i < n; shuffle returns a permutation of its input; shuffle_two returns a permutation of the zipped input (one common "
              "permutation) and hence permutes each array. EQUAL LIKELIHOOD, per draw and as a counting statement: for n >= 2 every index drawn by bootstrap and "
              "every a, b drawn by the shuffles is u64_less_than(n) evaluated at the state of the run at that draw (idxDraw_eq_lemire, bootstrap_draw_law, "
              "shuffle_draw_law) and is the output of an accepted raw word; for each v < m exactly floor(2^64/m) consecutive raw 64-bit words are accepted with "
              "output v (lemire_uniform), so an ideal word source gives exactly uniform positions; the statistical quality of wyrand itself is not a mathematical "
              "fact and is only searched (DKW band alpha = 9e-13 on bootstrap draws plus first/last-index and first/last-slot frequency cells at 1e-14, per line and "
              "pooled). Generator range lemmas: f64 in [0,1), u64_less_than < m, i64_in_range in [a,b]. Non-vacuity: runs on inputs of length 3 and 5, and a "
              "rejection-heavy bounded draw, are evaluated inside the kernel and instantiate every returning-run hypothesis. Tied bit for bit (lengths 1..2000 incl. "
              "2^k-1, 2^k, 2^k+1, 1..200 resamples, len x n_bootstrap around 65536, long-then-short call sequences, both zeros, NaN, special values, 100 / 1e4 "
              "seeds); exact multiset / pairing / jackknife oracle. SOURCE TIE: only jackknife is regenerated from resample.rs on every run and proved equal to the "
              "model (whose unwrap provably never fires); bootstrap, shuffle, shuffle_two, DiscreteUniform::sample and the alea functions are hand models tied by "
              "bit-exact execution only."),
        design='DESIGN.md §6 C19',
        technique='Lean 4 proof (List.Perm invariants over swap sequences, Lemire counting argument on Nat) + bit-exact correspondence incl. RNG state'),
    "C02": dict(
        text=("Kernel-checked theorems OVER THE REALS about the model of pdf/pmf, ln_pdf, cdf, mean and var of the 13 univariate laws and of the multivariate normal, "
              "with the special functions the code calls as explicit PARAMETERS: the theorems for Gamma, Beta, ChiSquared, Poisson, Binomial, Student t and the "
              "Normal cdf carry the hypotheses exp(lnGamma z) = Gamma z, exp(lnGamma(n+1)) = n!, ln1p x = log(1+x), erf = (2/sqrt pi) int_0^x e^(-t^2); these are met "
              "by Real.Gamma and Real.log (shown), NOT by the Lanczos and erf approximations of the code, and no theorem bounds that gap (stability lemmas only show "
              "that a ln_gamma error g multiplies the value by exp g; pi and the Euler constant are parameters too, of the generated Euler literal only 1/2 < literal "
              "< 2/3 is proved). THE 13 UNIVARIATE LAWS: Normal, Gamma (x != 0, and the value 0 the code returns at x = 0), Exponential, Pareto densities equal the "
              "Mathlib gaussianPDFReal / gammaPDFReal / exponentialPDFReal / paretoPDFReal; ChiSquared (= Gamma(k/2, 1/2)) and Beta equal gammaPDFReal / betaPDFReal "
              "EXCEPT at the boundary points ChiSquared(k > 2) at 0 and Beta at 0 and 1, where the real-number model is junk (Real.log 0 = 0; theorems suffixed "
              "_partial, those points are tied and searched only); total mass 1 is transferred; Poisson pmf = e^-l l^k / k! and sums to 1; Binomial pmf = C(n,k) p^k "
              "(1-p)^(n-k), sums to 1 (binomial theorem); Bernoulli and DiscreteUniform (bounds within +-2^62, where the i64 arithmetic of the code cannot overflow): "
              "mass 1, first moment = mean(), second central moment = var() by exact finite sums; Gumbel density = derivative of its CDF; for each of the 13 laws a "
              "required theorem states non-negativity and one states that the value is 0 outside the support (negative and too-large counts included, no panic "
              "outcome); Normal ln_pdf = log o pdf for sigma > 0. The closed forms of the mean/var accessors, of the Uniform and t densities and of the Normal cdf "
              "are definitional restatements, not results. MOMENTS AND MASSES AS INTEGRALS / SUMS of the density of the model itself (Props/C02Moments), for the 13 "
              "univariate laws only and under the hypotheses above: total mass 1, integral of x pdf = mean(), integral of (x-mean)^2 pdf = var() for Exponential, "
              "Uniform, Gamma, ChiSquared, Beta, Normal, Pareto (with non-integrability exactly when the accessor says inf), Student t (mass 1 for every dof, "
              "mean/variance with the complete NaN/inf case analysis), Gumbel (mass, CDF, mean; NOT the variance), Poisson and Binomial (sums); Normal cdf = integral "
              "of the density given the erf hypothesis. MULTIVARIATE NORMAL (partial, conditional): pdf = exp(-1/2 q)/sqrt((2 pi)^k D) in terms of the CACHED inverse "
              "and determinant under 0 < D (mvn_pdf_formula_partial, with a witness that the guard is needed), pdf >= 0 whenever it is a value, ln_pdf = log pdf for "
              "D > 0, the panic cases of new and pdf, mean() and var() return the stored mean vector and covariance matrix, and an object built by new always passes "
              "the asserts of pdf; NOT proved: that Matrix::inv / Matrix::det give the inverse / determinant of the covariance, that the cached determinant is "
              "positive, total mass 1 and the moments of the MVN density. ALSO NOT PROVED: floating-point rounding; degenerate parameters the constructors admit "
              "(Normal sigma = 0, Uniform lower = upper) are excluded by hypothesis and from the oracle; the constructor guards, the panics and the default ln_pdf = "
              "ln(pdf) of eight laws are model definitions tied at run time, not theorems. These gaps are decided by the other two engines on every run: bit-exact "
              "correspondence of pdf/pmf/ln_pdf/cdf/mean/var and of mvn_pdf / mvn_lnpdf / mvn_mean / mvn_var (about 280k values quick; special values, support end "
              "points +-1 ulp, factorial thresholds, deep tails on both sides, objects reached through setters / update / clone, exact power-of-two scaling), and an "
              "oracle that compares every value with mpmath closed forms (relative 1e-9, cdf 2e-7) and recomputes total mass, mean and variance from the values of "
              "the implementation itself by panel quadrature or exact sums for the univariate laws and by tensor quadrature for the MVN in dimension 1 and 2 "
              "(dimensions 3 to 6: pointwise only)."),
        design='DESIGN.md §6 C02',
        technique="Lean 4 proof (identification with Mathlib's probability densities, finite-sum algebra) + bit-exact correspondence + mpmath/quadrature search"),
    "C18": dict(
        text=("Kernel-checked theorems over any linearly ordered field (so without NaN), for all 13 univariate distributions modelled as records with their cached "
              "sub-sampler objects and with new / every setter / update transcribed as the exact sequence of checks, assignments and nested constructor calls (a "
              "panic in mid-update leaves the partial state the code leaves). What is proved: a constructor succeeds exactly on the documented domain "
              "(new_isSome_iff); a setter accepts iff the constructor would accept the resulting parameter list, then yields exactly the fresh object, otherwise "
              "panics leaving the object untouched (set_spec); update succeeds from every reachable state iff the constructor accepts the cast slice, in particular "
              "bounds entirely above or below the old interval, and yields the fresh object, and a rejected or half-applied update leaves an object that again "
              "satisfies the invariant (update_spec, update_total, reject_invalid); by induction over arbitrary histories of calls with valid and invalid values "
              "interleaved (step_inv, history_inv, reachable_inv) every reachable object has in-domain parameters (valid_inv), every cached sub-sampler equals the "
              "one a fresh constructor builds (coherent_inv), and the whole record equals new(current parameters). Clause 1 of the property (observational identity "
              "with a fresh twin) is therefore proved as RECORD EQUALITY over an ordered field; observational_equality and stream_equality are only its congruence "
              "corollaries (f d = f tw from d = tw) and are not headline results; modelled_observations_eq instantiates them with the modelled pdf / pmf / mean / var "
              "/ sample / n-draw stream of Model/C18Obs (the definitions the compiled driver runs, now scalar-polymorphic) over an ordered field with uninterpreted "
              "transcendental functions, and sampleP_beta_param / sampleP_chisquared_param show, using coherent_inv, that the cache-reading samplers of Beta and "
              "ChiSquared on a reachable object are the parameter-only samplers of Model/Samplers. Nothing is proved about these observations at Float or about the "
              "Rust methods: at f64 the observation layer is tie plus twin oracle only, and that the stream does not depend on other existing objects has no theorem "
              "(a model sampler has no argument through which another object could act; for Rust it is the interleaved-draws oracle). The clause that a setter to any "
              "valid value succeeds whatever the previous parameters were is proved literally for the 11 kinds with independent fields (set_total_independent); for "
              "Uniform and DiscreteUniform a bound is valid only jointly with the other current bound (uniform_set_iff, discreteuniform_set_iff): "
              "Uniform(0,1).set_lower(5) panics in model and code, and has to, because accepting it would create lower > upper, which the clause that no object ever "
              "holds an out-of-domain parameter forbids; this joint reading is the one set_spec states, and update is total on valid pairs. NaN is outside the "
              "theorems: at f64 several constructors and their setters accept NaN (Normal, Gamma, Beta, Exponential, Gumbel, Pareto, Poisson, Uniform), so no "
              "out-of-domain parameter holds only in the NaN-free reading; for NaN the check demands only that setters and updates accept exactly what the Rust "
              "constructor accepts and that the object equals its twin. The tie compares, after every step of generated histories (13 kinds x 100/400 seeds, 1..20 "
              "mutations, about 5 percent NaN values, a deterministic exact-domain-boundary stratum with every validated parameter at its boundary, 1 ulp, EPSILON "
              "and EPSILON/2 beside it and two-parameter pairs equal, adjacent and crossing by 1..3 ulps through new, both setter orders and update), the panic flag, "
              "the constructor-acceptance flag, the whole record, pdf/mean/var at probes and 32 seeded draws against the Lean model token for token; the oracle "
              "demands equality with a freshly constructed Rust twin, also with unrelated objects created, mutated and sampled in between; bulk draws (sample_n and "
              "sample_matrix up to 100000 values, around the 32768 threshold) are run twice and as single draws from one seed and compared by digest and final "
              "generator state with the model. The redraw-on-zero loops of the Exponential, Gumbel and Pareto samplers (F53) are modelled but their redraw branch "
              "(probability 2^-53 per draw) is not reached by any generated seed. SOURCE TIE: the validating constructors of ten distributions are regenerated from "
              "the Rust text on every run and proved equal to the record model. Every setter, update, integer-parameter constructor and Default impl is regenerated "
              "from the Rust text and proved equal to the record model, validation and assignment order included (Props/SrcTieC18Mut); the statement for "
              "ChiSquared::set_dof there carries the hypothesis that Gamma::new(dof/2, 1/2) does not panic for positive dof, which chiSquared_setDof_srctie "
              "discharges over every linearly ordered field (at Float it is covered by the tie)."),
        design='DESIGN.md §6 C18',
        technique='Lean 4 proof (invariant `fresh d = some d` by induction over operation histories, 13 record state machines) + bit-exact stateful correspondence + twin-object oracle'),
    "C20": dict(
        text=("Kernel-checked theorems OVER THE REALS for valid parameters (Props/C20, Props/C20Psd): the constructors accept exactly positive parameters; the scalar "
              "RBF and rational-quadratic kernels are symmetric, equal the output variance at zero distance, are positive, never exceed the variance and are "
              "non-increasing in the distance; the matrix form (as repaired by F50; all four argument kinds, any r x c layout) never panics on non-empty point sets, "
              "has one row per first-argument point and one column per second-argument point and its (i,j) entry is the scalar form at (x_i, y_j) - proved for every "
              "scalar type in which powi(a,2) = a*a (hypothesis hp); Gram matrices are symmetric (for every scalar type with hp and hsq: (a-b)(a-b) = (b-a)(b-a)) "
              "with diagonal = variance; and every Gram matrix is positive semi-definite (Mathlib Matrix.PosSemidef): RBF through the power-series feature map of "
              "exp(xy/l^2), rational quadratic as a Gamma scale mixture of RBF kernels. Every implication has an instantiating example (matrix-form, Gram and PSD "
              "theorems included). UNDERFLOW PROVISO: positive is a statement over the reals; at f64 the value underflows to exactly 0 inside the quantified domain "
              "(RBF var 1, l 0.01: k(1000,-1000) = 0.0; RQ var 1, alpha 100, l 0.01: k(1000,-1000) = 0.0; both are corpus witness lines), so the oracle demands 0 <= "
              "k <= var, and k > 0 only where the exact value is at least 1e-290. ROUNDING, IN THE STANDARD MODEL ONLY (Props/Rounding5, Props/Rounding6: fl(a op b) "
              "= (a op b)(1+d) with |d| <= u, libm exp / pow of relative error at most u_f, no underflow or overflow): the computed scalar values and every "
              "matrix-form entry lie within an explicit two-sided multiplicative bound of the exact formula (RBF: c K <= computed <= K/c with c = e^(-gamma_9 "
              "A)(1-u_f)(1-u), A = (x-y)^2/(2 l^2); RQ: c = ((1-u)^11)^alpha (1-u_f)(1-u)), are positive in that model - that is, absent underflow, roughly |x - y| "
              "below 38 l for RBF; false of f64 beyond it - and, under the explicit extra hypothesis that libm exp is at most 1 on non-positive arguments, at most "
              "var(1+u); hp holds in that model when rounding is idempotent, hsq is not proved for any float model. NOT PROVED at f64 and decided per run instead: "
              "that IEEE doubles and glibc satisfy the standard model, hp and hsq for doubles (the oracle checks matrix entry = scalar forward token for token and "
              "K_ij = K_ji bit for bit), k <= var, k(x,x) = var and monotonicity (exact checks, monotone within 4 ulp), accuracy against mpmath at 120 bits within "
              "400 eps (1 + |exponent|) resp. 400 eps (1 + alpha), and positive semi-definiteness of the rounded Gram matrix (smallest eigenvalue >= -2.5 n max "
              "tolerance with a rigorous eigvalsh margin and an exact rational LDL^T certificate for n <= 10). SOURCE TIE: only the two scalar forward bodies are "
              "regenerated from kernels.rs on every run and proved equal to the model; constructors and matrix forms are hand-modelled on the C04 / C12 / C15 models "
              "and tied by bit-exact differential execution: scalar pairs in +-1e3, 1..60 points as Vector or Matrix, owned or borrowed, parameters in (1e-2, 1e2) "
              "log-uniform mixed with exact special values (alpha 1/2, 1/3, ...), invalid parameters (panic class), and a call-sequence stratum of consecutive calls "
              "on permuted, swapped, duplicated, one-ulp-moved, exchanged and in-place-mutated point sets with RBF and RQ interleaved."),
        design='DESIGN.md §6 C20',
        technique='Lean 4 proof (real analysis for monotonicity, power-series / Gamma-mixture PSD argument, table lemmas over the C04/C12/C15 models) + bit-exact correspondence'),
    "C01": dict(
        text=("Kernel-checked theorems about the executable model of solve / solve_sys / invert_matrix / Matrix::solve (Vector and Matrix) / Matrix::inv, over any "
              "linearly ordered field (and over R with Real.sqrt). EXACT ARITHMETIC, SLICE ENTRY POINTS: whenever solve a b answers, A.x = b (Cholesky route: L.L^T = "
              "A and two triangular solves, under the hypothesis that sqrt squares back on the pivots, true over R; LU route: P.A = L.U for every input and luSolve "
              "solves when no pivot is zero); on every non-singular input of order n >= 1 solve / solve_sys / invert_matrix never panic and return A^-1 b resp. A^-1 "
              "(Mathlib Matrix inverse), A.inv = I and inv.A = I; route independence: any two valid routes return the same x; routing = Cholesky iff "
              "positive-definite-looking (eps-symmetric, positive diagonal) AND exactly symmetric AND all pivots positive, else LU; every exactly symmetric "
              "positive-definite matrix is routed to Cholesky and factored; multi-RHS column c = single-RHS solve of column c with one route for all columns. MATRIX "
              "ENTRY POINTS (always LU, Props/C01Review): for every well-formed square non-singular matrix Matrix::solve with a Vector of matching length, "
              "Matrix::solve with a Matrix right-hand side of matching row count and at least one column, and Matrix::inv at order >= 1 are TOTAL (never panic) and "
              "return x with A.x = b, X with A.X = B, X with A.X = I; the complementary panics are theorems too (wrong right-hand-side length, non-square receiver, a "
              "right-hand side with no columns, the 0 x 0 inverse). Layout conversions are mutually inverse transposes; forward/backward substitution solve T.x = b "
              "reading only their triangle. Definitional unfoldings (inverse = solve against the identity, Matrix::solve never routes, the routing if-then-else) are "
              "kept as required lemmas but are not results. ROUNDING, in the standard model fl(a op b) = (a op b)(1+d), |d| <= u = 2^-53 (the one trusted link to "
              "IEEE arithmetic; it is valid only when no operation overflows or underflows): for n >= 2 with (3n+1)u < 1 and PROVIDED NO COMPUTED PIVOT IS ZERO, "
              "whatever solve returns satisfies (A+dA)x = b with |dA| <= gamma_(3n)|L||U| (LU route; norm-wise gamma_(3n) n ||U||) resp. gamma_(3n+1)|L||L^T| "
              "(Cholesky route), with residual corollaries, also per component in norm-wise form (LU with the growth factor explicit and unbounded, Cholesky "
              "unconditionally) and for invert_matrix; the same LU backward-error statement is proved for Matrix::solve with a Vector; solve_sys, Matrix::solve with "
              "a Matrix and Matrix::inv inherit it only column by column through the column theorems; backward-error bounds (T+dT)x = b, |dT| <= gamma_n|T| for both "
              "substitutions and the Cholesky solve for every n. NOT PROVED: a bound on the pivoting growth factor, hence the residual in the ||A||-form of the "
              "property; FINITENESS of the results and absence of overflow (no theorem at all: oracle only; at the extreme power-of-two scales of the generator the "
              "standard-model hypotheses fail); the f32 square root of is_square is modelled by the exact integer square root, which agrees with the code only below "
              "2^24 elements (recorded assumption). These are decided per run by the bit-exact tie on all six entry points (orders 1..32 with the unrolling "
              "boundaries 7..9, 15..17, 24, 25, 31, 32; all matrix classes incl. adversarial-pivot, sparse SPD, singular PSD, special values, extreme power-of-two "
              "scale; right-hand sides with 1..6 and with nsys != n, nsys > n columns) plus an exact big-integer residual oracle ||A X - B|| <= 200 n eps (||A|| "
              "||X|| + ||B||) for cond <= 1e11, finiteness, A.A^-1 = I, bit-identity of multi-RHS columns with single-RHS solves, and route / entry-point agreement "
              "within 500 n eps cond. SOURCE TIE: the slice-level routines only - forward/backward substitution, lu, lu_solve, try_cholesky, cholesky_solve and the "
              "routing glue and per-column loops of solve, solve_sys and invert_matrix are regenerated from the Rust text on every run and proved equal to the hand "
              "model; the predicates is_symmetric, is_positive_definite, is_exactly_symmetric, is_square, is_matrix and every Matrix method (Matrix::lu, "
              "Solve::lu_solve, Solve<Matrix>::lu_solve and solve, Matrix::inv) are hand-modelled and tied by the run-time bit-exact correspondence only."),
        design='DESIGN.md §6 C01',
        technique='Lean 4 proof (loop invariants for LU and Cholesky, P.A = L.U, L.L^T = A, solve correctness and totality via Mathlib Matrix, standard-model rounding bounds) + bit-exact correspondence + exact residual oracle'),
    "C03": dict(
        text=("proof (partial). MODEL: lean/Compute/Model/Samplers.lean is a hand-written executable model of every sample / sample_n / sample_matrix route of "
              "src/distributions (Ziggurat normal with the three 128-entry tables, Marsaglia-Tsang gamma with the shape < 1 boost, beta, chi-squared, t, Poisson "
              "multiplication method and PTRS, binomial inversion and BTPE with the flip, exponential, Gumbel, Pareto, uniform, discrete uniform, Bernoulli, MVN), "
              "each a function of the parameters and the alea generator state, with fuel for every loop. PROVED over the reals about that same model (kernel-checked, "
              "axioms propext / Classical.choice / Quot.sound): (1) inverse-cdf laws for Exponential, Pareto, Gumbel for every parameter and EVERY generator state "
              "for which the call returns: the redraw loop (repair F53) hands the formula the first non-zero uniform u in (0,1) of the stream, F(sample) = u or 1 - "
              "u, Exponential > 0, Pareto >= x_m, and the loop terminates at the first non-zero uniform; Uniform: F(sample) = u and sample in [a,b]; Bernoulli: "
              "sample = 1 iff u < p; DiscreteUniform: an integer in [lower, upper]. (2) Poisson multiplication method: returns k iff the first k partial products of "
              "the uniforms exceed exp(-lambda) and the (k+1)-th does not, and it TERMINATES for every rate and every generator state; binomial inversion: walks the "
              "exact binomial mass function, returns the generalised inverse of the binomial cdf at u, the result is <= n, and it TERMINATES within n + 1 iterations "
              "for every n, 0 < p < 1 and every state. (3) PARTIAL CORRECTNESS ONLY (theorem names end in _partial; they speak about every call that returns; "
              "termination of the rejection loops is not proved): Gamma > 0 for every shape (after repairs F20, F54), chi-squared > 0, Beta in [0,1] including the "
              "underflow branch, Poisson PTRS and binomial BTPE return integers in range, Student t divides by a positive square root, Ziggurat accepting branches "
              "return mu +- x sigma with x >= 0; the gamma boost Gamma(a) = U^(1/a) Gamma(a+1) with U the first non-zero uniform; MVN: a returned draw is mu + L z "
              "with z the dim normal draws, and MVN::new stores a well-formed dim x dim factor with L L^T = Sigma for exactly symmetric Sigma (from the C01 Cholesky "
              "theorem). Each of these conditional theorems has a kernel-evaluated witness on a concrete generator state (Props/C03Witness: Normal, Gamma shape >= 1 "
              "and < 1, chi-squared 1 and 4, t, Beta, MVN dimension 2), so no hypothesis is vacuous. (4) sample_n returns exactly n consecutive draws of the stream; "
              "sample_matrix and MVN sample_n shapes. (5) The Ziggurat tables are the doubles of the source and are internally consistent with explicit tolerances: "
              "K[i] = floor(2^24 W[i-1] / W[i]) exactly, equal layer areas to a relative 1e-9, 2^24 W[126] = R to 1e-9, Y strictly decreasing; an edit of a table "
              "entry beyond these tolerances breaks a proof. Unfolding-level facts (chi-squared is Gamma(k/2, 1/2), Beta ratio, t formula, Poisson / binomial "
              "routing, flip) are rfl-level pins of the model, not results. NOT PROVED: the probability laws of the rejection samplers (Ziggurat, Marsaglia-Tsang and "
              "hence beta / chi-squared / t, PTRS, BTPE) and therefore that MVN draws have covariance Sigma in distribution; termination of those loops; that Y[i] = "
              "exp(-x^2/2); uniformity and independence of wyrand; floating-point rounding. These rest on TIE + SEARCH: every generated request is run through the "
              "real crate and through the model at Float and compared bit for bit including the final generator state (quick: about 2060 requests, 4.9e7 draws; "
              "thorough: about 7800 requests, 2.2e9 draws): the first 2000 draws of every stream for every distribution x regime x seed, bulk routes at 32767..65537, "
              "sample_matrix, MVN sample_n and repeated sample, objects reached through setters / update / Default / Clone, exact special values and +-1 ulp bands "
              "around every branch constant, the generator states whose uniform is exactly 0 for every distribution, and the order-statistic summaries of the long "
              "streams; the DKW criterion (band sqrt(ln(2/alpha)/(2n)), alpha = 1e-12, false-alarm probability <= 1e-12 per case) is evaluated on the implementation "
              "streams against scipy.stats cdfs with n = 2e5 / 1e5 (quick) and 4e6 for the regime grid, 1e6 for histories, construction routes, special values and "
              "MVN, 32767..65537 for the bulk boundaries, 5e4 for corpus witnesses (thorough); the statistic is a lower bound of the sup-distance from 2000 (quick) / "
              "8000 (thorough) order statistics or the exact histogram, so it can miss at most 1/K of distance. A source-level tie exists only for Uniform::sample, "
              "the post-loop formulas of Exponential / Gumbel / Pareto (stale since F53 until the translator handles the while loop), the Poisson / binomial routing "
              "predicates and the t / beta compositions; wyrand, f64(), Lemire, Ziggurat, Marsaglia-Tsang, PTRS, BTPE, Bernoulli, MVN and the bulk helpers are tied "
              "at run time only. Defects found and repaired through this property: F04, F20, F22, F41, F43-F46, F53, F54; open findings: du:panic:range>=2^63 "
              "(dependency alea), beta:dkw:tiny-shapes, t:panic:dof-underflow."),
        design='DESIGN.md §6 C03',
        technique='Lean 4 proof (inverse-CDF algebra over R, loop characterisations, exact table arithmetic) + bit-exact stream correspondence + DKW search'),
    "C09": dict(
        text=("PARTIAL. Carrier per clause of the statement: the accuracy clauses (gamma within 1e-13 pole-scaled, beta within 1e-12, digamma within 1e-10 relative "
              "to max(1,|psi|), erf within 1.5e-7) and the identities Gamma(x+1) = x Gamma(x), Gamma(n+1) = n! are carried by SEARCH ONLY - no theorem covers them; "
              "they are approximation-theoretic and libm-dependent facts, decided on every run by the bit-exact tie of the model to the Rust code plus a comparison "
              "with mpmath at 50 digits at the property tolerances (identities at 1x the tolerance). The search is exhaustive only for erf in the thorough tier: "
              "every f32-representable argument of [-6, 6] (2 172 649 474 arguments, erf(x) compared with scipy erf cross-checked against mpmath, erf(-x) = -erf(x) "
              "and |erf| <= 1 bit for bit, model against code by a per-block checksum); gamma is SAMPLED: of the 2 253 756 824 f32-representable arguments of (-170, "
              "171.6) the quick tier tests 170 000 (0.0075 percent) and the thorough tier 3 300 000 (0.146 percent), stratified in value and in bit pattern, plus "
              "random f64, pole neighbourhoods, every integer and half-integer, range edges; beta on random pairs of (1e-3, 80)^2 and the whole integer grid "
              "[1..80]^2 and half-integers; digamma on (1e-3, 1e6), integers up to 10^4 against harmonic numbers and half-integers. Kernel-checked theorems (about "
              "the model of gamma / ln_gamma / beta / digamma / erf with constants regenerated from the source as bits + exact rationals) carry: psi(x+1) = psi(x) + "
              "1/x for every non-pole x < 6 in exact arithmetic (one unfolding of the recursion; also for the exported digammaFn inside its fuel domain x >= -100003, "
              "outside which it is a documented default and never compared), digamma unfolds exactly ceil(6-x) times with series coefficients B_2k/(2k); beta "
              "symmetric for any commutative * and +; erf (which since repair F56 branches on the sign bit) is odd at EVERY argument including both zeros on any "
              "scalar type whose negation flips the sign bit (an IEEE law, stated as a hypothesis, true at Float and impossible on a field; over ordered fields the "
              "statement is for x != 0 and erf(0) = 18014399/2^54 at the single zero); |erf x| <= 1 and 0 <= erf x <= 1 for x >= 0 over the reals with the actual "
              "doubles; gamma reflects at most once and the fuelled recursions equal the exported closed forms exactly where the Rust functions return (for erf: "
              "every argument, NaN and both zeros included; for digamma: every x >= -100003, below which executor and model refuse the request); the Lanczos sum is "
              "positive for z > 0, ln_gamma = log(gamma) on z >= 1/2, the split Lanczos power (repair F21) equals the legacy single power exactly, its factors before "
              "the last product stay below 2^688 (partial: the last product is not bounded), and the legacy power exceeds 2^1024 from z = 143 although Gamma(143) is "
              "finite. Two further theorems are about the TRUE Gamma function only, not about the model: the reflection formula pi / (sin(pi z) Gamma(1-z)) = "
              "Gamma(z), and Gamma(1-z) > 2^1024 for z <= -171; they explain, but do not prove, the open finding that gamma returns +-0 below -170.62 near the poles "
              "where the true value is a normal f64 (the overflow of the computed divisor is observed by the tie and the lower-edge stratum). Over the reals the "
              "model has junk values at the poles (gammaFn 0 = 0, psi(0) = psi(1)); the theorems carry non-pole guards or say nothing there. Not proved: "
              "floating-point rounding of any operation. Tie: about 480 000 requests in the quick tier and about 7 million sampled values plus the exhaustive erf "
              "sweep in the thorough tier, 0 differences. Open finding: gamma:reflection-overflow:x<-170.62 (listed; emitted only for its signature result +-0). The "
              "former erf findings (not odd at 0, no return at NaN) were repaired by F56 and are unconditional regression guards of the oracle (keys erf:odd:x=0, "
              "erf:nan:stack-overflow: exact bits 3e112e0be0000000 / be112e0be0000000 at the zeros, NaN at NaN, 0 oddness violations in the sweep)."),
        design='DESIGN.md §6 C09',
        technique='Lean 4 proof (structure/recurrence/sign/positivity over ordered fields and R, exact table decoding) + bit-exact correspondence + mpmath-50 search'),
    "C10": dict(
        text=("Kernel-checked theorems about the hand model of src/optimize (adam, sgd, lm, rel_change) and of the reverse tape. ADAM / SGD: for every gradient "
              "oracle, start, hyper-parameters and budget k < 2^31 the model of Adam returns iterate min(k, stopIdx) of the Kingma-Ba recurrence (bias correction "
              "with t from 1, epsilon outside the square root), and SGD (plain, momentum, Nesterov with the gradient at theta - mu u) likewise, with the prefix "
              "property; the content is the loop-to-iterate refinement (the per-coordinate formulas are equal up to ring identities). An early stop implies that "
              "every parameter satisfies new = old or |new - old| < 2^-52 max(|new|, |old|) (ordered field with abs and max; in f64 a NaN relative change is dropped "
              "by f64::max, so an overflowed run can stop with an inf/NaN coordinate: tied by correspondence only). TAPE: the model of the reverse tape returns the "
              "Frechet derivative of the objective for every node kind of the catalogue (+ - x / neg powi exp sin) except f64 / Var nodes, for which the wrong weight "
              "-1/x of the dependency is itself a theorem (the open finding); hence Adam / SGD follow the published rule with the TRUE gradient whenever the "
              "objective is inside its domain of differentiability at the points where the run takes a gradient (hypothesis along the run, not derived from the "
              "start). LEVENBERG-MARQUARDT (ordered field, tape evaluator of the source, evaluator laws proved relative to the well-formedness invariant of the tape "
              "state): predicted reduction >= 0 for an exact solution of the damped normal equations; an accepted step strictly decreases the residual sum of "
              "squares; for tau > 0, 1 <= p < n and no vanishing Jacobian column AT THE PARAMETER VECTORS OF THE SUBLEVEL SET rss(theta) <= rss(start) (or, "
              "alternatively, a non-singular damped normal matrix there) the damped systems are positive definite, the pivoted LU solve is exact, and whatever LM "
              "returns after any budget has rss <= rss(start), belongs to the returned point and reports rss/(n-p) times invOf(J^T J), where invOf is proved to be "
              "the inverse when J^T J is non-singular; starts on which a Jacobian column vanishes (p0 exp(p1 x) at p0 = 0, logistic at L = 0) and the case n = p "
              "(division by zero: inf/NaN covariance) are outside the theorems. LM CONVERGENCE is NOT proved for LM::optimize: Props/Rounding7 proves the mathematics "
              "of one damped step on linear models over the reals (fixed points are the least-squares solutions, strict descent, error recursion, geometric rate) and "
              "Props/Rounding8 a loop skeleton for an idealised evaluator satisfying EvalLaws (not the tape evaluator, for which EvalLaws is provably unsatisfiable); "
              "reaching the least-squares solution is searched by the oracle (exact solve and a contraction-rate bound). Rounding is not proved. DETERMINISM of the "
              "real code (a RefCell tape inside the optimizer object) is observed, not proved: repeated requests and second calls on a used or cloned object must "
              "reply bit-identically. TIE: bit-exact replay of whole trajectories (maxsteps = 1..K) through an RPN objective catalogue interpreted with real "
              "reverse::Var on one side and the tape model on the other, for every public route to an optimizer (new, clone, reuse, Default, with_stepsize, "
              "set_stepsize, public LM fields); strata for exact landings on stationary coordinates, geometric contraction to the origin and tiny magnitudes, exact "
              "boundaries of every stop / accept test (relative change exactly 2^-52, eps1 / eps2 ties, gain ratio 0, 0/0 and 1/2), hostile LM starts (overflow, NaN "
              "gain ratio, vanishing Jacobian column, extreme damping); interval-arithmetic published-rule oracle with an exact rational stop rule, LM oracle at 200 "
              "bits (descent, finiteness, covariance, least squares on linear models). SOURCE TIE: the five Adam and two SGD per-coordinate update formulas are "
              "regenerated from adam.rs / sgd.rs on every run and proved equal to the model step; the loop skeleton, rel_change, the EPSILON comparison, the Nesterov "
              "look-ahead, all of LM and the tape are tied at run time only. One open finding (dependency reverse: f64 / Var derivative weight) is listed in "
              "known_findings.txt."),
        design='DESIGN.md §6 C10',
        technique='Lean 4 proof (loop-to-iterate refinement, LM descent invariant, chain rule over commutative rings) + bit-exact trajectory correspondence'),
    "C11": dict(
        text=("Kernel-checked theorems about the models of lu / cholesky / substitutions / det (slice level and Matrix level) over an ordered field. CHOLESKY: "
              "whenever cholesky returns l, it is lower triangular with positive diagonal (needs only that sqrt maps positives to positives) and, under the "
              "hypothesis that sqrt squares back on the n pivots (true over R, cholesky_correct_real), L.L^T = A - on the whole matrix for exactly symmetric input, "
              "on the lower triangle only for input that is symmetric merely up to eps = 2^-52 (which the assert accepts); every exactly symmetric positive-definite "
              "matrix is factored (completeness, uniqueness of the factor); REJECTION: the sweep stops exactly at a diagonal cell whose pivot is <= 0, input failing "
              "the eps-symmetry assert panics, and (Props/C11Review) for every order every exactly symmetric matrix that is NOT positive definite is rejected by "
              "cholesky and by Matrix::cholesky when sqrt is positive and exact on positives (e.g. over R): a returned factor would make the matrix positive "
              "definite. LU: for EVERY square input the pivot vector is a permutation, P.A = L.U (with the exact residual identity and the necessary-and-sufficient "
              "condition over general fields), every multiplier satisfies |l_ij| <= 1 and is 0 under a zero pivot; prod diag U = det(P.A); all pivots non-zero iff "
              "det(P.A) != 0. DETERMINANT: ipiv_parity returns Mathlib Equiv.Perm.sign of the pivot permutation for every size (never diverges, panics exactly on "
              "non-permutations), P.A is the stored matrix with rows re-indexed by that permutation, hence Matrix::det m = det A (Mathlib Matrix.det of the stored "
              "matrix) for every well-formed square matrix, singular ones included, and the route lu followed by lu_det returns the same value; det panics exactly on "
              "non-square matrices. Matrix-level lu, lu_solve, cholesky and (on matrices passing their triangularity assert) the substitutions equal the slice-level "
              "ones; forward/backward substitution invert triangular systems with non-zero diagonal. Definitional unfoldings (det = prod diag U times parity, lu_det "
              "likewise, Matrix::cholesky = guard then slice cholesky) are kept as required lemmas but are not results. The concrete rational witnesses are evaluated "
              "with an exact square root on perfect squares (the displayed factor of [[4,2],[2,2]] is its true factor [[2,0],[1,1]]). ROUNDING (standard model fl(a "
              "op b) = (a op b)(1+d), |d| <= u, valid without overflow/underflow): |L L^T - A| <= gamma_(n+1)|L||L^T| and |L U - P A| <= gamma_n|L||U| for the "
              "computed factors (LU: when no computed pivot is zero), multipliers <= 1 under monotone rounding, every entry of |L||L^T| at most max "
              "a_ii/(1-gamma_(n+1)). NOT PROVED: the growth factor behind the norm-wise tolerance of the oracle; that the f32 square root of is_square equals the "
              "exact integer square root of the model (true only below 2^24 elements; recorded assumption). Decided per run by the bit-exact tie (orders 1..32 with "
              "the unrolling boundaries, dense, integer, rank-1 and rank-deficient, singular, zero-leading-pivot, permutation, adversarial-pivot, extreme "
              "power-of-two scale with exact scaling-invariance pairs, SPD incl. sparse arrowhead/banded/block, singular PSD with an exactly zero pivot, symmetric "
              "indefinite) and exact big-integer oracles: ||PA - LU|| and ||LL^T - A|| within c n eps ||A||, |L| <= 1, permutation, positive Cholesky diagonal, exact "
              "determinants of integer matrices and of integer matrices times a power of two by Bareiss, not-positive-definite input rejected, Matrix = slice bit for "
              "bit, solves from an explicit factor. SOURCE TIE: the slice-level forward/backward substitution, lu, lu_solve, try_cholesky, cholesky and "
              "cholesky_solve are regenerated from the Rust text on every run (in-place mutation loops translated to folds) and proved equal to the hand model; "
              "Matrix::lu, Matrix::det, lu_det, the Matrix substitutions, ipiv_parity, is_symmetric and is_square are hand-modelled and tied by the run-time "
              "correspondence only."),
        design='DESIGN.md §6 C11',
        technique='Lean 4 proof (column-loop invariant for P.A = L.U, Cholesky sweep invariant, cycle-shortening invariant for parity = Equiv.Perm.sign) + bit-exact correspondence + exact reconstruction oracle'),
    "C13": dict(
        text=("Kernel-checked theorems about the executable model (the definitions the Float driver runs) over an ordered field. Autocovariance: for every non-empty "
              "series and lag, acovf equals the biased-estimator sum (acovf_def, guard ts nonempty); for every series of non-zero variance, acf equals the ratio of "
              "the lag-k and lag-0 estimators (acf_def), acf(0) = 1 and |acf k| <= 1 (via 2|ab| <= a^2 + b^2); lags |k| >= n give 0 (acovf for non-empty series, acf "
              "for non-zero variance). The complementary cases are stated, not hidden behind x/0 = 0: on an empty series the code forms 1/0 * -0 (acovf_empty) and on "
              "a zero-variance series numerator and denominator of acf are both 0 (acf_degenerate), NaN in IEEE arithmetic, which the oracle demands on constant and "
              "empty corpus lines. Evenness in the lag holds for any scalar type (an unfolding-level fact). difference inverts cumulative summation in both "
              "directions and panics on an empty vector. AR fit: the intercept is the series mean; the matrix inverted is the Toeplitz matrix of the series "
              "autocorrelations (fit_toeplitz_entry); given an exact inverse the un-reversed stored coefficients solve the Yule-Walker equations (fit_yule_walker, "
              "instantiated at order 2 over Q where the coefficient reversal and the |i-j| indexing are visible). Without the inverse hypothesis the same holds, and "
              "fit does not panic, over an ordered field whose sqrt and abs are exact (for example the reals, not Q) whenever the Toeplitz matrix is non-singular "
              "(ar_fit_total, Props/C01SolveApps; instantiated over R with every hypothesis discharged in Props/C13Review). predict_one and predict equal mean + the "
              "AR recursion on the mean-centred history, for every history length in predict_one (F42) and with a panic in predict for histories shorter than the "
              "order; fit and forecasts are shift-equivariant (forecast_shift: series + c gives every forecast + c). Convergence (Props/C13Conv): for ARBITRARY "
              "coefficients with sum|phi_j| < 1 (explicit geometric bound) or all characteristic roots inside the unit disc (Gelfand formula) the forecasts tend to "
              "the intercept; that a particular Yule-Walker fit satisfies either condition is not proved and is searched by the oracle. Float level, standard model: "
              "acovf error bound with a provably necessary first-order mean term, |acf| <= 1 + gamma, |acf(0) - 1| <= gamma_4 (Props/Rounding3); one-step forecast "
              "within gamma_(p+3)(|c| + sum|phi_j||x_j - c|) and difference exact to one rounding per entry (Props/Rounding5); residual bound of the Toeplitz system "
              "of the computed autocorrelations (Props/Rounding6). SOURCE TIE: AR::predict_one with its short-history branch and the accumulation loops of acovf, acf "
              "and difference are regenerated from the Rust text and proved equal to the model; AR::fit (including the coefficient reversal) and the AR::predict loop "
              "are hand-modelled and tied only by the bit-exact run-time correspondence (listed under TRUSTED). PARTIAL: stationarity of a fit, rounding of the "
              "fitted coefficients and multi-step forecasts are decided by the bit-exact tie plus exact-integer and 240-bit mpmath oracles with a-priori rounding "
              "bounds, paired shifted and power-of-two-scaled runs, refits of one object, and a horizon >= 200 convergence check."),
        design='DESIGN.md §6 C13',
        technique='Lean 4 proof (finite-sum algebra, Cauchy-Schwarz, recursion by induction over the horizon) + bit-exact correspondence'),
    "C14": dict(
        text=("Kernel-checked theorems about the executable model (the definitions the Float driver runs). Over any commutative semiring predict is Horner = sum c_i "
              "x^i for every coefficient list; over a monoid vandermonde has entries V[i,j] = x_i^j (p <= 2^31, where the source cast is the identity). Over a field, "
              "given an exact inverse of V^T V (hypothesis IsInverse: G * Ginv = I, from which the left inverse is derived), the fitted coefficients satisfy the "
              "normal equations, the residual is orthogonal to every power x^0..x^d, and data generated by a polynomial with p coefficients are returned exactly; "
              "over an ordered field rss c2 = rss c + ||V(c2 - c)||^2 >= rss c for every other coefficient vector (minimality). These are instantiated with every "
              "hypothesis discharged at degree 1 and at degree 2 (p = 3, abscissae -7, -1, 1, 7, pivots 4, 100, 2304) over Q. The property hypothesis itself, at "
              "least degree+1 distinct abscissae, is a theorem hypothesis in Props/C14Review: it makes V^T V non-singular (distinct_imp_xtx_det_ne_zero: v^T V^T V v "
              "= ||Vv||^2, and a polynomial of degree < p with p distinct roots vanishes), and it is needed (repeated_abscissa_singular). Hence, over an ordered "
              "field whose sqrt and abs are exact (for example the reals, not Q, because the Cholesky route takes square roots), for every data set with at least "
              "degree+1 distinct abscissae fit does not panic, satisfies the normal equations, minimises the residual sum of squares (poly_fit_total_distinct) and "
              "reproduces polynomial data (fit_reproduces_distinct), with no hypothesis on the solver; both are instantiated over R. Mismatched lengths and empty "
              "data panic (fit_rejects_mismatch, fit_rejects_empty). Float level, standard model: every entry of predict is within gamma_(2n) sum|a_i||x|^i of the "
              "polynomial value (Props/Rounding5); the computed coefficients satisfy a residual bound of the computed normal system in terms of the computed factors "
              "and the computed Vandermonde matrix (Props/Rounding6; its only example is at the exact model, where the bound collapses). SOURCE TIE: the call chain "
              "of PolynomialRegressor::fit (argument order, transpose flags, dimensions, length assert, state update) is regenerated from the Rust text and proved "
              "equal to the model; the generated code calls the model versions of vandermonde, xtx, invert_matrix and matmul, which are tied by C15, C05 and C01 and "
              "by the run-time correspondence, not by this tie. PARTIAL: rounding of the fit is decided by the bit-exact tie plus an exact-rational oracle "
              "(orthogonality residual scaled by cond(V^T V) eps, minimality excess and random perturbations, forward error against the exact least-squares solution, "
              "exact-integer reproduction, exact power-of-two scaling of the responses, refits of one regressor, designs with exactly-zero power sums)."),
        design='DESIGN.md §6 C14',
        technique='Lean 4 proof (normal equations and Pythagoras over fields via Mathlib Matrix) + bit-exact correspondence + exact-rational oracle'),
    "C04": dict(
        text=("Kernel-checked theorems about a hand-written Lean model of vops.rs and of the Vector / Matrix operator and map surface: each of the 8 unrolled kernel "
              "macros (8-at-a-time body + remainder) equals List.map / List.zipWith at every length, for every element type and operator, with `none` (panic) on "
              "length mismatch and the scalar on the correct side; the exponent-2/3 fast path of vpowi lives in full chunks only and the kernel is the plain map of "
              "the scalar powi as soon as 1*a = a and a*b = b*a hold (the two facts IEEE multiplication satisfies; associativity is not used: vpowi_eq_map_powi_of), "
              "and square-and-multiply powi = x^n for every i32 exponent in every monoid / field; every one of the 44+44 Vector/Matrix operator impl rows and 62 map "
              "rows of a wiring table re-extracted from vec.rs / matrix.rs / vops.rs / broadcast.rs on every run is proved by `decide` to call the kernel generated "
              "from its own operator token with arguments in order (self, other), the right shape source and (for matrix compound assignment) a shape assert, each "
              "expected form occurring exactly once, so each operator form OF THE MODEL computes the scalar op of its own trait at each position with shape "
              "preserved; Matrix op= Matrix with different shapes and Matrix op Matrix with shapes that do not broadcast give `none` (matrix_assign_shape_mismatch, "
              "matrix_op_mismatch via the C12 rejection theorem; compatible unequal shapes are C12). The link from the Rust text to that table and model is a "
              "translator, not a proof: every expanded impl body must match in full one of five wrapper templates around exactly one kernel call, operand types "
              "outside Vector/&Vector/Matrix/&Matrix/f64 are rejected, and every kernel macro body must match in full the template the model was transcribed from "
              "(all 8 lanes in order with the operand order of the family, spelled as literal lanes, a lane loop or a block-zip loop; chunk count; assert; tail loop "
              "from chunks*8), as must Neg, makefn_matops and the map methods; any other text is an extraction alarm (VIOLATION). SOURCE TIE by regeneration: "
              "logsumexp (with its empty guard), logmeanexp, prod, norm, is_matrix, inf_norm (SrcC04Loops; inside them dot and max are substituted by name) and "
              "utils::sum / utils::dot themselves (SrcC04Mut: sum_eq, dot_eq against Cv.sum8 / Cv.dot8) are regenerated from utils.rs on every run and proved equal "
              "to the model; the vops kernel macros are not in the translator table (template match only). Reductions in exact arithmetic: sum8 = sum and dot8 = sum "
              "of products in every additive monoid, prod, norm = sqrt(sum x^2), max = greatest element, both inf_norm implementations = largest absolute row sum, "
              "and over the reals for NON-EMPTY input without NaN logsumexp = log sum exp x_i and logmeanexp = log mean exp x_i with every shifted exponent <= 0 and "
              "1 <= sum exp(x_i - m) <= n, so the exponentials cannot overflow at any magnitude of finite input (the subtraction v - xmax itself can overflow only "
              "for inputs of opposite sign near +-f64::MAX, not covered). Rounding (theorems in Props/Rounding*.lean, standard model fl(a op b) = (a op b)(1+d), |d| "
              "<= u, which binary64 satisfies only in the absence of overflow and, for * and /, underflow): |sum8 x - sum x| <= gamma_n sum|x|, and gamma_(n-1) for "
              "idempotent rounding and representable inputs; dot within gamma_n sum|x_i y_i| for idempotent rounding; prod within gamma_n relative; norm within "
              "gamma_(n/2+2) relative and inf_norm within gamma_ncols relative (sqrt with relative error <= u); logsumexp / logmeanexp with an explicit bound in u, "
              "the libm error and the spread max - min under a relative-error model of exp, which for f64 applies when max - min <= 700 (beyond about 745 the "
              "smallest shifted exponential underflows; stdmodel_logsumexp_note, n <= 10000); these provisos are hypotheses of the theorems, and the per-run oracle "
              "checks the same worst-case bounds against exact rational / 40-digit references on inputs inside them. Tie: the model at Float is compared bit for bit "
              "with the Rust code on every request (none is implementation-only: asinh / acosh / atanh are spelled with the formulas of Rust std over ln_1p, hypot, "
              "sqrt, ln; cbrt is the correctly rounded cube root computed exactly; measured identical on 1.2e6 and 1e7 arguments and re-swept every run) - all "
              "lengths 0..40 and random lengths to 1e4 for each of the 11 operator forms of Vector and of Matrix, negation, 29 maps, powi / powf with every special "
              "exponent, special arguments, threshold bands of exp for the log-domain reductions, panics on length / shape mismatch, zero-sized matrices; exact "
              "element-wise oracle against the scalar f64 method at every position. The empty slice: logsumexp of no element is f64::NEG_INFINITY (the guard of the "
              "repaired function, F55; theorem logsumexpE_nil, and the oracle demands it on every run); logmeanexp of no element is undefined and not judged; inputs "
              "containing +inf or only -inf return NaN and are outside the stated domain. Operands unchanged and negation are definitional in the (pure) model and "
              "observed by the tie (borrowed operands are echoed and compared)."),
        design="DESIGN.md §6 C04",
        technique="Lean 4 proof (functional induction over the 8-way pattern, decide over translated macro wiring, real analysis for logsumexp) + bit-exact correspondence"),
    "C05": dict(
        text=("Kernel-checked theorems about the model of matmul, matmul_blocked, transpose, xtx and the Dot trait. DEFINITION (any commutative semiring): for each "
              "of the four transpose-flag pairs, on an ra x ca and an rb x cb operand with positive row counts whose inner dimensions after the flags agree, matmul "
              "returns a value of length m*n whose (i,j) entry is sum_k op(A)[i,k]*op(B)[k,j] (matmul_spec, spelled out on the stored operands as "
              "matmul_spec_NN/TN/NT/TT), and, stated with the Mathlib Matrix type, matmul (flat A) (flat B) = flat (op A * op B) for all four flag pairs "
              "(matmul_matrix_NN/TN/NT/TT, xtx_matrix); the same for matmul_blocked with every block size >= 1; xtx = X^T X and symmetric; transpose entry formula. "
              "EXACT DOMAIN: matmul returns a value if and only if both row counts are positive, divide the operand lengths, and the inner dimensions agree "
              "(matmul_isSome_iff; matmul_blocked additionally needs block size >= 1); in particular an operand with 0 rows always panics because is_matrix divides "
              "by the row count, also for a mathematically conformable product such as (2x0).(0x3), while zero columns with positive row counts give the empty or "
              "all-zero product; the corresponding if-and-only-if statements for Matrix.Matrix, Matrix.Vector (non-empty vector required) and Vector.Matrix on "
              "well-formed operands, and the panic theorems for non-conformable shapes of all three kinds (dotMM_rejects, dotMV_rejects, dotVM_rejects) and for "
              "malformed operands. BLOCKED = PLAIN: for every block size >= 1 and every scalar type with only Add/Mul/Zero and no algebraic law the blocked loop nest "
              "equals the plain one (both loop nests are projected onto one cell and leave the same left fold over k there), hence the two kernels coincide on all "
              "inputs for the three flag pairs without the both-transposed shortcut, at Float as well; for the pair (true,true) the plain kernel evaluates (B.A)^T "
              "and multiplies the factors in the other order, so equality is proved under commutativity of the scalar multiplication (every commutative semiring) and "
              "at f64 it is checked bit for bit by the correspondence and the oracle, not proved. DOT TRAIT: the four Matrix.Matrix methods carry the flag pairs "
              "(F,F),(T,F),(F,T),(T,T), Matrix.Vector promotes the vector to a column and ignores the flag on it, Vector.Matrix promotes it to a row, Vector.Vector "
              "is the inner product for all four names; entry formulas dotMM_spec, dotMV_spec, dotVM_spec, dotVV_spec. These are theorems about a hand-written "
              "interpreter of a wiring table (4 rows, two 4-entry maps, 4 operand kinds x 4 ownership forms = 16 instantiations) that a translator extracts from "
              "dot.rs with regular expressions on every run and refuses on any change of macro shape; the table facts are checked by decide. xtx, Matrix::new, t_mut "
              "and to_matrix are hand-modelled. All of these are tied to the Rust code by the bit-exact correspondence only. SOURCE TIE: matmul and matmul_blocked as "
              "whole functions (cfg blocks resolved with the default features), is_matrix and transpose are regenerated from utils.rs on every run and proved equal "
              "to the model (SrcTieC05Mut2 with the bridges isMatrix_src and transpose_src). ROUNDING in the standard model fl(a op b) = (a op b)(1+d), |d| <= u: "
              "every entry of matmul, matmul_blocked, xtx and of the Matrix.Matrix, Matrix.Vector, Vector.Matrix and Vector.Vector methods is within gamma_l * sum_k "
              "|a_ik||b_kj| of the definition (Rounding3 and dotMV_error, dotVM_error, dotVV_error; idempotent rounding for the constant gamma_l, and an idempotent "
              "model with u = 2^-53 exists); the link from IEEE binary64 to that model is trusted. CORRESPONDENCE AND ORACLE: the model is compared bit for bit with "
              "the Rust code on all shapes 1..9^3 x 4 flags x block sizes with integer entries (exact-equality oracle from an independent integer triple loop), "
              "random real shapes to 64 and the 63/64/65 and m*l*n = 32768 corners (exact dyadic reference with the rigorous bound l*2^-52*sum|a||b|), power-of-two "
              "scaled data (exact equality and bit-exact equivariance), zeros facing inf and NaN (IEEE class of every entry), every Dot method in all four ownership "
              "forms, inner products of lengths 8k-1, 8k, 8k+1 up to 4097, shapes with zero dimensions (decided by the oracle), and sessions in which the same slice "
              "or object is both operands, views of one buffer overlap, operands are mutated in place between identical calls or re-allocated at the same address. "
              "NOT COVERED BY A THEOREM: bit-identity of the (true,true) blocked and plain kernels at f64, the i32 casts in Matrix::new (exact below 2^31), that the "
              "four ownership forms share one body (read off the macro, checked by running all four). OPEN REMARK: the panic of a conformable product with a 0-row "
              "operand lies outside the quantifier of the property (dimensions from 1) and is reported as finding proposal zero-rows."),
        design="DESIGN.md §6 C05",
        technique="Lean 4 proof (loop-nest projection, Finset sums over CommSemiring, decide over translated wiring) + bit-exact correspondence"),
    "C06": dict(
        text=("Kernel-checked theorems over any field with exp/ln/sqrt abstract. Building blocks: entry formulas of the score (compute_dbeta) and of the information "
              "matrix (compute_ddbeta); the penalty step adds alpha*beta_j to gradient components j >= 1 only (intercept unpenalised) and alpha to every information "
              "diagonal entry, the intercept entry included (this changes the convergence rate, not the fixed point). Fixed points: for any exact solver one scoring "
              "pass leaves beta unchanged iff the ridge-penalised score equations hold at mu = g^-1(X beta + offset); for the Gaussian family these are the weighted "
              "ridge normal equations with unpenalised intercept; with the proved solver correctness both hold for the model of solve itself on regular (SqrtOk and "
              "LuPivotsNonzero) information matrices. Returned coefficients: for the UNPENALISED Gaussian family every pass is an exact weighted least-squares solve, "
              "so the coefficients fit returns satisfy the weighted normal equations whatever the status (gaussian_pass_solves, gaussian_fit_normal_equations); for "
              "ridge-Gaussian fits and the five other families no theorem speaks about the returned iterate - that the stopping test implies a small score is not "
              "proved and is decided per run by the oracle. What fit returns and stores (fit_last_pass): the returned coefficients are beta0 - s for the start beta0 "
              "and the solver step s of the last pass, while the stored deviance is the family deviance at inv_link(X beta0 + offset) and the stored information is "
              "the unpenalised information at the same point, i.e. both are ONE SCORING STEP STALE relative to the returned coefficients (the clause deviance at the "
              "fitted means holds up to that last step; the oracle bounds the gap by the last-step bound and observes at most about 36 * tolerance * deviance, on "
              "ridge fits). Status: fit returns Err iff the budget is exhausted without convergence; on Ok the last two penalised deviances differ relatively by < "
              "tolerance with a finite NON-ZERO previous value (at a previous deviance of exactly 0 the IEEE quotient is inf or NaN, the test is false and the fit "
              "ends in Err; the model spells this case out so that no x/0 = 0 convention is used). Accessors: dispersion = deviance/(n-p) with n = round(sum w) or 1, "
              "a panic for n < p; covariance = dispersion * invert(information) and, with the shared invertMatrix on a regular information matrix, information * "
              "covariance = dispersion * I (covariance_isInverse); standard errors = sqrt of its diagonal; predict = inverse link of x.beta + offset; aic, bic (these "
              "accessor statements and the six family tables are definitional unfoldings, kept as required but not headline results). Invariance: score, information, "
              "deviance, the start value, every iterate of the loop and the whole fit result (status, coefficients, deviance, information; predictions permuted "
              "accordingly) are invariant under any permutation of the observations. Families over the reals: the deviances equal the textbook unit deviances on the "
              "valid domain (Poisson with 0 ln 0 = 0, Bernoulli with 0/1 responses, Gamma, Exponential, Gaussian = residual sum of squares), are >= 0 and vanish iff "
              "y = mu (Props/C06Dev); d_inv_link is the derivative of inv_link for all six families; variance(inv_link eta) = d_inv_link eta for the canonical links "
              "(identity, logit, log for Poisson and QuasiPoisson) and the working weight is 1 for Gamma/Exponential with the log link; penalized_deviance = deviance "
              "+ alpha*||beta_1..||_2 >= deviance for alpha >= 0 with equality iff alpha = 0 or the penalised coefficients vanish (the norm is not squared in the "
              "source; it only drives the stopping test; modelled as it is); set_coef changes only the coefficient vector; the IRLS start values are the textbook "
              "ones at eta = 0 divided by n. TIE: every reply field of fit and its accessors, score, every public method of ExponentialFamily, GLM::set_coef at every "
              "position of the object life cycle, two-fit and k-fit object histories with setters in between (compared bit for bit with fresh twins) are executed "
              "through the real crate and the model at Float and compared bit for bit; the 18 link/variance arms and 8 deviance closures are additionally regenerated "
              "from the source and proved equal to the model by rfl. ORACLE (50-digit mpmath, inside the quantifier 1e-15 <= tol <= 1e-4, n > p+1, condition number "
              "<= 1e13): on Ok the Newton decrement of the returned coefficients is <= C * tol * penalised deviance + rounding floor; Gaussian against an independent "
              "weighted ridge solve; deviance, dispersion (exact, with n = round of the 8-way sum), covariance and standard errors against dispersion * inverse "
              "WEIGHTED information at the returned beta, predictions, score, aic (exact), bic; permuted and power-of-two rescaled re-runs; outside the quantifier "
              "only the exact clauses and the tie apply. PARTIAL / NOT PROVED: that the deviance-based stopping test implies a small score; rounding of the iteration "
              "(Props/Rounding7, Rounding8 analyse one scoring step in the standard model and show that a step leaving beta unchanged IN FLOATING POINT bounds the "
              "exact penalised score for the canonical families - a hypothesis that is not the stopping test of the code, and only for p >= 2); solver and inverse "
              "correctness only under Regular; the one-step staleness of the stored deviance and information. OPEN FINDING (key glm:weights:unweighted-deviance in "
              "known_findings.txt, reproduced on every run as KNOWN-FINDING; the oracle emits the key only when the stored deviance equals the unweighted family "
              "deviance and differs from the weighted one, any other deviance discrepancy is a violation; dependent accessors are judged against the stored "
              "deviance): with prior weights the stored deviance is the unweighted sum while score, information and n = round(sum w) are weighted, so dispersion and "
              "standard errors of the Gaussian, QuasiPoisson and Gamma families are inconsistent with the weights."),
        design="DESIGN.md §6 C06",
        technique="Lean 4 proof (entry-wise sum algebra, fixed-point characterisation, induction over scoring iterations, permutation of Finset sums) + bit-exact correspondence"),
    "C07": dict(
        text=("Kernel-checked theorems about the model of src/integrate. TRAPZ: for every n >= 1 the model equals the Mathlib trapezoidal_integral, hence obeys the "
              "Mathlib C2 error bound |b-a|^3 max|f second derivative|/(12 n^2) against a genuine interval integral, is exact for affine integrands (closed form), "
              "additive, homogeneous, antisymmetric in the limits and 0 for a = b; n = 0 is outside the quantifier (the code divides by zero and returns inf or NaN; "
              "the algebraic identities hold there only through x/0 = 0, stated by trapz_zero_panels). QUAD5: linear and antisymmetric for any table; for the actual "
              "doubles of the node/weight tables, regenerated from the source on every run and decoded from their bit patterns, odd moments are exactly 0 and even "
              "moments up to degree 18 are within 1e-16 of 2/(d+1), degree 20 is not integrated exactly; on arbitrary intervals, for every polynomial of degree <= "
              "19, |quad5 - integral| <= 1e-16 |xr| sum|c_k|(|xm|+|xr|)^k with a genuine interval integral, exact when the shifted polynomial is odd. ROMBERG, level "
              "budgets k = 1..31 (the property needs 2..20; nmax = 0 is the panic, nmax > 31 is not modelled and never compared): the model computes the textbook "
              "tableau R; its column 0 is the trapezoid rule with 2^n panels; for EVERY tolerance the value returned is the diagonal entry R[s][s] of the first level "
              "2 <= s < k whose consecutive estimates agree, or R[k-1][k-1] when no test fires (romberg_stop_level), and it is the exact integral (closed form) of "
              "every polynomial of degree <= 2s+1 for that level s (romberg_exact_at_stop_level). Consequently: at eps = 0, and whenever no early exit happens (k "
              "levels computed), k levels integrate every polynomial of degree <= 2k-1 exactly (Euler-Maclaurin for monomials from the Mathlib Bernoulli/Faulhaber "
              "results plus Richardson elimination); after an early exit at eps > 0 only degree 2s+1 >= 5 is guaranteed and the clause that holds is the tolerance "
              "clause - kernel-checked witness inside the quantifier: romberg(1 + x^6/100, 0, 1, eps = 1e-3, 5 levels) = 7691/7680 while the integral is 701/700 "
              "(error 3.7e-6 < eps; reproduced on the Rust code). Levels 1, 2, 3 are the trapezoid, Simpson and Boole rules for every tolerance. Antisymmetry in the "
              "limits and a = b -> 0 hold for every tolerance; additivity and homogeneity in the integrand hold at eps = 0 and for the tableau R, and additivity is "
              "FALSE at eps > 0 (kernel-checked witness: the summands stop at levels 2 and 3, the sum at level 3). SAMPLED TRAPEZOID: the result is the sum of the "
              "panel areas, each panel area is the interval integral of the linear interpolant (any abscissae, also decreasing or repeated), and for strictly "
              "increasing abscissae the result is the integral of the piecewise-linear interpolant over [x_0, x_last]; additive over concatenation at a shared "
              "sample; the x form equals the dx form on uniform grids; no abscissae and no dx means dx = 1; the three panics (length mismatch, dx together with x, no "
              "samples and no abscissae) are theorems. SOURCE TIE: trapz as a whole, the quad5 fragments and tables, the closures of trapezoid are regenerated from "
              "the source and proved equal to the hand model; romberg is hand-modelled (column 0 interleaved with the sweep, same values for a pure integrand). "
              "PARTIAL, decided by the bit-exact tie plus an exact-rational/mpmath oracle and not by proof: all rounding relative to the exact integral "
              "(Props/Rounding5 bounds only the accumulation error of trapz, trapezoid, quad5, Romberg r[0][0] and one first-column step against the rule sum at the "
              "computed nodes, in the standard model; the Richardson sweep is not covered); the order-of-tolerance clause for smooth integrands, for which the oracle "
              "decides exactly that every eps > 0 run returns its own diagonal entry at the first level where consecutive estimates agree in sign and magnitude, and "
              "checks |error| <= 4 eps max(1,|I|) only on the narrow-interval half of the smooth-catalogue cases (on wide intervals false convergence by aliasing is "
              "inherent to the method). Polynomial-exactness theorems other than those named above conclude closed-form antiderivative differences, not integrals."),
        design="DESIGN.md §6 C07",
        technique="Lean 4 proof (Mathlib trapezoidal rule transfer, exact dyadic table arithmetic, ring identities) + translated tables + bit-exact correspondence"),
    "C08": dict(
        text=("Kernel-checked theorems over any field of characteristic zero / any linear order, each carrying exactly the size guard under which the statistic is "
              "defined. For n >= 1: the Welford aggregate after any list is (n, mean, sum of squared deviations), hence mean (through the 8-way unrolled sum, proved "
              "equal to the plain sum), welford_mean, var and std equal their definitions (std is var under the square root of the scalar), the two means agree, the "
              "population covariance equals sum (x-xbar)(y-ybar)/n, and var is unchanged by adding a constant. For n >= 2: sample_var, sample_std and the sample "
              "covariance equal their definitions with divisor n-1, the repaired one-pass and online algorithms equal the sample covariance (all algorithms agree), "
              "and all four covariance functions are unchanged by adding constants. Quadratic / bilinear scaling of var and the two-pass covariances. Below the "
              "guards the code divides 0 by 0: theorem degenerate_sizes states the quotient formed at n = 0 (mean, var, covariance) and n = 1 (the four sample "
              "statistics) - NaN in f64, compared by the correspondence check, 0 in a Lean field by convention, which is why unguarded (_total) versions of the "
              "identities also hold and are kept as internal lemmas only; theorem panicking_sizes states the n = 0 panics of sample_var, sample_covariance and the "
              "one-pass algorithm (usize underflow, overflow checks on) and that the online algorithm returns 0/(0-1) instead. argmin / argmax return the first index "
              "of an extremum (guard: every datum within the f64::MAX / f64::MIN seeds, true of all finite doubles; the out-of-guard behaviour, argmin [inf, MAX] = "
              "0, is a separate theorem); min / max equal List.minimum / List.maximum on NaN-free non-empty input; Matrix argmin / argmax = (i / ncols, i % ncols) "
              "and panic for ncols = 0; histogram centres are the midpoints of consecutive edges for arbitrary edges. Signed zeros are one point of a linear order: "
              "which zero min / max return (not compared: LLVM minnum / maxnum may return either) and that argmin / argmax treat +0 and -0 as a tie are decided by "
              "oracle and correspondence only. CALL FORMS: every statistic is run as free function and as Vector method, the seven macro-generated Matrix reductions "
              "(mean, var, sample_var, std, sample_std, min, max) on 1 x n, n x 1 and non-square matrices, Matrix argmin / argmax on all shapes; the wrappers are "
              "one-line forwards and share the model of the free function. SOURCE TIE: the loops and iterator chains of moments.rs, covariance.rs, order.rs, hist.rs "
              "are regenerated from the source and proved equal to the hand model; the unrolled utils::sum is NOT (its name is mapped to the hand model sum8; body "
              "and tail are tied by the bit-exact correspondence on all lengths 0..1e4 incl. every residue mod 8). ROUNDING in the standard model (all reals, no "
              "overflow or underflow; its concrete instances are toy roundings and binary64 is linked to it only informally): bounds are proved for both mean "
              "algorithms (gamma_n; Welford about (n/2+6.5) u max|x|), the two-pass covariance / variance (gamma_(n+5) times an exactly shift-invariant centred scale "
              "plus second-order terms in the means), the Welford M2 / var / sample_var (whose bound provably must contain a mean term, so exact first-order shift "
              "invariance is impossible for Welford: the oracle tolerance for shifted data accordingly grows with the offset as n eps kappa), the one-pass covariance "
              "(exhibiting its cancellation term) and the online covariance; there is NO rounding theorem for std, sample_std and hist_bin_centers; several of these "
              "rounding theorems still carry the guard 1 <= n (or none) where 2 <= n (1 <= n) is needed and speak about x/0 = 0 at those sizes. The rounding clause "
              "of the property (within the bound of a numerically stable algorithm; unchanged by a constant shift even when the mean is far larger than the spread) "
              "is therefore DECIDED by the bit-exact tie plus an exact-rational oracle with the condition-number-scaled bound 200 n eps kappa (constant 100 times the "
              "largest ratio observed), exact power-of-two scaling families up to 2^500 and exact-shift families, on data with |x| in [1e-100, 1e100] or 0 for the "
              "moment statistics and the full finite range for the order statistics; at the largest offsets (kappa about 1e8) and n above about 50 that bound is "
              "wider than the statistic itself."),
        design="DESIGN.md §6 C08",
        technique="Lean 4 proof (loop invariants by induction over the data list, field_simp/ring) + bit-exact correspondence + exact-rational oracle"),
    "C12": dict(
        text=("Kernel-checked theorems about the model of broadcast_op (all element types, one abstract operator, all shapes >= 1x1): a value is returned iff the "
              "shapes are NumPy-compatible, it has the element-wise maximum shape, is well formed, and entry (i,j) is left[i|0][j|0] op right[i|0][j|0] with operand "
              "order preserved in every leaf of the classifier; a Vector operand is modelled as a single row. SOURCE TIE: the classifier calc_broadcast_shape is "
              "regenerated from broadcast.rs on every run; two unfoldings of its recursion equal the model classifier and the model is a fixed point of the source "
              "equation. The leaves of the macro, the 48 operator impls (4 operators x operand kinds x 4 ownership forms) and the Vector-to-row promotion are "
              "hand-modelled and tied at run time only: on every run all 1296 shape pairs with rows, cols in 1..6 are executed through the Rust code and the model "
              "and compared bit for bit with non-commuting data - Matrix op Matrix with each operator once per pair in the quick tier (ownership forms rotating) and "
              "all 16 (operator, form) combinations in the thorough tier, Matrix op Vector and Vector op Matrix with every operator for every eligible pair - plus a "
              "special-value stratum over every classifier leaf (NaN, infinities, signed zeros, subnormals in the data and as the 1x1 operand), size-boundary shapes "
              "and random shapes up to 40x40; an independent NumPy-rule oracle supplies the failing input. Zero-dimension operands are outside the theorems and the "
              "generator."),
        design="DESIGN.md §6 C12",
        technique="Lean 4 proof (case analysis over the classifier tree) + bit-exact model/implementation correspondence"),
    "C15": dict(
        text=("Kernel-checked theorems about the executable model of matrix.rs / vec.rs / utils.rs / rotations.rs: the matrix invariant (element count = rows x cols) "
              "is preserved by each of the 19 state-changing structural operations and, by induction, by every program of them (also for sessions that catch panics), "
              "and likewise for programs that add the six operations of the coverage extension (in-place sort and element writes through data_mut, with_shape, "
              "with_capacity, row / column sums as a new matrix); impossible shapes are rejected exactly (iff characterisations of reshape / reshape_mut / new incl. "
              "the inferred -1 dimension); every operation refines the plain row-major reference (transpose, layout conversion, hcat, vcat, repeats, row/column "
              "extraction and maps, indexing, reshape keeps the flat data) for all shapes with at least one row; diag (any shape), eye, diag_matrix, toeplitz, "
              "vandermonde (any monoid, n <= 2^31), design, linspace (field of characteristic 0, n >= 2: n points, first a, last b, constant step; n = 1 gives the "
              "start point; n = 0 panics) and arange (ordered field, step > 0 only: ceil count, all points < stop, next >= stop); rotations are orthogonal with "
              "determinant 1 and cw = ccw^T (through the model transposition) in any commutative ring with c^2+s^2=1 (instances (0,1) over Z and (3/5,4/5) over Q); "
              "the predicates is_square (Matrix and slice), is_symmetric, is_upper/lower_triangular (all shapes, tall included), is_design, is_matrix and the "
              "comparisons close_to and PartialEq (Vector and Matrix level) equal their definitions. OPPOSITE SIGNS, adopted reading: close_to (Vector and Matrix) "
              "never equates values of strictly opposite sign, at any tolerance and magnitude (proved); the absolute-epsilon PartialEq DOES equate opposite-signed "
              "values when both lie within f64::EPSILON of zero (1e-17 == -1e-17 is true by its definition |a-b| <= EPSILON; kernel-checked witness) - proved for "
              "PartialEq are its definition and that this is the only case. ONE SIMULATION THEOREM over whole programs (Props/C15Sim): every program of the 19 "
              "operations - panics included, also in sessions that catch them - commutes with an independent list-of-rows reference model (the Vec<Vec<f64>> model of "
              "the quantifier), for programs that never operate on a 0-row matrix (side condition shown necessary). Coverage extension: shape/size accessors, "
              "with_shape / Vector constructors, element writes through data_mut, row and column sums (= sum_j a_ij, sum_i a_ij, both adding up to the total, any "
              "commutative additive monoid) and Vector::sort (= Mathlib insertionSort: stable sorted permutation for a total preorder; panics exactly when the length "
              "is >= 2 and a NaN is present); Matrix::with_capacity returns only for an empty shape and panics otherwise (proved as is). The hand models that C11 and "
              "C13 carry of is_upper_triangular, slice is_square and toeplitz are proved equal to the C15 ones. NOT PROVED, decided per run by the oracle against "
              "exact rational references: IEEE rounding of linspace / arange / vandermonde / sum_rows / sum_cols, arange with non-positive step, the libm sin/cos "
              "residual of the rotations (<= 400 eps, every entry within 4 ulp of sin/cos at every magnitude), the f32 square root of slice is_square (modelled by "
              "Nat.sqrt, len < 2^24). TIE: bit for bit to the Rust code by stateful random programs (1..40 operations, loaded 1..8 rows/cols, grown up to 33x40, "
              "occasional zero dimensions where only the invariant is judged), constructor sweeps and directed strata (block-size boundaries, nearly symmetric "
              "squares, near-grid arange stops, tolerance boundaries +-1 ulp, opposite-sign pairs and scalar magnitudes over the whole exponent range); independent "
              "list-of-rows oracle. SOURCE TIE (translator, regenerated from the Rust text on every run and proved equal to the hand model): only linspace, arange, "
              "slice diag, vandermonde, transpose, row_to_col_major, col_to_row_major, diag_matrix, toeplitz, eye and the rotation matrices; every Matrix / Vector "
              "method of the mechanism list (new, reshape, reshape_mut, t, t_mut, hcat, vcat, hrepeat, vrepeat, apply_along_row/col, row/column extraction, indexing, "
              "Matrix::diag, is_symmetric, the triangular predicates, close_to, PartialEq, design, is_design, sort, sums, constructors) is hand-modelled and tied at "
              "run time only (listed in TRUSTED)."),
        design="DESIGN.md §6 C15",
        technique="Lean 4 proof (invariant by induction over operation lists, row-view refinement, ring/linear_combination) + bit-exact stateful correspondence"),
}

REASONS = {}

def main():
    checks = []
    for pid in ALL:
        if pid not in CLAIMED:
            continue
        c = CLAIMED[pid]
        checks.append({
            "property_id": pid,
            "quick_cmd": "./check %s --tier quick" % pid,
            "thorough_cmd": "./check %s --tier thorough" % pid,
            "evidence_file": "/verif/evidence/%s.json" % pid,
            "replay_cmd_template": "./check %s --replay {path}" % pid,
            "engine": "lean-proof+correspondence",
            "level_claimed": {"category": "proof", "text": c["text"], "design_ref": c["design"]},
            "level_note": NOTE + (" " + c["note"] if c.get("note") else ""),
            "technique": c["technique"],
        })
    na = [{"property_id": pid, "reason": REASONS.get(pid, "not claimed yet: model, theorems and correspondence for this property are still being built (see DESIGN.md §6 for the plan); no other technique is substituted")}
          for pid in ALL if pid not in CLAIMED]
    m = {
        "version": 1,
        "setup_cmd": "./setup.sh",
        "hooks": {
            "guard": "compute_verif",
            "enable": "none needed: every anchor is reachable through the public API; the executor crate /verif/exec depends on /repo by path",
            "baseline_off_cmd": "cd /repo && cargo test --workspace --no-fail-fast --offline",
            "source_commits": [],
            "add_only": True,
        },
        "engines": [
            {"name": "lean-proof+correspondence", "path": "/verif/check",
             "serves_properties": sorted(CLAIMED),
             "kind_free_text": "Lean 4 theorems over an executable model (lean/Compute), regenerated tables (tools/extract), bit-exact differential execution of model (lean_exe) vs. Rust (exec/), independent Python oracles as failing-input search"},
        ],
        "checks": checks,
        "not_applicable": na,
        "notes": "See DESIGN.md. known_findings.txt lists open findings and fixed defects.",
    }
    with open(os.path.join(VERIF, "MANIFEST.json"), "w") as f:
        json.dump(m, f, indent=1)
        f.write("\n")

if __name__ == "__main__":
    main()
